/-
  D128/Proofs/MulQuoQuoCode.lean — stage decomposition of the generated `Gen.Decimal.QuoWithMode`
  (Go: /repo/arith.go, `func (d Decimal) QuoWithMode`).

  The generated function is one long `do` block with nine `while` loops (two of them with nested
  loops).  We name the loop bodies and the continuations; every name is tied to the generated
  definition by `QuoWithMode_eq`, which is proved by definitional unfolding
  (`unfold …; simp only []`), so it breaks when the generated code changes.  Nothing
  here is a model that anything is proved "instead of".

  Provided (namespace `MQ`):
  * `d64Body4`, `d64Body1`     : `for dSig64 <= 0x0002_7fff_ffff_ffff { dSig64 *= 10_000; exp -= 4 }`, `… *= 10`
  * `fs4Body`, `fs1Body`, `fastBody` : the digit-accumulation loop of the 64-bit fast path and its two
                                 scaling loops
  * `dBody4`, `dBody1`         : `for dSig[1] <= 0x0002_7fff_ffff_ffff { dSig = dSig.mul64(10_000); exp -= 4 }`, …
  * `ms4Body`, `ms1Body`, `dropBody192`, `mainBody` : the 128-bit digit-accumulation loop, its two scaling
                                 loops and the loop that drops digits of the 192-bit sum
  * `quoRound`, `quoTail`      : `reduce128`, overflow test, `compose`; main loop, final sticky, `quoRound`
  * `quoFast`, `quoGen`, `quoWide`, `quoFinite` : the 64-bit path, the 128-bit path, their selection
  * `QuoWithMode_eq`           : for finite non-zero operands
      `Gen.Decimal.QuoWithMode d o rm = quoFinite rm (d.Signbit != o.Signbit) dSig dExp oSig oExp`
-/
import D128.Gen.Arith
import D128.Proofs.RoundKernelCode

set_option autoImplicit false
set_option maxRecDepth 8192
set_option linter.unusedVariables false

namespace MQ
open Gen

/-! ## the 64-bit fast path -/

/-- `for dSig64 <= 0x0002_7fff_ffff_ffff { dSig64 *= 10_000; exp -= 4 }` -/
def d64Body4 (_ : Unit) (s : Int16 × UInt64) : Go.GoM (ForInStep (Int16 × UInt64)) :=
  if decide (s.2 ≤ 703687441776639) = true then pure (ForInStep.yield (s.1 - 4, s.2 * 10000))
  else pure (ForInStep.done (s.1, s.2))

/-- `for dSig64 <= 0x18ff_ffff_ffff_ffff { dSig64 *= 10; exp-- }` -/
def d64Body1 (_ : Unit) (s : Int16 × UInt64) : Go.GoM (ForInStep (Int16 × UInt64)) :=
  if decide (s.2 ≤ 1801439850948198399) = true then pure (ForInStep.yield (s.1 - 1, s.2 * 10))
  else pure (ForInStep.done (s.1, s.2))

/-- state `(exp, sig64, rem64)`: scale both by 10⁴ while both are small -/
def fs4Body (_ : Unit) (s : Int16 × UInt64 × UInt64) : Go.GoM (ForInStep (Int16 × UInt64 × UInt64)) :=
  if (decide (s.2.2 ≤ 703687441776639) && decide (s.2.1 ≤ 703687441776639)) = true then
    pure (ForInStep.yield (s.1 - 4, s.2.1 * 10000, s.2.2 * 10000))
  else pure (ForInStep.done (s.1, s.2.1, s.2.2))

/-- state `(exp, sig64, rem64)`: scale both by 10 while both are small -/
def fs1Body (_ : Unit) (s : Int16 × UInt64 × UInt64) : Go.GoM (ForInStep (Int16 × UInt64 × UInt64)) :=
  if (decide (s.2.2 ≤ 1801439850948198399) && decide (s.2.1 ≤ 1801439850948198399)) = true then
    pure (ForInStep.yield (s.1 - 1, s.2.1 * 10, s.2.2 * 10))
  else pure (ForInStep.done (s.1, s.2.1, s.2.2))

abbrev FSt := Int16 × UInt64 × UInt64 × UInt64

/-- the digit-accumulation loop of the fast path, state `(exp, sig64, rem64, carry)` -/
def fastBody (o : UInt64) (_ : Unit) (s : FSt) : Go.GoM (ForInStep FSt) :=
  if (s.2.2.1 != 0 && decide (s.2.1 ≤ 1801439850948198399)) = true then do
    let s1 ← forIn Lean.Loop.mk (s.1, s.2.1, s.2.2.1) fs4Body
    let s2 ← forIn Lean.Loop.mk (s1.1, s1.2.1, s1.2.2) fs1Body
    if decide (s2.2.2 < o) = true then
      pure (ForInStep.done (s2.1, s2.2.1, s2.2.2, s.2.2.2))
    else do
      let t ← Go.bits.Div64 0 s2.2.2 o
      if ((Go.bits.Add64 s2.2.1 t.1 0).2 != 0) = true then
        pure (ForInStep.done (s2.1, (Go.bits.Add64 s2.2.1 t.1 0).1, t.2, (Go.bits.Add64 s2.2.1 t.1 0).2))
      else
        pure (ForInStep.yield (s2.1, (Go.bits.Add64 s2.2.1 t.1 0).1, t.2, (Go.bits.Add64 s2.2.1 t.1 0).2))
  else pure (ForInStep.done (s.1, s.2.1, s.2.2.1, s.2.2.2))

/-! ## the 128-bit path -/

/-- `for dSig[1] <= 0x0002_7fff_ffff_ffff { dSig = dSig.mul64(10_000); exp -= 4 }` -/
def dBody4 (_ : Unit) (s : U128 × Int16) : Go.GoM (ForInStep (U128 × Int16)) :=
  if decide (s.1.w1 ≤ 703687441776639) = true then
    pure (ForInStep.yield (U128.mul64 s.1 10000, s.2 - 4))
  else pure (ForInStep.done (s.1, s.2))

/-- `for dSig[1] <= 0x18ff_ffff_ffff_ffff { dSig = dSig.mul64(10); exp-- }` -/
def dBody1 (_ : Unit) (s : U128 × Int16) : Go.GoM (ForInStep (U128 × Int16)) :=
  if decide (s.1.w1 ≤ 1801439850948198399) = true then
    pure (ForInStep.yield (U128.mul64 s.1 10, s.2 - 1))
  else pure (ForInStep.done (s.1, s.2))

/-- state `(exp, sig, rem)`: scale both by 10⁴ while both are small -/
def ms4Body (_ : Unit) (s : Int16 × U128 × U128) : Go.GoM (ForInStep (Int16 × U128 × U128)) :=
  if (decide (s.2.2.w1 ≤ 703687441776639) && decide (s.2.1.w1 ≤ 703687441776639)) = true then
    pure (ForInStep.yield (s.1 - 4, U128.mul64 s.2.1 10000, U128.mul64 s.2.2 10000))
  else pure (ForInStep.done (s.1, s.2.1, s.2.2))

/-- state `(exp, sig, rem)`: scale both by 10 while both are small -/
def ms1Body (_ : Unit) (s : Int16 × U128 × U128) : Go.GoM (ForInStep (Int16 × U128 × U128)) :=
  if (decide (s.2.2.w1 ≤ 1801439850948198399) && decide (s.2.1.w1 ≤ 1801439850948198399)) = true then
    pure (ForInStep.yield (s.1 - 1, U128.mul64 s.2.1 10, U128.mul64 s.2.2 10))
  else pure (ForInStep.done (s.1, s.2.1, s.2.2))

/-- `for sig192[2] != 0 { sig192, rem192 = sig192.div10(); exp++; if rem192 != 0 { trunc = 1 } }`,
    state `(exp, trunc, sig192)` -/
def dropBody192 (_ : Unit) (s : Int16 × Int8 × U192) : Go.GoM (ForInStep (Int16 × Int8 × U192)) :=
  if (s.2.2.w2 != 0) = true then do
    let x ← U192.div10 s.2.2
    if (x.2 != 0) = true then pure (ForInStep.yield (s.1 + 1, 1, x.1))
    else pure (ForInStep.yield (s.1 + 1, s.2.1, x.1))
  else pure (ForInStep.done (s.1, s.2.1, s.2.2))

abbrev MSt := Int16 × U128 × U128 × Int8

/-- the 128-bit digit-accumulation loop, state `(exp, sig, rem, trunc)` -/
def mainBody (oS : U128) (_ : Unit) (s : MSt) : Go.GoM (ForInStep MSt) :=
  if (s.2.2.1.w0 ||| s.2.2.1.w1 != 0 && decide (s.2.1.w1 ≤ 703687441776639)) = true then do
    let s1 ← forIn Lean.Loop.mk (s.1, s.2.1, s.2.2.1) ms4Body
    let s2 ← forIn Lean.Loop.mk (s1.1, s1.2.1, s1.2.2) ms1Body
    let x ← U128.div s2.2.2 oS
    let s3 ← forIn Lean.Loop.mk (s2.1, s.2.2.2, U128.add s2.2.1 x.1) dropBody192
    pure (ForInStep.yield (s3.1, { w0 := s3.2.2.w0, w1 := s3.2.2.w1 }, x.2, s3.2.1))
  else pure (ForInStep.done (s.1, s.2.1, s.2.2.1, s.2.2.2))

/-- rounding, overflow test, `compose` -/
def quoRound (rm : UInt8) (neg : Bool) (sig : U128) (exp : Int16) (trunc : Int8) : Go.GoM Decimal := do
  let x ← RoundingMode.reduce128 rm neg sig exp trunc
  if decide (x.2 > 12287) = true then pure (inf neg) else pure (compose neg x.1 x.2)

/-- everything after the first division: main loop, final sticky, rounding, overflow test -/
def quoTail (rm : UInt8) (neg : Bool) (oS : U128) (exp : Int16) (sig rem : U128) : Go.GoM Decimal := do
  let s ← forIn Lean.Loop.mk (exp, sig, rem, (0 : Int8)) (mainBody oS)
  if (s.2.2.1.w0 ||| s.2.2.1.w1 != 0) = true then quoRound rm neg s.2.1 s.1 1
  else quoRound rm neg s.2.1 s.1 s.2.2.2

/-- the 64-bit fast path (`dSig[1]|oSig[1] == 0`) -/
def quoFast (rm : UInt8) (neg : Bool) (dS : U128) (oS : U128) (exp : Int16) : Go.GoM Decimal := do
  let s ← forIn Lean.Loop.mk (exp, dS.w0) d64Body4
  let s ← forIn Lean.Loop.mk (s.1, s.2) d64Body1
  let t ← Go.bits.Div64 0 s.2 oS.w0
  let s' ← forIn Lean.Loop.mk (s.1, t.1, t.2, (0 : UInt64)) (fastBody oS.w0)
  quoTail rm neg oS s'.1 { w0 := s'.2.1, w1 := s'.2.2.2 } { w0 := s'.2.2.1, w1 := 0 }

/-- the 128-bit path after the optional pre-scaling by 10¹⁹ -/
def quoWide (rm : UInt8) (neg : Bool) (oS : U128) (dS : U128) (exp : Int16) : Go.GoM Decimal := do
  let s ← forIn Lean.Loop.mk (dS, exp) dBody4
  let s ← forIn Lean.Loop.mk (s.1, s.2) dBody1
  let x ← U128.div s.1 oS
  quoTail rm neg oS s.2 x.1 x.2

/-- the 128-bit path -/
def quoGen (rm : UInt8) (neg : Bool) (dS : U128) (oS : U128) (exp : Int16) : Go.GoM Decimal :=
  if (dS.w1 == 0) = true then quoWide rm neg oS (U128.mul64 dS 10000000000000000000) (exp - 19)
  else quoWide rm neg oS dS exp

/-- `QuoWithMode` for finite non-zero operands with significands `dS`, `oS` and biased exponents
    `dE`, `oE` -/
def quoFinite (rm : UInt8) (neg : Bool) (dS : U128) (dE : Int16) (oS : U128) (oE : Int16) :
    Go.GoM Decimal :=
  if (dS.w1 ||| oS.w1 == 0) = true then quoFast rm neg dS oS (dE - 6176 - (oE - 6176) + 6176)
  else quoGen rm neg dS oS (dE - 6176 - (oE - 6176) + 6176)

theorem QuoWithMode_eq (d o : Decimal) (rm : UInt8)
    (hd : Decimal.isSpecial d = false) (ho : Decimal.isSpecial o = false)
    (hzo : ((Decimal.decompose o).1.w0 ||| (Decimal.decompose o).1.w1 == 0) = false)
    (hzd : ((Decimal.decompose d).1.w0 ||| (Decimal.decompose d).1.w1 == 0) = false) :
    Decimal.QuoWithMode d o rm =
      quoFinite rm (Decimal.Signbit d != Decimal.Signbit o) (Decimal.decompose d).1
        (Decimal.decompose d).2 (Decimal.decompose o).1 (Decimal.decompose o).2 := by
  unfold Decimal.QuoWithMode
  simp only [hd, ho, Bool.or_self, Bool.false_eq_true, if_false, hzo, hzd]
  unfold quoFinite quoGen quoWide quoFast quoTail quoRound mainBody dropBody192 ms1Body ms4Body dBody1 dBody4
    fastBody fs1Body fs4Body d64Body1 d64Body4
  simp only []

end MQ
