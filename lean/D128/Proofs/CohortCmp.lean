/-
  D128/Proofs/CohortCmp.lean — the comparison functions of the specification (property C04) depend on
  the operand values only (property C19, first clause; pure specification-level mathematics).

  * `cmp_congr_num`      `Spec.cmp`     (any two NaNs are interchangeable: the answer is "unordered")
  * `cmpAbs_congr_num`, `equal_congr_num`, `compare_congr_num`
  * `isZero_congr_num`, `sign_congr_num`
  * `minVal_congr`, `maxVal_congr`          (`same` operands ⇒ `same` result)
  * `minVal_congr_num`, `maxVal_congr_num`  (`sameNum` operands ⇒ `sameNum` result)
-/
import D128.Proofs.CohortArith
import D128.Proofs.CmpOrder
set_option autoImplicit false

namespace Cohort
open Spec

/-- `same` up to the NaN payload is enough for `Spec.cmp` -/
theorem cmp_congr_num {x x' y y' : Val} (hx : x.sameNum x' = true) (hy : y.sameNum y' = true) :
    Spec.cmp x y = Spec.cmp x' y' := by
  rcases sameNum_cases hx with ⟨n, p, n', p', rfl, rfl⟩ | ⟨n, rfl, rfl⟩ | ⟨n, c, e, c', e', rfl, rfl, hm⟩
  · simp only [CmpPf.cmp_nan_left]
  · rcases sameNum_cases hy with ⟨m, q, m', q', rfl, rfl⟩ | ⟨m, rfl, rfl⟩ | ⟨m, b, f, b', f', rfl, rfl, hm'⟩
    · simp only [CmpPf.cmp_nan_right]
    · rfl
    · simp only [CmpPf.cmp_inf_fin]
  · have h1 : (Val.fin n c e).same (.fin n c' e') = true := (same_fin_iff _ _ _ _ _ _).2 ⟨rfl, hm⟩
    rcases sameNum_cases hy with ⟨m, q, m', q', rfl, rfl⟩ | ⟨m, rfl, rfl⟩ | ⟨m, b, f, b', f', rfl, rfl, hm'⟩
    · simp only [CmpPf.cmp_nan_right]
    · simp only [CmpPf.cmp_fin_inf]
    · exact CmpPf.spec_cmp_congr _ _ _ _ h1 ((same_fin_iff _ _ _ _ _ _).2 ⟨rfl, hm'⟩)

theorem absVal_congr_num {x x' : Val} (h : x.sameNum x' = true) :
    (absVal x).sameNum (absVal x') = true := by
  rcases sameNum_cases h with ⟨n, p, n', p', rfl, rfl⟩ | ⟨n, rfl, rfl⟩ | ⟨n, c, e, c', e', rfl, rfl, hm⟩
  · rfl
  · exact sameNum_refl _
  · exact sameNum_of_same (absVal_congr ((same_fin_iff _ _ _ _ _ _).2 ⟨rfl, hm⟩))

theorem cmpAbs_congr_num {x x' y y' : Val} (hx : x.sameNum x' = true) (hy : y.sameNum y' = true) :
    Spec.cmpAbs x y = Spec.cmpAbs x' y' :=
  cmp_congr_num (absVal_congr_num hx) (absVal_congr_num hy)

theorem equal_congr_num {x x' y y' : Val} (hx : x.sameNum x' = true) (hy : y.sameNum y' = true) :
    Spec.equal x y = Spec.equal x' y' := by
  unfold Spec.equal; rw [cmp_congr_num hx hy]

theorem compare_congr_num {x x' y y' : Val} (hx : x.sameNum x' = true) (hy : y.sameNum y' = true) :
    Spec.compare x y = Spec.compare x' y' := by
  unfold Spec.compare; rw [cmp_congr_num hx hy, isNaN_congr hx, isNaN_congr hy]

theorem specIsZero_eq (x : Val) : Spec.isZero x = x.isZero := by
  cases x with
  | nan _ _ => rfl
  | inf _ => rfl
  | fin n c e => cases c <;> rfl

theorem isZero_congr_num {x x' : Val} (h : x.sameNum x' = true) : Spec.isZero x = Spec.isZero x' := by
  rw [specIsZero_eq, specIsZero_eq, isZero_congr h]

theorem sign_congr_num {x x' : Val} (h : x.sameNum x' = true) : Spec.sign x = Spec.sign x' := by
  rcases sameNum_cases h with ⟨n, p, n', p', rfl, rfl⟩ | ⟨n, rfl, rfl⟩ | ⟨n, c, e, c', e', rfl, rfl, hm⟩
  · rfl
  · rfl
  · simp only [Spec.sign]; rw [beq_zero_congr hm]

/-! ## Min, Max -/

theorem minVal_nonNaN (a b : Val) (ha : a.isNaN = false) (hb : b.isNaN = false) :
    Spec.minVal a b =
      if a.isZero && b.isZero then .fin (a.neg || b.neg) 0 0
      else if Spec.cmp b a == -1 then b else a := by
  cases a <;> cases b <;> simp_all [Val.isNaN, Spec.minVal]

theorem maxVal_nonNaN (a b : Val) (ha : a.isNaN = false) (hb : b.isNaN = false) :
    Spec.maxVal a b =
      if a.isZero && b.isZero then .fin (a.neg && b.neg) 0 0
      else if Spec.cmp b a == 1 then b else a := by
  cases a <;> cases b <;> simp_all [Val.isNaN, Spec.maxVal]

theorem minVal_nan_left (n : Bool) (p : UInt64) (b : Val) : Spec.minVal (.nan n p) b = .nan n p := by
  simp [Spec.minVal]
theorem maxVal_nan_left (n : Bool) (p : UInt64) (b : Val) : Spec.maxVal (.nan n p) b = .nan n p := by
  simp [Spec.maxVal]
theorem minVal_nan_right (a : Val) (n : Bool) (p : UInt64) (ha : a.isNaN = false) :
    Spec.minVal a (.nan n p) = .nan n p := by
  cases a <;> simp_all [Val.isNaN, Spec.minVal]
theorem maxVal_nan_right (a : Val) (n : Bool) (p : UInt64) (ha : a.isNaN = false) :
    Spec.maxVal a (.nan n p) = .nan n p := by
  cases a <;> simp_all [Val.isNaN, Spec.maxVal]

theorem minVal_isNaN_left (x y : Val) (h : x.isNaN = true) : (Spec.minVal x y).isNaN = true := by
  cases x with
  | nan n p => rw [minVal_nan_left]; rfl
  | inf _ => simp [Val.isNaN] at h
  | fin _ _ _ => simp [Val.isNaN] at h
theorem maxVal_isNaN_left (x y : Val) (h : x.isNaN = true) : (Spec.maxVal x y).isNaN = true := by
  cases x with
  | nan n p => rw [maxVal_nan_left]; rfl
  | inf _ => simp [Val.isNaN] at h
  | fin _ _ _ => simp [Val.isNaN] at h
theorem minVal_isNaN_right (x y : Val) (h : y.isNaN = true) : (Spec.minVal x y).isNaN = true := by
  cases hx : x.isNaN
  · cases y with
    | nan n p => rw [minVal_nan_right x n p hx]; rfl
    | inf _ => simp [Val.isNaN] at h
    | fin _ _ _ => simp [Val.isNaN] at h
  · exact minVal_isNaN_left x y hx
theorem maxVal_isNaN_right (x y : Val) (h : y.isNaN = true) : (Spec.maxVal x y).isNaN = true := by
  cases hx : x.isNaN
  · cases y with
    | nan n p => rw [maxVal_nan_right x n p hx]; rfl
    | inf _ => simp [Val.isNaN] at h
    | fin _ _ _ => simp [Val.isNaN] at h
  · exact maxVal_isNaN_left x y hx

theorem minVal_congr {x x' y y' : Val} (hx : x.same x' = true) (hy : y.same y' = true) :
    (Spec.minVal x y).same (Spec.minVal x' y') = true := by
  cases hxn : x.isNaN
  · cases hyn : y.isNaN
    · have hxn' : x'.isNaN = false := by rw [← isNaN_congr (sameNum_of_same hx)]; exact hxn
      have hyn' : y'.isNaN = false := by rw [← isNaN_congr (sameNum_of_same hy)]; exact hyn
      rw [minVal_nonNaN x y hxn hyn, minVal_nonNaN x' y' hxn' hyn',
        ← isZero_congr (sameNum_of_same hx), ← isZero_congr (sameNum_of_same hy),
        ← neg_congr hx, ← neg_congr hy,
        ← cmp_congr_num (sameNum_of_same hy) (sameNum_of_same hx)]
      split_ifs
      · exact same_refl _
      · exact hy
      · exact hx
    · have hx0 : x'.isNaN = false := by rw [← isNaN_congr (sameNum_of_same hx)]; exact hxn
      rcases same_cases hy with ⟨n, p, rfl, rfl⟩ | ⟨n, rfl, rfl⟩ | ⟨n, c, e, c', e', rfl, rfl, hm⟩
      · rw [minVal_nan_right x n p hxn, minVal_nan_right x' n p hx0]; exact same_refl _
      · simp [Val.isNaN] at hyn
      · simp [Val.isNaN] at hyn
  · rcases same_cases hx with ⟨n, p, rfl, rfl⟩ | ⟨n, rfl, rfl⟩ | ⟨n, c, e, c', e', rfl, rfl, hm⟩
    · rw [minVal_nan_left, minVal_nan_left]; exact same_refl _
    · simp [Val.isNaN] at hxn
    · simp [Val.isNaN] at hxn

theorem maxVal_congr {x x' y y' : Val} (hx : x.same x' = true) (hy : y.same y' = true) :
    (Spec.maxVal x y).same (Spec.maxVal x' y') = true := by
  cases hxn : x.isNaN
  · cases hyn : y.isNaN
    · have hxn' : x'.isNaN = false := by rw [← isNaN_congr (sameNum_of_same hx)]; exact hxn
      have hyn' : y'.isNaN = false := by rw [← isNaN_congr (sameNum_of_same hy)]; exact hyn
      rw [maxVal_nonNaN x y hxn hyn, maxVal_nonNaN x' y' hxn' hyn',
        ← isZero_congr (sameNum_of_same hx), ← isZero_congr (sameNum_of_same hy),
        ← neg_congr hx, ← neg_congr hy,
        ← cmp_congr_num (sameNum_of_same hy) (sameNum_of_same hx)]
      split_ifs
      · exact same_refl _
      · exact hy
      · exact hx
    · have hx0 : x'.isNaN = false := by rw [← isNaN_congr (sameNum_of_same hx)]; exact hxn
      rcases same_cases hy with ⟨n, p, rfl, rfl⟩ | ⟨n, rfl, rfl⟩ | ⟨n, c, e, c', e', rfl, rfl, hm⟩
      · rw [maxVal_nan_right x n p hxn, maxVal_nan_right x' n p hx0]; exact same_refl _
      · simp [Val.isNaN] at hyn
      · simp [Val.isNaN] at hyn
  · rcases same_cases hx with ⟨n, p, rfl, rfl⟩ | ⟨n, rfl, rfl⟩ | ⟨n, c, e, c', e', rfl, rfl, hm⟩
    · rw [maxVal_nan_left, maxVal_nan_left]; exact same_refl _
    · simp [Val.isNaN] at hxn
    · simp [Val.isNaN] at hxn

theorem minVal_congr_num {x x' y y' : Val} (hx : x.sameNum x' = true) (hy : y.sameNum y' = true) :
    (Spec.minVal x y).sameNum (Spec.minVal x' y') = true :=
  lift_num Spec.minVal (fun _ _ _ _ h1 h2 => minVal_congr h1 h2)
    minVal_isNaN_left minVal_isNaN_right hx hy

theorem maxVal_congr_num {x x' y y' : Val} (hx : x.sameNum x' = true) (hy : y.sameNum y' = true) :
    (Spec.maxVal x y).sameNum (Spec.maxVal x' y') = true :=
  lift_num Spec.maxVal (fun _ _ _ _ h1 h2 => maxVal_congr h1 h2)
    maxVal_isNaN_left maxVal_isNaN_right hx hy

end Cohort
