/-
  D128/Proofs/D192OneNegContract.lean — rational contract of `decomposed192.add1neg` for ALL inputs
  (Go: /repo/decomposed.go; ℕ-level description and Hoare triple in D192OneNeg.lean).

  `add1neg d t = (neg, r, t')` computes `1 - d` as sign and magnitude; `m = |1 - val d|`.
  * `add1neg_contract` : no panic, terminates;
        `neg = true ↔ 1 < val d`;   `val r - ulp r < m ≤ val r`  (never an under-estimate: digits of
        `d` are only dropped when `d.exp < -57`, hence `d < 0.63`);
        classification (flag convention of the package: `+1` = true magnitude ABOVE the result):
          (exact)  `m = val r`, `t' = t` if `¬neg`, `t' = t * -1` if `neg`
          (A)      `m < val r`, `r = one`, `t' = t`, `d.exp < -116`   — DEFECT: inexact, flag untouched
          (O+)     `m < val r`, `t' = 1`, and `r = one` (early exit) or `val r = val d` (1 dropped) or
                   `¬neg ∧ r.exp = -57` (digits of `d` dropped on path C)  — DEFECT: overshoot flagged `+1`
        absolute error `< 10^-57`, or exactly 1 with `val r ≥ 10^57`.
        (Even the pass-through in the exact class is inverted w.r.t. `sub1`: for `d < 1` the incoming flag
        describes `d`, and `1 - d` errs in the opposite direction, but `t' = t`; for `d > 1`, `t' = t * -1`
        although `d - 1` errs in the same direction as `d`.)
  * per path: `add1neg_zero`, `add1neg_tiny`, `add1neg_huge`, `add1neg_down`, `add1neg_up`.
  * FINDINGS (universally quantified theorems about the generated code):
      `add1neg_tiny_flag_untouched` : `d.sig ≠ 0`, `d.exp < -116` ⇒ `(false, one, t)` — for `t = 0` the flag
                                      says "exact" although `|1 - d| < 1 = val one`
      `add1neg_huge_flag_wrong`     : `58 < d.exp` ⇒ `(true, d, 1)` although `|1 - d| < val d`
      `add1neg_dropped_flag_wrong`  : path C with a non-zero digit dropped ⇒ `(false, r, 1)` with
                                      `|1 - d| < val r` (`sub1` returns `-1` on the same input)
    The only caller (`exp.go`: `_, res, _ = res.add1neg(0)`) discards the flag.
-/
import D128.Proofs.D192OneNeg
import D128.Proofs.D192OneVal

set_option autoImplicit false
set_option maxRecDepth 4096
set_option exponentiation.threshold 512

namespace D192

/-- rational contract of `add1neg` (`m = |1 - val d| = |val d - 1|` is the true magnitude): see
`add1neg_contract`. -/
def Add1NegQ (d : Gen.decomposed192) (t : Int8) (neg : Bool) (r : Gen.decomposed192) (t' : Int8) :
    Prop :=
  (neg = true ↔ 1 < val d) ∧
  val r - ulp r < |val d - 1| ∧ |val d - 1| ≤ val r ∧
  ((|val d - 1| = val r ∧ (neg = false → t' = t) ∧ (neg = true → t' = t * -1)) ∨
   (|val d - 1| < val r ∧ r = one ∧ t' = t ∧ d.exp.toInt < -116) ∨
   (|val d - 1| < val r ∧ t' = 1 ∧
      (r = one ∨ val r = val d ∨ (neg = false ∧ r.exp.toInt = -57)))) ∧
  (|(|val d - 1|) - val r| < (10 : ℚ) ^ (-57 : Int) ∨
    (val r - |val d - 1| = 1 ∧ (10 : ℚ) ^ 57 ≤ val r))

theorem negQ_zero (d : Gen.decomposed192) (t : Int8) (h : d.sig.toNat = 0) :
    Add1NegQ d t false one t := by
  have hv : val d = 0 := by unfold val; rw [h]; simp
  unfold Add1NegQ
  rw [hv, val_one, ulp_one]
  have : |(0 : ℚ) - 1| = 1 := by norm_num
  rw [this]
  refine ⟨by norm_num, by norm_num, by norm_num,
    Or.inl ⟨rfl, fun _ => rfl, by simp⟩, ?_⟩
  left; norm_num

/-- the argument is dropped entirely (paths A and C-early): `0 < val d < 10^-57`. -/
theorem negQ_drop (d : Gen.decomposed192) (t t' : Int8) (h0 : 0 < val d)
    (h1 : val d < (10 : ℚ) ^ (-57 : Int)) (hf : t' = 1 ∨ (t' = t ∧ d.exp.toInt < -116)) :
    Add1NegQ d t false one t' := by
  unfold Add1NegQ
  rw [val_one, ulp_one]
  have h2 : (10 : ℚ) ^ (-57 : Int) < 1 := by norm_num
  have habs : |val d - 1| = 1 - val d := by rw [abs_of_neg (by linarith)]; ring
  rw [habs]
  refine ⟨by simp; linarith, by linarith, by linarith, ?_, Or.inl ?_⟩
  · rcases hf with h | ⟨h, he⟩
    · exact Or.inr (Or.inr ⟨by linarith, h, Or.inl rfl⟩)
    · exact Or.inr (Or.inl ⟨by linarith, rfl, h, he⟩)
  · rw [abs_of_neg (by linarith)]; linarith

/-- the `1` is dropped (paths B and D-return). -/
theorem negQ_keep (d : Gen.decomposed192) (t : Int8) (r : Gen.decomposed192) (hv : val r = val d)
    (hu : 1 < ulp r) (hb : (10 : ℚ) ^ 57 ≤ val r) : Add1NegQ d t true r 1 := by
  unfold Add1NegQ
  have h57 : (1 : ℚ) < (10 : ℚ) ^ 57 := by norm_num
  have habs : |val d - 1| = val d - 1 := abs_of_pos (by rw [← hv]; linarith)
  rw [habs, hv]
  rw [hv] at hb
  refine ⟨by simp; linarith, by linarith, by linarith,
    Or.inr (Or.inr ⟨by linarith, rfl, Or.inr (Or.inl rfl)⟩), Or.inr ⟨by ring, hb⟩⟩

theorem negQ_down (d : Gen.decomposed192) (t : Int8) (neg : Bool) (r : Gen.decomposed192) (t' : Int8)
    (h : NegDown d t (neg, r, t')) : Add1NegQ d t neg r t' := by
  obtain ⟨k, he, hlo, hhi, hk, hpos, hnb, hb⟩ := h
  simp only at he hlo hhi hk hnb hb
  obtain ⟨tv1, tv2, tv3⟩ := trunc_val d.sig.toNat k d.exp.toInt
  rw [← he] at tv1 tv2 tv3
  have hu : ulp r = (10 : ℚ) ^ r.exp.toInt := rfl
  have hupos := ulp_pos r
  have hone := pow_neg_mul r.exp.toInt hhi
  set s : Nat := d.sig.toNat / 10 ^ k with hs
  set p : Nat := 10 ^ (-r.exp.toInt).toNat with hp
  have hvd : val d = (d.sig.toNat : ℚ) * (10 : ℚ) ^ d.exp.toInt := rfl
  rw [← hvd, ← hu] at tv1 tv2 tv3
  rw [← hu] at hone
  have hulp : val d ≠ (s : ℚ) * ulp r → ulp r = (10 : ℚ) ^ (-57 : Int) := by
    intro hne
    rcases hk with h0 | h0
    · exfalso; apply hne; symm; apply tv3.mpr; rw [h0]; simp [Nat.mod_one]
    · rw [hu, h0]
  have hsp : k ≠ 0 → s < p := by
    intro hk0
    have h57 : r.exp.toInt = -57 := hk.resolve_left hk0
    have : p = 10 ^ 57 := by rw [hp, h57]; rfl
    rw [this]
    exact dropped_lt _ _ (U192.toNat_lt d.sig) hk0
  by_cases hc : s ≤ p
  · obtain ⟨rfl, hsig, ht⟩ := hnb hc
    have hvr : val r = 1 - (s : ℚ) * ulp r := by
      rw [val_eq, hsig, Nat.cast_sub hc, sub_mul, hone]
    have hps : (s : ℚ) * ulp r ≤ 1 := by
      rw [← hone]; exact mul_le_mul_of_nonneg_right (by exact_mod_cast hc) hupos.le
    by_cases hex : d.sig.toNat % 10 ^ k = 0
    · -- exact
      have hval : val d = (s : ℚ) * ulp r := (tv3.mpr hex).symm
      rw [if_pos hex] at ht
      have habs : |val d - 1| = 1 - val d := by
        rw [abs_of_nonpos (by linarith)]; ring
      unfold Add1NegQ
      rw [habs, hvr, hval]
      refine ⟨by simp; exact hps, by linarith, by linarith,
        Or.inl ⟨rfl, fun _ => ht, by simp⟩, Or.inl ?_⟩
      simp
    · rw [if_neg hex] at ht
      have hne : val d ≠ (s : ℚ) * ulp r := fun h => hex (tv3.mp h.symm)
      have hlt : (s : ℚ) * ulp r < val d := lt_of_le_of_ne tv1 (Ne.symm hne)
      have h57 := hulp hne
      have hk0 : k ≠ 0 := fun h0 => hex (by rw [h0]; simp [Nat.mod_one])
      have hlt' := hsp hk0
      have hd1 : val d < 1 := by
        have h1 : (s : ℚ) + 1 ≤ (p : ℚ) := by exact_mod_cast hlt'
        have : ((s : ℚ) + 1) * ulp r ≤ 1 := by
          calc ((s : ℚ) + 1) * ulp r ≤ (p : ℚ) * ulp r :=
                mul_le_mul_of_nonneg_right h1 hupos.le
            _ = 1 := hone
        linarith
      have habs : |val d - 1| = 1 - val d := by rw [abs_of_nonpos (by linarith)]; ring
      unfold Add1NegQ
      rw [habs, hvr]
      refine ⟨by simp; linarith, by linarith, by linarith,
        Or.inr (Or.inr ⟨by linarith, ht, Or.inr (Or.inr ⟨rfl, hk.resolve_left hk0⟩)⟩), Or.inl ?_⟩
      rw [← h57, abs_of_neg (by linarith)]; linarith
  · have hc' : p < s := Nat.lt_of_not_le hc
    obtain ⟨rfl, hsig, ht⟩ := hb hc'
    have hk0 : k = 0 := by
      by_contra hk0; have := hsp hk0; omega
    have hex : d.sig.toNat % 10 ^ k = 0 := by rw [hk0]; simp [Nat.mod_one]
    have hval := tv3.mpr hex
    rw [if_pos hex] at ht
    have hvr : val r = (s : ℚ) * ulp r - 1 := by
      rw [val_eq, hsig, Nat.cast_sub hc'.le, sub_mul, hone]
    have hps : 1 + ulp r ≤ (s : ℚ) * ulp r := by
      have h1 : (p : ℚ) + 1 ≤ (s : ℚ) := by exact_mod_cast hc'
      calc 1 + ulp r = ((p : ℚ) + 1) * ulp r := by rw [add_mul, hone, one_mul]
        _ ≤ (s : ℚ) * ulp r := mul_le_mul_of_nonneg_right h1 hupos.le
    have hgt1 : 1 < val d := by linarith
    have habs : |val d - 1| = val d - 1 := abs_of_pos (by linarith)
    unfold Add1NegQ
    rw [habs, hvr]
    refine ⟨by simp; exact hgt1, by linarith, by linarith,
      Or.inl ⟨by linarith, by simp, fun _ => ht⟩, Or.inl ?_⟩
    rw [← hval]; simp

theorem negQ_up (d : Gen.decomposed192) (t : Int8) (neg : Bool) (r : Gen.decomposed192) (t' : Int8)
    (hs : 0 < d.sig.toNat) (hlo : 0 < d.exp.toInt) (h : NegUp d t (neg, r, t')) :
    Add1NegQ d t neg r t' := by
  obtain ⟨j, hlt, he, h0, hneg, hne, hz⟩ := h
  simp only at he h0 hneg hne hz
  subst hneg
  by_cases hr0 : r.exp.toInt = 0
  · obtain ⟨hsig, ht⟩ := hz hr0
    have hj : d.exp.toInt = j := by omega
    have hpos : 1 ≤ d.sig.toNat * 10 ^ j := Nat.mul_pos hs (Nat.pow_pos (by norm_num))
    have hvd : val d = ((d.sig.toNat * 10 ^ j : Nat) : ℚ) := by
      unfold val; rw [hj, zpow_natCast]; push_cast; ring
    have hv : val r = val d - 1 := by
      rw [hvd]; unfold val
      rw [hsig, hr0, Nat.cast_sub hpos]; simp
    have h10 : (10 : ℚ) ≤ val d := by
      have h1 : (1 : ℚ) ≤ (d.sig.toNat : ℚ) := by exact_mod_cast hs
      have h2 : (10 : ℚ) ^ (1 : Int) ≤ (10 : ℚ) ^ d.exp.toInt :=
        zpow_le_zpow_right₀ (by norm_num) (by omega)
      rw [zpow_one] at h2
      have h3 : (0 : ℚ) < (10 : ℚ) ^ d.exp.toInt := zpow_pos (by norm_num) _
      unfold val; nlinarith
    have habs : |val d - 1| = val d - 1 := abs_of_pos (by linarith)
    unfold Add1NegQ
    rw [habs, hv]
    have hu := ulp_pos r
    refine ⟨by simp; linarith, by linarith, by linarith,
      Or.inl ⟨rfl, by simp, fun _ => ht⟩, Or.inl ?_⟩
    simp
  · obtain ⟨hsig, ht, hup⟩ := hne hr0
    subst ht
    have hv : val r = val d := val_scale j hsig he
    have hu : (10 : ℚ) ≤ ulp r := by
      have : (10 : ℚ) ^ (1 : Int) ≤ (10 : ℚ) ^ r.exp.toInt :=
        zpow_le_zpow_right₀ (by norm_num) (by omega)
      simpa [ulp] using this
    refine negQ_keep d t r hv (by linarith) ?_
    rw [val_eq]
    have h2 : ((25 * 2 ^ 184 : Nat) : ℚ) ≤ (r.sig.toNat : ℚ) := by exact_mod_cast hup
    have h3 : (10 : ℚ) ^ 57 ≤ ((25 * 2 ^ 184 : Nat) : ℚ) * 10 := by norm_num
    nlinarith

theorem negQ_huge (d : Gen.decomposed192) (t : Int8) (hs : 0 < d.sig.toNat)
    (he : 58 < d.exp.toInt) : Add1NegQ d t true d 1 := by
  have hu : (10 : ℚ) ^ (59 : Int) ≤ ulp d := zpow_le_zpow_right₀ (by norm_num) (by omega)
  have h59 : (10 : ℚ) ^ (59 : Int) = (10 : ℚ) ^ 59 := by norm_num
  have h1 : (1 : ℚ) ≤ (d.sig.toNat : ℚ) := by exact_mod_cast hs
  refine negQ_keep d t d rfl (by rw [h59] at hu; linarith [show (1 : ℚ) < (10 : ℚ) ^ 59 by norm_num]) ?_
  rw [val_eq]
  have : (10 : ℚ) ^ 57 ≤ (10 : ℚ) ^ 59 := by norm_num
  nlinarith

theorem negQ_of_post (d : Gen.decomposed192) (t : Int8) (neg : Bool) (r : Gen.decomposed192)
    (t' : Int8) (h : Add1NegPost d t (neg, r, t')) : Add1NegQ d t neg r t' := by
  rcases h with ⟨h0, hx⟩ | ⟨hs, he, hx⟩ | ⟨hs, he, hx⟩ | ⟨hs, hlo, hhi, hE | hD⟩ | ⟨hs, hlo, hhi, hU⟩
  · obtain ⟨rfl, hy⟩ := Prod.mk.inj hx
    obtain ⟨rfl, rfl⟩ := Prod.mk.inj hy
    exact negQ_zero d t' h0
  · obtain ⟨rfl, hy⟩ := Prod.mk.inj hx
    obtain ⟨rfl, rfl⟩ := Prod.mk.inj hy
    refine negQ_drop d t' t' (val_pos hs) ?_ (Or.inr ⟨rfl, he⟩)
    have := val_lt_pow d (-117) (by omega)
    have e : (2 : ℚ) ^ 192 * (10 : ℚ) ^ (-117 : Int) < (10 : ℚ) ^ (-57 : Int) := by norm_num
    linarith
  · obtain ⟨rfl, hy⟩ := Prod.mk.inj hx
    obtain ⟨rfl, rfl⟩ := Prod.mk.inj hy
    exact negQ_huge r t hs he
  · obtain ⟨hx, hc⟩ := hE
    obtain ⟨rfl, hy⟩ := Prod.mk.inj hx
    obtain ⟨rfl, rfl⟩ := Prod.mk.inj hy
    exact negQ_drop d t 1 (val_pos hs) hc.val_lt (Or.inl rfl)
  · exact negQ_down d t neg r t' hD
  · exact negQ_up d t neg r t' hs hlo hU

theorem Add1NegPost.zero {d : Gen.decomposed192} {t : Int8} {x : R3}
    (h : Add1NegPost d t x) (h0 : d.sig.toNat = 0) : x = (false, one, t) := by
  rcases h with ⟨_, hx⟩ | ⟨hs, _⟩ | ⟨hs, _⟩ | ⟨hs, _⟩ | ⟨hs, _⟩
  · exact hx
  all_goals omega

theorem Add1NegPost.tiny {d : Gen.decomposed192} {t : Int8} {x : R3}
    (h : Add1NegPost d t x) (hs : 0 < d.sig.toNat) (he : d.exp.toInt < -116) :
    x = (false, one, t) := by
  rcases h with ⟨h0, _⟩ | ⟨_, _, hx⟩ | ⟨_, h1, _⟩ | ⟨_, h1, _⟩ | ⟨_, h1, _⟩
  · exact absurd h0 (Nat.ne_of_gt hs)
  · exact hx
  all_goals omega

theorem Add1NegPost.huge {d : Gen.decomposed192} {t : Int8} {x : R3}
    (h : Add1NegPost d t x) (hs : 0 < d.sig.toNat) (he : 58 < d.exp.toInt) : x = (true, d, 1) := by
  rcases h with ⟨h0, _⟩ | ⟨_, h1, _⟩ | ⟨_, _, hx⟩ | ⟨_, _, h1, _⟩ | ⟨_, _, h1, _⟩
  · omega
  · omega
  · exact hx
  all_goals omega

theorem Add1NegPost.down {d : Gen.decomposed192} {t : Int8} {x : R3}
    (h : Add1NegPost d t x) (hs : 0 < d.sig.toNat) (hlo : -116 ≤ d.exp.toInt)
    (hhi : d.exp.toInt ≤ 0) :
    Early ((false, one, (1 : Int8)) : R3) d.sig.toNat d.exp x ∨ NegDown d t x := by
  rcases h with ⟨h0, _⟩ | ⟨_, h1, _⟩ | ⟨_, h1, _⟩ | ⟨_, _, _, hx⟩ | ⟨_, h1, _⟩
  · omega
  · omega
  · omega
  · exact hx
  · omega

theorem Add1NegPost.up {d : Gen.decomposed192} {t : Int8} {x : R3}
    (h : Add1NegPost d t x) (hs : 0 < d.sig.toNat) (hlo : 0 < d.exp.toInt)
    (hhi : d.exp.toInt ≤ 58) : NegUp d t x := by
  rcases h with ⟨h0, _⟩ | ⟨_, h1, _⟩ | ⟨_, h1, _⟩ | ⟨_, _, h1, _⟩ | ⟨_, _, _, hx⟩
  · omega
  · omega
  · omega
  · omega
  · exact hx

/-- `add1neg`, rational contract for ALL inputs (no hypotheses); `m = |val d - 1|`.  See the file
header for the reading of the three classes; only the first one has a flag that can agree with the
package's convention. -/
theorem add1neg_contract (d : Gen.decomposed192) (t : Int8) :
    ∃ neg r t', Gen.decomposed192.add1neg d t = .ok (neg, r, t') ∧
      (neg = true ↔ 1 < val d) ∧
      val r - ulp r < |val d - 1| ∧ |val d - 1| ≤ val r ∧
      ((|val d - 1| = val r ∧ (neg = false → t' = t) ∧ (neg = true → t' = t * -1)) ∨
       (|val d - 1| < val r ∧ r = one ∧ t' = t ∧ d.exp.toInt < -116) ∨
       (|val d - 1| < val r ∧ t' = 1 ∧
          (r = one ∨ val r = val d ∨ (neg = false ∧ r.exp.toInt = -57)))) ∧
      (|(|val d - 1|) - val r| < (10 : ℚ) ^ (-57 : Int) ∨
        (val r - |val d - 1| = 1 ∧ (10 : ℚ) ^ 57 ≤ val r)) ∧
      ((r = d ∧ 58 < d.exp.toInt) ∨ (-57 ≤ r.exp.toInt ∧ r.exp.toInt ≤ 58)) := by
  obtain ⟨neg, r, t', hr, hp⟩ := add1neg_spec d t
  obtain ⟨h1, h2, h3, h4, h5⟩ := negQ_of_post d t neg r t' hp
  refine ⟨neg, r, t', hr, h1, h2, h3, h4, h5, ?_⟩
  rcases hp with ⟨_, hx⟩ | ⟨_, _, hx⟩ | ⟨_, he, hx⟩ | ⟨_, _, _, hE | hD⟩ | ⟨_, _, hhi, j, _, he, h0, _⟩
  · obtain ⟨rfl, hy⟩ := Prod.mk.inj hx; obtain ⟨rfl, rfl⟩ := Prod.mk.inj hy
    right; rw [one_exp]; omega
  · obtain ⟨rfl, hy⟩ := Prod.mk.inj hx; obtain ⟨rfl, rfl⟩ := Prod.mk.inj hy
    right; rw [one_exp]; omega
  · obtain ⟨rfl, hy⟩ := Prod.mk.inj hx; obtain ⟨rfl, rfl⟩ := Prod.mk.inj hy
    exact Or.inl ⟨rfl, he⟩
  · obtain ⟨rfl, hy⟩ := Prod.mk.inj hE.1; obtain ⟨rfl, rfl⟩ := Prod.mk.inj hy
    right; rw [one_exp]; omega
  · right; obtain ⟨k, _, h1, h2, _⟩ := hD; simp only at *; omega
  · right; simp only at *; omega

/-- path Z: `d.sig = 0` gives `(false, 1, t)`, exact. -/
theorem add1neg_zero (d : Gen.decomposed192) (t : Int8) (h : d.sig.toNat = 0) :
    Gen.decomposed192.add1neg d t = .ok (false, one, t) := by
  obtain ⟨neg, r, t', hr, hp⟩ := add1neg_spec d t
  rw [hr, hp.zero h]

/-- path A: a non-zero argument with `exp < -116` is dropped and the flag is returned UNCHANGED. -/
theorem add1neg_tiny (d : Gen.decomposed192) (t : Int8) (hs : 0 < d.sig.toNat)
    (he : d.exp.toInt < -116) :
    Gen.decomposed192.add1neg d t = .ok (false, one, t) ∧ 0 < val d ∧
      val d < (2 : ℚ) ^ 192 * (10 : ℚ) ^ (-117 : Int) := by
  obtain ⟨neg, r, t', hr, hp⟩ := add1neg_spec d t
  rw [hr, hp.tiny hs he]
  exact ⟨rfl, val_pos hs, val_lt_pow d (-117) (by omega)⟩

/-- path B: a non-zero argument with `exp > 58` is returned unchanged: `(true, d, 1)`. -/
theorem add1neg_huge (d : Gen.decomposed192) (t : Int8) (hs : 0 < d.sig.toNat)
    (he : 58 < d.exp.toInt) : Gen.decomposed192.add1neg d t = .ok (true, d, 1) := by
  obtain ⟨neg, r, t', hr, hp⟩ := add1neg_spec d t
  rw [hr, hp.huge hs he]

/-- path C (`-116 ≤ exp ≤ 0`), see `NegDown`. -/
theorem add1neg_down (d : Gen.decomposed192) (t : Int8) (hs : 0 < d.sig.toNat)
    (hlo : -116 ≤ d.exp.toInt) (hhi : d.exp.toInt ≤ 0) :
    ∃ neg r t', Gen.decomposed192.add1neg d t = .ok (neg, r, t') ∧
      ((neg = false ∧ r = one ∧ t' = 1 ∧ 0 < val d ∧ val d < (10 : ℚ) ^ (-57 : Int)) ∨
       (∃ k : Nat, r.exp.toInt = d.exp.toInt + k ∧ -57 ≤ r.exp.toInt ∧ r.exp.toInt ≤ 0 ∧
          (k = 0 ∨ r.exp.toInt = -57) ∧ 0 < d.sig.toNat / 10 ^ k ∧
          (d.sig.toNat / 10 ^ k ≤ 10 ^ (-r.exp.toInt).toNat →
            neg = false ∧ r.sig.toNat = 10 ^ (-r.exp.toInt).toNat - d.sig.toNat / 10 ^ k ∧
            t' = (if d.sig.toNat % 10 ^ k = 0 then t else 1)) ∧
          (10 ^ (-r.exp.toInt).toNat < d.sig.toNat / 10 ^ k →
            neg = true ∧ r.sig.toNat = d.sig.toNat / 10 ^ k - 10 ^ (-r.exp.toInt).toNat ∧
            t' = (if d.sig.toNat % 10 ^ k = 0 then t else 1) * -1))) := by
  obtain ⟨neg, r, t', hr, hp⟩ := add1neg_spec d t
  refine ⟨neg, r, t', hr, ?_⟩
  rcases hp.down hs hlo hhi with hE | hD
  · obtain ⟨rfl, hy⟩ := Prod.mk.inj hE.1
    obtain ⟨rfl, rfl⟩ := Prod.mk.inj hy
    exact Or.inl ⟨rfl, rfl, rfl, val_pos hs, hE.2.val_lt⟩
  · exact Or.inr hD

/-- path D (`0 < exp ≤ 58`): `neg = true`; if the scaled exponent reaches 0 the result
`d.sig·10^j - 1` is exact with flag `t * -1`, otherwise the scaled argument with flag `1`. -/
theorem add1neg_up (d : Gen.decomposed192) (t : Int8) (hs : 0 < d.sig.toNat)
    (hlo : 0 < d.exp.toInt) (hhi : d.exp.toInt ≤ 58) :
    ∃ neg r t', ∃ j : Nat, Gen.decomposed192.add1neg d t = .ok (neg, r, t') ∧
      d.sig.toNat * 10 ^ j < 2 ^ 192 ∧ r.exp.toInt = d.exp.toInt - j ∧ 0 ≤ r.exp.toInt ∧ neg = true ∧
      (r.exp.toInt ≠ 0 → r.sig.toNat = d.sig.toNat * 10 ^ j ∧ t' = 1 ∧ 25 * 2 ^ 184 ≤ r.sig.toNat) ∧
      (r.exp.toInt = 0 → r.sig.toNat = d.sig.toNat * 10 ^ j - 1 ∧ t' = t * -1) := by
  obtain ⟨neg, r, t', hr, hp⟩ := add1neg_spec d t
  obtain ⟨j, h⟩ := hp.up hs hlo hhi
  exact ⟨neg, r, t', j, hr, h⟩

/-! ### findings -/

/-- FINDING (flag lost): for every non-zero `d` with `d.exp < -116`, `add1neg d t` returns `(false, 1, t)`:
`d` is dropped (`|1 - d| < 1`) but the flag is returned unchanged, so for `t = 0` the result is reported
as exact (`add1` and `sub1` return flag `1` here).
Go: `decomposed192{sig: uint192{1,0,0}, exp: -117}.add1neg(0)` = `(false, {1 0 0}e0, 0)`. -/
theorem add1neg_tiny_flag_untouched (d : Gen.decomposed192) (t : Int8) (hs : 0 < d.sig.toNat)
    (he : d.exp.toInt < -116) :
    Gen.decomposed192.add1neg d t = .ok (false, one, t) ∧ |val d - 1| < val one := by
  obtain ⟨h1, h2, h3⟩ := add1neg_tiny d t hs he
  refine ⟨h1, ?_⟩
  have e : (2 : ℚ) ^ 192 * (10 : ℚ) ^ (-117 : Int) < 1 := by norm_num
  rw [val_one, abs_of_neg (by linarith)]; linarith

/-- FINDING (flag sign): for every non-zero `d` with `d.exp > 58`, `add1neg` returns `(true, d, 1)` although
the true magnitude `d - 1` is BELOW the result. -/
theorem add1neg_huge_flag_wrong (d : Gen.decomposed192) (t : Int8) (hs : 0 < d.sig.toNat)
    (he : 58 < d.exp.toInt) :
    Gen.decomposed192.add1neg d t = .ok (true, d, 1) ∧ |val d - 1| < val d := by
  refine ⟨add1neg_huge d t hs he, ?_⟩
  have h1 := one_le_val hs (by omega)
  rw [abs_of_nonneg (by linarith)]; linarith

/-- FINDING (flag sign): path C with a non-zero digit dropped.  For every `d` with `-116 ≤ d.exp < -57`
whose digits above `10^-57` are not all zero (`10^K ≤ d.sig`, `K = -57 - d.exp`) and whose dropped part is
non-zero (`d.sig % 10^K ≠ 0`), `add1neg d t = (false, r, 1)` with `r.sig = 10^57 - d.sig/10^K`,
`r.exp = -57`, and the true magnitude `1 - d` is strictly BELOW `val r` — the flag `+1` has the wrong sign
(`sub1` returns `-1` on such inputs).
Go: `decomposed192{sig: 5·10^57+1, exp: -58}.add1neg(0)` (`d = 0.5 + 10^-58`) = `(false, 5·10^56 e-57, 1)`;
`1 - d = 0.5 - 10^-58 < 0.5`. -/
theorem add1neg_dropped_flag_wrong (d : Gen.decomposed192) (t : Int8)
    (hlo : -116 ≤ d.exp.toInt) (hhi : d.exp.toInt < -57)
    (hbig : 10 ^ (-57 - d.exp.toInt).toNat ≤ d.sig.toNat)
    (hdrop : d.sig.toNat % 10 ^ (-57 - d.exp.toInt).toNat ≠ 0) :
    ∃ r, Gen.decomposed192.add1neg d t = .ok (false, r, 1) ∧ r.exp.toInt = -57 ∧
      r.sig.toNat = 10 ^ 57 - d.sig.toNat / 10 ^ (-57 - d.exp.toInt).toNat ∧
      |val d - 1| < val r := by
  have hs : 0 < d.sig.toNat := Nat.lt_of_lt_of_le (Nat.pow_pos (by norm_num)) hbig
  obtain ⟨neg, r, t', hr, h⟩ := add1neg_down d t hs hlo (by omega)
  rcases h with ⟨_, _, _, _, hlt⟩ | ⟨k, he, h1, h2, hk, hpos, hnb, _⟩
  · exfalso
    have hge : (10 : ℚ) ^ (-57 : Int) ≤ val d := by
      have h1 : ((10 ^ (-57 - d.exp.toInt).toNat : Nat) : ℚ) ≤ (d.sig.toNat : ℚ) := by
        exact_mod_cast hbig
      have h2 : (0 : ℚ) < (10 : ℚ) ^ d.exp.toInt := zpow_pos (by norm_num) _
      have h3 : ((10 ^ (-57 - d.exp.toInt).toNat : Nat) : ℚ) * (10 : ℚ) ^ d.exp.toInt
          = (10 : ℚ) ^ (-57 : Int) := by
        push_cast
        rw [← zpow_natCast, ← zpow_add₀ (by norm_num)]
        congr 1; omega
      rw [← h3]
      exact mul_le_mul_of_nonneg_right h1 h2.le
    linarith
  · have hk0 : k ≠ 0 := by omega
    have h57 : r.exp.toInt = -57 := hk.resolve_left hk0
    have hkK : k = (-57 - d.exp.toInt).toNat := by omega
    have hp : 10 ^ (-r.exp.toInt).toNat = 10 ^ 57 := by rw [h57]; rfl
    have hslt := dropped_lt _ _ (U192.toNat_lt d.sig) hk0
    rw [hp] at hnb
    obtain ⟨rfl, hsig, ht⟩ := hnb hslt.le
    rw [hkK] at ht hsig hslt
    rw [if_neg hdrop] at ht
    subst ht
    refine ⟨r, hr, h57, hsig, ?_⟩
    obtain ⟨tv1, tv2, tv3⟩ := trunc_val d.sig.toNat (-57 - d.exp.toInt).toNat d.exp.toInt
    have hE : d.exp.toInt + ((-57 - d.exp.toInt).toNat : Int) = -57 := by omega
    rw [hE] at tv1 tv2 tv3
    have hvd : val d = (d.sig.toNat : ℚ) * (10 : ℚ) ^ d.exp.toInt := rfl
    rw [← hvd] at tv1 tv2 tv3
    set s : Nat := d.sig.toNat / 10 ^ (-57 - d.exp.toInt).toNat with hsdef
    have hone : ((10 ^ 57 : Nat) : ℚ) * (10 : ℚ) ^ (-57 : Int) = 1 := by norm_num
    have hvr : val r = 1 - (s : ℚ) * (10 : ℚ) ^ (-57 : Int) := by
      unfold val
      rw [hsig, h57, Nat.cast_sub hslt.le, sub_mul, hone]
    have hne : (s : ℚ) * (10 : ℚ) ^ (-57 : Int) ≠ val d := fun h => hdrop (tv3.mp h)
    have hlt : (s : ℚ) * (10 : ℚ) ^ (-57 : Int) < val d := lt_of_le_of_ne tv1 hne
    have hs1 : ((s : ℚ) + 1) * (10 : ℚ) ^ (-57 : Int) ≤ 1 := by
      have h1 : (s : ℚ) + 1 ≤ ((10 ^ 57 : Nat) : ℚ) := by exact_mod_cast hslt
      calc ((s : ℚ) + 1) * (10 : ℚ) ^ (-57 : Int)
          ≤ ((10 ^ 57 : Nat) : ℚ) * (10 : ℚ) ^ (-57 : Int) :=
            mul_le_mul_of_nonneg_right h1 (by norm_num)
        _ = 1 := hone
    have hd1 : val d < 1 := by linarith
    rw [hvr, abs_of_neg (by linarith)]
    linarith

example := add1neg_dropped_flag_wrong
    ⟨⟨8214565720323784705, 11237880364719817872, 14693679385278593849⟩, -58⟩ 0
    (by decide) (by decide) (by decide) (by decide)

example := add1neg_contract ⟨⟨5, 0, 0⟩, -1⟩ 1
example := add1neg_down
    ⟨⟨18446744073709551615, 18446744073709551615, 18446744073709551615⟩, -60⟩ 0
    (by decide) (by decide) (by decide)
example := add1neg_up ⟨⟨7, 0, 0⟩, 3⟩ 0 (by decide) (by decide) (by decide)
example := add1neg_tiny_flag_untouched ⟨⟨1, 0, 0⟩, -117⟩ 0 (by decide) (by decide)
example := add1neg_huge_flag_wrong ⟨⟨1, 0, 0⟩, 59⟩ 0 (by decide) (by decide)

end D192
