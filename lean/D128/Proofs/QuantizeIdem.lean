/-
  D128/Proofs/QuantizeIdem.lean — the specification of quantisation depends only on the denoted value,
  and quantising twice is quantising once (consequences used for the idempotence corollaries of C08).

  Provided (namespace `Qz`):
  * `sc c e dp = c·10^(e+dp)`      : the magnitude in units of the quantum
  * `quantize_val`, `ceilDp_val`, `floorDp_val` : the three functions on a non-zero finite value as a
      function of `sc` (whole multiple → unchanged; otherwise the selected multiple)
  * `exactOrInfS_cases`            : `exactOrInfS n k j` for natural `k` is a zero, `±Inf`, or a finite value
                                     of magnitude `k·10^j`
  * `quantize_idem`, `ceilDp_idem`, `floorDp_idem` : `f (f x) = f x`
  * `quantize_congr`, `ceilDp_congr`, `floorDp_congr` : `x.same x' → (f x).same (f x')`
  * `same_fin_iff`, `same_refl'`, `same_symm`, `same_of_same_of_same`
-/
import D128.Proofs.QuantizeSpec

set_option autoImplicit false

namespace Qz
open Spec

/-- the magnitude `c·10^e` in units of the quantum `10^-dp` -/
def sc (c : Nat) (e dp : Int) : ℚ := (c : ℚ) * (10 : ℚ) ^ (e + dp)

theorem sc_nonneg_exp (c : Nat) (e dp : Int) (h : 0 ≤ e + dp) : (sc c e dp).den = 1 := by
  obtain ⟨k, hk⟩ := Int.eq_ofNat_of_zero_le h
  unfold sc
  rw [hk, zpow_natCast]
  have : (c : ℚ) * (10 : ℚ) ^ k = ((c * 10 ^ k : Nat) : ℚ) := by push_cast; ring
  rw [this]; exact Rat.den_natCast _

theorem sc_neg_exp (c : Nat) (e dp : Int) (K : Nat) (h : e + dp = -(K : Int)) :
    sc c e dp = (c : ℚ) / (10 : ℚ) ^ K := by
  unfold sc
  rw [h, zpow_neg, zpow_natCast]; rfl

theorem quantize_val (dp : Int) (m : Mode) (n : Bool) (c : Nat) (e : Int) (hc : 0 < c) :
    Spec.quantize dp m (.fin n c e) =
      if (sc c e dp).den = 1 then .fin n c e
      else if sc c e dp < 1 / 10 then .fin n 0 0
      else Spec.exactOrInfS n ((RK.rndQ m n (sc c e dp) : Nat) : ℚ) (-dp) := by
  by_cases h : 0 ≤ e + dp
  · rw [quantize_keep dp m n c e hc h, if_pos (sc_nonneg_exp c e dp h)]
  · obtain ⟨K, hK⟩ : ∃ K : Nat, e + dp = -(K : Int) := ⟨(-(e + dp)).toNat, by omega⟩
    rw [quantize_fin dp m n c e K hc hK (by omega), sc_neg_exp c e dp K hK]
    simp only [den_one_iff, lt_tenth_iff]

theorem ceilDp_val (dp : Int) (n : Bool) (c : Nat) (e : Int) (hc : 0 < c) :
    Spec.ceilDp dp (.fin n c e) =
      if (sc c e dp).den = 1 then .fin n c e
      else Spec.exactOrInfS n
        (((if n then floorNat (sc c e dp) else floorNat (sc c e dp) + 1 : Nat)) : ℚ) (-dp) := by
  by_cases h : 0 ≤ e + dp
  · rw [ceilDp_keep dp n c e hc h, if_pos (sc_nonneg_exp c e dp h)]
  · obtain ⟨K, hK⟩ : ∃ K : Nat, e + dp = -(K : Int) := ⟨(-(e + dp)).toNat, by omega⟩
    rw [ceilDp_fin dp n c e K hc hK (by omega), sc_neg_exp c e dp K hK]
    simp only [den_one_iff, floorNat_div]

theorem floorDp_val (dp : Int) (n : Bool) (c : Nat) (e : Int) (hc : 0 < c) :
    Spec.floorDp dp (.fin n c e) =
      if (sc c e dp).den = 1 then .fin n c e
      else Spec.exactOrInfS n
        (((if n then floorNat (sc c e dp) + 1 else floorNat (sc c e dp) : Nat)) : ℚ) (-dp) := by
  by_cases h : 0 ≤ e + dp
  · rw [floorDp_keep dp n c e hc h, if_pos (sc_nonneg_exp c e dp h)]
  · obtain ⟨K, hK⟩ : ∃ K : Nat, e + dp = -(K : Int) := ⟨(-(e + dp)).toNat, by omega⟩
    rw [floorDp_fin dp n c e K hc hK (by omega), sc_neg_exp c e dp K hK]
    simp only [den_one_iff, floorNat_div]

theorem quantize_zero (dp : Int) (m : Mode) (n : Bool) (e : Int) :
    Spec.quantize dp m (.fin n 0 e) = .fin n 0 0 := by simp [Spec.quantize]
theorem ceilDp_zero (dp : Int) (n : Bool) (e : Int) : Spec.ceilDp dp (.fin n 0 e) = .fin n 0 0 := by
  simp [Spec.ceilDp]
theorem floorDp_zero (dp : Int) (n : Bool) (e : Int) : Spec.floorDp dp (.fin n 0 e) = .fin n 0 0 := by
  simp [Spec.floorDp]

/-- the three shapes of `exactOrInfS` on a natural number of quanta -/
theorem exactOrInfS_cases (n : Bool) (k : Nat) (j : Int) :
    Spec.exactOrInfS n (k : ℚ) j = .fin n 0 0 ∨ Spec.exactOrInfS n (k : ℚ) j = .inf n ∨
    ∃ c e, Spec.exactOrInfS n (k : ℚ) j = .fin n c e ∧ 0 < c ∧
      (c : ℚ) * (10 : ℚ) ^ e = (k : ℚ) * (10 : ℚ) ^ j := by
  by_cases hk : k = 0
  · left; subst hk; simp [exactOrInfS_zero]
  · have hq : (0 : ℚ) < (k : ℚ) := by exact_mod_cast Nat.pos_of_ne_zero hk
    by_cases hm : SpecRound.Member ((k : ℚ) * (10 : ℚ) ^ j)
    · right; right
      obtain ⟨c, e, hv, hce, _⟩ := exactOrInfS_member n _ j hq hm
      refine ⟨c, e, hv, ?_, hce⟩
      by_contra h0
      have : c = 0 := by omega
      subst this
      have hp : (0 : ℚ) < (10 : ℚ) ^ j := zpow_pos (by norm_num) _
      have : (0 : ℚ) < (k : ℚ) * (10 : ℚ) ^ j := mul_pos hq hp
      rw [← hce] at this
      simp at this
    · right; left; exact exactOrInfS_not_member n _ j hq hm

/-- a finite value that is `k` quanta is a whole multiple of the quantum -/
theorem sc_of_quanta (c : Nat) (e dp : Int) (k : Nat)
    (h : (c : ℚ) * (10 : ℚ) ^ e = (k : ℚ) * (10 : ℚ) ^ (-dp)) : (sc c e dp).den = 1 := by
  have : sc c e dp = (k : ℚ) := by
    unfold sc
    rw [zpow_add₀ (by norm_num), ← mul_assoc, h, mul_assoc, ← zpow_add₀ (by norm_num)]
    simp
  rw [this]; exact Rat.den_natCast k

theorem quantize_idem (dp : Int) (m : Mode) (x : Val) :
    Spec.quantize dp m (Spec.quantize dp m x) = Spec.quantize dp m x := by
  cases x with
  | nan n p => rfl
  | inf n => rfl
  | fin n c e =>
    by_cases hc : c = 0
    · subst hc; rw [quantize_zero, quantize_zero]
    · have hc' : 0 < c := Nat.pos_of_ne_zero hc
      rw [quantize_val dp m n c e hc']
      split
      · rename_i h; rw [quantize_val dp m n c e hc', if_pos h]
      split
      · rw [quantize_zero]
      · rcases exactOrInfS_cases n (RK.rndQ m n (sc c e dp)) (-dp) with h | h | ⟨c', e', h, h0, hce⟩
        · rw [h, quantize_zero]
        · rw [h]; rfl
        · rw [h, quantize_val dp m n c' e' h0, if_pos (sc_of_quanta c' e' dp _ hce)]

theorem ceilDp_idem (dp : Int) (x : Val) : Spec.ceilDp dp (Spec.ceilDp dp x) = Spec.ceilDp dp x := by
  cases x with
  | nan n p => rfl
  | inf n => rfl
  | fin n c e =>
    by_cases hc : c = 0
    · subst hc; rw [ceilDp_zero, ceilDp_zero]
    · have hc' : 0 < c := Nat.pos_of_ne_zero hc
      rw [ceilDp_val dp n c e hc']
      split
      · rename_i h; rw [ceilDp_val dp n c e hc', if_pos h]
      · generalize (if n = true then floorNat (sc c e dp) else floorNat (sc c e dp) + 1) = k
        rcases exactOrInfS_cases n k (-dp) with h | h | ⟨c', e', h, h0, hce⟩
        · rw [h, ceilDp_zero]
        · rw [h]; rfl
        · rw [h, ceilDp_val dp n c' e' h0, if_pos (sc_of_quanta c' e' dp _ hce)]

theorem floorDp_idem (dp : Int) (x : Val) : Spec.floorDp dp (Spec.floorDp dp x) = Spec.floorDp dp x := by
  cases x with
  | nan n p => rfl
  | inf n => rfl
  | fin n c e =>
    by_cases hc : c = 0
    · subst hc; rw [floorDp_zero, floorDp_zero]
    · have hc' : 0 < c := Nat.pos_of_ne_zero hc
      rw [floorDp_val dp n c e hc']
      split
      · rename_i h; rw [floorDp_val dp n c e hc', if_pos h]
      · generalize (if n = true then floorNat (sc c e dp) + 1 else floorNat (sc c e dp)) = k
        rcases exactOrInfS_cases n k (-dp) with h | h | ⟨c', e', h, h0, hce⟩
        · rw [h, floorDp_zero]
        · rw [h]; rfl
        · rw [h, floorDp_val dp n c' e' h0, if_pos (sc_of_quanta c' e' dp _ hce)]

/-! ## dependence on the value only -/

theorem same_fin_iff (n n' : Bool) (c c' : Nat) (e e' : Int) :
    (Val.fin n c e).same (Val.fin n' c' e') = true ↔
      n = n' ∧ (c : ℚ) * (10 : ℚ) ^ e = (c' : ℚ) * (10 : ℚ) ^ e' := by
  simp only [Val.same, Bool.and_eq_true, beq_iff_eq, Spec.mag, SpecRound.pow10_eq_zpow]

theorem mag_zero_iff (c : Nat) (e : Int) : (c : ℚ) * (10 : ℚ) ^ e = 0 ↔ c = 0 := by
  have hp : (10 : ℚ) ^ e ≠ 0 := zpow_ne_zero _ (by norm_num)
  simp [hp]

theorem sc_congr (c c' : Nat) (e e' dp : Int)
    (h : (c : ℚ) * (10 : ℚ) ^ e = (c' : ℚ) * (10 : ℚ) ^ e') : sc c e dp = sc c' e' dp := by
  unfold sc
  rw [zpow_add₀ (by norm_num), zpow_add₀ (by norm_num), ← mul_assoc, ← mul_assoc, h]

theorem same_refl' (x : Val) : x.same x = true := by
  cases x <;> simp [Val.same]

theorem same_symm (x y : Val) : x.same y = y.same x := by
  cases x <;> cases y <;> simp [Val.same, Bool.beq_comm]

/-- two values that denote the same third value denote each other -/
theorem same_of_same_of_same (x y z : Val) (h1 : x.same z = true) (h2 : y.same z = true) :
    x.same y = true := same_trans x z y h1 (by rw [same_symm]; exact h2)

theorem quantize_congr (dp : Int) (m : Mode) (x x' : Val) (h : x.same x' = true) :
    (Spec.quantize dp m x).same (Spec.quantize dp m x') = true := by
  cases x <;> cases x' <;> simp only [Val.same, Bool.false_eq_true] at h
  · exact h
  · exact h
  · rename_i n c e n' c' e'
    obtain ⟨rfl, hmag⟩ := (same_fin_iff _ _ _ _ _ _).1 h
    by_cases hc : c = 0
    · have hc' : c' = 0 := by
        rw [hc] at hmag; simp only [Nat.cast_zero, zero_mul] at hmag
        exact (mag_zero_iff c' e').1 hmag.symm
      subst hc; subst hc'
      rw [quantize_zero, quantize_zero]; exact same_refl' _
    · have hc' : c' ≠ 0 := by
        intro h0; rw [h0] at hmag; simp only [Nat.cast_zero, zero_mul] at hmag
        exact hc ((mag_zero_iff c e).1 hmag)
      rw [quantize_val dp m n c e (Nat.pos_of_ne_zero hc),
        quantize_val dp m n c' e' (Nat.pos_of_ne_zero hc'), sc_congr c c' e e' dp hmag]
      split
      · exact h
      · exact same_refl' _

theorem ceilDp_congr (dp : Int) (x x' : Val) (h : x.same x' = true) :
    (Spec.ceilDp dp x).same (Spec.ceilDp dp x') = true := by
  cases x <;> cases x' <;> simp only [Val.same, Bool.false_eq_true] at h
  · exact h
  · exact h
  · rename_i n c e n' c' e'
    obtain ⟨rfl, hmag⟩ := (same_fin_iff _ _ _ _ _ _).1 h
    by_cases hc : c = 0
    · have hc' : c' = 0 := by
        rw [hc] at hmag; simp only [Nat.cast_zero, zero_mul] at hmag
        exact (mag_zero_iff c' e').1 hmag.symm
      subst hc; subst hc'
      rw [ceilDp_zero, ceilDp_zero]; exact same_refl' _
    · have hc' : c' ≠ 0 := by
        intro h0; rw [h0] at hmag; simp only [Nat.cast_zero, zero_mul] at hmag
        exact hc ((mag_zero_iff c e).1 hmag)
      rw [ceilDp_val dp n c e (Nat.pos_of_ne_zero hc),
        ceilDp_val dp n c' e' (Nat.pos_of_ne_zero hc'), sc_congr c c' e e' dp hmag]
      split
      · exact h
      · exact same_refl' _

theorem floorDp_congr (dp : Int) (x x' : Val) (h : x.same x' = true) :
    (Spec.floorDp dp x).same (Spec.floorDp dp x') = true := by
  cases x <;> cases x' <;> simp only [Val.same, Bool.false_eq_true] at h
  · exact h
  · exact h
  · rename_i n c e n' c' e'
    obtain ⟨rfl, hmag⟩ := (same_fin_iff _ _ _ _ _ _).1 h
    by_cases hc : c = 0
    · have hc' : c' = 0 := by
        rw [hc] at hmag; simp only [Nat.cast_zero, zero_mul] at hmag
        exact (mag_zero_iff c' e').1 hmag.symm
      subst hc; subst hc'
      rw [floorDp_zero, floorDp_zero]; exact same_refl' _
    · have hc' : c' ≠ 0 := by
        intro h0; rw [h0] at hmag; simp only [Nat.cast_zero, zero_mul] at hmag
        exact hc ((mag_zero_iff c e).1 hmag)
      rw [floorDp_val dp n c e (Nat.pos_of_ne_zero hc),
        floorDp_val dp n c' e' (Nat.pos_of_ne_zero hc'), sc_congr c c' e e' dp hmag]
      split
      · exact h
      · exact same_refl' _

end Qz
