/-
  D128/Proofs/CohortElemAddSubCongr.lean — property C19 for the elementary functions: `decomposed192.sub` on two pairs of
  operands of equal values (cohort members).

  `sub` aligns its operands exactly as `add` does (the same scaling loops: alignment exponent
  `E = max(min d.exp o.exp, f_d, f_o)`, `FullAt`, CohortElemAddNF.lean) and then subtracts the aligned significands
  `A = ⌊val d/10^E⌋`, `B = ⌊val o/10^E⌋` exactly: `r = |A − B|` at `E`, `neg = (A < B)`, flag negated on borrow.  The flag left
  by the alignment is `+1` when non-zero digits of `d` are dropped and `-1` when digits of `o` are (both dividing loops
  of the branch `d.exp > o.exp` write `-1` here, unlike in `add`), so for `sub` the flags of two inexact runs AGREE.
  For two runs on operands of equal values either `E = E'` — the same `A`, `B`, register, `neg` and exactness — or one run
  aligns at its own smaller exponent and the other strictly below: both exact.
  The side condition (each operand pair identical or both significands `< 10·LIM`) is needed as for `add`: OBSERVATION
  (`#guard` below): `d = ⟨10·LIM, 5⟩`, `d' = ⟨LIM, 6⟩`, `o = ⟨7, 5⟩`: `sub d o 0 = (false, 10·LIM − 7, 5, 0)` but
  `sub d' o 0 = (false, LIM, 6, -1)`.  Zero significands are allowed.  NB in the inexact alternative `neg` is the sign of
  `A − B`, not of `val d − val o` (finding F3 of D192AddEval.lean) — but it is the same in both runs.

  Provided (namespace `CohortElem`; exponents of all operands in `[-16000, 16000]`):
  * `al`, `subFlag`, `Aligned`, `SubNF`, `snf_of`, `sub_nf` : normal form of one run
        (`∃ n r t1 a, sub d o t = .ok (n, r, t1) ∧ SubNF d o t n r t1 a`)
  * `al_base`, `al_congr`, `al_scale`, `al_exact`, `mod_congr`, `inex_transfer`, `subFlag_cases`, `aligned_E_cases`,
    `val_abs_sub`, `LoEx`, `lo_exact`, `snf_congr_aux`, `snf_congr`, `SubNF.exp_window`
  * `sub_congr`        : same `neg`; both exact (`val r = val r' = |val d − val o|`, `t1 = ±t`, `t1' = ±t'`) or
                         `r = r' ∧ t1 = t1' = ±1`; windows `min ≤ r.exp ≤ max`
  * `sub_congr_val`    : same `neg`, `val r = val r'`, `r = r' ∨ exact`, `t = t' → t1 = t1'`
  * `sub_congr_o_full` : `o` identical, `LIM ≤ o.sig`, same flag: `sub d o t = sub d' o t` outright
  * `sub_congr_d_full` : `d` identical, `LIM ≤ d.sig`, same flag: `sub d o t = sub d o' t` outright
  * `sub_congr_o_id`   : `o` identical, same flag: same `neg` and flag, `val r = val r'`, `r = r' ∨ exact`
  * `SubNF.neg_false`  : `val o ≤ val d` ⇒ `neg = false`
  * `sub_congr_dom`    : `FullAt d f` with `o.exp, o'.exp < f` (`d` dominates): the same register and `neg` outright;
                         exact (flags passed through) or equal flags `±1`; `val o ≤ val d → neg = false`
-/
import D128.Proofs.CohortElemAddSubSharp
import D128.Proofs.CohortElemAddCongr
set_option autoImplicit false
set_option maxRecDepth 4096
set_option exponentiation.threshold 512
set_option linter.unusedVariables false
open D128.Proofs.WordsWide

namespace CohortElem
open Gen D192

/-! ### normal form of one run of `sub` -/

/-- significand of `x` aligned at `μ + a` (`μ ≤ x.exp`): `⌊val x / 10^(μ+a)⌋` -/
def al (x : decomposed192) (μ : Int) (a : Nat) : Nat :=
  x.sig.toNat * 10 ^ (x.exp.toInt - μ).toNat / 10 ^ a

/-- the sticky flag after the alignment of `sub` (`+1` when digits of `d` are dropped, `-1` when digits of `o` are) -/
def subFlag (d o : decomposed192) (a : Nat) (t : Int8) : Int8 :=
  if d.exp.toInt < o.exp.toInt then (if d.sig.toNat % 10 ^ a = 0 then t else 1)
  else (if o.sig.toNat % 10 ^ a = 0 then t else -1)

/-- the alignment exponent `μ + a` is the largest of `μ = min d.exp o.exp` and the stopping exponents of the scaling loops -/
def Aligned (d o : decomposed192) (a : Nat) : Prop :=
  mu d o + a ≤ max d.exp.toInt o.exp.toInt ∧
  (a = 0 ∨ FullAt d (mu d o + a) ∨ FullAt o (mu d o + a)) ∧
  (∀ f, FullAt d f → f ≤ mu d o + a) ∧ (∀ f, FullAt o f → f ≤ mu d o + a)

/-- **normal form of one run of `sub`**: operands aligned at `E = μ + a`, `A = ⌊val d/10^E⌋`, `B = ⌊val o/10^E⌋` (one of
them exact), result `|A − B|` at `E`, `neg = (A < B)`, flag negated on borrow -/
def SubNF (d o : decomposed192) (t : Int8) (n : Bool) (r : decomposed192) (t1 : Int8) (a : Nat) : Prop :=
  Aligned d o a ∧ r.exp.toInt = mu d o + a ∧
  (al d (mu d o) a < al o (mu d o) a →
    n = true ∧ r.sig.toNat = al o (mu d o) a - al d (mu d o) a ∧ t1 = subFlag d o a t * (-1)) ∧
  (al o (mu d o) a ≤ al d (mu d o) a →
    n = false ∧ r.sig.toNat = al d (mu d o) a - al o (mu d o) a ∧ t1 = subFlag d o a t)

theorem snf_of {d o : decomposed192} {t : Int8} {n : Bool} {r : decomposed192} {t1 : Int8} (a : Nat) (e0 : Int16)
    (A B : Nat) (fl : Int8) (he0 : e0.toInt = mu d o + a)
    (hA : A = al d (mu d o) a) (hB : B = al o (mu d o) a) (hfl : fl = subFlag d o a t)
    (h : SubFin A B fl e0 n r t1) (hal : Aligned d o a) : SubNF d o t n r t1 a := by
  obtain ⟨h1, h2, h3⟩ := h
  subst hA hB hfl
  exact ⟨hal, by rw [h1, he0], h2, h3⟩

/-- **`decomposed192.sub` in normal form** (exponents in `[-16000, 16000]`: no `int16` wrap) -/
theorem sub_nf (d o : decomposed192) (t : Int8)
    (hd : -16000 ≤ d.exp.toInt ∧ d.exp.toInt ≤ 16000) (ho : -16000 ≤ o.exp.toInt ∧ o.exp.toInt ≤ 16000) :
    ∃ n r t1 a, decomposed192.sub d o t = .ok (n, r, t1) ∧ SubNF d o t n r t1 a := by
  obtain ⟨n, r, t1, hr, h⟩ := sub_sharp d o t
  suffices h' : ∃ a, SubNF d o t n r t1 a by
    obtain ⟨a, h'⟩ := h'
    exact ⟨n, r, t1, a, hr, h'⟩
  have he : (d.exp - o.exp).toInt = d.exp.toInt - o.exp.toInt :=
    Int16.toInt_sub_of _ _ (by omega) (by omega)
  rcases h with ⟨hneg, j, k, hjk, hlt, hprec, hno, hfin⟩ | ⟨hpos, j, k, hjk, hlt, hprec, hno, hfin⟩ | ⟨hz, hfin⟩
  · rw [he] at hneg
    have hjk' : (j : Int) + k = o.exp.toInt - d.exp.toInt := by
      unfold negNat at hjk; rw [he] at hjk; omega
    have hmu : mu d o = d.exp.toInt := by unfold mu; omega
    have he0 : (o.exp - Int16.ofNat j).toInt = mu d o + k := by
      rw [i16_sub_nat _ _ (by omega) (by omega), hmu]; omega
    refine ⟨k, snf_of k _ _ _ _ he0 ?_ ?_ ?_ hfin ⟨?_, ?_, ?_, ?_⟩⟩
    · unfold al; rw [hmu]
      have e1 : (d.exp.toInt - d.exp.toInt).toNat = 0 := by omega
      rw [e1, Nat.pow_zero, Nat.mul_one]
    · unfold al; rw [hmu]
      have e2 : (o.exp.toInt - d.exp.toInt).toNat = j + k := by omega
      rw [e2, Nat.pow_add, ← Nat.mul_assoc, Nat.mul_div_cancel _ (by positivity)]
    · unfold subFlag; rw [if_pos (show d.exp.toInt < o.exp.toInt by omega)]
    · rw [hmu]; omega
    · rcases hprec with h0 | h0
      · exact Or.inl h0
      · right; right; exact ⟨j, by rw [hmu]; omega, h0, hno⟩
    · intro f hf; have := hf.le_exp; rw [hmu]; omega
    · intro f hf; have := hf.le_of_noOver hno; rw [hmu]; omega
  · rw [he] at hpos
    have hjk' : (j : Int) + k = d.exp.toInt - o.exp.toInt := by
      unfold posNat at hjk; rw [he] at hjk; omega
    have hmu : mu d o = o.exp.toInt := by unfold mu; omega
    have he0 : (d.exp - Int16.ofNat j).toInt = mu d o + k := by
      rw [i16_sub_nat _ _ (by omega) (by omega), hmu]; omega
    refine ⟨k, snf_of k _ _ _ _ he0 ?_ ?_ ?_ hfin ⟨?_, ?_, ?_, ?_⟩⟩
    · unfold al; rw [hmu]
      have e2 : (d.exp.toInt - o.exp.toInt).toNat = j + k := by omega
      rw [e2, Nat.pow_add, ← Nat.mul_assoc, Nat.mul_div_cancel _ (by positivity)]
    · unfold al; rw [hmu]
      have e1 : (o.exp.toInt - o.exp.toInt).toNat = 0 := by omega
      rw [e1, Nat.pow_zero, Nat.mul_one]
    · unfold subFlag; rw [if_neg (show ¬ d.exp.toInt < o.exp.toInt by omega)]
    · rw [hmu]; omega
    · rcases hprec with h0 | h0
      · exact Or.inl h0
      · right; left; exact ⟨j, by rw [hmu]; omega, h0, hno⟩
    · intro f hf; have := hf.le_of_noOver hno; rw [hmu]; omega
    · intro f hf; have := hf.le_exp; rw [hmu]; omega
  · rw [he] at hz
    have hmu : mu d o = d.exp.toInt := by unfold mu; omega
    refine ⟨0, snf_of 0 _ _ _ _ (by rw [hmu]; simp) ?_ ?_ ?_ hfin ⟨?_, Or.inl rfl, ?_, ?_⟩⟩
    · unfold al; rw [hmu]
      have e1 : (d.exp.toInt - d.exp.toInt).toNat = 0 := by omega
      rw [e1, Nat.pow_zero, Nat.mul_one, Nat.div_one]
    · unfold al; rw [hmu]
      have e1 : (o.exp.toInt - d.exp.toInt).toNat = 0 := by omega
      rw [e1, Nat.pow_zero, Nat.mul_one, Nat.div_one]
    · unfold subFlag; rw [if_neg (show ¬ d.exp.toInt < o.exp.toInt by omega), Nat.pow_zero, Nat.mod_one, if_pos rfl]
    · rw [hmu]; simp
    · intro f hf; have := hf.le_exp; rw [hmu]; simp; omega
    · intro f hf; have := hf.le_exp; rw [hmu]; simp; omega

/-! ### aligned significands are functions of the values -/

theorem al_base (x : decomposed192) (μ : Int) (h : μ ≤ x.exp.toInt) :
    ((x.sig.toNat * 10 ^ (x.exp.toInt - μ).toNat : Nat) : ℚ) * (10 : ℚ) ^ μ = val x := by
  have e1 : x.exp.toInt = μ + ((x.exp.toInt - μ).toNat : Int) := by omega
  unfold val
  conv_rhs => rw [e1]
  rw [zpow_add₀ (by norm_num), zpow_natCast]
  push_cast; ring

theorem al_congr {x x' : decomposed192} {μ μ' : Int} {a a' : Nat} (hv : val x = val x')
    (h : μ ≤ x.exp.toInt) (h' : μ' ≤ x'.exp.toInt) (hE : μ + a = μ' + a') : al x μ a = al x' μ' a' := by
  have hq := (al_base x μ h).trans (hv.trans (al_base x' μ' h').symm)
  unfold al
  rcases le_total μ' μ with hle | hle
  · have hP := q_eq_nat hq hle
    have ha : a' = a + (μ - μ').toNat := by omega
    rw [hP, ha, Nat.pow_add, Nat.mul_div_mul_right _ _ (by positivity)]
  · have hP := q_eq_nat hq.symm hle
    have ha : a = a' + (μ' - μ).toNat := by omega
    rw [hP, ha, Nat.pow_add, Nat.mul_div_mul_right _ _ (by positivity)]

/-- aligned strictly below an exponent at which the value is integral: nothing but zeros is dropped -/
theorem al_scale {x x' : decomposed192} {μ μ' : Int} {a' g : Nat} (hv : val x = val x')
    (h : μ ≤ x.exp.toInt) (h' : μ' ≤ x'.exp.toInt) (hE : μ' + a' + g = μ) :
    al x' μ' a' = al x μ 0 * 10 ^ g ∧ (x'.sig.toNat * 10 ^ (x'.exp.toInt - μ').toNat) % 10 ^ a' = 0 := by
  have hq := (al_base x μ h).trans (hv.trans (al_base x' μ' h').symm)
  have hP := q_eq_nat hq (show μ' ≤ μ by omega)
  have hc : (μ - μ').toNat = g + a' := by omega
  unfold al
  rw [hP, hc, Nat.pow_add, ← Nat.mul_assoc, Nat.pow_zero, Nat.div_one]
  exact ⟨Nat.mul_div_cancel _ (by positivity), Nat.mul_mod_left _ _⟩

theorem mod_congr {x x' : decomposed192} {a a' : Nat} (hv : val x = val x')
    (hE : x.exp.toInt + a = x'.exp.toInt + a') :
    x.sig.toNat % 10 ^ a = 0 ↔ x'.sig.toNat % 10 ^ a' = 0 := by
  unfold val at hv
  rcases le_total x'.exp.toInt x.exp.toInt with hle | hle
  · have hP := q_eq_nat hv hle
    have ha : a' = a + (x.exp.toInt - x'.exp.toInt).toNat := by omega
    rw [hP, ha]; exact (mul_pow_mod _ _ _).symm
  · have hP := q_eq_nat hv.symm hle
    have ha : a = a' + (x'.exp.toInt - x.exp.toInt).toNat := by omega
    rw [hP, ha]; exact mul_pow_mod _ _ _

/-- an operand that loses a non-zero digit in one run has the smaller exponent and loses one in the other run, too -/
theorem inex_transfer {x x' : decomposed192} {a a' : Nat} {ey' : Int} (hv : val x = val x')
    (hne : x.sig.toNat % 10 ^ a ≠ 0) (hE : x.exp.toInt + a = min x'.exp.toInt ey' + a')
    (hmax : min x'.exp.toInt ey' + a' ≤ max x'.exp.toInt ey') :
    x'.exp.toInt < ey' ∧ x'.sig.toNat % 10 ^ a' ≠ 0 := by
  by_cases hc : x'.exp.toInt < ey'
  · refine ⟨hc, fun h0 => hne ((mod_congr hv (by omega)).mpr h0)⟩
  · exact absurd (cross_contra hv hne (by omega)) id

theorem subFlag_cases (d o : decomposed192) (a : Nat) (t : Int8) :
    ((d.exp.toInt < o.exp.toInt ∧ d.sig.toNat % 10 ^ a ≠ 0) → subFlag d o a t = 1) ∧
    ((¬ d.exp.toInt < o.exp.toInt ∧ o.sig.toNat % 10 ^ a ≠ 0) → subFlag d o a t = -1) ∧
    (¬ (d.exp.toInt < o.exp.toInt ∧ d.sig.toNat % 10 ^ a ≠ 0) →
      ¬ (¬ d.exp.toInt < o.exp.toInt ∧ o.sig.toNat % 10 ^ a ≠ 0) → subFlag d o a t = t) := by
  unfold subFlag
  by_cases c : d.exp.toInt < o.exp.toInt
  · by_cases z : d.sig.toNat % 10 ^ a = 0
    · simp [c, z]
    · simp [c, z]
  · by_cases z : o.sig.toNat % 10 ^ a = 0
    · simp [c, z]
    · simp [c, z]

theorem aligned_E_cases {d d' o o' : decomposed192} {a a' : Nat} (h1 : Aligned d o a) (h2 : Aligned d' o' a')
    (hd : val d = val d') (ho : val o = val o')
    (hdS : d = d' ∨ (d.sig.toNat < 10 * LIM ∧ d'.sig.toNat < 10 * LIM))
    (hoS : o = o' ∨ (o.sig.toNat < 10 * LIM ∧ o'.sig.toNat < 10 * LIM)) :
    mu d o + a = mu d' o' + a' ∨ (mu d' o' + a' < mu d o + a ∧ a = 0) ∨
      (mu d o + a < mu d' o' + a' ∧ a' = 0) := by
  obtain ⟨-, hlow, hud, huo⟩ := h1
  obtain ⟨-, hlow', hud', huo'⟩ := h2
  rcases lt_trichotomy (mu d o + a) (mu d' o' + a') with hlt | heq | hgt
  · right; right
    refine ⟨hlt, ?_⟩
    rcases hlow' with h0 | hf | hf
    · exact h0
    · have := hud _ (hf.congr hd.symm (swapS hdS)); omega
    · have := huo _ (hf.congr ho.symm (swapS hoS)); omega
  · exact Or.inl heq
  · right; left
    refine ⟨hgt, ?_⟩
    rcases hlow with h0 | hf | hf
    · exact h0
    · have := hud' _ (hf.congr hd hdS); omega
    · have := huo' _ (hf.congr ho hoS); omega

/-! ### two runs of `sub` on operands of equal values -/

theorem mu_le_d (d o : decomposed192) : mu d o ≤ d.exp.toInt := by unfold mu; omega
theorem mu_le_o (d o : decomposed192) : mu d o ≤ o.exp.toInt := by unfold mu; omega

theorem i8_neg_cases {x : Int8} (h : x = 1 ∨ x = -1) : x * (-1) = 1 ∨ x * (-1) = -1 := by
  rcases h with h | h <;> subst h <;> decide

/-- the exact difference, read off an exact alignment -/
theorem val_abs_sub {d o r : decomposed192} {A B : Nat} {E : Int}
    (hd : (A : ℚ) * (10 : ℚ) ^ E = val d) (ho : (B : ℚ) * (10 : ℚ) ^ E = val o) (he : r.exp.toInt = E)
    (hs : (A < B → r.sig.toNat = B - A) ∧ (B ≤ A → r.sig.toNat = A - B)) :
    val r = |val d - val o| := by
  have hp : (0 : ℚ) < (10 : ℚ) ^ E := zpow_pos (by norm_num) _
  rw [← hd, ← ho, ← sub_mul]
  unfold val
  rw [he]
  rcases lt_or_ge A B with hlt | hge
  · rw [hs.1 hlt, Nat.cast_sub (le_of_lt hlt)]
    have : (A : ℚ) - (B : ℚ) < 0 := by
      have : (A : ℚ) < (B : ℚ) := by exact_mod_cast hlt
      linarith
    rw [abs_of_neg (mul_neg_of_neg_of_pos this hp)]
    ring
  · rw [hs.2 hge, Nat.cast_sub hge]
    have : (0 : ℚ) ≤ (A : ℚ) - (B : ℚ) := by
      have : (B : ℚ) ≤ (A : ℚ) := by exact_mod_cast hge
      linarith
    rw [abs_of_nonneg (mul_nonneg this hp.le)]

theorem al_exact (x : decomposed192) (μ : Int) (a : Nat) (hμ : μ ≤ x.exp.toInt)
    (h : (x.sig.toNat * 10 ^ (x.exp.toInt - μ).toNat) % 10 ^ a = 0) :
    ((al x μ a : Nat) : ℚ) * (10 : ℚ) ^ (μ + a) = val x := by
  have := Nat.div_mul_cancel (Nat.dvd_of_mod_eq_zero h)
  have hc : ((al x μ a : Nat) : ℚ) * (10 : ℚ) ^ a
      = ((x.sig.toNat * 10 ^ (x.exp.toInt - μ).toNat : Nat) : ℚ) := by
    unfold al; exact_mod_cast this
  rw [← al_base x μ hμ, zpow_add₀ (by norm_num), zpow_natCast, ← hc]
  ring

/-- no non-zero digit of the operand with the smaller exponent is dropped -/
def LoEx (d o : decomposed192) (a : Nat) : Prop :=
  (d.exp.toInt < o.exp.toInt → d.sig.toNat % 10 ^ a = 0) ∧ (¬ d.exp.toInt < o.exp.toInt → o.sig.toNat % 10 ^ a = 0)

theorem lo_exact {d o : decomposed192} {a : Nat} (hmax : mu d o + a ≤ max d.exp.toInt o.exp.toInt)
    (h : LoEx d o a) :
    (d.sig.toNat * 10 ^ (d.exp.toInt - mu d o).toNat) % 10 ^ a = 0 ∧
    (o.sig.toNat * 10 ^ (o.exp.toInt - mu d o).toNat) % 10 ^ a = 0 := by
  have key : ∀ (X c : Nat), a ≤ c → (X * 10 ^ c) % 10 ^ a = 0 := by
    intro X c hc
    exact Nat.mod_eq_zero_of_dvd (Dvd.dvd.mul_left (Nat.pow_dvd_pow _ hc) _)
  by_cases c : d.exp.toInt < o.exp.toInt
  · have hmu : mu d o = d.exp.toInt := by unfold mu; omega
    rw [hmu] at hmax ⊢
    refine ⟨?_, key _ _ (by omega)⟩
    have e1 : (d.exp.toInt - d.exp.toInt).toNat = 0 := by omega
    rw [e1, Nat.pow_zero, Nat.mul_one]; exact h.1 c
  · have hmu : mu d o = o.exp.toInt := by unfold mu; omega
    rw [hmu] at hmax ⊢
    refine ⟨key _ _ (by omega), ?_⟩
    have e1 : (o.exp.toInt - o.exp.toInt).toNat = 0 := by omega
    rw [e1, Nat.pow_zero, Nat.mul_one]; exact h.2 c

/-- comparison of two normal forms of `sub`: equal alignment exponents, or the first run aligns exactly above the second -/
theorem snf_congr_aux {d d' o o' : decomposed192} {t t' : Int8} {n n' : Bool} {r r' : decomposed192}
    {t1 t1' : Int8} {a a' : Nat} (h1 : SubNF d o t n r t1 a) (h2 : SubNF d' o' t' n' r' t1' a')
    (hd : val d = val d') (ho : val o = val o')
    (hE : mu d o + a = mu d' o' + a' ∨ (mu d' o' + a' < mu d o + a ∧ a = 0)) :
    n = n' ∧
    ((val r = |val d - val o| ∧ val r' = |val d - val o| ∧
        t1 = (if n then t * (-1) else t) ∧ t1' = (if n then t' * (-1) else t')) ∨
     (r = r' ∧ t1 = t1' ∧ (t1 = 1 ∨ t1 = -1))) ∧
    (mu d o + a = mu d' o' + a' → r = r' ∧ (t = t' → t1 = t1')) := by
  obtain ⟨hal, he, hlt1, hge1⟩ := h1
  obtain ⟨hal', he', hlt2, hge2⟩ := h2
  rcases hE with hEq | ⟨hElt, ha0⟩
  · -- same alignment exponent: the same aligned significands
    have hA := al_congr hd (mu_le_d d o) (mu_le_d d' o') hEq
    have hB := al_congr ho (mu_le_o d o) (mu_le_o d' o') hEq
    rw [← hA, ← hB] at hlt2 hge2
    -- the flags after the alignment
    have hF : (subFlag d o a t = t ∧ subFlag d' o' a' t' = t' ∧ LoEx d o a) ∨
        (subFlag d o a t = subFlag d' o' a' t' ∧ (subFlag d o a t = 1 ∨ subFlag d o a t = -1)) := by
      obtain ⟨f1, f2, f3⟩ := subFlag_cases d o a t
      obtain ⟨f1', f2', f3'⟩ := subFlag_cases d' o' a' t'
      by_cases i1 : d.exp.toInt < o.exp.toInt ∧ d.sig.toNat % 10 ^ a ≠ 0
      · have hmu : mu d o = d.exp.toInt := by unfold mu; omega
        have := inex_transfer (ey' := o'.exp.toInt) hd i1.2 (by rw [← hmu]; exact hEq) hal'.1
        exact Or.inr ⟨by rw [f1 i1, f1' this], Or.inl (f1 i1)⟩
      · by_cases i2 : ¬ d.exp.toInt < o.exp.toInt ∧ o.sig.toNat % 10 ^ a ≠ 0
        · have ha : a ≠ 0 := fun h0 => i2.2 (by rw [h0, Nat.pow_zero, Nat.mod_one])
          have hmax := hal.1
          have hmu : mu d o = o.exp.toInt := by unfold mu; omega
          have hmu' : mu d' o' = min o'.exp.toInt d'.exp.toInt := by unfold mu; omega
          have := inex_transfer (ey' := d'.exp.toInt) ho i2.2 (by rw [← hmu, ← hmu']; exact hEq)
            (by rw [← hmu']; have := hal'.1; omega)
          exact Or.inr ⟨by rw [f2 i2, f2' ⟨by omega, this.2⟩], Or.inr (f2 i2)⟩
        · left
          refine ⟨f3 i1 i2, f3' ?_ ?_, ⟨fun c => by_contra fun z => i1 ⟨c, z⟩, fun c => by_contra fun z => i2 ⟨c, z⟩⟩⟩
          · intro i1'
            have hmu' : mu d' o' = d'.exp.toInt := by unfold mu; omega
            have := inex_transfer (ey' := o.exp.toInt) hd.symm i1'.2
              (by rw [← hmu']; exact hEq.symm) hal.1
            exact i1 this
          · intro i2'
            have ha : a' ≠ 0 := fun h0 => i2'.2 (by rw [h0, Nat.pow_zero, Nat.mod_one])
            have hmax := hal'.1
            have hmu' : mu d' o' = o'.exp.toInt := by unfold mu; omega
            have hmu : mu d o = min o.exp.toInt d.exp.toInt := by unfold mu; omega
            have := inex_transfer (ey' := d.exp.toInt) ho.symm i2'.2 (by rw [← hmu, ← hmu']; exact hEq.symm)
              (by rw [← hmu]; have := hal.1; omega)
            exact i2 ⟨by omega, this.2⟩
    have hexact : LoEx d o a →
        ((al d (mu d o) a < al o (mu d o) a → r.sig.toNat = al o (mu d o) a - al d (mu d o) a) ∧
         (al o (mu d o) a ≤ al d (mu d o) a → r.sig.toNat = al d (mu d o) a - al o (mu d o) a)) →
        val r = |val d - val o| := by
      intro hlo hs
      obtain ⟨z1, z2⟩ := lo_exact hal.1 hlo
      exact val_abs_sub (al_exact d _ a (mu_le_d d o) z1) (al_exact o _ a (mu_le_o d o) z2) he hs
    rcases lt_or_ge (al d (mu d o) a) (al o (mu d o) a) with hlt | hge
    · obtain ⟨hn, hs, ht⟩ := hlt1 hlt
      obtain ⟨hn', hs', ht'⟩ := hlt2 hlt
      have hrr : r = r' := d192_ext (by rw [hs, hs']) (by rw [he, he', hEq])
      refine ⟨by rw [hn, hn'], ?_, fun _ => ⟨hrr, fun htt => ?_⟩⟩
      · rcases hF with ⟨g1, g2, g3⟩ | ⟨g1, g2⟩
        · left
          have hex : val r = |val d - val o| := hexact g3 ⟨fun _ => hs, fun h => by omega⟩
          refine ⟨hex, hrr ▸ hex, by rw [ht, g1, hn]; rfl, by rw [ht', g2, hn]; rfl⟩
        · right; exact ⟨hrr, by rw [ht, ht', g1], by rw [ht]; exact i8_neg_cases g2⟩
      · rcases hF with ⟨g1, g2, _⟩ | ⟨g1, g2⟩
        · rw [ht, ht', g1, g2, htt]
        · rw [ht, ht', g1]
    · obtain ⟨hn, hs, ht⟩ := hge1 hge
      obtain ⟨hn', hs', ht'⟩ := hge2 hge
      have hrr : r = r' := d192_ext (by rw [hs, hs']) (by rw [he, he', hEq])
      refine ⟨by rw [hn, hn'], ?_, fun _ => ⟨hrr, fun htt => ?_⟩⟩
      · rcases hF with ⟨g1, g2, g3⟩ | ⟨g1, g2⟩
        · left
          have hex : val r = |val d - val o| := hexact g3 ⟨fun h => by omega, fun _ => hs⟩
          refine ⟨hex, hrr ▸ hex, by rw [ht, g1, hn]; rfl, by rw [ht', g2, hn]; rfl⟩
        · right; exact ⟨hrr, by rw [ht, ht', g1], by rw [ht]; exact g2⟩
      · rcases hF with ⟨g1, g2, _⟩ | ⟨g1, g2⟩
        · rw [ht, ht', g1, g2, htt]
        · rw [ht, ht', g1]
  · -- the first run aligns at its smaller exponent, the second one below: both exact
    subst ha0
    obtain ⟨g, hg⟩ : ∃ g : Nat, mu d' o' + a' + g = mu d o := ⟨(mu d o - mu d' o' - a').toNat, by omega⟩
    have hg1 : 1 ≤ g := by omega
    obtain ⟨hA', hzd⟩ := al_scale hd (mu_le_d d o) (mu_le_d d' o') hg
    obtain ⟨hB', hzo⟩ := al_scale ho (mu_le_o d o) (mu_le_o d' o') hg
    have hpg : 0 < 10 ^ g := by positivity
    have hF : subFlag d o 0 t = t := by
      obtain ⟨-, -, f3⟩ := subFlag_cases d o 0 t
      exact f3 (fun h => h.2 (by rw [Nat.pow_zero, Nat.mod_one])) (fun h => h.2 (by rw [Nat.pow_zero, Nat.mod_one]))
    have hF' : subFlag d' o' a' t' = t' := by
      obtain ⟨-, -, f3⟩ := subFlag_cases d' o' a' t'
      refine f3 (fun h => h.2 ?_) (fun h => h.2 ?_)
      · have hmu' : mu d' o' = d'.exp.toInt := by unfold mu; omega
        have e1 : (d'.exp.toInt - d'.exp.toInt).toNat = 0 := by omega
        rw [hmu', e1, Nat.pow_zero, Nat.mul_one] at hzd; exact hzd
      · have hmu' : mu d' o' = o'.exp.toInt := by unfold mu; omega
        have e1 : (o'.exp.toInt - o'.exp.toInt).toNat = 0 := by omega
        rw [hmu', e1, Nat.pow_zero, Nat.mul_one] at hzo; exact hzo
    rw [hF] at hlt1 hge1
    rw [hF', hA', hB'] at hlt2 hge2
    have hdA : ((al d (mu d o) 0 : Nat) : ℚ) * (10 : ℚ) ^ (mu d o) = val d := by
      have := al_exact d (mu d o) 0 (mu_le_d d o) (by rw [Nat.pow_zero, Nat.mod_one]); simpa using this
    have hoB : ((al o (mu d o) 0 : Nat) : ℚ) * (10 : ℚ) ^ (mu d o) = val o := by
      have := al_exact o (mu d o) 0 (mu_le_o d o) (by rw [Nat.pow_zero, Nat.mod_one]); simpa using this
    have he0 : r.exp.toInt = mu d o := by rw [he]; simp
    refine ⟨?_, Or.inl ?_, fun h => by omega⟩
    · rcases lt_or_ge (al d (mu d o) 0) (al o (mu d o) 0) with hlt | hge
      · rw [(hlt1 hlt).1, (hlt2 (Nat.mul_lt_mul_of_pos_right hlt hpg)).1]
      · rw [(hge1 hge).1, (hge2 (Nat.mul_le_mul_right _ hge)).1]
    · rcases lt_or_ge (al d (mu d o) 0) (al o (mu d o) 0) with hlt | hge
      · obtain ⟨hn, hs, ht⟩ := hlt1 hlt
        obtain ⟨hn', hs', ht'⟩ := hlt2 (Nat.mul_lt_mul_of_pos_right hlt hpg)
        have hex : val r = |val d - val o| := val_abs_sub hdA hoB he0 ⟨fun _ => hs, fun h => by omega⟩
        have hsc : Sc g r r' := ⟨by rw [hs', hs, Nat.sub_mul], by rw [he0, he']; omega⟩
        refine ⟨hex, by rw [← hsc.val]; exact hex, by rw [ht, hn]; rfl, by rw [ht', hn]; rfl⟩
      · obtain ⟨hn, hs, ht⟩ := hge1 hge
        obtain ⟨hn', hs', ht'⟩ := hge2 (Nat.mul_le_mul_right _ hge)
        have hex : val r = |val d - val o| := val_abs_sub hdA hoB he0 ⟨fun h => by omega, fun _ => hs⟩
        have hsc : Sc g r r' := ⟨by rw [hs', hs, Nat.sub_mul], by rw [he0, he']; omega⟩
        refine ⟨hex, by rw [← hsc.val]; exact hex, by rw [ht, hn]; rfl, by rw [ht', hn]; rfl⟩

/-- **comparison of two normal forms of `sub`** (operands of equal values, identical or not over-full) -/
theorem snf_congr {d d' o o' : decomposed192} {t t' : Int8} {n n' : Bool} {r r' : decomposed192}
    {t1 t1' : Int8} {a a' : Nat} (h1 : SubNF d o t n r t1 a) (h2 : SubNF d' o' t' n' r' t1' a')
    (hd : val d = val d') (ho : val o = val o')
    (hdS : d = d' ∨ (d.sig.toNat < 10 * LIM ∧ d'.sig.toNat < 10 * LIM))
    (hoS : o = o' ∨ (o.sig.toNat < 10 * LIM ∧ o'.sig.toNat < 10 * LIM)) :
    n = n' ∧
    ((val r = |val d - val o| ∧ val r' = |val d - val o| ∧
        t1 = (if n then t * (-1) else t) ∧ t1' = (if n then t' * (-1) else t')) ∨
     (r = r' ∧ t1 = t1' ∧ (t1 = 1 ∨ t1 = -1))) ∧
    (mu d o + a = mu d' o' + a' → r = r' ∧ (t = t' → t1 = t1')) := by
  rcases aligned_E_cases h1.1 h2.1 hd ho hdS hoS with h | h | h
  · exact snf_congr_aux h1 h2 hd ho (Or.inl h)
  · exact snf_congr_aux h1 h2 hd ho (Or.inr h)
  · obtain ⟨hn, hh, hE⟩ := snf_congr_aux h2 h1 hd.symm ho.symm (Or.inr h)
    refine ⟨hn.symm, ?_, fun he => ?_⟩
    · rcases hh with ⟨a, b, c, e⟩ | ⟨a, b, c⟩
      · left
        rw [← hd, ← ho] at a b
        rw [← hn]
        exact ⟨b, a, e, c⟩
      · right; exact ⟨a.symm, b.symm, b ▸ c⟩
    · obtain ⟨x, y⟩ := hE he.symm
      exact ⟨x.symm, fun htt => (y htt.symm).symm⟩

theorem SubNF.exp_window {d o : decomposed192} {t : Int8} {n : Bool} {r : decomposed192} {t1 : Int8} {a : Nat}
    (h : SubNF d o t n r t1 a) :
    min d.exp.toInt o.exp.toInt ≤ r.exp.toInt ∧ r.exp.toInt ≤ max d.exp.toInt o.exp.toInt := by
  obtain ⟨⟨hmax, -⟩, he, -⟩ := h
  rw [he]
  unfold mu at *
  omega

/-- **`sub` on cohort members** (`val d = val d'`, `val o = val o'`; each pair identical or both significands below
`10·LIM`; zero significands allowed): the same `neg`, and both runs are exact (`val r = |val d − val o|`, flags passed
through, negated on borrow) or both return the same register and the SAME flag `±1`. -/
theorem sub_congr (d d' o o' : decomposed192) (t t' : Int8)
    (hd : val d = val d') (ho : val o = val o')
    (hdS : d = d' ∨ (d.sig.toNat < 10 * LIM ∧ d'.sig.toNat < 10 * LIM))
    (hoS : o = o' ∨ (o.sig.toNat < 10 * LIM ∧ o'.sig.toNat < 10 * LIM))
    (h1 : -16000 ≤ d.exp.toInt ∧ d.exp.toInt ≤ 16000) (h2 : -16000 ≤ o.exp.toInt ∧ o.exp.toInt ≤ 16000)
    (h1' : -16000 ≤ d'.exp.toInt ∧ d'.exp.toInt ≤ 16000)
    (h2' : -16000 ≤ o'.exp.toInt ∧ o'.exp.toInt ≤ 16000) :
    ∃ n r t1 r' t1', decomposed192.sub d o t = .ok (n, r, t1) ∧ decomposed192.sub d' o' t' = .ok (n, r', t1') ∧
      ((val r = |val d - val o| ∧ val r' = |val d - val o| ∧
          t1 = (if n then t * (-1) else t) ∧ t1' = (if n then t' * (-1) else t')) ∨
       (r = r' ∧ t1 = t1' ∧ (t1 = 1 ∨ t1 = -1))) ∧
      (min d.exp.toInt o.exp.toInt ≤ r.exp.toInt ∧ r.exp.toInt ≤ max d.exp.toInt o.exp.toInt) ∧
      (min d'.exp.toInt o'.exp.toInt ≤ r'.exp.toInt ∧ r'.exp.toInt ≤ max d'.exp.toInt o'.exp.toInt) := by
  obtain ⟨n, r, t1, a, hr, hn⟩ := sub_nf d o t h1 h2
  obtain ⟨n', r', t1', a', hr', hn'⟩ := sub_nf d' o' t' h1' h2'
  obtain ⟨e, h, -⟩ := snf_congr hn hn' hd ho hdS hoS
  subst e
  exact ⟨n, r, t1, r', t1', hr, hr', h, hn.exp_window, hn'.exp_window⟩

/-- the weak form: the same `neg`, results of equal value; identical registers unless both runs are exact -/
theorem sub_congr_val (d d' o o' : decomposed192) (t t' : Int8)
    (hd : val d = val d') (ho : val o = val o')
    (hdS : d = d' ∨ (d.sig.toNat < 10 * LIM ∧ d'.sig.toNat < 10 * LIM))
    (hoS : o = o' ∨ (o.sig.toNat < 10 * LIM ∧ o'.sig.toNat < 10 * LIM))
    (h1 : -16000 ≤ d.exp.toInt ∧ d.exp.toInt ≤ 16000) (h2 : -16000 ≤ o.exp.toInt ∧ o.exp.toInt ≤ 16000)
    (h1' : -16000 ≤ d'.exp.toInt ∧ d'.exp.toInt ≤ 16000)
    (h2' : -16000 ≤ o'.exp.toInt ∧ o'.exp.toInt ≤ 16000) :
    ∃ n r t1 r' t1', decomposed192.sub d o t = .ok (n, r, t1) ∧ decomposed192.sub d' o' t' = .ok (n, r', t1') ∧
      val r = val r' ∧ (r = r' ∨ val r = |val d - val o|) ∧ (t = t' → t1 = t1') ∧
      (min d.exp.toInt o.exp.toInt ≤ r.exp.toInt ∧ r.exp.toInt ≤ max d.exp.toInt o.exp.toInt) ∧
      (min d'.exp.toInt o'.exp.toInt ≤ r'.exp.toInt ∧ r'.exp.toInt ≤ max d'.exp.toInt o'.exp.toInt) := by
  obtain ⟨n, r, t1, r', t1', hr, hr', h, w, w'⟩ := sub_congr d d' o o' t t' hd ho hdS hoS h1 h2 h1' h2'
  refine ⟨n, r, t1, r', t1', hr, hr', ?_, ?_, ?_, w, w'⟩
  · rcases h with ⟨a, b, -⟩ | ⟨a, -⟩
    · rw [a, b]
    · rw [a]
  · rcases h with ⟨a, -⟩ | ⟨a, -⟩
    · exact Or.inr a
    · exact Or.inl a
  · intro htt
    rcases h with ⟨_, _, c, e⟩ | ⟨_, b, _⟩
    · rw [c, e, htt]
    · exact b

/-- **second operand identical and at least `LIM`** (any size up to `2^192`), same incoming flag:
`sub` does not see the representation of `d` at all -/
theorem sub_congr_o_full (d d' o : decomposed192) (t : Int8) (hd : val d = val d')
    (hdS : d = d' ∨ (d.sig.toNat < 10 * LIM ∧ d'.sig.toNat < 10 * LIM)) (hO : LIM ≤ o.sig.toNat)
    (h1 : -16000 ≤ d.exp.toInt ∧ d.exp.toInt ≤ 16000) (h2 : -16000 ≤ o.exp.toInt ∧ o.exp.toInt ≤ 16000)
    (h1' : -16000 ≤ d'.exp.toInt ∧ d'.exp.toInt ≤ 16000) :
    decomposed192.sub d o t = decomposed192.sub d' o t := by
  obtain ⟨n, r, t1, a, hr, hn⟩ := sub_nf d o t h1 h2
  obtain ⟨n', r', t1', a', hr', hn'⟩ := sub_nf d' o t h1' h2
  have hf : FullAt o o.exp.toInt := FullAt.of_ge hO
  have b1 := hn.1.2.2.2 _ hf
  have b2 := hn'.1.2.2.2 _ hf
  have hE : mu d o + a = mu d' o + a' := by
    rcases aligned_E_cases hn.1 hn'.1 hd rfl hdS (Or.inl rfl) with h | ⟨h, h0⟩ | ⟨h, h0⟩
    · exact h
    · unfold mu at *; omega
    · unfold mu at *; omega
  obtain ⟨e, -, h⟩ := snf_congr hn hn' hd rfl hdS (Or.inl rfl)
  obtain ⟨hrr, htt⟩ := h hE
  rw [hr, hr', e, hrr, htt rfl]

/-- **first operand identical and at least `LIM`**, same incoming flag: `sub` does not see the representation of `o` -/
theorem sub_congr_d_full (d o o' : decomposed192) (t : Int8) (ho : val o = val o')
    (hoS : o = o' ∨ (o.sig.toNat < 10 * LIM ∧ o'.sig.toNat < 10 * LIM)) (hD : LIM ≤ d.sig.toNat)
    (h1 : -16000 ≤ d.exp.toInt ∧ d.exp.toInt ≤ 16000) (h2 : -16000 ≤ o.exp.toInt ∧ o.exp.toInt ≤ 16000)
    (h2' : -16000 ≤ o'.exp.toInt ∧ o'.exp.toInt ≤ 16000) :
    decomposed192.sub d o t = decomposed192.sub d o' t := by
  obtain ⟨n, r, t1, a, hr, hn⟩ := sub_nf d o t h1 h2
  obtain ⟨n', r', t1', a', hr', hn'⟩ := sub_nf d o' t h1 h2'
  have hf : FullAt d d.exp.toInt := FullAt.of_ge hD
  have b1 := hn.1.2.2.1 _ hf
  have b2 := hn'.1.2.2.1 _ hf
  have hE : mu d o + a = mu d o' + a' := by
    rcases aligned_E_cases hn.1 hn'.1 rfl ho (Or.inl rfl) hoS with h | ⟨h, h0⟩ | ⟨h, h0⟩
    · exact h
    · unfold mu at *; omega
    · unfold mu at *; omega
  obtain ⟨e, -, h⟩ := snf_congr hn hn' rfl ho (Or.inl rfl) hoS
  obtain ⟨hrr, htt⟩ := h hE
  rw [hr, hr', e, hrr, htt rfl]

/-- **second operand identical**, same incoming flag: the same `neg` and flag, equal values, identical registers unless exact -/
theorem sub_congr_o_id (d d' o : decomposed192) (t : Int8) (hd : val d = val d')
    (hdS : d = d' ∨ (d.sig.toNat < 10 * LIM ∧ d'.sig.toNat < 10 * LIM))
    (h1 : -16000 ≤ d.exp.toInt ∧ d.exp.toInt ≤ 16000) (h2 : -16000 ≤ o.exp.toInt ∧ o.exp.toInt ≤ 16000)
    (h1' : -16000 ≤ d'.exp.toInt ∧ d'.exp.toInt ≤ 16000) :
    ∃ n r r' t1, decomposed192.sub d o t = .ok (n, r, t1) ∧ decomposed192.sub d' o t = .ok (n, r', t1) ∧
      val r = val r' ∧ (r = r' ∨ (val r = |val d - val o| ∧ t1 = (if n then t * (-1) else t))) ∧
      (min d.exp.toInt o.exp.toInt ≤ r.exp.toInt ∧ r.exp.toInt ≤ max d.exp.toInt o.exp.toInt) ∧
      (min d'.exp.toInt o.exp.toInt ≤ r'.exp.toInt ∧ r'.exp.toInt ≤ max d'.exp.toInt o.exp.toInt) := by
  obtain ⟨n, r, t1, r', t1', hr, hr', h, w, w'⟩ :=
    sub_congr d d' o o t t hd rfl hdS (Or.inl rfl) h1 h2 h1' h2
  rcases h with ⟨a, b, c, e⟩ | ⟨a, b, c⟩
  · exact ⟨n, r, r', t1, hr, by rw [hr', c, e], by rw [a, b], Or.inr ⟨a, c⟩, w, w'⟩
  · exact ⟨n, r, r', t1, hr, by rw [hr', b], by rw [a], Or.inl a, w, w'⟩

/-- `val o ≤ val d` ⇒ no borrow (`neg = false`), also in an inexact run -/
theorem SubNF.neg_false {d o : decomposed192} {t : Int8} {n : Bool} {r : decomposed192} {t1 : Int8} {a : Nat}
    (h : SubNF d o t n r t1 a) (hle : val o ≤ val d) : n = false := by
  obtain ⟨-, -, -, hge⟩ := h
  refine (hge ?_).1
  unfold al
  refine Nat.div_le_div_right ?_
  have hp : (0 : ℚ) < (10 : ℚ) ^ mu d o := zpow_pos (by norm_num) _
  rw [← al_base o _ (mu_le_o d o), ← al_base d _ (mu_le_d d o)] at hle
  have := le_of_mul_le_mul_right hle hp
  exact_mod_cast this

/-- **`d` dominates**: the scaling loops bring `d` to full width at an exponent `f` above both `o.exp` and `o'.exp`
(`FullAt d f`; by `FullAt.congr` the same `f` serves `d'`).  Then both runs align at the same exponent and return the SAME
register and `neg` outright; flags: passed through (negated on borrow) if exact, else equal and `±1`. -/
theorem sub_congr_dom (d d' o o' : decomposed192) (t t' : Int8)
    (hd : val d = val d') (ho : val o = val o')
    (hdS : d = d' ∨ (d.sig.toNat < 10 * LIM ∧ d'.sig.toNat < 10 * LIM))
    (hoS : o = o' ∨ (o.sig.toNat < 10 * LIM ∧ o'.sig.toNat < 10 * LIM))
    (f : Int) (hf : FullAt d f) (hfo : o.exp.toInt < f) (hfo' : o'.exp.toInt < f)
    (h1 : -16000 ≤ d.exp.toInt ∧ d.exp.toInt ≤ 16000) (h2 : -16000 ≤ o.exp.toInt ∧ o.exp.toInt ≤ 16000)
    (h1' : -16000 ≤ d'.exp.toInt ∧ d'.exp.toInt ≤ 16000)
    (h2' : -16000 ≤ o'.exp.toInt ∧ o'.exp.toInt ≤ 16000) :
    ∃ n r t1 t1', decomposed192.sub d o t = .ok (n, r, t1) ∧ decomposed192.sub d' o' t' = .ok (n, r, t1') ∧
      ((val r = |val d - val o| ∧ t1 = (if n then t * (-1) else t) ∧ t1' = (if n then t' * (-1) else t')) ∨
       (t1 = t1' ∧ (t1 = 1 ∨ t1 = -1))) ∧
      (val o ≤ val d → n = false) ∧
      (f ≤ r.exp.toInt ∧ r.exp.toInt ≤ max d.exp.toInt o.exp.toInt ∧ r.exp.toInt ≤ max d'.exp.toInt o'.exp.toInt) := by
  obtain ⟨n, r, t1, a, hr, hn⟩ := sub_nf d o t h1 h2
  obtain ⟨n', r', t1', a', hr', hn'⟩ := sub_nf d' o' t' h1' h2'
  have b1 := hn.1.2.2.1 _ hf
  have b2 := hn'.1.2.2.1 _ (hf.congr hd hdS)
  have hE : mu d o + a = mu d' o' + a' := by
    rcases aligned_E_cases hn.1 hn'.1 hd ho hdS hoS with h | ⟨h, h0⟩ | ⟨h, h0⟩
    · exact h
    · unfold mu at *; omega
    · unfold mu at *; omega
  obtain ⟨e, h, hh⟩ := snf_congr hn hn' hd ho hdS hoS
  obtain ⟨hrr, -⟩ := hh hE
  subst e hrr
  refine ⟨n, r, t1, t1', hr, hr', ?_, hn.neg_false, ?_⟩
  · rcases h with ⟨a, _, c, e⟩ | ⟨_, b, c⟩
    · exact Or.inl ⟨a, c, e⟩
    · exact Or.inr ⟨b, c⟩
  · have w := hn.exp_window
    have w' := hn'.exp_window
    exact ⟨by rw [hn.2.1]; exact b1, w.2, w'.2⟩

/-! ### observation by evaluation, and the hypotheses are satisfiable -/

/-- run `sub`, return `(neg, sig, exp, flag)` -/
def runSub (d o : decomposed192) (t : Int8) : Option (Bool × Nat × Int × Int) :=
  match decomposed192.sub d o t with
  | .ok (n, r, t') => some (n, r.sig.toNat, r.exp.toInt, t'.toInt)
  | .error _ => none

-- OBSERVATION (over-full operand, as for `add`): `d = ⟨10·LIM, 5⟩`, `d' = ⟨LIM, 6⟩` (same value), `o = ⟨7, 5⟩`:
-- the first run is the exact difference, the second one drops the `7` — `sub` is not a function of the values.
#guard runSub ⟨⟨0, 0, 18014398509481984000⟩, 5⟩ ⟨⟨7, 0, 0⟩, 5⟩ 0 = some (false, 10 * LIM - 7, 5, 0)
#guard runSub ⟨⟨0, 0, 1801439850948198400⟩, 6⟩ ⟨⟨7, 0, 0⟩, 5⟩ 0 = some (false, LIM, 6, -1)

/-- `1.5 − 12` against `1.50 − 12.000` -/
example := sub_congr ⟨⟨15, 0, 0⟩, -1⟩ ⟨⟨150, 0, 0⟩, -2⟩ ⟨⟨12, 0, 0⟩, 0⟩ ⟨⟨12000, 0, 0⟩, -3⟩ 0 1 ex_val ex_val'
  (Or.inr ⟨ex_small _, ex_small _⟩) (Or.inr ⟨ex_small _, ex_small _⟩)
  (by decide) (by decide) (by decide) (by decide)
example := sub_congr_val ⟨⟨15, 0, 0⟩, -1⟩ ⟨⟨150, 0, 0⟩, -2⟩ ⟨⟨12, 0, 0⟩, 0⟩ ⟨⟨12000, 0, 0⟩, -3⟩ 0 1 ex_val ex_val'
  (Or.inr ⟨ex_small _, ex_small _⟩) (Or.inr ⟨ex_small _, ex_small _⟩)
  (by decide) (by decide) (by decide) (by decide)
example := sub_congr_o_id ⟨⟨15, 0, 0⟩, -1⟩ ⟨⟨150, 0, 0⟩, -2⟩ ⟨⟨12, 0, 0⟩, 0⟩ 0 ex_val
  (Or.inr ⟨ex_small _, ex_small _⟩) (by decide) (by decide) (by decide)
example := sub_congr_o_full ⟨⟨15, 0, 0⟩, -1⟩ ⟨⟨150, 0, 0⟩, -2⟩ ⟨⟨0, 0, 1801439850948198400⟩, -3⟩ 0 ex_val
  (Or.inr ⟨ex_small _, ex_small _⟩) (by decide) (by decide) (by decide) (by decide)
example := sub_congr_d_full ⟨⟨0, 0, 1801439850948198400⟩, 1⟩ ⟨⟨12, 0, 0⟩, 0⟩ ⟨⟨12000, 0, 0⟩, -3⟩ 0 ex_val'
  (Or.inr ⟨ex_small _, ex_small _⟩) (by decide) (by decide) (by decide) (by decide)

example := sub_congr_dom ⟨⟨0, 0, 1801439850948198400⟩, 1⟩ ⟨⟨0, 0, 1801439850948198400⟩, 1⟩
  ⟨⟨12, 0, 0⟩, 0⟩ ⟨⟨12000, 0, 0⟩, -3⟩ 0 0 rfl ex_val' (Or.inl rfl) (Or.inr ⟨ex_small _, ex_small _⟩)
  _ (FullAt.of_ge (by decide)) (by decide) (by decide) (by decide) (by decide) (by decide) (by decide)

end CohortElem
