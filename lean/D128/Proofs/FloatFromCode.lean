/-
  D128/Proofs/FloatFromCode.lean — code-level normal form of the generated `Gen.FromFloat64`
  (Go: /repo/convert.go, `func FromFloat64`).

  Provided (namespace `FF`):
  * `finishK`   : the epilogue `reduce256; if exp > maxBiasedExponent …`
  * `bigBody`, `bigPath`       : `shift < 0` (|f| ≥ 2^53): the `div10`/`lsh` loop beyond 192 bits
  * `smallInner`, `smallBody`, `smallPath` : `shift > 0`: the `mul64(10)`/`rsh` loops
  * `core`      : everything after the class tests
  * `fromFloat64_eq` : `Gen.FromFloat64 g f` in terms of these
-/
import D128.Proofs.RoundKernelCode
import D128.Gen.ConvertFloat

set_option autoImplicit false
set_option maxRecDepth 8192
set_option linter.unusedVariables false

namespace FF
open Gen

/-- `sig, exp := DefaultRoundingMode.reduce256(neg, sig256, exp, trunc); if exp > maxBiasedExponent …` -/
def finishK (rm : UInt8) (neg : Bool) (sig256 : U256) (exp : Int16) (trunc : Int8) :
    Go.GoM Decimal := do
  let x ← RoundingMode.reduce256 rm neg sig256 exp trunc
  if decide (x.2 > 12287) = true then pure (inf neg) else pure (compose neg x.1 x.2)

/-- loop state `(exp, shift, sig256, trunc, zeros)` (declaration order of the mutable variables) -/
abbrev St := Int16 × Int64 × U256 × Int8 × Int64

/-- `for shift != 0 { sig256, rem = sig256.div10(); exp++; …; lsh }` -/
def bigBody (_ : Unit) (s : St) : Go.GoM (ForInStep St) :=
  if (s.2.1 != 0) = true then do
    let x ← U256.div10 s.2.2.1
    if (x.2 != 0) = true then
      if decide (s.2.1 > Go.bits.LeadingZeros64 x.1.w3) = true then
        pure (ForInStep.yield (s.1 + 1, s.2.1 - Go.bits.LeadingZeros64 x.1.w3,
          U256.lsh x.1 (Go.conv (Go.bits.LeadingZeros64 x.1.w3)), 1, Go.bits.LeadingZeros64 x.1.w3))
      else
        pure (ForInStep.done (s.1 + 1, s.2.1, U256.lsh x.1 (Go.conv s.2.1), 1,
          Go.bits.LeadingZeros64 x.1.w3))
    else
      if decide (s.2.1 > Go.bits.LeadingZeros64 x.1.w3) = true then
        pure (ForInStep.yield (s.1 + 1, s.2.1 - Go.bits.LeadingZeros64 x.1.w3,
          U256.lsh x.1 (Go.conv (Go.bits.LeadingZeros64 x.1.w3)), s.2.2.2.1,
          Go.bits.LeadingZeros64 x.1.w3))
      else
        pure (ForInStep.done (s.1 + 1, s.2.1, U256.lsh x.1 (Go.conv s.2.1), s.2.2.2.1,
          Go.bits.LeadingZeros64 x.1.w3))
  else pure (ForInStep.done (s.1, s.2.1, s.2.2.1, s.2.2.2.1, s.2.2.2.2))

/-- the branch `shift < 0` after `zeros` has been fixed; `shift` is already negated -/
def bigK (rm : UInt8) (neg : Bool) (mant : UInt64) (shift zeros : Int64) : Go.GoM Decimal := do
  let t ← Go.shlS mant (Go.idx zeros)
  if decide (shift - zeros ≤ 192) = true then
    finishK rm neg (U256.lsh { w0 := t, w1 := 0, w2 := 0, w3 := 0 } (Go.conv (shift - zeros))) 6176 0
  else do
    let s ← forIn Lean.Loop.mk
      ((6176 : Int16), shift - zeros - 192, U256.lsh { w0 := t, w1 := 0, w2 := 0, w3 := 0 } 192,
        (0 : Int8), zeros) bigBody
    finishK rm neg s.2.2.1 s.1 s.2.2.2.1

/-- the branch `shift < 0`; `shift` is already negated -/
def bigPath (rm : UInt8) (neg : Bool) (mant : UInt64) (shift : Int64) : Go.GoM Decimal :=
  if decide (Go.bits.LeadingZeros64 mant > shift) = true then bigK rm neg mant shift shift
  else bigK rm neg mant shift (Go.bits.LeadingZeros64 mant)

/-- `for zeros >= 4 { sig256 = sig256.mul64(10); exp--; zeros = … }`, state `(exp, sig256, zeros)` -/
def smallInner (_ : Unit) (s : Int16 × U256 × Int64) :
    Go.GoM (ForInStep (Int16 × U256 × Int64)) :=
  if decide (s.2.2 ≥ 4) = true then
    pure (ForInStep.yield (s.1 - 1, U256.mul64 s.2.1 10,
      Go.bits.LeadingZeros64 (U256.mul64 s.2.1 10).w3))
  else pure (ForInStep.done (s.1, s.2.1, s.2.2))

/-- the right shift at the end of a pass of the outer loop -/
def smallShift (s : St) (s1 : Int16 × U256 × Int64) (max_ : Int64) : Go.GoM (ForInStep St) :=
  if decide (Go.bits.TrailingZeros64 s1.2.1.w0 < max_) = true then
    pure (ForInStep.yield (s1.1, s.2.1 - max_, U256.rsh s1.2.1 (Go.conv max_), 1,
      Go.bits.TrailingZeros64 s1.2.1.w0))
  else
    pure (ForInStep.yield (s1.1, s.2.1 - max_, U256.rsh s1.2.1 (Go.conv max_), s.2.2.2.1,
      Go.bits.TrailingZeros64 s1.2.1.w0))

/-- `for shift != 0 { …mul64(10)…; max := 4 - zeros; …; sig256 = sig256.rsh(max); shift -= max }` -/
def smallBody (_ : Unit) (s : St) : Go.GoM (ForInStep St) :=
  if (s.2.1 != 0) = true then do
    let s1 ← forIn Lean.Loop.mk (s.1, s.2.2.1, Go.bits.LeadingZeros64 s.2.2.1.w3) smallInner
    if decide (s.2.1 < 4 - s1.2.2) = true then smallShift s s1 s.2.1
    else smallShift s s1 (4 - s1.2.2)
  else pure (ForInStep.done (s.1, s.2.1, s.2.2.1, s.2.2.2.1, s.2.2.2.2))

/-- the branch `shift > 0` after `zeros` has been fixed -/
def smallK (rm : UInt8) (neg : Bool) (mant : UInt64) (shift zeros : Int64) : Go.GoM Decimal := do
  let t ← Go.shrS mant (Go.idx zeros)
  if (shift - zeros == 0) = true then
    finishK rm neg { w0 := t, w1 := 0, w2 := 0, w3 := 0 } 6176 0
  else do
    let s ← forIn Lean.Loop.mk
      ((6176 : Int16) - 38, shift - zeros, U128.mul1e38 { w0 := t, w1 := 0 }, (0 : Int8), zeros)
      smallBody
    finishK rm neg s.2.2.1 s.1 s.2.2.2.1

/-- the branch `shift > 0` -/
def smallPath (rm : UInt8) (neg : Bool) (mant : UInt64) (shift : Int64) : Go.GoM Decimal :=
  if decide (Go.bits.TrailingZeros64 mant > shift) = true then smallK rm neg mant shift shift
  else smallK rm neg mant shift (Go.bits.TrailingZeros64 mant)

/-- everything after the class tests: `mant`, `exp` are the adjusted mantissa and binary exponent -/
def core (rm : UInt8) (neg : Bool) (mant : UInt64) (exp : Int16) : Go.GoM Decimal :=
  if ((Go.conv ((52 : Int16) - exp) : Int64) == 0) = true then
    pure (compose neg { w0 := mant, w1 := 0 } 6176)
  else if decide ((Go.conv ((52 : Int16) - exp) : Int64) < 0) = true then
    bigPath rm neg mant ((Go.conv ((52 : Int16) - exp) : Int64) * -1)
  else smallPath rm neg mant (Go.conv ((52 : Int16) - exp) : Int64)

theorem fromFloat64_eq (g : Globals) (f : Go.F64) :
    Gen.FromFloat64 g f =
      if Go.math.IsNaN f = true then pure (nan 3 0 0)
      else if Go.math.IsInf f 0 = true then pure (inf (Go.math.Signbit f))
      else if f.feq { bits := 0 } = true then pure (zero (Go.math.Signbit f))
      else if (Go.conv (Go.shr (Go.math.Float64bits f) 52 &&& 2047) == (0 : Int16)) = true then
        core g.DefaultRoundingMode (Go.math.Float64bits f &&& 9223372036854775808 != 0)
          (Go.math.Float64bits f &&& 4503599627370495) (-1022)
      else
        core g.DefaultRoundingMode (Go.math.Float64bits f &&& 9223372036854775808 != 0)
          (Go.math.Float64bits f &&& 4503599627370495 ||| 4503599627370496)
          ((Go.conv (Go.shr (Go.math.Float64bits f) 52 &&& 2047) : Int16) - 1023) := by
  unfold Gen.FromFloat64 core bigPath smallPath bigK smallK finishK bigBody smallBody smallShift smallInner
  zeta_except_jp
  with_reducible rfl

end FF
