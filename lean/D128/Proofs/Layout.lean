/-
  D128/Proofs/Layout.lean — common layer for the byte emitters of /repo/format.go
  (`Gen.digits.pad`, `Gen.digits.fmtE`, `Gen.digits.fmtF`, `Gen.Decimal.format`, generated in
  `D128/Gen/FormatText.lean`).  Used by the other `Layout*.lean` modules and `D128/Props/C07b.lean`.

  * `Ly.chr`, `Ly.bstr`      : the `Spec.Str` (list of `Char`) a byte string denotes; `Ly.bstr_append`,
        `Ly.bstr_push`, `Ly.bstr_replicate`, `Ly.bstr_toArray`, `Ly.chr_inj`, `Ly.bstr_inj`
  * `Ly.e1`, `Ly.i64_succ`, `Ly.i64_pred`, `Ly.len_toInt`, `Ly.i64_lt`, `Ly.i64_le`, `Ly.i64_ofNat`
  * `Ly.bset_eq`, `Ly.bslice_eq`, `Ly.bsliceFrom_eq`, `Ly.makeBytes_eq`, `Ly.vslice_eq`
  * `Ly.push_loop`           : `for ; i < n; i++ { buf = append(buf, c) }`
  * `Ly.push_loop_down`      : `for ; i > 0; i-- { buf = append(buf, c) }`
  * `Ly.set_loop`            : `for ; i < n; i++ { buf[i] = c }`
-/
import D128.Gen.FormatText
import D128.Proofs.DigitsRound

set_option autoImplicit false
set_option maxRecDepth 4096

namespace Ly
open Dg

/-! ## bytes as text -/

/-- the character a byte denotes (Latin-1; all emitted bytes are ASCII) -/
def chr (b : UInt8) : Char := Char.ofNat b.toNat

/-- the text a byte string denotes -/
def bstr (b : Go.Bytes) : Spec.Str := b.toList.map chr

theorem bstr_append (a b : Go.Bytes) : bstr (a ++ b) = bstr a ++ bstr b := by
  simp [bstr]

theorem bstr_push (a : Go.Bytes) (x : UInt8) : bstr (a.push x) = bstr a ++ [chr x] := by
  simp [bstr]

theorem bstr_replicate (n : Nat) (x : UInt8) :
    bstr (Array.replicate n x) = List.replicate n (chr x) := by
  simp [bstr]

theorem bstr_toArray (L : List UInt8) : bstr L.toArray = L.map chr := rfl

theorem chr_toNat (b : UInt8) : (chr b).toNat = b.toNat := by
  unfold chr
  have h : b.toNat < 256 := b.toNat_lt
  rw [Char.ofNat, dif_pos (by left; omega)]
  rfl

theorem chr_inj {a b : UInt8} (h : chr a = chr b) : a = b := by
  apply UInt8.toNat_inj.mp
  rw [← chr_toNat a, ← chr_toNat b, h]

theorem bstr_inj {a b : Go.Bytes} (h : bstr a = bstr b) : a = b := by
  apply Array.ext'
  exact (List.map_inj_right (fun _ _ => chr_inj)).mp h

/-! ## `int` arithmetic -/

theorem e1 : (1 : Int64).toInt = 1 := by decide

theorem i64_succ (i n : Int64) (h : i.toInt < n.toInt) : (i + 1).toInt = i.toInt + 1 := by
  have hn := n.toInt_lt
  have hi' := i.le_toInt
  rw [i64_add _ _ (by rw [e1]; omega) (by rw [e1]; omega), e1]

theorem i64_pred (i n : Int64) (h : n.toInt < i.toInt) : (i - 1).toInt = i.toInt - 1 := by
  have hn := i.toInt_lt
  have hi' := n.le_toInt
  rw [i64_sub _ _ (by rw [e1]; omega) (by rw [e1]; omega), e1]

theorem i64_ofNat (n : Nat) (h : n < 2 ^ 63) : (Int64.ofNat n).toInt = n := by
  rw [Int64.toInt_ofNat']
  exact bmod64 _ (by omega) (by omega)

theorem len_toInt (b : Go.Bytes) (h : b.size < 2 ^ 63) : (Go.len b).toInt = b.size :=
  i64_ofNat _ h

theorem i64_lt (a b : Int64) : (a < b) ↔ a.toInt < b.toInt := Int64.lt_iff_toInt_lt
theorem i64_le (a b : Int64) : (a ≤ b) ↔ a.toInt ≤ b.toInt := Int64.le_iff_toInt_le

/-! ## slices -/

theorem bset_eq (b : Go.Bytes) (i : Int) (x : UInt8) (h0 : 0 ≤ i) (h1 : i.toNat < b.size) :
    Go.bset b i x = .ok (b.set i.toNat x h1) := by
  unfold Go.bset
  rw [dif_pos ⟨h0, h1⟩]; rfl

theorem bslice_eq (b : Go.Bytes) (lo hi : Int) (h0 : 0 ≤ lo) (h1 : lo ≤ hi) (h2 : hi.toNat ≤ b.size) :
    Go.bslice b lo hi = .ok (b.extract lo.toNat hi.toNat) := by
  unfold Go.bslice
  rw [if_pos ⟨h0, h1, h2⟩]; rfl

theorem bsliceFrom_eq (b : Go.Bytes) (lo : Int) (h0 : 0 ≤ lo) (h1 : lo.toNat ≤ b.size) :
    Go.bsliceFrom b lo = .ok (b.extract lo.toNat b.size) := by
  unfold Go.bsliceFrom
  rw [bslice_eq b lo b.size h0 (by omega) (by simp)]
  simp

theorem makeBytes_eq (len cap : Int) (h0 : 0 ≤ len) (h1 : len ≤ cap) :
    Go.makeBytes len cap = .ok (Array.replicate len.toNat (0 : UInt8)) := by
  unfold Go.makeBytes
  rw [if_pos ⟨h0, h1⟩]; rfl

theorem vslice_eq {n : Nat} (v : Vector UInt8 n) (lo hi : Int) (h0 : 0 ≤ lo) (h1 : lo ≤ hi)
    (h2 : hi.toNat ≤ n) : Go.vslice v lo hi = .ok (v.toArray.extract lo.toNat hi.toNat) := by
  unfold Go.vslice
  rw [if_pos ⟨h0, h1, h2⟩]; rfl

/-! ## the counting loops of the emitters -/

/-- `for ; i < n; i++ { buf = append(buf, c) }` -/
theorem push_loop (c : UInt8) (n : Int64)
    (f : Unit → Go.Bytes × Int64 → Go.GoM (ForInStep (Go.Bytes × Int64)))
    (hf : ∀ s, f () s = if decide (s.2 < n) = true then
        pure (ForInStep.yield (s.1.push c, s.2 + 1)) else pure (ForInStep.done (s.1, s.2)))
    (buf : Go.Bytes) (i : Int64) :
    forIn Lean.Loop.mk (buf, i) f =
      .ok (buf ++ Array.replicate (n.toInt - i.toInt).toNat c,
        if i.toInt ≤ n.toInt then n else i) := by
  generalize hm : (n.toInt - i.toInt).toNat = m
  induction m generalizing buf i with
  | zero =>
    rw [loop_unfold, hf]
    have : ¬ i < n := by rw [Int64.lt_iff_toInt_lt]; omega
    simp only [this, decide_false, Bool.false_eq_true, if_false]
    have hi : (if i.toInt ≤ n.toInt then n else i) = i := by
      split
      · apply Int64.toInt_inj.mp; omega
      · rfl
    rw [hi]; simp; rfl
  | succ m ih =>
    rw [loop_unfold, hf]
    have hlt : i < n := by rw [Int64.lt_iff_toInt_lt]; omega
    have e := i64_succ i n (by omega)
    simp only [hlt, decide_true, if_true]
    show forIn Lean.Loop.mk (buf.push c, i + 1) f = _
    rw [ih (buf.push c) (i + 1) (by omega), e]
    have h1 : (if i.toInt + 1 ≤ n.toInt then n else i + 1) = n := by rw [if_pos (by omega)]
    have h2 : (if i.toInt ≤ n.toInt then n else i) = n := by rw [if_pos (by omega)]
    rw [h1, h2, Array.replicate_succ']
    simp

/-- `for ; i > 0; i-- { buf = append(buf, c) }` -/
theorem push_loop_down (c : UInt8)
    (f : Unit → Go.Bytes × Int64 → Go.GoM (ForInStep (Go.Bytes × Int64)))
    (hf : ∀ s, f () s = if decide (s.2 > 0) = true then
        pure (ForInStep.yield (s.1.push c, s.2 - 1)) else pure (ForInStep.done (s.1, s.2)))
    (buf : Go.Bytes) (i : Int64) :
    forIn Lean.Loop.mk (buf, i) f =
      .ok (buf ++ Array.replicate i.toInt.toNat c, if 0 ≤ i.toInt then 0 else i) := by
  generalize hm : i.toInt.toNat = m
  induction m generalizing buf i with
  | zero =>
    rw [loop_unfold, hf]
    have : ¬ i > 0 := by
      show ¬ (0 : Int64) < i
      rw [Int64.lt_iff_toInt_lt]; simp; omega
    simp only [this, decide_false, Bool.false_eq_true, if_false]
    have hi : (if 0 ≤ i.toInt then 0 else i) = i := by
      split
      · apply Int64.toInt_inj.mp; simp; omega
      · rfl
    rw [hi]; simp; rfl
  | succ m ih =>
    rw [loop_unfold, hf]
    have hlt : i > 0 := by
      show (0 : Int64) < i
      rw [Int64.lt_iff_toInt_lt]; simp; omega
    have e := i64_pred i 0 (by simp; omega)
    simp only [hlt, decide_true, if_true]
    show forIn Lean.Loop.mk (buf.push c, i - 1) f = _
    rw [ih (buf.push c) (i - 1) (by omega), e]
    have h1 : (if 0 ≤ i.toInt - 1 then (0 : Int64) else i - 1) = 0 := by rw [if_pos (by omega)]
    have h2 : (if 0 ≤ i.toInt then (0 : Int64) else i) = 0 := by rw [if_pos (by omega)]
    have h3 : (i.toInt - 1).toNat = m := by omega
    rw [h1, h2, Array.replicate_succ']
    simp

/-- `for ; i < n; i++ { buf[i] = c }` -/
theorem set_loop (c : UInt8) (n : Int64)
    (f : Unit → Go.Bytes × Int64 → Go.GoM (ForInStep (Go.Bytes × Int64)))
    (hf : ∀ s, f () s = if decide (s.2 < n) = true then (do
        let t ← Go.bset s.1 (Go.idx s.2) c
        pure (ForInStep.yield (t, s.2 + 1))) else pure (ForInStep.done (s.1, s.2)))
    (N : Nat) (hN : n.toInt = N) (buf : Go.Bytes) (i : Int64) (k : Nat) (hk : i.toInt = k)
    (hkN : k ≤ N) (hn : N ≤ buf.size) :
    forIn Lean.Loop.mk (buf, i) f =
      .ok (buf.extract 0 k ++ Array.replicate (N - k) c ++ buf.extract N buf.size, n) := by
  generalize hm : N - k = m
  induction m generalizing buf i k with
  | zero =>
    rw [loop_unfold, hf]
    have : ¬ i < n := by rw [Int64.lt_iff_toInt_lt]; omega
    simp only [this, decide_false, Bool.false_eq_true, if_false]
    have hi : i = n := by apply Int64.toInt_inj.mp; omega
    have hkN' : k = N := by omega
    subst hi; subst hkN'
    simp only [Array.replicate_zero, Array.append_empty]
    rw [Array.extract_append_extract]
    rw [Nat.min_eq_left (Nat.zero_le _), Nat.max_eq_right hn, Array.extract_size]
    rfl
  | succ m ih =>
    rw [loop_unfold, hf]
    have hlt : i < n := by rw [Int64.lt_iff_toInt_lt]; omega
    have e := i64_succ i n (by omega)
    simp only [hlt, decide_true, if_true]
    have hidx : Go.idx i = i.toInt := rfl
    rw [hidx, bset_eq buf i.toInt c (by omega) (by omega)]
    show forIn Lean.Loop.mk (buf.set i.toInt.toNat c _, i + 1) f = _
    rw [ih _ (i + 1) (k + 1) (by rw [e, hk]; rfl) (by omega) (by simpa using hn) (by omega)]
    congr 2
    have hik : i.toInt.toNat = k := by omega
    simp only [hik]
    apply Array.ext
    · simp; omega
    · intro j h1 h2
      simp only [Array.getElem_append, Array.getElem_extract, Array.getElem_set, Array.size_append,
        Array.size_extract, Array.size_set, Array.size_replicate, Array.getElem_replicate]
      have a1 : min (k+1) buf.size = k+1 := by omega
      have a2 : min k buf.size = k := by omega
      simp only [a1, a2, Nat.sub_zero, Nat.zero_add]
      split_ifs <;> first | rfl | omega | (congr 1; omega)

end Ly
