/-
  D128/Proofs/D192RootFindings.lean — the two findings of property C17 as theorems about the finish stage
  `Root.finishK` (the common end of `Gen.Sqrt`/`Gen.Cbrt`), on the concrete iterates that `#eval Root.sqrtCore`
  / `#eval Root.cbrtCore` report for `Sqrt(4)` and `Cbrt(4096)` (the cores themselves contain `while` loops the
  kernel cannot evaluate; the finish stage is handled through `reduce192_correct` and a kernel evaluation of
  the specification `Spec.flushOrRoundS` by `decide +kernel`).

  * `finish_sqrt4_toPosInf`  : iterate 2·10^57+1, exp -57, flag 1, mode ToPositiveInf (5):
                               the result is 2 + 1e-33, not 2
  * `finish_cbrt4096_toZero` : iterate 16·10^56-2, exp -56, flag 1, mode ToZero (2):
                               the result is 16 - 1e-32, not 16
  So "perfect squares and cubes give exact roots" fails when `DefaultRoundingMode` is a directed mode.
-/
import D128.Proofs.D192RootFinish
set_option autoImplicit false
set_option maxRecDepth 100000
namespace Root
open Gen Spec SpecRound
local notation "𝔳[" d "]" => Spec.interp (Gen.Decimal.lo d) (Gen.Decimal.hi d)

theorem spec_sqrt4_up : Spec.flushOrRoundS .toPosInf false
    ((2000000000000000000000000000000000000000000000000000000001 : ℚ) + 1 / 2) (-57)
    = .fin false 2000000000000000000000000000000001 (-33) := by
  decide +kernel

/-- **Finding, as a theorem about the finish stage.**  On the iterate that reaches the finish stage for
`Sqrt(4)` (sig = 2·10^57 + 1, exp = -57, flag 1 — see `#eval Root.sqrtCore`), with
`DefaultRoundingMode = ToPositiveInf` (5), the finish stage returns 2.000000000000000000000000000000001,
not 2. -/
theorem finish_sqrt4_toPosInf :
    ∃ r rc re, finishK 5 false ⟨10664523917613334529, 15563198590113658118, 5877471754111437539⟩
        (6176 - 57) 1 = .ok r ∧ 𝔳[r] = .fin false rc re ∧
      (rc : ℚ) * (10 : ℚ) ^ re = 2 + 1 / 10 ^ 33 := by
  have hsig : (⟨10664523917613334529, 15563198590113658118, 5877471754111437539⟩ : U192).toNat
      = 2000000000000000000000000000000000000000000000000000000001 := by simp [U192.toNat]
  obtain ⟨sig', exp', hred, hpost⟩ := reduce192_correct 5 .toPosInf false
    ⟨10664523917613334529, 15563198590113658118, 5877471754111437539⟩ (6176 - 57) 1 (1 / 2) rfl
    (by decide) (by decide) (Or.inr (Or.inl ⟨by decide, by norm_num, by norm_num⟩))
    (by rw [hsig]; norm_num) (fun _ => by rw [hsig]; unfold Spec.Cmax; norm_num)
    (fun h => absurd h (by decide)) (fun h => absurd h (by decide))
  have hexp : ((6176 : Int16) - 57).toInt - 6176 = -57 := by decide
  rw [hsig, hexp] at hpost
  have hs := spec_sqrt4_up
  push_cast at hpost
  rw [hs] at hpost
  unfold finishK
  rw [hred]
  have e12 : (exp' > 12287) ↔ exp'.toInt > 12287 := by
    rw [gt_iff_lt, Int16.lt_iff_toInt_lt]; simp
  by_cases hgt : exp'.toInt > 12287
  · rw [if_pos hgt] at hpost; cases hpost
  · rw [if_neg hgt] at hpost
    obtain ⟨hs', he', hsame⟩ := hpost
    refine ⟨compose false sig' exp', sig'.toNat, exp'.toInt - 6176, ?_, ?_, ?_⟩
    · show (if decide (exp' > 12287) = true then _ else _) = _
      rw [if_neg (by simpa [e12] using hgt)]; rfl
    · exact Sp.interp_compose false sig' exp' hs' he' (by omega)
    · simp only [Spec.Val.same, Bool.and_eq_true, beq_iff_eq, Spec.mag, pow10_eq_zpow] at hsame
      rw [← hsame.2]; norm_num

theorem spec_cbrt4096_down : Spec.flushOrRoundS .toZero false
    ((1599999999999999999999999999999999999999999999999999999998 : ℚ) + 1 / 2) (-56)
    = .fin false 1599999999999999999999999999999999 (-32) := by
  decide +kernel

/-- **Finding, as a theorem about the finish stage.**  On the iterate that reaches the finish stage for
`Cbrt(4096)` (sig = 16·10^56 - 2, exp = -56, flag 1 — see `#eval Root.cbrtCore`), with
`DefaultRoundingMode = ToZero` (2), the finish stage returns 15.99999999999999999999999999999999, not 16. -/
theorem finish_cbrt4096_toZero :
    ∃ r rc re, finishK 2 false ⟨1152921504606846974, 16139907686832836818, 4701977403289150031⟩
        (6176 - 56) 1 = .ok r ∧ 𝔳[r] = .fin false rc re ∧
      (rc : ℚ) * (10 : ℚ) ^ re = 16 - 1 / 10 ^ 32 := by
  have hsig : (⟨1152921504606846974, 16139907686832836818, 4701977403289150031⟩ : U192).toNat
      = 1599999999999999999999999999999999999999999999999999999998 := by simp [U192.toNat]
  obtain ⟨sig', exp', hred, hpost⟩ := reduce192_correct 2 .toZero false
    ⟨1152921504606846974, 16139907686832836818, 4701977403289150031⟩ (6176 - 56) 1 (1 / 2) rfl
    (by decide) (by decide) (Or.inr (Or.inl ⟨by decide, by norm_num, by norm_num⟩))
    (by rw [hsig]; norm_num) (fun _ => by rw [hsig]; unfold Spec.Cmax; norm_num)
    (fun h => absurd h (by decide)) (fun h => absurd h (by decide))
  have hexp : ((6176 : Int16) - 56).toInt - 6176 = -56 := by decide
  rw [hsig, hexp] at hpost
  have hs := spec_cbrt4096_down
  push_cast at hpost
  rw [hs] at hpost
  unfold finishK
  rw [hred]
  have e12 : (exp' > 12287) ↔ exp'.toInt > 12287 := by
    rw [gt_iff_lt, Int16.lt_iff_toInt_lt]; simp
  by_cases hgt : exp'.toInt > 12287
  · rw [if_pos hgt] at hpost; cases hpost
  · rw [if_neg hgt] at hpost
    obtain ⟨hs', he', hsame⟩ := hpost
    refine ⟨compose false sig' exp', sig'.toNat, exp'.toInt - 6176, ?_, ?_, ?_⟩
    · show (if decide (exp' > 12287) = true then _ else _) = _
      rw [if_neg (by simpa [e12] using hgt)]; rfl
    · exact Sp.interp_compose false sig' exp' hs' he' (by omega)
    · simp only [Spec.Val.same, Bool.and_eq_true, beq_iff_eq, Spec.mag, pow10_eq_zpow] at hsame
      rw [← hsame.2]; norm_num
end Root
