/-
  D128/Proofs/BigConvRat.lean — `FromRat` of /repo/convert.go (generated `Gen.FromRat`) and the round
  trip `FromRat(d.Rat(nil))` (property C10, big conversions).

  * `FromRat_eq`      the code: +0 for a zero numerator, else `FromInt(num).Quo(FromInt(denom))`
  * `FromRat_spec`    at the level of values: `Spec.quo m (fromIntVal m num) (fromIntVal m den)`
                      (`FromInt_correct` twice, `Props.C02.quo_correct_default`, `Cohort.quo_congr`)
  * `MemberNat`, `memberNat_of_le`, `memberNat_of_digits`, `roundTo_memberNat`, `fromIntVal_exact`
                      integers `c·10^e` (c ≤ Cmax, e ≤ 6111) convert exactly
  * `FromRat_correct` numerator and denominator convert exactly ⇒ the correctly rounded value of r
  * `toRat_divInt`, `Rat_bounds`, `toRat_sign_abs`   the reduced fraction of a finite Decimal
  * `FromRat_Rat`     the round trip is `Equal` to d when the reduced denominator converts exactly
-/
import D128.Proofs.BigConvFrom
import D128.Props.C02Quo
import D128.Proofs.CohortArith
import D128.Proofs.CohortCmp
import D128.Proofs.SpecMeaningCmp
set_option autoImplicit false
set_option maxRecDepth 4096
namespace BigConv
open Gen
local notation "𝔳[" d "]" => Spec.interp (Gen.Decimal.lo d) (Gen.Decimal.hi d)

theorem FromRat_eq (g : Globals) (r : Rat) :
    Gen.FromRat g r =
      if r.num = 0 then pure (Gen.zero false)
      else (do
        let t1 ← Gen.FromInt g r.num
        let t2 ← Gen.FromInt g (r.den : Int)
        Gen.Decimal.Quo g t1 t2) := by
  unfold Gen.FromRat
  by_cases h : r.num = 0
  · have : (Go.BigInt.Sign (Go.BigRat.Num r) == 0) = true := (Sign_eq_zero _).2 h
    simp only [this, if_true, h]
  · have : ¬ (Go.BigInt.Sign (Go.BigRat.Num r) == 0) = true := fun h' => h ((Sign_eq_zero _).1 h')
    simp only [this, if_false, h, Bool.false_eq_true]
    rfl

/-- `FromRat` is the quotient of the two conversions, at the level of values -/
theorem FromRat_spec (g : Globals) (r : Rat) (m : Spec.Mode)
    (hm : Spec.Mode.ofNat? g.DefaultRoundingMode.toNat = some m)
    (hn : Go.Big.bitLen r.num.natAbs < 2 ^ 63) (hd : Go.Big.bitLen r.den < 2 ^ 63) :
    ∃ d, Gen.FromRat g r = .ok d ∧
      (𝔳[d]).same (if r.num = 0 then .fin false 0 0
        else Spec.quo m (fromIntVal m r.num) (fromIntVal m (r.den : Int))) = true := by
  rw [FromRat_eq]
  by_cases h : r.num = 0
  · rw [if_pos h, if_pos h]
    exact ⟨_, rfl, by rw [Enc.interp_zero]; exact Sp.same_zero _ _ _⟩
  · rw [if_neg h, if_neg h]
    obtain ⟨t1, e1, s1⟩ := FromInt_correct g r.num m hm hn
    obtain ⟨t2, e2, s2⟩ := FromInt_correct g (r.den : Int) m hm (by simpa using hd)
    obtain ⟨d, e3, s3⟩ := Props.C02.quo_correct_default g t1 t2 m hm
    refine ⟨d, ?_, Cohort.same_trans s3 (Cohort.quo_congr m s1 s2)⟩
    rw [e1, e2]
    exact e3

/-- a natural number that is a member of the format: `c·10^e` with `c ≤ Cmax`, `e ≤ 6111`
    (in particular every number of at most 34 digits) -/
def MemberNat (n : Nat) : Prop := ∃ c e : Nat, c ≤ Spec.Cmax ∧ e ≤ 6111 ∧ n = c * 10 ^ e

theorem memberNat_of_le {n : Nat} (h : n ≤ Spec.Cmax) : MemberNat n := ⟨n, 0, h, by omega, by simp⟩

theorem memberNat_of_digits {n : Nat} (h : n < 10 ^ 34) : MemberNat n :=
  memberNat_of_le (by have := SpecRound.Cmax_lower; omega)

theorem roundTo_memberNat (m : Spec.Mode) (neg : Bool) (n : Nat) (hn : n ≠ 0) (h : MemberNat n) :
    (Spec.roundTo m neg (n : ℚ)).same (.fin neg n 0) = true := by
  obtain ⟨c, e, hc, he, rfl⟩ := h
  have hc0 : 0 < c := by
    rcases Nat.eq_zero_or_pos c with h0 | h0
    · subst h0; simp at hn
    · exact h0
  obtain ⟨c', e', hr, hv, -⟩ := SpecRound.roundTo_exact m neg hc0 hc (e := (e : Int))
    (by unfold Spec.Emin; omega) (by unfold Spec.Emax; omega)
  have hcast : ((c * 10 ^ e : Nat) : ℚ) = (c : ℚ) * (10 : ℚ) ^ (e : Int) := by
    rw [zpow_natCast]; push_cast; rfl
  rw [hcast, hr]
  simp only [Spec.Val.same, Spec.mag, SpecRound.pow10_eq_zpow, beq_self_eq_true, Bool.true_and,
    beq_iff_eq]
  rw [hv, hcast]; simp

theorem fromIntVal_exact (m : Spec.Mode) (i : Int) (hi : i ≠ 0) (h : MemberNat i.natAbs) :
    (fromIntVal m i).same (.fin (decide (i < 0)) i.natAbs 0) = true := by
  unfold fromIntVal
  rw [if_neg hi]
  exact roundTo_memberNat m _ _ (Int.natAbs_ne_zero.2 hi) h

theorem abs_num_div_den (r : Rat) : ((r.num.natAbs : Nat) : ℚ) / (r.den : ℚ) = |r| := by
  have h1 : (0 : ℚ) < (r.den : ℚ) := by exact_mod_cast r.den_pos
  conv_rhs => rw [← Rat.num_div_den r]
  rw [abs_div, abs_of_pos h1]
  congr 1
  rw [Nat.cast_natAbs, Int.cast_abs]

/-- numerator and denominator both convert exactly ⇒ `FromRat` is the correctly rounded value of `r` -/
theorem FromRat_correct (g : Globals) (r : Rat) (m : Spec.Mode)
    (hm : Spec.Mode.ofNat? g.DefaultRoundingMode.toNat = some m)
    (hn : Go.Big.bitLen r.num.natAbs < 2 ^ 63) (hd : Go.Big.bitLen r.den < 2 ^ 63)
    (hnum : MemberNat r.num.natAbs) (hden : MemberNat r.den) :
    ∃ d, Gen.FromRat g r = .ok d ∧
      (𝔳[d]).same (if r = 0 then .fin false 0 0 else Spec.flushOrRound m (decide (r < 0)) |r|) = true := by
  obtain ⟨d, e, s⟩ := FromRat_spec g r m hm hn hd
  refine ⟨d, e, ?_⟩
  by_cases h : r.num = 0
  · rw [if_pos h] at s
    rw [if_pos (Rat.num_eq_zero.1 h)]
    exact s
  · rw [if_neg h] at s
    have hr : r ≠ 0 := fun h' => h (Rat.num_eq_zero.2 h')
    rw [if_neg hr]
    have hdz : ((r.den : Nat) : Int) ≠ 0 := by have := r.den_pos; omega
    have s1 := fromIntVal_exact m r.num h hnum
    have s2 := fromIntVal_exact m (r.den : Int) hdz (by simpa using hden)
    refine Cohort.same_trans s (Cohort.same_trans (Cohort.quo_congr m s1 s2) ?_)
    have hden0 : ((r.den : Int).natAbs == 0) = false := by
      have := r.den_pos; simp
    have hneg : (decide (r.num < 0) != decide (((r.den : Nat) : Int) < 0)) = decide (r < 0) := by
      have : ¬ (((r.den : Nat) : Int) < 0) := by omega
      simp only [this, decide_false, Bool.bne_false]
      exact decide_eq_decide.2 Rat.num_neg
    simp only [Spec.quo, hden0, Bool.false_eq_true, if_false, hneg, sub_self]
    rw [Int.natAbs_natCast, abs_num_div_den]
    exact Cohort.same_refl _

/-! ## the round trip `FromRat(d.Rat(nil))` -/

theorem bitLen_lt_of_lt {n L : Nat} (h : n < 2 ^ L) (hL : L < 2 ^ 63) : Go.Big.bitLen n < 2 ^ 63 :=
  lt_of_le_of_lt ((bitLen_le_iff n L).2 h) hL

theorem pow10_le_pow2 (k : Nat) : 10 ^ k ≤ 2 ^ (4 * k) := by
  rw [Nat.pow_mul]; exact Nat.pow_le_pow_left (by norm_num) k

/-- the exact rational value of a finite non-zero Decimal as a fraction of integers -/
theorem toRat_divInt (n : Bool) (c : Nat) (e : Int) :
    (Spec.Val.fin n c e).toRat =
      Rat.divInt ((if n then -1 else 1) * ((c * 10 ^ e.toNat : Nat) : Int)) ((10 ^ (-e).toNat : Nat) : Int) := by
  have h10 : (10 : ℚ) ≠ 0 := by norm_num
  have hz : (10 : ℚ) ^ e = ((10 ^ e.toNat : Nat) : ℚ) / ((10 ^ (-e).toNat : Nat) : ℚ) := by
    push_cast
    rcases le_total 0 e with h | h
    · have h2 : (-e).toNat = 0 := by omega
      rw [h2, pow_zero, div_one]
      conv_lhs => rw [← Int.toNat_of_nonneg h]
      exact zpow_natCast _ _
    · have h2 : e.toNat = 0 := by omega
      rw [h2, pow_zero, one_div]
      have : e = -(((-e).toNat : Nat) : Int) := by omega
      conv_lhs => rw [this]
      rw [zpow_neg, zpow_natCast]
  simp only [Spec.Val.toRat, Spec.mag, SpecRound.pow10_eq_zpow, Rat.divInt_eq_div, hz]
  cases n <;> simp <;> ring

theorem Rat_bounds (n : Bool) (c : Nat) (e : Int) (hc : c ≤ Spec.Cmax) (he0 : -6176 ≤ e) (he1 : e ≤ 6111) :
    (Spec.Val.fin n c e).toRat.num.natAbs ≤ c * 10 ^ e.toNat ∧
    (Spec.Val.fin n c e).toRat.den ≤ 10 ^ (-e).toNat ∧
    (0 ≤ e → (Spec.Val.fin n c e).toRat.num.natAbs = c * 10 ^ e.toNat) := by
  rw [toRat_divInt]
  have hB : ((10 ^ (-e).toNat : Nat) : Int) ≠ 0 := by
    have : 0 < 10 ^ (-e).toNat := Nat.pow_pos (by decide)
    omega
  set A : Int := (if n then -1 else 1) * ((c * 10 ^ e.toNat : Nat) : Int) with hA
  have hAabs : A.natAbs = c * 10 ^ e.toNat := by
    rw [hA, Int.natAbs_mul, Int.natAbs_natCast]; cases n <;> simp
  refine ⟨?_, ?_, ?_⟩
  · by_cases hc0 : c = 0
    · subst hc0; simp [hA]
    · have hd := Rat.num_dvd A hB
      have := Int.natAbs_dvd_natAbs.2 hd
      rw [hAabs] at this
      exact Nat.le_of_dvd (Nat.mul_pos (Nat.pos_of_ne_zero hc0) (Nat.pow_pos (by decide))) this
  · have hd := Rat.den_dvd A ((10 ^ (-e).toNat : Nat) : Int)
    have := Int.natAbs_dvd_natAbs.2 hd
    rw [Int.natAbs_natCast, Int.natAbs_natCast] at this
    exact Nat.le_of_dvd (Nat.pow_pos (by decide)) this
  · intro h0
    have : (-e).toNat = 0 := by omega
    rw [this, pow_zero, Nat.cast_one, Rat.divInt_one, Rat.num_intCast, hAabs]

theorem toRat_sign_abs (n : Bool) (c : Nat) (e : Int) (hc : c ≠ 0) :
    decide ((Spec.Val.fin n c e).toRat < 0) = n ∧
    |(Spec.Val.fin n c e).toRat| = (c : ℚ) * (10 : ℚ) ^ e := by
  have hpos : (0 : ℚ) < (c : ℚ) * (10 : ℚ) ^ e :=
    mul_pos (by exact_mod_cast Nat.pos_of_ne_zero hc) (zpow_pos (by norm_num) _)
  simp only [Spec.Val.toRat, Spec.mag, SpecRound.pow10_eq_zpow]
  cases n
  · simp only [Bool.false_eq_true, if_false, abs_of_pos hpos, decide_eq_false_iff_not, not_lt]
    exact ⟨hpos.le, trivial⟩
  · simp only [if_true, abs_neg, abs_of_pos hpos, decide_eq_true_eq, Left.neg_neg_iff]
    exact ⟨hpos, trivial⟩

/-- **round trip.**  For a finite `d`, `FromRat(d.Rat(nil))` is `Equal` to `d` provided the reduced
    denominator of `d`'s value converts exactly (is `c·10^e` with `c ≤ Cmax`; in particular when it has
    at most 34 digits).  Without that hypothesis the statement is false for the current code. -/
theorem FromRat_Rat (g : Globals) (d : Gen.Decimal) (r0 : Go.BigRat) (m : Spec.Mode)
    (hm : Spec.Mode.ofNat? g.DefaultRoundingMode.toNat = some m)
    (hs : Gen.Decimal.isSpecial d = false)
    (hden : MemberNat (𝔳[d]).toRat.den) :
    ∃ q d', Gen.Decimal.Rat d r0 = .ok q ∧ q = (𝔳[d]).toRat ∧ Gen.FromRat g q = .ok d' ∧
      Spec.equal 𝔳[d'] 𝔳[d] = true ∧ (q ≠ 0 → (𝔳[d']).same 𝔳[d] = true) := by
  suffices h : ∃ d', Gen.FromRat g (𝔳[d]).toRat = .ok d' ∧
      Spec.equal 𝔳[d'] 𝔳[d] = true ∧ ((𝔳[d]).toRat ≠ 0 → (𝔳[d']).same 𝔳[d] = true) by
    obtain ⟨d', a, b, c⟩ := h
    exact ⟨_, d', Rat_finite d r0 hs, rfl, a, b, c⟩
  have hc := Enc.decompose_sig_le d
  have h0 := Enc.decompose_exp_nonneg d
  have h1 := Enc.decompose_exp_le d hs
  rw [Enc.interp_decompose d hs] at hden ⊢
  generalize Gen.Decimal.Signbit d = n at *
  generalize (Gen.Decimal.decompose d).1.toNat = c at *
  have he0 : -6176 ≤ (Gen.Decimal.decompose d).2.toInt - 6176 := by omega
  have he1 : (Gen.Decimal.decompose d).2.toInt - 6176 ≤ 6111 := by omega
  generalize (Gen.Decimal.decompose d).2.toInt - 6176 = e at *
  obtain ⟨b1, b2, b3⟩ := Rat_bounds n c e hc he0 he1
  have hCm := RK.Cmax_val
  have hnb : Go.Big.bitLen (Spec.Val.fin n c e).toRat.num.natAbs < 2 ^ 63 := by
    have hL : 114 + 4 * 6111 < 2 ^ 63 := by norm_num
    refine bitLen_lt_of_lt (L := 114 + 4 * 6111) ?_ hL
    calc (Spec.Val.fin n c e).toRat.num.natAbs ≤ c * 10 ^ e.toNat := b1
      _ < 2 ^ 114 * 10 ^ e.toNat := Nat.mul_lt_mul_of_pos_right (by omega) (Nat.pow_pos (by decide))
      _ ≤ 2 ^ 114 * 2 ^ (4 * e.toNat) := Nat.mul_le_mul_left _ (pow10_le_pow2 _)
      _ ≤ 2 ^ 114 * 2 ^ (4 * 6111) :=
          Nat.mul_le_mul_left _ (Nat.pow_le_pow_right (by decide) (by omega))
      _ = 2 ^ (114 + 4 * 6111) := by rw [Nat.pow_add]
  have hdb : Go.Big.bitLen (Spec.Val.fin n c e).toRat.den < 2 ^ 63 := by
    have hL : 4 * 6176 + 1 < 2 ^ 63 := by norm_num
    refine bitLen_lt_of_lt (L := 4 * 6176 + 1) ?_ hL
    calc (Spec.Val.fin n c e).toRat.den ≤ 10 ^ (-e).toNat := b2
      _ ≤ 2 ^ (4 * (-e).toNat) := pow10_le_pow2 _
      _ ≤ 2 ^ (4 * 6176) := Nat.pow_le_pow_right (by decide) (by omega)
      _ < 2 ^ (4 * 6176 + 1) := Nat.pow_lt_pow_right (by decide) (by omega)
  have hnum : MemberNat (Spec.Val.fin n c e).toRat.num.natAbs := by
    rcases le_or_gt 0 e with h | h
    · exact ⟨c, e.toNat, hc, by omega, b3 h⟩
    · have : e.toNat = 0 := by omega
      rw [this, pow_zero, Nat.mul_one] at b1
      exact memberNat_of_le (le_trans b1 hc)
  obtain ⟨d', e1, s1⟩ := FromRat_correct g _ m hm hnb hdb hnum hden
  refine ⟨d', e1, ?_⟩
  by_cases hc0 : c = 0
  · subst hc0
    have hq0 : (Spec.Val.fin n 0 e).toRat = 0 := by
      simp [Spec.Val.toRat, Spec.mag]
    rw [hq0] at s1 ⊢
    rw [if_pos rfl] at s1
    refine ⟨?_, fun h => absurd rfl h⟩
    rw [Cohort.equal_congr_num (Cohort.sameNum_of_same s1) (Cohort.sameNum_refl _),
      SpecMeaning.equal_fin_iff]
    simp [Spec.Val.toRat, Spec.mag]
  · obtain ⟨hsg, habs⟩ := toRat_sign_abs n c e hc0
    have hq : (Spec.Val.fin n c e).toRat ≠ 0 := by
      intro h; rw [h, abs_zero] at habs
      have : (0 : ℚ) < (c : ℚ) * (10 : ℚ) ^ e :=
        mul_pos (by exact_mod_cast Nat.pos_of_ne_zero hc0) (zpow_pos (by norm_num) _)
      linarith
    rw [if_neg hq, hsg, habs] at s1
    have hge : (10 : ℚ) ^ (Spec.Emin - 1) ≤ (c : ℚ) * (10 : ℚ) ^ e := by
      have h1 : (1 : ℚ) ≤ (c : ℚ) := by exact_mod_cast Nat.pos_of_ne_zero hc0
      have h2 : (10 : ℚ) ^ (Spec.Emin - 1) ≤ (10 : ℚ) ^ e :=
        zpow_le_zpow_right₀ (by norm_num) (by unfold Spec.Emin; omega)
      calc (10 : ℚ) ^ (Spec.Emin - 1) ≤ 1 * (10 : ℚ) ^ e := by rw [one_mul]; exact h2
        _ ≤ (c : ℚ) * (10 : ℚ) ^ e := mul_le_mul_of_nonneg_right h1 (zpow_pos (by norm_num) _).le
    rw [SpecRound.flushOrRound_eq_roundTo m n hge] at s1
    obtain ⟨c', e', hr, hv, -⟩ := SpecRound.roundTo_exact m n (Nat.pos_of_ne_zero hc0) hc (e := e)
      (by unfold Spec.Emin; omega) (by unfold Spec.Emax; omega)
    rw [hr] at s1
    have s2 : (Spec.Val.fin n c' e').same (.fin n c e) = true := by
      simp only [Spec.Val.same, Spec.mag, SpecRound.pow10_eq_zpow, beq_self_eq_true, Bool.true_and,
        beq_iff_eq]
      exact hv
    have s3 := Cohort.same_trans s1 s2
    refine ⟨?_, fun _ => s3⟩
    rw [Cohort.equal_congr_num (Cohort.sameNum_of_same s3) (Cohort.sameNum_refl _),
      SpecMeaning.equal_fin_iff]
end BigConv
