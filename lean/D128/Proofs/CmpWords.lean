/-
  Word-level facts used by the comparison proofs.

  * `Div64_ok`            — `bits.Div64 hi lo y` for `hi < y`
  * `U128_div10_eq`, `U128_div1000_eq`, `U128_div10000_eq`, `U128_div1e8_eq`, `U128_div1e19_eq`
                          — `∃ q r, Gen.U128.divP n = .ok (q, r) ∧ q.toNat = n.toNat / P ∧ r.toNat = n.toNat % P`
  * `U128_cmp_eq`         — `Gen.U128.cmp n o` is 0 / -1 / 1 according to the order of `toNat`
  * `U128_or_eq_zero`     — `(n.w0 ||| n.w1 == 0) = decide (n.toNat = 0)`
  * `U128_toNat_inj`      — `n.toNat = o.toNat ↔ n = o`
-/
import D128.Gen.Compare2
import Mathlib.Tactic.Ring
import Mathlib.Tactic.Linarith
import Mathlib.Tactic.NormNum
set_option autoImplicit false

namespace CmpPf
open Gen

theorem U128_toNat_lt (n : U128) : n.toNat < 2 ^ 128 := by
  have := n.w0.toNat_lt; have := n.w1.toNat_lt
  simp only [U128.toNat]; omega

theorem U128_toNat_inj (n o : U128) : n.toNat = o.toNat ↔ n = o := by
  constructor
  · intro h
    have := n.w0.toNat_lt; have := n.w1.toNat_lt
    have := o.w0.toNat_lt; have := o.w1.toNat_lt
    simp only [U128.toNat] at h
    have h0 : n.w0.toNat = o.w0.toNat := by omega
    have h1 : n.w1.toNat = o.w1.toNat := by omega
    cases n; cases o
    simp only [U128.mk.injEq]
    exact ⟨UInt64.toNat_inj.1 h0, UInt64.toNat_inj.1 h1⟩
  · rintro rfl; rfl

theorem U128_or_eq_zero (n : U128) : ((n.w0 ||| n.w1) == (0 : UInt64)) = decide (n.toNat = 0) := by
  have := n.w0.toNat_lt; have := n.w1.toNat_lt
  rw [Bool.eq_iff_iff, beq_iff_eq, UInt64.or_eq_zero_iff, decide_eq_true_eq,
    ← UInt64.toNat_inj, ← UInt64.toNat_inj]
  simp only [U128.toNat, UInt64.toNat_zero]
  omega

theorem Div64_ok (hi lo y : UInt64) (hy : hi < y) :
    Go.bits.Div64 hi lo y =
      .ok (UInt64.ofNat ((hi.toNat * 2 ^ 64 + lo.toNat) / y.toNat),
           UInt64.ofNat ((hi.toNat * 2 ^ 64 + lo.toNat) % y.toNat)) := by
  unfold Go.bits.Div64
  have h0 : y ≠ 0 := by
    intro h; subst h
    simp [UInt64.lt_iff_toNat_lt] at hy
  have h1 : ¬ y ≤ hi := by
    simp only [UInt64.le_iff_toNat_le, UInt64.lt_iff_toNat_lt] at *; omega
  simp only [h0, h1, if_false]; rfl

/-- schoolbook division of a two-limb number by a one-limb divisor -/
theorem two_limb_div (D w1 w0 : Nat) (hD : 0 < D) :
    (w1 % D * 2 ^ 64 + w0) / D + w1 / D * 2 ^ 64 = (w0 + w1 * 2 ^ 64) / D ∧
    (w1 % D * 2 ^ 64 + w0) % D = (w0 + w1 * 2 ^ 64) % D := by
  have h : w0 + w1 * 2 ^ 64 = (w1 % D * 2 ^ 64 + w0) + D * (w1 / D * 2 ^ 64) := by
    have := Nat.div_add_mod w1 D
    calc w0 + w1 * 2 ^ 64 = w0 + (D * (w1 / D) + w1 % D) * 2 ^ 64 := by rw [this]
      _ = _ := by ring
  rw [h, Nat.add_mul_div_left _ _ hD, Nat.add_mul_mod_self_left]
  exact ⟨rfl, rfl⟩

theorem two_limb_quo_lt (D w1 w0 : Nat) (hD : 0 < D) (h1 : w1 < D) (h0 : w0 < 2 ^ 64) :
    (w1 * 2 ^ 64 + w0) / D < 2 ^ 64 := by
  rw [Nat.div_lt_iff_lt_mul hD]
  nlinarith

theorem Div64_spec (hi lo y : UInt64) (hy : hi < y) :
    ∃ q r, Go.bits.Div64 hi lo y = .ok (q, r) ∧
      q.toNat = (hi.toNat * 2 ^ 64 + lo.toNat) / y.toNat ∧
      r.toNat = (hi.toNat * 2 ^ 64 + lo.toNat) % y.toNat := by
  refine ⟨_, _, Div64_ok hi lo y hy, ?_, ?_⟩
  · have hy' : hi.toNat < y.toNat := by simpa [UInt64.lt_iff_toNat_lt] using hy
    have := two_limb_quo_lt y.toNat hi.toNat lo.toNat (by omega) hy' lo.toNat_lt
    rw [UInt64.toNat_ofNat', Nat.mod_eq_of_lt this]
  · have hy' : hi.toNat < y.toNat := by simpa [UInt64.lt_iff_toNat_lt] using hy
    have h1 := Nat.mod_lt (hi.toNat * 2 ^ 64 + lo.toNat) (show 0 < y.toNat by omega)
    have h2 := y.toNat_lt
    rw [UInt64.toNat_ofNat', Nat.mod_eq_of_lt (by omega)]

/-- generic shape of the generated `U128.divP` -/
theorem div_shape (D : UInt64) (hD : 0 < D) (n : U128) :
    ∃ q r,
      (if decide (n.w1 < D) then
        (do let t_1 ← Go.bits.Div64 n.w1 n.w0 D
            pure ((U128.mk t_1.1 0), t_1.2) : Go.GoM (U128 × UInt64))
      else
        (do let t_4 ← Go.bits.Div64 (0 : UInt64) n.w1 D
            let t_7 ← Go.bits.Div64 t_4.2 n.w0 D
            pure ((U128.mk t_7.1 t_4.1), t_7.2))) = .ok (q, r) ∧
      q.toNat = n.toNat / D.toNat ∧ r.toNat = n.toNat % D.toNat := by
  have h0 := n.w0.toNat_lt; have h1 := n.w1.toNat_lt
  have hD' : 0 < D.toNat := by simpa [UInt64.lt_iff_toNat_lt] using hD
  by_cases h : n.w1 < D
  · simp only [h, decide_true, if_true]
    obtain ⟨q, r, he, hq, hr⟩ := Div64_spec n.w1 n.w0 D h
    rw [he]
    refine ⟨_, _, rfl, ?_, ?_⟩
    · simp only [U128.toNat, hq, UInt64.toNat_zero]
      rw [Nat.add_comm n.w0.toNat]; omega
    · simp only [U128.toNat, hr]
      rw [Nat.add_comm n.w0.toNat]
  · simp only [h, decide_false, if_false, Bool.false_eq_true]
    obtain ⟨q1, r1, he1, hq1, hr1⟩ := Div64_spec 0 n.w1 D hD
    rw [he1]
    simp only [UInt64.toNat_zero, Nat.zero_mul, Nat.zero_add] at hq1 hr1
    have hr1lt : r1 < D := by
      rw [UInt64.lt_iff_toNat_lt, hr1]; exact Nat.mod_lt _ hD'
    obtain ⟨q0, r0, he0, hq0, hr0⟩ := Div64_spec r1 n.w0 D hr1lt
    simp only [bind, Except.bind]
    rw [he0]
    refine ⟨_, _, rfl, ?_, ?_⟩
    · have := (two_limb_div D.toNat n.w1.toNat n.w0.toNat hD').1
      simp only [U128.toNat, hq0, hq1, hr1]
      exact this
    · have := (two_limb_div D.toNat n.w1.toNat n.w0.toNat hD').2
      simp only [U128.toNat, hr0, hr1]
      exact this

theorem U128_div10_eq (n : U128) :
    ∃ q r, Gen.U128.div10 n = .ok (q, r) ∧ q.toNat = n.toNat / 10 ∧ r.toNat = n.toNat % 10 :=
  div_shape 10 (by decide) n

theorem U128_div100_eq (n : U128) :
    ∃ q r, Gen.U128.div100 n = .ok (q, r) ∧ q.toNat = n.toNat / 100 ∧ r.toNat = n.toNat % 100 :=
  div_shape 100 (by decide) n

theorem U128_div1000_eq (n : U128) :
    ∃ q r, Gen.U128.div1000 n = .ok (q, r) ∧ q.toNat = n.toNat / 1000 ∧ r.toNat = n.toNat % 1000 :=
  div_shape 1000 (by decide) n

theorem U128_div10000_eq (n : U128) :
    ∃ q r, Gen.U128.div10000 n = .ok (q, r) ∧ q.toNat = n.toNat / 10000 ∧
      r.toNat = n.toNat % 10000 :=
  div_shape 10000 (by decide) n

theorem U128_div1e8_eq (n : U128) :
    ∃ q r, Gen.U128.div1e8 n = .ok (q, r) ∧ q.toNat = n.toNat / 100000000 ∧
      r.toNat = n.toNat % 100000000 :=
  div_shape 100000000 (by decide) n

theorem U128_div1e19_eq (n : U128) :
    ∃ q r, Gen.U128.div1e19 n = .ok (q, r) ∧ q.toNat = n.toNat / 10000000000000000000 ∧
      r.toNat = n.toNat % 10000000000000000000 :=
  div_shape 10000000000000000000 (by decide) n

theorem U128_cmp_eq (n o : U128) :
    Gen.U128.cmp n o =
      if n.toNat = o.toNat then 0 else if n.toNat < o.toNat then -1 else 1 := by
  have := n.w0.toNat_lt; have := n.w1.toNat_lt
  have := o.w0.toNat_lt; have := o.w1.toNat_lt
  have hn : n.toNat = n.w0.toNat + n.w1.toNat * 2 ^ 64 := rfl
  have ho : o.toNat = o.w0.toNat + o.w1.toNat * 2 ^ 64 := rfl
  unfold Gen.U128.cmp
  simp only [Id.run, pure, beq_iff_eq, ← UInt64.toNat_inj, UInt64.lt_iff_toNat_lt, decide_eq_true_eq]
  by_cases h1 : n.w1.toNat = o.w1.toNat
  · by_cases h0 : n.w0.toNat = o.w0.toNat
    · rw [if_pos h1, if_pos h0, if_pos (by omega)]
    · by_cases h2 : n.w0.toNat < o.w0.toNat
      · rw [if_pos h1, if_neg h0, if_pos h2, if_neg (by omega), if_pos (by omega)]
      · rw [if_pos h1, if_neg h0, if_neg h2, if_neg (by omega), if_neg (by omega)]
  · by_cases h2 : n.w1.toNat < o.w1.toNat
    · rw [if_neg h1, if_pos h2, if_neg (by omega), if_pos (by omega)]
    · rw [if_neg h1, if_neg h2, if_neg (by omega), if_neg (by omega)]

end CmpPf
