/-
  D128/Proofs/BandExpm1.lean — property C16, `Expm1` for small NEGATIVE arguments: the proved band is widened from
  `|x| ≥ 2·10^-21` (`ExpAcc.m1_neg_small`, `ExpAcc.Expm1_ok`) to `|x| ≥ 3.1·10^-22` (below `10^-21.5`, the
  boundary of the signature of the recorded finding).

  For `x < 0`, `|x| < 1` the library computes `1/(1+s) − 1` with `s ≈ e^|x| − 1`; for tiny `|x|` this cancels (recorded
  finding `expm1-small-negative-cancellation`).  The absolute error of the working value is the sum of
    * `add1`  : `1 + s` truncated at `10^-57`                         (< 1·10^-57)
    * `rcp`   : ONE low digit of the 58-digit divisor dropped          (≤ 9·10^-57, `D192.rcp_contract_sharp`;
                the general contract allows two digits: `2^-185 ≈ 2.04·10^-56`)
    * `rcp`   : quotient truncated at `10^-57`                         (other direction)
    * `sub1`  : exact here (`D192.sub1_exact`: the reciprocal has exponent −57)
  together `≤ 10^-56 + 2·10^-45·|x|`, to be compared with a third of a unit in the last place,
  `|e^x − 1|/(3·10^34)`: enough from `|x| = 3.0003·10^-22` on.

  Provided (namespace `ExpAcc`):
  * `n0_D`, `n0_sharp`  : the real-number core for `3.1·10^-22 ≤ x ≤ 2·10^-21`
  * `m1_neg_tiny`       : the tail of `epowm1`, negative argument, `3.1·10^-22 ≤ |x| ≤ 2·10^-21`
  * `m1_neg_small31`    : … for `3.1·10^-22 ≤ |x| < 1`
  * `epowm1_facts31`, `Expm1_ok31` : `ExpAcc.epowm1_facts`, `ExpAcc.Expm1_ok` with the hypothesis
                          `3.1·10^-22 ≤ |x|` for negative arguments
-/
import D128.Proofs.ExpAccM1Main
import D128.Proofs.BandRcp
set_option autoImplicit false
set_option maxRecDepth 4096
set_option exponentiation.threshold 512

namespace ExpAcc
open Gen D192 Spec SpecRound EnclPf
local notation "𝔳[" d "]" => Spec.interp (Gen.Decimal.lo d) (Gen.Decimal.hi d)

/-- the divisor handed to the long division is above 1 -/
theorem n0_D (x E S U D : ℝ) (hx31 : 31 / 10 ^ 23 ≤ x) (_hx1 : x ≤ 1) (hE : E = Real.exp x)
    (hS1 : (E - 1) * (1 - 1 / 10 ^ 45) ≤ S)
    (hU1 : S + 1 - 1 / 10 ^ 57 ≤ U) (hD2 : U ≤ D + 9 / 10 ^ 57) : 1 < D := by
  have hE1 : 1 + x ≤ E := by rw [hE]; have := Real.add_one_le_exp x; linarith
  have h1 : x * (1 - 1 / 10 ^ 45) ≤ S :=
    le_trans (mul_le_mul_of_nonneg_right (by linarith) (by norm_num)) hS1
  have h2 : (31 : ℝ) / 10 ^ 23 * (1 - 1 / 10 ^ 45) ≤ x * (1 - 1 / 10 ^ 45) :=
    mul_le_mul_of_nonneg_right hx31 (by norm_num)
  have h3 : (10 : ℝ) / 10 ^ 57 < 31 / 10 ^ 23 * (1 - 1 / 10 ^ 45) := by norm_num
  linarith

set_option maxHeartbeats 800000 in
/-- the real-number core of the cancellation `1/(1+s) − 1` for `3.1·10^-22 ≤ x ≤ 2·10^-21`, with the absolute
error bounds of the three operations -/
theorem n0_sharp (x E S U D r res : ℝ) (hx31 : 31 / 10 ^ 23 ≤ x) (hx2 : x ≤ 2 / 10 ^ 21)
    (hE : E = Real.exp x)
    (hS1 : (E - 1) * (1 - 1 / 10 ^ 45) ≤ S) (hS2 : S ≤ E - 1)
    (hU1 : S + 1 - 1 / 10 ^ 57 ≤ U) (hU2 : U ≤ S + 1)
    (hD1 : D ≤ U) (hD2 : U ≤ D + 9 / 10 ^ 57)
    (hr1 : 1 / D - 1 / 10 ^ 57 ≤ r) (hr2 : r ≤ 1 / D) (hres : res = 1 - r) :
    |res - (1 - 1 / E)| * (3 * 10 ^ 34) ≤ 1 - 1 / E := by
  have hx0 : 0 < x := by linarith [show (0 : ℝ) < 31 / 10 ^ 23 by norm_num]
  have hx1 : x ≤ 1 := by linarith [show (2 : ℝ) / 10 ^ 21 ≤ 1 by norm_num]
  have hDgt := n0_D x E S U D hx31 hx1 hE hS1 hU1 hD2
  have hD0 : 0 < D := by linarith
  have hE1 : 1 + x ≤ E := by rw [hE]; have := Real.add_one_le_exp x; linarith
  have hE2 : E - 1 ≤ 2 * x := by
    have := Real.abs_exp_sub_one_le (x := x) (by rw [abs_of_pos hx0]; exact hx1)
    rw [abs_of_pos hx0, abs_of_nonneg (by rw [← hE]; linarith)] at this
    rw [hE]; exact this
  have hE0 : 0 < E := by linarith
  have hDE : D ≤ E := by linarith
  -- E − D ≤ η
  have hED : E - D ≤ 2 * x * (1 / 10 ^ 45) + 10 / 10 ^ 57 := by nlinarith
  set e : ℝ := 1 / E with he
  have he0 : 0 < e := by positivity
  have heE : e * E = 1 := by rw [he]; field_simp
  have he1 : e ≤ 1 / (1 + x) := one_div_le_one_div_of_le (by linarith) hE1
  have hele1 : e ≤ 1 := by
    have : 1 / (1 + x) ≤ 1 := by rw [div_le_one (by linarith)]; linarith
    linarith
  have hT : x - x * x ≤ 1 - e := by
    have : 1 / (1 + x) ≤ 1 - x + x * x := by
      rw [div_le_iff₀ (by linarith)]; nlinarith [mul_pos hx0 (mul_pos hx0 hx0)]
    linarith
  set δ : ℝ := x * (2001 / 10 ^ 48) + 10001 / 10 ^ 60 with hδ
  have hδ0 : 0 ≤ δ := by rw [hδ]; positivity
  -- 1/D ≤ e + δ
  have hinv : 1 / D ≤ e + δ := by
    rw [div_le_iff₀ hD0]
    have h1 : e * (E - (2 * x * (1 / 10 ^ 45) + 10 / 10 ^ 57)) ≤ e * D :=
      mul_le_mul_of_nonneg_left (by linarith) he0.le
    have h6 : e * (E - (2 * x * (1 / 10 ^ 45) + 10 / 10 ^ 57))
        = 1 - e * (2 * x * (1 / 10 ^ 45) + 10 / 10 ^ 57) := by
      rw [mul_sub, heE]
    have h3 : e * (2 * x * (1 / 10 ^ 45) + 10 / 10 ^ 57) ≤ 2 * x * (1 / 10 ^ 45) + 10 / 10 ^ 57 := by
      have : 0 ≤ 2 * x * (1 / 10 ^ 45) + 10 / 10 ^ 57 := by positivity
      nlinarith
    have h2 : δ * 1 ≤ δ * D := mul_le_mul_of_nonneg_left hDgt.le hδ0
    have h7 : 2 * x * (1 / 10 ^ 45) + 10 / 10 ^ 57 ≤ δ := by
      rw [hδ]
      have a1 : 2 * x * (1 / 10 ^ 45) ≤ x * (2001 / 10 ^ 48) := by
        have : 2 * x * (1 / 10 ^ 45) = x * (2 / 10 ^ 45) := by ring
        rw [this]
        exact mul_le_mul_of_nonneg_left (by norm_num) hx0.le
      have a2 : (10 : ℝ) / 10 ^ 57 ≤ 10001 / 10 ^ 60 := by norm_num
      linarith
    have : (e + δ) * D = e * D + δ * D := by ring
    linarith
  have hrup : r ≤ e + δ := le_trans hr2 hinv
  have hrlo : e - 1 / 10 ^ 57 ≤ r := by
    have h1 : e ≤ 1 / D := one_div_le_one_div_of_le hD0 hDE
    linarith
  have hδ57 : (1 : ℝ) / 10 ^ 57 ≤ δ := by
    rw [hδ]; have : 0 ≤ x * (2001 / 10 ^ 48) := by positivity
    have : (1 : ℝ) / 10 ^ 57 ≤ 10001 / 10 ^ 60 := by norm_num
    linarith
  have hle : |res - (1 - e)| ≤ δ := by
    rw [hres, abs_le]; constructor <;> linarith
  have hfin : δ * (3 * 10 ^ 34) ≤ x - x * x := by
    rw [hδ]
    have e1 : (x * (2001 / 10 ^ 48) + 10001 / 10 ^ 60) * (3 * 10 ^ 34)
        = x * (6003 / 10 ^ 14) + 30003 / 10 ^ 26 := by ring
    rw [e1]
    have h1 : x * x ≤ x * (2 / 10 ^ 21) := mul_le_mul_of_nonneg_left hx2 hx0.le
    have h2 : (30003 : ℝ) / 10 ^ 26 ≤ 31 / 10 ^ 23 * (1 - 2 / 10 ^ 21 - 6003 / 10 ^ 14) := by norm_num
    have h3 : 31 / 10 ^ 23 * (1 - 2 / 10 ^ 21 - 6003 / 10 ^ 14) ≤ x * (1 - 2 / 10 ^ 21 - 6003 / 10 ^ 14) :=
      mul_le_mul_of_nonneg_right hx31 (by norm_num)
    nlinarith
  calc |res - (1 - e)| * (3 * 10 ^ 34) ≤ δ * (3 * 10 ^ 34) :=
        mul_le_mul_of_nonneg_right hle (by norm_num)
    _ ≤ x - x * x := hfin
    _ ≤ 1 - e := hT

/-- the exponent of a working value with at least 56 digits and a value of at most `10^-20` is below −57 -/
theorem exp_lt_of_small (m : decomposed192) (hs : 10 ^ 56 ≤ m.sig.toNat) (hv : val m < 1 / 10 ^ 20) :
    m.exp.toInt ≤ -77 := by
  by_contra hc
  have hge : (-76 : Int) ≤ m.exp.toInt := by omega
  have hp : (10 : ℚ) ^ (-76 : Int) ≤ (10 : ℚ) ^ m.exp.toInt := zpow_le_zpow_right₀ (by norm_num) hge
  have hs' : ((10 ^ 56 : Nat) : ℚ) ≤ (m.sig.toNat : ℚ) := by exact_mod_cast hs
  have : ((10 ^ 56 : Nat) : ℚ) * (10 : ℚ) ^ (-76 : Int) ≤ val m := by
    unfold val
    exact mul_le_mul hs' hp (by positivity) (by positivity)
  have h2 : ((10 ^ 56 : Nat) : ℚ) * (10 : ℚ) ^ (-76 : Int) = 1 / 10 ^ 20 := by
    rw [zpow_neg]; norm_num
  rw [h2] at this
  exact absurd hv (not_lt.2 this)

/-- a value of at most 2 at exponent −57 has a significand below `100·2^185` -/
theorem sig_lt_of_val_le_two (a : decomposed192) (he : a.exp.toInt = -57) (hv : val a ≤ 2) :
    a.sig.toNat < 100 * 2 ^ 185 := by
  have h1 : (a.sig.toNat : ℚ) ≤ 2 * 10 ^ 57 := by
    unfold val at hv
    rw [he, zpow_neg] at hv
    have hp : (0 : ℚ) < (10 : ℚ) ^ (57 : Int) := by positivity
    have := mul_le_mul_of_nonneg_right hv hp.le
    rw [mul_assoc, inv_mul_cancel₀ hp.ne', mul_one] at this
    norm_num at this ⊢; exact this
  have h2 : a.sig.toNat ≤ 2 * 10 ^ 57 := by exact_mod_cast h1
  have h3 : 2 * 10 ^ 57 < 100 * 2 ^ 185 := by norm_num
  omega

/-- **negative argument, `3.1·10^-22 ≤ |x| ≤ 2·10^-21`** (`o = 0`): `add1`, `rcp`, `sub1` with their absolute
error bounds -/
theorem m1_neg_tiny {arg : decomposed192} {x : ℚ} {o : Int16} {m : decomposed192} {tm : Int8}
    (h : M1In arg x o m tm) (ho : o = 0) (hx31 : 31 / 10 ^ 23 ≤ x) (hx2 : x ≤ 2 / 10 ^ 21) :
    ∃ z, epowm1Tail true o m tm = .ok z ∧ M1Facts true ((val arg : ℚ) : ℝ) z := by
  have hd : ¬ m.exp > 6169 := by
    rw [gt_iff_lt, Int16.lt_iff_toInt_lt]
    have h6 : (6169 : Int16).toInt = 6169 := by decide
    have := h.hme1; omega
  have hav : val arg = x := by
    rw [← h.hxa, ho]; simp [i16_zero_toInt]
  -- reals
  obtain ⟨m1, m2, -⟩ := m_real h
  have hxr0 : (0 : ℝ) < (x : ℝ) := by exact_mod_cast h.hx0
  have hxr1 : (x : ℝ) ≤ 1 := by exact_mod_cast h.hx1
  have hxr31 : (31 : ℝ) / 10 ^ 23 ≤ (x : ℝ) := by
    have : (((31 / 10 ^ 23 : ℚ)) : ℝ) ≤ (x : ℝ) := Rat.cast_le.2 hx31
    push_cast at this; exact this
  have hxr2 : (x : ℝ) ≤ 2 / 10 ^ 21 := by
    have : (x : ℝ) ≤ (((2 / 10 ^ 21 : ℚ)) : ℝ) := Rat.cast_le.2 hx2
    push_cast at this; exact this
  have hEm1 : Real.exp (x : ℝ) - 1 ≤ 2 * (x : ℝ) := by
    have := Real.abs_exp_sub_one_le (x := (x : ℝ)) (by rw [abs_of_pos hxr0]; exact hxr1)
    rw [abs_of_pos hxr0, abs_of_nonneg (by have := Real.add_one_le_exp (x : ℝ); linarith)] at this
    exact this
  -- the size of `m`
  have hmsmall : val m < 1 / 10 ^ 20 := by
    have : ((val m : ℚ) : ℝ) < (((1 / 10 ^ 20 : ℚ)) : ℝ) := by
      push_cast
      have : (2 : ℝ) * (2 / 10 ^ 21) < 1 / 10 ^ 20 := by norm_num
      linarith
    exact_mod_cast this
  have hmexp : m.exp.toInt ≤ -77 := exp_lt_of_small m h.hmsz hmsmall
  have hmpos : 0 < m.sig.toNat := by have := h.hmsz; omega
  have hmlo : (31 : ℝ) / 10 ^ 23 * (1 - 1 / 10 ^ 45) ≤ ((val m : ℚ) : ℝ) := by
    have h1 : (x : ℝ) ≤ Real.exp (x : ℝ) - 1 := by have := Real.add_one_le_exp (x : ℝ); linarith
    have h2 : (x : ℝ) * (1 - 1 / 10 ^ 45) ≤ (Real.exp (x : ℝ) - 1) * (1 - 1 / 10 ^ 45) :=
      mul_le_mul_of_nonneg_right h1 (by norm_num)
    have h3 : (31 : ℝ) / 10 ^ 23 * (1 - 1 / 10 ^ 45) ≤ (x : ℝ) * (1 - 1 / 10 ^ 45) :=
      mul_le_mul_of_nonneg_right hxr31 (by norm_num)
    linarith
  -- `add1`
  obtain ⟨a, ea, ha⟩ := add1_q3 m tm
  obtain ⟨-, -, y3, yt, -, ye0, ye1⟩ := a_horner h a ha
  obtain ⟨r0, t0, er0, k1, k2, -⟩ := add1_contract m tm
  rw [ea] at er0
  obtain rfl : a = (r0, t0) := Except.ok.inj er0
  have hale2 : val r0 ≤ 2 := by
    have : val m ≤ 1 := by linarith [show (1 : ℚ) / 10 ^ 20 ≤ 1 by norm_num]
    linarith
  obtain ⟨⟨-, a2, -, -, -⟩, hsize⟩ := ha
  have haexp : r0.exp.toInt = -57 := by
    obtain ⟨-, -, hs3⟩ := hsize hmpos (by omega)
    rcases hs3 with hs3 | ⟨hs3, -⟩ | hs3
    · -- the result cannot be `one`: `m` is far above `10^-56`
      exfalso
      have hv1 : val r0 = 1 := by show val (r0, t0).1 = 1; rw [hs3]; exact val_one
      have h1 : (((val m + 1) * (1 - theta) : ℚ) : ℝ) ≤ ((val r0 : ℚ) : ℝ) := Rat.cast_le.2 a2
      rw [hv1] at h1
      push_cast at h1
      rw [theta_real] at h1
      have h2 : (31 : ℝ) / 10 ^ 23 * (1 - 1 / 10 ^ 45) ≤ 1 := by norm_num
      nlinarith
    · have : (r0, t0).1.exp.toInt = m.exp.toInt := hs3
      have h57 : -57 ≤ r0.exp.toInt := ye0
      have : r0.exp.toInt = m.exp.toInt := this
      omega
    · have := exp_le_of_norm r0 hs3 hale2
      have h57 : -57 ≤ r0.exp.toInt := ye0
      omega
  have hulpa : ulp r0 = 1 / 10 ^ 57 := by
    unfold ulp; rw [haexp, zpow_neg]; norm_num
  have hasig : r0.sig.toNat ≠ 0 := by
    have := sig_pos_of_val_pos r0 (by linarith); omega
  have hasz := sig_lt_of_val_le_two r0 haexp hale2
  -- `rcp`
  obtain ⟨r, t', d', hr, hd0, hd1, hd2, c1, c2, c3, c4, c5, c6, c7, c8⟩ :=
    rcp_contract_sharp r0 t0 hasig ⟨by omega, by omega⟩ hasz
  rw [hulpa] at hd2 k2
  have hU1 : ((val m : ℚ) : ℝ) + 1 - 1 / 10 ^ 57 ≤ ((val r0 : ℚ) : ℝ) := by
    have : ((val m + 1 : ℚ) : ℝ) < ((val r0 + 1 / 10 ^ 57 : ℚ) : ℝ) := Rat.cast_lt.2 k2
    push_cast at this; linarith
  have hU2 : ((val r0 : ℚ) : ℝ) ≤ ((val m : ℚ) : ℝ) + 1 := by
    have : ((val r0 : ℚ) : ℝ) ≤ ((val m + 1 : ℚ) : ℝ) := Rat.cast_le.2 k1
    push_cast at this; exact this
  have hD0 : (0 : ℝ) < (d' : ℝ) := by exact_mod_cast hd0
  have hD1 : (d' : ℝ) ≤ ((val r0 : ℚ) : ℝ) := Rat.cast_le.2 hd1
  have hD2 : ((val r0 : ℚ) : ℝ) ≤ (d' : ℝ) + 9 / 10 ^ 57 := by
    have : ((val r0 : ℚ) : ℝ) ≤ ((d' + 9 * (1 / 10 ^ 57) : ℚ) : ℝ) := Rat.cast_le.2 hd2
    push_cast at this; linarith
  have hDgt : (1 : ℝ) < (d' : ℝ) :=
    n0_D (x : ℝ) (Real.exp (x : ℝ)) ((val m : ℚ) : ℝ) ((val r0 : ℚ) : ℝ) (d' : ℝ) hxr31 hxr1 rfl m1 hU1 hD2
  have hdgt : 1 < d' := by exact_mod_cast hDgt
  have hrltq : val r < 1 := by
    have : 1 / d' < 1 := by rw [div_lt_one hd0]; exact hdgt
    linarith
  have hlow := rcp_lower_abs r (1 / d') c1 c2 c5 hrltq
  have hr1 : 1 / (d' : ℝ) - 1 / 10 ^ 57 ≤ ((val r : ℚ) : ℝ) := by
    have : ((1 / d' - 1 / 10 ^ 57 : ℚ) : ℝ) ≤ ((val r : ℚ) : ℝ) := Rat.cast_le.2 hlow
    push_cast at this; exact this
  have hr2 : ((val r : ℚ) : ℝ) ≤ 1 / (d' : ℝ) := by
    have : ((val r : ℚ) : ℝ) ≤ ((1 / d' : ℚ) : ℝ) := Rat.cast_le.2 c1
    push_cast at this; exact this
  -- `sub1`
  obtain ⟨neg, res, t'', hs, hneg, hlo, hup, hcl, herr, hexp⟩ := sub1_contract r t'
  have htail : epowm1Tail true o m tm = .ok (neg, res, t'') := by
    rw [epowm1Tail_def, if_neg hd, if_pos ho]
    simp only [if_true]
    rw [ea, RK.ok_bind, hr, RK.ok_bind, hs]
  refine ⟨(neg, res, t''), htail, ?_⟩
  -- the reciprocal is at least 0.7, hence has exponent −57 … −1, and `sub1` is exact on it
  have hrge : 7 / 10 ≤ val r := by
    have hd'2 : d' ≤ 1 + 1 / 10 ^ 20 := by linarith
    have h1 : 1 / (1 + 1 / 10 ^ 20 : ℚ) ≤ 1 / d' := one_div_le_one_div_of_le hd0 hd'2
    have h2 : (7 / 10 : ℚ) + 1 / 10 ^ 57 ≤ 1 / (1 + 1 / 10 ^ 20) := by norm_num
    linarith
  have hrexp0 : -57 ≤ r.exp.toInt := exp_ge_m57 r hrge
  have hrexp1 : r.exp.toInt < 0 := exp_neg_of_lt_one r c6 hrltq
  have hexact : val res = 1 - val r :=
    sub1_exact r t' (by omega) hrexp0 (by omega) hrltq neg res t'' hs
  have hexactR : ((val res : ℚ) : ℝ) = 1 - ((val r : ℚ) : ℝ) := by
    rw [hexact]; push_cast; rfl
  have hN := n0_sharp (x : ℝ) (Real.exp (x : ℝ)) ((val m : ℚ) : ℝ) ((val r0 : ℚ) : ℝ) (d' : ℝ)
    ((val r : ℚ) : ℝ) ((val res : ℚ) : ℝ) hxr31 hxr2 rfl m1 m2 hU1 hU2 hD1 hD2 hr1 hr2 hexactR
  have hnegt : neg = true := hneg.2 hrltq
  have habs : |val r - 1| = 1 - val r := by rw [abs_of_neg (by linarith)]; ring
  have hflag : t' = 0 ∨ t' = 1 := by
    by_cases hc : val r = 1 / d' ∧ d' = val r0
    · rw [c3 hc]; exact yt
    · right; exact c4 hc
  have hflag' := sub1_flag hflag hcl
  rw [habs] at hlo hup herr
  -- the target
  set T : ℝ := 1 - 1 / Real.exp (x : ℝ) with hT
  have hT0 : 0 < T := by
    have : 1 / Real.exp (x : ℝ) < 1 := by
      rw [div_lt_one (Real.exp_pos _)]; exact Real.one_lt_exp_iff.2 hxr0
    linarith
  have htarget : |Real.exp (if true then -((val arg : ℚ) : ℝ) else ((val arg : ℚ) : ℝ)) - 1| = T := by
    simp only [if_true]
    rw [hav, Real.exp_neg, ← one_div, abs_of_neg (by linarith)]; ring
  have hrespos : (0 : ℝ) < ((val res : ℚ) : ℝ) := by
    have h1 := (abs_le.1 (le_of_mul_le_mul_right (by
      calc |((val res : ℚ) : ℝ) - T| * (3 * 10 ^ 34) ≤ T := hN
        _ = T / (3 * 10 ^ 34) * (3 * 10 ^ 34) := by field_simp) (by norm_num : (0 : ℝ) < 3 * 10 ^ 34))).1
    have : T / (3 * 10 ^ 34) ≤ T / 2 := div_le_div_of_nonneg_left hT0.le (by norm_num) (by norm_num)
    linarith
  have hs1 : 1 ≤ res.sig.toNat := sig_pos_of_val_pos res (by exact_mod_cast hrespos)
  have hresexp : -57 ≤ res.exp.toInt ∧ res.exp.toInt ≤ 58 := by
    rcases hexp with ⟨-, h58⟩ | h'
    · have hrexp : r.exp.toInt < 0 := exp_neg_of_lt_one r c6 hrltq
      omega
    · exact h'
  right
  refine ⟨by show res.exp.toInt ≤ 6169; omega, hnegt, hs1, by show -20000 ≤ res.exp.toInt; omega, hflag',
    fun _ => by show -6176 ≤ res.exp.toInt; omega, ?_⟩
  rw [htarget]
  exact hN

/-- **negative argument, `3.1·10^-22 ≤ |x| < 1`** (`o = 0`) -/
theorem m1_neg_small31 {arg : decomposed192} {x : ℚ} {o : Int16} {m : decomposed192} {tm : Int8}
    (h : M1In arg x o m tm) (ho : o = 0) (hx31 : 31 / 10 ^ 23 ≤ x) :
    ∃ z, epowm1Tail true o m tm = .ok z ∧ M1Facts true ((val arg : ℚ) : ℝ) z := by
  by_cases hx20 : 2 / 10 ^ 21 ≤ x
  · exact m1_neg_small h ho hx20
  · exact m1_neg_tiny h ho hx31 (by linarith)

/-- **`epowm1` against `e^(±|x|) − 1`**, negative arguments from `3.1·10^-22` on -/
theorem epowm1_facts31 (a : decomposed192) (l10 : Int16) (sb : Bool) (hpre : EpowPre a l10)
    (hl : l10.toInt = Nat.log 10 a.sig.toNat)
    (hsmall : sb = true → 31 / 10 ^ 23 ≤ val a) :
    ∃ z, decomposed192.epowm1 a sb l10 0 = .ok z ∧ M1Facts sb ((val a : ℚ) : ℝ) z := by
  obtain ⟨ho0, ho7, hx0, hx1, hxa, hx10⟩ := epow_arg a l10 hpre
  obtain ⟨m, tm, heq, hm1, hm2, htm, hmsz, hme1, hme0⟩ := epowm1_head a sb l10 0 hpre
  have hin : M1In a (epowX a l10) (epowO a l10) m tm :=
    { hx0 := hx0, hx1 := hx1, ho0 := ho0, ho7 := ho7, hxa := hxa, hx10 := hx10.imp id (fun h => h hl),
      hm1 := hm1, hm2 := hm2,
      htm := by rcases htm with h | h
                · left; exact h
                · right; exact h,
      hmsz := hmsz, hme1 := hme1, hme0 := hme0 }
  rw [heq]
  by_cases ho : epowO a l10 = 0
  · cases sb
    · exact m1_pos_small hin ho
    · refine m1_neg_small31 hin ho ?_
      have hav : val a = epowX a l10 := by
        rw [← hxa, ho]; simp [i16_zero_toInt]
      rw [← hav]; exact hsmall rfl
  · cases sb
    · exact m1_pos_big hin ho
    · exact m1_neg_big hin ho

/-- **`Gen.Expm1` on a finite non-zero argument** `d = ±c·10^e` (nearest default mode; negative arguments from
`3.1·10^-22` on in magnitude): no panic; the result is no `GeneralViolation` for `e^x − 1`; for `|x| ≥ 10^6` the
result is `−1` resp. `+Inf`.  (`ExpAcc.Expm1_ok` with the band `[3.1·10^-22, 2·10^-21)` added.) -/
theorem Expm1_ok31 (g : Globals) (m : Spec.Mode)
    (hm : Spec.Mode.ofNat? g.DefaultRoundingMode.toNat = some m) (hn : isNearest m = true)
    (d : Decimal) (h1 : Decimal.isSpecial d = false) (h2 : Decimal.IsZero d = false)
    (hsmall : Decimal.Signbit d = true → 31 / 10 ^ 23 ≤ val (argOf d)) :
    ∃ r, Gen.Expm1 g d = .ok r ∧
      ¬ GeneralViolation (Real.exp (if Decimal.Signbit d then -absArg d else absArg d) - 1) 𝔳[r] ∧
      ((10 : ℝ) ^ (6 : ℕ) ≤ absArg d → r = outM1 (Decimal.Signbit d)) := by
  by_cases hbig : Decimal.Signbit d = true → 2 / 10 ^ 21 ≤ val (argOf d)
  · exact Expm1_ok g m hm hn d h1 h2 hbig
  · -- a negative argument in `[3.1·10^-22, 2·10^-21)`: certainly below `10^6`
    rw [Classical.not_imp] at hbig
    obtain ⟨hsb, hlt⟩ := hbig
    rw [Expm1_fin g d h1 h2]
    have hA := absArg_pos d h1 h2
    have hAlt : absArg d < 1 := by
      unfold absArg
      have : ((val (argOf d) : ℚ) : ℝ) < (((2 / 10 ^ 21 : ℚ)) : ℝ) := Rat.cast_lt.2 (not_le.1 hlt)
      push_cast at this
      linarith [show (2 : ℝ) / 10 ^ 21 < 1 by norm_num]
    have hlt6 : ¬ ((10 : ℝ) ^ (6 : ℕ) ≤ absArg d) := by
      intro hb
      have : (1 : ℝ) ≤ (10 : ℝ) ^ (6 : ℕ) := by norm_num
      linarith
    have hg : ¬ ((d.decompose.2.toInt - 6176) > 5 - (Nat.log 10 d.decompose.1.toNat : Int)) := by
      intro hg
      have hge := arg_ge_of_guard d h1 h2 5 (by exact_mod_cast hg)
      have : (((10 : ℚ) ^ (5 + 1) : ℚ) : ℝ) ≤ ((val (argOf d) : ℚ) : ℝ) := Rat.cast_le.2 hge
      push_cast at this
      unfold absArg at hlt6
      exact hlt6 (by norm_num at this ⊢; exact this)
    rw [if_neg hg]
    have hpre := epowPre_of_guard d h1 h2 hg
    obtain ⟨z, hz, hfacts⟩ := epowm1_facts31 (argOf d) _ (Decimal.Signbit d) hpre
      (by rw [conv_log _ d.decompose.1.toNat_lt, argOf_sig]) hsmall
    rw [hz]
    show ∃ r, (if z.2.1.exp.toInt > 6169 then _ else _) = Except.ok r ∧ _
    rcases hfacts with ⟨hbig', hhuge⟩ | ⟨hle, hsign, hs1, he0, hflag, hfl, hnear⟩
    · rw [if_pos hbig']
      exact ⟨_, rfl, outM1_ok _ _ hhuge, fun h => absurd h hlt6⟩
    · rw [if_neg (by omega)]
      obtain ⟨t1, t2, t3⟩ := target_sign (Decimal.Signbit d) (absArg d) hA
      rw [hsign]
      obtain ⟨r, hr, hgv⟩ := expm1Round_ok g m hm hn (Decimal.Signbit d) z.2.1 z.2.2 _ t2 hs1 he0 (by omega)
        hflag hfl hnear t3
      rw [t1] at hgv
      exact ⟨r, hr, hgv, fun h => absurd h hlt6⟩

end ExpAcc
