/-
  D128/Proofs/NeverNaNExp10.lean — property C15, clause "never yields NaN from finite operands": `Exp10`, for
  ALL bit patterns and EVERY value of `DefaultRoundingMode`.  Structural argument over a staged form of the
  generated function (`Exp10_eq : Gen.Exp10 g d = exp10Staged g d := rfl`):
  `exp10Split` (integer / fraction split, early exit for an integer part above 6211) → `exp10Tail`
  (`epow` of `frac·ln 10`, integer part added to the exponent, reciprocal, `reduce192`, `compose`).

  Provided (namespace `NN`):
  * `exp10Tail`, `exp10Split`, `exp10Staged`, `Exp10_eq`
  * `exp10Split_tripleQ`   : arbitrary postcondition; the continuation is entered with an integer part ≤ 6211
  * `exp10Tail_not_nan`    : no result of the last stage is a NaN
  * `Exp10_fin_not_nan`    : finite non-zero `d`: no result of `Gen.Exp10 g d` is a NaN
  * `Exp10_isNaN`          : every `d`, every `g`: `Gen.Exp10 g d` returns and the result is a NaN iff `d` is
-/
import D128.Proofs.NeverNaNExp2
set_option autoImplicit false
set_option mvcgen.warning false
set_option exponentiation.threshold 512
set_option maxRecDepth 16384
set_option linter.unusedVariables false
open Std.Do D128.Proofs.WordsWide D128.Proofs.Total

namespace NN
open Gen PowPf

/-- `Exp10`, last stage: `10^frac` via `epow`, the integer part added to the exponent, reciprocal, rounding -/
def exp10Tail (g : Globals) (d : Decimal) (dSig : U128) (dExp : Int16) (dSigInt : UInt64) :
    Go.GoM Decimal := do
  let mut res : decomposed192 := (default : decomposed192)
  let mut trunc : Int8 := (0 : Int8)
  let mut expInt : Int16 := (0 : Int16)
  if (dSigInt != (0 : UInt64)) then
    expInt := (Go.conv dSigInt : Int16)
  if ((dSig.w0 ||| dSig.w1) != (0 : UInt64)) then
    let (r_8, r_9) ← decomposed192.mul ({ (default : decomposed192) with sig := (U192.mk dSig.w0 dSig.w1 (0 : UInt64)), exp := dExp } : decomposed192) ln10 (0 : Int8)
    res := r_8
    trunc := r_9
    let t_10 ← U192.log10 res.sig
    let (r_11, r_12) ← decomposed192.epow res (Go.conv t_10 : Int16) trunc
    res := r_11
    trunc := r_12
    if (decide (res.exp > (6169 : Int16))) then
      if (Decimal.Signbit d) then
        return (zero false)
      return (inf false)
    if (expInt != (0 : Int16)) then
      res := { res with exp := (res.exp + expInt) }
  else
    res := ({ (default : decomposed192) with sig := (U192.mk (1 : UInt64) (0 : UInt64) (0 : UInt64)), exp := expInt } : decomposed192)
  if (Decimal.Signbit d) then
    if (decide (res.exp > (6234 : Int16))) then
      return (zero false)
  else
    if (decide (res.exp > (6169 : Int16))) then
      return (inf false)
  if (Decimal.Signbit d) then
    let (r_13, r_14) ← decomposed192.rcp res trunc
    res := r_13
    trunc := r_14
  let (r_15, r_16) ← RoundingMode.reduce192 g.DefaultRoundingMode false res.sig (res.exp + (6176 : Int16)) trunc
  let mut sig_1 : U128 := r_15
  let mut exp_1 : Int16 := r_16
  if (decide (exp_1 > (12287 : Int16))) then
    if (Decimal.Signbit d) then
      return (zero false)
    return (inf false)
  return (compose false sig_1 exp_1)

/-- `Exp10`, second stage: split the argument into integer and fractional part (early exit when the integer
    part exceeds 6211) -/
def exp10Split (d : Decimal) (dSig : U128) (dExp : Int16) (l10 : Int64)
    (k : U128 → Int16 → UInt64 → Go.GoM Decimal) : Go.GoM Decimal := do
  let mut dSig : U128 := dSig
  let mut dExp : Int16 := dExp
  let mut dSigInt : UInt64 := (0 : UInt64)
  if (decide ((l10 + (Go.conv dExp : Int64)) ≥ (0 : Int64))) then
    let mut sig : U128 := dSig
    let mut exp : Int16 := dExp
    dSig := (default : U128)
    while (decide (exp < (0 : Int16))) do
      let mut rem : UInt64 := (0 : UInt64)
      let (r_4, r_5) ← U128.div10 sig
      sig := r_4
      rem := r_5
      dSig := (U128.mul64 dSig (10 : UInt64))
      dSig := (U128.add64 dSig rem)
      exp := (exp + (1 : Int16))
    dSigInt := sig.w0
    while (decide (exp > (0 : Int16))) do
      dSigInt := (dSigInt * (10 : UInt64))
      exp := (exp - (1 : Int16))
    if (decide (dSigInt > (6211 : UInt64))) then
      if (Decimal.Signbit d) then
        return (zero false)
      return (inf false)
    sig := dSig
    dSig := (default : U128)
    dExp := (0 : Int16)
    while ((sig.w0 ||| sig.w1) != (0 : UInt64)) do
      let mut rem_1 : UInt64 := (0 : UInt64)
      let (r_6, r_7) ← U128.div10 sig
      sig := r_6
      rem_1 := r_7
      dSig := (U128.mul64 dSig (10 : UInt64))
      dSig := (U128.add64 dSig rem_1)
      dExp := (dExp - (1 : Int16))
  k dSig dExp dSigInt

/-- `Exp10` with its two later stages named -/
def exp10Staged (g : Globals) (d : Decimal) : Go.GoM Decimal := do
  if (Decimal.isSpecial d) then
    if (Decimal.IsNaN d) then
      return d
    if (Decimal.Signbit d) then
      return (zero false)
    return (inf false)
  if (Decimal.IsZero d) then
    return (one false)
  let (r_1, r_2) := Decimal.decompose d
  let mut dSig : U128 := r_1
  let mut dExp : Int16 := r_2
  dExp := (dExp - (6176 : Int16))
  let t_3 ← U128.log10 dSig
  let mut l10 : Int64 := t_3
  if (decide ((Go.conv dExp : Int64) > ((4 : Int64) - l10))) then
    if (Decimal.Signbit d) then
      return (zero false)
    return (inf false)
  exp10Split d dSig dExp l10 (fun dSig dExp dSigInt => exp10Tail g d dSig dExp dSigInt)

theorem Exp10_eq (g : Globals) (d : Decimal) : Gen.Exp10 g d = exp10Staged g d := rfl

/-- `exp10Split` with an arbitrary postcondition: the continuation is entered with an integer part of at
    most 6211 -/
theorem exp10Split_tripleQ (d : Decimal) (dSig : U128) (dExp : Int16) (l10 : Int64)
    (k : U128 → Int16 → UInt64 → Go.GoM Decimal) (Q : Decimal → Prop)
    (hz : Q (zero false)) (hi : Q (inf false))
    (hk : ∀ s e i, ⦃⌜i.toNat ≤ 6211⌝⦄ k s e i ⦃⇓ r => ⌜Q r⌝⦄) :
    ⦃⌜True⌝⦄ exp10Split d dSig dExp l10 k ⦃⇓ r => ⌜Q r⌝⦄ := by
  mvcgen -trivial [exp10Split, hk]
  case inv1 => exact fun st => ⟨dn16 st.2.2⟩
  case inv2 => exact ⇓ _ => ⌜True⌝
  case inv3 => exact fun st => ⟨up16 st.2⟩
  case inv4 => exact ⇓ _ => ⌜True⌝
  case inv5 => exact fun st => ⟨st.2.2.toNat⟩
  case inv6 => exact ⇓ _ => ⌜True⌝
  all_goals (simp +zetaDelta at *)
  all_goals d192_prep
  all_goals (try d192_fin)

theorem exp10Tail_not_nan (g : Globals) (d : Decimal) (dSig : U128) (dExp : Int16) (dSigInt : UInt64)
    (r : Decimal) (hi : dSigInt.toNat ≤ 6211)
    (h : exp10Tail g d dSig dExp dSigInt = .ok r) : Decimal.IsNaN r = false := by
  unfold exp10Tail at h
  extract_lets res0 tr0 e0 jpR jp2 jpE eI at h
  have hR : ∀ (res : decomposed192) (tr : Int8) (r : Decimal), res.sig.toNat ≠ 0 →
      res.exp.toInt ≤ 13824 → jpR () res tr = .ok r → Decimal.IsNaN r = false := by
    intro res tr r hs hub h
    simp only [jpR, ite_pure] at h
    exact tail_not_nan' _ _ _ res tr _ (ite_const_isNaN _) (Or.inl hs) hub r h
  clear_value jpR
  have h2 : ∀ (res : decomposed192) (tr : Int8) (r : Decimal), res.sig.toNat ≠ 0 →
      -58 ≤ res.exp.toInt → jp2 () res tr = .ok r → Decimal.IsNaN r = false := by
    intro res tr r hs hlb h
    simp only [jp2] at h
    have h3a : ∀ (r : Decimal), res.exp.toInt ≤ 6234 →
        (do
            let __x ← res.rcp tr
            jpR () __x.1 __x.2) = .ok r → Decimal.IsNaN r = false := by
      intro r hub h
      obtain ⟨y, hy, h⟩ := bind_ok h
      obtain ⟨q1, q2, q3⟩ := rcp_range res tr hs hlb (by omega) y.1 y.2 hy
      exact hR y.1 y.2 r q1 (by omega) h
    split at h
    · split at h
      · have : zero false = r := by injection h
        rw [← this]; rfl
      · rename_i hle
        refine h3a r ?_ h
        rw [decide_eq_true_eq, gt_iff_lt, Int16.lt_iff_toInt_lt] at hle
        have : (6234 : Int16).toInt = 6234 := by decide
        omega
    · split at h
      · have : inf false = r := by injection h
        rw [← this]; rfl
      · rename_i hle
        have := i16_gt_6169 _ hle
        exact hR res tr r hs (by omega) h
  clear_value jp2
  have hE : ∀ (expInt : Int16) (r : Decimal), 0 ≤ expInt.toInt → expInt.toInt ≤ 6211 →
      jpE () expInt = .ok r → Decimal.IsNaN r = false := by
    intro expInt r he0 he1 h
    simp only [jpE] at h
    split at h
    · obtain ⟨m, -, h⟩ := bind_ok h
      try dsimp only at h
      obtain ⟨l, -, h⟩ := bind_ok h
      obtain ⟨x, hx, h⟩ := bind_ok h
      try dsimp only at h
      split at h
      · exact ite_const_not_nan _ _ h
      rename_i hle
      have hle' := i16_gt_6169 _ hle
      have hsig : x.1.sig.toNat ≠ 0 := epow_sig_ne _ _ _ _ hx
      have hlb := epow_exp_lb _ _ _ x.1 x.2 hx hle'
      split at h
      · refine h2 ⟨x.1.sig, x.1.exp + expInt⟩ x.2 r hsig ?_ h
        show -58 ≤ (x.1.exp + expInt).toInt
        rw [Int16.toInt_add_of _ _ (by omega) (by omega)]; omega
      · exact h2 x.1 x.2 r hsig hlb h
    · refine h2 _ tr0 r ?_ ?_ h
      · show (U192.mk 1 0 0).toNat ≠ 0
        decide
      · show -58 ≤ expInt.toInt
        omega
  clear_value jpE
  split at h
  · refine hE _ r ?_ ?_ h
    · show 0 ≤ (Go.conv dSigInt : Int16).toInt
      rw [Enc.conv_u64_i16 _ (by omega)]; omega
    · show (Go.conv dSigInt : Int16).toInt ≤ 6211
      rw [Enc.conv_u64_i16 _ (by omega)]; omega
  · exact hE _ r (by decide) (by decide) h

/-- the last stage terminates without panic (every `Globals`, every argument) -/
theorem exp10Tail_triple (g : Globals) (d : Decimal) (dSig : U128) (dExp : Int16) (dSigInt : UInt64) :
    ⦃⌜True⌝⦄ exp10Tail g d dSig dExp dSigInt ⦃⇓ _ => ⌜True⌝⦄ := by
  have he := d192_epow_triple divSpec
  have hr := d192_rcp_triple divSpec
  have h10 := ln10_ne_zero
  mvcgen -trivial [exp10Tail, he, hr]
  all_goals (simp +zetaDelta at *)
  all_goals d192_prep
  all_goals d192_fin

theorem exp10Tail_total (g : Globals) (d : Decimal) (dSig : U128) (dExp : Int16) (dSigInt : UInt64) :
    ∃ r, exp10Tail g d dSig dExp dSigInt = .ok r :=
  total_of_triple (exp10Tail_triple g d dSig dExp dSigInt)

/-- finite non-zero argument: no result of `Exp10` is a NaN (every `Globals`) -/
theorem Exp10_fin_not_nan (g : Globals) (d r : Decimal) (h1 : Decimal.isSpecial d = false)
    (h2 : Decimal.IsZero d = false) (h : Gen.Exp10 g d = .ok r) : Decimal.IsNaN r = false := by
  rw [Exp10_eq] at h
  unfold exp10Staged at h
  simp only [h1, h2, Bool.false_eq_true, if_false] at h
  obtain ⟨l10, -, h⟩ := bind_ok h
  split at h
  · exact ite_const_not_nan _ _ h
  have key := exp10Split_tripleQ d d.decompose.1 (d.decompose.2 - 6176) l10
    (fun dSig dExp dSigInt => exp10Tail g d dSig dExp dSigInt) (fun r => Decimal.IsNaN r = false) rfl rfl
    (fun s e i => by
      apply triple_of_ok_pre
      intro hi
      obtain ⟨r, hr⟩ := exp10Tail_total g d s e i
      exact ⟨r, hr, exp10Tail_not_nan g d s e i r hi hr⟩)
  obtain ⟨r', hr', hq⟩ := ok_of_triple key
  rw [h] at hr'
  have : r = r' := by injection hr'
  rw [this]; exact hq

/-- **Exp10**, all bit patterns, every `Globals` (invalid mode bytes included): the call returns, and the
    result is a NaN exactly when the operand is -/
theorem Exp10_isNaN (g : Globals) (d : Decimal) :
    ∃ r, Gen.Exp10 g d = .ok r ∧ Decimal.IsNaN r = Decimal.IsNaN d := by
  by_cases h : Decimal.isSpecial d = true ∨ Decimal.IsZero d = true
  · exact noInvalid_special_isNaN .exp10 (Or.inr (Or.inr (Or.inl rfl))) g d h
  · have h1 : Decimal.isSpecial d = false := by
      cases hs : Decimal.isSpecial d
      · rfl
      · exact absurd (Or.inl hs) h
    have h2 : Decimal.IsZero d = false := by
      cases hs : Decimal.IsZero d
      · rfl
      · exact absurd (Or.inr hs) h
    obtain ⟨r, hr⟩ := Exp10_total g d
    exact ⟨r, hr, by rw [Exp10_fin_not_nan g d r h1 h2 hr, (not_nan_of_not_special d h1).1]⟩

end NN
