/-
  The exact value `parseNumber` hands to the rounding kernel, for canonical numerals
  (at most 19 significand digits, no separators, exponent below 10^9) — the output language of the
  library's own `String`/`Format`.

  * `Parse.dval`, `Parse.val`            digit value / value of a digit string; `val_cons`, `val_append`, `val_lt`
  * `Parse.digS`, `Parse.sigS`, `Parse.expS`   states after significand / exponent digits
  * `Parse.run2_sig`, `Parse.run2_exp`   runs of `run2` over significand / exponent digits (closed form)
  * `Parse.step2_dot`, `Parse.step2_e`, `Parse.step2_minus`, `Parse.step2_plus`
  * `Parse.SigDone`, `Parse.FinalSt`     description of the state after the significand / at the end
  * `Parse.run2_significand`, `Parse.run2_exponent`   the phases of a canonical numeral
  * `Parse.canonResult`                  zero / range check / `reduce128` + `compose` on `⟨m,0⟩`, `e + 6176`, `trunc = 0`
  * `Parse.finish_final`                 `finish` on a final state = `canonResult`
  * `Parse.parseNumber_canonical`        `Gen.parseNumber g d neg sep = canonResult g neg m e`
-/
import D128.Proofs.ParseRun

set_option linter.unusedSimpArgs false
set_option linter.unusedVariables false

namespace Parse


def dval (c : UInt8) : Nat := c.toNat - 48
def val (ds : List UInt8) : Nat := ds.foldl (fun a c => a * 10 + dval c) 0

theorem foldl_val (ds : List UInt8) (a : Nat) :
    ds.foldl (fun a c => a * 10 + dval c) a = a * 10 ^ ds.length + val ds := by
  induction ds generalizing a with
  | nil => simp [val]
  | cons c r ih =>
    simp only [List.foldl_cons, List.length_cons, val]
    rw [ih, ih (0 * 10 + dval c)]
    rw [Nat.pow_succ]
    simp only [Nat.zero_mul, Nat.zero_add]
    rw [Nat.add_mul, Nat.mul_assoc, Nat.mul_comm 10]
    omega

theorem val_cons (c : UInt8) (ds : List UInt8) : val (c :: ds) = dval c * 10 ^ ds.length + val ds := by
  simp only [val, List.foldl_cons]
  rw [foldl_val]; simp [val]

theorem val_append (a b : List UInt8) : val (a ++ b) = val a * 10 ^ b.length + val b := by
  simp only [val, List.foldl_append]
  rw [foldl_val]; rfl

theorem dval_le (c : UInt8) (h : isDig c = true) : dval c ≤ 9 := by
  rw [isDig_iff] at h; unfold dval; omega

theorem val_lt (ds : List UInt8) (h : ∀ c ∈ ds, isDig c = true) : val ds < 10 ^ ds.length := by
  induction ds with
  | nil => simp [val]
  | cons c r ih =>
    rw [val_cons, List.length_cons, Nat.pow_succ]
    have h1 := dval_le c (h c (List.mem_cons_self))
    have h2 := ih (fun x hx => h x (List.mem_cons_of_mem _ hx))
    have : dval c * 10 ^ r.length ≤ 9 * 10 ^ r.length := Nat.mul_le_mul_right _ h1
    omega

/-- the state after a significand digit in the accumulating regime -/
def digS (c : UInt8) (s : S2) : S2 :=
  ⟨if s.sawdot then s.nfrac + (1 : Int64) else s.nfrac, s.trunc, true, true, false, s.eneg, true,
   s.sawdot, s.sawexp,
   Gen.U128.add64 (Gen.U128.mul64 s.sig (10 : UInt64)) (Go.conv (c - (48 : UInt8)) : UInt64), s.exp⟩

/-- the state after `k` significand digits with total value `n` -/
def sigS (s : S2) (k n : Nat) : S2 :=
  ⟨if s.sawdot then s.nfrac + Int64.ofNat k else s.nfrac, s.trunc, true, true, false, s.eneg, true,
   s.sawdot, s.sawexp, ⟨UInt64.ofNat n, 0⟩, s.exp⟩

theorem u128_of_small (x : U128) (n : Nat) (h : x.toNat = n) (hn : n < 2^64) : x = ⟨UInt64.ofNat n, 0⟩ := by
  apply U128.toNat_inj
  rw [h]
  simp only [U128.toNat, UInt64.toNat_ofNat', UInt64.toNat_zero]
  omega

theorem digS_of_sig (c : UInt8) (s : S2) (n : Nat) (hs : s.sig = ⟨UInt64.ofNat n, 0⟩)
    (hc : isDig c = true) (hn : n * 10 + dval c < 10^19) :
    digS c s = sigS s 1 (n * 10 + dval c) := by
  unfold digS sigS
  have hk : (⟨UInt64.ofNat n, 0⟩ : U128).w1 ≤ (1801439850948198399 : UInt64) := by
    show (0 : UInt64) ≤ _; decide
  have hd : (Go.conv (c - (48 : UInt8)) : UInt64).toNat ≤ 9 := by
    rw [conv_digit_u64 c hc]; exact dval_le c hc
  have h1 := u128_step ⟨UInt64.ofNat n, 0⟩ _ hk hd
  have hsig : Gen.U128.add64 (Gen.U128.mul64 ⟨UInt64.ofNat n, 0⟩ 10) (Go.conv (c - (48 : UInt8)) : UInt64) =
      ⟨UInt64.ofNat (n * 10 + dval c), 0⟩ := by
    apply u128_of_small
    · rw [h1, conv_digit_u64 c hc]
      simp only [U128.toNat, UInt64.toNat_ofNat', UInt64.toNat_zero]
      unfold dval
      have : n % 2^64 = n := Nat.mod_eq_of_lt (by omega)
      omega
    · omega
  rw [hs, hsig]
  rfl

theorem digS_sigS (c : UInt8) (s : S2) (k n : Nat) (hc : isDig c = true) (hn : n * 10 + dval c < 10^19) :
    digS c (sigS s k n) = sigS s (k + 1) (n * 10 + dval c) := by
  rw [digS_of_sig c (sigS s k n) n rfl hc hn]
  unfold sigS
  simp only []
  congr 1
  cases s.sawdot
  · rfl
  · simp only [if_true]
    rw [Int64.add_assoc]
    congr 1
    rw [Int64.ofNat_add]

theorem step2_digS (sep : Bool) (c : UInt8) (s : S2) (hd : isDig c = true) (he : s.sawexp = false)
    (hk : s.sig.w1 ≤ (1801439850948198399 : UInt64)) : step2 sep c s = some (digS c s) :=
  step2_digit_acc sep c s hd he hk

/-- a run of significand digits from a digit state -/
theorem run2_sig_from (sep : Bool) (ds rest : List UInt8) (s : S2) (k n : Nat)
    (hds : ∀ c ∈ ds, isDig c = true) (he : s.sawexp = false)
    (hb : n * 10 ^ ds.length + val ds < 10^19) :
    run2 sep (ds ++ rest) (sigS s k n) = run2 sep rest (sigS s (k + ds.length) (n * 10 ^ ds.length + val ds)) := by
  induction ds generalizing k n with
  | nil => simp [val]
  | cons c r ih =>
    have hc := hds c List.mem_cons_self
    have hr : ∀ x ∈ r, isDig x = true := fun x hx => hds x (List.mem_cons_of_mem _ hx)
    have hv := val_lt r hr
    rw [val_cons, List.length_cons, Nat.pow_succ] at hb
    have hn : n * 10 + dval c < 10^19 := by
      have h1 : 1 ≤ 10 ^ r.length := Nat.one_le_pow _ _ (by decide)
      have : (n * 10 + dval c) * 1 ≤ (n * 10 + dval c) * 10 ^ r.length := Nat.mul_le_mul_left _ h1
      have e : n * (10 ^ r.length * 10) + dval c * 10 ^ r.length = (n * 10 + dval c) * 10 ^ r.length := by
        rw [Nat.add_mul, Nat.mul_assoc, Nat.mul_comm 10]
      omega
    have hk : (sigS s k n).sig.w1 ≤ (1801439850948198399 : UInt64) := by
      show (0 : UInt64) ≤ _; decide
    rw [List.cons_append, run2_cons, step2_digS sep c (sigS s k n) hc he hk, Option.bind_some,
      digS_sigS c s k n hc hn]
    rw [ih (k + 1) (n * 10 + dval c) hr (by
      have e : n * (10 ^ r.length * 10) + dval c * 10 ^ r.length = (n * 10 + dval c) * 10 ^ r.length := by
        rw [Nat.add_mul, Nat.mul_assoc, Nat.mul_comm 10]
      omega)]
    congr 2
    · simp only [List.length_cons]; omega
    · rw [val_cons, List.length_cons, Nat.pow_succ, Nat.add_mul, Nat.mul_assoc, Nat.mul_comm 10]
      omega

/-- a non-empty run of significand digits from any state whose significand is a small number -/
theorem run2_sig (sep : Bool) (c : UInt8) (ds rest : List UInt8) (s : S2) (n : Nat)
    (hc : isDig c = true) (hds : ∀ x ∈ ds, isDig x = true) (he : s.sawexp = false)
    (hs : s.sig = ⟨UInt64.ofNat n, 0⟩)
    (hb : n * 10 ^ (ds.length + 1) + val (c :: ds) < 10^19) :
    run2 sep (c :: ds ++ rest) s =
      run2 sep rest (sigS s (ds.length + 1) (n * 10 ^ (ds.length + 1) + val (c :: ds))) := by
  have hv := val_lt ds hds
  rw [val_cons, Nat.pow_succ] at hb
  have e : n * (10 ^ ds.length * 10) + dval c * 10 ^ ds.length = (n * 10 + dval c) * 10 ^ ds.length := by
    rw [Nat.add_mul, Nat.mul_assoc, Nat.mul_comm 10]
  have hn : n * 10 + dval c < 10^19 := by
    have h1 : 1 ≤ 10 ^ ds.length := Nat.one_le_pow _ _ (by decide)
    have : (n * 10 + dval c) * 1 ≤ (n * 10 + dval c) * 10 ^ ds.length := Nat.mul_le_mul_left _ h1
    omega
  have hk : s.sig.w1 ≤ (1801439850948198399 : UInt64) := by
    rw [hs]; show (0 : UInt64) ≤ _; decide
  rw [List.cons_append, run2_cons, step2_digS sep c s hc he hk, Option.bind_some, digS_of_sig c s n hs hc hn]
  have hse : (sigS s 1 (n * 10 + dval c)).sawexp = false := he
  have := run2_sig_from sep ds rest s 1 (n * 10 + dval c) hds he (by omega)
  rw [this]
  congr 2
  · omega
  · rw [val_cons, Nat.pow_succ]; omega

/-! ### exponent digits -/

/-- the state after exponent digits of total value `v` -/
def expS (s : S2) (v : Nat) : S2 :=
  ⟨s.nfrac, s.trunc, true, true, false, s.eneg, true, s.sawdot, s.sawexp, s.sig, Int64.ofNat v⟩

theorem conv_digit_i64_eq (c : UInt8) (hc : isDig c = true) :
    (Go.conv (c - (48 : UInt8)) : Int64) = Int64.ofNat (dval c) := by
  apply Int64.toInt_inj.mp
  rw [conv_digit_i64 c hc, Int64.toInt_ofNat_of_lt]
  · rfl
  · have := dval_le c hc; unfold dval at this ⊢; omega

theorem expDigit_ofNat (c : UInt8) (v : Nat) (hc : isDig c = true) (hv : v < 10^9) :
    expDigit c (Int64.ofNat v) = Int64.ofNat (v * 10 + dval c) := by
  unfold expDigit
  have hlt : Int64.ofNat v < (288230376151711744 : Int64) := by
    rw [Int64.lt_iff_toInt_lt, Int64.toInt_ofNat_of_lt (by omega)]
    show (v : Int) < 288230376151711744
    omega
  rw [if_pos hlt, conv_digit_i64_eq c hc, Int64.ofNat_add, Int64.ofNat_mul]
  rfl

theorem step2_expS (sep : Bool) (c : UInt8) (s : S2) (v : Nat) (hc : isDig c = true) (he : s.sawexp = true)
    (hs : s.exp = Int64.ofNat v) (hv : v < 10^9) :
    step2 sep c s = some (expS s (v * 10 + dval c)) := by
  unfold step2
  simp only [hc, if_true, he, hs, expDigit_ofNat c v hc hv]
  unfold expS
  rw [he]

theorem run2_exp_from (sep : Bool) (ds rest : List UInt8) (s : S2) (v : Nat)
    (hds : ∀ c ∈ ds, isDig c = true) (he : s.sawexp = true)
    (hb : v * 10 ^ ds.length + val ds < 10^9) :
    run2 sep (ds ++ rest) (expS s v) = run2 sep rest (expS s (v * 10 ^ ds.length + val ds)) := by
  induction ds generalizing v with
  | nil => simp [val]
  | cons c r ih =>
    have hc := hds c List.mem_cons_self
    have hr : ∀ x ∈ r, isDig x = true := fun x hx => hds x (List.mem_cons_of_mem _ hx)
    have hv := val_lt r hr
    rw [val_cons, List.length_cons, Nat.pow_succ] at hb
    have e : v * (10 ^ r.length * 10) + dval c * 10 ^ r.length = (v * 10 + dval c) * 10 ^ r.length := by
      rw [Nat.add_mul, Nat.mul_assoc, Nat.mul_comm 10]
    have hn : v * 10 + dval c < 10^9 := by
      have h1 : 1 ≤ 10 ^ r.length := Nat.one_le_pow _ _ (by decide)
      have : (v * 10 + dval c) * 1 ≤ (v * 10 + dval c) * 10 ^ r.length := Nat.mul_le_mul_left _ h1
      omega
    rw [List.cons_append, run2_cons, step2_expS sep c (expS s v) v hc he rfl (by omega), Option.bind_some]
    have : expS (expS s v) (v * 10 + dval c) = expS s (v * 10 + dval c) := rfl
    rw [this, ih (v * 10 + dval c) hr (by omega)]
    congr 2
    rw [val_cons, List.length_cons, Nat.pow_succ]
    omega

theorem run2_exp (sep : Bool) (c : UInt8) (ds rest : List UInt8) (s : S2)
    (hc : isDig c = true) (hds : ∀ x ∈ ds, isDig x = true) (he : s.sawexp = true)
    (hs : s.exp = 0) (hb : val (c :: ds) < 10^9) :
    run2 sep (c :: ds ++ rest) s = run2 sep rest (expS s (val (c :: ds))) := by
  have hv := val_lt ds hds
  have hb' := hb
  rw [val_cons] at hb'
  have hn : dval c < 10^9 := by have := dval_le c hc; omega
  rw [List.cons_append, run2_cons, step2_expS sep c s 0 hc he hs (by decide), Option.bind_some]
  have e0 : 0 * 10 + dval c = dval c := by omega
  rw [e0, run2_exp_from sep ds rest s (dval c) hds he (by omega)]
  congr 2
  rw [val_cons]

/-! ### the phases of a canonical numeral -/

def SigDone (s : S2) (m nf : Nat) : Prop :=
  s.caneof = true ∧ s.sawdig = true ∧ s.sawexp = false ∧ s.cansgn = false ∧ s.eneg = false ∧
    s.trunc = 0 ∧ s.exp = 0 ∧ s.sig = ⟨UInt64.ofNat m, 0⟩ ∧ s.nfrac = Int64.ofNat nf

def FinalSt (s : S2) (m nf : Nat) (en : Bool) (ev : Nat) : Prop :=
  s.caneof = true ∧ s.sawdig = true ∧ s.trunc = 0 ∧ s.sig = ⟨UInt64.ofNat m, 0⟩ ∧
    s.nfrac = Int64.ofNat nf ∧ s.eneg = en ∧ s.exp = Int64.ofNat ev

theorem SigDone.final {s : S2} {m nf : Nat} (h : SigDone s m nf) : FinalSt s m nf false 0 := by
  obtain ⟨h1, h2, h3, h4, h5, h6, h7, h8, h9⟩ := h
  exact ⟨h1, h2, h6, h8, h9, h5, h7⟩

theorem step2_dot (sep : Bool) (s : S2) (h1 : s.sawdot = false) (h2 : s.sawexp = false)
    (h3 : s.sawdig = false ∨ s.cansep = true) :
    step2 sep 46 s = some ⟨s.nfrac, s.trunc, true, false, false, s.eneg, s.sawdig, true, s.sawexp, s.sig, s.exp⟩ := by
  unfold step2
  rcases h3 with h3 | h3 <;> simp [h1, h2, h3]

theorem step2_e (sep : Bool) (c : UInt8) (hc : c = 101 ∨ c = 69) (s : S2) (h1 : s.sawdig = true)
    (h2 : s.sawexp = false) (h3 : s.caneof = true) :
    step2 sep c s = some ⟨s.nfrac, s.trunc, false, false, true, s.eneg, s.sawdig, s.sawdot, true, s.sig, s.exp⟩ := by
  unfold step2
  rcases hc with hc | hc <;> subst hc <;> simp [h1, h2, h3]

theorem step2_minus (sep : Bool) (s : S2) (h1 : s.cansgn = true) :
    step2 sep 45 s = some ⟨s.nfrac, s.trunc, false, false, false, true, s.sawdig, s.sawdot, s.sawexp, s.sig, s.exp⟩ := by
  unfold step2; simp [h1]

theorem step2_plus (sep : Bool) (s : S2) (h1 : s.cansgn = true) :
    step2 sep 43 s = some ⟨s.nfrac, s.trunc, false, false, false, s.eneg, s.sawdig, s.sawdot, s.sawexp, s.sig, s.exp⟩ := by
  unfold step2; simp [h1]

theorem val_bound (ds : List UInt8) (h : ∀ c ∈ ds, isDig c = true) (hl : ds.length ≤ 19) : val ds < 10^19 := by
  have := val_lt ds h
  have : 10 ^ ds.length ≤ 10 ^ 19 := Nat.pow_le_pow_right (by decide) hl
  omega

/-- the significand part: integer digits, optional point, fraction digits -/
theorem run2_significand (sep : Bool) (ip fp : List UInt8) (hasDot : Bool)
    (hip : ∀ c ∈ ip, isDig c = true) (hfp : ∀ c ∈ fp, isDig c = true)
    (hfp0 : hasDot = false → fp = []) (hne : ip ++ fp ≠ []) (h19 : ip.length + fp.length ≤ 19) :
    ∃ s, SigDone s (val (ip ++ fp)) fp.length ∧
      ∀ rest, run2 sep (ip ++ (if hasDot then 46 :: fp else []) ++ rest) (toS2 init1) = run2 sep rest s := by
  have hall : ∀ c ∈ ip ++ fp, isDig c = true := by
    intro c hc
    rcases List.mem_append.mp hc with h | h
    · exact hip c h
    · exact hfp c h
  have hvb : val (ip ++ fp) < 10^19 := val_bound _ hall (by simp; omega)
  cases hasDot with
  | false =>
    have hf := hfp0 rfl
    subst hf
    simp only [List.append_nil] at hne hvb ⊢
    cases ip with
    | nil => exact absurd rfl hne
    | cons c ds =>
      have hc := hip c List.mem_cons_self
      have hds : ∀ x ∈ ds, isDig x = true := fun x hx => hip x (List.mem_cons_of_mem _ hx)
      refine ⟨sigS (toS2 init1) (ds.length + 1) (0 * 10 ^ (ds.length + 1) + val (c :: ds)), ?_, ?_⟩
      · simp only [Nat.zero_mul, Nat.zero_add]
        exact ⟨rfl, rfl, rfl, rfl, rfl, rfl, rfl, rfl, rfl⟩
      · intro rest
        simp only [Bool.false_eq_true, if_false, List.append_nil]
        exact run2_sig sep c ds rest (toS2 init1) 0 hc hds rfl rfl (by omega)
  | true =>
    simp only [if_true]
    cases ip with
    | nil =>
      simp only [List.nil_append] at hne hvb ⊢
      cases fp with
      | nil => exact absurd rfl hne
      | cons c ds =>
        have hc := hfp c List.mem_cons_self
        have hds : ∀ x ∈ ds, isDig x = true := fun x hx => hfp x (List.mem_cons_of_mem _ hx)
        have hdot := step2_dot sep (toS2 init1) rfl rfl (Or.inl rfl)
        generalize hsd : (⟨(toS2 init1).nfrac, (toS2 init1).trunc, true, false, false, (toS2 init1).eneg,
          (toS2 init1).sawdig, true, (toS2 init1).sawexp, (toS2 init1).sig, (toS2 init1).exp⟩ : S2) = sd at hdot
        refine ⟨sigS sd (ds.length + 1) (0 * 10 ^ (ds.length + 1) + val (c :: ds)), ?_, ?_⟩
        · subst hsd
          simp only [Nat.zero_mul, Nat.zero_add]
          refine ⟨rfl, rfl, rfl, rfl, rfl, rfl, rfl, rfl, ?_⟩
          show (0 : Int64) + _ = _
          rw [Int64.zero_add]; rfl
        · intro rest
          rw [List.cons_append, run2_cons, hdot, Option.bind_some]
          exact run2_sig sep c ds rest sd 0 hc hds (by subst hsd; rfl) (by subst hsd; rfl) (by omega)
    | cons c ds =>
      have hc := hip c List.mem_cons_self
      have hds : ∀ x ∈ ds, isDig x = true := fun x hx => hip x (List.mem_cons_of_mem _ hx)
      have hvi : val (c :: ds) < 10^19 := val_bound _ hip (by simp at h19 ⊢; omega)
      have h1 : ∀ rest, run2 sep (c :: ds ++ rest) (toS2 init1) =
          run2 sep rest (sigS (toS2 init1) (ds.length + 1) (0 * 10 ^ (ds.length + 1) + val (c :: ds))) :=
        fun rest => run2_sig sep c ds rest (toS2 init1) 0 hc hds rfl rfl (by omega)
      simp only [Nat.zero_mul, Nat.zero_add] at h1
      have hdot := step2_dot sep (sigS (toS2 init1) (ds.length + 1) (val (c :: ds))) rfl rfl (Or.inr rfl)
      generalize hsd : (⟨(sigS (toS2 init1) (ds.length + 1) (val (c :: ds))).nfrac,
          (sigS (toS2 init1) (ds.length + 1) (val (c :: ds))).trunc, true, false, false,
          (sigS (toS2 init1) (ds.length + 1) (val (c :: ds))).eneg,
          (sigS (toS2 init1) (ds.length + 1) (val (c :: ds))).sawdig, true,
          (sigS (toS2 init1) (ds.length + 1) (val (c :: ds))).sawexp,
          (sigS (toS2 init1) (ds.length + 1) (val (c :: ds))).sig,
          (sigS (toS2 init1) (ds.length + 1) (val (c :: ds))).exp⟩ : S2) = sd at hdot
      cases fp with
      | nil =>
        refine ⟨sd, ?_, ?_⟩
        · subst hsd
          simp only [List.append_nil]
          exact ⟨rfl, rfl, rfl, rfl, rfl, rfl, rfl, rfl, rfl⟩
        · intro rest
          rw [List.append_assoc, h1, List.cons_append, run2_cons, hdot, Option.bind_some]
          rfl
      | cons c' ds' =>
        have hc' := hfp c' List.mem_cons_self
        have hds' : ∀ x ∈ ds', isDig x = true := fun x hx => hfp x (List.mem_cons_of_mem _ hx)
        rw [val_append] at hvb ⊢
        refine ⟨sigS sd (ds'.length + 1) (val (c :: ds) * 10 ^ (ds'.length + 1) + val (c' :: ds')), ?_, ?_⟩
        · subst hsd
          refine ⟨rfl, rfl, rfl, rfl, rfl, rfl, rfl, rfl, ?_⟩
          show (0 : Int64) + _ = _
          rw [Int64.zero_add]; rfl
        · intro rest
          rw [List.append_assoc, h1, List.cons_append, run2_cons, hdot, Option.bind_some]
          exact run2_sig sep c' ds' rest sd (val (c :: ds)) hc' hds' (by subst hsd; rfl) (by subst hsd; rfl)
            (by simpa using hvb)

/-- the exponent part: `e`/`E`, optional sign, digits -/
theorem run2_exponent (sep : Bool) (s : S2) (m nf : Nat) (hs : SigDone s m nf) (ech : UInt8)
    (hech : ech = 101 ∨ ech = 69) (sgn ep : List UInt8) (hsgn : sgn = [] ∨ sgn = [45] ∨ sgn = [43])
    (hep : ∀ c ∈ ep, isDig c = true) (hne : ep ≠ []) (hev : val ep < 10^9) :
    ∃ s', run2 sep (ech :: (sgn ++ ep)) s = some s' ∧ FinalSt s' m nf (decide (sgn = [45])) (val ep) := by
  obtain ⟨h1, h2, h3, h4, h5, h6, h7, h8, h9⟩ := hs
  have he := step2_e sep ech hech s h2 h3 h1
  cases ep with
  | nil => exact absurd rfl hne
  | cons c ds =>
    have hc := hep c List.mem_cons_self
    have hds : ∀ x ∈ ds, isDig x = true := fun x hx => hep x (List.mem_cons_of_mem _ hx)
    generalize hse : (⟨s.nfrac, s.trunc, false, false, true, s.eneg, s.sawdig, s.sawdot, true, s.sig, s.exp⟩ : S2)
      = se at he
    rcases hsgn with hsg | hsg | hsg <;> subst hsg
    · refine ⟨expS se (val (c :: ds)), ?_, ?_⟩
      · rw [run2_cons, he, Option.bind_some, List.nil_append]
        have := run2_exp sep c ds [] se hc hds (by subst hse; rfl) (by subst hse; exact h7) hev
        simpa using this
      · subst hse
        refine ⟨rfl, rfl, h6, h8, h9, ?_, rfl⟩
        show s.eneg = _
        rw [h5]; decide
    · have hm := step2_minus sep se (by subst hse; rfl)
      generalize hsm : (⟨se.nfrac, se.trunc, false, false, false, true, se.sawdig, se.sawdot, se.sawexp, se.sig,
        se.exp⟩ : S2) = sm at hm
      refine ⟨expS sm (val (c :: ds)), ?_, ?_⟩
      · rw [run2_cons, he, Option.bind_some, List.cons_append, List.nil_append, run2_cons, hm, Option.bind_some]
        have := run2_exp sep c ds [] sm hc hds (by subst hsm; subst hse; rfl) (by subst hsm; subst hse; exact h7) hev
        simpa using this
      · subst hsm; subst hse
        refine ⟨rfl, rfl, h6, h8, h9, ?_, rfl⟩
        show true = _
        decide
    · have hm := step2_plus sep se (by subst hse; rfl)
      generalize hsm : (⟨se.nfrac, se.trunc, false, false, false, se.eneg, se.sawdig, se.sawdot, se.sawexp, se.sig,
        se.exp⟩ : S2) = sm at hm
      refine ⟨expS sm (val (c :: ds)), ?_, ?_⟩
      · rw [run2_cons, he, Option.bind_some, List.cons_append, List.nil_append, run2_cons, hm, Option.bind_some]
        have := run2_exp sep c ds [] sm hc hds (by subst hsm; subst hse; rfl) (by subst hsm; subst hse; exact h7) hev
        simpa using this
      · subst hsm; subst hse
        refine ⟨rfl, rfl, h6, h8, h9, ?_, rfl⟩
        show s.eneg = _
        rw [h5]; decide

/-- the result of `parseNumber` on a numeral with exact value `±m·10^e` whose significand fits 19 digits -/
def canonResult (g : Globals) (neg : Bool) (m : Nat) (e : Int) : Go.GoM (Gen.Decimal × Go.Err) :=
  if m = 0 then .ok (Gen.zero neg, Go.Err.nil)
  else if e > 6150 then .ok (Gen.inf neg, Go.Err.parseNumberRangeError)
  else if e < -6215 then .ok (Gen.zero neg, Go.Err.nil)
  else do
    let r ← Gen.RoundingMode.reduce128 g.DefaultRoundingMode neg ⟨UInt64.ofNat m, 0⟩ (Int16.ofInt (e + 6176)) 0
    if r.2 > (12287 : Int16) then pure (Gen.inf neg, Go.Err.parseNumberRangeError)
    else pure (Gen.compose neg r.1 r.2, Go.Err.nil)

theorem finish_final (g : Globals) (neg : Bool) (s : S2) (m nf : Nat) (en : Bool) (ev : Nat)
    (hs : FinalSt s m nf en ev) (hm : m < 10^19) (hnf : nf ≤ 19) (hev : ev < 10^9) :
    finish g neg s = canonResult g neg m ((if en then -(ev : Int) else (ev : Int)) - (nf : Int)) := by
  obtain ⟨h1, h2, h3, h4, h5, h6, h7⟩ := hs
  have hE : ((if s.eneg then s.exp * (-1 : Int64) else s.exp) - s.nfrac) =
      Int64.ofInt ((if en then -(ev : Int) else (ev : Int)) - (nf : Int)) := by
    rw [h5, h6, h7, Int64.ofInt_sub, Int64.ofInt_eq_ofNat]
    congr 1
    cases en
    · simp only [Bool.false_eq_true, if_false, Int64.ofInt_eq_ofNat]
    · simp only [if_true, Int64.ofInt_neg, Int64.ofInt_eq_ofNat]
      rw [show (-1 : Int64) = -1 from rfl, Int64.mul_neg, Int64.mul_one]
  generalize hedef : ((if en then -(ev : Int) else (ev : Int)) - (nf : Int)) = e at hE
  have hebound : -(10:Int)^9 - 19 ≤ e ∧ e < 10^9 := by
    subst hedef; cases en <;> simp <;> omega
  have hEt : (Int64.ofInt e).toInt = e := Int64.toInt_ofInt_of_le (by omega) (by omega)
  have hz : ((s.sig.w0 ||| s.sig.w1) == (0 : UInt64)) = decide (m = 0) := by
    rw [h4]
    show ((UInt64.ofNat m ||| 0) == 0) = _
    rw [UInt64.or_zero, Bool.eq_iff_iff]
    simp only [beq_iff_eq, decide_eq_true_eq, ← UInt64.toNat_inj, UInt64.toNat_ofNat', UInt64.toNat_zero]
    have : m % 2^64 = m := Nat.mod_eq_of_lt (by omega)
    rw [this]
  unfold finish canonResult
  have hc : ¬ ((!s.caneof) || (!s.sawdig)) = true := by rw [h1, h2]; decide
  rw [if_neg hc, hz]
  by_cases hm0 : m = 0
  · simp only [hm0, decide_true, if_true]; rfl
  simp only [hm0, decide_false, Bool.false_eq_true, if_false]
  rw [hE]
  have h6150 : decide (Int64.ofInt e > (6150 : Int64)) = decide (e > 6150) := by
    rw [Bool.eq_iff_iff]; simp only [decide_eq_true_eq, gt_iff_lt, Int64.lt_iff_toInt_lt, hEt]; rfl
  have h6215 : decide (Int64.ofInt e < (-6215 : Int64)) = decide (e < -6215) := by
    rw [Bool.eq_iff_iff]; simp only [decide_eq_true_eq, Int64.lt_iff_toInt_lt, hEt]; rfl
  rw [h6150, h6215]
  by_cases hbig : e > 6150
  · simp only [hbig, decide_true, if_true]; rfl
  simp only [hbig, decide_false, Bool.false_eq_true, if_false]
  by_cases hsmall : e < -6215
  · simp only [hsmall, decide_true, if_true]; rfl
  simp only [hsmall, decide_false, Bool.false_eq_true, if_false]
  have hconv : (Go.conv (Int64.ofInt e + (6176 : Int64)) : Int16) = Int16.ofInt (e + 6176) := by
    show Int16.ofInt (Int64.ofInt e + (6176 : Int64)).toInt = Int16.ofInt (e + 6176)
    have h6 : (6176 : Int64).toInt = 6176 := by decide
    rw [i64_add_toInt _ _ (by rw [hEt, h6]; omega) (by rw [hEt, h6]; omega), hEt, h6]
  rw [hconv, h3, h4]
  simp only [decide_eq_true_eq]

/-- **canonical numerals**: at most 19 significand digits, no separators, exponent below 10^9 -/
theorem parseNumber_canonical (g : Globals) (d : Go.Bytes) (neg sep : Bool)
    (hsz : d.size < 2^63)
    (ip fp sgn ep : List UInt8) (hasDot hasExp : Bool) (ech : UInt8)
    (hip : ∀ c ∈ ip, isDig c = true) (hfp : ∀ c ∈ fp, isDig c = true) (hep : ∀ c ∈ ep, isDig c = true)
    (hd : d.toList = ip ++ (if hasDot then 46 :: fp else []) ++ (if hasExp then ech :: (sgn ++ ep) else []))
    (hfp0 : hasDot = false → fp = []) (hne : ip ++ fp ≠ []) (h19 : ip.length + fp.length ≤ 19)
    (hech : ech = 101 ∨ ech = 69) (hsgn : sgn = [] ∨ sgn = [45] ∨ sgn = [43])
    (hepne : hasExp = true → ep ≠ []) (hexp0 : hasExp = false → ep = [] ∧ sgn = [])
    (hev : val ep < 10^9) :
    Gen.parseNumber g d neg sep =
      canonResult g neg (val (ip ++ fp))
        ((if sgn = [45] then -(val ep : Int) else (val ep : Int)) - (fp.length : Int)) := by
  rw [parseNumber_eq_run2 g d neg sep hsz, hd]
  obtain ⟨s, hs, hrun⟩ := run2_significand sep ip fp hasDot hip hfp hfp0 hne h19
  rw [hrun]
  have hall : ∀ c ∈ ip ++ fp, isDig c = true := by
    intro c hc
    rcases List.mem_append.mp hc with h | h
    · exact hip c h
    · exact hfp c h
  have hvb : val (ip ++ fp) < 10^19 := val_bound _ hall (by simp; omega)
  cases hasExp with
  | false =>
    obtain ⟨hep0, hsg0⟩ := hexp0 rfl
    subst hep0; subst hsg0
    simp only [Bool.false_eq_true, if_false, run2_nil]
    have := finish_final g neg s _ _ _ _ hs.final hvb (by omega) (by decide)
    rw [this]
    simp [val]
  | true =>
    simp only [if_true]
    obtain ⟨s', hr, hf⟩ := run2_exponent sep s _ _ hs ech hech sgn ep hsgn hep (hepne rfl) hev
    rw [hr]
    simp only []
    have := finish_final g neg s' _ _ _ _ hf hvb (by omega) hev
    rw [this]
    congr 2
    by_cases h45 : sgn = [45] <;> simp [h45]


end Parse
