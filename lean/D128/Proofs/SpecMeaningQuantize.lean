/-
  D128/Proofs/SpecMeaningQuantize.lean — what `Spec.quantize dp m x` (Round(dp, m)) MEANS, on the
  rational `X = x.toRat` and the quantum `Q = 10^(-dp)`.  Reuses `Qz.quantize_val`, `Qz.sc`
  (QuantizeIdem.lean), `Qz.exactOrInfS_member/_not_member` (QuantizeSpec.lean) and the `roundAt_*`
  lemmas of SpecRoundAt.lean.  Pure mathematics; no generated code.

  Provided (namespace `SpecMeaning`):
  * `IsMult X dp`            : `X` is an integer multiple of `10^(-dp)`
  * `sc_eq`, `den_one_iff_isMult` : the Spec's test `(c·10^(e+dp)).den = 1` is `IsMult X dp`
  * `ModeSelects m neg s k`  : the DECLARATIVE mode table: which natural number `k ∈ {⌊s⌋, ⌈s⌉}` mode `m`
                               selects for the magnitude `s ≥ 0` of a value with sign bit `neg`
  * `roundAt_modeSelects`    : `Spec.roundAt m neg s 0` satisfies the table
  * `modeSelects_unique`     : the table determines `k` uniquely;  `modeSelects_iff`
  * `modeSelects_bounds`     : `⌊s⌋ ≤ k ≤ ⌈s⌉`, hence `|k − s| < 1`
  * `quanta_cases`           : `exactOrInfS n k j` for a natural number `k` of quanta `10^j`:
                               `k = 0` → the zero of sign `n`; `k·10^j` a member → a finite value of sign `n`
                               denoting `k·10^j`; not a member → `±Inf`
  * `member_quanta_iff`      : for `k ≤ Cmax`, `Emin ≤ j`: `k·10^j` is a member ↔ `k·10^j ≤ Cmax·10^Emax`
  * `quantize_zero'`         : zero operand → the zero of the same sign
  * `quantize_of_mult`       : `X` already a multiple → the operand itself, unchanged
  * `quantize_flush`         : not a multiple and `|X| < Q/10` → the zero of x's sign, IN EVERY MODE (the
                               exception the property text pins)
  * `flush_matters_only_up`  : without the clause the other modes would return that zero anyway: for
                               `s < 1/10` only the modes that round the magnitude up select 1 instead of 0
  * `quantize_round`         : not a multiple and `Q/10 ≤ |X|` → `exactOrInfS n k (-dp)` with `k` the number
                               the mode table selects for `s = |X|/Q`
  * `quantize_cases`         : the three cases above are exhaustive (normal form for non-zero finite x)
  * `quantize_fin_result`    : a finite result has the sign bit of x, denotes an integer multiple of `Q`
                               and is less than one quantum from `X` (all finite x)
  * `quantize_inf_result`    : an infinite result has the sign of x
  * `flush_up_would_be_one`  : … and those modes would select one quantum
  * `count_le_coef`, `lt_of_not_isMult` : when digits are dropped the selected count is at most `c`
  * `quantize_member_inf_iff`: x a member of the format: the result is `±Inf` exactly when the selected
                               multiple `k·Q` exceeds the largest finite magnitude
  * `quantize_nan`, `quantize_inf` : NaN and ±Inf pass through unchanged
-/
import D128.Proofs.QuantizeIdem
import D128.Proofs.SpecMeaningArith

set_option autoImplicit false

namespace SpecMeaning
open Spec SpecRound

/-! ## multiples of the quantum -/

/-- `X` is an integer multiple of the quantum `10^(-dp)` -/
def IsMult (X : ℚ) (dp : Int) : Prop := ∃ z : Int, X = (z : ℚ) * (10 : ℚ) ^ (-dp)

theorem isMult_zero (dp : Int) : IsMult 0 dp := ⟨0, by simp⟩

theorem isMult_neg {X : ℚ} {dp : Int} (h : IsMult X dp) : IsMult (-X) dp := by
  obtain ⟨z, rfl⟩ := h
  exact ⟨-z, by push_cast; ring⟩

theorem Q_pos (dp : Int) : (0 : ℚ) < (10 : ℚ) ^ (-dp) := zpow_pos (by norm_num) _

/-- the Spec's scaled magnitude `c·10^(e+dp)` is `|X| / Q` -/
theorem sc_eq (n : Bool) (c : Nat) (e dp : Int) :
    Qz.sc c e dp = |(Val.fin n c e).toRat| / (10 : ℚ) ^ (-dp) := by
  rw [abs_toRat_fin]
  unfold Qz.sc
  rw [zpow_add₀ (by norm_num : (10 : ℚ) ≠ 0), zpow_neg, div_inv_eq_mul, mul_assoc]

theorem sc_nonneg (c : Nat) (e dp : Int) : 0 ≤ Qz.sc c e dp := by
  unfold Qz.sc; exact mag_nonneg c (e + dp)

/-- a finite value is its magnitude with its sign -/
theorem toRat_eq_signed_abs (n : Bool) (c : Nat) (e : Int) :
    (Val.fin n c e).toRat = if n then -|(Val.fin n c e).toRat| else |(Val.fin n c e).toRat| := by
  rw [abs_toRat_fin, toRat_fin']

/-- the Spec's test "the scaled magnitude has denominator 1" is "X is a multiple of the quantum" -/
theorem den_one_iff_isMult (n : Bool) (c : Nat) (e dp : Int) :
    (Qz.sc c e dp).den = 1 ↔ IsMult (Val.fin n c e).toRat dp := by
  have hQ := Q_pos dp
  constructor
  · intro h
    rw [Rat.den_eq_one_iff] at h
    have h1 : |(Val.fin n c e).toRat| = ((Qz.sc c e dp).num : ℚ) * (10 : ℚ) ^ (-dp) := by
      rw [h, sc_eq n c e dp]; field_simp
    rw [toRat_eq_signed_abs, h1]
    cases n
    · exact ⟨(Qz.sc c e dp).num, by simp⟩
    · exact ⟨-(Qz.sc c e dp).num, by simp⟩
  · rintro ⟨z, hz⟩
    have : Qz.sc c e dp = ((|z| : Int) : ℚ) := by
      rw [sc_eq n c e dp, hz, abs_mul, abs_of_pos hQ, Int.cast_abs]; field_simp
    rw [this]; exact Rat.den_intCast _

/-! ## the declarative mode table -/

/-- which natural number `k` the mode `m` selects for the magnitude `s ≥ 0` of a value whose sign bit is
    `neg`: `⌊s⌋` or `⌈s⌉` by direction for the four directed modes; for the two nearest modes a
    neighbour at distance at most 1/2, a tie going to the even neighbour resp. to the larger one -/
def ModeSelects (m : Mode) (neg : Bool) (s : ℚ) (k : Nat) : Prop :=
  match m with
  | .toZero => k = ⌊s⌋₊
  | .awayFromZero => k = ⌈s⌉₊
  | .toNegInf => k = if neg then ⌈s⌉₊ else ⌊s⌋₊
  | .toPosInf => k = if neg then ⌊s⌋₊ else ⌈s⌉₊
  | .nearestEven => (k = ⌊s⌋₊ ∨ k = ⌈s⌉₊) ∧ |(k : ℚ) - s| ≤ 1 / 2 ∧ (|(k : ℚ) - s| = 1 / 2 → k % 2 = 0)
  | .nearestAway => (k = ⌊s⌋₊ ∨ k = ⌈s⌉₊) ∧ |(k : ℚ) - s| ≤ 1 / 2 ∧ (|(k : ℚ) - s| = 1 / 2 → k = ⌈s⌉₊)

theorem div_zpow_zero (s : ℚ) : s / (10 : ℚ) ^ (0 : Int) = s := by simp

theorem roundAt_modeSelects (m : Mode) (neg : Bool) (s : ℚ) (hs : 0 ≤ s) :
    ModeSelects m neg s (Spec.roundAt m neg s 0) := by
  have hfl := Nat.floor_le hs
  have hlt := Nat.lt_floor_add_one s
  cases m with
  | toZero => simp only [ModeSelects, roundAt_toZero neg s hs 0, div_zpow_zero]
  | awayFromZero => simp only [ModeSelects, roundAt_awayFromZero neg s hs 0, div_zpow_zero]
  | toNegInf => simp only [ModeSelects, roundAt_toNegInf neg s hs 0, div_zpow_zero]
  | toPosInf => simp only [ModeSelects, roundAt_toPosInf neg s hs 0, div_zpow_zero]
  | nearestEven =>
    simp only [ModeSelects, roundAt_nearestEven neg s hs 0, div_zpow_zero]
    split
    · rename_i h
      have hf : 1 / 2 ≤ s - (⌊s⌋₊ : ℚ) := by
        rcases h with h | ⟨h, -⟩
        · exact h.le
        · exact h.ge
      have hce : ⌈s⌉₊ = ⌊s⌋₊ + 1 := ceil_of_frac_ne hs (by intro h0; rw [h0] at hf; norm_num at hf)
      refine ⟨Or.inr hce.symm, ?_, ?_⟩
      · push_cast; rw [abs_le]; constructor <;> linarith
      · push_cast
        intro ht
        have : s - (⌊s⌋₊ : ℚ) = 1 / 2 := by
          rw [abs_of_nonneg (by linarith)] at ht; linarith
        rcases h with h | ⟨-, hodd⟩
        · rw [this] at h; exact absurd h (lt_irrefl _)
        · omega
    · rename_i h
      have hf : s - (⌊s⌋₊ : ℚ) ≤ 1 / 2 := by
        by_contra hc; exact h (Or.inl (not_le.1 hc))
      refine ⟨Or.inl rfl, ?_, ?_⟩
      · rw [abs_le]; constructor <;> linarith
      · intro ht
        have : s - (⌊s⌋₊ : ℚ) = 1 / 2 := by
          rw [abs_of_nonpos (by linarith)] at ht; linarith
        by_contra hodd
        exact h (Or.inr ⟨this, by omega⟩)
  | nearestAway =>
    simp only [ModeSelects, roundAt_nearestAway neg s hs 0, div_zpow_zero]
    split
    · rename_i hf
      have hce : ⌈s⌉₊ = ⌊s⌋₊ + 1 := ceil_of_frac_ne hs (by intro h0; rw [h0] at hf; norm_num at hf)
      refine ⟨Or.inr hce.symm, ?_, fun _ => hce.symm⟩
      push_cast; rw [abs_le]; constructor <;> linarith
    · rename_i h
      have hf : s - (⌊s⌋₊ : ℚ) < 1 / 2 := not_le.1 h
      refine ⟨Or.inl rfl, ?_, ?_⟩
      · rw [abs_le]; constructor <;> linarith
      · intro ht
        rw [abs_of_nonpos (by linarith)] at ht
        linarith

/-- the selected number lies between the two neighbours -/
theorem modeSelects_bounds {m : Mode} {neg : Bool} {s : ℚ} {k : Nat}
    (h : ModeSelects m neg s k) : ⌊s⌋₊ ≤ k ∧ k ≤ ⌈s⌉₊ := by
  have h1 : ⌊s⌋₊ ≤ ⌈s⌉₊ := Nat.floor_le_ceil s
  cases m <;> simp only [ModeSelects] at h
  · rcases h.1 with h | h <;> omega
  · rcases h.1 with h | h <;> omega
  · omega
  · omega
  · cases neg <;> simp at h <;> omega
  · cases neg <;> simp at h <;> omega

/-- the mode table determines the selected number -/
theorem modeSelects_unique {m : Mode} {neg : Bool} {s : ℚ} (hs : 0 ≤ s) {k k' : Nat}
    (h : ModeSelects m neg s k) (h' : ModeSelects m neg s k') : k = k' := by
  have hfl := Nat.floor_le hs
  have hlt := Nat.lt_floor_add_one s
  have hce : ⌈s⌉₊ = ⌊s⌋₊ ∨ ⌈s⌉₊ = ⌊s⌋₊ + 1 := by
    by_cases hf : s - (⌊s⌋₊ : ℚ) = 0
    · exact Or.inl (ceil_of_frac_zero hf)
    · exact Or.inr (ceil_of_frac_ne hs hf)
  -- in a nearest mode two different candidates force a tie at both
  have tie : ∀ a b : Nat, (a = ⌊s⌋₊ ∨ a = ⌈s⌉₊) → (b = ⌊s⌋₊ ∨ b = ⌈s⌉₊) → a ≠ b →
      |(a : ℚ) - s| ≤ 1 / 2 → |(b : ℚ) - s| ≤ 1 / 2 →
      |(a : ℚ) - s| = 1 / 2 ∧ |(b : ℚ) - s| = 1 / 2 ∧ (a = b + 1 ∨ b = a + 1) ∧ ⌈s⌉₊ = ⌊s⌋₊ + 1 := by
    intro a b ha hb hab ha2 hb2
    rcases hce with hce | hce
    · rw [hce] at ha hb; exfalso; apply hab; rcases ha with rfl | rfl <;> rcases hb with rfl | rfl <;> rfl
    · rw [hce] at ha hb
      rw [abs_le] at ha2 hb2
      rcases ha with rfl | rfl <;> rcases hb with rfl | rfl
      · exact absurd rfl hab
      · push_cast at hb2 ⊢
        have : s - (⌊s⌋₊ : ℚ) = 1 / 2 := by linarith
        refine ⟨?_, ?_, Or.inr rfl, hce⟩
        · rw [abs_of_nonpos (by linarith)]; linarith
        · rw [abs_of_nonneg (by linarith)]; linarith
      · push_cast at ha2 ⊢
        have : s - (⌊s⌋₊ : ℚ) = 1 / 2 := by linarith
        refine ⟨?_, ?_, Or.inl rfl, hce⟩
        · rw [abs_of_nonneg (by linarith)]; linarith
        · rw [abs_of_nonpos (by linarith)]; linarith
      · exact absurd rfl hab
  cases m <;> simp only [ModeSelects] at h h'
  · by_contra hne
    obtain ⟨t1, t2, t3, -⟩ := tie k k' h.1 h'.1 hne h.2.1 h'.2.1
    have e1 := h.2.2 t1
    have e2 := h'.2.2 t2
    omega
  · by_contra hne
    obtain ⟨t1, t2, -, -⟩ := tie k k' h.1 h'.1 hne h.2.1 h'.2.1
    exact hne ((h.2.2 t1).trans (h'.2.2 t2).symm)
  · rw [h, h']
  · rw [h, h']
  · rw [h, h']
  · rw [h, h']

theorem modeSelects_iff (m : Mode) (neg : Bool) {s : ℚ} (hs : 0 ≤ s) (k : Nat) :
    ModeSelects m neg s k ↔ k = Spec.roundAt m neg s 0 :=
  ⟨fun h => modeSelects_unique hs h (roundAt_modeSelects m neg s hs),
   fun h => h ▸ roundAt_modeSelects m neg s hs⟩

/-- the selected number is less than 1 away from `s` -/
theorem modeSelects_abs_sub_lt {m : Mode} {neg : Bool} {s : ℚ} (hs : 0 ≤ s) {k : Nat}
    (h : ModeSelects m neg s k) : |(k : ℚ) - s| < 1 := by
  obtain ⟨h1, h2⟩ := modeSelects_bounds h
  have hfl := Nat.floor_le hs
  have hlt := Nat.lt_floor_add_one s
  have hce := Nat.ceil_lt_add_one hs
  have hle := Nat.le_ceil s
  have h1' : ((⌊s⌋₊ : Nat) : ℚ) ≤ (k : ℚ) := by exact_mod_cast h1
  have h2' : (k : ℚ) ≤ ((⌈s⌉₊ : Nat) : ℚ) := by exact_mod_cast h2
  rw [abs_lt]; constructor <;> linarith

/-- for `s < 1/10` (indeed `s < 1/2`) every mode that does not round the magnitude up selects 0 -/
theorem flush_matters_only_up {m : Mode} {neg : Bool} (h : isUp m neg = false) {s : ℚ} (hs : 0 ≤ s)
    (hlt : s < 1 / 10) : Spec.roundAt m neg s 0 = 0 := by
  have hfl : ⌊s⌋₊ = 0 := Nat.floor_eq_zero.2 (by linarith)
  rcases mode_cases m neg with hd | hu | hn
  · rw [roundAt_of_isDown hd s hs 0, div_zpow_zero, hfl]
  · rw [hu] at h; cases h
  · rcases roundAt_nearest hn neg s hs 0 with ⟨h1, -⟩ | ⟨-, h2⟩
    · rw [h1, div_zpow_zero, hfl]
    · rw [div_zpow_zero, hfl] at h2; norm_num at h2; linarith

/-- … and the modes that do round the magnitude up would select 1 for a non-zero `s < 1` -/
theorem flush_up_would_be_one {m : Mode} {neg : Bool} (h : isUp m neg = true) {s : ℚ} (hs : 0 < s)
    (hlt : s < 1) : Spec.roundAt m neg s 0 = 1 := by
  rw [roundAt_of_isUp h s hs.le 0, div_zpow_zero]
  rw [Nat.ceil_eq_iff (by norm_num)]
  norm_num
  exact ⟨hs, hlt.le⟩

/-! ## a natural number of quanta as a value -/

/-- `exactOrInfS n k j` for `k` quanta `10^j` -/
theorem quanta_cases (n : Bool) (k : Nat) (j : Int) :
    (k = 0 ∧ Spec.exactOrInfS n (k : ℚ) j = .fin n 0 0) ∨
    (0 < k ∧ ¬ Member ((k : ℚ) * (10 : ℚ) ^ j) ∧ Spec.exactOrInfS n (k : ℚ) j = .inf n) ∨
    (0 < k ∧ Member ((k : ℚ) * (10 : ℚ) ^ j) ∧
      ∃ c e, Spec.exactOrInfS n (k : ℚ) j = .fin n c e ∧ (c : ℚ) * (10 : ℚ) ^ e = (k : ℚ) * (10 : ℚ) ^ j ∧
        c ≤ Spec.Cmax ∧ Spec.Emin ≤ e ∧ e ≤ Spec.Emax) := by
  rcases Nat.eq_zero_or_pos k with h0 | hpos
  · left; subst h0; exact ⟨rfl, by simp [Qz.exactOrInfS_zero]⟩
  · have hq : (0 : ℚ) < (k : ℚ) := by exact_mod_cast hpos
    by_cases hm : Member ((k : ℚ) * (10 : ℚ) ^ j)
    · right; right; exact ⟨hpos, hm, Qz.exactOrInfS_member n _ j hq hm⟩
    · right; left; exact ⟨hpos, hm, Qz.exactOrInfS_not_member n _ j hq hm⟩

/-- a finite result of `exactOrInfS n k j` denotes `k·10^j` with the sign `n` -/
theorem quanta_fin {n : Bool} {k : Nat} {j : Int} {n' : Bool} {c : Nat} {e : Int}
    (h : Spec.exactOrInfS n (k : ℚ) j = .fin n' c e) :
    n' = n ∧ (c : ℚ) * (10 : ℚ) ^ e = (k : ℚ) * (10 : ℚ) ^ j ∧
    (Val.fin n' c e).toRat = if n then -((k : ℚ) * (10 : ℚ) ^ j) else (k : ℚ) * (10 : ℚ) ^ j := by
  rcases quanta_cases n k j with ⟨h0, hr⟩ | ⟨-, -, hr⟩ | ⟨-, -, c', e', hr, hv, -⟩
  · rw [hr] at h; injection h with h1 h2 h3
    subst h1 h2 h3 h0
    refine ⟨rfl, by simp, ?_⟩
    rw [toRat_fin']; simp
  · rw [hr] at h; cases h
  · rw [hr] at h; injection h with h1 h2 h3
    subst h1 h2 h3
    refine ⟨rfl, hv, ?_⟩
    rw [toRat_fin', hv]

theorem quanta_not_nan (n : Bool) (k : Nat) (j : Int) : (Spec.exactOrInfS n (k : ℚ) j).isNaN = false := by
  rcases quanta_cases n k j with ⟨-, hr⟩ | ⟨-, -, hr⟩ | ⟨-, -, c', e', hr, -⟩ <;> rw [hr] <;> rfl

theorem quanta_inf_iff (n : Bool) (k : Nat) (j : Int) :
    Spec.exactOrInfS n (k : ℚ) j = .inf n ↔ ¬ Member ((k : ℚ) * (10 : ℚ) ^ j) := by
  rcases quanta_cases n k j with ⟨h0, hr⟩ | ⟨-, hm, hr⟩ | ⟨-, hm, c', e', hr, -⟩
  · subst h0
    rw [hr]
    have : Member (((0 : Nat) : ℚ) * (10 : ℚ) ^ j) :=
      ⟨0, 0, Nat.zero_le _, by unfold Spec.Emin; norm_num, by unfold Spec.Emax; norm_num, by simp⟩
    constructor
    · intro h; cases h
    · intro h; exact absurd this h
  · simp [hr, hm]
  · simp [hr, hm]

/-- for a count `k ≤ Cmax` and a quantum exponent `j ≥ Emin`, `k·10^j` is a member of the format exactly
    when it does not exceed the largest finite magnitude -/
theorem member_quanta_iff {k : Nat} {j : Int} (hk : k ≤ Spec.Cmax) (hj : Spec.Emin ≤ j) :
    Member ((k : ℚ) * (10 : ℚ) ^ j) ↔
      (k : ℚ) * (10 : ℚ) ^ j ≤ (Spec.Cmax : ℚ) * (10 : ℚ) ^ Spec.Emax := by
  constructor
  · exact member_le_max
  · intro hle
    rcases le_or_gt j Spec.Emax with hj2 | hj2
    · exact ⟨k, j, hk, hj, hj2, rfl⟩
    · obtain ⟨d, hd⟩ : ∃ d : Nat, j = Spec.Emax + (d : Int) := ⟨(j - Spec.Emax).toNat, by omega⟩
      have hp : (0 : ℚ) < (10 : ℚ) ^ Spec.Emax := zpow_pos (by norm_num) _
      have hval : (k : ℚ) * (10 : ℚ) ^ j = ((k * 10 ^ d : Nat) : ℚ) * (10 : ℚ) ^ Spec.Emax := by
        rw [hd, zpow_add₀ (by norm_num : (10 : ℚ) ≠ 0), zpow_natCast]; push_cast; ring
      rw [hval] at hle ⊢
      have h2 : ((k * 10 ^ d : Nat) : ℚ) ≤ (Spec.Cmax : ℚ) := le_of_mul_le_mul_right hle hp
      refine ⟨k * 10 ^ d, Spec.Emax, by exact_mod_cast h2, ?_, le_refl _, rfl⟩
      unfold Spec.Emin Spec.Emax; norm_num

/-! ## `Spec.quantize` -/

theorem quantize_nan (dp : Int) (m : Mode) (n : Bool) (p : UInt64) :
    Spec.quantize dp m (.nan n p) = .nan n p := rfl
theorem quantize_inf (dp : Int) (m : Mode) (n : Bool) : Spec.quantize dp m (.inf n) = .inf n := rfl

/-- a zero keeps its sign (and becomes the zero with exponent 0) -/
theorem quantize_zero' (dp : Int) (m : Mode) (n : Bool) (e : Int) :
    Spec.quantize dp m (.fin n 0 e) = .fin n 0 0 := Qz.quantize_zero dp m n e

theorem rndQ_eq_roundAt (m : Mode) (n : Bool) {s : ℚ} (hs : 0 ≤ s) :
    RK.rndQ m n s = Spec.roundAt m n s 0 := by
  rw [RK.roundAt_eq m n s 0 hs, RK.pow10_zero, div_one]

theorem lt_tenth_iff' (X : ℚ) (dp : Int) :
    |X| / (10 : ℚ) ^ (-dp) < 1 / 10 ↔ |X| < (10 : ℚ) ^ (-dp) / 10 := by
  rw [div_lt_iff₀ (Q_pos dp)]
  constructor <;> intro h <;> linarith

/-- a value that is already a multiple of the quantum is returned unchanged (same sign, coefficient and
    exponent), in every mode -/
theorem quantize_of_mult (dp : Int) (m : Mode) (n : Bool) (c : Nat) (e : Int) (hc : c ≠ 0)
    (h : IsMult (Val.fin n c e).toRat dp) : Spec.quantize dp m (.fin n c e) = .fin n c e := by
  rw [Qz.quantize_val dp m n c e (Nat.pos_of_ne_zero hc), if_pos ((den_one_iff_isMult n c e dp).2 h)]

/-- THE EXCEPTION: a value that is not a multiple and is smaller in magnitude than a tenth of the quantum
    becomes the zero of its sign, in EVERY mode (also the modes that round away from zero) -/
theorem quantize_flush (dp : Int) (m : Mode) (n : Bool) (c : Nat) (e : Int) (hc : c ≠ 0)
    (h : ¬ IsMult (Val.fin n c e).toRat dp)
    (hlt : |(Val.fin n c e).toRat| < (10 : ℚ) ^ (-dp) / 10) :
    Spec.quantize dp m (.fin n c e) = .fin n 0 0 := by
  rw [Qz.quantize_val dp m n c e (Nat.pos_of_ne_zero hc),
    if_neg (mt (den_one_iff_isMult n c e dp).1 h), sc_eq n c e dp,
    if_pos ((lt_tenth_iff' _ dp).2 hlt)]

/-- the general case: not a multiple, at least a tenth of the quantum: the mode table selects the number
    `k` of quanta for `s = |X|/Q`, and the result is `k` quanta with the sign of x (`quanta_cases`) -/
theorem quantize_round (dp : Int) (m : Mode) (n : Bool) (c : Nat) (e : Int) (hc : c ≠ 0)
    (h : ¬ IsMult (Val.fin n c e).toRat dp)
    (hge : (10 : ℚ) ^ (-dp) / 10 ≤ |(Val.fin n c e).toRat|) :
    ∃ k : Nat, ModeSelects m n (|(Val.fin n c e).toRat| / (10 : ℚ) ^ (-dp)) k ∧
      Spec.quantize dp m (.fin n c e) = Spec.exactOrInfS n (k : ℚ) (-dp) := by
  have hs : 0 ≤ |(Val.fin n c e).toRat| / (10 : ℚ) ^ (-dp) := div_nonneg (abs_nonneg _) (Q_pos dp).le
  refine ⟨Spec.roundAt m n (|(Val.fin n c e).toRat| / (10 : ℚ) ^ (-dp)) 0,
    roundAt_modeSelects m n _ hs, ?_⟩
  rw [Qz.quantize_val dp m n c e (Nat.pos_of_ne_zero hc),
    if_neg (mt (den_one_iff_isMult n c e dp).1 h), sc_eq n c e dp,
    if_neg (by rw [lt_tenth_iff']; exact not_lt.2 hge), rndQ_eq_roundAt m n hs]

/-- the three cases are exhaustive: normal form of `quantize` on a non-zero finite value -/
theorem quantize_cases (dp : Int) (m : Mode) (n : Bool) (c : Nat) (e : Int) (hc : c ≠ 0) :
    (IsMult (Val.fin n c e).toRat dp ∧ Spec.quantize dp m (.fin n c e) = .fin n c e) ∨
    (¬ IsMult (Val.fin n c e).toRat dp ∧ |(Val.fin n c e).toRat| < (10 : ℚ) ^ (-dp) / 10 ∧
      Spec.quantize dp m (.fin n c e) = .fin n 0 0) ∨
    (¬ IsMult (Val.fin n c e).toRat dp ∧ (10 : ℚ) ^ (-dp) / 10 ≤ |(Val.fin n c e).toRat| ∧
      ∃ k : Nat, ModeSelects m n (|(Val.fin n c e).toRat| / (10 : ℚ) ^ (-dp)) k ∧
        Spec.quantize dp m (.fin n c e) = Spec.exactOrInfS n (k : ℚ) (-dp)) := by
  by_cases h : IsMult (Val.fin n c e).toRat dp
  · exact Or.inl ⟨h, quantize_of_mult dp m n c e hc h⟩
  · rcases lt_or_ge |(Val.fin n c e).toRat| ((10 : ℚ) ^ (-dp) / 10) with hlt | hge
    · exact Or.inr (Or.inl ⟨h, hlt, quantize_flush dp m n c e hc h hlt⟩)
    · exact Or.inr (Or.inr ⟨h, hge, quantize_round dp m n c e hc h hge⟩)

/-- a finite result denotes an integer multiple of the quantum, has the sign bit of x, and is less than
    one quantum away from x (all finite x, zero included) -/
theorem quantize_fin_result (dp : Int) (m : Mode) (n : Bool) (c : Nat) (e : Int)
    {n' : Bool} {c' : Nat} {e' : Int} (h : Spec.quantize dp m (.fin n c e) = .fin n' c' e') :
    n' = n ∧ IsMult (Val.fin n' c' e').toRat dp ∧
    |(Val.fin n' c' e').toRat - (Val.fin n c e).toRat| < (10 : ℚ) ^ (-dp) := by
  have hQ := Q_pos dp
  by_cases hc : c = 0
  · subst hc
    rw [quantize_zero'] at h
    injection h with h1 h2 h3
    subst h1 h2 h3
    refine ⟨rfl, ?_, ?_⟩
    · rw [(toRat_eq_zero_iff n 0 0).2 rfl]; exact isMult_zero dp
    · rw [(toRat_eq_zero_iff n 0 0).2 rfl, (toRat_eq_zero_iff n 0 e).2 rfl]; simpa using hQ
  · rcases quantize_cases dp m n c e hc with ⟨hm, hr⟩ | ⟨-, hlt, hr⟩ | ⟨-, hge, k, hk, hr⟩
    · rw [hr] at h; injection h with h1 h2 h3
      subst h1 h2 h3
      exact ⟨rfl, hm, by simpa using hQ⟩
    · rw [hr] at h; injection h with h1 h2 h3
      subst h1 h2 h3
      refine ⟨rfl, ?_, ?_⟩
      · rw [(toRat_eq_zero_iff n 0 0).2 rfl]; exact isMult_zero dp
      · rw [(toRat_eq_zero_iff n 0 0).2 rfl, zero_sub, abs_neg]; linarith
    · rw [hr] at h
      obtain ⟨h1, -, h3⟩ := quanta_fin h
      subst h1
      refine ⟨rfl, ?_, ?_⟩
      · rw [h3]
        cases n'
        · exact ⟨k, by simp⟩
        · exact ⟨-(k : Int), by simp⟩
      · have hs : 0 ≤ |(Val.fin n' c e).toRat| / (10 : ℚ) ^ (-dp) := div_nonneg (abs_nonneg _) hQ.le
        have hd := modeSelects_abs_sub_lt hs hk
        have hX : |(Val.fin n' c e).toRat| =
            |(Val.fin n' c e).toRat| / (10 : ℚ) ^ (-dp) * (10 : ℚ) ^ (-dp) := by field_simp
        rw [h3, toRat_eq_signed_abs n' c e]
        generalize |(Val.fin n' c e).toRat| / (10 : ℚ) ^ (-dp) = s at *
        rw [hX]
        have key : |(k : ℚ) * (10 : ℚ) ^ (-dp) - s * (10 : ℚ) ^ (-dp)| < (10 : ℚ) ^ (-dp) := by
          rw [← sub_mul, abs_mul, abs_of_pos hQ]
          calc |(k : ℚ) - s| * (10 : ℚ) ^ (-dp) < 1 * (10 : ℚ) ^ (-dp) := mul_lt_mul_of_pos_right hd hQ
            _ = (10 : ℚ) ^ (-dp) := one_mul _
        cases n'
        · simpa using key
        · simp only [if_true]
          rw [show -((k : ℚ) * (10 : ℚ) ^ (-dp)) - -(s * (10 : ℚ) ^ (-dp)) =
            -((k : ℚ) * (10 : ℚ) ^ (-dp) - s * (10 : ℚ) ^ (-dp)) by ring, abs_neg]
          exact key

/-- the result is never NaN, and an infinite result has the sign of x -/
theorem quantize_inf_result (dp : Int) (m : Mode) (n : Bool) (c : Nat) (e : Int) {n' : Bool}
    (h : Spec.quantize dp m (.fin n c e) = .inf n') : n' = n := by
  by_cases hc : c = 0
  · subst hc; rw [quantize_zero'] at h; cases h
  · rcases quantize_cases dp m n c e hc with ⟨-, hr⟩ | ⟨-, -, hr⟩ | ⟨-, -, k, -, hr⟩
    · rw [hr] at h; cases h
    · rw [hr] at h; cases h
    · rw [hr] at h
      rcases quanta_cases n k (-dp) with ⟨-, hq⟩ | ⟨-, -, hq⟩ | ⟨-, -, c', e', hq, -⟩
      · rw [hq] at h; cases h
      · rw [hq] at h; injection h with h1; exact h1.symm
      · rw [hq] at h; cases h

/-- when digits are dropped (`e + dp < 0`) the selected count is at most the coefficient -/
theorem count_le_coef {c : Nat} {e dp : Int} (hc : c ≠ 0) (hlt : e + dp < 0) {k : Nat}
    (hk : k ≤ ⌈Qz.sc c e dp⌉₊) : k ≤ c := by
  obtain ⟨K, hK⟩ : ∃ K : Nat, e + dp = -((K : Int) + 1) := ⟨(-(e + dp) - 1).toNat, by omega⟩
  have hsc : Qz.sc c e dp ≤ (c : ℚ) / 10 := by
    unfold Qz.sc
    rw [hK, zpow_neg, zpow_add₀ (by norm_num : (10 : ℚ) ≠ 0), zpow_natCast, zpow_one]
    have h1 : (1 : ℚ) ≤ (10 : ℚ) ^ K := one_le_pow₀ (by norm_num)
    have hcq : (0 : ℚ) ≤ (c : ℚ) := Nat.cast_nonneg _
    rw [mul_inv, ← mul_assoc, div_eq_mul_inv]
    apply mul_le_mul_of_nonneg_right _ (by norm_num)
    calc (c : ℚ) * ((10 : ℚ) ^ K)⁻¹ ≤ (c : ℚ) * 1 :=
          mul_le_mul_of_nonneg_left (inv_le_one_of_one_le₀ h1) hcq
      _ = (c : ℚ) := mul_one _
  have hce : ⌈Qz.sc c e dp⌉₊ ≤ c := by
    rw [Nat.ceil_le]
    have hc1 : (1 : ℚ) ≤ (c : ℚ) := by exact_mod_cast Nat.pos_of_ne_zero hc
    linarith
  omega

/-- a value that is not a multiple of the quantum has `e + dp < 0` -/
theorem lt_of_not_isMult {n : Bool} {c : Nat} {e dp : Int}
    (h : ¬ IsMult (Val.fin n c e).toRat dp) : e + dp < 0 := by
  by_contra hge
  exact h ((den_one_iff_isMult n c e dp).1 (Qz.sc_nonneg_exp c e dp (not_lt.1 hge)))

/-- x a member of the format (`c ≤ Cmax`, `Emin ≤ e`): the result is `±Inf` exactly in the rounding case
    when the selected multiple exceeds the largest finite magnitude -/
theorem quantize_member_inf_iff (dp : Int) (m : Mode) (n : Bool) (c : Nat) (e : Int) (hc : c ≠ 0)
    (hcm : c ≤ Spec.Cmax) (he : Spec.Emin ≤ e) :
    Spec.quantize dp m (.fin n c e) = .inf n ↔
      (¬ IsMult (Val.fin n c e).toRat dp ∧ (10 : ℚ) ^ (-dp) / 10 ≤ |(Val.fin n c e).toRat| ∧
        (Spec.Cmax : ℚ) * (10 : ℚ) ^ Spec.Emax <
          (Spec.roundAt m n (|(Val.fin n c e).toRat| / (10 : ℚ) ^ (-dp)) 0 : ℚ) * (10 : ℚ) ^ (-dp)) := by
  rcases quantize_cases dp m n c e hc with ⟨hm, hr⟩ | ⟨hm, hlt, hr⟩ | ⟨hm, hge, k, hk, hr⟩
  · rw [hr]
    constructor
    · intro h; cases h
    · rintro ⟨h1, -⟩; exact absurd hm h1
  · rw [hr]
    constructor
    · intro h; cases h
    · rintro ⟨-, h2, -⟩; exact absurd hlt (not_lt.2 h2)
  · have hs : 0 ≤ |(Val.fin n c e).toRat| / (10 : ℚ) ^ (-dp) :=
      div_nonneg (abs_nonneg _) (Q_pos dp).le
    have hk' := (modeSelects_iff m n hs k).1 hk
    rw [← hk', hr, quanta_inf_iff]
    have hlt := lt_of_not_isMult hm
    have hkc : k ≤ c := by
      apply count_le_coef hc hlt
      rw [sc_eq n c e dp]; exact (modeSelects_bounds hk).2
    rw [member_quanta_iff (le_trans hkc hcm) (by omega), not_le]
    exact ⟨fun h => ⟨hm, hge, h⟩, fun h => h.2.2⟩

example : Spec.quantize 0 .awayFromZero (.fin false 5 (-2)) = .fin false 0 0 := by decide +kernel
example : Spec.quantize 0 .awayFromZero (.fin false 1 (-1)) =
    .fin false 10000000000000000000000000000000000 (-34) := by decide +kernel
example : Spec.quantize 1 .nearestEven (.fin true 25 (-2)) =
    .fin true 2000000000000000000000000000000000 (-34) := by decide +kernel

end SpecMeaning
