/-
  D128/Proofs/SpecMeaningScale.lean — what `Spec.newVal`, `Spec.ldexp`, `Spec.frexp`, `Spec.truncInt`,
  `Spec.sat`, `Spec.fromInt` MEAN, on rationals.  Reuses `Props.C10.truncInt_is_floor`
  (D128/Props/C10.lean), `FrexpPf.spec_frexp_fin`, `FrexpPf.frexp_mag_bounds` (CanonFrexp.lean),
  `NL.flushS_exact` (NewLdexpSpec.lean), `SpecRound.flushOrRoundS_eq`.  Pure mathematics; no generated code.

  Provided (namespace `SpecMeaning`):
  * `newVal_eq`        : `newVal m sig exp = flushOrRound m (sig < 0) |sig·10^exp|` (all sig, also 0 ↦ +0)
  * `newVal_regimes`   : zero → +0; `0 < |sig·10^exp| < 10^(Emin-1)` → the zero of sig's sign;
                         otherwise `roundTo m (sig<0) |sig·10^exp|`
  * `newVal_member`    : `0 < |sig| ≤ Cmax`, `Emin ≤ exp ≤ Emax` → the result denotes `sig·10^exp` exactly
  * `ldexp_eq`         : finite x: `ldexp m x k = flushOrRound m x.neg (|X|·10^k)`; `ldexp_nan`, `ldexp_inf`
  * `ldexp_member`     : x·10^k representable with the same coefficient → exact
  * `frexp_fin`        : finite non-zero x: `frexp x = (f, r)` with `f = ±c·10^(−digits c)`, `r = e + digits c`
  * `frexp_exact`      : … `f.toRat · 10^r = X`, sign kept
  * `frexp_range`      : … `1/10 ≤ |f.toRat| < 1`
  * `frexp_zero`, `frexp_nan`, `frexp_inf` : zeros and specials unchanged, exponent 0
  * `ldexp_frexp`      : for a non-zero member x of the format, `ldexp m (frexp x)` denotes x again
  * `truncInt_eq_trunc`: `truncInt x = trunc X` (integer part toward zero, `SpecMeaning.trunc`)
  * `sat_nan`, `sat_inf`, `sat_fin` : `sat lo hi`: NaN → none (documented panic); ±Inf → the bound, not ok;
                         finite → `trunc X` clamped into `[lo, hi]`, ok exactly when no clamping
  * `sat_ok_iff`       : for `lo ≤ hi`: ok ↔ finite ∧ `lo ≤ trunc X ≤ hi`, and then the value is `trunc X`
  * `toRat_fromInt`    : `fromInt i` denotes `i` exactly (+0 for 0)
-/
import D128.Props.C10
import D128.Proofs.CanonFrexp
import D128.Proofs.NewLdexpSpec
import D128.Proofs.SpecMeaningQuoRem

set_option autoImplicit false

namespace SpecMeaning
open Spec SpecRound

/-! ## `Spec.newVal` -/

theorem natAbs_cast_abs (i : Int) : ((i.natAbs : Nat) : ℚ) = |(i : ℚ)| := by
  rw [Nat.cast_natAbs, Int.cast_abs]

/-- `New(sig, exp)`: `flushOrRound` of the exact magnitude `|sig·10^exp|` with the sign of `sig` -/
theorem newVal_eq (m : Mode) (sig exp : Int) :
    Spec.newVal m sig exp =
      Spec.flushOrRound m (decide (sig < 0)) |(sig : ℚ) * (10 : ℚ) ^ exp| := by
  have hp : (0 : ℚ) < (10 : ℚ) ^ exp := zpow_pos (by norm_num) _
  unfold Spec.newVal
  by_cases h : sig = 0
  · subst h; simp [flushOrRound_zero]
  · have h0 : (sig == 0) = false := by simpa using h
    simp only [h0, Bool.false_eq_true, if_false]
    rw [flushOrRoundS_eq m _ _ (Nat.cast_nonneg _) exp, abs_mul, abs_of_pos hp, natAbs_cast_abs]

theorem newVal_regimes (m : Mode) (sig exp : Int) :
    let r := |(sig : ℚ) * (10 : ℚ) ^ exp|
    (r = 0 → Spec.newVal m sig exp = .fin false 0 0) ∧
    (0 < r → r < (10 : ℚ) ^ (Spec.Emin - 1) →
      Spec.newVal m sig exp = .fin (decide (sig < 0)) 0 Spec.Emin) ∧
    ((10 : ℚ) ^ (Spec.Emin - 1) ≤ r →
      Spec.newVal m sig exp = Spec.roundTo m (decide (sig < 0)) r) := by
  intro r
  have hp : (0 : ℚ) < (10 : ℚ) ^ exp := zpow_pos (by norm_num) _
  refine ⟨fun h => ?_, fun h1 h2 => ?_, fun h => ?_⟩
  · have : sig = 0 := by
      have h' : (sig : ℚ) * (10 : ℚ) ^ exp = 0 := abs_eq_zero.1 h
      rcases mul_eq_zero.1 h' with h'' | h''
      · exact_mod_cast h''
      · exact absurd h'' hp.ne'
    subst this; simp [Spec.newVal]
  · rw [newVal_eq]; exact flushOrRound_tiny m _ h1 h2
  · rw [newVal_eq]; exact flushOrRound_eq_roundTo m _ h

/-- a significand that fits the coefficient with an exponent in range is returned exactly -/
theorem newVal_member (m : Mode) (sig exp : Int) (h0 : sig ≠ 0) (hc : sig.natAbs ≤ Spec.Cmax)
    (he1 : Spec.Emin ≤ exp) (he2 : exp ≤ Spec.Emax) :
    (Spec.newVal m sig exp).same (.fin (decide (sig < 0)) sig.natAbs exp) = true := by
  have h0' : (sig == 0) = false := by simpa using h0
  simp only [Spec.newVal, h0', Bool.false_eq_true, if_false]
  exact NL.flushS_exact m _ (Int.natAbs_pos.2 h0) hc he1 he2

example : Spec.newVal .nearestEven (-25) (-1) =
    .fin true 2500000000000000000000000000000000 (-33) := by decide +kernel
example : Spec.newVal .nearestEven 0 7 = .fin false 0 0 := by decide
example : Spec.newVal .nearestEven 1 (-6176) = .fin false 1 (-6176) := by decide +kernel
example : Spec.newVal .nearestEven (-1) (-6178) = .fin true 0 (-6176) := by decide +kernel

/-! ## `Spec.ldexp` -/

theorem ldexp_nan (m : Mode) (n : Bool) (p : UInt64) (k : Int) :
    Spec.ldexp m (.nan n p) k = .nan n p := rfl
theorem ldexp_inf (m : Mode) (n : Bool) (k : Int) : Spec.ldexp m (.inf n) k = .inf n := rfl

/-- `Ldexp(x, k)` on a finite x: `flushOrRound` of the exact magnitude `|x|·10^k`, sign of x kept
    (also on zero) -/
theorem ldexp_eq (m : Mode) (n : Bool) (c : Nat) (e k : Int) :
    Spec.ldexp m (.fin n c e) k =
      Spec.flushOrRound m n (|(Val.fin n c e).toRat| * (10 : ℚ) ^ k) := by
  rw [abs_toRat_fin]
  unfold Spec.ldexp
  by_cases h : c = 0
  · subst h; simp [flushOrRound_zero]
  · have h0 : (c == 0) = false := by simpa using h
    simp only [h0, Bool.false_eq_true, if_false]
    rw [flushOrRoundS_eq m _ _ (Nat.cast_nonneg _) _, zpow_add₀ (by norm_num : (10 : ℚ) ≠ 0), mul_assoc]

theorem ldexp_regimes (m : Mode) (n : Bool) (c : Nat) (e k : Int) :
    let r := |(Val.fin n c e).toRat| * (10 : ℚ) ^ k
    (r = 0 → Spec.ldexp m (.fin n c e) k = .fin n 0 0) ∧
    (0 < r → r < (10 : ℚ) ^ (Spec.Emin - 1) → Spec.ldexp m (.fin n c e) k = .fin n 0 Spec.Emin) ∧
    ((10 : ℚ) ^ (Spec.Emin - 1) ≤ r → Spec.ldexp m (.fin n c e) k = Spec.roundTo m n r) := by
  intro r
  rw [ldexp_eq]
  refine ⟨fun h => ?_, fun h1 h2 => ?_, fun h => ?_⟩
  · show Spec.flushOrRound m n r = _
    rw [h, flushOrRound_zero]
  · exact flushOrRound_tiny m _ h1 h2
  · exact flushOrRound_eq_roundTo m _ h

/-- when the shifted exponent stays in range the result denotes `x·10^k` exactly -/
theorem ldexp_member (m : Mode) (n : Bool) (c : Nat) (e k : Int) (hc0 : c ≠ 0) (hc : c ≤ Spec.Cmax)
    (he1 : Spec.Emin ≤ e + k) (he2 : e + k ≤ Spec.Emax) :
    (Spec.ldexp m (.fin n c e) k).same (.fin n c (e + k)) = true := by
  have h0 : (c == 0) = false := by simpa using hc0
  simp only [Spec.ldexp, h0, Bool.false_eq_true, if_false]
  exact NL.flushS_exact m n (Nat.pos_of_ne_zero hc0) hc he1 he2

example : Spec.ldexp .nearestEven (.fin true 0 3) 100 = .fin true 0 0 := by decide
example : Spec.ldexp .nearestEven (.fin false 10 0) (-6177) = .fin false 1 (-6176) := by decide +kernel

/-! ## `Spec.frexp` -/

theorem frexp_nan (n : Bool) (p : UInt64) : Spec.frexp (.nan n p) = (.nan n p, 0) := rfl
theorem frexp_inf (n : Bool) : Spec.frexp (.inf n) = (.inf n, 0) := rfl
theorem frexp_zero (n : Bool) (e : Int) : Spec.frexp (.fin n 0 e) = (.fin n 0 e, 0) := rfl

/-- finite non-zero x = ±c·10^e: the fraction is `±c·10^(−d)`, the exponent `e + d`, `d` the number of
    decimal digits of c -/
theorem frexp_fin (n : Bool) (c : Nat) (e : Int) (hc : c ≠ 0) :
    Spec.frexp (.fin n c e) =
      (.fin n c (-(Spec.ndigits c : Int)), e + (Spec.ndigits c : Int)) := by
  have h0 : (c == 0) = false := by simpa using hc
  simp only [Spec.frexp, h0, Bool.false_eq_true, if_false]
  refine Prod.ext ?_ rfl
  dsimp only
  congr 1
  omega

/-- `frac × 10^exp = x` exactly -/
theorem frexp_exact (n : Bool) (c : Nat) (e : Int) (hc : c ≠ 0) :
    (Spec.frexp (.fin n c e)).1.toRat * (10 : ℚ) ^ (Spec.frexp (.fin n c e)).2 = (Val.fin n c e).toRat := by
  rw [frexp_fin n c e hc]
  dsimp only
  rw [toRat_fin', toRat_fin']
  have : (c : ℚ) * (10 : ℚ) ^ (-(Spec.ndigits c : Int)) * (10 : ℚ) ^ (e + (Spec.ndigits c : Int)) =
      (c : ℚ) * (10 : ℚ) ^ e := by
    rw [mul_assoc, ← zpow_add₀ (by norm_num : (10 : ℚ) ≠ 0)]
    congr 2; omega
  cases n
  · simpa using this
  · simp only [if_true, neg_mul, this]

/-- `0.1 ≤ |frac| < 1` -/
theorem frexp_range (n : Bool) (c : Nat) (e : Int) (hc : c ≠ 0) :
    1 / 10 ≤ |(Spec.frexp (.fin n c e)).1.toRat| ∧ |(Spec.frexp (.fin n c e)).1.toRat| < 1 := by
  rw [frexp_fin n c e hc]
  dsimp only
  rw [abs_toRat_fin]
  have h := FrexpPf.frexp_mag_bounds c hc
  rw [Spec.mag, pow10_eq_zpow] at h
  have hd : -(Spec.ndigits c : Int) = -(Nat.log 10 c : Int) - 1 := by
    rw [FrexpPf.ndigits_eq c hc]; push_cast; omega
  rw [hd]; exact h

theorem frexp_sign (n : Bool) (c : Nat) (e : Int) : (Spec.frexp (.fin n c e)).1.neg = n := by
  by_cases hc : c = 0
  · subst hc; rfl
  · rw [frexp_fin n c e hc]; rfl

/-- for a non-zero member of the format, `Ldexp(Frexp(x))` denotes x again (every mode) -/
theorem ldexp_frexp (m : Mode) (n : Bool) (c : Nat) (e : Int) (hc0 : c ≠ 0) (hc : c ≤ Spec.Cmax)
    (he1 : Spec.Emin ≤ e) (he2 : e ≤ Spec.Emax) :
    (Spec.ldexp m (Spec.frexp (.fin n c e)).1 (Spec.frexp (.fin n c e)).2).same (.fin n c e) = true := by
  rw [frexp_fin n c e hc0]
  dsimp only
  have := ldexp_member m n c (-(Spec.ndigits c : Int)) (e + (Spec.ndigits c : Int)) hc0 hc
    (by omega) (by omega)
  have h2 : -(Spec.ndigits c : Int) + (e + (Spec.ndigits c : Int)) = e := by omega
  rw [h2] at this
  exact this

example : Spec.frexp (.fin true 1234 5) = (.fin true 1234 (-4), 9) := by decide +kernel

/-! ## `Spec.truncInt`, `Spec.sat`, `Spec.fromInt` -/

/-- the integer part toward zero of the denoted rational (from `Props.C10.truncInt_is_floor`) -/
theorem truncInt_eq_trunc (n : Bool) (c : Nat) (e : Int) :
    Spec.truncInt (.fin n c e) = trunc (Val.fin n c e).toRat := by
  rw [Props.C10.truncInt_is_floor]
  have hm : 0 ≤ Spec.mag c e := by rw [Spec.mag, pow10_eq_zpow]; exact mag_nonneg c e
  cases n
  · simp only [Bool.false_eq_true, if_false, Val.toRat]
    rw [trunc_of_nonneg hm]
  · simp only [if_true, Val.toRat]
    rw [trunc_neg, trunc_of_nonneg hm]

theorem sat_nan (lo hi : Int) (n : Bool) (p : UInt64) : Spec.sat lo hi (.nan n p) = none := rfl

theorem sat_inf (lo hi : Int) (n : Bool) :
    Spec.sat lo hi (.inf n) = some (if n then lo else hi, false) := rfl

/-- finite x: the integer part toward zero, clamped into `[lo, hi]`; ok exactly when nothing was clamped -/
theorem sat_fin (lo hi : Int) (n : Bool) (c : Nat) (e : Int) :
    Spec.sat lo hi (.fin n c e) =
      if trunc (Val.fin n c e).toRat < lo then some (lo, false)
      else if trunc (Val.fin n c e).toRat > hi then some (hi, false)
      else some (trunc (Val.fin n c e).toRat, true) := by
  simp only [Spec.sat, truncInt_eq_trunc]

/-- for a non-empty target range: ok ↔ x is finite and its integer part fits, and then the returned
    integer is that integer part -/
theorem sat_ok_iff (lo hi : Int) (x : Val) (t : Int) :
    Spec.sat lo hi x = some (t, true) ↔
      (x.isFin = true ∧ t = trunc x.toRat ∧ lo ≤ t ∧ t ≤ hi) := by
  cases x with
  | nan n p => simp [sat_nan, Val.isFin]
  | inf n => simp [sat_inf, Val.isFin]
  | fin n c e =>
    rw [sat_fin]
    generalize trunc (Val.fin n c e).toRat = T
    simp only [Val.isFin, true_and]
    split_ifs with h1 h2
    · simp only [Option.some.injEq, Prod.mk.injEq, Bool.false_eq_true, and_false, false_iff]
      rintro ⟨rfl, h3, -⟩; omega
    · simp only [Option.some.injEq, Prod.mk.injEq, Bool.false_eq_true, and_false, false_iff]
      rintro ⟨rfl, -, h3⟩; omega
    · simp only [Option.some.injEq, Prod.mk.injEq, and_true]
      constructor
      · rintro rfl; exact ⟨rfl, by omega, by omega⟩
      · rintro ⟨rfl, -, -⟩; rfl

/-- a failed conversion returns the nearer bound -/
theorem sat_not_ok (lo hi : Int) (n : Bool) (c : Nat) (e : Int) (t : Int)
    (h : Spec.sat lo hi (.fin n c e) = some (t, false)) :
    (trunc (Val.fin n c e).toRat < lo ∧ t = lo) ∨
    (lo ≤ trunc (Val.fin n c e).toRat ∧ hi < trunc (Val.fin n c e).toRat ∧ t = hi) := by
  rw [sat_fin] at h
  split_ifs at h with h1 h2
  · left; simp only [Option.some.injEq, Prod.mk.injEq, and_true] at h; exact ⟨h1, h.symm⟩
  · right; simp only [Option.some.injEq, Prod.mk.injEq, and_true] at h; exact ⟨by omega, h2, h.symm⟩
  · simp at h

/-- `fromInt i` denotes `i` exactly -/
theorem toRat_fromInt (i : Int) : (Spec.fromInt i).toRat = (i : ℚ) := by
  unfold Spec.fromInt
  by_cases h : i = 0
  · subst h; simp [Val.toRat, Spec.mag]
  · have h0 : (i == 0) = false := by simpa using h
    simp only [h0, Bool.false_eq_true, if_false]
    rw [toRat_fin', zpow_zero, mul_one, natAbs_cast_abs]
    by_cases hn : i < 0
    · have : (i : ℚ) < 0 := by exact_mod_cast hn
      simp [hn, abs_of_neg this]
    · have : (0 : ℚ) ≤ (i : ℚ) := by exact_mod_cast (not_lt.1 hn)
      simp [hn, abs_of_nonneg this]

example : Spec.sat (-128) 127 (.fin true 1285 (-1)) = some (-128, true) := by decide +kernel
example : Spec.sat 0 255 (.fin true 5 (-1)) = some (0, true) := by decide +kernel
example : Spec.sat 0 255 (.fin true 15 (-1)) = some (0, false) := by decide +kernel

end SpecMeaning
