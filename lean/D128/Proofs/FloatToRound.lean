/-
  D128/Proofs/FloatToRound.lean — what `result neg w E = ±math.Ldexp(float64(w), E)` (the last step of
  `Gen.Decimal.Float64`) is, given that `(w, E)` approximates the exact value `v` from below
  (`F2.NearBelow`, see FloatToMain.lean).  Uses the characterisation of `Go.roundDyadic` in
  `FloatSpec.lean` / `FloatSpecRound.lean` (monotone, exact on representable values, overflow threshold).

  Provided (namespace `F2`):
  * `copysign_neg_ofParts`, `signed_ofParts`, `zeroRes_eq`, `infRes_eq` : `Copysign(·, -1.0)`, `±0 = ofParts neg 0`,
       `±Inf = ofParts neg (2047·2^52)`
  * `rne11 w` (= `w` rounded to a multiple of `2^11`, nearest-even), `rne11_spec`, `rne11_ge`, `rdQ_word`,
    `ofUInt64_word` : `float64(w)` for `2^63 ≤ w` is positive, finite, non-zero, of magnitude `rne11 w`
  * `result_eq`     : `result neg w E = F64.ofParts neg (roundDyadic fmt64 m e)` with `m·2^e = rne11 w · 2^E`
                      (first rounding to 53 bits, second rounding by `Ldexp`)
  * `F64_fin_form`, `F64_fin_rest`, `grid11`, `F64_ofParts_self` : structure of finite float64 values
  * `sandwich_dyadic`, `sandwich` : every 53-bit dyadic (every float64) `≤ v` is `≤ rne11 w·2^E`, every one `≥ v` is `≥`
  * `result_adjacent`  : sign, not NaN; finite ⇒ `|r|` lies between all float64 `≤ v` and all float64 `≥ v`;
                         not finite ⇒ `±Inf` and `v` exceeds every finite float64
  * `result_overflow`  : `2^1024 ≤ v` ⇒ `±Inf`;   `result_underflow` : `v ≤ 2^-1075` ⇒ `±0`
  * `near_float_grid`, `result_roundtrip` : `|v - f.mag| ≤ 2^-100·f.mag` for a finite float64 `f` ⇒ `result f.sign w E = f`
-/
import D128.Proofs.FloatToMain
import D128.Proofs.FloatSpecRound

set_option autoImplicit false
set_option maxRecDepth 8192
set_option linter.unusedVariables false

namespace F2
open Gen Go

/-! ## bit level: `Copysign(·, -1.0)`, `±0`, `±Inf` -/

theorem copysign_neg_ofParts (sgn : Bool) (R : ℕ) (h : R < 2 ^ 63) :
    Go.math.Copysign (F64.ofParts sgn R) { bits := 13830554455654793216 } = F64.ofParts true R := by
  unfold Go.math.Copysign
  have h1 : ((F64.ofParts sgn R).bits &&& 0x7fff_ffff_ffff_ffff) = UInt64.ofNat R := by
    apply UInt64.toNat_inj.mp
    rw [Enc.and_lo63, F64.ofParts_rest sgn R h, UInt64.toNat_ofNat']
    omega
  have h2 : ((13830554455654793216 : UInt64) &&& 0x8000_0000_0000_0000) = 0x8000_0000_0000_0000 := by
    decide
  rw [h1, h2]
  simp only [F64.ofParts, if_true]
  congr 1
  exact UInt64.or_comm _ _

theorem signed_ofParts (neg : Bool) (R : ℕ) (h : R < 2 ^ 63) :
    signed neg (F64.ofParts false R) = F64.ofParts neg R := by
  unfold signed
  cases neg
  · simp
  · simp only [if_true]; exact copysign_neg_ofParts false R h

theorem zeroRes_eq (neg : Bool) : zeroRes neg = F64.ofParts neg 0 := by
  have : ({ bits := 0 } : F64) = F64.ofParts false 0 := by
    unfold F64.ofParts; simp
  rw [zeroRes, this, signed_ofParts neg 0 (by norm_num)]

theorem infRes_eq (neg : Bool) : infRes neg = F64.ofParts neg (2047 * 2 ^ 52) := by
  cases neg <;> rfl

/-! ## the first rounding: `float64(w)` for a normalised word -/

theorem rdQ_word (w : ℕ) (h63 : 2 ^ 63 ≤ w) (h64 : w < 2 ^ 64) : rdQ fmt64 w 0 = 11 := by
  have hl : Nat.log2 w = 63 := (Nat.log2_eq_iff (by omega)).mpr ⟨h63, h64⟩
  rw [rdQ, hl, fmt64_mb, fmt64_qmin]; norm_num

/-- `w` rounded to a multiple of `2^11`, nearest-even -/
def rne11 (w : ℕ) : ℕ := rneShift w 11 * 2 ^ 11

theorem rne11_spec (w : ℕ) : 2 ^ 11 ∣ rne11 w ∧ w ≤ rne11 w + 2 ^ 10 ∧ rne11 w ≤ w + 2 ^ 10 := by
  unfold rne11 rneShift
  refine ⟨Nat.dvd_mul_left _ _, ?_, ?_⟩ <;> split <;> omega

/-- `float64(w)` for `2^63 ≤ w`: positive, finite, non-zero, with magnitude `rne11 w` -/
theorem ofUInt64_word (w : UInt64) (h63 : 2 ^ 63 ≤ w.toNat) :
    (F64.ofUInt64 w).sign = false ∧
    ((F64.ofUInt64 w).isZero || (F64.ofUInt64 w).isInf || (F64.ofUInt64 w).isNaN) = false ∧
    (F64.ofUInt64 w).mag = (rne11 w.toNat : ℚ) := by
  have hw0 : w.toNat ≠ 0 := by omega
  have hfin := F64.ofUInt64_isFinite w
  have hlt : roundDyadic fmt64 w.toNat 0 < fmt64.infBits := by
    rw [F64.ofUInt64, F64.ofParts_isFinite _ _ (roundDyadic_lt_two_pow_63 _ _), decide_eq_true_eq] at hfin
    exact hfin
  have hq := rdQ_word w.toNat h63 w.toNat_lt
  have hmag : (F64.ofUInt64 w).mag = (rne11 w.toNat : ℚ) := by
    rw [F64.ofUInt64, F64.ofRound_mag, roundDyadic_eq_rdU fmt64 (by decide) _ _ hlt,
      decode_rdU fmt64 _ _ hw0, hq, rdM, hq, if_neg (by norm_num)]
    simp only [rne11]
    push_cast
    norm_num
  have hpos : (0 : ℚ) < (F64.ofUInt64 w).mag := by
    rw [hmag]
    have := rne11_spec w.toNat
    have : 0 < rne11 w.toNat := by omega
    exact_mod_cast this
  refine ⟨F64.ofUInt64_sign w, ?_, hmag⟩
  have hnan := F64.ofUInt64_isNaN w
  have hinf : (F64.ofUInt64 w).isInf = false := by
    rw [F64.isFinite_eq] at hfin
    cases h : (F64.ofUInt64 w).isInf <;> simp [h, hnan] at hfin ⊢
  have hz : (F64.ofUInt64 w).isZero = false := by
    rw [F64.ofUInt64, F64.ofParts_isZero _ _ (roundDyadic_lt_two_pow_63 _ _)]
    simp only [decide_eq_false_iff_not]
    intro h0
    rw [F64.ofUInt64, F64.ofRound_mag, h0, fmt64.decode_zero] at hpos
    exact lt_irrefl _ hpos
  rw [hz, hinf, hnan]; rfl

/-! ## normal form of `result` -/

/-- `result neg w E` is the sign `neg` attached to the nearest-even rounding of the dyadic
    `rne11 w · 2^E` (the 53-bit rounding of `w`, scaled) -/
theorem result_eq (neg : Bool) (w : UInt64) (E : Int16) (h63 : 2 ^ 63 ≤ w.toNat) :
    ∃ (m : ℕ) (e : ℤ), (m : ℚ) * 2 ^ e = (rne11 w.toNat : ℚ) * 2 ^ E.toInt ∧
      result neg w E = F64.ofParts neg (roundDyadic fmt64 m e) := by
  obtain ⟨hs, hsp, hmag⟩ := ofUInt64_word w h63
  refine ⟨(F64.ofUInt64 w).dyadic.1, (F64.ofUInt64 w).dyadic.2 + E.toInt, ?_, ?_⟩
  · rw [F64.mag_mul_two_zpow, hmag]
  · rw [result, math.Ldexp_eq _ _ hsp, hs, i16_conv_i64,
      signed_ofParts neg _ (roundDyadic_lt_two_pow_63 _ _)]

/-! ## the float64 grid -/

/-- a finite float64 is `m·2^e` with `m < 2^53`, `-1074 ≤ e ≤ 971` -/
theorem F64_fin_form (y : F64) (hy : y.isFinite = true) :
    ∃ (m : ℕ) (e : ℤ), m < 2 ^ 53 ∧ -1074 ≤ e ∧ e ≤ 971 ∧ y.mag = (m : ℚ) * 2 ^ e ∧
      (y.isZero = false → 1 ≤ m) := by
  have hE := y.expField_lt
  have hM := y.mantField_lt
  have hne : y.expField ≠ 2047 := by simpa [F64.isFinite] using hy
  by_cases h0 : y.expField = 0
  · refine ⟨y.mantField, -1074, by omega, by omega, by omega, ?_, ?_⟩
    · simp [F64.mag, F64.dyadic, h0]
    · intro hz
      have : y.mantField ≠ 0 := by simpa [F64.isZero, h0] using hz
      omega
  · refine ⟨2 ^ 52 + y.mantField, (y.expField : ℤ) - 1075, by omega, by omega, by omega, ?_, fun _ => by omega⟩
    simp [F64.mag, F64.dyadic, h0]

/-- the low 63 bits of a finite float64 are a finite pattern that decodes to its magnitude and is
    reproduced by rounding its own dyadic value -/
theorem F64_fin_rest (y : F64) (hy : y.isFinite = true) :
    y.bits.toNat % 2 ^ 63 < fmt64.infBits ∧ fmt64.decode (y.bits.toNat % 2 ^ 63) = y.mag ∧
    ∀ (m : ℕ) (e : ℤ), y.mag = (m : ℚ) * 2 ^ e → roundDyadic fmt64 m e = y.bits.toNat % 2 ^ 63 := by
  have hlt : y.bits.toNat % 2 ^ 63 < fmt64.infBits := by
    rw [F64.isFinite, F64.expField_eq'] at hy
    rw [fmt64_infBits]
    simp only [bne_iff_ne, ne_eq] at hy
    have := y.bits.toNat_lt
    omega
  refine ⟨hlt, (F64.mag_eq_decode y).symm, fun m e hme => ?_⟩
  exact roundDyadic_exact fmt64 (by decide) m e _ hlt (by rw [← F64.mag_eq_decode, hme])

/-- floats at or above `2^63·2^E` are multiples of `2^11·2^E` -/
theorem grid11 (m : ℕ) (e E : ℤ) (hm : m < 2 ^ 53) (h : (2 : ℚ) ^ 63 * 2 ^ E ≤ (m : ℚ) * 2 ^ e) :
    ∃ j : ℕ, (m : ℚ) * 2 ^ e = ((j * 2 ^ 11 : ℕ) : ℚ) * 2 ^ E := by
  have hE : E + 11 ≤ e := by
    by_contra hc
    have h1 : (2 : ℚ) ^ e ≤ 2 ^ (E + 10) := zpow_le_zpow_right₀ (by norm_num) (by omega)
    have h2 : (m : ℚ) < 2 ^ 53 := by exact_mod_cast hm
    have h3 : (m : ℚ) * 2 ^ e < 2 ^ 53 * 2 ^ (E + 10) :=
      mul_lt_mul_of_pos_of_nonneg' h2 h1 (zpow_pos (by norm_num) _) (by positivity)
    have h4 : (2 : ℚ) ^ 53 * 2 ^ (E + 10) = 2 ^ 63 * 2 ^ E := by
      rw [zpow_add₀ (by norm_num)]; norm_num; ring
    linarith
  obtain ⟨k, hk⟩ : ∃ k : ℕ, e = E + 11 + k := ⟨(e - E - 11).toNat, by omega⟩
  refine ⟨m * 2 ^ k, ?_⟩
  rw [hk, zpow_add₀ (by norm_num), zpow_add₀ (by norm_num), zpow_natCast]
  push_cast
  ring

/-! ## the 53-bit rounding of `w` stays between the float64 neighbours of `v` -/

theorem rne11_ge (w : ℕ) (h63 : 2 ^ 63 ≤ w) : 2 ^ 63 ≤ rne11 w := by
  obtain ⟨⟨t, ht⟩, h1, h2⟩ := rne11_spec w
  omega

/-- every 53-bit dyadic `m·2^e ≤ v` is `≤ rne11 w · 2^E`, and every 53-bit dyadic `≥ v` is `≥ rne11 w · 2^E` -/
theorem sandwich_dyadic (v : ℚ) (w : ℕ) (E : ℤ) (h : NearBelow v w E) (m : ℕ) (e : ℤ) (hm : m < 2 ^ 53) :
    ((m : ℚ) * 2 ^ e ≤ v → (m : ℚ) * 2 ^ e ≤ (rne11 w : ℚ) * 2 ^ E) ∧
    (v ≤ (m : ℚ) * 2 ^ e → (rne11 w : ℚ) * 2 ^ E ≤ (m : ℚ) * 2 ^ e) := by
  obtain ⟨h63, h64, hlow, hup⟩ := h
  have hE : (0 : ℚ) < 2 ^ E := zpow_pos (by norm_num) _
  obtain ⟨⟨t, ht⟩, hW1, hW2⟩ := rne11_spec w
  have hW63 := rne11_ge w h63
  constructor
  · intro hyv
    by_cases hc : (2 : ℚ) ^ 63 * 2 ^ E ≤ (m : ℚ) * 2 ^ e
    · obtain ⟨j, hj⟩ := grid11 m e E hm hc
      rw [hj] at hyv ⊢
      apply mul_le_mul_of_nonneg_right _ hE.le
      -- j·2^11 ≤ w + 1
      have hjw : j * 2 ^ 11 ≤ w + 1 := by
        by_contra hcon
        have hge : (w : ℚ) + 2 ≤ ((j * 2 ^ 11 : ℕ) : ℚ) := by
          have : w + 2 ≤ j * 2 ^ 11 := by omega
          exact_mod_cast this
        have h1 : ((j * 2 ^ 11 : ℕ) : ℚ) * 2 ^ E * (1 - 1 / 2 ^ 111) < ((w : ℚ) + 1) * 2 ^ E := by
          have : ((j * 2 ^ 11 : ℕ) : ℚ) * 2 ^ E * (1 - 1 / 2 ^ 111) ≤ v * (1 - 1 / 2 ^ 111) :=
            mul_le_mul_of_nonneg_right hyv (by norm_num)
          linarith
        have h2 : ((j * 2 ^ 11 : ℕ) : ℚ) * (1 - 1 / 2 ^ 111) < (w : ℚ) + 1 := by
          have e1 : ((j * 2 ^ 11 : ℕ) : ℚ) * 2 ^ E * (1 - 1 / 2 ^ 111)
              = ((j * 2 ^ 11 : ℕ) : ℚ) * (1 - 1 / 2 ^ 111) * 2 ^ E := by ring
          rw [e1] at h1
          exact lt_of_mul_lt_mul_right h1 hE.le
        have h3 : ((w : ℚ) + 2) * (1 - 1 / 2 ^ 111) ≤ ((j * 2 ^ 11 : ℕ) : ℚ) * (1 - 1 / 2 ^ 111) :=
          mul_le_mul_of_nonneg_right hge (by norm_num)
        have h4 : (w : ℚ) < 2 ^ 64 := by exact_mod_cast h64
        nlinarith
      have : j * 2 ^ 11 ≤ rne11 w := by omega
      exact_mod_cast this
    · have : (2 : ℚ) ^ 63 ≤ (rne11 w : ℚ) := by exact_mod_cast hW63
      have := mul_le_mul_of_nonneg_right this hE.le
      linarith
  · intro hvy
    have hwq : (2 : ℚ) ^ 63 ≤ (w : ℚ) := by exact_mod_cast h63
    have hc : (2 : ℚ) ^ 63 * 2 ^ E ≤ (m : ℚ) * 2 ^ e := by
      have := mul_le_mul_of_nonneg_right hwq hE.le
      linarith
    obtain ⟨j, hj⟩ := grid11 m e E hm hc
    rw [hj] at hvy ⊢
    apply mul_le_mul_of_nonneg_right _ hE.le
    have hwj : w ≤ j * 2 ^ 11 := by
      have h1 : (w : ℚ) * 2 ^ E ≤ ((j * 2 ^ 11 : ℕ) : ℚ) * 2 ^ E := by linarith
      have := le_of_mul_le_mul_right h1 hE
      exact_mod_cast this
    have : rne11 w ≤ j * 2 ^ 11 := by omega
    exact_mod_cast this

/-- every float64 `≤ v` is `≤ rne11 w · 2^E`, and every float64 `≥ v` is `≥ rne11 w · 2^E` -/
theorem sandwich (v : ℚ) (w : ℕ) (E : ℤ) (h : NearBelow v w E) :
    (∀ y : F64, y.isFinite = true → y.mag ≤ v → y.mag ≤ (rne11 w : ℚ) * 2 ^ E) ∧
    (∀ y : F64, y.isFinite = true → v ≤ y.mag → (rne11 w : ℚ) * 2 ^ E ≤ y.mag) := by
  constructor
  · intro y hy hyv
    obtain ⟨m, e, hm, -, -, hmag, -⟩ := F64_fin_form y hy
    rw [hmag] at hyv ⊢
    exact (sandwich_dyadic v w E h m e hm).1 hyv
  · intro y hy hvy
    obtain ⟨m, e, hm, -, -, hmag, -⟩ := F64_fin_form y hy
    rw [hmag] at hvy ⊢
    exact (sandwich_dyadic v w E h m e hm).2 hvy

/-! ## the result is adjacent to the exact value -/

/-- **Adjacency of the main path.**  If `(w, E)` approximates `v` from below (`NearBelow`), then
    `r = result neg w E = ±Ldexp(float64(w), E)` has sign `neg`, is not NaN, and
    * if `r` is finite, every float64 magnitude `≤ v` is `≤ |r|` and every float64 magnitude `≥ v` is `≥ |r|`
      (so `|r|` is the largest float64 `≤ v` or the smallest float64 `≥ v`, and `|r| = v` when `v` is
      representable);
    * if `r` is not finite it is `±Inf`, and `v` exceeds every finite float64 magnitude.
    Both roundings (`float64(w)` to 53 bits, `Ldexp` into the subnormal range) are covered. -/
theorem result_adjacent (neg : Bool) (w : UInt64) (E : Int16) (v : ℚ)
    (h : NearBelow v w.toNat E.toInt) :
    (result neg w E).sign = neg ∧ (result neg w E).isNaN = false ∧
    ((result neg w E).isFinite = true →
      (∀ y : F64, y.isFinite = true → y.mag ≤ v → y.mag ≤ (result neg w E).mag) ∧
      (∀ y : F64, y.isFinite = true → v ≤ y.mag → (result neg w E).mag ≤ y.mag)) ∧
    ((result neg w E).isFinite = false →
      (result neg w E).isInf = true ∧ ∀ y : F64, y.isFinite = true → y.mag < v) := by
  obtain ⟨m, e, hme, hres⟩ := result_eq neg w E h.1
  obtain ⟨hlo, hhi⟩ := sandwich v w.toNat E.toInt h
  rw [hres]
  have hR63 := roundDyadic_lt_two_pow_63 m e
  have hRle := roundDyadic_le_infBits fmt64 (by decide) m e
  have hmag := F64.ofRound_mag neg m e
  -- comparison of an arbitrary finite float with the rounded pattern
  have cmp_le : ∀ y : F64, y.isFinite = true → y.mag ≤ v → y.bits.toNat % 2 ^ 63 ≤ roundDyadic fmt64 m e := by
    intro y hy hyv
    obtain ⟨m', e', _, _, _, hmag', _⟩ := F64_fin_form y hy
    obtain ⟨_, _, hrt⟩ := F64_fin_rest y hy
    rw [← hrt m' e' hmag']
    apply roundDyadic64_mono
    rw [← hmag', hme]; exact hlo y hy hyv
  have cmp_ge : ∀ y : F64, y.isFinite = true → v ≤ y.mag → roundDyadic fmt64 m e ≤ y.bits.toNat % 2 ^ 63 := by
    intro y hy hvy
    obtain ⟨m', e', _, _, _, hmag', _⟩ := F64_fin_form y hy
    obtain ⟨_, _, hrt⟩ := F64_fin_rest y hy
    rw [← hrt m' e' hmag']
    apply roundDyadic64_mono
    rw [← hmag', hme]; exact hhi y hy hvy
  refine ⟨F64.ofRound_sign _ _ _, F64.ofRound_isNaN _ _ _, fun hfin => ⟨fun y hy hyv => ?_, fun y hy hvy => ?_⟩,
    fun hnf => ?_⟩
  · rw [hmag, ← (F64_fin_rest y hy).2.1]
    exact fmt64.decode_strictMono.monotone (cmp_le y hy hyv)
  · rw [hmag, ← (F64_fin_rest y hy).2.1]
    exact fmt64.decode_strictMono.monotone (cmp_ge y hy hvy)
  · rw [F64.ofParts_isFinite _ _ hR63, decide_eq_false_iff_not] at hnf
    have hR : roundDyadic fmt64 m e = fmt64.infBits := by omega
    refine ⟨by rw [F64.ofParts_isInf _ _ hR63, hR]; simp, fun y hy => ?_⟩
    by_contra hc
    have := cmp_ge y hy (not_lt.mp hc)
    have := (F64_fin_rest y hy).1
    omega

/-! ## the two ends of the range -/

/-- at or above `2^1024` the main path returns `±Inf` -/
theorem result_overflow (neg : Bool) (w : UInt64) (E : Int16) (v : ℚ)
    (h : NearBelow v w.toNat E.toInt) (hv : (2 : ℚ) ^ (1024 : ℤ) ≤ v) : result neg w E = infRes neg := by
  obtain ⟨m, e, hme, hres⟩ := result_eq neg w E h.1
  have h1 := (sandwich_dyadic v _ _ h 1 1024 (by norm_num)).1 (by rw [Nat.cast_one, one_mul]; exact hv)
  rw [Nat.cast_one, one_mul] at h1
  have hR : roundDyadic fmt64 m e = 2047 * 2 ^ 52 := by
    rw [roundDyadic64_overflow_iff, hme]
    have e1 : (2 : ℚ) ^ (1024 : ℤ) = 2 ^ 53 * 2 ^ (971 : ℤ) := by
      rw [show (1024 : ℤ) = 53 + 971 by norm_num, zpow_add₀ (by norm_num)]
      congr 1
    have hT : (0 : ℚ) < 2 ^ (971 : ℤ) := zpow_pos (by norm_num) _
    have : ((2 : ℚ) ^ 53 - 1 / 2) * 2 ^ (971 : ℤ) ≤ 2 ^ (1024 : ℤ) := by
      rw [e1]; exact mul_le_mul_of_nonneg_right (by norm_num) hT.le
    exact le_trans this h1
  rw [hres, hR, infRes_eq]

/-- at or below `2^-1075` (half the smallest subnormal) the main path returns `±0` -/
theorem result_underflow (neg : Bool) (w : UInt64) (E : Int16) (v : ℚ)
    (h : NearBelow v w.toNat E.toInt) (hv : v ≤ (2 : ℚ) ^ (-1075 : ℤ)) : result neg w E = zeroRes neg := by
  obtain ⟨m, e, hme, hres⟩ := result_eq neg w E h.1
  have h1 := (sandwich_dyadic v _ _ h 1 (-1075) (by norm_num)).2 (by rw [Nat.cast_one, one_mul]; exact hv)
  have hR : roundDyadic fmt64 m e = 0 := by
    have h0 : roundDyadic fmt64 1 (-1075) = 0 := by decide
    have := roundDyadic64_mono m 1 e (-1075) (by rw [hme]; exact h1)
    omega
  rw [hres, hR, zeroRes_eq]

/-! ## round trip -/

theorem F64_ofParts_self (f : F64) : F64.ofParts f.sign (f.bits.toNat % 2 ^ 63) = f := by
  have hb := F64.ofParts_bits f.sign (f.bits.toNat % 2 ^ 63) (Nat.mod_lt _ (by norm_num))
  have hs := F64.sign_eq f
  have hlt := f.bits.toNat_lt
  have : (F64.ofParts f.sign (f.bits.toNat % 2 ^ 63)).bits = f.bits := by
    apply UInt64.toNat_inj.mp
    rw [hb, hs]
    by_cases h : 2 ^ 63 ≤ f.bits.toNat
    · simp only [h, decide_true, if_true]; omega
    · simp only [h, decide_false, Bool.false_eq_true, if_false]; omega
  generalize F64.ofParts f.sign (f.bits.toNat % 2 ^ 63) = g at this
  cases f; cases g; simp only at this; rw [this]

/-- a finite non-zero float within `2^-100` (relative) of `v` lies on the `2^11·2^E` grid at or above
    `2^63·2^E` -/
theorem near_float_grid (f : F64) (hf : f.isFinite = true) (v : ℚ) (w : ℕ) (E : ℤ)
    (h : NearBelow v w E) (hv : |v - f.mag| ≤ f.mag / 2 ^ 100) :
    ∃ j : ℕ, f.mag = ((j * 2 ^ 11 : ℕ) : ℚ) * 2 ^ E := by
  obtain ⟨h63, h64, hlow, hup⟩ := h
  obtain ⟨m, e, hm, -, -, hmag, -⟩ := F64_fin_form f hf
  have hT : (0 : ℚ) < 2 ^ E := zpow_pos (by norm_num) _
  have hwq : (2 : ℚ) ^ 63 ≤ (w : ℚ) := by exact_mod_cast h63
  have hwT := mul_le_mul_of_nonneg_right hwq hT.le
  obtain ⟨hv1, hv2⟩ := abs_le.mp hv
  have hc : (2 : ℚ) ^ 63 * 2 ^ E ≤ (m : ℚ) * 2 ^ e := by
    rw [← hmag]
    by_contra hcon
    have hcon := not_le.mp hcon
    have hgt : ((2 : ℚ) ^ 63 - 1) * 2 ^ E < f.mag := by
      have : f.mag / 2 ^ 100 < 2 ^ 63 * 2 ^ E / 2 ^ 100 := by
        apply div_lt_div_of_pos_right hcon (by positivity)
      have e1 : (2 : ℚ) ^ 63 * 2 ^ E / 2 ^ 100 = 2 ^ E / 2 ^ 37 := by
        rw [div_eq_div_iff (by positivity) (by positivity)]; ring
      have : (2 : ℚ) ^ E / 2 ^ 37 ≤ 2 ^ E / 2 := by
        apply div_le_div_of_nonneg_left hT.le (by norm_num) (by norm_num)
      linarith
    by_cases hcase : E ≤ e
    · obtain ⟨k, hk⟩ : ∃ k : ℕ, e = E + k := ⟨(e - E).toNat, by omega⟩
      have e2 : f.mag = ((m * 2 ^ k : ℕ) : ℚ) * 2 ^ E := by
        rw [hmag, hk, zpow_add₀ (by norm_num), zpow_natCast]; push_cast; ring
      rw [e2] at hgt hcon
      have a1 := lt_of_mul_lt_mul_right hgt hT.le
      have a2 := lt_of_mul_lt_mul_right hcon hT.le
      have a1' : 2 ^ 63 - 1 < m * 2 ^ k := by
        have : ((2 ^ 63 - 1 : ℕ) : ℚ) < ((m * 2 ^ k : ℕ) : ℚ) := by
          push_cast at a1 ⊢; linarith
        exact_mod_cast this
      have a2' : m * 2 ^ k < 2 ^ 63 := by exact_mod_cast a2
      omega
    · have h1 : (2 : ℚ) ^ e ≤ 2 ^ (E - 1) := zpow_le_zpow_right₀ (by norm_num) (by omega)
      have h2 : (2 : ℚ) ^ (E - 1) = 2 ^ E / 2 := by
        rw [zpow_sub₀ (by norm_num), zpow_one]
      have h3 : (m : ℚ) < 2 ^ 53 := by exact_mod_cast hm
      have h4 : (m : ℚ) * 2 ^ e ≤ 2 ^ 53 * (2 ^ E / 2) := by
        rw [← h2]
        exact mul_le_mul h3.le h1 (zpow_pos (by norm_num) _).le (by positivity)
      rw [hmag] at hgt
      nlinarith
  obtain ⟨j, hj⟩ := grid11 m e E hm hc
  exact ⟨j, by rw [hmag, hj]⟩

/-- **Round trip of the main path.**  If the pair `(w, E)` approximates `v` (`NearBelow`) and `v` is within
    `2^-100` (relative) of a finite non-zero float64 `f`, then `result f.sign w E = f`. -/
theorem result_roundtrip (f : F64) (hf : f.isFinite = true) (w : UInt64) (E : Int16) (v : ℚ)
    (h : NearBelow v w.toNat E.toInt) (hv : |v - f.mag| ≤ f.mag / 2 ^ 100) :
    result f.sign w E = f := by
  obtain ⟨j, hj⟩ := near_float_grid f hf v _ _ h hv
  obtain ⟨m, e, hme, hres⟩ := result_eq f.sign w E h.1
  obtain ⟨h63, h64, hlow, hup⟩ := h
  have hT : (0 : ℚ) < 2 ^ E.toInt := zpow_pos (by norm_num) _
  obtain ⟨hv1, hv2⟩ := abs_le.mp hv
  -- work in units of 2^E
  obtain ⟨v', hv'⟩ : ∃ v' : ℚ, v = v' * 2 ^ E.toInt := ⟨v / 2 ^ E.toInt, by field_simp⟩
  set a : ℚ := ((j * 2 ^ 11 : ℕ) : ℚ) with ha
  rw [hj, hv'] at hv1 hv2
  rw [hv'] at hlow hup
  have b1 : (w.toNat : ℚ) ≤ v' := le_of_mul_le_mul_right hlow hT
  have b2 : v' * (1 - 1 / 2 ^ 111) < (w.toNat : ℚ) + 1 := by
    have : v' * (1 - 1 / 2 ^ 111) * 2 ^ E.toInt < ((w.toNat : ℚ) + 1) * 2 ^ E.toInt := by
      have e1 : v' * (1 - 1 / 2 ^ 111) * 2 ^ E.toInt = v' * 2 ^ E.toInt * (1 - 1 / 2 ^ 111) := by ring
      rw [e1]; exact hup
    exact lt_of_mul_lt_mul_right this hT.le
  have b3 : v' - a ≤ a / 2 ^ 100 := by
    have : (v' - a) * 2 ^ E.toInt ≤ a / 2 ^ 100 * 2 ^ E.toInt := by
      have e1 : (v' - a) * 2 ^ E.toInt = v' * 2 ^ E.toInt - a * 2 ^ E.toInt := by ring
      have e2 : a / 2 ^ 100 * 2 ^ E.toInt = a * 2 ^ E.toInt / 2 ^ 100 := by ring
      rw [e1, e2]; exact hv2
    exact le_of_mul_le_mul_right this hT
  have b4 : -(a / 2 ^ 100) ≤ v' - a := by
    have : -(a / 2 ^ 100) * 2 ^ E.toInt ≤ (v' - a) * 2 ^ E.toInt := by
      have e1 : (v' - a) * 2 ^ E.toInt = v' * 2 ^ E.toInt - a * 2 ^ E.toInt := by ring
      have e2 : -(a / 2 ^ 100) * 2 ^ E.toInt = -(a * 2 ^ E.toInt / 2 ^ 100) := by ring
      rw [e1, e2]; exact hv1
    exact le_of_mul_le_mul_right this hT
  have hw64 : (w.toNat : ℚ) < 2 ^ 64 := by exact_mod_cast h64
  have ha65 : a < 2 ^ 66 := by linarith
  have c1 : (w.toNat : ℚ) < a + 1 := by linarith
  have c2 : a < (w.toNat : ℚ) + 2 := by linarith
  have c1' : w.toNat < j * 2 ^ 11 + 1 := by
    have : (w.toNat : ℚ) < ((j * 2 ^ 11 + 1 : ℕ) : ℚ) := by push_cast at ha ⊢; rw [← ha]; exact c1
    exact_mod_cast this
  have c2' : j * 2 ^ 11 < w.toNat + 2 := by
    have : ((j * 2 ^ 11 : ℕ) : ℚ) < ((w.toNat + 2 : ℕ) : ℚ) := by push_cast at ha c2 ⊢; rw [← ha]; exact c2
    exact_mod_cast this
  obtain ⟨⟨t, ht⟩, hW1, hW2⟩ := rne11_spec w.toNat
  have hW : rne11 w.toNat = j * 2 ^ 11 := by omega
  rw [hres, (F64_fin_rest f hf).2.2 m e (by rw [hme, hW, hj]), F64_ofParts_self]

end F2
