/-
  D128/Proofs/FloatFromFinish.lean — the epilogue of `FromFloat64` (`reduce256` + `compose`) applied to a
  register that approximates the exact scaled value from below.

  Provided (namespace `FF`):
  * `finishK_spec` : `finishK rm neg sig exp t` does not panic; its result denotes
      `flushOrRoundS m neg (a·10^(exp-6176)) 0` for some `a` with `sig ≤ a ≤ X` (`a = X` when the sticky flag
      is clear), where `X` is the exact scaled value the invariant `Approx` speaks about
-/
import D128.Proofs.FloatFromBig
import D128.Proofs.RoundKernelWide
import D128.Proofs.MulQuoMul
import D128.Proofs.SpecRoundScale

set_option autoImplicit false
set_option maxRecDepth 8192

namespace FF
open Gen
local notation "𝔳[" d "]" => Spec.interp (Gen.Decimal.lo d) (Gen.Decimal.hi d)

theorem finishK_spec (rm : UInt8) (m : Spec.Mode) (hm : Spec.Mode.ofNat? rm.toNat = some m)
    (neg : Bool) (sig : U256) (exp : Int16) (t : Int8) (X : ℚ) (k : Nat)
    (he0 : -20000 ≤ exp.toInt) (he1 : exp.toInt ≤ 20000)
    (happ : Approx X sig.toNat k t.toInt) (hbig : t.toInt = 1 → Spec.Cmax < sig.toNat)
    (hpos : 0 < sig.toNat) :
    ∃ r a, finishK rm neg sig exp t = .ok r ∧
      (𝔳[r]).same (Spec.flushOrRoundS m neg (a * (10 : ℚ) ^ (exp.toInt - 6176)) 0) = true ∧
      (sig.toNat : ℚ) ≤ a ∧ a ≤ X ∧ (t.toInt = 0 → a = X) := by
  obtain ⟨h1, h2, h3⟩ := happ
  have hposq : (0 : ℚ) < sig.toNat := by exact_mod_cast hpos
  -- the amount the sticky flag stands for
  obtain ⟨τ, hτ, hτ0, hτX, hτe⟩ : ∃ τ : ℚ, RK.TruncRel t.toInt τ ∧ 0 ≤ τ ∧ (sig.toNat : ℚ) + τ ≤ X ∧
      (t.toInt = 0 → (sig.toNat : ℚ) + τ = X) := by
    rcases h3 with ⟨ht, hX⟩ | ⟨ht, hX⟩
    · exact ⟨0, Or.inl ⟨ht, rfl⟩, le_refl _, by rw [hX]; simp, fun _ => by rw [hX]; simp⟩
    · by_cases hlt : X - sig.toNat < 1
      · exact ⟨X - sig.toNat, Or.inr (Or.inl ⟨ht, by linarith, hlt⟩), by linarith, by linarith,
          fun h => by omega⟩
      · exact ⟨1 / 2, Or.inr (Or.inl ⟨ht, by norm_num, by norm_num⟩), by norm_num, by linarith,
          fun h => by omega⟩
  have ht1 : t = 1 → Spec.Cmax < sig.toNat := fun h => hbig (by rw [h]; rfl)
  have htm1 : ¬ t = -1 := by
    intro h
    have : t.toInt = -1 := by rw [h]; rfl
    rcases h3 with ⟨ht, _⟩ | ⟨ht, _⟩ <;> omega
  obtain ⟨s', e', hr, hpost⟩ := reduce256_correct rm m neg sig exp t τ hm he0 he1 hτ (by linarith)
    ht1 (fun h => absurd h htm1) (fun h => absurd h htm1)
  obtain ⟨r, hfin, hsame⟩ := MQ.finish _ neg (s', e') hpost
  refine ⟨r, (sig.toNat : ℚ) + τ, ?_, ?_, by linarith, hτX, hτe⟩
  · unfold finishK
    rw [hr]
    exact hfin
  · rw [← SpecRound.flushOrRoundS_scale m neg _ (by linarith)]
    exact hsame

end FF
