/-
  D128/Proofs/FloatFromHard.lean — no float64 whose conversion truncates lies within 2^-236 (relative) above a
  rounding boundary of the decimal128 format.

  Provided (namespace `FF`):
  * `big_clear`   : `V = M·2^S`, `2^52 ≤ M < 2^53`, `204 ≤ S ≤ 971` (certificate tables)
  * `small_clear` : `V = M/2^S`, `2^52 ≤ M < 2^53`, `122 ≤ S ≤ 1126` (certificate tables)
  * `odd_clear`   : `V = T/2^S`, `T` odd, `61 ≤ S ≤ 121` (2-adic argument)
  * `hardish_clear` : every `Hardish V` is clear at its spacing exponent
-/
import D128.Proofs.FloatFromCertBig
import D128.Proofs.FloatFromCertSmallB
import D128.Proofs.FloatFromMain
import D128.Proofs.FloatFromRound
import Mathlib.Data.Nat.Prime.Basic

set_option autoImplicit false
set_option maxRecDepth 8192
set_option exponentiation.threshold 4000

namespace FF
open FF.Cert

theorem big_clear (S M : Nat) (q : Int) (hS1 : 204 ≤ S) (hS2 : S ≤ 971) (hM1 : 2 ^ 52 ≤ M)
    (hM2 : M < 2 ^ 53) (hsp1 : 2 ^ 110 * (10 : ℚ) ^ q ≤ (M : ℚ) * 2 ^ S)
    (hsp2 : (M : ℚ) * 2 ^ S < 10 * 2 ^ 110 * (10 : ℚ) ^ q) : Clear ((M : ℚ) * 2 ^ S) q := by
  have hrow : ∃ q0 ds, rowOK (mkBig S).1 (mkBig S).2 (2 ^ 52) (2 ^ 53 - 1) q0 ds = true := by
    by_cases h1 : S < 460
    · exact table_sound mkBig _ _ tabBig0 204 tabBig0_ok S hS1 (by rw [tabBig0_len]; omega)
    · by_cases h2 : S < 716
      · exact table_sound mkBig _ _ tabBig1 460 tabBig1_ok S (by omega) (by rw [tabBig1_len]; omega)
      · exact table_sound mkBig _ _ tabBig2 716 tabBig2_ok S (by omega) (by rw [tabBig2_len]; omega)
  obtain ⟨q0, ds, hrow⟩ := hrow
  have e : (M : ℚ) * 2 ^ S = (M : ℚ) * ((mkBig S).1 : ℕ) / ((mkBig S).2 : ℕ) := by
    simp [mkBig]
  rw [e] at hsp1 hsp2 ⊢
  exact row_sound _ _ _ _ (by simp [mkBig]) (by simp [mkBig]) q0 ds hrow M hM1 (by omega) q hsp1 hsp2

theorem small_clear (S M : Nat) (q : Int) (hS1 : 122 ≤ S) (hS2 : S ≤ 1126) (hM1 : 2 ^ 52 ≤ M)
    (hM2 : M < 2 ^ 53) (hsp1 : 2 ^ 110 * (10 : ℚ) ^ q ≤ (M : ℚ) / 2 ^ S)
    (hsp2 : (M : ℚ) / 2 ^ S < 10 * 2 ^ 110 * (10 : ℚ) ^ q) : Clear ((M : ℚ) / 2 ^ S) q := by
  have hrow : ∃ q0 ds, rowOK (mkSmall S).1 (mkSmall S).2 (2 ^ 52) (2 ^ 53 - 1) q0 ds = true := by
    by_cases h1 : S < 378
    · exact table_sound mkSmall _ _ tabSmallA0 122 tabSmallA0_ok S hS1 (by rw [tabSmallA0_len]; omega)
    · by_cases h2 : S < 634
      · exact table_sound mkSmall _ _ tabSmallA1 378 tabSmallA1_ok S (by omega)
          (by rw [tabSmallA1_len]; omega)
      · by_cases h3 : S < 890
        · exact table_sound mkSmall _ _ tabSmallB0 634 tabSmallB0_ok S (by omega)
            (by rw [tabSmallB0_len]; omega)
        · exact table_sound mkSmall _ _ tabSmallB1 890 tabSmallB1_ok S (by omega)
            (by rw [tabSmallB1_len]; omega)
  obtain ⟨q0, ds, hrow⟩ := hrow
  have e : (M : ℚ) / 2 ^ S = (M : ℚ) * ((mkSmall S).1 : ℕ) / ((mkSmall S).2 : ℕ) := by
    simp [mkSmall]
  rw [e] at hsp1 hsp2 ⊢
  exact row_sound _ _ _ _ (by simp [mkSmall]) (by simp [mkSmall]) q0 ds hrow M hM1 (by omega) q hsp1 hsp2

/-- `T` odd, `61 ≤ S ≤ 121`: a multiple of half a quantum within `2^-236` below `T/2^S` would have to
    equal it, which the parity of `T` excludes -/
theorem odd_clear (T S : Nat) (q : Int) (hT : T % 2 = 1) (hT2 : T < 2 ^ 53) (hS1 : 61 ≤ S)
    (hS2 : S ≤ 121) (hsp1 : 2 ^ 110 * (10 : ℚ) ^ q ≤ (T : ℚ) / 2 ^ S)
    (hsp2 : (T : ℚ) / 2 ^ S < 10 * 2 ^ 110 * (10 : ℚ) ^ q) : Clear ((T : ℚ) / 2 ^ S) q := by
  intro a n haV hclose ⟨hn1, hn2⟩
  have hT1 : 1 ≤ T := by omega
  have h2S : (0 : ℚ) < 2 ^ S := by positivity
  have hTq : (T : ℚ) < 2 ^ 53 := by exact_mod_cast hT2
  -- q < 0
  have hq : q < 0 := by
    by_contra hc
    have h1 : (1 : ℚ) ≤ (10 : ℚ) ^ q := one_le_zpow₀ (by norm_num) (by omega)
    have h2 : (T : ℚ) / 2 ^ S < 1 := by
      rw [div_lt_one h2S]
      calc (T : ℚ) < 2 ^ 53 := hTq
        _ ≤ 2 ^ S := pow_le_pow_right₀ (by norm_num) (by omega)
    have : (2 : ℚ) ^ 110 * 1 ≤ 2 ^ 110 * (10 : ℚ) ^ q := mul_le_mul_of_nonneg_left h1 (by positivity)
    have : (1 : ℚ) ≤ 2 ^ 110 := one_le_pow₀ (by norm_num)
    linarith
  obtain ⟨p, hp⟩ : ∃ p : Nat, q = -(p : Int) := ⟨(-q).toNat, by omega⟩
  subst hp
  rw [zpow_neg, zpow_natCast] at hsp1 hsp2 hn1 hn2
  have h10 : (0 : ℚ) < 10 ^ p := by positivity
  -- integer forms
  have e2 : T * 10 ^ p < 10 * 2 ^ 110 * 2 ^ S := by
    have : (T : ℚ) * 10 ^ p < 10 * 2 ^ 110 * 2 ^ S := by
      rw [div_lt_iff₀ h2S] at hsp2
      have := mul_lt_mul_of_pos_right hsp2 h10
      calc (T : ℚ) * 10 ^ p < 10 * 2 ^ 110 * (10 ^ p)⁻¹ * 2 ^ S * 10 ^ p := this
        _ = 10 * 2 ^ 110 * 2 ^ S := by field_simp
    exact_mod_cast this
  have e3 : n * 2 ^ S ≤ 2 * T * 10 ^ p := by
    have : (n : ℚ) * 2 ^ S ≤ 2 * T * 10 ^ p := by
      rw [le_div_iff₀ h2S] at hn2
      have := mul_le_mul_of_nonneg_right hn2 h10.le
      calc (n : ℚ) * 2 ^ S = (n : ℚ) / 2 * (10 ^ p)⁻¹ * 2 ^ S * 10 ^ p * 2 := by field_simp
        _ ≤ (T : ℚ) * 10 ^ p * 2 := mul_le_mul_of_nonneg_right this (by norm_num)
        _ = 2 * T * 10 ^ p := by ring
    exact_mod_cast this
  have e4 : 2 * (T : Int) * 10 ^ p * 2 ^ 236 ≤ n * 2 ^ S * (2 ^ 236 + 1) := by
    have : 2 * (T : ℚ) * 10 ^ p * 2 ^ 236 ≤ n * 2 ^ S * (2 ^ 236 + 1) := by
      have h1 := le_trans hclose (mul_le_mul_of_nonneg_right hn1 (by positivity))
      have h2 := mul_le_mul_of_nonneg_right h1 (show (0 : ℚ) ≤ 2 * 2 ^ S * 10 ^ p by positivity)
      calc 2 * (T : ℚ) * 10 ^ p * 2 ^ 236 = (T : ℚ) / 2 ^ S * 2 ^ 236 * (2 * 2 ^ S * 10 ^ p) := by
            field_simp
        _ ≤ (n : ℚ) / 2 * (10 ^ p)⁻¹ * (2 ^ 236 + 1) * (2 * 2 ^ S * 10 ^ p) := h2
        _ = n * 2 ^ S * (2 ^ 236 + 1) := by field_simp
    exact_mod_cast this
  -- the residual vanishes
  have hres : 2 * (T : Int) * 10 ^ p = n * 2 ^ S := by
    have h2S' : (2 : Int) ^ S ≤ 2 ^ 121 := pow_le_pow_right₀ (by norm_num) hS2
    have e2' : (T : Int) * 10 ^ p < 10 * 2 ^ 110 * 2 ^ S := by exact_mod_cast e2
    set r' := 2 * (T : Int) * 10 ^ p - n * 2 ^ S with hr'
    have hr0 : 0 ≤ r' := by omega
    have h5 : r' * 2 ^ 236 ≤ n * 2 ^ S := by
      have : (n * 2 ^ S + r') * 2 ^ 236 ≤ n * 2 ^ S * (2 ^ 236 + 1) := by
        have : n * 2 ^ S + r' = 2 * (T : Int) * 10 ^ p := by omega
        rw [this]; exact e4
      linarith
    have h6 : r' * 2 ^ 236 < 1 * 2 ^ 236 := by
      calc r' * 2 ^ 236 ≤ n * 2 ^ S := h5
        _ ≤ 2 * (T : Int) * 10 ^ p := e3
        _ < 2 * (10 * 2 ^ 110 * 2 ^ S) := by linarith
        _ ≤ 2 * (10 * 2 ^ 110 * 2 ^ 121) := by linarith
        _ < 1 * 2 ^ 236 := by norm_num
    have : r' < 1 := lt_of_mul_lt_mul_right h6 (by positivity)
    omega
  -- 2-adic contradiction
  have hn0 : 0 ≤ n := by
    by_contra hc
    have : n * 2 ^ S < 0 := mul_neg_of_neg_of_pos (by omega) (by positivity)
    have : (0 : Int) ≤ 2 * (T : Int) * 10 ^ p := by positivity
    omega
  obtain ⟨n', rfl⟩ := Int.eq_ofNat_of_zero_le hn0
  have hres' : 2 * T * 10 ^ p = n' * 2 ^ S := by exact_mod_cast hres
  have hdvd : 2 ^ S ∣ 2 ^ (p + 1) * (T * 5 ^ p) := by
    refine ⟨n', ?_⟩
    have : (10 : Nat) ^ p = 2 ^ p * 5 ^ p := by rw [← Nat.mul_pow]
    rw [Nat.mul_comm (2 ^ S), ← hres', this, pow_succ]; ring
  have hcop : Nat.Coprime (2 ^ S) (T * 5 ^ p) := by
    apply Nat.Coprime.pow_left
    rw [Nat.coprime_two_left, Nat.odd_iff]
    rw [Nat.mul_mod, hT, Nat.pow_mod]
    norm_num
  have hle : S ≤ p + 1 := by
    have := hcop.dvd_of_dvd_mul_right hdvd
    exact (Nat.pow_dvd_pow_iff_le_right (by norm_num)).1 this
  have h60 : 5 ^ 60 ≤ 5 ^ p := Nat.pow_le_pow_right (by norm_num) (by omega)
  have hfin : T * 10 ^ p < 10 * 2 ^ 110 * 2 ^ (p + 1) :=
    lt_of_lt_of_le e2 (Nat.mul_le_mul_left _ (Nat.pow_le_pow_right (by norm_num) hle))
  have : (10 : Nat) ^ p = 2 ^ p * 5 ^ p := by rw [← Nat.mul_pow]
  rw [this, pow_succ] at hfin
  have h2p : 0 < 2 ^ p := by positivity
  have hfin2 : T * 5 ^ p < 20 * 2 ^ 110 := by
    have : 2 ^ p * (T * 5 ^ p) < 2 ^ p * (20 * 2 ^ 110) := by
      calc 2 ^ p * (T * 5 ^ p) = T * (2 ^ p * 5 ^ p) := by ring
        _ < 10 * 2 ^ 110 * (2 ^ p * 2) := hfin
        _ = 2 ^ p * (20 * 2 ^ 110) := by ring
    exact Nat.lt_of_mul_lt_mul_left this
  have : 5 ^ p ≤ T * 5 ^ p := Nat.le_mul_of_pos_left _ hT1
  have : (20 : Nat) * 2 ^ 110 < 5 ^ 60 := by norm_num
  omega

theorem normalize53 (T : Nat) (hT1 : 1 ≤ T) (hT2 : T < 2 ^ 53) :
    ∃ j : Nat, j ≤ 52 ∧ 2 ^ 52 ≤ T * 2 ^ j ∧ T * 2 ^ j < 2 ^ 53 := by
  have hne : T ≠ 0 := by omega
  have h1 := Nat.log2_self_le hne
  have h2 := Nat.lt_log2_self (n := T)
  have hL : T.log2 < 53 := (Nat.log2_lt hne).2 hT2
  refine ⟨52 - T.log2, by omega, ?_, ?_⟩
  · calc 2 ^ 52 = 2 ^ T.log2 * 2 ^ (52 - T.log2) := by rw [← Nat.pow_add]; congr 1; omega
      _ ≤ T * 2 ^ (52 - T.log2) := Nat.mul_le_mul_right _ h1
  · calc T * 2 ^ (52 - T.log2) < 2 ^ (T.log2 + 1) * 2 ^ (52 - T.log2) :=
          Nat.mul_lt_mul_of_pos_right h2 (by positivity)
      _ = 2 ^ 53 := by rw [← Nat.pow_add]; congr 1; omega

/-- every magnitude for which `FromFloat64` may truncate is clear at its spacing exponent -/
theorem hardish_clear (V : ℚ) (q : Int) (hH : Hardish V)
    (hsp1 : 2 ^ 110 * (10 : ℚ) ^ q ≤ V) (hsp2 : V < 10 * 2 ^ 110 * (10 : ℚ) ^ q) : Clear V q := by
  rcases hH with ⟨M, S, hM1, hM2, hS1, hS2, rfl⟩ | ⟨T, S, hT, hT2, hS1, hS2, rfl⟩
  · exact big_clear S M q hS1 hS2 hM1 hM2 hsp1 hsp2
  · by_cases h121 : S ≤ 121
    · exact odd_clear T S q hT hT2 hS1 h121 hsp1 hsp2
    · obtain ⟨j, hj, hM1, hM2⟩ := normalize53 T (by omega) hT2
      have e : (T : ℚ) / 2 ^ S = ((T * 2 ^ j : Nat) : ℚ) / 2 ^ (S + j) := by
        rw [pow_add]; push_cast; field_simp
      rw [e] at hsp1 hsp2 ⊢
      exact small_clear (S + j) (T * 2 ^ j) q (by omega) (by omega) hM1 hM2 hsp1 hsp2

/-- the spacing exponent of a float64 magnitude is far inside the exponent range of the format -/
theorem hardish_q_ge (V : ℚ) (q : Int) (hH : Hardish V) (hsp2 : V < 10 * 2 ^ 110 * (10 : ℚ) ^ q) :
    Spec.Emin ≤ q := by
  have hV : (1 : ℚ) / 2 ^ 1074 ≤ V := by
    rcases hH with ⟨M, S, hM1, hM2, hS1, hS2, rfl⟩ | ⟨T, S, hT, hT2, hS1, hS2, rfl⟩
    · have h1 : (1 : ℚ) ≤ M := by
        have : 1 ≤ M := le_trans (by norm_num) hM1
        exact_mod_cast this
      have h2 : (1 : ℚ) ≤ 2 ^ S := one_le_pow₀ (by norm_num)
      have h3 : (1 : ℚ) / 2 ^ 1074 ≤ 1 := by
        rw [div_le_one (by positivity)]; exact one_le_pow₀ (by norm_num)
      nlinarith
    · have h1 : (1 : ℚ) ≤ T := by
        have : 1 ≤ T := by omega
        exact_mod_cast this
      have h2 : (2 : ℚ) ^ S ≤ 2 ^ 1074 := pow_le_pow_right₀ (by norm_num) hS2
      rw [div_le_div_iff₀ (by positivity) (by positivity)]
      nlinarith
  by_contra hc
  have hq : q ≤ -400 := by unfold Spec.Emin at hc; omega
  have h10 : (10 : ℚ) ^ q ≤ (10 : ℚ) ^ (-400 : Int) := zpow_le_zpow_right₀ (by norm_num) hq
  have h4 : 10 * 2 ^ 110 * (10 : ℚ) ^ (-400 : Int) < 1 / 2 ^ 1074 := by
    rw [zpow_neg, show ((400 : Int)) = ((400 : Nat) : Int) from rfl, zpow_natCast]
    have e : 10 * 2 ^ 110 * ((10 : ℚ) ^ 400)⁻¹ = (10 * 2 ^ 110) / 10 ^ 400 := by
      rw [div_eq_mul_inv]
    rw [e, div_lt_div_iff₀ (by positivity) (by positivity)]
    norm_num
  have : 10 * 2 ^ 110 * (10 : ℚ) ^ q ≤ 10 * 2 ^ 110 * (10 : ℚ) ^ (-400 : Int) :=
    mul_le_mul_of_nonneg_left h10 (by positivity)
  exact absurd (lt_of_lt_of_le (lt_of_le_of_lt hV hsp2) (le_trans this h4.le)) (lt_irrefl _)

/-- **no hard cases**: a magnitude for which the scaling loops of `FromFloat64` may truncate rounds, in every
    mode, like any approximation from below within relative `2^-236` -/
theorem hardish_round_eq (m : Spec.Mode) (neg : Bool) (a V : ℚ) (hH : Hardish V) (hc : Close a V) :
    Spec.flushOrRoundS m neg a 0 = Spec.flushOrRoundS m neg V 0 := by
  obtain ⟨ha, haV, hclose⟩ := hc
  have hV : 0 < V := lt_of_lt_of_le ha haV
  have hsp := RK.spacingExpRaw_spec V hV
  obtain ⟨hsp1, hsp2⟩ := hsp
  rw [RK.pow10_eq] at hsp1 hsp2
  have hq := hardish_q_ge V _ hH hsp2
  have hcl := hardish_clear V _ hH hsp1 hsp2
  apply round_eq_of_noBoundary m neg a V (Spec.spacingExpRaw V) ha haV (RK.spacingExpRaw_spec V hV) hq
  intro n
  rw [RK.pow10_eq]
  exact hcl a n haV hclose

end FF
