/-
  D128/Proofs/PowAccFlag.lean — `Gen.RoundingMode.reduce192` in a nearest mode with ANY sticky flag, also
  below the minimum exponent (for property C18: the general path of `Pow` ends with
  `res.rcp(trunc); trunc *= -1; mode.reduce192(neg, res.sig, res.exp+exponentBias, trunc)` and reaches the
  final rounding with flag `-1` and a negative biased exponent).

  `ExpAcc.reduce192_nearest` (ExpAccSmall.lean) excludes flag `-1` at a negative biased exponent, because
  `reduce192_correct` needs "with a negative sticky the value is at least `10^(Emin-1)`": just below that
  threshold the specification flushes to zero while the code rounds.  In the DIRECTED modes the two differ, in
  the NEAREST modes both give zero.  Here the tiny case is proved directly on the code with an integer
  invariant (`significand·10 + guard digit ≤ 10^(-exponent)`, i.e. the state denotes at most `1/10` of the
  smallest unit): the loops end with significand `0`, guard digit `≤ 1`, exponent `0`, which `round` leaves
  alone in a nearest mode whatever the flag.

  Provided (namespace `PowAcc`):
  * `dropW`, `ladder_digit`, `pt_step`           : arithmetic of the invariant
  * `adjZ_nearest_small`                         : a nearest mode does not adjust with guard digit `≤ 1`
  * `reduce192_tiny`        : nearest mode byte, `-20000 ≤ exp ≤ -1`, `sig ≤ 10^(-exp-1)`, any flag in {0,1,-1}:
        `reduce192 rm neg sig exp trunc = .ok (sig', exp')` with `sig' = 0`, `exp' = 0`
  * `reduce192_nearest_all` : `ExpAcc.reduce192_nearest` without the hypothesis `trunc = -1 → 0 ≤ exp`
-/
import D128.Proofs.ExpAccSmall
set_option autoImplicit false
set_option maxRecDepth 4096
set_option linter.unusedVariables false

namespace PowAcc
open Gen RK Spec SpecRound LogAcc ExpAcc

/-! ## arithmetic of the tiny-value invariant -/

/-- the sticky flag is one of `-1, 0, 1` -/
def TC (t : Int) : Prop := t = -1 ∨ t = 0 ∨ t = 1

theorem tc_ite (c : Prop) [Decidable c] (t : Int) (h : TC t) : TC (if c then 1 else t) := by
  split
  · exact Or.inr (Or.inr rfl)
  · exact h

theorem tc_int8 (t : Int8) (h : TC t.toInt) : t = -1 ∨ t = 0 ∨ t = 1 := by
  rcases h with h | h | h
  · exact Or.inl (Int8.toInt_inj.1 (h.trans (by rfl)))
  · exact Or.inr (Or.inl (Int8.toInt_inj.1 (h.trans (by rfl))))
  · exact Or.inr (Or.inr (Int8.toInt_inj.1 (h.trans (by rfl))))

/-- dropping `j` digits of a significand that is at most `10^(-e-1)` (a value `≤ 1/10`) -/
theorem dropW (n j : Nat) (e : Int) (he : e ≤ -1) (hn : n ≤ 10 ^ (-e - 1).toNat) (hj : 10 ^ j ≤ n) :
    e + (j : Int) ≤ -1 ∧ n / 10 ^ j ≤ 10 ^ (-(e + (j : Int)) - 1).toNat := by
  have hjk : j ≤ (-e - 1).toNat := by
    by_contra hc
    have h1 : 10 ^ ((-e - 1).toNat + 1) ≤ 10 ^ j := Nat.pow_le_pow_right (by norm_num) (by omega)
    have h2 : 10 ^ (-e - 1).toNat < 10 ^ ((-e - 1).toNat + 1) :=
      Nat.pow_lt_pow_right (by norm_num) (by omega)
    omega
  refine ⟨by omega, ?_⟩
  have : (-(e + (j : Int)) - 1).toNat = (-e - 1).toNat - j := by omega
  rw [this, ← Nat.pow_div hjk (by norm_num)]
  exact Nat.div_le_div_right hn

/-- quotient and leading dropped digit of a `p`-digit drop recombine to the `(p-1)`-digit quotient -/
theorem ladder_digit (N p : Nat) (hp : 1 ≤ p) :
    10 * (N / 10 ^ p) + N % 10 ^ p / 10 ^ (p - 1) = N / 10 ^ (p - 1) := by
  obtain ⟨q, rfl⟩ : ∃ q, p = q + 1 := ⟨p - 1, by omega⟩
  simp only [Nat.add_sub_cancel]
  rw [pow_succ, Nat.mod_mul_right_div_self, ← Nat.div_div_eq_div_mul]
  omega

/-- the invariant of the 128-bit phases: the state `(s, d)` at exponent `e ≤ 0` denotes at most `1/10` -/
def PT (E0 : Int) (s d : Nat) (t e : Int) : Prop :=
  e ≤ 0 ∧ 10 * s + d ≤ 10 ^ (-e).toNat ∧ TC t ∧ E0 ≤ e

theorem pt_step (E0 : Int) (s d : Nat) (t e : Int) (h : PT E0 s d t e) (hneg : e < 0) :
    PT E0 (s / 10) (s % 10) (if d ≠ 0 then 1 else t) (e + 1) := by
  obtain ⟨_, hle, htc, hE⟩ := h
  refine ⟨by omega, ?_, tc_ite _ t htc, by omega⟩
  have hk : (-e).toNat = (-(e + 1)).toNat + 1 := by omega
  rw [hk, pow_succ] at hle
  omega

/-- the invariant forces a negative exponent as long as the significand is not `0` -/
theorem pt_neg (E0 : Int) (s d : Nat) (t e : Int) (h : PT E0 s d t e) (hs : 1 ≤ s) : e < 0 := by
  obtain ⟨h0, hle, _, _⟩ := h
  by_contra hc
  have : e = 0 := by omega
  subst this
  simp at hle
  omega

/-- a nearest mode leaves a significand alone when the guard digit is `0` or `1` -/
theorem adjZ_nearest_small (m : Spec.Mode) (neg odd : Bool) (t : Int) (d : Nat)
    (hn : isNearest m = true) (hd : d ≤ 1) : adjZ m neg odd t d = 0 := by
  cases m <;> simp [isNearest] at hn <;> unfold adjZ <;> simp only [] <;> split_ifs <;> omega

/-! ## the tiny case on the code -/

/-- **A working value of at most a tenth of the smallest unit is rounded to zero by the nearest modes,
whatever the sticky flag.**  (`sig·10^exp ≤ 10^-1` in units of `10^Emin`.) -/
theorem reduce192_tiny (rm : UInt8) (m : Spec.Mode) (neg : Bool) (sig : U192) (exp : Int16)
    (trunc : Int8) (hm : Spec.Mode.ofNat? rm.toNat = some m) (hn : isNearest m = true)
    (he0 : -20000 ≤ exp.toInt) (hneg : exp.toInt ≤ -1)
    (hs : sig.toNat ≤ 10 ^ (-exp.toInt - 1).toNat)
    (ht : trunc = 0 ∨ trunc = 1 ∨ trunc = -1) :
    ∃ (sig' : U128) (exp' : Int16),
      Gen.RoundingMode.reduce192 rm neg sig exp trunc = .ok (sig', exp') ∧
      sig'.toNat = 0 ∧ exp'.toInt = 0 := by
  have hCm := Cmax_val
  have htc0 : TC trunc.toInt := by
    rcases ht with h | h | h <;> subst h
    · exact Or.inr (Or.inl rfl)
    · exact Or.inr (Or.inr rfl)
    · exact Or.inl rfl
  rw [reduce192_eq, tailP_funext]
  obtain ⟨n1, e1, t1, hstep, hrel⟩ := step192_spec sig exp trunc (by omega) (by omega)
  rw [hstep _]
  -- the 192-bit phases: the significand is at most `10^(-e-1)`
  let PW : Nat → Int → Int → Prop := fun n t e =>
    e ≤ -1 ∧ n ≤ 10 ^ (-e - 1).toNat ∧ TC t ∧ exp.toInt ≤ e
  have hW1 : PW n1.toNat t1.toInt e1.toInt := by
    rcases hrel with ⟨h1, h2, h3⟩ | ⟨hbig, h1, h2, h3⟩
    · subst h1 h2 h3; exact ⟨hneg, hs, htc0, le_refl _⟩
    · have hd := dropW sig.toNat 8 exp.toInt hneg hs (by norm_num; omega)
      rw [h1, h2, h3]
      refine ⟨by simpa using hd.1, by simpa using hd.2, tc_ite _ _ htc0, by omega⟩
  have hstepW : ∀ n t e, PW n t e → 2 ^ 128 ≤ n →
      PW (n / 10000) (if n % 10000 ≠ 0 then 1 else t) (e + 4) ∧ e < 32700 := by
    intro n t e ⟨hle, hn', htc, hge⟩ hbig
    have hd := dropW n 4 e hle hn' (by norm_num; omega)
    exact ⟨⟨by simpa using hd.1, by simpa using hd.2, tc_ite _ _ htc, by omega⟩, by omega⟩
  obtain ⟨st, hL, ⟨hle', hn', htc', hge'⟩, hlt⟩ := wide192_inv PW hstepW (n1, e1, t1) hW1
  rw [hL, ok_bind]
  have htoNat : ({ w0 := st.1.w0, w1 := st.1.w1 } : U128).toNat = st.1.toNat := by
    have hw0 := st.1.w0.toNat_lt
    have hw1 := st.1.w1.toNat_lt
    simp only [U128.toNat, U192.toNat] at hlt ⊢
    omega
  -- the ladder
  obtain ⟨s1, e1', t1', d1, hlad, hrelL⟩ :=
    ladder128_spec ({ w0 := st.1.w0, w1 := st.1.w1 } : U128) st.2.1 st.2.2 (by omega) (by omega)
  rw [hlad (reduceTail rm neg)]
  unfold reduceTail
  rw [htoNat] at hrelL
  set N := st.1.toNat with hN
  set E := st.2.1.toInt with hE
  have hPT1 : PT exp.toInt s1.toNat d1.toNat t1'.toInt e1'.toInt := by
    rcases hrelL with ⟨h1, h2, h3, h4, _⟩ | ⟨p, hp2, hp4, hpN, h1, h2, h3, h4⟩
    · rw [h1, h2, h3, h4]
      refine ⟨by omega, ?_, htc', hge'⟩
      have hk : (-E).toNat = (-E - 1).toNat + 1 := by omega
      rw [hk, pow_succ]
      omega
    · have hpow : 10 ^ (p - 1) ≤ N := by
        have h10 : 10 ^ (p - 1) ≤ 10 ^ p := Nat.pow_le_pow_right (by norm_num) (by omega)
        have : 10 ^ p * 1 ≤ 10 ^ p * 2 ^ 110 := Nat.mul_le_mul_left _ (by norm_num)
        omega
      have hd := dropW N (p - 1) E hle' hn' hpow
      have hcast : ((p - 1 : Nat) : Int) = (p : Int) - 1 := by omega
      rw [hcast] at hd
      rw [h1, h2, h3, h4]
      refine ⟨by omega, ?_, tc_ite _ _ htc', by omega⟩
      rw [ladder_digit N p (by omega)]
      have : (-(E + (p : Int))).toNat = (-(E + ((p : Int) - 1)) - 1).toNat := by omega
      rw [this]
      exact hd.2
  -- loop B
  have hstepB : ∀ s d t e, PT exp.toInt s d t e → Spec.Cmax < s →
      PT exp.toInt (s / 10) (s % 10) (if d ≠ 0 then 1 else t) (e + 1) ∧ e < 32766 := by
    intro s d t e h hgt
    have hneg' := pt_neg _ s d t e h (by omega)
    exact ⟨pt_step _ s d t e h hneg', by omega⟩
  obtain ⟨st2, hB, hPT2, hle2⟩ := dropLoop_inv (PT exp.toInt) hstepB (s1, e1', t1', d1) hPT1
  rw [hB, ok_bind]
  -- loop C
  obtain ⟨st3, hC, hpost3⟩ := subLoop_inv (PT exp.toInt)
    (fun s d t e h hneg' _ => pt_step _ s d t e h hneg')
    (st2.1, st2.2.1, st2.2.2.1, st2.2.2.2) hPT2
  rw [hC, ok_bind]
  have hfin : st3.1.toNat = 0 ∧ st3.2.1.toInt = 0 ∧ st3.2.2.2.toNat ≤ 1 ∧ TC st3.2.2.1.toInt := by
    rcases hpost3 with ⟨h1, h2, h3, h4, _⟩ | ⟨⟨h0, hle3, htc3, _⟩, hnn3⟩
    · refine ⟨h1, by rw [h2]; rfl, by rw [h4]; decide, by rw [h3]; exact Or.inr (Or.inl rfl)⟩
    · have he : st3.2.1.toInt = 0 := by omega
      rw [he] at hle3
      simp at hle3
      exact ⟨by omega, he, by omega, htc3⟩
  obtain ⟨hs0, he0', hd1, htc3⟩ := hfin
  -- loop D does nothing
  obtain ⟨st4, hD, ⟨h4s, h4e⟩, _⟩ := upLoop_inv (fun s e => s = 0 ∧ e = 0)
    (by intro s e ⟨_, h⟩ hgt _; omega) (st3.1, st3.2.1) ⟨hs0, he0'⟩
  rw [hD, ok_bind]
  -- `round` does not adjust
  have hW := adjW_eq_of rm m neg st4.1.w0 st3.2.2.1 st3.2.2.2 hm (tc_int8 _ htc3) 0
    (by rw [adjZ_nearest_small m neg _ _ _ hn hd1]; rfl)
  exact ⟨st4.1, st4.2, round_adj0 _ _ _ _ _ _ _ hW, h4s, h4e⟩

/-- the hypotheses are satisfiable: a 58-digit significand at biased exponent `-80`, flag `-1` -/
example := reduce192_tiny 0 .nearestEven true ⟨0, 0, 9223372036854775808⟩ (-80) (-1) rfl rfl
  (by decide) (by decide) (by simp only [U192.toNat]; decide) (Or.inr (Or.inr rfl))

/-! ## the deliverable -/

theorem pow10_Emin_pred : Spec.pow10 (Spec.Emin - 1) = 1 / 10 * Spec.pow10 (-6176) := by
  have : Spec.Emin - 1 = -1 + -6176 := by unfold Spec.Emin; ring
  rw [this, RK.pow10_add, RK.pow10_neg_one]

/-- **The final rounding in a nearest mode, any flag, any length of the significand, any exponent.**
`ExpAcc.reduce192_nearest` without its hypothesis `trunc = -1 → 0 ≤ exp`: the result is the member the mode
selects for `(sig + τ)·10^(exp-6176)` for some `|τ| ≤ 10^-40` of the sign the flag has. -/
theorem reduce192_nearest_all (rm : UInt8) (m : Spec.Mode) (neg : Bool) (sig : U192) (exp : Int16)
    (trunc : Int8) (hm : Spec.Mode.ofNat? rm.toNat = some m) (hn : isNearest m = true)
    (hs1 : 1 ≤ sig.toNat) (he0 : -20000 ≤ exp.toInt) (he1 : exp.toInt ≤ 20000)
    (ht : trunc = 0 ∨ trunc = 1 ∨ trunc = -1) :
    ∃ (τ : ℚ) (sig' : U128) (exp' : Int16), |τ| ≤ 1 / 10 ^ 40 ∧
      Gen.RoundingMode.reduce192 rm neg sig exp trunc = .ok (sig', exp') ∧
      RK.RoundPost (flushOrRoundS m neg ((sig.toNat : ℚ) + τ) (exp.toInt - 6176)) neg sig' exp' := by
  by_cases hcase : trunc = -1 ∧ exp.toInt < 0
  swap
  · -- covered by `ExpAcc.reduce192_nearest`
    exact reduce192_nearest rm m neg sig exp trunc hm hn hs1 he0 he1 ht
      (fun h => by
        by_contra hc
        exact hcase ⟨h, by omega⟩)
  obtain ⟨htm, hneg⟩ := hcase
  have hsq : (1 : ℚ) ≤ (sig.toNat : ℚ) := by exact_mod_cast hs1
  -- the amount the flag stands for
  obtain ⟨τ, hτdef⟩ : ∃ τ : ℚ, τ = -(1 / 10 ^ 40) := ⟨_, rfl⟩
  have hτabs : |τ| ≤ 1 / 10 ^ 40 := by rw [hτdef, abs_neg, abs_of_pos tiny_pos]
  have hτlo : -(1 / 100 : ℚ) < τ := by rw [hτdef]; norm_num
  have hτneg : τ < 0 := by rw [hτdef]; norm_num
  have hrel : TruncRel trunc.toInt τ :=
    Or.inr (Or.inr ⟨by rw [htm]; decide, by linarith, hτneg⟩)
  have hq : 0 < (sig.toNat : ℚ) + τ := by linarith
  set k : Nat := (-exp.toInt - 1).toNat with hk
  have hexp : exp.toInt = -(k : Int) - 1 := by omega
  by_cases htiny : sig.toNat ≤ 10 ^ k
  · -- (b) the value is below `10^(Emin-1)`: the specification and the code give a zero
    obtain ⟨sig', exp', hred, hz, hez⟩ :=
      reduce192_tiny rm m neg sig exp trunc hm hn he0 (by omega) htiny ht
    refine ⟨τ, sig', exp', hτabs, hred, ?_⟩
    have hVlt : ((sig.toNat : ℚ) + τ) * Spec.pow10 exp.toInt < 1 / 10 := by
      have h1 : (sig.toNat : ℚ) ≤ (10 : ℚ) ^ k := by exact_mod_cast htiny
      have h2 : (10 : ℚ) ^ k * Spec.pow10 exp.toInt = 1 / 10 := by
        rw [← RK.pow10_natCast, ← RK.pow10_add, ← RK.pow10_neg_one]
        congr 1; omega
      have hp := RK.pow10_pos exp.toInt
      rw [← h2]
      exact mul_lt_mul_of_pos_right (by linarith) hp
    rw [spec_flush m neg _ _ hq (((sig.toNat : ℚ) + τ) * Spec.pow10 exp.toInt)
      (by rw [sub_eq_add_neg, RK.pow10_add]; ring) hVlt]
    unfold RoundPost
    rw [if_neg (by rw [hez]; decide), hz, hez]
    refine ⟨by omega, le_refl _, ?_⟩
    simp [Val.same, Spec.mag]
  · -- (a) the value is at least `10^(Emin-1)`: the existing theorems apply
    have hbigk : (10 : ℚ) ^ k + 1 ≤ (sig.toNat : ℚ) := by
      have : 10 ^ k + 1 ≤ sig.toNat := by omega
      exact_mod_cast this
    have hflv : 1 / 10 ≤ ((sig.toNat : ℚ) + τ) * Spec.pow10 exp.toInt := by
      have h2 : (10 : ℚ) ^ k * Spec.pow10 exp.toInt = 1 / 10 := by
        rw [← RK.pow10_natCast, ← RK.pow10_add, ← RK.pow10_neg_one]
        congr 1; omega
      rw [← h2]
      exact mul_le_mul_of_nonneg_right (by linarith) (le_of_lt (RK.pow10_pos _))
    have hfl : Spec.pow10 (Spec.Emin - 1)
        ≤ ((sig.toNat : ℚ) + τ) * Spec.pow10 (exp.toInt - 6176) := by
      have e2 : ((sig.toNat : ℚ) + τ) * Spec.pow10 (exp.toInt - 6176)
          = ((sig.toNat : ℚ) + τ) * Spec.pow10 exp.toInt * Spec.pow10 (-6176) := by
        rw [sub_eq_add_neg, RK.pow10_add]; ring
      rw [pow10_Emin_pred, e2]
      exact mul_le_mul_of_nonneg_right hflv (le_of_lt (RK.pow10_pos _))
    by_cases hbig : Spec.Cmax < sig.toNat
    · -- a digit will be dropped: `reduce192_correct`
      obtain ⟨sig', exp', hred, hpost⟩ := reduce192_correct rm m neg sig exp trunc τ hm he0 he1 hrel
        hq (fun _ => hbig) (fun _ => ⟨hbig, Or.inr (by linarith)⟩) (fun _ => hfl)
      exact ⟨τ, sig', exp', hτabs, hred, hpost⟩
    · -- at least one digit is dropped by the sub-minimum-exponent loop
      have hs : sig.toNat ≤ Spec.Cmax := not_lt.1 hbig
      have hrel10 : TruncRel trunc.toInt (10 * τ) :=
        Or.inr (Or.inr ⟨by rw [htm]; decide, by linarith, by linarith⟩)
      have h10 : (10 * τ) / 10 = τ := by ring
      obtain ⟨sig', exp', hred, hpost⟩ := reduce192_small_sub rm m neg sig exp trunc (10 * τ) hm hs1 hs
        he0 (by omega) hrel10 (fun _ => by linarith) (fun _ => by rw [h10]; exact hflv)
      rw [h10] at hpost
      exact ⟨τ, sig', exp', hτabs, hred, hpost⟩

/-- the hypotheses are satisfiable: flag `-1` far below the minimum exponent (a tiny result of `Pow`) -/
example := reduce192_nearest_all 0 .nearestEven false ⟨5, 0, 0⟩ (-3) (-1) rfl rfl (by decide) (by decide)
  (by decide) (Or.inr (Or.inr rfl))

/-- … and in the subnormal range, where the result is not zero (`123456·10^-2` units of `10^Emin`) -/
example := reduce192_nearest_all 1 .nearestAway true ⟨123456, 0, 0⟩ (-2) (-1) rfl rfl (by decide)
  (by decide) (by decide) (Or.inr (Or.inr rfl))

end PowAcc
