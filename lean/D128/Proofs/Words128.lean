/-
  D128/Proofs/Words128.lean — exact arithmetic specifications of the generated 128-bit
  integer routines of `D128/Gen/Int.lean` (Go source: /repo/int.go, type `uint128`).

  Companion modules: `Words128Log.lean` (`bits.Len64`, `uint128.log10`) and
  `Words128Div.lean` (`uint128.div`, the general 128/128 division).

  Provided theorems (all about the generated `Gen.*` definitions, for all inputs):

  math/bits helpers
  * `Go.bits.Add64_spec`, `Go.bits.Sub64_spec`, `Go.bits.Mul64_spec`, `Go.bits.Div64_eq`
  * `U128.toNat_lt`, `U128.toNat_inj`, `U128.eq_iff_toNat_eq`, `U128.toNat_ofNat`, `U128.ofNat_toNat`,
    `U128.eq_ofNat_of_toNat_eq`, `UInt64.eq_ofNat_of_toNat_eq`, `U192.toNat_lt`, `U256.toNat_lt`

  words
  * `U128_add64_toNat`   : (add64 n o).toNat = (n.toNat + o.toNat) % 2^128
  * `U128_add64_toNat_of_lt` : no-overflow corollary
  * `U128_sub64_toNat`   : (sub64 n o).toNat = (n.toNat + 2^128 - o.toNat) % 2^128
  * `U128_sub64_toNat_of_le` : o.toNat ≤ n.toNat → (sub64 n o).toNat = n.toNat - o.toNat
  * `U128_add_toNat`     : (add n o).toNat = n.toNat + o.toNat                    (U192)
  * `U128_sub_toNat`     : (sub n o).1.toNat = (n.toNat + 2^128 - o.toNat) % 2^128
  * `U128_sub_borrow`    : (sub n o).2 = if n.toNat < o.toNat then 1 else 0
  * `U128_sub_borrow_eq_one_iff`, `U128_sub_borrow_eq_zero_iff`, `U128_sub_toNat_of_le`
  * `U128_twos_toNat`    : (twos n).toNat = (2^128 - n.toNat) % 2^128
  * `U128_mul64_toNat`   : (mul64 n o).toNat = (n.toNat * o.toNat) % 2^128
  * `U128_mul64_toNat_of_lt` : no-overflow corollary
  * `U128_cmp_eq`        : cmp n o = if n.toNat < o.toNat then -1 else if n.toNat = o.toNat then 0 else 1
  * `U128_cmp_eq_neg_one_iff`, `U128_cmp_eq_zero_iff`, `U128_cmp_eq_one_iff`,
    `U128_cmp_lt_zero_iff`, `U128_cmp_ge_zero_iff`, `U128_cmp_gt_zero_iff`, `U128_cmp_le_zero_iff`
  * `U128_divK_spec` (K = div10, div100, div1000, div10000, div1e8, div1e19):
      ∃ q r, Gen.U128.divK n = .ok (q, r) ∧ q.toNat = n.toNat / K ∧ r.toNat = n.toNat % K
    the equational forms `U128_divK_eq : Gen.U128.divK n = .ok (U128.ofNat (n.toNat / K), UInt64.ofNat (n.toNat % K))`
    and the `@[spec]` Hoare triples `U128_divK_triple`; `U128_divSmall` is the generic body
    (also the `o.w1 = 0` branch of `uint128.div`); `Go.bits.Div64_ok`, `Go.triple_of_ok`.
  * `U128_mul_toNat`     : (mul n o).toNat = n.toNat * o.toNat                    (U256)
  * `U128_mul1e38_toNat` : (mul1e38 n).toNat = n.toNat * 10^38                    (U256)
  * `Go.shl_toNat`, `Go.shr_toNat` (UInt64, any count), `UInt64.toNat_or_of_disjoint`
  * `U128_lsh_toNat`     : (lsh n o).toNat = (n.toNat * 2^o.toNat) % 2^128   (every o, also > 128)
  * `U128_lsh_toNat_of_lt` : no-overflow corollary
  * `U128_rsh_toNat`     : (rsh n o).toNat = n.toNat / 2^o.toNat             (every o, also > 128)
  * `U128_or64_toNat`    : (or64 n o).toNat = n.toNat ||| o.toNat; `U128_or64_toNat_of_disjoint`
  * `uint128PowersOf10_toNat` : i < 39 → uint128PowersOf10[i].toNat = 10^i; `uint128PowersOf10_vget`
-/
import Std.Tactic.Do
import Mathlib.Tactic.Ring
import Mathlib.Tactic.Linarith
import Mathlib.Tactic.IntervalCases
import D128.Gen.Int

set_option autoImplicit false
set_option maxRecDepth 4096
open Std.Do

/-- `x = y % M` from an explicit multiple: keeps `omega` away from `% 2^128`
(it tends to diverge on it when unrelated equations are in the context). -/
theorem Nat.eq_mod_of_add_mul {x y M : Nat} (k : Nat) (h : x + k * M = y) (hx : x < M) :
    x = y % M := by
  subst h
  rw [Nat.add_mul_mod_self_right, Nat.mod_eq_of_lt hx]

/-! ## math/bits -/

namespace Go.bits

theorem Add64_spec (x y c : UInt64) (hc : c.toNat ≤ 1) :
    (Add64 x y c).1.toNat + (Add64 x y c).2.toNat * 2^64 = x.toNat + y.toNat + c.toNat
      ∧ (Add64 x y c).2.toNat ≤ 1 := by
  have hc' : c ≤ 1 := by simpa [UInt64.le_iff_toNat_le] using hc
  have := x.toNat_lt; have := y.toNat_lt
  simp [Add64, hc', UInt64.toNat_ofNat']
  omega

theorem Sub64_spec (x y b : UInt64) (hb : b.toNat ≤ 1) :
    (Sub64 x y b).1.toNat + y.toNat + b.toNat = x.toNat + (Sub64 x y b).2.toNat * 2^64
      ∧ (Sub64 x y b).2.toNat ≤ 1 := by
  have hb' : b ≤ 1 := by simpa [UInt64.le_iff_toNat_le] using hb
  have := x.toNat_lt; have := y.toNat_lt
  simp only [Sub64, hb', if_true]
  split <;> simp [UInt64.toNat_ofNat'] <;> omega

theorem Mul64_spec (x y : UInt64) :
    (Mul64 x y).2.toNat + (Mul64 x y).1.toNat * 2^64 = x.toNat * y.toNat := by
  have hx := x.toNat_lt; have hy := y.toNat_lt
  have : x.toNat * y.toNat < 2^64 * 2^64 := Nat.mul_lt_mul'' hx hy
  simp [Mul64, UInt64.toNat_ofNat']
  omega

/-- `bits.Div64` does not panic when `hi < y`, and returns quotient and remainder. -/
theorem Div64_eq (hi lo y : UInt64) (h : hi.toNat < y.toNat) :
    Div64 hi lo y = .ok (UInt64.ofNat ((hi.toNat * 2^64 + lo.toNat) / y.toNat),
                         UInt64.ofNat ((hi.toNat * 2^64 + lo.toNat) % y.toNat)) := by
  have h0 : y ≠ 0 := by
    intro h0; subst h0; simp at h
  have h1 : ¬ y ≤ hi := by simpa [UInt64.le_iff_toNat_le] using h
  simp [Div64, h0, h1]
  rfl

theorem Div64_quo_toNat (hi lo y : UInt64) (h : hi.toNat < y.toNat) :
    (UInt64.ofNat ((hi.toNat * 2^64 + lo.toNat) / y.toNat)).toNat
      = (hi.toNat * 2^64 + lo.toNat) / y.toNat := by
  have := lo.toNat_lt; have := y.toNat_lt
  rw [UInt64.toNat_ofNat', Nat.mod_eq_of_lt]
  rw [Nat.div_lt_iff_lt_mul (by omega)]
  calc hi.toNat * 2^64 + lo.toNat < (hi.toNat + 1) * 2^64 := by omega
    _ ≤ y.toNat * 2^64 := Nat.mul_le_mul_right _ h
    _ = 2^64 * y.toNat := Nat.mul_comm _ _

theorem Div64_rem_toNat (hi lo y : UInt64) (h : hi.toNat < y.toNat) :
    (UInt64.ofNat ((hi.toNat * 2^64 + lo.toNat) % y.toNat)).toNat
      = (hi.toNat * 2^64 + lo.toNat) % y.toNat := by
  have := y.toNat_lt
  have : (hi.toNat * 2^64 + lo.toNat) % y.toNat < y.toNat := Nat.mod_lt _ (by omega)
  rw [UInt64.toNat_ofNat', Nat.mod_eq_of_lt]; omega

end Go.bits

/-! ## `U128` basics -/

theorem U128.toNat_lt (n : U128) : n.toNat < 2^128 := by
  have := n.w0.toNat_lt; have := n.w1.toNat_lt
  simp only [U128.toNat]; omega

theorem U128.toNat_inj {n o : U128} (h : n.toNat = o.toNat) : n = o := by
  have := n.w0.toNat_lt; have := n.w1.toNat_lt
  have := o.w0.toNat_lt; have := o.w1.toNat_lt
  cases n; cases o
  simp only [U128.toNat] at *
  simp only [U128.mk.injEq]
  constructor <;> apply UInt64.toNat_inj.mp <;> omega

theorem U128.eq_iff_toNat_eq {n o : U128} : n = o ↔ n.toNat = o.toNat :=
  ⟨fun h => h ▸ rfl, U128.toNat_inj⟩

theorem U128.toNat_ofNat (m : Nat) (h : m < 2^128) : (U128.ofNat m).toNat = m := by
  simp only [U128.ofNat, U128.toNat, UInt64.toNat_ofNat']
  omega

theorem U128.ofNat_toNat (n : U128) : U128.ofNat n.toNat = n :=
  U128.toNat_inj (U128.toNat_ofNat _ n.toNat_lt)

theorem U128.eq_ofNat_of_toNat_eq {q : U128} {m : Nat} (h : q.toNat = m) : q = U128.ofNat m := by
  rw [← h, U128.ofNat_toNat]

theorem UInt64.eq_ofNat_of_toNat_eq {r : UInt64} {m : Nat} (h : r.toNat = m) :
    r = UInt64.ofNat m := by
  rw [← h, UInt64.ofNat_toNat]

theorem U192.toNat_lt (n : U192) : n.toNat < 2^192 := by
  have := n.w0.toNat_lt; have := n.w1.toNat_lt; have := n.w2.toNat_lt
  simp only [U192.toNat]; omega

theorem U256.toNat_lt (n : U256) : n.toNat < 2^256 := by
  have := n.w0.toNat_lt; have := n.w1.toNat_lt; have := n.w2.toNat_lt; have := n.w3.toNat_lt
  simp only [U256.toNat]; omega

/-! ## add64 / sub64 / add / sub / twos -/

@[simp] theorem U128_add64_toNat (n : U128) (o : UInt64) :
    (Gen.U128.add64 n o).toNat = (n.toNat + o.toNat) % 2^128 := by
  unfold Gen.U128.add64
  have := n.w0.toNat_lt; have := n.w1.toNat_lt; have := o.toNat_lt
  obtain ⟨h1, h2⟩ := Go.bits.Add64_spec n.w0 o 0 (by simp)
  have := (Go.bits.Add64 n.w0 o 0).1.toNat_lt
  simp only [U128.toNat, Id.run, pure, UInt64.toNat_add]
  simp only [UInt64.toNat_zero] at h1
  apply Nat.eq_mod_of_add_mul ((n.w1.toNat + (Go.bits.Add64 n.w0 o 0).2.toNat) / 2^64) <;> omega

theorem U128_add64_toNat_of_lt (n : U128) (o : UInt64) (h : n.toNat + o.toNat < 2^128) :
    (Gen.U128.add64 n o).toNat = n.toNat + o.toNat := by
  rw [U128_add64_toNat, Nat.mod_eq_of_lt h]

@[simp] theorem U128_sub64_toNat (n : U128) (o : UInt64) :
    (Gen.U128.sub64 n o).toNat = (n.toNat + 2^128 - o.toNat) % 2^128 := by
  unfold Gen.U128.sub64
  have := n.w0.toNat_lt; have := n.w1.toNat_lt; have := o.toNat_lt
  obtain ⟨h1, h2⟩ := Go.bits.Sub64_spec n.w0 o 0 (by simp)
  simp only [U128.toNat, Id.run, pure, UInt64.toNat_sub]
  simp only [UInt64.toNat_zero] at h1
  have := (Go.bits.Sub64 n.w0 o 0).1.toNat_lt
  apply Nat.eq_mod_of_add_mul
    ((2^64 - (Go.bits.Sub64 n.w0 o 0).2.toNat + n.w1.toNat) / 2^64) <;> omega

theorem U128_sub64_toNat_of_le (n : U128) (o : UInt64) (h : o.toNat ≤ n.toNat) :
    (Gen.U128.sub64 n o).toNat = n.toNat - o.toNat := by
  have := n.toNat_lt
  rw [U128_sub64_toNat]; omega

@[simp] theorem U128_add_toNat (n o : U128) :
    (Gen.U128.add n o).toNat = n.toNat + o.toNat := by
  unfold Gen.U128.add
  obtain ⟨h1, h2⟩ := Go.bits.Add64_spec n.w0 o.w0 0 (by simp)
  obtain ⟨h3, h4⟩ := Go.bits.Add64_spec n.w1 o.w1 _ h2
  simp only [U128.toNat, U192.toNat, Id.run, pure]
  simp only [UInt64.toNat_zero] at h1
  omega

@[simp] theorem U128_sub_toNat (n o : U128) :
    (Gen.U128.sub n o).1.toNat = (n.toNat + 2^128 - o.toNat) % 2^128 := by
  unfold Gen.U128.sub
  have := n.w0.toNat_lt; have := n.w1.toNat_lt; have := o.w0.toNat_lt; have := o.w1.toNat_lt
  obtain ⟨h1, h2⟩ := Go.bits.Sub64_spec n.w0 o.w0 0 (by simp)
  obtain ⟨h3, h4⟩ := Go.bits.Sub64_spec n.w1 o.w1 _ h2
  have := (Go.bits.Sub64 n.w0 o.w0 0).1.toNat_lt
  have := (Go.bits.Sub64 n.w1 o.w1 (Go.bits.Sub64 n.w0 o.w0 0).2).1.toNat_lt
  simp only [U128.toNat, Id.run, pure]
  simp only [UInt64.toNat_zero] at h1
  apply Nat.eq_mod_of_add_mul
    (1 - (Go.bits.Sub64 n.w1 o.w1 (Go.bits.Sub64 n.w0 o.w0 0).2).2.toNat) <;> omega

/-- the borrow of `sub` is `1` exactly when `n < o`, else `0`. -/
theorem U128_sub_borrow (n o : U128) :
    (Gen.U128.sub n o).2 = if n.toNat < o.toNat then 1 else 0 := by
  unfold Gen.U128.sub
  have := n.w0.toNat_lt; have := n.w1.toNat_lt; have := o.w0.toNat_lt; have := o.w1.toNat_lt
  obtain ⟨h1, h2⟩ := Go.bits.Sub64_spec n.w0 o.w0 0 (by simp)
  obtain ⟨h3, h4⟩ := Go.bits.Sub64_spec n.w1 o.w1 _ h2
  have := (Go.bits.Sub64 n.w0 o.w0 0).1.toNat_lt
  have := (Go.bits.Sub64 n.w1 o.w1 (Go.bits.Sub64 n.w0 o.w0 0).2).1.toNat_lt
  simp only [U128.toNat, Id.run, pure]
  simp only [UInt64.toNat_zero] at h1
  apply UInt64.toNat_inj.mp
  by_cases hlt : n.w0.toNat + n.w1.toNat * 2 ^ 64 < o.w0.toNat + o.w1.toNat * 2 ^ 64
  · simp only [hlt, if_true, UInt64.toNat_one]; omega
  · simp only [hlt, if_false, UInt64.toNat_zero]; omega

theorem U128_sub_borrow_eq_one_iff (n o : U128) :
    (Gen.U128.sub n o).2 = 1 ↔ n.toNat < o.toNat := by
  rw [U128_sub_borrow]; split <;> simp_all

theorem U128_sub_borrow_eq_zero_iff (n o : U128) :
    (Gen.U128.sub n o).2 = 0 ↔ o.toNat ≤ n.toNat := by
  rw [U128_sub_borrow]; split <;> simp_all

theorem U128_sub_toNat_of_le (n o : U128) (h : o.toNat ≤ n.toNat) :
    (Gen.U128.sub n o).1.toNat = n.toNat - o.toNat := by
  have := n.toNat_lt
  rw [U128_sub_toNat]; omega

@[simp] theorem U128_twos_toNat (n : U128) :
    (Gen.U128.twos n).toNat = (2^128 - n.toNat) % 2^128 := by
  unfold Gen.U128.twos
  have := n.w0.toNat_lt; have := n.w1.toNat_lt
  obtain ⟨h1, h2⟩ := Go.bits.Add64_spec (~~~n.w0) 1 0 (by simp)
  simp only [U128.toNat, Id.run, pure, UInt64.toNat_add]
  simp only [UInt64.toNat_zero, UInt64.toNat_one, UInt64.toNat_not, UInt64.size] at h1 ⊢
  have := (Go.bits.Add64 (~~~n.w0) 1 0).1.toNat_lt
  apply Nat.eq_mod_of_add_mul
    ((2^64 - 1 - n.w1.toNat + (Go.bits.Add64 (~~~n.w0) 1 0).2.toNat) / 2^64) <;> omega

/-! ## mul64 -/

@[simp] theorem U128_mul64_toNat (n : U128) (o : UInt64) :
    (Gen.U128.mul64 n o).toNat = (n.toNat * o.toNat) % 2^128 := by
  unfold Gen.U128.mul64
  have h := Go.bits.Mul64_spec n.w0 o
  have := (Go.bits.Mul64 n.w0 o).1.toNat_lt
  have := (Go.bits.Mul64 n.w0 o).2.toNat_lt
  simp only [U128.toNat, Id.run, pure, UInt64.toNat_add, UInt64.toNat_mul]
  have e : (n.w0.toNat + n.w1.toNat * 2^64) * o.toNat
      = n.w0.toNat * o.toNat + (n.w1.toNat * o.toNat) * 2^64 := by ring
  rw [e]
  generalize n.w0.toNat * o.toNat = p at *
  generalize n.w1.toNat * o.toNat = q at *
  apply Nat.eq_mod_of_add_mul
    (((Go.bits.Mul64 n.w0 o).1.toNat + q % 2^64) / 2^64 + q / 2^64) <;> omega

theorem U128_mul64_toNat_of_lt (n : U128) (o : UInt64) (h : n.toNat * o.toNat < 2^128) :
    (Gen.U128.mul64 n o).toNat = n.toNat * o.toNat := by
  rw [U128_mul64_toNat, Nat.mod_eq_of_lt h]

/-! ## cmp -/

theorem U128_cmp_eq (n o : U128) :
    Gen.U128.cmp n o = if n.toNat < o.toNat then -1 else if n.toNat = o.toNat then 0 else 1 := by
  unfold Gen.U128.cmp
  have := n.w0.toNat_lt; have := n.w1.toNat_lt; have := o.w0.toNat_lt; have := o.w1.toNat_lt
  have hn : n.toNat = n.w0.toNat + n.w1.toNat * 2^64 := rfl
  have ho : o.toNat = o.w0.toNat + o.w1.toNat * 2^64 := rfl
  simp only [Id.run, pure, beq_iff_eq, decide_eq_true_eq, UInt64.lt_iff_toNat_lt,
    ← UInt64.toNat_inj]
  by_cases h1 : n.w1.toNat = o.w1.toNat
  · by_cases h0 : n.w0.toNat = o.w0.toNat
    · rw [if_pos h1, if_pos h0, if_neg (by omega), if_pos (by omega)]
    · by_cases hl : n.w0.toNat < o.w0.toNat
      · rw [if_pos h1, if_neg h0, if_pos hl, if_pos (by omega)]
      · rw [if_pos h1, if_neg h0, if_neg hl, if_neg (by omega), if_neg (by omega)]
  · by_cases hl : n.w1.toNat < o.w1.toNat
    · rw [if_neg h1, if_pos hl, if_pos (by omega)]
    · rw [if_neg h1, if_neg hl, if_neg (by omega), if_neg (by omega)]

theorem U128_cmp_eq_neg_one_iff (n o : U128) : Gen.U128.cmp n o = -1 ↔ n.toNat < o.toNat := by
  rw [U128_cmp_eq]; split_ifs <;> simp_all

theorem U128_cmp_eq_zero_iff (n o : U128) : Gen.U128.cmp n o = 0 ↔ n.toNat = o.toNat := by
  rw [U128_cmp_eq]; split_ifs <;> simp_all
  first | decide | omega

theorem U128_cmp_eq_one_iff (n o : U128) : Gen.U128.cmp n o = 1 ↔ o.toNat < n.toNat := by
  rw [U128_cmp_eq]; split_ifs <;> simp_all <;> try (first | decide | omega)

theorem U128_cmp_lt_zero_iff (n o : U128) : Gen.U128.cmp n o < 0 ↔ n.toNat < o.toNat := by
  rw [U128_cmp_eq]; split_ifs <;> simp_all

theorem U128_cmp_ge_zero_iff (n o : U128) : Gen.U128.cmp n o ≥ 0 ↔ o.toNat ≤ n.toNat := by
  rw [U128_cmp_eq]; split_ifs <;> simp_all

theorem U128_cmp_gt_zero_iff (n o : U128) : Gen.U128.cmp n o > 0 ↔ o.toNat < n.toNat := by
  rw [U128_cmp_eq]; split_ifs <;> simp_all <;> try (first | decide | omega)

theorem U128_cmp_le_zero_iff (n o : U128) : Gen.U128.cmp n o ≤ 0 ↔ n.toNat ≤ o.toNat := by
  rw [U128_cmp_eq]; split_ifs <;> simp_all <;> try (first | decide | omega)

/-! ## division by small constants -/

theorem Nat.two_step_div (w0 w1 d B : Nat) :
    (w0 + w1 * B) / d = ((w1 % d) * B + w0) / d + (w1 / d) * B
      ∧ (w0 + w1 * B) % d = ((w1 % d) * B + w0) % d := by
  have e : w0 + w1 * B = ((w1 % d) * B + w0) + d * ((w1 / d) * B) := by
    conv_lhs => rw [← Nat.div_add_mod w1 d]
    ring
  rcases Nat.eq_zero_or_pos d with rfl | hd
  · simp [Nat.add_comm]
  · rw [e, Nat.add_mul_div_left _ _ hd, Nat.add_mul_mod_self_left]
    exact ⟨rfl, rfl⟩

/-- `bits.Div64` with `hi < y`: no panic, exact quotient and remainder. -/
theorem Go.bits.Div64_ok (hi lo y : UInt64) (h : hi.toNat < y.toNat) :
    ∃ q r, Go.bits.Div64 hi lo y = .ok (q, r)
      ∧ q.toNat = (hi.toNat * 2^64 + lo.toNat) / y.toNat
      ∧ r.toNat = (hi.toNat * 2^64 + lo.toNat) % y.toNat :=
  ⟨_, _, Go.bits.Div64_eq hi lo y h, Go.bits.Div64_quo_toNat hi lo y h,
    Go.bits.Div64_rem_toNat hi lo y h⟩

/-- From an equation `f = .ok v` one gets the Hoare triple (no panic, result satisfies `Q`). -/
theorem Go.triple_of_ok {α : Type} {f : Go.GoM α} {v : α} (h : f = .ok v) {Q : α → Prop}
    (hq : Q v) : ⦃⌜True⌝⦄ f ⦃⇓ r => ⌜Q r⌝⦄ := by
  subst h
  exact Triple.pure (m := Go.GoM) v (by simp [hq])

/-- The common body of `uint128.div10 … div1e19` and of the 64-bit-divisor branch of
`uint128.div`: schoolbook division of a two-word number by a one-word divisor `d ≠ 0`. -/
theorem U128_divSmall (n : U128) (d : UInt64) (hd : 0 < d.toNat) :
    ∃ q r, (if n.w1.toNat < d.toNat then do
          let t_1 ← Go.bits.Div64 n.w1 n.w0 d
          pure (({ w0 := t_1.1, w1 := 0 } : U128), t_1.2)
        else do
          let t_4 ← Go.bits.Div64 0 n.w1 d
          let t_7 ← Go.bits.Div64 t_4.2 n.w0 d
          pure ({ w0 := t_7.1, w1 := t_4.1 }, t_7.2)) =
        Except.ok (q, r) ∧
      q.toNat = n.toNat / d.toNat ∧ r.toNat = n.toNat % d.toNat := by
  by_cases h : n.w1.toNat < d.toNat
  · obtain ⟨q0, r0, e0, hq0, hr0⟩ := Go.bits.Div64_ok n.w1 n.w0 d h
    rw [if_pos h, e0]
    refine ⟨_, _, rfl, ?_, ?_⟩
    · simp only [U128.toNat, hq0, UInt64.toNat_zero]
      rw [Nat.add_comm n.w0.toNat]; omega
    · simp only [U128.toNat, hr0]
      rw [Nat.add_comm n.w0.toNat]
  · obtain ⟨q1, r1, e1, hq1, hr1⟩ := Go.bits.Div64_ok 0 n.w1 d (by simpa using hd)
    simp only [UInt64.toNat_zero, Nat.zero_mul, Nat.zero_add] at hq1 hr1
    obtain ⟨q0, r0, e0, hq0, hr0⟩ :=
      Go.bits.Div64_ok r1 n.w0 d (by rw [hr1]; exact Nat.mod_lt _ hd)
    rw [if_neg h, e1]
    simp only [bind, Except.bind]
    rw [e0]
    refine ⟨_, _, rfl, ?_, ?_⟩
    · simp only [U128.toNat, hq0, hr1, hq1]
      exact ((Nat.two_step_div _ _ _ _).1).symm
    · simp only [U128.toNat, hr0, hr1]
      exact ((Nat.two_step_div _ _ _ _).2).symm

/-- `uint128.div10` never panics and returns exactly quotient and remainder by 10. -/
theorem U128_div10_spec (n : U128) :
    ∃ q r, Gen.U128.div10 n = .ok (q, r) ∧ q.toNat = n.toNat / 10 ∧ r.toNat = n.toNat % 10 := by
  unfold Gen.U128.div10
  simp only [decide_eq_true_eq, UInt64.lt_iff_toNat_lt]
  exact U128_divSmall n 10 (by decide)

/-- equational form of `U128_div10_spec`, convenient for rewriting. -/
theorem U128_div10_eq (n : U128) :
    Gen.U128.div10 n = .ok (U128.ofNat (n.toNat / 10), UInt64.ofNat (n.toNat % 10)) := by
  obtain ⟨q, r, e, hq, hr⟩ := U128_div10_spec n
  rw [e, U128.eq_ofNat_of_toNat_eq hq, UInt64.eq_ofNat_of_toNat_eq hr]

@[spec] theorem U128_div10_triple (n : U128) :
    ⦃⌜True⌝⦄ Gen.U128.div10 n
    ⦃⇓ x => ⌜x.1.toNat = n.toNat / 10 ∧ x.2.toNat = n.toNat % 10⌝⦄ := by
  obtain ⟨q, r, e, hq, hr⟩ := U128_div10_spec n
  exact Go.triple_of_ok e ⟨hq, hr⟩

/-- `uint128.div100` never panics and returns exactly quotient and remainder by 100. -/
theorem U128_div100_spec (n : U128) :
    ∃ q r, Gen.U128.div100 n = .ok (q, r) ∧ q.toNat = n.toNat / 100 ∧ r.toNat = n.toNat % 100 := by
  unfold Gen.U128.div100
  simp only [decide_eq_true_eq, UInt64.lt_iff_toNat_lt]
  exact U128_divSmall n 100 (by decide)

/-- equational form of `U128_div100_spec`, convenient for rewriting. -/
theorem U128_div100_eq (n : U128) :
    Gen.U128.div100 n = .ok (U128.ofNat (n.toNat / 100), UInt64.ofNat (n.toNat % 100)) := by
  obtain ⟨q, r, e, hq, hr⟩ := U128_div100_spec n
  rw [e, U128.eq_ofNat_of_toNat_eq hq, UInt64.eq_ofNat_of_toNat_eq hr]

@[spec] theorem U128_div100_triple (n : U128) :
    ⦃⌜True⌝⦄ Gen.U128.div100 n
    ⦃⇓ x => ⌜x.1.toNat = n.toNat / 100 ∧ x.2.toNat = n.toNat % 100⌝⦄ := by
  obtain ⟨q, r, e, hq, hr⟩ := U128_div100_spec n
  exact Go.triple_of_ok e ⟨hq, hr⟩

/-- `uint128.div1000` never panics and returns exactly quotient and remainder by 1000. -/
theorem U128_div1000_spec (n : U128) :
    ∃ q r, Gen.U128.div1000 n = .ok (q, r) ∧ q.toNat = n.toNat / 1000 ∧ r.toNat = n.toNat % 1000 := by
  unfold Gen.U128.div1000
  simp only [decide_eq_true_eq, UInt64.lt_iff_toNat_lt]
  exact U128_divSmall n 1000 (by decide)

/-- equational form of `U128_div1000_spec`, convenient for rewriting. -/
theorem U128_div1000_eq (n : U128) :
    Gen.U128.div1000 n = .ok (U128.ofNat (n.toNat / 1000), UInt64.ofNat (n.toNat % 1000)) := by
  obtain ⟨q, r, e, hq, hr⟩ := U128_div1000_spec n
  rw [e, U128.eq_ofNat_of_toNat_eq hq, UInt64.eq_ofNat_of_toNat_eq hr]

@[spec] theorem U128_div1000_triple (n : U128) :
    ⦃⌜True⌝⦄ Gen.U128.div1000 n
    ⦃⇓ x => ⌜x.1.toNat = n.toNat / 1000 ∧ x.2.toNat = n.toNat % 1000⌝⦄ := by
  obtain ⟨q, r, e, hq, hr⟩ := U128_div1000_spec n
  exact Go.triple_of_ok e ⟨hq, hr⟩

/-- `uint128.div10000` never panics and returns exactly quotient and remainder by 10000. -/
theorem U128_div10000_spec (n : U128) :
    ∃ q r, Gen.U128.div10000 n = .ok (q, r) ∧ q.toNat = n.toNat / 10000 ∧ r.toNat = n.toNat % 10000 := by
  unfold Gen.U128.div10000
  simp only [decide_eq_true_eq, UInt64.lt_iff_toNat_lt]
  exact U128_divSmall n 10000 (by decide)

/-- equational form of `U128_div10000_spec`, convenient for rewriting. -/
theorem U128_div10000_eq (n : U128) :
    Gen.U128.div10000 n = .ok (U128.ofNat (n.toNat / 10000), UInt64.ofNat (n.toNat % 10000)) := by
  obtain ⟨q, r, e, hq, hr⟩ := U128_div10000_spec n
  rw [e, U128.eq_ofNat_of_toNat_eq hq, UInt64.eq_ofNat_of_toNat_eq hr]

@[spec] theorem U128_div10000_triple (n : U128) :
    ⦃⌜True⌝⦄ Gen.U128.div10000 n
    ⦃⇓ x => ⌜x.1.toNat = n.toNat / 10000 ∧ x.2.toNat = n.toNat % 10000⌝⦄ := by
  obtain ⟨q, r, e, hq, hr⟩ := U128_div10000_spec n
  exact Go.triple_of_ok e ⟨hq, hr⟩

/-- `uint128.div1e8` never panics and returns exactly quotient and remainder by 10^8. -/
theorem U128_div1e8_spec (n : U128) :
    ∃ q r, Gen.U128.div1e8 n = .ok (q, r) ∧ q.toNat = n.toNat / 10^8 ∧ r.toNat = n.toNat % 10^8 := by
  unfold Gen.U128.div1e8
  simp only [decide_eq_true_eq, UInt64.lt_iff_toNat_lt]
  exact U128_divSmall n 100000000 (by decide)

/-- equational form of `U128_div1e8_spec`, convenient for rewriting. -/
theorem U128_div1e8_eq (n : U128) :
    Gen.U128.div1e8 n = .ok (U128.ofNat (n.toNat / 10^8), UInt64.ofNat (n.toNat % 10^8)) := by
  obtain ⟨q, r, e, hq, hr⟩ := U128_div1e8_spec n
  rw [e, U128.eq_ofNat_of_toNat_eq hq, UInt64.eq_ofNat_of_toNat_eq hr]

@[spec] theorem U128_div1e8_triple (n : U128) :
    ⦃⌜True⌝⦄ Gen.U128.div1e8 n
    ⦃⇓ x => ⌜x.1.toNat = n.toNat / 10^8 ∧ x.2.toNat = n.toNat % 10^8⌝⦄ := by
  obtain ⟨q, r, e, hq, hr⟩ := U128_div1e8_spec n
  exact Go.triple_of_ok e ⟨hq, hr⟩

/-- `uint128.div1e19` never panics and returns exactly quotient and remainder by 10^19. -/
theorem U128_div1e19_spec (n : U128) :
    ∃ q r, Gen.U128.div1e19 n = .ok (q, r) ∧ q.toNat = n.toNat / 10^19 ∧ r.toNat = n.toNat % 10^19 := by
  unfold Gen.U128.div1e19
  simp only [decide_eq_true_eq, UInt64.lt_iff_toNat_lt]
  exact U128_divSmall n 10000000000000000000 (by decide)

/-- equational form of `U128_div1e19_spec`, convenient for rewriting. -/
theorem U128_div1e19_eq (n : U128) :
    Gen.U128.div1e19 n = .ok (U128.ofNat (n.toNat / 10^19), UInt64.ofNat (n.toNat % 10^19)) := by
  obtain ⟨q, r, e, hq, hr⟩ := U128_div1e19_spec n
  rw [e, U128.eq_ofNat_of_toNat_eq hq, UInt64.eq_ofNat_of_toNat_eq hr]

@[spec] theorem U128_div1e19_triple (n : U128) :
    ⦃⌜True⌝⦄ Gen.U128.div1e19 n
    ⦃⇓ x => ⌜x.1.toNat = n.toNat / 10^19 ∧ x.2.toNat = n.toNat % 10^19⌝⦄ := by
  obtain ⟨q, r, e, hq, hr⟩ := U128_div1e19_spec n
  exact Go.triple_of_ok e ⟨hq, hr⟩

/-! ## mul / mul1e38 -/


theorem Go.bits.Mul64_spec' (x y : UInt64) :
    (Go.bits.Mul64 x y).2.toNat + (Go.bits.Mul64 x y).1.toNat * 2^64 = x.toNat * y.toNat
    ∧ x.toNat * y.toNat ≤ (2^64 - 1) * (2^64 - 1) := by
  refine ⟨Go.bits.Mul64_spec x y, ?_⟩
  have hx := x.toNat_lt; have hy := y.toNat_lt
  exact Nat.mul_le_mul (by omega) (by omega)

/-- the schoolbook 2×2-word multiplication shared by `uint128.mul` and `uint128.mul1e38`:
after unfolding, the goal is `(U256.mk …).toNat = (a0 + a1·2^64) * (b0 + b1·2^64)`. -/
macro "u128_mul_core " a0:term:max a1:term:max b0:term:max b1:term:max : tactic => `(tactic| (
  simp only [U256.toNat, Id.run, pure]
  obtain ⟨m00, b00⟩ := Go.bits.Mul64_spec' $a0 $b0
  obtain ⟨m10, b10⟩ := Go.bits.Mul64_spec' $a1 $b0
  obtain ⟨m01, b01⟩ := Go.bits.Mul64_spec' $a0 $b1
  obtain ⟨m11, b11⟩ := Go.bits.Mul64_spec' $a1 $b1
  have e : (($a0).toNat + ($a1).toNat * 2^64) * (($b0).toNat + ($b1).toNat * 2^64)
      = ($a0).toNat * ($b0).toNat + (($a1).toNat * ($b0).toNat + ($a0).toNat * ($b1).toNat) * 2^64
        + ($a1).toNat * ($b1).toNat * 2^128 := by ring
  rw [e]
  generalize ($a0).toNat * ($b0).toNat = p00 at *
  generalize ($a1).toNat * ($b0).toNat = p10 at *
  generalize ($a0).toNat * ($b1).toNat = p01 at *
  generalize ($a1).toNat * ($b1).toNat = p11 at *
  generalize Go.bits.Mul64 $a0 $b0 = M00 at *
  generalize Go.bits.Mul64 $a1 $b0 = M10 at *
  generalize Go.bits.Mul64 $a0 $b1 = M01 at *
  generalize Go.bits.Mul64 $a1 $b1 = M11 at *
  obtain ⟨a1, c1⟩ := Go.bits.Add64_spec M00.1 M10.2 0 (by simp)
  obtain ⟨a2, c2⟩ := Go.bits.Add64_spec M10.1 M01.1 _ c1
  obtain ⟨a3, c3⟩ := Go.bits.Add64_spec (Go.bits.Add64 M00.1 M10.2 0).1 M01.2 0 (by simp)
  obtain ⟨a4, c4⟩ := Go.bits.Add64_spec
    (Go.bits.Add64 M10.1 M01.1 (Go.bits.Add64 M00.1 M10.2 0).2).1 M11.2 _ c3
  obtain ⟨a5, c5⟩ := Go.bits.Add64_spec M11.1
    (Go.bits.Add64 M10.1 M01.1 (Go.bits.Add64 M00.1 M10.2 0).2).2 _ c4
  simp only [UInt64.toNat_zero] at a1 a3
  omega))

@[simp] theorem U128_mul_toNat (n o : U128) :
    (Gen.U128.mul n o).toNat = n.toNat * o.toNat := by
  unfold Gen.U128.mul
  simp only [U128.toNat]
  u128_mul_core n.w0 n.w1 o.w0 o.w1

private theorem U128_mul1e38_aux (n : U128) (b0 b1 : UInt64) (h0 : b0 = 687399551400673280)
    (h1 : b1 = 5421010862427522170) :
    (Gen.U128.mul1e38 n).toNat = n.toNat * (b0.toNat + b1.toNat * 2^64) := by
  unfold Gen.U128.mul1e38
  rw [← h0, ← h1]
  simp only [U128.toNat]
  u128_mul_core n.w0 n.w1 b0 b1

@[simp] theorem U128_mul1e38_toNat (n : U128) :
    (Gen.U128.mul1e38 n).toNat = n.toNat * 10^38 := by
  have h38 : (10:Nat)^38 = (687399551400673280 : UInt64).toNat
      + (5421010862427522170 : UInt64).toNat * 2^64 := by
    simp only [UInt64.toNat_ofNat, Nat.reducePow, Nat.reduceMod, Nat.reduceMul, Nat.reduceAdd]
  rw [h38]
  exact U128_mul1e38_aux n _ _ rfl rfl



/-! ## shifts -/

theorem Go.shl_toNat (x : UInt64) (s : Int) :
    (Go.shl x s).toNat = (x.toNat * 2^s.toNat) % 2^64 := by
  simp only [Go.shl, GoShift.shl]
  split
  · rename_i h
    rw [UInt64.toNat_shiftLeft, UInt64.toNat_ofNat', Nat.shiftLeft_eq]
    have : s.toNat % 2^64 % 64 = s.toNat := by omega
    rw [this]
  · rename_i h
    have h64 : 64 ≤ s.toNat := by omega
    obtain ⟨k, hk⟩ := Nat.exists_eq_add_of_le h64
    have e : x.toNat * 2 ^ (64 + k) = 2^64 * (x.toNat * 2^k) := by rw [Nat.pow_add]; ring
    rw [hk, e, Nat.mul_mod_right]
    rfl

theorem Go.shr_toNat (x : UInt64) (s : Int) :
    (Go.shr x s).toNat = x.toNat / 2^s.toNat := by
  simp only [Go.shr, GoShift.shr]
  split
  · rename_i h
    rw [UInt64.toNat_shiftRight, UInt64.toNat_ofNat', Nat.shiftRight_eq_div_pow]
    have : s.toNat % 2^64 % 64 = s.toNat := by omega
    rw [this]
  · rename_i h
    have h64 : 64 ≤ s.toNat := by omega
    have : x.toNat < 2^s.toNat := Nat.lt_of_lt_of_le x.toNat_lt (Nat.pow_le_pow_right (by omega) h64)
    rw [Nat.div_eq_of_lt this]; rfl

/-- `|||` of a multiple of `2^k` with a number below `2^k` is their sum. -/
theorem UInt64.toNat_or_of_disjoint (a b : UInt64) (k : Nat) (ha : a.toNat % 2^k = 0)
    (hb : b.toNat < 2^k) : (a ||| b).toNat = a.toNat + b.toNat := by
  rw [UInt64.toNat_or]
  have e : a.toNat = (a.toNat / 2^k) <<< k := by
    rw [Nat.shiftLeft_eq]; exact (Nat.div_mul_cancel (Nat.dvd_of_mod_eq_zero ha)).symm
  rw [e, ← Nat.shiftLeft_add_eq_or_of_lt hb]

theorem Nat.mul_pow_div_pow (a s : Nat) (hs : s ≤ 64) :
    (a * 2^s) / 2^64 = a / 2^(64 - s) := by
  have : (2:Nat)^64 = 2^(64 - s) * 2^s := by rw [← Nat.pow_add]; congr 1; omega
  rw [this, Nat.mul_div_mul_right _ _ (Nat.two_pow_pos _)]

theorem Nat.mul_pow_mod_pow (a s : Nat) (hs : s ≤ 64) :
    (a * 2^s) % 2^64 = (a % 2^(64 - s)) * 2^s := by
  have : (2:Nat)^64 = 2^(64 - s) * 2^s := by rw [← Nat.pow_add]; congr 1; omega
  rw [this, Nat.mul_mod_mul_right]

theorem Nat.div_pow_lt_pow (a s : Nat) (hs : s ≤ 64) (ha : a < 2^64) : a / 2^(64 - s) < 2^s := by
  rw [Nat.div_lt_iff_lt_mul (Nat.two_pow_pos _), ← Nat.pow_add]
  have : s + (64 - s) = 64 := by omega
  rw [this]; exact ha

theorem Go.idx_u64 (o : UInt64) : Go.idx o = (o.toNat : Int) := rfl

@[simp] theorem U128_lsh_toNat (n : U128) (o : UInt64) :
    (Gen.U128.lsh n o).toNat = (n.toNat * 2^o.toNat) % 2^128 := by
  unfold Gen.U128.lsh
  simp only [Id.run, pure, decide_eq_true_eq, gt_iff_lt, UInt64.lt_iff_toNat_lt]
  have h64 : (64 : UInt64).toNat = 64 := rfl
  have hw0 := n.w0.toNat_lt; have hw1 := n.w1.toNat_lt
  rw [h64]
  by_cases h : 64 < o.toNat
  · rw [if_pos h]
    have hsub : (o - 64).toNat = o.toNat - 64 := by
      rw [UInt64.toNat_sub_of_le _ _ (by rw [UInt64.le_iff_toNat_le, h64]; omega), h64]
    simp only [U128.toNat, Go.shl_toNat, Go.idx_u64, Int.toNat_natCast, hsub, UInt64.toNat_zero]
    have e : (n.w0.toNat + n.w1.toNat * 2^64) * 2^o.toNat
        = (n.w0.toNat * 2^(o.toNat - 64)) * 2^64 + (n.w1.toNat * 2^(o.toNat - 64)) * 2^128 := by
      have : o.toNat = (o.toNat - 64) + 64 := by omega
      conv_lhs => rw [this, Nat.pow_add]
      ring
    rw [e]
    generalize n.w0.toNat * 2^(o.toNat - 64) = W
    generalize n.w1.toNat * 2^(o.toNat - 64) = X
    apply Nat.eq_mod_of_add_mul (W / 2^64 + X) <;> omega
  · rw [if_neg h]
    have hs : o.toNat ≤ 64 := by omega
    have hsub : (64 - o).toNat = 64 - o.toNat := by
      rw [UInt64.toNat_sub_of_le _ _ (by rw [UInt64.le_iff_toNat_le, h64]; omega), h64]
    have hor : (Go.shl n.w1 (Go.idx o) ||| Go.shr n.w0 (Go.idx (64 - o))).toNat
        = (n.w1.toNat * 2^o.toNat) % 2^64 + n.w0.toNat / 2^(64 - o.toNat) := by
      rw [UInt64.toNat_or_of_disjoint _ _ o.toNat]
      · simp only [Go.shl_toNat, Go.shr_toNat, Go.idx_u64, Int.toNat_natCast, hsub]
      · simp only [Go.shl_toNat, Go.idx_u64, Int.toNat_natCast]
        rw [Nat.mul_pow_mod_pow _ _ hs, Nat.mul_mod_left]
      · simp only [Go.shr_toNat, Go.idx_u64, Int.toNat_natCast, hsub]
        exact Nat.div_pow_lt_pow _ _ hs hw0
    simp only [U128.toNat, hor]
    simp only [Go.shl_toNat, Go.idx_u64, Int.toNat_natCast]
    have hdiv := Nat.mul_pow_div_pow n.w0.toNat o.toNat hs
    have hmod := Nat.mul_pow_mod_pow n.w1.toNat o.toNat hs
    have hlt : n.w0.toNat / 2^(64 - o.toNat) < 2^o.toNat := Nat.div_pow_lt_pow _ _ hs hw0
    have hm : (n.w1.toNat % 2^(64 - o.toNat)) * 2^o.toNat + 2^o.toNat ≤ 2^64 := by
      have h1 : n.w1.toNat % 2^(64 - o.toNat) + 1 ≤ 2^(64 - o.toNat) :=
        Nat.mod_lt _ (Nat.two_pow_pos _)
      have h2 := Nat.mul_le_mul_right (2^o.toNat) h1
      rw [← Nat.pow_add] at h2
      have : 64 - o.toNat + o.toNat = 64 := by omega
      rw [this] at h2
      rw [Nat.add_mul, Nat.one_mul] at h2; exact h2
    rw [← hmod] at hm
    rw [← hdiv] at hlt ⊢
    have e : (n.w0.toNat + n.w1.toNat * 2^64) * 2^o.toNat
        = n.w0.toNat * 2^o.toNat + (n.w1.toNat * 2^o.toNat) * 2^64 := by ring
    rw [e]
    generalize n.w0.toNat * 2^o.toNat = W at *
    generalize n.w1.toNat * 2^o.toNat = X at *
    generalize 2^o.toNat = P at *
    apply Nat.eq_mod_of_add_mul (X / 2^64) <;> omega

theorem U128_lsh_toNat_of_lt (n : U128) (o : UInt64) (h : n.toNat * 2^o.toNat < 2^128) :
    (Gen.U128.lsh n o).toNat = n.toNat * 2^o.toNat := by
  rw [U128_lsh_toNat, Nat.mod_eq_of_lt h]

@[simp] theorem U128_rsh_toNat (n : U128) (o : UInt64) :
    (Gen.U128.rsh n o).toNat = n.toNat / 2^o.toNat := by
  unfold Gen.U128.rsh
  simp only [Id.run, pure, decide_eq_true_eq, gt_iff_lt, UInt64.lt_iff_toNat_lt]
  have h64 : (64 : UInt64).toNat = 64 := rfl
  have hw0 := n.w0.toNat_lt; have hw1 := n.w1.toNat_lt
  rw [h64]
  by_cases h : 64 < o.toNat
  · rw [if_pos h]
    have hsub : (o - 64).toNat = o.toNat - 64 := by
      rw [UInt64.toNat_sub_of_le _ _ (by rw [UInt64.le_iff_toNat_le, h64]; omega), h64]
    simp only [U128.toNat, Go.shr_toNat, Go.idx_u64, Int.toNat_natCast, hsub, UInt64.toNat_zero]
    have e : (2:Nat)^o.toNat = 2^64 * 2^(o.toNat - 64) := by
      rw [← Nat.pow_add]; congr 1; omega
    rw [e, ← Nat.div_div_eq_div_mul]
    have : (n.w0.toNat + n.w1.toNat * 2^64) / 2^64 = n.w1.toNat := by omega
    rw [this]; omega
  · rw [if_neg h]
    have hs : o.toNat ≤ 64 := by omega
    have hs' : 64 - o.toNat ≤ 64 := by omega
    have h2 : 64 - (64 - o.toNat) = o.toNat := by omega
    have hsub : (64 - o).toNat = 64 - o.toNat := by
      rw [UInt64.toNat_sub_of_le _ _ (by rw [UInt64.le_iff_toNat_le, h64]; omega), h64]
    have hor : (Go.shr n.w0 (Go.idx o) ||| Go.shl n.w1 (Go.idx (64 - o))).toNat
        = (n.w1.toNat * 2^(64 - o.toNat)) % 2^64 + n.w0.toNat / 2^o.toNat := by
      rw [UInt64.or_comm, UInt64.toNat_or_of_disjoint _ _ (64 - o.toNat)]
      · simp only [Go.shl_toNat, Go.shr_toNat, Go.idx_u64, Int.toNat_natCast, hsub]
      · simp only [Go.shl_toNat, Go.idx_u64, Int.toNat_natCast, hsub]
        rw [Nat.mul_pow_mod_pow _ _ hs', Nat.mul_mod_left]
      · simp only [Go.shr_toNat, Go.idx_u64, Int.toNat_natCast]
        have := Nat.div_pow_lt_pow n.w0.toNat (64 - o.toNat) hs' hw0
        rwa [h2] at this
    simp only [U128.toNat, hor]
    simp only [Go.shr_toNat, Go.idx_u64, Int.toNat_natCast]
    have hdiv := Nat.mul_pow_div_pow n.w1.toNat (64 - o.toNat) hs'
    rw [h2] at hdiv
    have e : n.w0.toNat + n.w1.toNat * 2^64
        = n.w0.toNat + (n.w1.toNat * 2^(64 - o.toNat)) * 2^o.toNat := by
      rw [Nat.mul_assoc, ← Nat.pow_add]
      have : 64 - o.toNat + o.toNat = 64 := by omega
      rw [this]
    rw [e, Nat.add_mul_div_right _ _ (Nat.two_pow_pos _), ← hdiv]
    generalize n.w1.toNat * 2^(64 - o.toNat) = X
    omega

theorem U128_or64_w0 (n : U128) (o : UInt64) : (Gen.U128.or64 n o).w0 = n.w0 ||| o := rfl
theorem U128_or64_w1 (n : U128) (o : UInt64) : (Gen.U128.or64 n o).w1 = n.w1 := rfl

theorem U128_or64_toNat (n : U128) (o : UInt64) :
    (Gen.U128.or64 n o).toNat = n.toNat ||| o.toNat := by
  have ho := o.toNat_lt; have hw0 := n.w0.toNat_lt
  have hor : (n.w0 ||| o).toNat < 2^64 := (n.w0 ||| o).toNat_lt
  simp only [U128.toNat, U128_or64_w0, U128_or64_w1]
  rw [Nat.add_comm, Nat.add_comm n.w0.toNat, ← Nat.shiftLeft_eq,
    Nat.shiftLeft_add_eq_or_of_lt hor, Nat.shiftLeft_add_eq_or_of_lt hw0, UInt64.toNat_or,
    Nat.or_assoc]

/-- `or64` adds when the low bits of `n` are clear (as in `sig.lsh(64).or64(x)`). -/
theorem U128_or64_toNat_of_disjoint (n : U128) (o : UInt64) (k : Nat)
    (hn : n.toNat % 2^k = 0) (ho : o.toNat < 2^k) :
    (Gen.U128.or64 n o).toNat = n.toNat + o.toNat := by
  rw [U128_or64_toNat]
  have e : n.toNat = (n.toNat / 2^k) <<< k := by
    rw [Nat.shiftLeft_eq]; exact (Nat.div_mul_cancel (Nat.dvd_of_mod_eq_zero hn)).symm
  rw [e, ← Nat.shiftLeft_add_eq_or_of_lt ho]

/-! ## the table of powers of ten -/

theorem uint128PowersOf10_toNat (i : Nat) (h : i < 39) :
    (Gen.uint128PowersOf10[i]).toNat = 10^i := by
  interval_cases i <;>
    simp only [Gen.uint128PowersOf10, Vector.getElem_mk, List.getElem_toArray,
      List.getElem_cons_zero, List.getElem_cons_succ, U128.toNat, UInt64.toNat_ofNat,
      Nat.reducePow, Nat.reduceMod, Nat.reduceMul, Nat.reduceAdd]

/-- indexing the table with an in-range Go index never panics. -/
theorem uint128PowersOf10_vget (i : Int) (h0 : 0 ≤ i) (h1 : i < 39) :
    ∃ v, Go.vget Gen.uint128PowersOf10 i = .ok v ∧ v.toNat = 10^i.toNat := by
  have hi : i.toNat < 39 := by omega
  refine ⟨Gen.uint128PowersOf10[i.toNat], ?_, uint128PowersOf10_toNat _ hi⟩
  simp only [Go.vget, h0, hi, and_self, dif_pos]
  rfl
