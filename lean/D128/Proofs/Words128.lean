/-
  D128/Proofs/Words128.lean — exact arithmetic specifications of the generated 128-bit
  integer routines of `D128/Gen/Int.lean` (Go source: /repo/int.go, type `uint128`).

  Provided theorems (all about the generated `Gen.*` definitions, for all inputs):

  math/bits helpers
  * `Go.bits.Add64_spec`, `Go.bits.Sub64_spec`, `Go.bits.Mul64_spec`, `Go.bits.Div64_eq`
  * `U128.toNat_lt`, `U128.toNat_inj`, `U128.eq_iff_toNat_eq`

  words
  * `U128_add64_toNat`   : (add64 n o).toNat = (n.toNat + o.toNat) % 2^128
  * `U128_add64_toNat_of_lt` : no-overflow corollary
  * `U128_sub64_toNat`   : (sub64 n o).toNat = (n.toNat + 2^128 - o.toNat) % 2^128
  * `U128_sub64_toNat_of_le` : o.toNat ≤ n.toNat → (sub64 n o).toNat = n.toNat - o.toNat
  * `U128_add_toNat`     : (add n o).toNat = n.toNat + o.toNat                    (U192)
  * `U128_sub_toNat`, `U128_sub_borrow`, `U128_sub_toNat_of_le`, `U128_sub_borrow_eq_zero_iff`
  * `U128_twos_toNat`    : (twos n).toNat = (2^128 - n.toNat) % 2^128
  * `U128_mul64_toNat`   : (mul64 n o).toNat = (n.toNat * o.toNat) % 2^128
  * `U128_mul64_toNat_of_lt` : no-overflow corollary
  * `U128_cmp_eq`        : cmp n o = if n.toNat < o.toNat then -1 else if n.toNat = o.toNat then 0 else 1
  * `U128_cmp_eq_neg_one_iff`, `U128_cmp_eq_zero_iff`, `U128_cmp_eq_one_iff`,
    `U128_cmp_lt_zero_iff`, `U128_cmp_ge_zero_iff`, `U128_cmp_gt_zero_iff`, `U128_cmp_le_zero_iff`
  * `U128_divK_eq` / `U128_divK_spec` (K = 10, 100, 1000, 10000, 1e8, 1e19):
      ∃ q r, Gen.U128.divK n = .ok (q, r) ∧ q.toNat = n.toNat / K ∧ r.toNat = n.toNat % K
    and the `@[spec]` Hoare triples `U128_divK_triple`.
-/
import Std.Tactic.Do
import Mathlib.Tactic.Ring
import Mathlib.Tactic.Linarith
import D128.Gen.Int

set_option autoImplicit false
set_option maxRecDepth 4096
open Std.Do

/-- `x = y % M` from an explicit multiple: keeps `omega` away from `% 2^128`
(it tends to diverge on it when unrelated equations are in the context). -/
theorem Nat.eq_mod_of_add_mul {x y M : Nat} (k : Nat) (h : x + k * M = y) (hx : x < M) :
    x = y % M := by
  subst h
  rw [Nat.add_mul_mod_self_right, Nat.mod_eq_of_lt hx]

/-! ## math/bits -/

namespace Go.bits

theorem Add64_spec (x y c : UInt64) (hc : c.toNat ≤ 1) :
    (Add64 x y c).1.toNat + (Add64 x y c).2.toNat * 2^64 = x.toNat + y.toNat + c.toNat
      ∧ (Add64 x y c).2.toNat ≤ 1 := by
  have hc' : c ≤ 1 := by simpa [UInt64.le_iff_toNat_le] using hc
  have := x.toNat_lt; have := y.toNat_lt
  simp [Add64, hc', UInt64.toNat_ofNat']
  omega

theorem Sub64_spec (x y b : UInt64) (hb : b.toNat ≤ 1) :
    (Sub64 x y b).1.toNat + y.toNat + b.toNat = x.toNat + (Sub64 x y b).2.toNat * 2^64
      ∧ (Sub64 x y b).2.toNat ≤ 1 := by
  have hb' : b ≤ 1 := by simpa [UInt64.le_iff_toNat_le] using hb
  have := x.toNat_lt; have := y.toNat_lt
  simp only [Sub64, hb', if_true]
  split <;> simp [UInt64.toNat_ofNat'] <;> omega

theorem Mul64_spec (x y : UInt64) :
    (Mul64 x y).2.toNat + (Mul64 x y).1.toNat * 2^64 = x.toNat * y.toNat := by
  have hx := x.toNat_lt; have hy := y.toNat_lt
  have : x.toNat * y.toNat < 2^64 * 2^64 := Nat.mul_lt_mul'' hx hy
  simp [Mul64, UInt64.toNat_ofNat']
  omega

/-- `bits.Div64` does not panic when `hi < y`, and returns quotient and remainder. -/
theorem Div64_eq (hi lo y : UInt64) (h : hi.toNat < y.toNat) :
    Div64 hi lo y = .ok (UInt64.ofNat ((hi.toNat * 2^64 + lo.toNat) / y.toNat),
                         UInt64.ofNat ((hi.toNat * 2^64 + lo.toNat) % y.toNat)) := by
  have h0 : y ≠ 0 := by
    intro h0; subst h0; simp at h
  have h1 : ¬ y ≤ hi := by simpa [UInt64.le_iff_toNat_le] using h
  simp [Div64, h0, h1]
  rfl

theorem Div64_quo_toNat (hi lo y : UInt64) (h : hi.toNat < y.toNat) :
    (UInt64.ofNat ((hi.toNat * 2^64 + lo.toNat) / y.toNat)).toNat
      = (hi.toNat * 2^64 + lo.toNat) / y.toNat := by
  have := lo.toNat_lt; have := y.toNat_lt
  rw [UInt64.toNat_ofNat', Nat.mod_eq_of_lt]
  rw [Nat.div_lt_iff_lt_mul (by omega)]
  calc hi.toNat * 2^64 + lo.toNat < (hi.toNat + 1) * 2^64 := by omega
    _ ≤ y.toNat * 2^64 := Nat.mul_le_mul_right _ h
    _ = 2^64 * y.toNat := Nat.mul_comm _ _

theorem Div64_rem_toNat (hi lo y : UInt64) (h : hi.toNat < y.toNat) :
    (UInt64.ofNat ((hi.toNat * 2^64 + lo.toNat) % y.toNat)).toNat
      = (hi.toNat * 2^64 + lo.toNat) % y.toNat := by
  have := y.toNat_lt
  have : (hi.toNat * 2^64 + lo.toNat) % y.toNat < y.toNat := Nat.mod_lt _ (by omega)
  rw [UInt64.toNat_ofNat', Nat.mod_eq_of_lt]; omega

end Go.bits

/-! ## `U128` basics -/

theorem U128.toNat_lt (n : U128) : n.toNat < 2^128 := by
  have := n.w0.toNat_lt; have := n.w1.toNat_lt
  simp only [U128.toNat]; omega

theorem U128.toNat_inj {n o : U128} (h : n.toNat = o.toNat) : n = o := by
  have := n.w0.toNat_lt; have := n.w1.toNat_lt
  have := o.w0.toNat_lt; have := o.w1.toNat_lt
  cases n; cases o
  simp only [U128.toNat] at *
  simp only [U128.mk.injEq]
  constructor <;> apply UInt64.toNat_inj.mp <;> omega

theorem U128.eq_iff_toNat_eq {n o : U128} : n = o ↔ n.toNat = o.toNat :=
  ⟨fun h => h ▸ rfl, U128.toNat_inj⟩

theorem U192.toNat_lt (n : U192) : n.toNat < 2^192 := by
  have := n.w0.toNat_lt; have := n.w1.toNat_lt; have := n.w2.toNat_lt
  simp only [U192.toNat]; omega

theorem U256.toNat_lt (n : U256) : n.toNat < 2^256 := by
  have := n.w0.toNat_lt; have := n.w1.toNat_lt; have := n.w2.toNat_lt; have := n.w3.toNat_lt
  simp only [U256.toNat]; omega

/-! ## add64 / sub64 / add / sub / twos -/

@[simp] theorem U128_add64_toNat (n : U128) (o : UInt64) :
    (Gen.U128.add64 n o).toNat = (n.toNat + o.toNat) % 2^128 := by
  unfold Gen.U128.add64
  have := n.w0.toNat_lt; have := n.w1.toNat_lt; have := o.toNat_lt
  obtain ⟨h1, h2⟩ := Go.bits.Add64_spec n.w0 o 0 (by simp)
  have := (Go.bits.Add64 n.w0 o 0).1.toNat_lt
  simp only [U128.toNat, Id.run, pure, UInt64.toNat_add]
  simp only [UInt64.toNat_zero] at h1
  apply Nat.eq_mod_of_add_mul ((n.w1.toNat + (Go.bits.Add64 n.w0 o 0).2.toNat) / 2^64) <;> omega

theorem U128_add64_toNat_of_lt (n : U128) (o : UInt64) (h : n.toNat + o.toNat < 2^128) :
    (Gen.U128.add64 n o).toNat = n.toNat + o.toNat := by
  rw [U128_add64_toNat, Nat.mod_eq_of_lt h]

@[simp] theorem U128_sub64_toNat (n : U128) (o : UInt64) :
    (Gen.U128.sub64 n o).toNat = (n.toNat + 2^128 - o.toNat) % 2^128 := by
  unfold Gen.U128.sub64
  have := n.w0.toNat_lt; have := n.w1.toNat_lt; have := o.toNat_lt
  obtain ⟨h1, h2⟩ := Go.bits.Sub64_spec n.w0 o 0 (by simp)
  simp only [U128.toNat, Id.run, pure, UInt64.toNat_sub]
  simp only [UInt64.toNat_zero] at h1
  have := (Go.bits.Sub64 n.w0 o 0).1.toNat_lt
  apply Nat.eq_mod_of_add_mul
    ((2^64 - (Go.bits.Sub64 n.w0 o 0).2.toNat + n.w1.toNat) / 2^64) <;> omega

theorem U128_sub64_toNat_of_le (n : U128) (o : UInt64) (h : o.toNat ≤ n.toNat) :
    (Gen.U128.sub64 n o).toNat = n.toNat - o.toNat := by
  have := n.toNat_lt
  rw [U128_sub64_toNat]; omega

@[simp] theorem U128_add_toNat (n o : U128) :
    (Gen.U128.add n o).toNat = n.toNat + o.toNat := by
  unfold Gen.U128.add
  obtain ⟨h1, h2⟩ := Go.bits.Add64_spec n.w0 o.w0 0 (by simp)
  obtain ⟨h3, h4⟩ := Go.bits.Add64_spec n.w1 o.w1 _ h2
  simp only [U128.toNat, U192.toNat, Id.run, pure]
  simp only [UInt64.toNat_zero] at h1
  omega

@[simp] theorem U128_sub_toNat (n o : U128) :
    (Gen.U128.sub n o).1.toNat = (n.toNat + 2^128 - o.toNat) % 2^128 := by
  unfold Gen.U128.sub
  have := n.w0.toNat_lt; have := n.w1.toNat_lt; have := o.w0.toNat_lt; have := o.w1.toNat_lt
  obtain ⟨h1, h2⟩ := Go.bits.Sub64_spec n.w0 o.w0 0 (by simp)
  obtain ⟨h3, h4⟩ := Go.bits.Sub64_spec n.w1 o.w1 _ h2
  have := (Go.bits.Sub64 n.w0 o.w0 0).1.toNat_lt
  have := (Go.bits.Sub64 n.w1 o.w1 (Go.bits.Sub64 n.w0 o.w0 0).2).1.toNat_lt
  simp only [U128.toNat, Id.run, pure]
  simp only [UInt64.toNat_zero] at h1
  apply Nat.eq_mod_of_add_mul
    (1 - (Go.bits.Sub64 n.w1 o.w1 (Go.bits.Sub64 n.w0 o.w0 0).2).2.toNat) <;> omega

/-- the borrow of `sub` is `1` exactly when `n < o`, else `0`. -/
theorem U128_sub_borrow (n o : U128) :
    (Gen.U128.sub n o).2 = if n.toNat < o.toNat then 1 else 0 := by
  unfold Gen.U128.sub
  have := n.w0.toNat_lt; have := n.w1.toNat_lt; have := o.w0.toNat_lt; have := o.w1.toNat_lt
  obtain ⟨h1, h2⟩ := Go.bits.Sub64_spec n.w0 o.w0 0 (by simp)
  obtain ⟨h3, h4⟩ := Go.bits.Sub64_spec n.w1 o.w1 _ h2
  have := (Go.bits.Sub64 n.w0 o.w0 0).1.toNat_lt
  have := (Go.bits.Sub64 n.w1 o.w1 (Go.bits.Sub64 n.w0 o.w0 0).2).1.toNat_lt
  simp only [U128.toNat, Id.run, pure]
  simp only [UInt64.toNat_zero] at h1
  apply UInt64.toNat_inj.mp
  by_cases hlt : n.w0.toNat + n.w1.toNat * 2 ^ 64 < o.w0.toNat + o.w1.toNat * 2 ^ 64
  · simp only [hlt, if_true, UInt64.toNat_one]; omega
  · simp only [hlt, if_false, UInt64.toNat_zero]; omega

theorem U128_sub_borrow_eq_one_iff (n o : U128) :
    (Gen.U128.sub n o).2 = 1 ↔ n.toNat < o.toNat := by
  rw [U128_sub_borrow]; split <;> simp_all

theorem U128_sub_borrow_eq_zero_iff (n o : U128) :
    (Gen.U128.sub n o).2 = 0 ↔ o.toNat ≤ n.toNat := by
  rw [U128_sub_borrow]; split <;> simp_all

theorem U128_sub_toNat_of_le (n o : U128) (h : o.toNat ≤ n.toNat) :
    (Gen.U128.sub n o).1.toNat = n.toNat - o.toNat := by
  have := n.toNat_lt
  rw [U128_sub_toNat]; omega

@[simp] theorem U128_twos_toNat (n : U128) :
    (Gen.U128.twos n).toNat = (2^128 - n.toNat) % 2^128 := by
  unfold Gen.U128.twos
  have := n.w0.toNat_lt; have := n.w1.toNat_lt
  obtain ⟨h1, h2⟩ := Go.bits.Add64_spec (~~~n.w0) 1 0 (by simp)
  simp only [U128.toNat, Id.run, pure, UInt64.toNat_add]
  simp only [UInt64.toNat_zero, UInt64.toNat_one, UInt64.toNat_not, UInt64.size] at h1 ⊢
  have := (Go.bits.Add64 (~~~n.w0) 1 0).1.toNat_lt
  apply Nat.eq_mod_of_add_mul
    ((2^64 - 1 - n.w1.toNat + (Go.bits.Add64 (~~~n.w0) 1 0).2.toNat) / 2^64) <;> omega

/-! ## mul64 -/

@[simp] theorem U128_mul64_toNat (n : U128) (o : UInt64) :
    (Gen.U128.mul64 n o).toNat = (n.toNat * o.toNat) % 2^128 := by
  unfold Gen.U128.mul64
  have h := Go.bits.Mul64_spec n.w0 o
  have := (Go.bits.Mul64 n.w0 o).1.toNat_lt
  have := (Go.bits.Mul64 n.w0 o).2.toNat_lt
  simp only [U128.toNat, Id.run, pure, UInt64.toNat_add, UInt64.toNat_mul]
  have e : (n.w0.toNat + n.w1.toNat * 2^64) * o.toNat
      = n.w0.toNat * o.toNat + (n.w1.toNat * o.toNat) * 2^64 := by ring
  rw [e]
  generalize n.w0.toNat * o.toNat = p at *
  generalize n.w1.toNat * o.toNat = q at *
  apply Nat.eq_mod_of_add_mul
    (((Go.bits.Mul64 n.w0 o).1.toNat + q % 2^64) / 2^64 + q / 2^64) <;> omega

theorem U128_mul64_toNat_of_lt (n : U128) (o : UInt64) (h : n.toNat * o.toNat < 2^128) :
    (Gen.U128.mul64 n o).toNat = n.toNat * o.toNat := by
  rw [U128_mul64_toNat, Nat.mod_eq_of_lt h]

/-! ## cmp -/

theorem U128_cmp_eq (n o : U128) :
    Gen.U128.cmp n o = if n.toNat < o.toNat then -1 else if n.toNat = o.toNat then 0 else 1 := by
  unfold Gen.U128.cmp
  have := n.w0.toNat_lt; have := n.w1.toNat_lt; have := o.w0.toNat_lt; have := o.w1.toNat_lt
  have hn : n.toNat = n.w0.toNat + n.w1.toNat * 2^64 := rfl
  have ho : o.toNat = o.w0.toNat + o.w1.toNat * 2^64 := rfl
  simp only [Id.run, pure, beq_iff_eq, decide_eq_true_eq, UInt64.lt_iff_toNat_lt,
    ← UInt64.toNat_inj]
  by_cases h1 : n.w1.toNat = o.w1.toNat
  · by_cases h0 : n.w0.toNat = o.w0.toNat
    · rw [if_pos h1, if_pos h0, if_neg (by omega), if_pos (by omega)]
    · by_cases hl : n.w0.toNat < o.w0.toNat
      · rw [if_pos h1, if_neg h0, if_pos hl, if_pos (by omega)]
      · rw [if_pos h1, if_neg h0, if_neg hl, if_neg (by omega), if_neg (by omega)]
  · by_cases hl : n.w1.toNat < o.w1.toNat
    · rw [if_neg h1, if_pos hl, if_pos (by omega)]
    · rw [if_neg h1, if_neg hl, if_neg (by omega), if_neg (by omega)]

theorem U128_cmp_eq_neg_one_iff (n o : U128) : Gen.U128.cmp n o = -1 ↔ n.toNat < o.toNat := by
  rw [U128_cmp_eq]; split_ifs <;> simp_all

theorem U128_cmp_eq_zero_iff (n o : U128) : Gen.U128.cmp n o = 0 ↔ n.toNat = o.toNat := by
  rw [U128_cmp_eq]; split_ifs <;> simp_all
  first | decide | omega

theorem U128_cmp_eq_one_iff (n o : U128) : Gen.U128.cmp n o = 1 ↔ o.toNat < n.toNat := by
  rw [U128_cmp_eq]; split_ifs <;> simp_all <;> try (first | decide | omega)

theorem U128_cmp_lt_zero_iff (n o : U128) : Gen.U128.cmp n o < 0 ↔ n.toNat < o.toNat := by
  rw [U128_cmp_eq]; split_ifs <;> simp_all

theorem U128_cmp_ge_zero_iff (n o : U128) : Gen.U128.cmp n o ≥ 0 ↔ o.toNat ≤ n.toNat := by
  rw [U128_cmp_eq]; split_ifs <;> simp_all

theorem U128_cmp_gt_zero_iff (n o : U128) : Gen.U128.cmp n o > 0 ↔ o.toNat < n.toNat := by
  rw [U128_cmp_eq]; split_ifs <;> simp_all <;> try (first | decide | omega)

theorem U128_cmp_le_zero_iff (n o : U128) : Gen.U128.cmp n o ≤ 0 ↔ n.toNat ≤ o.toNat := by
  rw [U128_cmp_eq]; split_ifs <;> simp_all <;> try (first | decide | omega)

/-! ## division by small constants -/

theorem Nat.two_step_div (w0 w1 d B : Nat) :
    (w0 + w1 * B) / d = ((w1 % d) * B + w0) / d + (w1 / d) * B
      ∧ (w0 + w1 * B) % d = ((w1 % d) * B + w0) % d := by
  have e : w0 + w1 * B = ((w1 % d) * B + w0) + d * ((w1 / d) * B) := by
    conv_lhs => rw [← Nat.div_add_mod w1 d]
    ring
  rcases Nat.eq_zero_or_pos d with rfl | hd
  · simp [Nat.add_comm]
  · rw [e, Nat.add_mul_div_left _ _ hd, Nat.add_mul_mod_self_left]
    exact ⟨rfl, rfl⟩

/-- `bits.Div64` with `hi < y`: no panic, exact quotient and remainder. -/
theorem Go.bits.Div64_ok (hi lo y : UInt64) (h : hi.toNat < y.toNat) :
    ∃ q r, Go.bits.Div64 hi lo y = .ok (q, r)
      ∧ q.toNat = (hi.toNat * 2^64 + lo.toNat) / y.toNat
      ∧ r.toNat = (hi.toNat * 2^64 + lo.toNat) % y.toNat :=
  ⟨_, _, Go.bits.Div64_eq hi lo y h, Go.bits.Div64_quo_toNat hi lo y h,
    Go.bits.Div64_rem_toNat hi lo y h⟩

/-- From an equation `f = .ok v` one gets the Hoare triple (no panic, result satisfies `Q`). -/
theorem Go.triple_of_ok {α : Type} {f : Go.GoM α} {v : α} (h : f = .ok v) {Q : α → Prop}
    (hq : Q v) : ⦃⌜True⌝⦄ f ⦃⇓ r => ⌜Q r⌝⦄ := by
  subst h
  show ⦃⌜True⌝⦄ (pure v : Go.GoM α) ⦃⇓ r => ⌜Q r⌝⦄
  mvcgen

/-- The common body of `uint128.div10 … div1e19` and of the 64-bit-divisor branch of
`uint128.div`: schoolbook division of a two-word number by a one-word divisor `d ≠ 0`. -/
theorem U128_divSmall (n : U128) (d : UInt64) (hd : 0 < d.toNat) :
    ∃ q r, (if n.w1.toNat < d.toNat then do
          let t_1 ← Go.bits.Div64 n.w1 n.w0 d
          pure (({ w0 := t_1.1, w1 := 0 } : U128), t_1.2)
        else do
          let t_4 ← Go.bits.Div64 0 n.w1 d
          let t_7 ← Go.bits.Div64 t_4.2 n.w0 d
          pure ({ w0 := t_7.1, w1 := t_4.1 }, t_7.2)) =
        Except.ok (q, r) ∧
      q.toNat = n.toNat / d.toNat ∧ r.toNat = n.toNat % d.toNat := by
  by_cases h : n.w1.toNat < d.toNat
  · obtain ⟨q0, r0, e0, hq0, hr0⟩ := Go.bits.Div64_ok n.w1 n.w0 d h
    rw [if_pos h, e0]
    refine ⟨_, _, rfl, ?_, ?_⟩
    · simp only [U128.toNat, hq0, UInt64.toNat_zero]
      rw [Nat.add_comm n.w0.toNat]; omega
    · simp only [U128.toNat, hr0]
      rw [Nat.add_comm n.w0.toNat]
  · obtain ⟨q1, r1, e1, hq1, hr1⟩ := Go.bits.Div64_ok 0 n.w1 d (by simpa using hd)
    simp only [UInt64.toNat_zero, Nat.zero_mul, Nat.zero_add] at hq1 hr1
    obtain ⟨q0, r0, e0, hq0, hr0⟩ :=
      Go.bits.Div64_ok r1 n.w0 d (by rw [hr1]; exact Nat.mod_lt _ hd)
    rw [if_neg h, e1]
    simp only [bind, Except.bind]
    rw [e0]
    refine ⟨_, _, rfl, ?_, ?_⟩
    · simp only [U128.toNat, hq0, hr1, hq1]
      exact ((Nat.two_step_div _ _ _ _).1).symm
    · simp only [U128.toNat, hr0, hr1]
      exact ((Nat.two_step_div _ _ _ _).2).symm

/-- `uint128.div10` never panics and returns exactly quotient and remainder by 10. -/
theorem U128_div10_spec (n : U128) :
    ∃ q r, Gen.U128.div10 n = .ok (q, r) ∧ q.toNat = n.toNat / 10 ∧ r.toNat = n.toNat % 10 := by
  unfold Gen.U128.div10
  simp only [decide_eq_true_eq, UInt64.lt_iff_toNat_lt]
  exact U128_divSmall n 10 (by decide)

@[spec] theorem U128_div10_triple (n : U128) :
    ⦃⌜True⌝⦄ Gen.U128.div10 n
    ⦃⇓ x => ⌜x.1.toNat = n.toNat / 10 ∧ x.2.toNat = n.toNat % 10⌝⦄ := by
  obtain ⟨q, r, e, hq, hr⟩ := U128_div10_spec n
  exact Go.triple_of_ok e ⟨hq, hr⟩

/-- `uint128.div100` never panics and returns exactly quotient and remainder by 100. -/
theorem U128_div100_spec (n : U128) :
    ∃ q r, Gen.U128.div100 n = .ok (q, r) ∧ q.toNat = n.toNat / 100 ∧ r.toNat = n.toNat % 100 := by
  unfold Gen.U128.div100
  simp only [decide_eq_true_eq, UInt64.lt_iff_toNat_lt]
  exact U128_divSmall n 100 (by decide)

@[spec] theorem U128_div100_triple (n : U128) :
    ⦃⌜True⌝⦄ Gen.U128.div100 n
    ⦃⇓ x => ⌜x.1.toNat = n.toNat / 100 ∧ x.2.toNat = n.toNat % 100⌝⦄ := by
  obtain ⟨q, r, e, hq, hr⟩ := U128_div100_spec n
  exact Go.triple_of_ok e ⟨hq, hr⟩

/-- `uint128.div1000` never panics and returns exactly quotient and remainder by 1000. -/
theorem U128_div1000_spec (n : U128) :
    ∃ q r, Gen.U128.div1000 n = .ok (q, r) ∧ q.toNat = n.toNat / 1000 ∧ r.toNat = n.toNat % 1000 := by
  unfold Gen.U128.div1000
  simp only [decide_eq_true_eq, UInt64.lt_iff_toNat_lt]
  exact U128_divSmall n 1000 (by decide)

@[spec] theorem U128_div1000_triple (n : U128) :
    ⦃⌜True⌝⦄ Gen.U128.div1000 n
    ⦃⇓ x => ⌜x.1.toNat = n.toNat / 1000 ∧ x.2.toNat = n.toNat % 1000⌝⦄ := by
  obtain ⟨q, r, e, hq, hr⟩ := U128_div1000_spec n
  exact Go.triple_of_ok e ⟨hq, hr⟩

/-- `uint128.div10000` never panics and returns exactly quotient and remainder by 10000. -/
theorem U128_div10000_spec (n : U128) :
    ∃ q r, Gen.U128.div10000 n = .ok (q, r) ∧ q.toNat = n.toNat / 10000 ∧ r.toNat = n.toNat % 10000 := by
  unfold Gen.U128.div10000
  simp only [decide_eq_true_eq, UInt64.lt_iff_toNat_lt]
  exact U128_divSmall n 10000 (by decide)

@[spec] theorem U128_div10000_triple (n : U128) :
    ⦃⌜True⌝⦄ Gen.U128.div10000 n
    ⦃⇓ x => ⌜x.1.toNat = n.toNat / 10000 ∧ x.2.toNat = n.toNat % 10000⌝⦄ := by
  obtain ⟨q, r, e, hq, hr⟩ := U128_div10000_spec n
  exact Go.triple_of_ok e ⟨hq, hr⟩

/-- `uint128.div1e8` never panics and returns exactly quotient and remainder by 10^8. -/
theorem U128_div1e8_spec (n : U128) :
    ∃ q r, Gen.U128.div1e8 n = .ok (q, r) ∧ q.toNat = n.toNat / 10^8 ∧ r.toNat = n.toNat % 10^8 := by
  unfold Gen.U128.div1e8
  simp only [decide_eq_true_eq, UInt64.lt_iff_toNat_lt]
  exact U128_divSmall n 100000000 (by decide)

@[spec] theorem U128_div1e8_triple (n : U128) :
    ⦃⌜True⌝⦄ Gen.U128.div1e8 n
    ⦃⇓ x => ⌜x.1.toNat = n.toNat / 10^8 ∧ x.2.toNat = n.toNat % 10^8⌝⦄ := by
  obtain ⟨q, r, e, hq, hr⟩ := U128_div1e8_spec n
  exact Go.triple_of_ok e ⟨hq, hr⟩

/-- `uint128.div1e19` never panics and returns exactly quotient and remainder by 10^19. -/
theorem U128_div1e19_spec (n : U128) :
    ∃ q r, Gen.U128.div1e19 n = .ok (q, r) ∧ q.toNat = n.toNat / 10^19 ∧ r.toNat = n.toNat % 10^19 := by
  unfold Gen.U128.div1e19
  simp only [decide_eq_true_eq, UInt64.lt_iff_toNat_lt]
  exact U128_divSmall n 10000000000000000000 (by decide)

@[spec] theorem U128_div1e19_triple (n : U128) :
    ⦃⌜True⌝⦄ Gen.U128.div1e19 n
    ⦃⇓ x => ⌜x.1.toNat = n.toNat / 10^19 ∧ x.2.toNat = n.toNat % 10^19⌝⦄ := by
  obtain ⟨q, r, e, hq, hr⟩ := U128_div1e19_spec n
  exact Go.triple_of_ok e ⟨hq, hr⟩
