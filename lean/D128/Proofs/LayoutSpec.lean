/-
  D128/Proofs/LayoutSpec.lean — the bytes `fmtE` / `fmtF` append, read as text, are `Spec.layoutE` /
  `Spec.layoutF` of the slice the record denotes; `padOut` is the width rule of `Spec.fmtSpec`.

  * `Ly.chr_digit`, `Ly.digs_str`, `Ly.expDigits_str`, `Ly.expBytes_str` : bytes to text
  * `Ly.signStr`, `Ly.signBytes_str`
  * `Ly.bodyE_str`  : `bodyE` = sign ++ `Spec.layoutE (slice d) prec '#' e 2`
  * `Ly.nslice`, `Ly.bodyF_str` : `bodyF` = sign ++ `Spec.layoutF (nslice d) prec '#'`
  * `Ly.padStr`, `Ly.fmtSpec_eq`, `Ly.padOut_str` : width padding
  * `Ly.pad_spec`, `Ly.pad_zero_minus` : `Gen.digits.pad` against the width rule; the `0`-with-`-` defect
  * `Ly.fmtE_layout`, `Ly.fmtF_layout` : the two emitters against `Spec.layoutE` / `Spec.layoutF`
-/
import D128.Proofs.LayoutF

set_option autoImplicit false
set_option maxRecDepth 4096

namespace Ly
open Dg Gen


theorem chr_digit (b : UInt8) (h : isDig b) : chr b = Spec.digitChar (dv b) := by
  unfold chr Spec.digitChar dv isDig at *
  congr 1; omega

/-- `dig[lo:hi]` as text is the corresponding stretch of the digit list -/
theorem digs_str (d : digits) (hwf : WF d) (lo hi : Nat) (hh : hi ≤ d.ndig.toInt.toNat) :
    (digs d lo hi).map chr = Spec.digitsStr (((msd d.dig d.ndig.toInt.toNat).take hi).drop lo) := by
  have h39 := hwf.n39
  have h0 := hwf.n0
  unfold digs Spec.digitsStr
  rw [msd_eq_toList d.dig _ (by omega)]
  rw [← List.map_take, ← List.map_drop, List.map_map, List.take_take, Nat.min_eq_left hh]
  apply List.map_congr_left
  intro b hb
  have hb' := List.mem_of_mem_drop hb
  obtain ⟨t, ht, rfl⟩ := List.getElem_of_mem hb'
  have ht' : t < hi := by simp at ht; omega
  have := hwf.dig t (by omega)
  rw [at_eq _ _ (by omega)] at this
  simp only [List.getElem_take, Vector.getElem_toList, Function.comp]
  exact chr_digit _ this

theorem chr_48 : chr 48 = '0' := rfl
theorem chr_46 : chr 46 = '.' := rfl
theorem chr_45 : chr 45 = '-' := rfl
theorem chr_43 : chr 43 = '+' := rfl
theorem chr_32 : chr 32 = ' ' := rfl

theorem toString_toList (a : Nat) : (toString a).toList = Nat.toDigits 10 a := by
  simp [toString, Nat.repr]

theorem digitChar_eq : ∀ k : Fin 10, Nat.digitChar k.val = Char.ofNat (48 + k.val) := by decide

theorem chr_dig (k : Nat) (h : k < 10) : chr (48 + UInt8.ofNat k) = Nat.digitChar k := by
  have := digitChar_eq ⟨k, h⟩
  simp only at this
  rw [this]
  unfold chr
  congr 1
  rw [UInt8.toNat_add, UInt8.toNat_ofNat']
  have : (48 : UInt8).toNat = 48 := rfl
  omega

theorem expDigits_str (a : Nat) (pe : Bool) (ha : a < 10000) :
    (expDigits a pe).map chr =
      Spec.zeros ((if pe then 2 else 1) - (toString a).toList.length) ++ (toString a).toList := by
  rw [toString_toList]
  unfold expDigits Spec.zeros
  by_cases h1 : a < 10
  · rw [Nat.toDigits_of_lt_base h1]
    cases pe <;> simp [h1, chr_dig a h1, chr_48]
  · have t1 : Nat.toDigits 10 a = Nat.toDigits 10 (a / 10) ++ [Nat.digitChar (a % 10)] :=
      Nat.toDigits_of_base_le (by decide) (by omega)
    by_cases h2 : a < 100
    · rw [t1, Nat.toDigits_of_lt_base (show a / 10 < 10 by omega)]
      cases pe <;> simp [h1, h2, chr_dig (a / 10) (by omega), chr_dig (a % 10) (by omega)]
    · have t2 : Nat.toDigits 10 (a / 10) = Nat.toDigits 10 (a / 10 / 10) ++ [Nat.digitChar (a / 10 % 10)] :=
        Nat.toDigits_of_base_le (by decide) (by omega)
      have e100 : a / 10 / 10 = a / 100 := by omega
      by_cases h3 : a < 1000
      · rw [t1, t2, e100, Nat.toDigits_of_lt_base (show a / 100 < 10 by omega)]
        cases pe <;> simp [h1, h2, h3, chr_dig (a / 100) (by omega), chr_dig (a / 10 % 10) (by omega), chr_dig (a % 10) (by omega)]
      · have t3 : Nat.toDigits 10 (a / 100) = Nat.toDigits 10 (a / 100 / 10) ++ [Nat.digitChar (a / 100 % 10)] :=
          Nat.toDigits_of_base_le (by decide) (by omega)
        have e1000 : a / 100 / 10 = a / 1000 := by omega
        rw [t1, t2, e100, t3, e1000, Nat.toDigits_of_lt_base (show a / 1000 < 10 by omega)]
        cases pe <;> simp [h1, h2, h3, chr_dig (a / 1000) (by omega), chr_dig (a / 100 % 10) (by omega), chr_dig (a / 10 % 10) (by omega), chr_dig (a % 10) (by omega)]

theorem expBytes_str (e : UInt8) (x : Int) (pe : Bool) (hx : x.natAbs < 10000) :
    (expBytes e x pe).map chr = Spec.expStr (chr e) x (if pe then 2 else 1) := by
  unfold expBytes Spec.expStr
  simp only [List.map_cons, expDigits_str _ pe hx]
  congr 2
  split <;> rfl

/-- sign text: `-`, else `+` if requested, else a blank if requested -/
def signStr (neg plus space : Bool) : Spec.Str :=
  if neg then ['-'] else if plus then ['+'] else if space then [' '] else []

theorem signBytes_str (neg ps pds : Bool) : (signBytes neg ps pds).map chr = signStr neg ps pds := by
  cases neg <;> cases ps <;> cases pds <;> rfl

theorem msd_head {m : Nat} (dig : Vector UInt8 m) (n : Nat) (h : 0 < n) :
    ∃ L, msd dig n = dv (at_ dig 0) :: L := by
  cases hm : msd dig n with
  | nil =>
    have := msd_length dig n
    rw [hm] at this; simp at this; omega
  | cons a L =>
    refine ⟨L, ?_⟩
    have h0 : 0 < (msd dig n).length := by rw [msd_length]; exact h
    have := msd_getElem dig n 0 h0
    simp only [hm, List.getElem_cons_zero] at this
    rw [this]

/-- **`bodyE` is `Spec.layoutE`**: for a well-formed record whose digits fit the precision. -/
theorem bodyE_str (d : digits) (hwf : WF d) (prec : Int) (fdp ps pds pe : Bool) (e : UInt8)
    (hp : 0 ≤ prec) (hnd : d.ndig.toInt ≤ prec + 1) (hz : d.ndig.toInt = 0 → d.exp.toInt = 0)
    (hx : (expOf d).natAbs < 10000) :
    (bodyE d prec fdp ps pds pe e).map chr =
      signStr d.neg ps pds ++
        Spec.layoutE (slice d) prec.toNat fdp (chr e) (if pe then 2 else 1) := by
  have h0 := hwf.n0
  have h39 := hwf.n39
  unfold bodyE
  rw [List.map_append, signBytes_str, List.map_cons, List.map_append, expBytes_str _ _ _ hx]
  congr 1
  unfold Spec.layoutE slice
  generalize hn : d.ndig.toInt.toNat = n
  have hlen := msd_length d.dig n
  simp only [List.cons_append]
  congr 1
  · -- first digit
    by_cases hz0 : d.ndig.toInt = 0
    · have : n = 0 := by omega
      subst this
      simp [hz0, msd]; rfl
    · obtain ⟨L, hL⟩ := msd_head d.dig n (by omega)
      rw [if_neg hz0, hL]
      exact chr_digit _ (hwf.dig 0 (by omega))
  · congr 1
    · -- fraction
      unfold fracE
      by_cases hpp : 0 < prec
      · have hpn : prec.toNat > 0 := by omega
        simp only [hpp, hpn, if_true, List.map_cons, List.map_append, List.map_replicate]
        congr 1
        have hrest : (Spec.digitsStr ((msd d.dig n).drop 1)).length = n - 1 := by
          simp [Spec.digitsStr, hlen]
        rw [List.take_of_length_le (by simp only [List.length_append, hrest, Spec.zeros, List.length_replicate]; omega)]
        by_cases h1 : 1 < d.ndig.toInt
        · simp only [h1, if_true]
          rw [digs_str d hwf 1 _ (Nat.le_refl _), hn, List.take_of_length_le (by omega), hrest]
          congr 1
          unfold Spec.zeros
          congr 1; omega
        · simp only [h1, if_false, List.map_nil, List.nil_append]
          have : (msd d.dig n).drop 1 = [] := by
            apply List.drop_eq_nil_of_le; omega
          rw [this]
          simp [Spec.digitsStr, Spec.zeros, chr_48]
      · have hpn : ¬ prec.toNat > 0 := by omega
        simp only [hpp, hpn, if_false]
        cases fdp <;> rfl
    · -- exponent
      congr 1
      unfold expOf
      by_cases hz0 : d.ndig.toInt = 0
      · have : n = 0 := by omega
        subst this
        simp [msd, hz hz0, hz0]
      · have : (msd d.dig n).isEmpty = false := by
          cases hm : msd d.dig n with
          | nil => rw [hm] at hlen; simp at hlen; omega
          | cons a L => rfl
        simp only [this, Bool.false_eq_true, if_false]
        split <;> omega

/-- the fraction digits of `Spec.layoutF` as three stretches: leading zeros, digits, trailing zeros -/
theorem fracF_list (M : List Nat) (dp : Int) (prec : Nat)
    (hfit : (-dp).toNat + (M.length - (max dp 0).toNat) ≤ prec) :
    Spec.zeros (-dp).toNat ++ Spec.digitsStr (M.drop (max dp 0).toNat) ++
        Spec.zeros (prec - (-dp).toNat - (M.length - (max dp 0).toNat)) =
      (List.range prec).map (fun (i : Nat) =>
        let j : Int := dp + (i : Int)
        if 0 ≤ j ∧ j.toNat < M.length then Spec.digitChar (M.getD j.toNat 0) else '0') := by
  apply List.ext_getElem
  · simp [Spec.zeros, Spec.digitsStr]; omega
  · intro i h1 h2
    simp only [Spec.zeros, Spec.digitsStr, List.getElem_append, List.length_replicate, List.getElem_replicate,
      List.length_map, List.length_drop, List.getElem_map, List.getElem_drop, List.getElem_range, List.length_append]
    split_ifs with a b c c
    · omega
    · rfl
    · have : (dp + (i:Int)).toNat = (max dp 0).toNat + (i - (-dp).toNat) := by omega
      rw [this]
      simp [List.getD_eq_getElem?_getD, List.getElem?_eq_getElem (show (max dp 0).toNat + (i - (-dp).toNat) < M.length by omega)]
    · omega
    · omega
    · rfl

/-- the slice a record denotes, with zero normalised to `⟨[], 0⟩` as `Spec.roundSlice` does -/
def nslice (d : digits) : Spec.Slice := if d.ndig.toInt = 0 then ⟨[], 0⟩ else slice d

/-- **`bodyF` is `Spec.layoutF`**: for a well-formed record whose fraction digits fit the
precision (`−exp ≤ prec`). -/
theorem bodyF_str (d : digits) (hwf : WF d) (prec : Int) (fdp ps pds : Bool)
    (hp : 0 ≤ prec) (hfit : d.ndig.toInt = 0 ∨ -d.exp.toInt ≤ prec) :
    (bodyF d prec fdp ps pds).map chr =
      signStr d.neg ps pds ++ Spec.layoutF (nslice d) prec.toNat fdp := by
  have h0 := hwf.n0
  have h39 := hwf.n39
  unfold bodyF
  rw [List.map_append, signBytes_str, List.map_append]
  congr 1
  unfold Spec.layoutF
  by_cases hz0 : d.ndig.toInt = 0
  · -- zero
    have hns : nslice d = ⟨[], 0⟩ := by unfold nslice; rw [if_pos hz0]
    have hdp : dpF d = 0 := by unfold dpF; rw [if_pos hz0]
    rw [hns]
    unfold intF fracF
    simp only [hz0, if_true, hdp]
    congr 1
    by_cases hpp : 0 < prec
    · have hpn : prec.toNat > 0 := by omega
      simp only [hpp, hpn, if_true, List.map_cons, chr_46]
      congr 1
      have := fracF_list [] 0 prec.toNat (by simp)
      simp only [List.length_nil] at this ⊢
      rw [← this]
      simp [Spec.zeros, Spec.digitsStr, chr_48]
    · have hpn : ¬ prec.toNat > 0 := by omega
      simp only [hpp, hpn, if_false]
      cases fdp <;> rfl
  · have hns : nslice d = slice d := by unfold nslice; rw [if_neg hz0]
    have hdp : dpF d = d.exp.toInt + d.ndig.toInt := by unfold dpF; rw [if_neg hz0]; omega
    rw [hns]
    unfold slice
    generalize hn : d.ndig.toInt.toNat = n
    have hlen := msd_length d.dig n
    simp only [hlen]
    rw [← hdp]
    have hfit' : -d.exp.toInt ≤ prec := by omega
    congr 1
    · -- integer digits
      unfold intF
      simp only [hz0, if_false]
      by_cases hpos : 0 < dpF d
      · simp only [hpos, if_true]
        by_cases hlt : dpF d < d.ndig.toInt
        · simp only [hlt, if_true]
          rw [digs_str d hwf 0 _ (by omega), hn]
          have : (dpF d).toNat - n = 0 := by omega
          simp [this, Spec.zeros]
        · simp only [hlt, if_false, List.map_append, List.map_replicate, chr_48]
          rw [digs_str d hwf 0 _ (Nat.le_refl _), hn, List.take_of_length_le (by omega),
            List.take_of_length_le (by omega)]
          simp only [List.drop_zero, Spec.zeros]
          congr 2; omega
      · simp only [hpos, if_false]; rfl
    · -- fraction digits
      unfold fracF
      by_cases hpp : 0 < prec
      · have hpn : prec.toNat > 0 := by omega
        simp only [hpp, hpn, if_true, List.map_cons, chr_46]
        congr 1
        have hk0 : (max (dpF d) 0).toNat ≤ n ∨ n < (max (dpF d) 0).toNat := by omega
        have := fracF_list (msd d.dig n) (dpF d) prec.toNat (by rw [hlen]; omega)
        rw [hlen] at this
        rw [← this]
        simp only [List.map_append, List.map_replicate, chr_48, Spec.zeros]
        by_cases hlt : max (dpF d) 0 < d.ndig.toInt
        · simp only [hlt, if_true]
          rw [digs_str d hwf _ _ (Nat.le_refl _), hn, List.take_of_length_le (by omega)]
          congr 2; omega
        · simp only [hlt, if_false, List.map_nil, List.append_nil]
          have : (msd d.dig n).drop (max (dpF d) 0).toNat = [] := by
            apply List.drop_eq_nil_of_le; omega
          rw [this]
          simp only [Spec.digitsStr, List.map_nil, List.append_nil]
          congr 2; omega
      · have hpn : ¬ prec.toNat > 0 := by omega
        simp only [hpp, hpn, if_false]
        cases fdp <;> rfl

/-! ## width padding -/

/-- the width rule of `Spec.fmtSpec` (its last lines, verbatim) -/
def padStr (minus zero : Bool) (w : Nat) (sign body : Spec.Str) : Spec.Str :=
  let len := sign.length + body.length
  if w ≤ len then sign ++ body
  else if minus then sign ++ body ++ List.replicate (w - len) ' '
  else if zero then sign ++ Spec.zeros (w - len) ++ body
  else List.replicate (w - len) ' ' ++ sign ++ body

theorem fmtSpec_eq (fl : Spec.Flags) (verb : Char) (prec width : Option Nat) (neg : Bool)
    (s : Spec.Slice) :
    Spec.fmtSpec fl verb prec width neg s =
      padStr fl.minus fl.zero (width.getD 0) (signStr neg fl.plus fl.space)
        (if fl.sharp then Spec.sharpFix (Spec.bodyOf s verb prec) verb prec
          else Spec.bodyOf s verb prec) := rfl

/-- **`padOut` is the width rule of `fmtSpec`** when the sign bytes `S` are present exactly if a
sign was asked for and `0` is not combined with `-`. -/
theorem padOut_str (neg : Bool) (buf : Go.Bytes) (S B : List UInt8) (W : Nat)
    (ps pds pr pz : Bool) (hS : S.length = if (neg || ps || pds) = true then 1 else 0)
    (hprz : pr = true → pz = false) :
    bstr (padOut neg (buf ++ (S ++ B).toArray) buf.size W ps pds pr pz) =
      bstr buf ++ padStr pr pz W (S.map chr) (B.map chr) := by
  unfold padOut padStr bstr
  simp only [Array.size_append, List.size_toArray, List.length_append, Nat.add_sub_cancel_left,
    List.length_map]
  by_cases hW : W ≤ S.length + B.length
  · simp [hW]
  · simp only [hW, if_false]
    cases pr
    · simp only [Bool.false_eq_true, if_false]
      cases pz
      · simp only [Bool.false_and, Bool.false_eq_true, if_false, Nat.add_zero]
        simp [chr_32]
        exact List.take_of_length_le (by simp)
      · simp only [Bool.true_and, if_true]
        have hk : (if (neg || ps || pds) = true then 1 else 0) = S.length := hS.symm
        rw [hk]
        have t1 : List.take (buf.size + S.length) (List.map chr buf.toList) = List.map chr buf.toList :=
          List.take_of_length_le (by simp)
        have t2 : List.drop (buf.size + S.length) (List.map chr buf.toList) = [] :=
          List.drop_eq_nil_of_le (by simp)
        simp [chr_48, Spec.zeros, t1, t2]
    · have := hprz rfl
      subst this
      simp [chr_32]

/-- **`pad`**: the number written at `buf[start:]` = sign bytes `S` ++ body `B` is padded to `width`
as `Spec.fmtSpec` prescribes — right-padded with blanks for `-`, zero-padded after the sign for `0`,
left-padded with blanks otherwise; the bytes `pre` before `start` stay in place; no panic. -/
theorem pad_spec (d : digits) (pre : Go.Bytes) (S B : List UInt8) (start width : Int64)
    (ps pds pr pz : Bool) (W : Nat) (hS : start.toInt = pre.size) (hW : width.toInt = W)
    (hSl : S.length = if (d.neg || ps || pds) = true then 1 else 0)
    (hb : pre.size + S.length + B.length < 2 ^ 62) (hW' : W < 2 ^ 62)
    (hprz : pr = true → pz = false) :
    ∃ r, Gen.digits.pad d (pre ++ (S ++ B).toArray) start width ps pds pr pz = .ok (d, r) ∧
      bstr r = bstr pre ++ padStr pr pz W (S.map chr) (B.map chr) := by
  refine ⟨_, pad_eq d _ start width ps pds pr pz pre.size W hS hW (by simp) ?_ (by simp; omega) hW',
    padOut_str d.neg pre S B W ps pds pr pz hSl hprz⟩
  intro hs
  have : (d.neg || ps || pds) = true := by
    simp only [Bool.and_eq_true] at hs; exact hs.2
  rw [if_pos this] at hSl
  simp; omega

/-- **The `0` flag together with `-`** (not produced by `parseFormat`, but by `Decimal.Format` when
`fmt` reports both flags): `pad` fills the right side with `'0'` characters, where fmt pads a
float64 with blanks — `%-04g` of 1 gives `1000`.  (Defect D13 of the review.) -/
theorem pad_zero_minus (d : digits) (pre : Go.Bytes) (B : List UInt8) (start width : Int64)
    (ps pds : Bool) (W : Nat) (hS : start.toInt = pre.size) (hW : width.toInt = W)
    (hb : pre.size + B.length < 2 ^ 62) (hW' : W < 2 ^ 62) (hlt : B.length < W)
    (hsign : (d.neg || ps || pds) = false) :
    Gen.digits.pad d (pre ++ B.toArray) start width ps pds true true =
      .ok (d, pre ++ B.toArray ++ Array.replicate (W - B.length) 48) := by
  rw [pad_eq d _ start width ps pds true true pre.size W hS hW (by simp)
    (by rw [hsign]; simp) (by simp; omega) hW']
  unfold padOut
  simp only [Array.size_append, List.size_toArray, Nat.add_sub_cancel_left]
  rw [if_neg (by omega)]
  rfl

/-! ## the emitters against the specification -/

/-- **`fmtE` lays out like `Spec.layoutE`** (sign flags, forced point, exponent form, width
padding), without panic, leaving `d` unchanged. -/
theorem fmtE_layout (d : digits) (hwf : WF d) (buf : Go.Bytes) (prec width : Int64)
    (fdp ps pds pe pr pz : Bool) (e : UInt8) (hexp : ExpOK d) (hp0 : 0 ≤ prec.toInt)
    (hp : prec.toInt < 2 ^ 60) (hnd : d.ndig.toInt ≤ prec.toInt + 1)
    (hz : d.ndig.toInt = 0 → d.exp.toInt = 0) (hx : (expOf d).natAbs < 10000)
    (W : Nat) (hW : width.toInt = W) (hW' : W < 2 ^ 62) (hb : buf.size < 2 ^ 61)
    (hprz : pr = true → pz = false) :
    ∃ r, Gen.digits.fmtE d buf prec width fdp ps pds pe pr pz e = .ok (d, r) ∧
      bstr r = bstr buf ++ padStr pr pz W (signStr d.neg ps pds)
        (Spec.layoutE (slice d) prec.toInt.toNat fdp (chr e) (if pe then 2 else 1)) := by
  refine ⟨_, fmtE_eq d buf prec width fdp ps pds pe pr pz e hexp hwf.n0 hwf.n39 W hW hW' hb hp, ?_⟩
  have hstr := bodyE_str d hwf prec.toInt fdp ps pds pe e hp0 hnd hz hx
  unfold bodyE at hstr ⊢
  rw [List.map_append, signBytes_str] at hstr
  have hB := List.append_cancel_left hstr
  rw [padOut_str d.neg buf _ _ W ps pds pr pz (signBytes_length _ _ _) hprz, signBytes_str, hB]

/-- **`fmtF` lays out like `Spec.layoutF`**. -/
theorem fmtF_layout (d : digits) (hwf : WF d) (buf : Go.Bytes) (prec width : Int64)
    (fdp ps pds pr pz : Bool) (hx0 : -2 ^ 58 ≤ d.exp.toInt) (hx1 : d.exp.toInt ≤ 2 ^ 58)
    (hp0 : 0 ≤ prec.toInt) (hp : prec.toInt < 2 ^ 58)
    (hfit : d.ndig.toInt = 0 ∨ -d.exp.toInt ≤ prec.toInt)
    (W : Nat) (hW : width.toInt = W) (hW' : W < 2 ^ 62) (hb : buf.size < 2 ^ 61)
    (hprz : pr = true → pz = false) :
    ∃ r, Gen.digits.fmtF d buf prec width fdp ps pds pr pz = .ok (d, r) ∧
      bstr r = bstr buf ++ padStr pr pz W (signStr d.neg ps pds)
        (Spec.layoutF (nslice d) prec.toInt.toNat fdp) := by
  refine ⟨_, fmtF_eq d buf prec width fdp ps pds pr pz hx0 hx1 hwf.n0 hwf.n39 W hW hW' hb
    (by omega) hp, ?_⟩
  have hstr := bodyF_str d hwf prec.toInt fdp ps pds hp0 hfit
  unfold bodyF at hstr ⊢
  rw [List.map_append, signBytes_str] at hstr
  have hB := List.append_cancel_left hstr
  rw [padOut_str d.neg buf _ _ W ps pds pr pz (signBytes_length _ _ _) hprz, signBytes_str, hB]

end Ly
