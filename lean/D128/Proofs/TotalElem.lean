/-
  D128.Proofs.TotalElem — totality (termination, no panic) of the exported elementary functions
  `Sqrt`, `Cbrt`, `Exp`, `Expm1`, `Exp10` for EVERY bit pattern `d` and EVERY value of
  `DefaultRoundingMode` (including invalid mode bytes) (C20).

  * `divSpec`      : `DivSpec` (from `U192_div_spec`)
  * `sig_ne_zero`  : `d.IsZero = false → (d.decompose).1.toNat ≠ 0`
  * `Sqrt_triple`, `Cbrt_triple`, `Exp_triple`, `Expm1_triple`, `Exp10_triple` : `⦃True⦄ f g d ⦃_ => True⦄`
  * `Sqrt_total`, `Cbrt_total`, `Exp_total`, `Expm1_total`, `Exp10_total` : `∃ r, Gen.f g d = .ok r`

  Why they cannot panic or hang: every `decomposed192.quo` gets a non-zero divisor (in `Sqrt` the
  iterate stays non-zero because it starts as `nrm·c₁ + c₂` with `c₂ ≠ 0` and sums/products/quotients
  of non-zero working numbers are non-zero; in `Cbrt` the denominator `2·res³ + d` contains the
  non-zero argument), `epow/epowm1/rcp` get non-zero arguments, and the final `reduce192` is called
  with a non-zero significand (or, for `Expm1`, with a sticky flag that is not `-1`), which is what
  `reduce192_total` needs (for a zero significand with flag `-1` the rounding kernel does not
  terminate in the directed modes, see `TotalRound`).
-/
import D128.Proofs.TotalD192Elem
import D128.Proofs.TotalDiv192
import D128.Proofs.TotalReduce192
import D128.Proofs.Words128Log
import D128.Proofs.Specials
set_option autoImplicit false
set_option mvcgen.warning false
set_option exponentiation.threshold 512
set_option maxRecDepth 16384
namespace D128.Proofs.Total
open Std.Do
open D128.Proofs.WordsWide

theorem divSpec : DivSpec := fun n o ho => U192_div_spec n o ho

theorem sig_ne_zero (d : Gen.Decimal) : d.IsZero = false → (d.decompose).1.toNat ≠ 0 := by
  intro h
  rw [Sp.IsZero_eq_sig] at h
  simpa using h

theorem ln10_ne_zero : Gen.ln10.sig.toNat ≠ 0 := by decide
theorem ln2_ne_zero : Gen.ln2.sig.toNat ≠ 0 := by decide

theorem Sqrt_triple (g : Globals) (d : Gen.Decimal) :
    ⦃⌜True⌝⦄ Gen.Sqrt g d ⦃⇓ _ => ⌜True⌝⦄ := by
  have hq := d192_quo_triple divSpec
  have hnz := sig_ne_zero d
  mvcgen -trivial [Gen.Sqrt, hq]
  case inv1 | inv3 => exact fun st => ⟨dn64 st.2.2.2⟩
  case inv2 | inv4 => exact ⇓ x => match x with
    | .inl st => ⌜st.1.sig.toNat ≠ 0⌝
    | .inr st => ⌜st.1.sig.toNat ≠ 0⌝
  all_goals (simp +zetaDelta at *)
  all_goals (try have hnz' := hnz (by first | assumption | (casesm* _ ∧ _ <;> assumption)))
  all_goals d192_prep
  all_goals d192_fin

set_option maxHeartbeats 1000000 in
theorem Cbrt_triple (g : Globals) (d : Gen.Decimal) :
    ⦃⌜True⌝⦄ Gen.Cbrt g d ⦃⇓ _ => ⌜True⌝⦄ := by
  have hq := d192_quo_triple divSpec
  have hnz := sig_ne_zero d
  mvcgen -trivial [Gen.Cbrt, hq]
  case inv1 | inv3 => exact fun st => ⟨dn64 st.2.2⟩
  case inv2 | inv4 => exact ⇓ x => match x with
    | .inl st => ⌜st.1.sig.toNat ≠ 0⌝
    | .inr st => ⌜st.1.sig.toNat ≠ 0⌝
  all_goals (simp +zetaDelta at *)
  all_goals (try have hnz' := hnz (by first | assumption | (casesm* _ ∧ _ <;> assumption)))
  all_goals d192_prep
  all_goals d192_fin

theorem Exp_triple (g : Globals) (d : Gen.Decimal) :
    ⦃⌜True⌝⦄ Gen.Exp g d ⦃⇓ _ => ⌜True⌝⦄ := by
  have he := d192_epow_triple divSpec
  have hr := d192_rcp_triple divSpec
  have hnz := sig_ne_zero d
  mvcgen -trivial [Gen.Exp, he, hr]
  all_goals (simp +zetaDelta at *)
  all_goals (try have hnz' := hnz (by first | assumption | (casesm* _ ∧ _ <;> assumption)))
  all_goals d192_prep
  all_goals d192_fin

theorem Expm1_triple (g : Globals) (d : Gen.Decimal) :
    ⦃⌜True⌝⦄ Gen.Expm1 g d ⦃⇓ _ => ⌜True⌝⦄ := by
  have he := d192_epowm1_triple divSpec
  have hnz := sig_ne_zero d
  mvcgen -trivial [Gen.Expm1, he]
  all_goals (simp +zetaDelta at *)
  all_goals (try have hnz' := hnz (by first | assumption | (casesm* _ ∧ _ <;> assumption)))
  all_goals d192_prep
  all_goals d192_fin

set_option maxHeartbeats 1000000 in
theorem Exp10_triple (g : Globals) (d : Gen.Decimal) :
    ⦃⌜True⌝⦄ Gen.Exp10 g d ⦃⇓ _ => ⌜True⌝⦄ := by
  have he := d192_epow_triple divSpec
  have hr := d192_rcp_triple divSpec
  have hnz := sig_ne_zero d
  have h10 := ln10_ne_zero
  mvcgen -trivial [Gen.Exp10, he, hr]
  case inv1 => exact fun st => ⟨dn16 st.2.2⟩
  case inv2 => exact ⇓ _ => ⌜True⌝
  case inv3 => exact fun st => ⟨up16 st.2⟩
  case inv4 => exact ⇓ _ => ⌜True⌝
  case inv5 => exact fun st => ⟨st.2.2.toNat⟩
  case inv6 => exact ⇓ _ => ⌜True⌝
  all_goals (simp +zetaDelta at *)
  all_goals (try have hnz' := hnz (by first | assumption | (casesm* _ ∧ _ <;> assumption)))
  all_goals d192_prep
  all_goals d192_fin

theorem total_of_triple {α : Type} {f : Go.GoM α} (h : ⦃⌜True⌝⦄ f ⦃⇓ _ => ⌜True⌝⦄) :
    ∃ r, f = .ok r :=
  let ⟨r, e, _⟩ := ok_of_triple h; ⟨r, e⟩

theorem Sqrt_total (g : Globals) (d : Gen.Decimal) : ∃ r, Gen.Sqrt g d = .ok r :=
  total_of_triple (Sqrt_triple g d)
theorem Cbrt_total (g : Globals) (d : Gen.Decimal) : ∃ r, Gen.Cbrt g d = .ok r :=
  total_of_triple (Cbrt_triple g d)
theorem Exp_total (g : Globals) (d : Gen.Decimal) : ∃ r, Gen.Exp g d = .ok r :=
  total_of_triple (Exp_triple g d)
theorem Expm1_total (g : Globals) (d : Gen.Decimal) : ∃ r, Gen.Expm1 g d = .ok r :=
  total_of_triple (Expm1_triple g d)
theorem Exp10_total (g : Globals) (d : Gen.Decimal) : ∃ r, Gen.Exp10 g d = .ok r :=
  total_of_triple (Exp10_triple g d)

end D128.Proofs.Total
