/-
  Soundness of the rational enclosure oracle `Spec.Encl`, part 2: the logarithm constants.

  1. `atanh_fold t N` : the `foldl` of `atanhInv` computes (Σ_{i<N} t^(2i+1)/(2i+1), t^(2N+1))
     `atanhInv_eq n N` : closed form of `atanhInv n N` (rounded partial sum / partial sum + tail)
  2. `atanh_series_bounds` : for 0 ≤ t < 1,
        Σ_{i<N} t^(2i+1)/(2i+1) ≤ (log(1+t) − log(1−t))/2 ≤ Σ_{i<N} … + t^(2N+1)/((2N+1)(1−t²))
  3. `atanhInv_sound n N (2 ≤ n)` : `Real.artanh (1/n) ∈ᵢ atanhInv n N`   (every N)
     `atanhInv_sound_log` : the same for `(log(1+1/n) − log(1−1/n))/2`
  4. `ln2_sound : Real.log 2 ∈ᵢ ln2`, `ln54_sound : Real.log (5/4) ∈ᵢ ln54`,
     `ln10_sound : Real.log 10 ∈ᵢ ln10`
-/
import D128.Proofs.EnclosureRound
import Mathlib.Analysis.SpecialFunctions.Log.Deriv
import Mathlib.Analysis.SpecialFunctions.Artanh
import Mathlib.Analysis.SpecificLimits.Basic
set_option autoImplicit false

namespace EnclPf
open Spec Spec.Encl SpecRound

/-! ## 1. the fold of `atanhInv` -/

theorem atanh_fold (t t2 : ℚ) (N : ℕ) :
    (List.range N).foldl (fun (acc : Rat × Rat) i =>
        (acc.1 + acc.2 / ((2 * i + 1 : Nat) : Rat), acc.2 * t2)) ((0 : Rat), t)
      = (∑ i ∈ Finset.range N, t * t2 ^ i / ((2 * i + 1 : ℕ) : ℚ), t * t2 ^ N) := by
  induction N with
  | zero => simp
  | succ N ih =>
    rw [List.range_succ, List.foldl_append, ih]
    simp only [List.foldl_cons, List.foldl_nil, Finset.sum_range_succ, pow_succ, mul_assoc]

/-- partial sum of the artanh series at the rational `t` -/
def atanhSum (t : ℚ) (N : ℕ) : ℚ := ∑ i ∈ Finset.range N, t * (t * t) ^ i / ((2 * i + 1 : ℕ) : ℚ)

theorem atanhInv_eq (n N : ℕ) :
    atanhInv n N =
      ⟨rdDown (atanhSum (1 / (n : ℚ)) N),
       rdUp (atanhSum (1 / (n : ℚ)) N +
         (1 / (n : ℚ)) * ((1 / (n : ℚ)) * (1 / (n : ℚ))) ^ N /
           (((2 * N + 1 : ℕ) : ℚ) * (1 - (1 / (n : ℚ)) * (1 / (n : ℚ)))))⟩ := by
  unfold atanhInv
  simp only [atanh_fold, atanhSum]

/-! ## 2. the series -/

theorem atanh_series_bounds {t : ℝ} (h0 : 0 ≤ t) (h1 : t < 1) (N : ℕ) :
    (∑ i ∈ Finset.range N, t * (t * t) ^ i / ((2 * i + 1 : ℕ) : ℝ)) ≤ (Real.log (1 + t) - Real.log (1 - t)) / 2 ∧
    (Real.log (1 + t) - Real.log (1 - t)) / 2 ≤
      (∑ i ∈ Finset.range N, t * (t * t) ^ i / ((2 * i + 1 : ℕ) : ℝ)) +
        t * (t * t) ^ N / (((2 * N + 1 : ℕ) : ℝ) * (1 - t * t)) := by
  have habs : |t| < 1 := by rw [abs_of_nonneg h0]; exact h1
  have hs := Real.hasSum_log_sub_log_of_abs_lt_one habs
  set L := Real.log (1 + t) - Real.log (1 - t) with hL
  -- the series of halves
  have hf : HasSum (fun k : ℕ => t * (t * t) ^ k / ((2 * k + 1 : ℕ) : ℝ)) (L / 2) := by
    have := hs.div_const 2
    have e : (fun k : ℕ => t * (t * t) ^ k / ((2 * k + 1 : ℕ) : ℝ)) =
        (fun k : ℕ => (2 : ℝ) * (1 / (2 * k + 1)) * t ^ (2 * k + 1) / 2) := by
      funext k
      push_cast
      rw [pow_succ, pow_mul, pow_two]
      field_simp
    rw [e]; exact this
  have htt0 : 0 ≤ t * t := mul_nonneg h0 h0
  have htt1 : t * t < 1 := by nlinarith
  have hnn : ∀ k : ℕ, 0 ≤ t * (t * t) ^ k / ((2 * k + 1 : ℕ) : ℝ) := fun k => by positivity
  refine ⟨sum_le_hasSum _ (fun i _ => hnn i) hf, ?_⟩
  -- tail
  have htail := (hasSum_nat_add_iff' N).2 hf
  have hgeo : HasSum (fun k : ℕ => t * (t * t) ^ N / ((2 * N + 1 : ℕ) : ℝ) * (t * t) ^ k)
      (t * (t * t) ^ N / ((2 * N + 1 : ℕ) : ℝ) * (1 - t * t)⁻¹) :=
    (hasSum_geometric_of_lt_one htt0 htt1).mul_left _
  have hle := hasSum_le (fun k => ?_) htail hgeo
  · have : t * (t * t) ^ N / ((2 * N + 1 : ℕ) : ℝ) * (1 - t * t)⁻¹ =
        t * (t * t) ^ N / (((2 * N + 1 : ℕ) : ℝ) * (1 - t * t)) := by
      rw [div_mul_eq_mul_div, ← div_eq_mul_inv, div_div]; ring
    rw [this] at hle
    linarith
  · -- termwise comparison
    have hd1 : (0 : ℝ) < ((2 * N + 1 : ℕ) : ℝ) := by positivity
    have hd2 : ((2 * N + 1 : ℕ) : ℝ) ≤ ((2 * (k + N) + 1 : ℕ) : ℝ) := by
      exact_mod_cast (by omega : 2 * N + 1 ≤ 2 * (k + N) + 1)
    have hnum : 0 ≤ t * (t * t) ^ (k + N) := by positivity
    calc t * (t * t) ^ (k + N) / ((2 * (k + N) + 1 : ℕ) : ℝ)
        ≤ t * (t * t) ^ (k + N) / ((2 * N + 1 : ℕ) : ℝ) := div_le_div_of_nonneg_left hnum hd1 hd2
      _ = t * (t * t) ^ N / ((2 * N + 1 : ℕ) : ℝ) * (t * t) ^ k := by rw [pow_add]; ring

/-! ## 3. `atanhInv` -/

theorem atanhInv_sound_log (n N : ℕ) (hn : 2 ≤ n) :
    ((Real.log (1 + 1 / (n : ℝ)) - Real.log (1 - 1 / (n : ℝ))) / 2) ∈ᵢ atanhInv n N := by
  have hn' : (2 : ℝ) ≤ (n : ℝ) := by exact_mod_cast hn
  have hnpos : (0 : ℝ) < (n : ℝ) := by linarith
  have h0 : (0 : ℝ) ≤ 1 / (n : ℝ) := by positivity
  have h1 : 1 / (n : ℝ) < 1 := by rw [div_lt_one hnpos]; linarith
  obtain ⟨b1, b2⟩ := atanh_series_bounds h0 h1 N
  rw [atanhInv_eq]
  constructor
  · apply rdDown_le_real
    simp only [atanhSum]
    push_cast at b1 ⊢
    exact b1
  · apply le_rdUp_real
    simp only [atanhSum]
    push_cast at b2 ⊢
    exact b2

theorem atanhInv_sound (n N : ℕ) (hn : 2 ≤ n) : Real.artanh (1 / (n : ℝ)) ∈ᵢ atanhInv n N := by
  have hn' : (2 : ℝ) ≤ (n : ℝ) := by exact_mod_cast hn
  have hnpos : (0 : ℝ) < (n : ℝ) := by linarith
  have h0 : (0 : ℝ) ≤ 1 / (n : ℝ) := by positivity
  have h1 : 1 / (n : ℝ) < 1 := by rw [div_lt_one hnpos]; linarith
  have := atanhInv_sound_log n N hn
  rw [Real.artanh_eq_half_log ⟨by linarith, h1.le⟩, Real.log_div (by linarith) (by linarith)]
  convert this using 1
  ring

example : Real.artanh (1 / (3 : ℕ)) ∈ᵢ atanhInv 3 90 := atanhInv_sound 3 90 (by norm_num)

/-! ## 4. ln 2, ln(5/4), ln 10 -/

theorem ln2_sound : Real.log 2 ∈ᵢ ln2 := by
  have h := mem_scale (atanhInv_sound_log 3 90 (by norm_num)) 2
  have e : (Real.log (1 + 1 / ((3 : ℕ) : ℝ)) - Real.log (1 - 1 / ((3 : ℕ) : ℝ))) / 2 * ((2 : ℚ) : ℝ) = Real.log 2 := by
    rw [← Real.log_div (by norm_num) (by norm_num)]
    push_cast
    norm_num
  rw [e] at h
  exact h

theorem ln54_sound : Real.log (5 / 4) ∈ᵢ ln54 := by
  have h := mem_scale (atanhInv_sound_log 9 45 (by norm_num)) 2
  have e : (Real.log (1 + 1 / ((9 : ℕ) : ℝ)) - Real.log (1 - 1 / ((9 : ℕ) : ℝ))) / 2 * ((2 : ℚ) : ℝ) = Real.log (5 / 4) := by
    rw [← Real.log_div (by norm_num) (by norm_num)]
    push_cast
    norm_num
  rw [e] at h
  exact h

theorem ln10_sound : Real.log 10 ∈ᵢ ln10 := by
  have h := mem_add (mem_scale ln2_sound 3) ln54_sound
  have e : Real.log 2 * ((3 : ℚ) : ℝ) + Real.log (5 / 4) = Real.log 10 := by
    have : (10 : ℝ) = 2 ^ 3 * (5 / 4) := by norm_num
    rw [this, Real.log_mul (by norm_num) (by norm_num), Real.log_pow]
    push_cast; ring
  rw [e] at h
  exact h

end EnclPf
