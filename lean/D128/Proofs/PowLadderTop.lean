/-
  D128/Proofs/PowLadderTop.lean — property C18: the rungs of the ladder as statements about
  `Gen.Decimal.PowWithMode` itself (entry through cases (a)–(c) included), with the operands described by
  the values they denote.  All bit patterns, every mode byte.

  Provided (namespace `PowPf`):
  * `fin_of_interp`, `inf_of_interp` : the class tests and `decompose` of an operand with a given value
  * `absOne_of_mag`, `not_one_entry`  : entry conditions in terms of values
  * `top_yinf`     : y = ±Inf, x not NaN, |x| ≠ 1
  * `top_xzero`    : x = ±0, finite y ∉ {0, ±1}
  * `top_xinf`     : x = ±Inf, finite y ∉ {0, ±1}
  * `top_negnan`   : finite x < 0, finite non-integer y
  * `top_pow10`    : x = ±10^K (not +1), y = Y ∈ ℕ, Y ≥ 2
  * `top_half`     : x = +10^K (not +1), K even, y = ±1/2
  * `top_negint_partial` : finite x < 0, integer y ∉ {0, ±1}: the sign handed to every continuation is (−1)^y
  * `top_pow10_spec`, `top_half_spec` : `Spec.powSpecial` prescribes the same value in the last two cases
-/
import D128.Proofs.PowLadderSpec

set_option autoImplicit false
set_option maxRecDepth 8192
set_option linter.unusedVariables false
set_option linter.unusedSimpArgs false

namespace PowPf
open Gen Sp Spec
local notation "𝔳[" d "]" => Spec.interp (Gen.Decimal.lo d) (Gen.Decimal.hi d)

theorem fin_of_interp (o : Decimal) (yn : Bool) (yc : Nat) (ye : Int) (hy : 𝔳[o] = .fin yn yc ye) :
    Decimal.isSpecial o = false ∧ Decimal.Signbit o = yn ∧ cf o = yc ∧ ex o = ye ∧
      Decimal.IsZero o = decide (yc = 0) := by
  rcases view o with ⟨b1, b2, b3, b4, bv⟩ | ⟨b1, b2, b3, b4, bv⟩ | ⟨b1, b2, b3, b4, b5, bc, bv⟩ | ⟨b1, b2, b3, b4, b5, bc, bb, bv⟩
  · rw [bv] at hy; cases hy
  · rw [bv] at hy; cases hy
  · rw [bv] at hy; injection hy with e1 e2 e3
    exact ⟨b3, e1, by rw [bc]; exact e2, e3, by rw [b4, ← e2]; rfl⟩
  · rw [bv] at hy; injection hy with e1 e2 e3
    refine ⟨b3, e1, e2, e3, ?_⟩
    rw [b4, ← e2]; exact (decide_eq_false bc).symm

theorem inf_of_interp (o : Decimal) (yn : Bool) (hy : 𝔳[o] = .inf yn) :
    Decimal.isInf o = true ∧ Decimal.Signbit o = yn ∧ Decimal.IsZero o = false ∧ Decimal.IsNaN o = false := by
  rcases view o with ⟨b1, b2, b3, b4, bv⟩ | ⟨b1, b2, b3, b4, bv⟩ | ⟨b1, b2, b3, b4, b5, bc, bv⟩ | ⟨b1, b2, b3, b4, b5, bc, bb, bv⟩
  · rw [bv] at hy; cases hy
  · rw [bv] at hy; injection hy with e1
    exact ⟨b2, e1, b4, b1⟩
  · rw [bv] at hy; cases hy
  · rw [bv] at hy; cases hy

theorem absOne_of_mag (n : Bool) (c : Nat) (e : Int) (h : Spec.mag c e ≠ 1) :
    absOne (.fin n c e) = false := by
  simp [absOne, h]

/-! ## 1. y = ±Inf -/

theorem top_yinf (d o : Decimal) (rm : UInt8) (m : Mode) (yn : Bool) (hy : 𝔳[o] = .inf yn)
    (hd : (𝔳[d]).isNaN = false) (h1 : absOne 𝔳[d] = false) :
    Decimal.PowWithMode d o rm = .ok (infTable (absGtOne 𝔳[d]) yn) ∧
    powSpecial m 𝔳[d] 𝔳[o] =
      some (if (absGtOne 𝔳[d] != yn) = true then .inf false else .fin false 0 0) := by
  obtain ⟨hi, hs, hz, hn⟩ := inf_of_interp o yn hy
  rw [Enc.interp_isNaN] at hd
  have hyo : absOne 𝔳[o] = false := by rw [hy]; rfl
  obtain ⟨e1, e2⟩ := to_ladder d o rm m hz (by rw [h1]; rfl) hyo
  obtain ⟨e3, e4⟩ := case_yinf d o rm m hd hi h1
  rw [hs] at e3 e4
  exact ⟨by rw [e1, e3], by rw [e2, e4]⟩

/-! ## 2. x = ±0, x = ±Inf with a finite y -/

theorem top_xzero (d o : Decimal) (rm : UInt8) (m : Mode) (xn : Bool) (xe : Int) (yn : Bool) (yc : Nat)
    (ye : Int) (hx : 𝔳[d] = .fin xn 0 xe) (hy : 𝔳[o] = .fin yn yc ye) (hy0 : yc ≠ 0)
    (hy1 : Spec.mag yc ye ≠ 1) :
    Decimal.PowWithMode d o rm =
      .ok (if yn = true then Gen.inf (xn && oddIntQ (Spec.mag yc ye))
           else Gen.zero (xn && oddIntQ (Spec.mag yc ye))) ∧
    powSpecial m 𝔳[d] 𝔳[o] =
      some (if yn = true then .inf (xn && oddIntQ (Spec.mag yc ye))
            else .fin (xn && oddIntQ (Spec.mag yc ye)) 0 0) := by
  obtain ⟨a3, a1, a2, a5, a4⟩ := fin_of_interp d xn 0 xe hx
  obtain ⟨h3, b1, b2, b5, b4⟩ := fin_of_interp o yn yc ye hy
  have hz : Decimal.IsZero d = true := by rw [a4]; simp
  have h4 : Decimal.IsZero o = false := by rw [b4]; simpa using hy0
  have hyo : absOne 𝔳[o] = false := by rw [hy]; exact absOne_of_mag _ _ _ hy1
  have hxo : absOne 𝔳[d] = false := by
    rw [hx]; apply absOne_of_mag; rw [mag_zero]; norm_num
  obtain ⟨e1, e2⟩ := to_ladder d o rm m h4 (by rw [hxo]; rfl) hyo
  obtain ⟨e3, e4⟩ := case_xzero d o rm m hz h3 h4 hyo
  have hc : cf o ≤ Spec.Cmax := Enc.decompose_sig_le o
  rw [b2] at hc
  rw [a1, b1, b2, b5, intParity_odd yc ye hy0 hc] at e3 e4
  exact ⟨by rw [e1, e3], by rw [e2, e4]⟩

theorem top_xinf (d o : Decimal) (rm : UInt8) (m : Mode) (xn : Bool) (yn : Bool) (yc : Nat)
    (ye : Int) (hx : 𝔳[d] = .inf xn) (hy : 𝔳[o] = .fin yn yc ye) (hy0 : yc ≠ 0)
    (hy1 : Spec.mag yc ye ≠ 1) :
    Decimal.PowWithMode d o rm =
      .ok (if yn = true then Gen.zero (xn && oddIntQ (Spec.mag yc ye))
           else Gen.inf (xn && oddIntQ (Spec.mag yc ye))) ∧
    powSpecial m 𝔳[d] 𝔳[o] =
      some (if yn = true then .fin (xn && oddIntQ (Spec.mag yc ye)) 0 0
            else .inf (xn && oddIntQ (Spec.mag yc ye))) := by
  obtain ⟨hi, a1, -, -⟩ := inf_of_interp d xn hx
  obtain ⟨h3, b1, b2, b5, b4⟩ := fin_of_interp o yn yc ye hy
  have h4 : Decimal.IsZero o = false := by rw [b4]; simpa using hy0
  have hyo : absOne 𝔳[o] = false := by rw [hy]; exact absOne_of_mag _ _ _ hy1
  have hxo : absOne 𝔳[d] = false := by rw [hx]; rfl
  obtain ⟨e1, e2⟩ := to_ladder d o rm m h4 (by rw [hxo]; rfl) hyo
  obtain ⟨e3, e4⟩ := case_xinf d o rm m hi h3 h4 hyo
  have hc : cf o ≤ Spec.Cmax := Enc.decompose_sig_le o
  rw [b2] at hc
  rw [a1, b1, b2, b5, intParity_odd yc ye hy0 hc] at e3 e4
  exact ⟨by rw [e1, e3], by rw [e2, e4]⟩

/-! ## 3. negative finite x -/

theorem mag_ne_one_of_not_int (c : Nat) (e : Int) (h : isIntQ (Spec.mag c e) = false) : Spec.mag c e ≠ 1 := by
  intro h1; rw [h1] at h; exact absurd h (by decide)

theorem top_negnan (d o : Decimal) (rm : UInt8) (m : Mode) (xc : Nat) (xe : Int) (yn : Bool) (yc : Nat)
    (ye : Int) (hx : 𝔳[d] = .fin true xc xe) (hx0 : xc ≠ 0) (hy : 𝔳[o] = .fin yn yc ye) (hy0 : yc ≠ 0)
    (hni : isIntQ (Spec.mag yc ye) = false) :
    Decimal.PowWithMode d o rm = .ok (Gen.nan 15 4 (if yn = true then 4 else 3)) ∧
    powSpecial m 𝔳[d] 𝔳[o] = some (invalid2 .pow 𝔳[d] 𝔳[o]) ∧
    𝔳[Gen.nan 15 4 (if yn = true then 4 else 3)] = invalid2 .pow 𝔳[d] 𝔳[o] := by
  obtain ⟨a3, a1, a2, a5, a4⟩ := fin_of_interp d true xc xe hx
  obtain ⟨h3, b1, b2, b5, b4⟩ := fin_of_interp o yn yc ye hy
  have a4' : Decimal.IsZero d = false := by rw [a4]; simpa using hx0
  have h4 : Decimal.IsZero o = false := by rw [b4]; simpa using hy0
  have hy1 := mag_ne_one_of_not_int yc ye hni
  have hyo : absOne 𝔳[o] = false := by rw [hy]; exact absOne_of_mag _ _ _ hy1
  have hb : (absOne 𝔳[d] && ((!(Decimal.Signbit d)) || (Decimal.isInf o))) = false := by
    have : Decimal.isInf o = false := (fin_class o h3).2
    rw [a1, this]; simp
  obtain ⟨e1, e2⟩ := to_ladder d o rm m h4 hb hyo
  have hc : cf o ≤ Spec.Cmax := Enc.decompose_sig_le o
  have hnone : (intParity (cf o) (ex o)).isNone = true := by
    rw [b2, b5, intParity_isNone yc ye hy0 (by rw [← b2]; exact hc), hni]; rfl
  obtain ⟨e3, e4⟩ := case_negnan d o rm m a3 a4' a1 h3 h4 hyo hnone
  rw [b1] at e3 e4
  have e5 := interp_pownan yn xc xe yc ye hx0 hy0
  refine ⟨by rw [e1, e3], ?_, ?_⟩
  · rw [e2, e4, e5, hx, hy]
  · rw [e5, hx, hy]

/-- finite x < 0 and an integer y (not 0, ±1): every continuation (power-of-ten shortcut, square-root
    shortcut — unreachable here —, general path) receives the sign `(−1)^y`.  PARTIAL: that the general
    path returns a result with exactly this sign needs the range facts of `reduce192` on that path
    (`compose` is only sign-faithful for a coefficient ≤ Cmax and an exponent in range). -/
theorem top_negint_partial (d o : Decimal) (rm : UInt8) (xc : Nat) (xe : Int) (yn : Bool) (yc : Nat)
    (ye : Int) (hx : 𝔳[d] = .fin true xc xe) (hx0 : xc ≠ 0) (hy : 𝔳[o] = .fin yn yc ye) (hy0 : yc ≠ 0)
    (hy1 : Spec.mag yc ye ≠ 1) (hint : isIntQ (Spec.mag yc ye) = true) :
    ∃ oSig oExp dSig dExp, Decimal.PowWithMode d o rm =
      finish rm true yn (oddIntQ (Spec.mag yc ye)) oSig oExp dSig dExp := by
  obtain ⟨a3, a1, a2, a5, a4⟩ := fin_of_interp d true xc xe hx
  obtain ⟨h3, b1, b2, b5, b4⟩ := fin_of_interp o yn yc ye hy
  have a4' : Decimal.IsZero d = false := by rw [a4]; simpa using hx0
  have h4 : Decimal.IsZero o = false := by rw [b4]; simpa using hy0
  have hyo : absOne 𝔳[o] = false := by rw [hy]; exact absOne_of_mag _ _ _ hy1
  have hb : (absOne 𝔳[d] && ((!(Decimal.Signbit d)) || (Decimal.isInf o))) = false := by
    have : Decimal.isInf o = false := (fin_class o h3).2
    rw [a1, this]; simp
  obtain ⟨e1, -⟩ := to_ladder d o rm .nearestEven h4 hb hyo
  obtain ⟨s, j, hs⟩ := strip_fin o h4
  obtain ⟨t, k, ht⟩ := strip_fin d a4'
  have hc : cf o ≤ Spec.Cmax := Enc.decompose_sig_le o
  have hge : 6176 ≤ s.2.toInt := by
    have h1 := stripped_exp_neg_iff o s j hs
    rw [b2, b5, intParity_isNone yc ye hy0 (by rw [← b2]; exact hc), hint] at h1
    have : ¬ s.2.toInt < 6176 := by simpa using h1.symm
    omega
  have e2 := ladder_to_finish d o rm a3 a4' h3 s j hs t k ht (Or.inr hge)
  rw [a1, b1, b2, b5, intParity_odd yc ye hy0 (by rw [← b2]; exact hc), Bool.true_and] at e2
  exact ⟨s.1, s.2, t.1, t.2, by rw [e1, e2]⟩

/-! ## 4. x a power of ten, y a non-negative integer -/

theorem top_pow10 (d o : Decimal) (rm : UInt8) (xn : Bool) (a : Nat) (xe : Int) (yc : Nat) (ye : Int)
    (Y : Nat) (hx : 𝔳[d] = .fin xn (10 ^ a) xe) (hy : 𝔳[o] = .fin false yc ye)
    (hY : Spec.mag yc ye = (Y : Rat)) (hY2 : 2 ≤ Y)
    (hx1 : xn = true ∨ (a : Int) + xe ≠ 0) :
    ∃ r, Decimal.PowWithMode d o rm = .ok r ∧
      ∀ m, Spec.Mode.ofNat? rm.toNat = some m →
        (𝔳[r]).same (flushOrRoundS m (xn && decide (Y % 2 = 1)) 1 (((a : Int) + xe) * (Y : Int))) = true := by
  obtain ⟨a3, a1, a2, a5, a4⟩ := fin_of_interp d xn (10 ^ a) xe hx
  obtain ⟨h3, b1, b2, b5, b4⟩ := fin_of_interp o false yc ye hy
  have hyc0 : yc ≠ 0 := by
    intro h; rw [h, mag_zero] at hY
    have : (Y : Rat) = 0 := hY.symm
    have : Y = 0 := by exact_mod_cast this
    omega
  have h4 : Decimal.IsZero o = false := by rw [b4]; simpa using hyc0
  have hy1 : Spec.mag yc ye ≠ 1 := by
    rw [hY]; intro h
    have : Y = 1 := by exact_mod_cast h
    omega
  have hyo : absOne 𝔳[o] = false := by rw [hy]; exact absOne_of_mag _ _ _ hy1
  have hb : (absOne 𝔳[d] && ((!(Decimal.Signbit d)) || (Decimal.isInf o))) = false := by
    have hi : Decimal.isInf o = false := (fin_class o h3).2
    rw [a1, hi, Bool.or_false]
    rcases hx1 with h | h
    · rw [h]; simp
    · have : absOne 𝔳[d] = false := by
        rw [hx]; simp only [absOne, mag_one_iff, decide_eq_false_iff_not]
        rintro ⟨h1, h2⟩
        have h3 : a = (-xe).toNat := Nat.pow_right_injective (by norm_num : 2 ≤ 10) h2
        omega
      rw [this]; rfl
  obtain ⟨e1, -⟩ := to_ladder d o rm .nearestEven h4 hb hyo
  obtain ⟨r, hr, hv⟩ := case_pow10 d o rm a Y a3 a2 h3 b1 (by rw [b2, b5]; exact hY) (by omega)
  rw [a1, a5] at hv
  exact ⟨r, by rw [e1, hr], hv⟩

/-! ## 5. x an even power of ten, y = ±1/2 -/

theorem top_half (d o : Decimal) (rm : UInt8) (a : Nat) (xe : Int) (yn : Bool) (yc : Nat) (ye : Int)
    (hx : 𝔳[d] = .fin false (10 ^ a) xe) (hy : 𝔳[o] = .fin yn yc ye)
    (hY : Spec.mag yc ye = 1 / 2) (hev : ((a : Int) + xe) % 2 = 0) (hx1 : (a : Int) + xe ≠ 0) :
    ∃ r, Decimal.PowWithMode d o rm = .ok r ∧
      𝔳[r] = .fin false 1 (if yn = true then -(((a : Int) + xe) / 2) else ((a : Int) + xe) / 2) := by
  obtain ⟨a3, a1, a2, a5, a4⟩ := fin_of_interp d false (10 ^ a) xe hx
  obtain ⟨h3, b1, b2, b5, b4⟩ := fin_of_interp o yn yc ye hy
  have hyc0 : yc ≠ 0 := by
    intro h; rw [h, mag_zero] at hY; norm_num at hY
  have h4 : Decimal.IsZero o = false := by rw [b4]; simpa using hyc0
  have hy1 : Spec.mag yc ye ≠ 1 := by rw [hY]; norm_num
  have hyo : absOne 𝔳[o] = false := by rw [hy]; exact absOne_of_mag _ _ _ hy1
  have hb : (absOne 𝔳[d] && ((!(Decimal.Signbit d)) || (Decimal.isInf o))) = false := by
    have : absOne 𝔳[d] = false := by
      rw [hx]; simp only [absOne, mag_one_iff, decide_eq_false_iff_not]
      rintro ⟨h1, h2⟩
      have h3 : a = (-xe).toNat := Nat.pow_right_injective (by norm_num : 2 ≤ 10) h2
      omega
    rw [this]; rfl
  obtain ⟨e1, -⟩ := to_ladder d o rm .nearestEven h4 hb hyo
  obtain ⟨r, hr, hv⟩ := case_half d o rm a a3 a1 a2 (by rw [a5]; exact hev) h3 (by rw [b2, b5]; exact hY)
  rw [a5, b1] at hv
  exact ⟨r, by rw [e1, hr], hv⟩

/-! ## 4', 5': the same two cases in `Spec.powSpecial` -/

theorem mag_nat_of_nonneg (yc : Nat) (ye : Int) (Y : Nat) (hye : 0 ≤ ye) (hY : Spec.mag yc ye = (Y : Rat)) :
    yc * 10 ^ ye.toNat = Y := by
  have h1 : yc = yc * 10 ^ 0 := by simp
  have hm := mag_strip yc 0 ye
  rw [← h1, hY] at hm
  push_cast at hm
  rw [add_zero, strip_nat _ _ hye] at hm
  exact_mod_cast hm.symm

/-- `Spec.powSpecial` on the power-of-ten case (it covers it when y is given with a non-negative exponent)
    prescribes the same value -/
theorem top_pow10_spec (d o : Decimal) (m : Mode) (xn : Bool) (a : Nat) (xe : Int) (yc : Nat) (ye : Int)
    (Y : Nat) (hx : 𝔳[d] = .fin xn (10 ^ a) xe) (hy : 𝔳[o] = .fin false yc ye)
    (hY : Spec.mag yc ye = (Y : Rat)) (hY2 : 2 ≤ Y)
    (hx1 : xn = true ∨ (a : Int) + xe ≠ 0) (hye : 0 ≤ ye) :
    ∃ w, powSpecial m 𝔳[d] 𝔳[o] = some w ∧
      w.same (flushOrRoundS m (xn && decide (Y % 2 = 1)) 1 (((a : Int) + xe) * (Y : Int))) = true := by
  obtain ⟨h3, b1, b2, b5, b4⟩ := fin_of_interp o false yc ye hy
  have hyc0 : yc ≠ 0 := by
    intro h; rw [h, mag_zero] at hY
    have : (Y : Rat) = 0 := hY.symm
    have : Y = 0 := by exact_mod_cast this
    omega
  have hy1 : Spec.mag yc ye ≠ 1 := by
    rw [hY]; intro h
    have : Y = 1 := by exact_mod_cast h
    omega
  have hy1b : (Spec.mag yc ye == 1) = false := by simpa using hy1
  have hYn := mag_nat_of_nonneg yc ye Y hye hY
  have hc : yc ≤ Spec.Cmax := by rw [← b2]; exact Enc.decompose_sig_le o
  have hpar : (intParity yc ye == some true) = decide (Y % 2 = 1) := by
    rw [intParity_odd _ _ hyc0 hc, hY, oddIntQ_nat]
  have hnone : (intParity yc ye).isNone = false := by
    rw [intParity_isNone _ _ hyc0 hc, hY]; simp [isIntQ]
  have hz : (Val.fin false yc ye).isZero = false := by rw [Enc.isZero_fin]; simpa using hyc0
  have hlate : powSpecial m 𝔳[d] 𝔳[o] = psLate m 𝔳[d] 𝔳[o] := by
    rw [hx, hy]
    apply powSpecial_late _ _ _ hz
    have : (Val.fin false yc ye).isInf = false := rfl
    rw [this, Bool.or_false]
    rcases hx1 with h | h
    · rw [h]; simp [Val.neg]
    · have : absOne (.fin xn (10 ^ a) xe) = false := by
        simp only [absOne, mag_one_iff, decide_eq_false_iff_not]
        rintro ⟨h1, h2⟩
        have h3 : a = (-xe).toNat := Nat.pow_right_injective (by norm_num : 2 ≤ 10) h2
        omega
      rw [this]; rfl
  rw [hlate, hx, hy, psLate_fin _ _ _ _ _ hy1b]
  have := psFin_pow10_agrees m xn a xe yc ye hye hyc0 hnone
  rw [hpar, hYn] at this
  exact this

theorem top_half_spec (d o : Decimal) (m : Mode) (a : Nat) (xe : Int) (yn : Bool) (yc : Nat) (ye : Int)
    (hx : 𝔳[d] = .fin false (10 ^ a) xe) (hy : 𝔳[o] = .fin yn yc ye)
    (hY : Spec.mag yc ye = 1 / 2) (hev : ((a : Int) + xe) % 2 = 0) (hx1 : (a : Int) + xe ≠ 0) :
    ∃ w, powSpecial m 𝔳[d] 𝔳[o] = some w ∧
      w.same (.fin false 1 (if yn = true then -(((a : Int) + xe) / 2) else ((a : Int) + xe) / 2)) = true := by
  obtain ⟨a3, a1, a2, a5, a4⟩ := fin_of_interp d false (10 ^ a) xe hx
  obtain ⟨h3, b1, b2, b5, b4⟩ := fin_of_interp o yn yc ye hy
  have hyc0 : yc ≠ 0 := by
    intro h; rw [h, mag_zero] at hY; norm_num at hY
  have hy1 : Spec.mag yc ye ≠ 1 := by rw [hY]; norm_num
  have hy1b : (Spec.mag yc ye == 1) = false := by simpa using hy1
  have hc : yc ≤ Spec.Cmax := by rw [← b2]; exact Enc.decompose_sig_le o
  have hz : (Val.fin yn yc ye).isZero = false := by rw [Enc.isZero_fin]; simpa using hyc0
  have hlate : powSpecial m 𝔳[d] 𝔳[o] = psLate m 𝔳[d] 𝔳[o] := by
    rw [hx, hy]
    apply powSpecial_late _ _ _ hz
    have : absOne (.fin false (10 ^ a) xe) = false := by
      simp only [absOne, mag_one_iff, decide_eq_false_iff_not]
      rintro ⟨h1, h2⟩
      have h3 : a = (-xe).toNat := Nat.pow_right_injective (by norm_num : 2 ≤ 10) h2
      omega
    rw [this]; rfl
  -- the range of K = a + xe for a Decimal
  have hk : -6176 ≤ (a : Int) + xe ∧ (a : Int) + xe ≤ 6145 := by
    have h0 := Enc.decompose_exp_nonneg d
    have h1 := Enc.decompose_exp_le d a3
    have hC : cf d ≤ Spec.Cmax := Enc.decompose_sig_le d
    rw [a2] at hC
    have ha : a ≤ 34 := by
      by_contra hcon
      have h35 : 10 ^ 35 ≤ 10 ^ a := Nat.pow_le_pow_right (by norm_num) (by omega)
      have := SpecRound.Cmax_upper
      omega
    have : ex d = xe := a5
    simp only [ex] at this
    omega
  rw [hlate, hx, hy, psLate_fin _ _ _ _ _ hy1b]
  exact psFin_pow10_half m a xe yn yc ye hY hc hev hk.1 hk.2

end PowPf
