/-
  D128/Proofs/SpecMeaningQuoRem.lean — what `Spec.quoRem` MEANS on finite operands, stated on the
  rationals `X = x.toRat`, `Y = y.toRat` with `trunc r` = the integer part of `r` toward zero.
  Reuses `QR.qv`, `QR.spec_quoRem_fin` (QuoRemSpec.lean), `QR.spec_rem_exact`, `QR.truncQuo`
  (QuoRemSpecCor.lean).  Pure mathematics; no generated code.

  Provided (namespace `SpecMeaning`):
  * `trunc`, `trunc_of_nonneg`, `trunc_neg`, `natAbs_trunc`, `trunc_abs_le`, `trunc_sign`
                          : `trunc r = ⌊r⌋` for `r ≥ 0`, `⌈r⌉` for `r < 0`
  * `truncQuo_eq_trunc`   : `QR.truncQuo x y = trunc (X / Y)`
  * `quoRem_fin_fin`      : finite x, finite non-zero y (ALL coefficients and exponents):
        `quoRem m x y = (qv m (x.neg xor y.neg) |trunc (X/Y)|, exactOrInf x.neg |X − Y·trunc (X/Y)|)`
  * `rem_abs_lt`, `rem_sign`, `rem_eq_signed` : `|X − Y·trunc(X/Y)| < |Y|`, and the exact remainder has
        the sign of `X` (or is zero)
  * the quotient clause `qv m neg t` (t = |trunc (X/Y)| a natural number):
      `qv_zero`          : t = 0 → the zero of sign `neg` (xor of the operand signs)
      `member_nat_iff`   : the integer t is a member of the format ↔ t = c·10^j with c ≤ Cmax, j ≤ 6111
      `qv_member`        : t ≥ 1 a member → a finite value of sign `neg` denoting exactly t (EVERY mode)
      `qv_not_member`    : t not a member (more digits than fit) → `roundTo m neg t`
  * `quoRem_quo_exact`   : `|trunc (X/Y)| ≤ Cmax` → the quotient is finite and denotes `trunc (X/Y)` exactly
  * `quoRem_rem_member`  : x, y members of the format → the remainder is finite, has the sign bit of x,
        denotes `X − Y·trunc (X/Y)` exactly and is smaller than `|Y|`
  * `quoRem_zero_left`, `quoRem_small` : x = 0 → (zero, zero with x's sign); |X| < |Y| → (zero, x)
  * special operands: `quoRem_fin_inf`, `quoRem_fin_zero`, `quoRem_zero_zero`, `quoRem_inf_fin`,
    `quoRem_inf_inf`, `quoRem_nan_left`, `quoRem_nan_right`
-/
import D128.Proofs.QuoRemSpecCor
import D128.Proofs.SpecMeaningArith

set_option autoImplicit false

namespace SpecMeaning
open Spec SpecRound

/-! ## truncation toward zero -/

/-- the integer part of a rational, truncated toward zero -/
def trunc (r : ℚ) : ℤ := if 0 ≤ r then ⌊r⌋ else ⌈r⌉

theorem trunc_of_nonneg {r : ℚ} (h : 0 ≤ r) : trunc r = (⌊r⌋₊ : ℤ) := by
  rw [trunc, if_pos h, Int.natCast_floor_eq_floor h]

theorem trunc_zero : trunc 0 = 0 := by simp [trunc]

theorem trunc_neg (r : ℚ) : trunc (-r) = -trunc r := by
  rcases lt_trichotomy r 0 with h | h | h
  · have h1 : 0 ≤ -r := by linarith
    rw [trunc, if_pos h1, trunc, if_neg (not_le.2 h), Int.floor_neg]
  · subst h; simp [trunc_zero]
  · have h1 : ¬ 0 ≤ -r := by linarith
    rw [trunc, if_neg h1, trunc, if_pos h.le, Int.ceil_neg]

theorem natAbs_trunc (r : ℚ) : (trunc r).natAbs = ⌊|r|⌋₊ := by
  rcases le_or_gt 0 r with h | h
  · rw [trunc_of_nonneg h, Int.natAbs_natCast, abs_of_nonneg h]
  · have h1 : 0 ≤ -r := by linarith
    have : trunc r = -trunc (-r) := by rw [trunc_neg, neg_neg]
    rw [this, Int.natAbs_neg, trunc_of_nonneg h1, Int.natAbs_natCast, abs_of_neg h]

/-- `trunc r` lies between 0 and r -/
theorem trunc_abs_le (r : ℚ) : |(trunc r : ℚ)| ≤ |r| := by
  rw [← Int.cast_abs, ← Nat.cast_natAbs, natAbs_trunc]
  exact Nat.floor_le (abs_nonneg r)

theorem trunc_sign (r : ℚ) : (0 ≤ r → 0 ≤ trunc r) ∧ (r ≤ 0 → trunc r ≤ 0) := by
  constructor
  · intro h; rw [trunc_of_nonneg h]; exact Int.natCast_nonneg _
  · intro h
    have h1 : 0 ≤ -r := by linarith
    have : trunc r = -trunc (-r) := by rw [trunc_neg, neg_neg]
    rw [this, trunc_of_nonneg h1]
    have := Int.natCast_nonneg (⌊-r⌋₊)
    omega

/-- `|r − trunc r| < 1` -/
theorem sub_trunc_lt_one (r : ℚ) : |r - (trunc r : ℚ)| < 1 := by
  rcases le_or_gt 0 r with h | h
  · rw [trunc, if_pos h, abs_lt]
    have h1 := Int.floor_le r
    have h2 := Int.lt_floor_add_one r
    constructor <;> linarith
  · rw [trunc, if_neg (not_le.2 h), abs_lt]
    have h1 := Int.le_ceil r
    have h2 := Int.ceil_lt_add_one r
    constructor <;> linarith

example : trunc (7 / 2) = 3 := by
  rw [trunc_of_nonneg (by norm_num)]; norm_num [Nat.floor_eq_iff]
example : trunc (-7 / 2) = -3 := by
  have : (-7 / 2 : ℚ) = -(7 / 2) := by norm_num
  rw [this, trunc_neg, trunc_of_nonneg (by norm_num)]; norm_num [Nat.floor_eq_iff]

/-! ## the two components of `Spec.quoRem` on finite operands -/

theorem abs_of_fin (n : Bool) (c : Nat) (e : Int) :
    (Val.fin n c e).abs = |(Val.fin n c e).toRat| := by
  rw [abs_toRat_fin]; simp [Val.abs, Spec.mag, pow10_eq_zpow]

/-- `QR.truncQuo` (QuoRemSpecCor.lean) is the truncated exact quotient -/
theorem truncQuo_eq_trunc (n n' : Bool) (c c' : Nat) (e e' : Int) (hc' : c' ≠ 0) :
    QR.truncQuo (.fin n c e) (.fin n' c' e') =
      ((trunc ((Val.fin n c e).toRat / (Val.fin n' c' e').toRat) : ℤ) : ℚ) := by
  unfold QR.truncQuo
  simp only [Val.neg, Spec.truncNat, floorNat_eq, abs_of_fin]
  have hy := mag_pos hc' e'
  have hx := mag_nonneg c e
  have hq : (0 : ℚ) ≤ (c : ℚ) * (10 : ℚ) ^ e / ((c' : ℚ) * (10 : ℚ) ^ e') := div_nonneg hx hy.le
  rw [abs_toRat_fin, abs_toRat_fin, toRat_fin', toRat_fin']
  cases n <;> cases n' <;>
    simp only [Bool.false_eq_true, if_false, if_true, bne_self_eq_false, Bool.bne_true, Bool.not_false,
      Bool.bne_false, neg_div, div_neg, trunc_neg, Int.cast_neg, neg_neg,
      trunc_of_nonneg hq, Int.cast_natCast]

theorem abs_eq_of (A B : ℚ) (h : 0 ≤ B) (hAB : A = B ∨ A = -B) : |A| = B := by
  rcases hAB with rfl | rfl
  · exact abs_of_nonneg h
  · rw [abs_neg]; exact abs_of_nonneg h

/-- the truncated quotient is its magnitude with the xor of the operand signs -/
theorem trunc_quot_signed (n n' : Bool) (c c' : Nat) (e e' : Int) (hc' : c' ≠ 0) :
    ((trunc ((Val.fin n c e).toRat / (Val.fin n' c' e').toRat) : ℤ) : ℚ) =
      if (n != n') = true
      then -(((trunc ((Val.fin n c e).toRat / (Val.fin n' c' e').toRat)).natAbs : Nat) : ℚ)
      else (((trunc ((Val.fin n c e).toRat / (Val.fin n' c' e').toRat)).natAbs : Nat) : ℚ) := by
  have hy := mag_pos hc' e'
  have hx := mag_nonneg c e
  have hq : (0 : ℚ) ≤ (c : ℚ) * (10 : ℚ) ^ e / ((c' : ℚ) * (10 : ℚ) ^ e') := div_nonneg hx hy.le
  obtain ⟨h1, h2⟩ := trunc_sign ((Val.fin n c e).toRat / (Val.fin n' c' e').toRat)
  have hpos : (n != n') = false → 0 ≤ (Val.fin n c e).toRat / (Val.fin n' c' e').toRat := by
    intro h
    rw [toRat_fin', toRat_fin']
    cases n <;> cases n' <;> simp at h <;> simp [hq]
  have hneg : (n != n') = true → (Val.fin n c e).toRat / (Val.fin n' c' e').toRat ≤ 0 := by
    intro h
    rw [toRat_fin', toRat_fin']
    cases n <;> cases n' <;> simp at h <;> simp only [Bool.false_eq_true, if_false, if_true, neg_div, div_neg] <;>
      linarith
  generalize trunc ((Val.fin n c e).toRat / (Val.fin n' c' e').toRat) = T at *
  generalize (Val.fin n c e).toRat / (Val.fin n' c' e').toRat = r at *
  cases hb : (n != n')
  · have := h1 (hpos hb)
    simp only [Bool.false_eq_true, if_false]
    have h3 : ((T.natAbs : Nat) : Int) = T := Int.natAbs_of_nonneg this
    rw [← Int.cast_natCast, h3]
  · have := h2 (hneg hb)
    simp only [if_true]
    have h3 : ((T.natAbs : Nat) : Int) = -T := Int.ofNat_natAbs_of_nonpos this
    rw [← Int.cast_natCast, h3, Int.cast_neg, neg_neg]

/-- `Spec.quoRem` on a finite dividend and a finite non-zero divisor, in rationals -/
theorem quoRem_fin_fin (m : Mode) (n n' : Bool) (c c' : Nat) (e e' : Int) (hc' : c' ≠ 0) :
    Spec.quoRem m (.fin n c e) (.fin n' c' e') =
      (QR.qv m (n != n') (trunc ((Val.fin n c e).toRat / (Val.fin n' c' e').toRat)).natAbs,
       Spec.exactOrInf n
        |(Val.fin n c e).toRat -
          (Val.fin n' c' e').toRat * (trunc ((Val.fin n c e).toRat / (Val.fin n' c' e').toRat) : ℚ)|) := by
  have hrem : ∀ t : ℚ, t = ((trunc ((Val.fin n c e).toRat / (Val.fin n' c' e').toRat) : ℤ) : ℚ) →
      |(Val.fin n c e).toRat - (Val.fin n' c' e').toRat * t| =
        |(Val.fin n c e).toRat| - |(Val.fin n' c' e').toRat| *
          ((trunc ((Val.fin n c e).toRat / (Val.fin n' c' e').toRat)).natAbs : ℚ) := by
    intro t ht
    rw [ht, natAbs_trunc, abs_div, abs_toRat_fin, abs_toRat_fin]
    have hy := mag_pos hc' e'
    have hx := mag_nonneg c e
    have hq : (0 : ℚ) ≤ (c : ℚ) * (10 : ℚ) ^ e / ((c' : ℚ) * (10 : ℚ) ^ e') := div_nonneg hx hy.le
    have hfl := Nat.floor_le hq
    have hle : (c' : ℚ) * (10 : ℚ) ^ e' * (⌊(c : ℚ) * (10 : ℚ) ^ e / ((c' : ℚ) * (10 : ℚ) ^ e')⌋₊ : ℚ)
        ≤ (c : ℚ) * (10 : ℚ) ^ e := by
      rw [le_div_iff₀ hy] at hfl; linarith
    rw [toRat_fin', toRat_fin']
    cases n <;> cases n' <;>
      simp only [Bool.false_eq_true, if_false, if_true, neg_div, div_neg, trunc_neg,
        Int.cast_neg, trunc_of_nonneg hq, Int.cast_natCast, neg_neg]
    · exact abs_eq_of _ _ (by linarith) (Or.inl (by ring))
    · exact abs_eq_of _ _ (by linarith) (Or.inl (by ring))
    · exact abs_eq_of _ _ (by linarith) (Or.inr (by ring))
    · exact abs_eq_of _ _ (by linarith) (Or.inr (by ring))
  rw [hrem _ rfl, natAbs_trunc, abs_div, abs_toRat_fin, abs_toRat_fin]
  by_cases hc : c = 0
  · subst hc
    have h2 : (c' == 0) = false := by simpa using hc'
    simp [Spec.quoRem, h2, QR.qv, Spec.exactOrInf, Spec.exactOrInfS]
  · rw [QR.spec_quoRem_fin m n n' c c' e e' hc hc']
    generalize hk : (if e ≤ e' then e else e') = k
    have hke : k ≤ e := by rw [← hk]; split <;> omega
    have hke' : k ≤ e' := by rw [← hk]; split <;> omega
    generalize ha : c * 10 ^ (e - k).toNat = a
    generalize hb : c' * 10 ^ (e' - k).toNat = b
    have hA : (a : ℚ) * (10 : ℚ) ^ k = (c : ℚ) * (10 : ℚ) ^ e := by
      rw [← ha]; exact QR.scaled_eq c e k hke
    have hB : (b : ℚ) * (10 : ℚ) ^ k = (c' : ℚ) * (10 : ℚ) ^ e' := by
      rw [← hb]; exact QR.scaled_eq c' e' k hke'
    have hpk : (0 : ℚ) < (10 : ℚ) ^ k := zpow_pos (by norm_num) _
    have hfl : ⌊(c : ℚ) * (10 : ℚ) ^ e / ((c' : ℚ) * (10 : ℚ) ^ e')⌋₊ = a / b := by
      rw [← hA, ← hB, mul_div_mul_right _ _ hpk.ne', Nat.floor_div_eq_div]
    have hdm : ((a % b : Nat) : ℚ) = (a : ℚ) - (b : ℚ) * ((a / b : Nat) : ℚ) := by
      have := Nat.div_add_mod a b
      have h2 : ((b * (a / b) + a % b : Nat) : ℚ) = (a : ℚ) := by rw [this]
      push_cast at h2; linarith
    rw [hfl, exactOrInfS_scale n _ (Nat.cast_nonneg _) k, hdm, ← hA, ← hB]
    congr 2
    ring

/-- the exact remainder is smaller than the divisor in magnitude -/
theorem rem_abs_lt (X Y : ℚ) (hY : Y ≠ 0) : |X - Y * (trunc (X / Y) : ℚ)| < |Y| := by
  have h := sub_trunc_lt_one (X / Y)
  have hYp : 0 < |Y| := abs_pos.2 hY
  have : X - Y * (trunc (X / Y) : ℚ) = Y * (X / Y - (trunc (X / Y) : ℚ)) := by
    field_simp
  rw [this, abs_mul]
  calc |Y| * |X / Y - (trunc (X / Y) : ℚ)| < |Y| * 1 := mul_lt_mul_of_pos_left h hYp
    _ = |Y| := mul_one _

/-- the exact remainder has the sign of the dividend (or is zero) -/
theorem rem_sign (X Y : ℚ) (hY : Y ≠ 0) :
    (0 ≤ X → 0 ≤ X - Y * (trunc (X / Y) : ℚ)) ∧ (X ≤ 0 → X - Y * (trunc (X / Y) : ℚ) ≤ 0) := by
  have key : ∀ X Y : ℚ, Y ≠ 0 → 0 ≤ X → 0 ≤ X - Y * (trunc (X / Y) : ℚ) := by
    intro X Y hY hX
    rcases lt_or_gt_of_ne hY with hYn | hYp
    · -- Y < 0: X / Y ≤ 0, trunc = ⌈X/Y⌉ ≥ X/Y, Y·⌈⌉ ≤ X
      have hq : X / Y ≤ 0 := div_nonpos_of_nonneg_of_nonpos hX hYn.le
      have h1 : X / Y ≤ (trunc (X / Y) : ℚ) := by
        rcases eq_or_lt_of_le hq with h0 | hlt
        · rw [h0, trunc_zero]; simp
        · rw [trunc, if_neg (not_le.2 hlt)]; exact Int.le_ceil _
      have h2 : Y * (trunc (X / Y) : ℚ) ≤ Y * (X / Y) := mul_le_mul_of_nonpos_left h1 hYn.le
      have h3 : Y * (X / Y) = X := by field_simp
      linarith
    · have hq : 0 ≤ X / Y := div_nonneg hX hYp.le
      have h1 : (trunc (X / Y) : ℚ) ≤ X / Y := by
        rw [trunc, if_pos hq]; exact Int.floor_le _
      have h2 : Y * (trunc (X / Y) : ℚ) ≤ Y * (X / Y) := mul_le_mul_of_nonneg_left h1 hYp.le
      have h3 : Y * (X / Y) = X := by field_simp
      linarith
  refine ⟨key X Y hY, fun hX => ?_⟩
  have := key (-X) Y hY (by linarith)
  rw [neg_div, trunc_neg] at this
  push_cast at this
  linarith

/-- the exact remainder is its magnitude with the sign of the dividend -/
theorem rem_eq_signed (n n' : Bool) (c c' : Nat) (e e' : Int) (hc' : c' ≠ 0) :
    (Val.fin n c e).toRat -
        (Val.fin n' c' e').toRat * (trunc ((Val.fin n c e).toRat / (Val.fin n' c' e').toRat) : ℚ) =
      if n then
        -|(Val.fin n c e).toRat -
          (Val.fin n' c' e').toRat * (trunc ((Val.fin n c e).toRat / (Val.fin n' c' e').toRat) : ℚ)|
      else
        |(Val.fin n c e).toRat -
          (Val.fin n' c' e').toRat * (trunc ((Val.fin n c e).toRat / (Val.fin n' c' e').toRat) : ℚ)| := by
  have hY : (Val.fin n' c' e').toRat ≠ 0 := fun h => hc' ((toRat_eq_zero_iff n' c' e').1 h)
  obtain ⟨h1, h2⟩ := rem_sign (Val.fin n c e).toRat (Val.fin n' c' e').toRat hY
  have hx := mag_nonneg c e
  cases n
  · have hX : 0 ≤ (Val.fin false c e).toRat := by rw [toRat_fin']; simpa using hx
    simp only [Bool.false_eq_true, if_false]
    rw [abs_of_nonneg (h1 hX)]
  · have hX : (Val.fin true c e).toRat ≤ 0 := by rw [toRat_fin']; simp only [if_true]; linarith
    simp only [if_true]
    rw [abs_of_nonpos (h2 hX), neg_neg]

/-! ## the quotient clause -/

theorem qv_zero (m : Mode) (neg : Bool) : QR.qv m neg 0 = .fin neg 0 0 := by simp [QR.qv]

/-- an integer is a member of the format exactly when it is `c·10^j` with `c ≤ Cmax`, `j ≤ Emax`
    ("it has no more significant digits than fit") -/
theorem member_nat_iff (t : Nat) :
    Member (t : ℚ) ↔ ∃ c j : Nat, c ≤ Spec.Cmax ∧ (j : Int) ≤ Spec.Emax ∧ t = c * 10 ^ j := by
  constructor
  · rintro ⟨c, e, hc, he1, he2, h⟩
    rcases le_or_gt 0 e with he | he
    · obtain ⟨j, rfl⟩ := Int.eq_ofNat_of_zero_le he
      refine ⟨c, j, hc, he2, ?_⟩
      rw [zpow_natCast] at h
      exact_mod_cast h
    · refine ⟨t, 0, ?_, by unfold Spec.Emax; norm_num, by simp⟩
      obtain ⟨j, hj⟩ : ∃ j : Nat, e = -(j : Int) := ⟨(-e).toNat, by omega⟩
      rw [hj, zpow_neg, zpow_natCast] at h
      have hp : (0 : ℚ) < (10 : ℚ) ^ j := by positivity
      have h1 : (t : ℚ) * (10 : ℚ) ^ j = (c : ℚ) := by rw [h]; field_simp
      have h2 : t * 10 ^ j = c := by exact_mod_cast h1
      have h3 : t ≤ t * 10 ^ j := Nat.le_mul_of_pos_right _ (by positivity)
      omega
  · rintro ⟨c, j, hc, hj, rfl⟩
    refine ⟨c, (j : Int), hc, ?_, hj, by push_cast; rw [zpow_natCast]⟩
    unfold Spec.Emin; omega

theorem member_of_le_Cmax {t : Nat} (h : t ≤ Spec.Cmax) : Member (t : ℚ) :=
  (member_nat_iff t).2 ⟨t, 0, h, by unfold Spec.Emax; norm_num, by simp⟩

/-- an integer quotient that is a member of the format is returned exactly, in every mode -/
theorem qv_member (m : Mode) (neg : Bool) {t : Nat} (ht : 0 < t) (hm : Member (t : ℚ)) :
    ∃ c e, QR.qv m neg t = .fin neg c e ∧ (c : ℚ) * (10 : ℚ) ^ e = (t : ℚ) ∧
      c ≤ Spec.Cmax ∧ Spec.Emin ≤ e ∧ e ≤ Spec.Emax := by
  have htq : (0 : ℚ) < (t : ℚ) := by exact_mod_cast ht
  have ht0 : (t == 0) = false := by simpa using (Nat.pos_iff_ne_zero.1 ht)
  simp only [QR.qv, ht0, Bool.false_eq_true, if_false, if_pos ((isMember_iff htq.le).2 hm)]
  exact exactOrInf_of_member neg htq hm

/-- an integer quotient that is not a member ("has more digits than fit") is rounded by the mode;
    what `roundTo` selects (incl. ±Inf on overflow) is characterised in SpecRoundMain.lean -/
theorem qv_not_member (m : Mode) (neg : Bool) {t : Nat} (hm : ¬ Member (t : ℚ)) :
    QR.qv m neg t = Spec.roundTo m neg (t : ℚ) := by
  have ht : t ≠ 0 := by
    rintro rfl
    exact hm (member_of_le_Cmax (Nat.zero_le _))
  have ht0 : (t == 0) = false := by simpa using ht
  have hnm : ¬ Spec.isMember (t : ℚ) = true := fun h => hm ((isMember_iff (Nat.cast_nonneg _)).1 h)
  simp only [QR.qv, ht0, Bool.false_eq_true, if_false, if_neg hnm]

/-- the quotient as a signed rational, when it is a member -/
theorem quoRem_quo_member (m : Mode) (n n' : Bool) (c c' : Nat) (e e' : Int) (hc' : c' ≠ 0)
    (hm : Member (((trunc ((Val.fin n c e).toRat / (Val.fin n' c' e').toRat)).natAbs : Nat) : ℚ)) :
    ∃ cq eq, (Spec.quoRem m (.fin n c e) (.fin n' c' e')).1 = .fin (n != n') cq eq ∧
      (Val.fin (n != n') cq eq).toRat =
        ((trunc ((Val.fin n c e).toRat / (Val.fin n' c' e').toRat) : ℤ) : ℚ) ∧
      cq ≤ Spec.Cmax ∧ (cq ≠ 0 → Spec.Emin ≤ eq ∧ eq ≤ Spec.Emax) := by
  rw [quoRem_fin_fin m n n' c c' e e' hc']
  simp only
  have hTval := trunc_quot_signed n n' c c' e e' hc'
  generalize trunc ((Val.fin n c e).toRat / (Val.fin n' c' e').toRat) = T at *
  rcases Nat.eq_zero_or_pos T.natAbs with h0 | hpos
  · rw [h0, qv_zero]
    refine ⟨0, 0, rfl, ?_, Nat.zero_le _, fun h => absurd rfl h⟩
    rw [hTval, h0]; simp [Val.toRat, Spec.mag]
  · obtain ⟨cq, eq, h1, h2, h3, h4, h5⟩ := qv_member m (n != n') hpos hm
    refine ⟨cq, eq, h1, ?_, h3, fun _ => ⟨h4, h5⟩⟩
    rw [toRat_fin', h2, hTval]

/-- a truncated quotient of at most `Cmax` (in particular: at most 34 digits) is returned exactly -/
theorem quoRem_quo_exact (m : Mode) (n n' : Bool) (c c' : Nat) (e e' : Int) (hc' : c' ≠ 0)
    (ht : (trunc ((Val.fin n c e).toRat / (Val.fin n' c' e').toRat)).natAbs ≤ Spec.Cmax) :
    ∃ cq eq, (Spec.quoRem m (.fin n c e) (.fin n' c' e')).1 = .fin (n != n') cq eq ∧
      (Val.fin (n != n') cq eq).toRat =
        ((trunc ((Val.fin n c e).toRat / (Val.fin n' c' e').toRat) : ℤ) : ℚ) := by
  obtain ⟨cq, eq, h1, h2, -⟩ := quoRem_quo_member m n n' c c' e e' hc' (member_of_le_Cmax ht)
  exact ⟨cq, eq, h1, h2⟩

/-- a truncated quotient that is not a member is rounded by the mode (±Inf on overflow) -/
theorem quoRem_quo_rounded (m : Mode) (n n' : Bool) (c c' : Nat) (e e' : Int) (hc' : c' ≠ 0)
    (hm : ¬ Member (((trunc ((Val.fin n c e).toRat / (Val.fin n' c' e').toRat)).natAbs : Nat) : ℚ)) :
    (Spec.quoRem m (.fin n c e) (.fin n' c' e')).1 =
      Spec.roundTo m (n != n')
        |((trunc ((Val.fin n c e).toRat / (Val.fin n' c' e').toRat) : ℤ) : ℚ)| := by
  rw [quoRem_fin_fin m n n' c c' e e' hc']
  simp only
  rw [qv_not_member m _ hm, ← Int.cast_abs, ← Nat.cast_natAbs]

/-! ## the remainder -/

/-- operands that are members of the format: the remainder is finite with the sign bit of x, denotes
    `X − Y·trunc (X/Y)` exactly, and is smaller than `|Y|` (from `QR.spec_rem_exact`) -/
theorem quoRem_rem_member (m : Mode) (n n' : Bool) (c c' : Nat) (e e' : Int) (hc' : c' ≠ 0)
    (hc : c ≤ Spec.Cmax) (hcm' : c' ≤ Spec.Cmax) (he1 : Spec.Emin ≤ e) (he2 : e ≤ Spec.Emax)
    (he1' : Spec.Emin ≤ e') :
    ∃ cr er, (Spec.quoRem m (.fin n c e) (.fin n' c' e')).2 = .fin n cr er ∧
      (Val.fin n cr er).toRat =
        (Val.fin n c e).toRat -
          (Val.fin n' c' e').toRat * (trunc ((Val.fin n c e).toRat / (Val.fin n' c' e').toRat) : ℚ) ∧
      |(Val.fin n cr er).toRat| < |(Val.fin n' c' e').toRat| := by
  obtain ⟨cr, er, h1, h2, h3⟩ := QR.spec_rem_exact m n n' c c' e e' hc' hc hcm' he1 he2 he1'
  refine ⟨cr, er, h1, ?_, ?_⟩
  · rw [h2, truncQuo_eq_trunc n n' c c' e e' hc']
  · rw [← abs_of_fin, ← abs_of_fin]; exact h3

/-- `x = 0`: zero quotient (sign = xor) and a zero remainder with the sign of x -/
theorem quoRem_zero_left (m : Mode) (n n' : Bool) (c' : Nat) (e e' : Int) (hc' : c' ≠ 0) :
    Spec.quoRem m (.fin n 0 e) (.fin n' c' e') = (.fin (n != n') 0 0, .fin n 0 0) := by
  have h2 : (c' == 0) = false := by simpa using hc'
  simp [Spec.quoRem, h2]

/-- `|x| < |y|` (x a member of the format): zero quotient and the remainder is x (from `QR.spec_small`) -/
theorem quoRem_small (m : Mode) (n n' : Bool) (c c' : Nat) (e e' : Int) (hc0 : c ≠ 0)
    (hc : c ≤ Spec.Cmax) (he1 : Spec.Emin ≤ e) (he2 : e ≤ Spec.Emax)
    (hlt : |(Val.fin n c e).toRat| < |(Val.fin n' c' e').toRat|) :
    (Spec.quoRem m (.fin n c e) (.fin n' c' e')).1 = .fin (n != n') 0 0 ∧
    (Val.fin n c e).same (Spec.quoRem m (.fin n c e) (.fin n' c' e')).2 = true := by
  apply QR.spec_small m n n' c c' e e' hc0 hc he1 he2
  rw [abs_of_fin, abs_of_fin]; exact hlt

/-! ## special operands -/

theorem quoRem_fin_inf (m : Mode) (n n' : Bool) (c : Nat) (e : Int) :
    Spec.quoRem m (.fin n c e) (.inf n') = (.fin (n != n') 0 0, .fin n c e) := rfl

theorem quoRem_fin_zero (m : Mode) (n n' : Bool) (c : Nat) (e e' : Int) (hc : c ≠ 0) :
    (Spec.quoRem m (.fin n c e) (.fin n' 0 e')).1 = .inf (n != n') ∧
    (Spec.quoRem m (.fin n c e) (.fin n' 0 e')).2.isNaN = true := by
  have h1 : (c == 0) = false := by simpa using hc
  simp [Spec.quoRem, h1, Spec.invalid2, Spec.invalid, Val.isNaN]

theorem quoRem_zero_zero (m : Mode) (n n' : Bool) (e e' : Int) :
    (Spec.quoRem m (.fin n 0 e) (.fin n' 0 e')).1.isNaN = true ∧
    (Spec.quoRem m (.fin n 0 e) (.fin n' 0 e')).2.isNaN = true := by
  simp [Spec.quoRem, Spec.invalid2, Spec.invalid, Val.isNaN]

theorem quoRem_inf_fin (m : Mode) (n n' : Bool) (c : Nat) (e : Int) :
    (Spec.quoRem m (.inf n) (.fin n' c e)).1 = .inf (n != n') ∧
    (Spec.quoRem m (.inf n) (.fin n' c e)).2.isNaN = true := by
  simp [Spec.quoRem, Spec.invalid2, Spec.invalid, Val.isNaN]

theorem quoRem_inf_inf (m : Mode) (n n' : Bool) :
    (Spec.quoRem m (.inf n) (.inf n')).1.isNaN = true ∧
    (Spec.quoRem m (.inf n) (.inf n')).2.isNaN = true := by
  simp [Spec.quoRem, Spec.invalid2, Spec.invalid, Val.isNaN]

theorem quoRem_nan_left (m : Mode) (n : Bool) (p : UInt64) (y : Val) :
    Spec.quoRem m (.nan n p) y = (.nan n p, .nan n p) := by cases y <;> rfl

theorem quoRem_nan_right (m : Mode) (x : Val) (hx : x.isNaN = false) (n : Bool) (p : UInt64) :
    Spec.quoRem m x (.nan n p) = (.nan n p, .nan n p) := by
  cases x with
  | nan a b => simp [Val.isNaN] at hx
  | inf a => rfl
  | fin a c e => rfl

/- −7 quoRem 2 = (−3, −1); 7.5 quoRem 2 = (3, 1.5); 10^40 quoRem 3 = (3333…3·10^6 rounded toward zero, 1).
   Exact results come back as the cohort member with the least exponent. -/
example : Spec.quoRem .nearestEven (.fin true 7 0) (.fin false 2 0) =
    (.fin true 3000000000000000000000000000000000 (-33),
     .fin true 10000000000000000000000000000000000 (-34)) := by decide +kernel
example : Spec.quoRem .nearestEven (.fin false 75 (-1)) (.fin false 2 0) =
    (.fin false 3000000000000000000000000000000000 (-33),
     .fin false 1500000000000000000000000000000000 (-33)) := by decide +kernel
example : Spec.quoRem .toZero (.fin false 1 40) (.fin false 3 0) =
    (.fin false 3333333333333333333333333333333333 6,
     .fin false 10000000000000000000000000000000000 (-34)) := by decide +kernel

end SpecMeaning
