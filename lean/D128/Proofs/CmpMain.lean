/-
  Correctness of the generated `Cmp`, `CmpAbs`, `Equal` against the specification (property C04).

  * `den d`             — the value denoted by a bit pattern (`Spec.interp d.lo d.hi`)
  * `classify`          — every bit pattern is a NaN, an infinity or a finite value; the generated
                          predicates (`isSpecial`, `IsNaN`, `isInf`, `IsZero`, `Signbit`) and
                          `decompose` agree with `Spec.interp`
  * `Cmp_correct`       — `Gen.Decimal.Cmp d o    = .ok (Int8.ofInt (Spec.cmp    (den d) (den o)))`
  * `CmpAbs_correct`    — `Gen.Decimal.CmpAbs d o = .ok (Int8.ofInt (Spec.cmpAbs (den d) (den o)))`
  * `spec_equal_same_sign` — `Spec.equal` on finite values of equal sign
  * `Equal_correct`     — `Gen.Decimal.Equal d o  = .ok (Spec.equal (den d) (den o))`
-/
import D128.Proofs.CmpSpec
import D128.Proofs.CmpBits
import D128.Proofs.CmpEq
set_option autoImplicit false
set_option linter.unusedSimpArgs false

namespace CmpPf
open Gen

/-- the value denoted by a bit pattern -/
abbrev den (d : Decimal) : Spec.Val := Spec.interp d.lo d.hi

theorem classify (d : Decimal) :
    (Decimal.isSpecial d = true ∧ Decimal.IsNaN d = true ∧
      den d = .nan (Decimal.Signbit d) d.lo) ∨
    (Decimal.isSpecial d = true ∧ Decimal.IsNaN d = false ∧ Decimal.isInf d = true ∧
      den d = .inf (Decimal.Signbit d)) ∨
    (Decimal.isSpecial d = false ∧ Decimal.IsNaN d = false ∧ Decimal.isInf d = false ∧
      ∃ (sig : U128) (exp : Int16) (e : Nat), Decimal.decompose d = (sig, exp) ∧ exp.toInt = (e : Int) ∧ e < 12288 ∧
        sig.toNat < 2 ^ 114 ∧
        Decimal.IsZero d = decide (sig.toNat = 0) ∧
        den d = .fin (Decimal.Signbit d) sig.toNat ((e : Int) - 6176)) := by
  by_cases hs : Decimal.isSpecial d = true
  · rcases interp_special d hs with ⟨h1, h2⟩ | ⟨h1, h2, h3⟩
    · exact Or.inl ⟨hs, h1, h2⟩
    · exact Or.inr (Or.inl ⟨hs, h1, h2, h3⟩)
  · have hs' : Decimal.isSpecial d = false := by simpa using hs
    obtain ⟨h1, h2, h3, h4⟩ := interp_nonspecial d hs'
    have hnan : Decimal.IsNaN d = false := by
      by_contra h
      exact hs (IsNaN_special d (by simpa using h))
    have hinf : Decimal.isInf d = false := by
      by_contra h
      exact hs (isInf_special d (by simpa using h))
    refine Or.inr (Or.inr ⟨hs', hnan, hinf, (Decimal.decompose d).1, (Decimal.decompose d).2,
      (Decimal.decompose d).2.toInt.toNat, rfl, by omega, by omega, by omega, ?_, ?_⟩)
    · rw [IsZero_eq]
      obtain ⟨e1, _⟩ := decompose_eq d
      rw [e1]
      have := d.lo.toNat_lt
      by_cases h : d.hi.toNat / 2 ^ 61 % 4 = 3
      · simp only [h, if_true]
        symm; simp only [decide_eq_false_iff_not]; omega
      · simp only [h, if_false]
        rw [decide_eq_decide]; omega
    · show Spec.interp d.lo d.hi = _
      rw [h1]
      congr 1
      omega

theorem Cmp_correct (d o : Decimal) :
    Gen.Decimal.Cmp d o = .ok (Int8.ofInt (Spec.cmp (den d) (den o))) := by
  obtain ⟨l1, l2, l3, l4, _⟩ := i8_lits
  rw [Cmp_eq]
  unfold cmpStaged
  rcases classify d with ⟨ds, dn, dv⟩ | ⟨ds, dn, di, dv⟩ | ⟨ds, dn, di, dSig, dExp, ed, hdd, hde, hdb, hdc, hdz, dv⟩
  · -- d NaN
    rw [dv]
    simp only [ds, dn, Bool.true_or, if_true, pure, Except.pure]
    simp [Spec.cmp, l4]
  · rcases classify o with ⟨os, on, ov⟩ | ⟨os, on, oi, ov⟩ | ⟨os, on, oi, oSig, oExp, eo, hod, hoe, hob, hoc, hoz, ov⟩
    · rw [dv, ov]
      simp only [ds, dn, os, on, Bool.true_or, Bool.or_true, if_true, pure, Except.pure]
      simp [Spec.cmp, l4]
    · rw [dv, ov]
      simp only [ds, dn, di, os, on, oi, Bool.true_or, Bool.or_true, Bool.or_self, if_true, pure, Except.pure,
        Bool.false_eq_true, if_false, Bool.true_and]
      cases Decimal.Signbit d <;> cases Decimal.Signbit o <;> simp [Spec.cmp, l1, l2, l3]
    · rw [dv, ov]
      simp only [ds, dn, di, os, on, oi, Bool.true_or, Bool.or_true, Bool.or_self, if_true, pure, Except.pure,
        Bool.false_eq_true, if_false, Bool.true_and, Bool.false_and]
      cases Decimal.Signbit d <;> simp [Spec.cmp, l1, l2, l3]
  · rcases classify o with ⟨os, on, ov⟩ | ⟨os, on, oi, ov⟩ | ⟨os, on, oi, oSig, oExp, eo, hod, hoe, hob, hoc, hoz, ov⟩
    · rw [dv, ov]
      simp only [ds, dn, os, on, Bool.true_or, Bool.or_true, if_true, pure, Except.pure]
      simp [Spec.cmp, l4]
    · rw [dv, ov]
      simp only [ds, dn, di, os, on, oi, Bool.true_or, Bool.or_true, Bool.or_self, if_true, pure, Except.pure,
        Bool.false_eq_true, if_false, Bool.true_and, Bool.false_and]
      cases Decimal.Signbit o <;> simp [Spec.cmp, l1, l2, l3]
    · simp only [ds, dn, di, os, on, oi, Bool.or_self, pure, Except.pure,
        Bool.false_eq_true, if_false, hdd, hod]
      by_cases hdo : d = o
      · subst hdo
        rw [dv, spec_cmp_refl_fin]
        simp [l2]
      have hdo' : (d == o) = false := by simpa using hdo
      rw [dv, ov]
      simp only [hdo', Bool.false_eq_true, if_false, U128_or_eq_zero, hoz]
      by_cases hd0 : dSig.toNat = 0
      · simp only [hd0, decide_true, if_true]
        by_cases ho0 : oSig.toNat = 0
        · simp only [ho0, decide_true, if_true, spec_cmp_zero_zero, l2]
        · simp only [ho0, decide_false, Bool.false_eq_true, if_false]
          rw [spec_cmp_zero_left _ _ _ _ _ (by omega)]
          cases Decimal.Signbit o <;> simp [l1, l3]
      · simp only [hd0, decide_false, Bool.false_eq_true, if_false]
        by_cases ho0 : oSig.toNat = 0
        · simp only [ho0, decide_true, if_true]
          rw [spec_cmp_zero_right _ _ _ _ _ (by omega)]
          cases Decimal.Signbit d <;> simp [l1, l3]
        · simp only [ho0, decide_false, Bool.false_eq_true, if_false]
          by_cases hsg : Decimal.Signbit d = Decimal.Signbit o
          · rw [← hsg, spec_cmp_same_sign]
            simp only [bne_self_eq_false, Bool.false_eq_true, if_false]
            cases Decimal.Signbit d
            · simp only [Bool.false_eq_true, if_false]
              exact core_ok dSig oSig dExp oExp 1 ed eo hde hoe (by omega) (by omega) (by omega) hdc
                (by omega) hoc (Or.inl rfl)
            · simp only [if_true]
              exact core_ok dSig oSig dExp oExp (-1) ed eo hde hoe (by omega) (by omega) (by omega) hdc
                (by omega) hoc (Or.inr rfl)
          · rw [spec_cmp_diff_sign _ _ _ _ _ _ hsg (by omega) (by omega)]
            have : (Decimal.Signbit d != Decimal.Signbit o) = true := by simpa using hsg
            simp only [this, if_true]
            cases Decimal.Signbit d <;> simp [l1, l3]

theorem CmpAbs_correct (d o : Decimal) :
    Gen.Decimal.CmpAbs d o = .ok (Int8.ofInt (Spec.cmpAbs (den d) (den o))) := by
  obtain ⟨l1, l2, l3, l4, _⟩ := i8_lits
  rw [CmpAbs_eq]
  unfold cmpAbsStaged Spec.cmpAbs
  rcases classify d with ⟨ds, dn, dv⟩ | ⟨ds, dn, di, dv⟩ | ⟨ds, dn, di, dSig, dExp, ed, hdd, hde, hdb, hdc, hdz, dv⟩
  · rw [dv]
    simp only [ds, dn, Bool.true_or, if_true, pure, Except.pure]
    simp [Spec.cmp, Spec.absVal, l4]
  · rcases classify o with ⟨os, on, ov⟩ | ⟨os, on, oi, ov⟩ | ⟨os, on, oi, oSig, oExp, eo, hod, hoe, hob, hoc, hoz, ov⟩
    · rw [dv, ov]
      simp only [ds, dn, os, on, Bool.true_or, Bool.or_true, if_true, pure, Except.pure]
      simp [Spec.cmp, Spec.absVal, l4]
    · rw [dv, ov]
      simp only [ds, dn, di, os, on, oi, Bool.true_or, Bool.or_true, Bool.or_self, if_true, pure, Except.pure,
        Bool.false_eq_true, if_false, Bool.true_and]
      simp [Spec.cmp, Spec.absVal, l2]
    · rw [dv, ov]
      simp only [ds, dn, di, os, on, oi, Bool.true_or, Bool.or_true, Bool.or_self, if_true, pure, Except.pure,
        Bool.false_eq_true, if_false, Bool.true_and, Bool.false_and]
      simp [Spec.cmp, Spec.absVal, l3]
  · rcases classify o with ⟨os, on, ov⟩ | ⟨os, on, oi, ov⟩ | ⟨os, on, oi, oSig, oExp, eo, hod, hoe, hob, hoc, hoz, ov⟩
    · rw [dv, ov]
      simp only [ds, dn, os, on, Bool.true_or, Bool.or_true, if_true, pure, Except.pure]
      simp [Spec.cmp, Spec.absVal, l4]
    · rw [dv, ov]
      simp only [ds, dn, di, os, on, oi, Bool.true_or, Bool.or_true, Bool.or_self, if_true, pure, Except.pure,
        Bool.false_eq_true, if_false, Bool.true_and, Bool.false_and]
      simp [Spec.cmp, Spec.absVal, l1]
    · simp only [ds, dn, di, os, on, oi, Bool.or_self, pure, Except.pure,
        Bool.false_eq_true, if_false, hdd, hod]
      by_cases hdo : d = o
      · subst hdo
        rw [dv]
        simp only [Spec.absVal, spec_cmp_refl_fin]
        simp [l2]
      have hdo' : (d == o) = false := by simpa using hdo
      rw [dv, ov]
      simp only [hdo', Bool.false_eq_true, if_false, U128_or_eq_zero, hoz, Spec.absVal]
      by_cases hd0 : dSig.toNat = 0
      · simp only [hd0, decide_true, if_true]
        by_cases ho0 : oSig.toNat = 0
        · simp only [ho0, decide_true, if_true, spec_cmp_zero_zero, l2]
        · simp only [ho0, decide_false, Bool.false_eq_true, if_false]
          rw [spec_cmp_zero_left _ _ _ _ _ (by omega)]
          simp [l1]
      · simp only [hd0, decide_false, Bool.false_eq_true, if_false]
        by_cases ho0 : oSig.toNat = 0
        · simp only [ho0, decide_true, if_true]
          rw [spec_cmp_zero_right _ _ _ _ _ (by omega)]
          simp [l3]
        · simp only [ho0, decide_false, Bool.false_eq_true, if_false]
          rw [spec_cmp_same_sign]
          exact coreAbs_ok dSig oSig dExp oExp ed eo hde hoe (by omega) (by omega) (by omega) hdc
            (by omega) hoc

theorem spec_equal_same_sign (n : Bool) (a b ed eo : Nat) :
    Spec.equal (.fin n a ((ed : Int) - 6176)) (.fin n b ((eo : Int) - 6176)) = eqMag a ed b eo := by
  unfold Spec.equal eqMag
  rw [spec_cmp_fin]
  generalize a * 10 ^ (ed - eo) = A
  generalize b * 10 ^ (eo - ed) = B
  rw [Bool.eq_iff_iff]
  simp only [beq_iff_eq, decide_eq_true_eq]
  cases n <;> simp only [Bool.false_eq_true, if_false, if_true] <;> split_ifs <;>
    constructor <;> intro _ <;> first | omega | contradiction

theorem Equal_correct (d o : Decimal) :
    Gen.Decimal.Equal d o = .ok (Spec.equal (den d) (den o)) := by
  rw [Equal_eq]
  unfold equalStaged
  rcases classify d with ⟨ds, dn, dv⟩ | ⟨ds, dn, di, dv⟩ | ⟨ds, dn, di, dSig, dExp, ed, hdd, hde, hdb, hdc, hdz, dv⟩
  · rw [dv]
    simp only [ds, dn, Bool.true_or, if_true, pure, Except.pure]
    simp [Spec.equal, Spec.cmp]
  · rcases classify o with ⟨os, on, ov⟩ | ⟨os, on, oi, ov⟩ | ⟨os, on, oi, oSig, oExp, eo, hod, hoe, hob, hoc, hoz, ov⟩
    · rw [dv, ov]
      simp only [ds, dn, os, on, Bool.true_or, Bool.or_true, if_true, pure, Except.pure]
      simp [Spec.equal, Spec.cmp]
    · rw [dv, ov]
      simp only [ds, dn, di, os, on, oi, Bool.true_or, Bool.or_true, Bool.or_self, if_true, pure, Except.pure,
        Bool.false_eq_true, if_false, Bool.true_and]
      cases Decimal.Signbit d <;> cases Decimal.Signbit o <;> simp [Spec.equal, Spec.cmp]
    · rw [dv, ov]
      simp only [ds, dn, di, os, on, oi, Bool.true_or, Bool.or_true, Bool.or_self, if_true, pure, Except.pure,
        Bool.false_eq_true, if_false, Bool.true_and, Bool.false_and]
      cases Decimal.Signbit d <;> simp [Spec.equal, Spec.cmp]
  · rcases classify o with ⟨os, on, ov⟩ | ⟨os, on, oi, ov⟩ | ⟨os, on, oi, oSig, oExp, eo, hod, hoe, hob, hoc, hoz, ov⟩
    · rw [dv, ov]
      simp only [ds, dn, os, on, Bool.true_or, Bool.or_true, if_true, pure, Except.pure]
      simp [Spec.equal, Spec.cmp]
    · rw [dv, ov]
      simp only [ds, dn, di, os, on, oi, Bool.true_or, Bool.or_true, Bool.or_self, if_true, pure, Except.pure,
        Bool.false_eq_true, if_false, Bool.true_and, Bool.false_and]
      cases Decimal.Signbit o <;> simp [Spec.equal, Spec.cmp]
    · simp only [ds, dn, di, os, on, oi, Bool.or_self, pure, Except.pure,
        Bool.false_eq_true, if_false, hdd, hod]
      by_cases hdo : d = o
      · subst hdo
        rw [dv]
        simp [Spec.equal, spec_cmp_refl_fin]
      have hdo' : (d == o) = false := by simpa using hdo
      rw [dv, ov]
      simp only [hdo', Bool.false_eq_true, if_false, U128_or_eq_zero, hoz]
      by_cases hd0 : dSig.toNat = 0
      · simp only [hd0, decide_true, if_true]
        by_cases ho0 : oSig.toNat = 0
        · simp [ho0, Spec.equal, spec_cmp_zero_zero]
        · simp only [ho0, decide_false, Spec.equal]
          rw [spec_cmp_zero_left _ _ _ _ _ (by omega)]
          cases Decimal.Signbit o <;> simp
      · simp only [hd0, decide_false, Bool.false_eq_true, if_false]
        by_cases ho0 : oSig.toNat = 0
        · simp only [ho0, decide_true, if_true, Spec.equal]
          rw [spec_cmp_zero_right _ _ _ _ _ (by omega)]
          cases Decimal.Signbit d <;> simp
        · simp only [ho0, decide_false, Bool.false_eq_true, if_false]
          by_cases hsg : Decimal.Signbit d = Decimal.Signbit o
          · rw [← hsg, spec_equal_same_sign]
            simp only [bne_self_eq_false, Bool.false_eq_true, if_false]
            exact ecore_ok dSig oSig dExp oExp ed eo hde hoe (by omega) (by omega) (by omega) hdc
                (by omega) hoc
          · simp only [Spec.equal]
            rw [spec_cmp_diff_sign _ _ _ _ _ _ hsg (by omega) (by omega)]
            have : (Decimal.Signbit d != Decimal.Signbit o) = true := by simpa using hsg
            simp only [this, if_true]
            cases Decimal.Signbit d <;> simp

end CmpPf
