/-
  D128/Proofs/SpecMeaningEndToEnd.lean — the property theorems "generated Go function = `Spec.f`"
  (D128/Props/C01, C02, C02Quo, C04, C08) composed with the declarative meaning of `Spec.f`
  (D128/Props/SpecMeaning.lean): statements about the GENERATED functions in which the executable
  specification no longer occurs.  Every theorem is about `Gen.…`; `𝔳[d] = Spec.interp d.lo d.hi` is the
  IEEE 754-2008 BID reading of the 128 bits (D128/Props/C12.lean).

  Provided (namespace `SpecMeaning`):
  * `Cmp_meaning`            : non-NaN operands: `Cmp` returns `compare` of the denoted extended rationals
  * `AddWithMode_selected`, `SubWithMode_selected` : finite non-zero operands, non-zero exact result: the
                               returned Decimal is the member of the format the mode selects for it
  * `MulWithMode_selected`, `QuoWithMode_selected` : the same for product / quotient (from 1e-6177 on, or
                               any magnitude when the mode does not round magnitudes up)
  * `Ceil_isLeast`, `Floor_isGreatest` : a finite result is the least / greatest multiple of `10^-dp`
                               above / below the operand and keeps its sign bit; otherwise the result is ±Inf
  * `Round_result`           : a finite result of `Round(dp, m)` keeps the sign bit, is a multiple of the quantum
                               and less than one quantum away
-/
import D128.Props.C01
import D128.Props.C02
import D128.Props.C02Quo
import D128.Props.C04
import D128.Props.C08
import D128.Props.SpecMeaning

set_option autoImplicit false

namespace SpecMeaning
open Spec SpecRound

/-- the value a bit pattern denotes -/
local notation "𝔳[" d "]" => Spec.interp (Gen.Decimal.lo d) (Gen.Decimal.hi d)

theorem Cmp_meaning (d o : Gen.Decimal) (hd : (𝔳[d]).isNaN = false) (ho : (𝔳[o]).isNaN = false) :
    Gen.Decimal.Cmp d o = .ok (Int8.ofInt (ordInt (compare (ext 𝔳[d]) (ext 𝔳[o])))) := by
  rw [Props.C04.cmp_correct, cmp_eq_compare _ _ hd ho]

theorem AddWithMode_selected (d o : Gen.Decimal) (rm : UInt8) (m : Mode)
    (hm : Spec.Mode.ofNat? rm.toNat = some m) (n n' : Bool) (c c' : Nat) (e e' : Int)
    (hd : 𝔳[d] = .fin n c e) (ho : 𝔳[o] = .fin n' c' e') (hc : c ≠ 0) (hc' : c' ≠ 0)
    (h : (𝔳[d]).toRat + (𝔳[o]).toRat ≠ 0) :
    ∃ r, Gen.Decimal.AddWithMode d o rm = .ok r ∧
      Selected m ((𝔳[d]).toRat + (𝔳[o]).toRat) 𝔳[r] := by
  obtain ⟨r, hr, hs⟩ := Props.C01.add_correct d o rm m hm
  rw [hd, ho] at hs h ⊢
  exact ⟨r, hr, (Props.SpecMeaningThms.add_selected m n n' c c' e e' hc hc' h).of_same hs⟩

theorem SubWithMode_selected (d o : Gen.Decimal) (rm : UInt8) (m : Mode)
    (hm : Spec.Mode.ofNat? rm.toNat = some m) (n n' : Bool) (c c' : Nat) (e e' : Int)
    (hd : 𝔳[d] = .fin n c e) (ho : 𝔳[o] = .fin n' c' e') (hc : c ≠ 0) (hc' : c' ≠ 0)
    (h : (𝔳[d]).toRat - (𝔳[o]).toRat ≠ 0) :
    ∃ r, Gen.Decimal.SubWithMode d o rm = .ok r ∧
      Selected m ((𝔳[d]).toRat - (𝔳[o]).toRat) 𝔳[r] := by
  obtain ⟨r, hr, hs⟩ := Props.C01.sub_correct d o rm m hm
  rw [hd, ho] at hs h ⊢
  exact ⟨r, hr, (Props.SpecMeaningThms.sub_selected m n n' c c' e e' hc hc' h).of_same hs⟩

theorem MulWithMode_selected (d o : Gen.Decimal) (rm : UInt8) (m : Mode)
    (hm : Spec.Mode.ofNat? rm.toNat = some m) (n n' : Bool) (c c' : Nat) (e e' : Int)
    (hd : 𝔳[d] = .fin n c e) (ho : 𝔳[o] = .fin n' c' e') (hc : c ≠ 0) (hc' : c' ≠ 0)
    (h : (10 : ℚ) ^ (Spec.Emin - 1) ≤ |(𝔳[d]).toRat * (𝔳[o]).toRat| ∨ isUp m (n != n') = false) :
    ∃ r, Gen.Decimal.MulWithMode d o rm = .ok r ∧
      Selected m ((𝔳[d]).toRat * (𝔳[o]).toRat) 𝔳[r] := by
  obtain ⟨r, hr, hs⟩ := Props.C02.mul_correct d o rm m hm
  rw [hd, ho] at hs h ⊢
  exact ⟨r, hr, (Props.SpecMeaningThms.mul_selected m n n' c c' e e' hc hc' h).of_same hs⟩

theorem QuoWithMode_selected (d o : Gen.Decimal) (rm : UInt8) (m : Mode)
    (hm : Spec.Mode.ofNat? rm.toNat = some m) (n n' : Bool) (c c' : Nat) (e e' : Int)
    (hd : 𝔳[d] = .fin n c e) (ho : 𝔳[o] = .fin n' c' e') (hc : c ≠ 0) (hc' : c' ≠ 0)
    (h : (10 : ℚ) ^ (Spec.Emin - 1) ≤ |(𝔳[d]).toRat / (𝔳[o]).toRat| ∨ isUp m (n != n') = false) :
    ∃ r, Gen.Decimal.QuoWithMode d o rm = .ok r ∧
      Selected m ((𝔳[d]).toRat / (𝔳[o]).toRat) 𝔳[r] := by
  obtain ⟨r, hr, hs⟩ := Props.C02.quo_correct d o rm m hm
  rw [hd, ho] at hs h ⊢
  exact ⟨r, hr, (Props.SpecMeaningThms.quo_selected m n n' c c' e e' hc hc' h).of_same hs⟩

/-- a value that is `same` as a finite / infinite specification value -/
theorem same_fin_or_inf {v' v : Val} (h : v'.same v = true) :
    (v'.isFin = true → ∃ n c e, v = .fin n c e ∧ v'.neg = n ∧ v'.toRat = (Val.fin n c e).toRat) ∧
    (∀ n, v = .inf n → v' = .inf n) := by
  obtain ⟨h1, -, h3, h4, h5⟩ := same_facts h
  refine ⟨fun hf => ?_, h5⟩
  rw [h1] at hf
  cases v with
  | nan a b => simp [Val.isFin] at hf
  | inf a => simp [Val.isFin] at hf
  | fin a c e => exact ⟨a, c, e, rfl, h3, h4⟩

theorem Ceil_isLeast (d : Gen.Decimal) (dp : Int64) (n : Bool) (c : Nat) (e : Int)
    (hd : 𝔳[d] = .fin n c e) :
    ∃ r, Gen.Decimal.Ceil d dp = .ok r ∧
      ((𝔳[r]).isFin = true → (𝔳[r]).neg = n ∧
        IsLeast {y : ℚ | IsMult y dp.toInt ∧ (𝔳[d]).toRat ≤ y} (𝔳[r]).toRat) ∧
      ((𝔳[r]).isFin = true ∨ 𝔳[r] = .inf n) := by
  obtain ⟨r, hr, hs⟩ := Props.C08.ceil_correct d dp
  rw [hd] at hs ⊢
  obtain ⟨hf, hi⟩ := same_fin_or_inf hs
  obtain ⟨hm1, hm2⟩ := Props.SpecMeaningThms.ceil_meaning dp.toInt n c e
  refine ⟨r, hr, fun h => ?_, ?_⟩
  · obtain ⟨n1, c1, e1, hv, hneg, hrat⟩ := hf h
    obtain ⟨hn, hl⟩ := hm1 n1 c1 e1 hv
    rw [hneg, hrat]; exact ⟨hn, hl⟩
  · rcases hm2 with ⟨c1, e1, hv⟩ | hv
    · left
      obtain ⟨h1, -⟩ := same_facts hs
      rw [h1, hv]; rfl
    · right; exact hi n hv

theorem Floor_isGreatest (d : Gen.Decimal) (dp : Int64) (n : Bool) (c : Nat) (e : Int)
    (hd : 𝔳[d] = .fin n c e) :
    ∃ r, Gen.Decimal.Floor d dp = .ok r ∧
      ((𝔳[r]).isFin = true → (𝔳[r]).neg = n ∧
        IsGreatest {y : ℚ | IsMult y dp.toInt ∧ y ≤ (𝔳[d]).toRat} (𝔳[r]).toRat) ∧
      ((𝔳[r]).isFin = true ∨ 𝔳[r] = .inf n) := by
  obtain ⟨r, hr, hs⟩ := Props.C08.floor_correct d dp
  rw [hd] at hs ⊢
  obtain ⟨hf, hi⟩ := same_fin_or_inf hs
  obtain ⟨hm1, hm2⟩ := Props.SpecMeaningThms.floor_meaning dp.toInt n c e
  refine ⟨r, hr, fun h => ?_, ?_⟩
  · obtain ⟨n1, c1, e1, hv, hneg, hrat⟩ := hf h
    obtain ⟨hn, hl⟩ := hm1 n1 c1 e1 hv
    rw [hneg, hrat]; exact ⟨hn, hl⟩
  · rcases hm2 with ⟨c1, e1, hv⟩ | hv
    · left
      obtain ⟨h1, -⟩ := same_facts hs
      rw [h1, hv]; rfl
    · right; exact hi n hv

theorem Round_result (d : Gen.Decimal) (dp : Int64) (rm : UInt8) (m : Mode)
    (hm : Spec.Mode.ofNat? rm.toNat = some m) (n : Bool) (c : Nat) (e : Int) (hd : 𝔳[d] = .fin n c e) :
    ∃ r, Gen.Decimal.Round d dp rm = .ok r ∧
      ((𝔳[r]).isFin = true → (𝔳[r]).neg = n ∧ IsMult (𝔳[r]).toRat dp.toInt ∧
        |(𝔳[r]).toRat - (𝔳[d]).toRat| < (10 : ℚ) ^ (-dp.toInt)) := by
  obtain ⟨r, hr, hs⟩ := Props.C08.round_dp_correct d dp rm m hm
  rw [hd] at hs ⊢
  obtain ⟨hf, -⟩ := same_fin_or_inf hs
  refine ⟨r, hr, fun h => ?_⟩
  obtain ⟨n1, c1, e1, hv, hneg, hrat⟩ := hf h
  obtain ⟨h1, h2, h3⟩ := quantize_fin_result dp.toInt m n c e hv
  rw [hneg, hrat]; exact ⟨h1, h2, h3⟩

/-- the hypotheses are satisfiable: 1.2345 (c = 12345, e = −4), two places -/
example := Ceil_isLeast ⟨12345, 3474527112516337664⟩ 2 false 12345 (-4) (by decide +kernel)

end SpecMeaning
