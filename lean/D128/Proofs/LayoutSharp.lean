/-
  D128/Proofs/LayoutSharp.lean — `Spec.sharpFix` (fmt's `#` flag: forced point and, for `g`/`G`, restored
  trailing zeros) on the strings `Spec.layoutE` / `Spec.layoutF` produce.  Pure; no generated code.

  * `Ly.DStr`             : strings of decimal digit characters; `Ly.dstr_zeros`, `Ly.dstr_digitsStr`, …
  * `Ly.cnt`              : the significant-digit count of `sharpFix` as a recursive function;
        `Ly.foldl_cnt`, `Ly.cnt_zeros`, `Ly.cnt_dot`, `Ly.cnt_dstr_true`, `Ly.cnt_dstr_head`
  * `Ly.span_mant`        : `span` splits a numeral at its exponent letter
  * `Ly.sharpFix_eq`      : closed form of `sharpFix` on `mant ++ tail`
  * `Ly.firstC`, `Ly.mantE`, `Ly.layoutE_split`, `Ly.mantE_facts`, `Ly.sharpFix_layoutE` : `#` with `%e`
  * `Ly.ipF`, `Ly.fracS`, `Ly.layoutF_split`, `Ly.layoutF_facts`, `Ly.sharpFix_layoutF` : `#` with `%f`
-/
import D128.Proofs.LayoutFormatG

set_option autoImplicit false
set_option maxRecDepth 4096

namespace Ly
open Dg

/-! ## digit characters -/

theorem digitChar_facts : ∀ k : Fin 10,
    Spec.digitChar k.val ≠ 'e' ∧ Spec.digitChar k.val ≠ 'E' ∧ Spec.digitChar k.val ≠ '.' ∧
    (Spec.digitChar k.val = '0' ↔ k.val = 0) := by decide

/-- strings of decimal digit characters -/
def DStr (L : Spec.Str) : Prop := ∀ c ∈ L, ∃ k, k < 10 ∧ c = Spec.digitChar k

theorem dstr_nil : DStr [] := fun _ h => by cases h

theorem dstr_append {A B : Spec.Str} (hA : DStr A) (hB : DStr B) : DStr (A ++ B) := by
  intro c hc
  rcases List.mem_append.mp hc with h | h
  · exact hA c h
  · exact hB c h

theorem dstr_zeros (n : Nat) : DStr (Spec.zeros n) := by
  intro c hc
  rw [Spec.zeros, List.mem_replicate] at hc
  exact ⟨0, by decide, hc.2⟩

theorem dstr_digitsStr (L : List Nat) (h : ∀ x ∈ L, x < 10) : DStr (Spec.digitsStr L) := by
  intro c hc
  rw [Spec.digitsStr, List.mem_map] at hc
  obtain ⟨x, hx, rfl⟩ := hc
  exact ⟨x, h x hx, rfl⟩

theorem dstr_cons {c : Char} {L : Spec.Str} (k : Nat) (hk : k < 10) (hc : c = Spec.digitChar k)
    (hL : DStr L) : DStr (c :: L) := by
  intro x hx
  rcases List.mem_cons.mp hx with h | h
  · exact ⟨k, hk, h.trans hc⟩
  · exact hL x h

theorem dstr_not_letter {L : Spec.Str} (h : DStr L) :
    ∀ c ∈ L, (c != 'e' && c != 'E') = true ∧ c ≠ '.' := by
  intro c hc
  obtain ⟨k, hk, rfl⟩ := h c hc
  obtain ⟨a, b, c', _⟩ := digitChar_facts ⟨k, hk⟩
  simp only at a b c'
  simp [a, b, c']

/-! ## the significant-digit count of `sharpFix` -/

/-- number of digit characters from the first non-zero digit on (`saw` = one was seen already) -/
def cnt : Spec.Str → Bool → Nat
  | [], _ => 0
  | c :: t, saw =>
    if c == '.' then cnt t saw
    else (if (saw || c != '0') then 1 else 0) + cnt t (saw || c != '0')

/-- whether a non-zero digit has been seen after reading `L` -/
def sawAfter : Spec.Str → Bool → Bool
  | [], saw => saw
  | c :: t, saw => if c == '.' then sawAfter t saw else sawAfter t (saw || c != '0')

theorem foldl_cnt (L : Spec.Str) (a : Int) (saw : Bool) :
    L.foldl (fun (acc : Int × Bool) c =>
      if c == '.' then acc
      else
        let saw := acc.2 || c != '0'
        (if saw then acc.1 - 1 else acc.1, saw)) (a, saw) = (a - cnt L saw, sawAfter L saw) := by
  induction L generalizing a saw with
  | nil => simp [cnt, sawAfter]
  | cons c t ih =>
    rw [List.foldl_cons]
    by_cases hc : (c == '.') = true
    · simp only [hc, if_true, cnt, sawAfter]
      exact ih a saw
    · simp only [hc, if_false, cnt, sawAfter, Bool.false_eq_true]
      rw [ih]
      cases h : (saw || c != '0')
      · simp
      · simp; omega

theorem cnt_append (A B : Spec.Str) (saw : Bool) :
    cnt (A ++ B) saw = cnt A saw + cnt B (sawAfter A saw) := by
  induction A generalizing saw with
  | nil => simp [cnt, sawAfter]
  | cons c t ih =>
    simp only [List.cons_append, cnt, sawAfter]
    split
    · exact ih saw
    · rw [ih]; omega

theorem cnt_zeros (n : Nat) : cnt (Spec.zeros n) false = 0 ∧ sawAfter (Spec.zeros n) false = false := by
  induction n with
  | zero => exact ⟨rfl, rfl⟩
  | succ n ih =>
    have : Spec.zeros (n + 1) = '0' :: Spec.zeros n := by simp [Spec.zeros, List.replicate_succ]
    rw [this]
    simp only [cnt, sawAfter]
    exact ⟨by simpa using ih.1, by simpa using ih.2⟩

theorem cnt_dstr_true (L : Spec.Str) (h : DStr L) :
    cnt L true = L.length ∧ sawAfter L true = true := by
  induction L with
  | nil => exact ⟨rfl, rfl⟩
  | cons c t ih =>
    have hc := (dstr_not_letter h c (by simp)).2
    have ht : DStr t := fun x hx => h x (by simp [hx])
    have hc' : ¬ (c == '.') = true := by simpa using hc
    simp only [cnt, sawAfter, hc', if_false, Bool.true_or, if_true, List.length_cons, Bool.false_eq_true]
    exact ⟨by rw [(ih ht).1]; omega, (ih ht).2⟩

/-- a digit string that starts with a non-zero digit counts in full -/
theorem cnt_dstr_head (k : Nat) (hk : k < 10) (hk0 : k ≠ 0) (t : Spec.Str) (ht : DStr t) :
    cnt (Spec.digitChar k :: t) false = t.length + 1 ∧
    sawAfter (Spec.digitChar k :: t) false = true := by
  obtain ⟨_, _, c', z⟩ := digitChar_facts ⟨k, hk⟩
  simp only at c' z
  have hc' : ¬ (Spec.digitChar k == '.') = true := by simpa using c'
  have hz : (Spec.digitChar k != '0') = true := by
    simp only [bne_iff_ne, ne_eq]; intro e; exact hk0 (z.mp e)
  simp only [cnt, sawAfter, hc', if_false, hz, Bool.or_true, if_true, Bool.false_eq_true]
  exact ⟨by rw [(cnt_dstr_true t ht).1]; omega, (cnt_dstr_true t ht).2⟩

theorem cnt_dot (t : Spec.Str) (saw : Bool) :
    cnt ('.' :: t) saw = cnt t saw ∧ sawAfter ('.' :: t) saw = sawAfter t saw := by
  simp [cnt, sawAfter]

/-! ## splitting at the exponent letter -/

theorem span_loop (p : Char → Bool) (mant tail acc : Spec.Str) (hm : ∀ c ∈ mant, p c = true)
    (ht : tail = [] ∨ ∃ c t, tail = c :: t ∧ p c = false) :
    List.span.loop p (mant ++ tail) acc = (acc.reverse ++ mant, tail) := by
  induction mant generalizing acc with
  | nil =>
    rcases ht with rfl | ⟨c, t, rfl, hc⟩
    · simp [List.span.loop]
    · simp [List.span.loop, hc]
  | cons a m ih =>
    have ha : p a = true := hm a (by simp)
    rw [List.cons_append, List.span.loop, ha]
    simp only
    rw [ih (a :: acc) (fun c hc => hm c (by simp [hc]))]
    simp

theorem span_mant (p : Char → Bool) (mant tail : Spec.Str) (hm : ∀ c ∈ mant, p c = true)
    (ht : tail = [] ∨ ∃ c t, tail = c :: t ∧ p c = false) :
    (mant ++ tail).span p = (mant, tail) := by
  unfold List.span
  rw [span_loop p mant tail [] hm ht]; rfl

/-- **closed form of `sharpFix`** on a numeral `mant ++ tail` whose mantissa has no exponent
letter and whose tail is empty or starts with one -/
theorem sharpFix_eq (mant tail : Spec.Str) (verb : Char) (prec : Option Nat)
    (hm : ∀ c ∈ mant, (c != 'e' && c != 'E') = true)
    (ht : tail = [] ∨ ∃ c t, tail = c :: t ∧ (c != 'e' && c != 'E') = false) :
    Spec.sharpFix (mant ++ tail) verb prec =
      (if mant.contains '.' then mant else mant ++ ['.']) ++
        Spec.zeros (((if verb == 'g' || verb == 'G' then ((prec.getD 6 : Nat) : Int) else 0) -
            (cnt mant false : Int) -
          (if !mant.contains '.' && mant == ['0'] then 1 else 0)).toNat) ++ tail := by
  unfold Spec.sharpFix
  simp only [span_mant _ mant tail hm ht, foldl_cnt]
  congr 3
  by_cases h : (!mant.contains '.' && mant == ['0']) = true
  · rw [if_pos h, if_pos h]; cases prec <;> rfl
  · rw [if_neg h, if_neg h, Int.sub_zero]; cases prec <;> rfl

/-! ## the `e` and `f` verbs: `#` only forces the point -/

/-- first digit of `Spec.layoutE` -/
def firstC (r : Spec.Slice) : Char := match r.ds with | d :: _ => Spec.digitChar d | [] => '0'

/-- mantissa of `Spec.layoutE` -/
def mantE (r : Spec.Slice) (q : Nat) (sharp : Bool) : Spec.Str :=
  [firstC r] ++
    (if q > 0 then '.' :: ((Spec.digitsStr (r.ds.drop 1) ++
        Spec.zeros (q - (Spec.digitsStr (r.ds.drop 1)).length)).take q)
      else if sharp then ['.'] else [])

theorem layoutE_split (r : Spec.Slice) (q : Nat) (sharp : Bool) (e : Char) (m : Nat) :
    Spec.layoutE r q sharp e m =
      mantE r q sharp ++ Spec.expStr e (if r.ds.isEmpty then 0 else r.dp - 1) m := rfl

theorem dstr_take {L : Spec.Str} (h : DStr L) (n : Nat) : DStr (L.take n) :=
  fun c hc => h c (List.mem_of_mem_take hc)

theorem dstr_drop_digits (r : Spec.Slice) (hr : NormS r) (n : Nat) :
    DStr (Spec.digitsStr (r.ds.drop n)) :=
  dstr_digitsStr _ (fun x hx => hr.lt10 x (List.mem_of_mem_drop hx))

theorem first_dstr (r : Spec.Slice) (hr : NormS r) : DStr [firstC r] := by
  intro c hc
  rw [List.mem_singleton] at hc
  unfold firstC at hc
  cases hds : r.ds with
  | nil => rw [hds] at hc; exact ⟨0, by decide, hc⟩
  | cons d t => rw [hds] at hc; exact ⟨d, hr.lt10 d (by rw [hds]; simp), hc⟩

theorem mantE_facts (r : Spec.Slice) (hr : NormS r) (q : Nat) (sharp : Bool) :
    (∀ c ∈ mantE r q sharp, (c != 'e' && c != 'E') = true) ∧
    ((mantE r q sharp).contains '.' = (decide (q > 0) || sharp)) := by
  have hf := first_dstr r hr
  have hfr : DStr ((Spec.digitsStr (r.ds.drop 1) ++
      Spec.zeros (q - (Spec.digitsStr (r.ds.drop 1)).length)).take q) :=
    dstr_take (dstr_append (dstr_drop_digits r hr 1) (dstr_zeros _)) q
  have hf1 := dstr_not_letter hf
  have hf2 := dstr_not_letter hfr
  unfold mantE
  constructor
  · intro c hc
    rcases List.mem_append.mp hc with h | h
    · exact (hf1 c h).1
    · split at h
      · rcases List.mem_cons.mp h with h | h
        · rw [h]; decide
        · exact (hf2 c h).1
      · split at h
        · rw [List.mem_singleton] at h; rw [h]; decide
        · cases h
  · have n1 : ∀ L : Spec.Str, DStr L → L.contains '.' = false := by
      intro L hL
      rw [List.contains_eq_any_beq, List.any_eq_false]
      intro c hc
      have := (dstr_not_letter hL c hc).2
      intro h
      exact this (beq_iff_eq.mp h).symm
    rw [List.contains_eq_any_beq, List.any_append, ← List.contains_eq_any_beq,
      ← List.contains_eq_any_beq, n1 _ hf, Bool.false_or]
    by_cases hq : q > 0
    · simp [hq]
    · cases sharp <;> simp [hq]

theorem expStr_head (e : Char) (x : Int) (m : Nat) (he : e = 'e' ∨ e = 'E') :
    ∃ c t, Spec.expStr e x m = c :: t ∧ (c != 'e' && c != 'E') = false := by
  refine ⟨e, _, rfl, ?_⟩
  rcases he with rfl | rfl <;> decide

/-- `#` with `%e`: only the point is forced -/
theorem sharpFix_layoutE (r : Spec.Slice) (hr : NormS r) (q : Nat) (e : Char)
    (he : e = 'e' ∨ e = 'E') (verb : Char) (hv : verb = 'e' ∨ verb = 'E') (prec : Option Nat) :
    Spec.sharpFix (Spec.layoutE r q false e 2) verb prec = Spec.layoutE r q true e 2 := by
  obtain ⟨hm, hc⟩ := mantE_facts r hr q false
  rw [layoutE_split, sharpFix_eq _ _ verb prec hm (Or.inr (expStr_head e _ 2 he)), layoutE_split]
  have hvg : (verb == 'g' || verb == 'G') = false := by rcases hv with rfl | rfl <;> decide
  rw [hvg, hc]
  have hz : ∀ (a : Nat) (b : Int), 0 ≤ b → Spec.zeros ((0 : Int) - (a : Int) - b).toNat = [] := by
    intro a b hb
    have : ((0 : Int) - (a : Int) - b).toNat = 0 := by omega
    rw [this]; rfl
  simp only [Bool.false_eq_true, if_false]
  rw [hz _ _ (by split <;> omega), List.append_nil]
  congr 1
  unfold mantE
  by_cases hq : q > 0 <;> simp [hq]

/-- integer digits of `Spec.layoutF` -/
def ipF (r : Spec.Slice) : Spec.Str :=
  if r.dp > 0 then
    Spec.digitsStr (r.ds.take r.dp.toNat) ++ Spec.zeros (r.dp.toNat - r.ds.length)
  else ['0']

/-- fraction digits of `Spec.layoutF` -/
def fracS (r : Spec.Slice) (q : Nat) : Spec.Str :=
  (List.range q).map fun (i : Nat) =>
    let j : Int := r.dp + (i : Int)
    if 0 ≤ j ∧ j.toNat < r.ds.length then Spec.digitChar (r.ds.getD j.toNat 0) else '0'

theorem layoutF_split (r : Spec.Slice) (q : Nat) (sharp : Bool) :
    Spec.layoutF r q sharp =
      ipF r ++ (if q > 0 then '.' :: fracS r q else if sharp then ['.'] else []) := rfl

theorem dstr_ipF (r : Spec.Slice) (hr : NormS r) : DStr (ipF r) := by
  unfold ipF
  split
  · exact dstr_append (dstr_digitsStr _ (fun x hx => hr.lt10 x (List.mem_of_mem_take hx)))
      (dstr_zeros _)
  · intro c hc
    rw [List.mem_singleton] at hc
    exact ⟨0, by decide, hc⟩

theorem dstr_fracS (r : Spec.Slice) (hr : NormS r) (q : Nat) : DStr (fracS r q) := by
  intro c hc
  unfold fracS at hc
  rw [List.mem_map] at hc
  obtain ⟨i, _, rfl⟩ := hc
  simp only
  split
  · rename_i h
    refine ⟨_, hr.lt10 _ ?_, rfl⟩
    rw [List.getD_eq_getElem?_getD, List.getElem?_eq_getElem h.2]
    exact List.getElem_mem _
  · exact ⟨0, by decide, rfl⟩

theorem layoutF_facts (r : Spec.Slice) (hr : NormS r) (q : Nat) (sharp : Bool) :
    (∀ c ∈ Spec.layoutF r q sharp, (c != 'e' && c != 'E') = true) ∧
    ((Spec.layoutF r q sharp).contains '.' = (decide (q > 0) || sharp)) := by
  have hf1 := dstr_not_letter (dstr_ipF r hr)
  have hf2 := dstr_not_letter (dstr_fracS r hr q)
  rw [layoutF_split]
  constructor
  · intro c hc
    rcases List.mem_append.mp hc with h | h
    · exact (hf1 c h).1
    · split at h
      · rcases List.mem_cons.mp h with h | h
        · rw [h]; decide
        · exact (hf2 c h).1
      · split at h
        · rw [List.mem_singleton] at h; rw [h]; decide
        · cases h
  · have n1 : ∀ L : Spec.Str, DStr L → L.contains '.' = false := by
      intro L hL
      rw [List.contains_eq_any_beq, List.any_eq_false]
      intro c hc
      have := (dstr_not_letter hL c hc).2
      intro h
      exact this (beq_iff_eq.mp h).symm
    rw [List.contains_eq_any_beq, List.any_append, ← List.contains_eq_any_beq,
      ← List.contains_eq_any_beq, n1 _ (dstr_ipF r hr), Bool.false_or]
    by_cases hq : q > 0
    · simp [hq]
    · cases sharp <;> simp [hq]

/-- `#` with `%f`: only the point is forced -/
theorem sharpFix_layoutF (r : Spec.Slice) (hr : NormS r) (q : Nat) (verb : Char)
    (hv : verb = 'f' ∨ verb = 'F') (prec : Option Nat) :
    Spec.sharpFix (Spec.layoutF r q false) verb prec = Spec.layoutF r q true := by
  obtain ⟨hm, hc⟩ := layoutF_facts r hr q false
  have := sharpFix_eq (Spec.layoutF r q false) [] verb prec hm (Or.inl rfl)
  rw [List.append_nil] at this
  rw [this]
  have hvg : (verb == 'g' || verb == 'G') = false := by rcases hv with rfl | rfl <;> decide
  rw [hvg, hc]
  have hz : ∀ (a : Nat) (b : Int), 0 ≤ b → Spec.zeros ((0 : Int) - (a : Int) - b).toNat = [] := by
    intro a b hb
    have : ((0 : Int) - (a : Int) - b).toNat = 0 := by omega
    rw [this]; rfl
  simp only [Bool.false_eq_true, if_false]
  rw [hz _ _ (by split <;> omega), List.append_nil, List.append_nil, layoutF_split, layoutF_split]
  by_cases hq : q > 0 <;> simp [hq]

end Ly
