/-
  D128/Proofs/ComposeSqlDecompose.lean — `Gen.Decimal.Decompose` (Go: /repo/compose.go), property C14.

  Provided (namespace `CS`):
  * `bytes16 s`, `dec16_eq`, `beL_bytes16`  : the sixteen stores write the big-endian bytes of the
      coefficient whatever the buffer held before
  * `strip`                                  : scan + `sig[i:]` on a non-zero string
  * `Decompose_nan`, `Decompose_inf`         : forms 2 and 1
  * `Decompose_fin`                          : for finite `d` and ANY `buf` (shorter than 2^63 bytes):
      `Decompose d buf = .ok (0, Signbit d, bytes, e)` with `bytes = #[]`, `e = 0` for a zero coefficient and
      otherwise `beNat bytes = coefficient`, `bytes[0] ≠ 0`, `1 ≤ bytes.size ≤ 16`, `e = exponent`;
      no panic, the result does not depend on `buf`
-/
import D128.Proofs.ComposeSqlTop
import D128.Proofs.IntConv
set_option autoImplicit false
set_option maxRecDepth 8192

namespace CS
open Gen

local notation "𝔳[" d "]" => Spec.interp (Gen.Decimal.lo d) (Gen.Decimal.hi d)

/-- the sixteen bytes written by `Decompose` -/
def bytes16 (s : U128) : Go.Bytes :=
  #[(Go.conv (Go.shr s.w1 (56 : Int)) : UInt8), (Go.conv (Go.shr s.w1 (48 : Int)) : UInt8),
    (Go.conv (Go.shr s.w1 (40 : Int)) : UInt8), (Go.conv (Go.shr s.w1 (32 : Int)) : UInt8),
    (Go.conv (Go.shr s.w1 (24 : Int)) : UInt8), (Go.conv (Go.shr s.w1 (16 : Int)) : UInt8),
    (Go.conv (Go.shr s.w1 (8 : Int)) : UInt8), (Go.conv s.w1 : UInt8),
    (Go.conv (Go.shr s.w0 (56 : Int)) : UInt8), (Go.conv (Go.shr s.w0 (48 : Int)) : UInt8),
    (Go.conv (Go.shr s.w0 (40 : Int)) : UInt8), (Go.conv (Go.shr s.w0 (32 : Int)) : UInt8),
    (Go.conv (Go.shr s.w0 (24 : Int)) : UInt8), (Go.conv (Go.shr s.w0 (16 : Int)) : UInt8),
    (Go.conv (Go.shr s.w0 (8 : Int)) : UInt8), (Go.conv s.w0 : UInt8)]

theorem list16 (l : List UInt8) (h : l.length = 16) :
    ∃ a0 a1 a2 a3 a4 a5 a6 a7 a8 a9 a10 a11 a12 a13 a14 a15,
      l = [a0, a1, a2, a3, a4, a5, a6, a7, a8, a9, a10, a11, a12, a13, a14, a15] := by
  match l, h with
  | [a0, a1, a2, a3, a4, a5, a6, a7, a8, a9, a10, a11, a12, a13, a14, a15], _ =>
    exact ⟨_, _, _, _, _, _, _, _, _, _, _, _, _, _, _, _, rfl⟩

theorem dec16_eq (d : Decimal) (s : U128) (e : Int16) (sig : Go.Bytes) (h : sig.size = 16) :
    dec16 d s e sig = (do
      let i ← scan (bytes16 s)
      let t ← Go.bsliceFrom (bytes16 s) (Go.idx i)
      pure ((0 : UInt8), Decimal.Signbit d, t, ((Go.conv e : Int32) - (6176 : Int32)))) := by
  obtain ⟨l⟩ := sig
  obtain ⟨a0, a1, a2, a3, a4, a5, a6, a7, a8, a9, a10, a11, a12, a13, a14, a15, rfl⟩ := list16 l h
  rfl
theorem byte_val (w : UInt64) (k : Int) (h0 : 0 ≤ k) (h1 : k < 64) :
    ((Go.conv (Go.shr w k) : UInt8)).toNat = w.toNat / 2 ^ k.toNat % 256 := by
  rw [Enc.conv_u64_u8, Enc.shr_toNat w k h0 h1]

theorem byte_val0 (w : UInt64) : ((Go.conv w : UInt8)).toNat = w.toNat % 256 := Enc.conv_u64_u8 w

theorem beL_bytes16 (s : U128) : beL (bytes16 s).toList = s.toNat := by
  have h0 := s.w0.toNat_lt
  have h1 := s.w1.toNat_lt
  simp only [bytes16, beL, List.foldl_cons, List.foldl_nil, byte_val0,
    byte_val _ _ (by decide : (0:Int) ≤ 56) (by decide), byte_val _ _ (by decide : (0:Int) ≤ 48) (by decide),
    byte_val _ _ (by decide : (0:Int) ≤ 40) (by decide), byte_val _ _ (by decide : (0:Int) ≤ 32) (by decide),
    byte_val _ _ (by decide : (0:Int) ≤ 24) (by decide), byte_val _ _ (by decide : (0:Int) ≤ 16) (by decide),
    byte_val _ _ (by decide : (0:Int) ≤ 8) (by decide), U128.toNat]
  simp only [Int.reduceToNat, Nat.reducePow]
  omega

/-! ## scan and strip -/

theorem strip (sig : Go.Bytes) (hsz : sig.size < 2 ^ 63) (hn : Spec.beNat sig ≠ 0) :
    ∃ i t, scan sig = .ok i ∧ Go.bsliceFrom sig (Go.idx i) = .ok t ∧ Spec.beNat t = Spec.beNat sig ∧
      t.toList.getD 0 0 ≠ 0 ∧ 1 ≤ t.size ∧ t.size ≤ sig.size := by
  obtain ⟨i, hi, hS, hend⟩ := scan_ok sig hsz
  have hl : sig.toList.length = sig.size := Array.length_toList
  have hsplit : Spec.beNat sig = beL (sig.toList.drop i.toInt.toNat) := by
    rw [beNat_eq]
    conv_lhs => rw [← List.take_append_drop i.toInt.toNat sig.toList, hS.zeros]
    exact beL_replicate_zero _ _
  have hne : i.toInt ≠ sig.size := by
    intro he
    apply hn
    rw [hsplit, List.drop_of_length_le (by omega)]
    rfl
  have hlt : i.toInt < sig.size := by have := hS.hi; omega
  have hlo := hS.lo
  have hd0 : sig.toList.getD i.toInt.toNat 0 ≠ 0 := by
    rcases hend with h | h
    · exact absurd h hne
    · exact h
  have htl : (sig.extract i.toInt.toNat sig.size).toList = sig.toList.drop i.toInt.toNat :=
    extract_toList sig _
  have hts : (sig.extract i.toInt.toNat sig.size).size = sig.size - i.toInt.toNat := by
    rw [← Array.length_toList, htl, List.length_drop, hl]
  refine ⟨i, sig.extract i.toInt.toNat sig.size, hi, bsliceFrom_eq sig i.toInt hlo hS.hi, ?_, ?_, ?_, ?_⟩
  · rw [hsplit, beNat_eq, htl]
  · rw [htl, List.getD_eq_getElem?_getD, List.getElem?_drop, Nat.add_zero,
      ← List.getD_eq_getElem?_getD]
    exact hd0
  · rw [hts]; omega
  · rw [hts]; omega

/-! ## Decompose -/

theorem Decompose_nan (d : Decimal) (buf : Go.Bytes) (h : Decimal.IsNaN d = true) :
    Gen.Decimal.Decompose d buf = .ok (2, Decimal.Signbit d, #[], 0) := by
  rw [Decompose_eq]; unfold decStaged
  rw [if_pos h]; rfl

theorem Decompose_inf (d : Decimal) (buf : Go.Bytes) (h : Decimal.IsNaN d = false)
    (hi : Decimal.isInf d = true) :
    Gen.Decimal.Decompose d buf = .ok (1, Decimal.Signbit d, #[], 0) := by
  rw [Decompose_eq]; unfold decStaged
  rw [if_neg (by rw [h]; decide), if_pos hi]; rfl

theorem conv_i16_i32 (e : Int16) : (Go.conv e : Int32).toInt = e.toInt := by
  have h1 := e.le_toInt
  have h2 := e.toInt_lt
  simp only [Go.conv, Go.GoInt.ofInt, Go.GoInt.toInt]
  rw [Int32.toInt_ofInt_of_le] <;> simp only [Int.reducePow] at * <;> omega

theorem len_ge16 (buf : Go.Bytes) (hb : buf.size < 2 ^ 63) :
    (decide (Go.len buf ≥ (16 : Int64)) = true) ↔ 16 ≤ buf.size := by
  simp only [decide_eq_true_eq, ge_iff_le, Int64.le_iff_toInt_le, len_toInt buf hb, i64_16]
  omega

theorem Decompose_fin (d : Decimal) (buf : Go.Bytes) (hb : buf.size < 2 ^ 63)
    (hs : Decimal.isSpecial d = false) :
    ∃ bytes e, Gen.Decimal.Decompose d buf = .ok (0, Decimal.Signbit d, bytes, e) ∧
      ((Decimal.decompose d).1.toNat = 0 → bytes = #[] ∧ e = 0) ∧
      ((Decimal.decompose d).1.toNat ≠ 0 →
        Spec.beNat bytes = (Decimal.decompose d).1.toNat ∧ bytes.toList.getD 0 0 ≠ 0 ∧
        1 ≤ bytes.size ∧ bytes.size ≤ 16 ∧ e.toInt = (Decimal.decompose d).2.toInt - 6176) := by
  have hsp := hs
  rw [Enc.isSpecial_iff, Bool.or_eq_false_iff] at hsp
  rw [Decompose_eq]; unfold decStaged
  rw [if_neg (by rw [hsp.1]; decide), if_neg (by rw [hsp.2]; decide)]
  rcases hdec : Decimal.decompose d with ⟨s, e⟩
  simp only []
  by_cases hz : ((s.w0 ||| s.w1) == (0 : UInt64)) = true
  · rw [if_pos hz]
    have h0 := (IntConvPf.sig_zero_iff s).1 hz
    exact ⟨#[], 0, rfl, fun _ => ⟨rfl, rfl⟩, fun h => absurd h0 h⟩
  · rw [if_neg hz]
    have hn0 : s.toNat ≠ 0 := fun h => hz ((IntConvPf.sig_zero_iff s).2 h)
    have key : ∀ sig : Go.Bytes, sig.size = 16 →
        ∃ bytes e32, dec16 d s e sig = .ok (0, Decimal.Signbit d, bytes, e32) ∧
          (s.toNat = 0 → bytes = #[] ∧ e32 = 0) ∧
          (s.toNat ≠ 0 → Spec.beNat bytes = s.toNat ∧ bytes.toList.getD 0 0 ≠ 0 ∧
            1 ≤ bytes.size ∧ bytes.size ≤ 16 ∧ e32.toInt = e.toInt - 6176) := by
      intro sig hsig
      have hB : Spec.beNat (bytes16 s) = s.toNat := by rw [beNat_eq]; exact beL_bytes16 s
      have hBs : (bytes16 s).size = 16 := rfl
      obtain ⟨i, t, hi, ht, hbe, hhd, h1, h16⟩ := strip (bytes16 s) (by rw [hBs]; norm_num)
        (by rw [hB]; exact hn0)
      rw [dec16_eq d s e sig hsig, hi, D128.Proofs.WordsWide.ok_bind, ht,
        D128.Proofs.WordsWide.ok_bind]
      refine ⟨t, _, rfl, fun h => absurd h hn0, fun _ => ⟨by rw [hbe, hB], hhd, h1, by omega, ?_⟩⟩
      have hl := e.le_toInt
      have hu := e.toInt_lt
      rw [i32_sub _ _ (by rw [conv_i16_i32, i32_6176]; simp only [Int.reducePow] at *; omega)
        (by rw [conv_i16_i32, i32_6176]; simp only [Int.reducePow] at *; omega), conv_i16_i32, i32_6176]
    by_cases hlen : decide (Go.len buf ≥ (16 : Int64)) = true
    · rw [if_pos hlen]
      have h16 := (len_ge16 buf hb).1 hlen
      have hsl : Go.bslice buf (0 : Int) (16 : Int) = .ok (buf.extract 0 16) := by
        unfold Go.bslice
        rw [if_pos ⟨by decide, by decide, by simpa using h16⟩]
        rfl
      rw [hsl, D128.Proofs.WordsWide.ok_bind]
      exact key _ (by rw [Array.size_extract]; omega)
    · rw [if_neg hlen]
      exact key _ (by rw [Array.size_replicate]; rfl)

end CS
