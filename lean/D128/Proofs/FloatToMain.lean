/-
  D128/Proofs/FloatToMain.lean — `Gen.Decimal.Float64` / `Float32`: totality, result by operand class, and the
  error bound of the pair `(w, E)` that the main path hands to `float64(·)` / `math.Ldexp`.
  (`𝔳[d] = Spec.interp d.lo d.hi`.)

  Provided (namespace `F2`):
  * `epilogue_eq`     : normalisation loop + `exp += 192` + top word, for non-zero `sig256`
  * `NearBelow v w E` : `2^63 ≤ w < 2^64 ∧ w·2^E ≤ v ∧ v·(1 - 2^-111) < (w+1)·2^E`
  * `near_of_norm`, `budget_neg`, `budget_pos`
  * `negPath_eq`, `posPath_eq`, `finitePath_spec` : the scaling paths end in `result neg w E` with
                        `NearBelow (c·10^x) w E`
  * `early_zero_small` : `c ≤ Cmax`, `x < -358` ⇒ `c·10^x < 2^-1075` (half the smallest subnormal)
  * `early_inf_big`    : `1 ≤ c`, `x > 308` ⇒ `2^1024 ≤ c·10^x`
  * `NearBelow.rel`    : `0 ≤ v - w·2^E < (2^-63 + 2^-111)·v`   (so `|w·2^E - v| < 2^-62·v`)
  * `Float64_nan`, `Float64_inf`, `Float64_zero'`, `Float64_fin` : `Gen.Decimal.Float64 d` for `𝔳[d]` NaN, ±Inf,
                        ±0, finite non-zero
  * `Float64_pair`      : main path: `2^63 ≤ w`, `0 ≤ |d| - w·2^E < (2^-63 + 2^-111)·|d|`
  * `Float64_total`, `Float32_total`, `Float32_of_Float64`
-/
import D128.Proofs.FloatToLoops
import D128.Proofs.Encoding
import D128.Proofs.Specials
import D128.Proofs.RoundKernelSpec
import Mathlib.Tactic.Ring
import Mathlib.Tactic.Linarith
import Mathlib.Tactic.NormNum
import Mathlib.Tactic.Positivity
import Mathlib.Tactic.FieldSimp

set_option autoImplicit false
set_option maxRecDepth 8192
set_option linter.unusedVariables false

namespace F2
open Gen D128.Proofs.WordsWide

/-! ## the epilogue -/

/-- normalisation, `exp += 192`, top word: for non-zero `sig256` the epilogue hands
    `(w, E) = (⌊S·2^n / 2^192⌋, exp - n + 192)` with `2^255 ≤ S·2^n < 2^256` to `result` -/
theorem epilogue_eq (neg : Bool) (E : Int16) (S : U256) (hS : S.toNat ≠ 0) (hE0 : -20000 ≤ E.toInt)
    (hE1 : E.toInt ≤ 20000) :
    ∃ (w : UInt64) (E' : Int16) (n : Nat), epilogue neg E S = .ok (result neg w E') ∧
      2 ^ 255 ≤ S.toNat * 2 ^ n ∧ S.toNat * 2 ^ n < 2 ^ 256 ∧
      w.toNat = S.toNat * 2 ^ n / 2 ^ 192 ∧ E'.toInt = E.toInt - n + 192 := by
  obtain ⟨s', n, e, h1, h2, h3⟩ := normLoop (E, S, Go.bits.LeadingZeros64 S.w3) hS hE0 rfl
  have h1 : s'.2.1.toNat = S.toNat * 2 ^ n := h1
  have h2 : s'.1.toInt = E.toInt - n := h2
  have hlt := U256.toNat_lt s'.2.1
  have hn : n < 256 := pow_lt_256 _ _ hS (by rw [← h1]; exact hlt)
  refine ⟨s'.2.1.w3, s'.1 + 192, n, ?_, ?_, ?_, ?_, ?_⟩
  · simp only [epilogue, e]; rfl
  · rw [← h1]; exact h3
  · rw [← h1]; exact hlt
  · rw [U256.w3_toNat, h1]
  · have h192 : (192 : Int16).toInt = 192 := by decide
    show (s'.1 + 192).toInt = _
    rw [Int16.toInt_add_of] <;> rw [h192, h2] <;> show _ <;> omega

/-! ## the pair handed to `float64(·)` / `math.Ldexp` -/

/-- `(w, E)` is a normalised 64-bit approximation of `v` from below: `w·2^E ≤ v` and
    `v·(1 - 2^-111) < (w+1)·2^E` -/
def NearBelow (v : ℚ) (w : Nat) (E : Int) : Prop :=
  2 ^ 63 ≤ w ∧ w < 2 ^ 64 ∧ (w : ℚ) * 2 ^ E ≤ v ∧ v * (1 - 1 / 2 ^ 111) < ((w : ℚ) + 1) * 2 ^ E

/-- the top word of a normalised `S·2^n` approximates whatever `S·2^E` approximates -/
theorem near_of_norm (v : ℚ) (S n : Nat) (E : Int) (hlow : (S : ℚ) * 2 ^ E ≤ v)
    (hup : v * (1 - 1 / 2 ^ 111) ≤ (S : ℚ) * 2 ^ E) (h255 : 2 ^ 255 ≤ S * 2 ^ n)
    (h256 : S * 2 ^ n < 2 ^ 256) : NearBelow v (S * 2 ^ n / 2 ^ 192) (E - n + 192) := by
  have hz1 : (2 : ℚ) ^ (E - n + 192) = 2 ^ (E - n) * 2 ^ (192 : ℕ) := by
    rw [zpow_add₀ (by norm_num)]; norm_cast
  have hz2 : (2 : ℚ) ^ E = 2 ^ (E - n) * 2 ^ (n : ℕ) := by
    rw [← zpow_natCast, ← zpow_add₀ (by norm_num)]; congr 1; ring
  have ht : (0 : ℚ) < 2 ^ (E - n) := zpow_pos (by norm_num) _
  generalize hw : S * 2 ^ n / 2 ^ 192 = w
  have hw1 : w * 2 ^ 192 ≤ S * 2 ^ n := by rw [← hw]; exact Nat.div_mul_le_self _ _
  have hw2 : S * 2 ^ n < (w + 1) * 2 ^ 192 := by
    rw [← hw]; exact Nat.lt_mul_of_div_lt (Nat.lt_succ_self _) (by norm_num)
  have hw1q : (w : ℚ) * 2 ^ (192 : ℕ) ≤ (S : ℚ) * 2 ^ (n : ℕ) := by exact_mod_cast hw1
  have hw2q : (S : ℚ) * 2 ^ (n : ℕ) < ((w : ℚ) + 1) * 2 ^ (192 : ℕ) := by exact_mod_cast hw2
  refine ⟨by omega, by omega, ?_, ?_⟩
  · rw [hz1]
    rw [hz2] at hlow
    have : (w : ℚ) * (2 ^ (E - n) * 2 ^ (192 : ℕ)) ≤ (S : ℚ) * (2 ^ (E - n) * 2 ^ (n : ℕ)) := by
      have := mul_le_mul_of_nonneg_left hw1q ht.le
      linarith
    linarith
  · rw [hz1]
    rw [hz2] at hup
    have : (S : ℚ) * (2 ^ (E - n) * 2 ^ (n : ℕ)) < ((w : ℚ) + 1) * (2 ^ (E - n) * 2 ^ (192 : ℕ)) := by
      have := mul_lt_mul_of_pos_left hw2q ht
      linarith
    linarith

/-- relative error `k·2^-120` (`k ≤ 400`) is below `2^-111` -/
theorem budget_neg (D N : ℚ) (k : Nat) (hD : 0 ≤ D) (hk : k ≤ 400)
    (h : D * 2 ^ 120 ≤ N * 2 ^ 120 + k * D) : D * (1 - 1 / 2 ^ 111) ≤ N := by
  have hkq : (k : ℚ) ≤ 400 := by exact_mod_cast hk
  have : (k : ℚ) * D ≤ 400 * D := mul_le_mul_of_nonneg_right hkq hD
  have e : D * (1 - 1 / 2 ^ 111) = (D * 2 ^ 120 - 512 * D) / 2 ^ 120 := by
    rw [eq_div_iff (by positivity)]; ring
  rw [e, div_le_iff₀ (by positivity)]
  linarith

/-- relative error `i·2^-240` (`i ≤ 400`) is below `2^-111` -/
theorem budget_pos (D N : ℚ) (i : Nat) (hD : 0 ≤ D) (hi : i ≤ 400)
    (h : D * 2 ^ 240 ≤ N * 2 ^ 240 + i * D) : D * (1 - 1 / 2 ^ 111) ≤ N := by
  have hiq : (i : ℚ) ≤ 400 := by exact_mod_cast hi
  have : (i : ℚ) * D ≤ 400 * D := mul_le_mul_of_nonneg_right hiq hD
  have e : D * (1 - 1 / 2 ^ 111) = (D * 2 ^ 240 - 2 ^ 129 * D) / 2 ^ 240 := by
    rw [eq_div_iff (by positivity)]; ring
  rw [e, div_le_iff₀ (by positivity)]
  have : (400 : ℚ) * D ≤ 2 ^ 129 * D := mul_le_mul_of_nonneg_right (by norm_num) hD
  linarith

/-! ## the two scaling paths -/

/-- negative decimal exponent `-k`: the pair handed to `result` approximates `c / 10^k` -/
theorem negPath_eq (neg : Bool) (sig : U128) (shift : Int64) (k : Nat) (hc : 1 ≤ sig.toNat)
    (hk : shift.toInt = k) (hk' : k ≤ 400) :
    ∃ (w : UInt64) (E : Int16), negPath neg sig shift = .ok (result neg w E) ∧
      NearBelow ((sig.toNat : ℚ) * 10 ^ (-(k : Int))) w.toNat E.toInt := by
  have hS : ({ w0 := 0, w1 := 0, w2 := sig.w0, w3 := sig.w1 } : U256).toNat = sig.toNat * 2 ^ 128 := by
    simp only [U256.toNat, U128.toNat, UInt64.toNat_zero]; ring
  obtain ⟨s', e, el, h1, h2, h3, h4, h5⟩ :=
    negLoop ((-128 : Int16), ({ w0 := 0, w1 := 0, w2 := sig.w0, w3 := sig.w1 } : U256), shift)
      sig.toNat k hc hk hk' (by show (-128 : Int16).toInt = -128; decide) hS
  obtain ⟨w, E', n, ee, g1, g2, g3, g4⟩ := epilogue_eq neg s'.1 s'.2.1 (by omega) (by omega) (by omega)
  refine ⟨w, E', ?_, ?_⟩
  · simp only [negPath, el]; exact ee
  · rw [g3, g4, h1]
    set c := sig.toNat
    set S := s'.2.1.toNat
    have hp : (0 : ℚ) < 2 ^ e * 10 ^ k := by positivity
    have e1 : (S : ℚ) * 2 ^ (-(e : Int)) = (S : ℚ) * 10 ^ k / (2 ^ e * 10 ^ k) := by
      rw [zpow_neg, zpow_natCast]; field_simp
    have e2 : (c : ℚ) * 10 ^ (-(k : Int)) = (c : ℚ) * 2 ^ e / (2 ^ e * 10 ^ k) := by
      rw [zpow_neg, zpow_natCast]; field_simp
    have h4q : (S : ℚ) * 10 ^ k ≤ (c : ℚ) * 2 ^ e := by exact_mod_cast h4
    have h5q : (c : ℚ) * 2 ^ e * 2 ^ 120 ≤ (S : ℚ) * 10 ^ k * 2 ^ 120 + k * ((c : ℚ) * 2 ^ e) := by
      exact_mod_cast h5
    apply near_of_norm _ _ _ _ _ _ g1 g2
    · rw [e1, e2]; exact div_le_div_of_nonneg_right h4q hp.le
    · rw [e1, e2, div_mul_eq_mul_div]
      apply div_le_div_of_nonneg_right _ hp.le
      exact budget_neg _ _ k (by positivity) hk' h5q

/-- non-negative decimal exponent `k`: the pair handed to `result` approximates `c · 10^k` -/
theorem posPath_eq (neg : Bool) (sig : U128) (shift : Int64) (k : Nat) (hc : 1 ≤ sig.toNat)
    (hk : shift.toInt = k) (hk' : k ≤ 400) :
    ∃ (w : UInt64) (E : Int16), posPath neg sig shift = .ok (result neg w E) ∧
      NearBelow ((sig.toNat : ℚ) * 10 ^ (k : Int)) w.toNat E.toInt := by
  have hS : ({ w0 := sig.w0, w1 := sig.w1, w2 := 0, w3 := 0 } : U256).toNat = sig.toNat := by
    simp only [U256.toNat, U128.toNat, UInt64.toNat_zero]; ring
  obtain ⟨s1, m1, el1, a1, a2, a3⟩ :=
    mul19Loop (({ w0 := sig.w0, w1 := sig.w1, w2 := 0, w3 := 0 } : U256), shift) (by show 0 ≤ shift.toInt; omega)
  obtain ⟨s2, m2, el2, b1, b2, b3, b4, -⟩ := mul10Loop (s1.1, s1.2) a3
  have a1 : s1.1.toNat = sig.toNat * 10 ^ m1 := by rw [a1]; show ({ w0 := sig.w0, w1 := sig.w1, w2 := 0, w3 := 0 } : U256).toNat * _ = _; rw [hS]
  have a2 : s1.2.toInt = k - m1 := by rw [a2]; show shift.toInt - _ = _; rw [hk]
  have b1 : s2.1.toNat = sig.toNat * 10 ^ m1 * 10 ^ m2 := by rw [b1]; show s1.1.toNat * _ = _; rw [a1]
  have b2 : s2.2.toInt = k - m1 - m2 := by rw [b2]; show s1.2.toInt - _ = _; rw [a2]
  have hm : m1 + m2 ≤ k := by omega
  have hk2 : k - m1 - m2 ≤ 1000 := by omega
  have hexp : k = m1 + (m2 + (k - m1 - m2)) := by omega
  have hk3 : s2.2.toInt = ((k - m1 - m2 : Nat) : Int) := by rw [b2]; omega
  have hw4 : k - m1 - m2 = 0 ∨ 1801439850948198399 < s2.1.w3.toNat := by
    rcases b4 with h | h
    · left; omega
    · right; exact h
  set c := sig.toNat
  have hV : c * 10 ^ k = s2.1.toNat * 10 ^ (k - m1 - m2) := by
    rw [b1, Nat.mul_assoc, Nat.mul_assoc, ← Nat.pow_add, ← Nat.pow_add, ← hexp]
  obtain ⟨s3, i, el3, c1, c2, c3, c4⟩ := rshLoop ((0 : Int16), s2.1, s2.2) (c * 10 ^ k) (k - m1 - m2)
    hk3 hk2 (by show (0 : Int16).toInt = 0; decide) hV hw4
  have hVpos : 0 < c * 10 ^ k := Nat.mul_pos hc (Nat.pow_pos (by norm_num))
  have hS3 : s3.2.1.toNat ≠ 0 := by
    intro h0
    rw [h0] at c4
    simp only [Nat.zero_mul, Nat.zero_add] at c4
    have c4' : c * 10 ^ k * 2 ^ 240 ≤ c * 10 ^ k * i := by rw [Nat.mul_comm _ i]; exact c4
    have : 2 ^ 240 ≤ i := Nat.le_of_mul_le_mul_left c4' hVpos
    have : (1000 : Nat) < 2 ^ 240 := by norm_num
    omega
  obtain ⟨w, E', n, ee, g1, g2, g3, g4⟩ := epilogue_eq neg s3.1 s3.2.1 hS3 (by omega) (by omega)
  refine ⟨w, E', ?_, ?_⟩
  · simp only [posPath, el1, bind, Except.bind, el2, el3]; exact ee
  · rw [g3, g4, c1]
    set S := s3.2.1.toNat
    have e1 : (S : ℚ) * 2 ^ ((4 : Int) * (i : Int)) = ((S * 2 ^ (4 * i) : Nat) : ℚ) := by
      push_cast; rw [← zpow_natCast]; norm_num
    have e2 : (c : ℚ) * 10 ^ (k : Int) = ((c * 10 ^ k : Nat) : ℚ) := by
      push_cast; rw [zpow_natCast]
    have c4q : ((c * 10 ^ k : Nat) : ℚ) * 2 ^ 240 ≤ ((S * 2 ^ (4 * i) : Nat) : ℚ) * 2 ^ 240 + i * ((c * 10 ^ k : Nat) : ℚ) := by
      exact_mod_cast c4
    apply near_of_norm _ _ _ _ _ _ g1 g2
    · rw [e1, e2]; exact_mod_cast c3
    · rw [e1, e2]
      exact budget_pos _ _ i (by positivity) (by omega) c4q

/-! ## the finite path -/

theorem i64_neg1 (a : Int64) (h0 : -1000 ≤ a.toInt) (h1 : a.toInt ≤ 1000) : (a * -1).toInt = -a.toInt := by
  have hs : Int64.size = 18446744073709551616 := rfl
  have hm : (-1 : Int64).toInt = -1 := by decide
  rw [Int64.toInt_mul, hm]
  have : a.toInt * -1 = -a.toInt := by ring
  rw [this]
  apply Int.bmod_eq_of_le <;> omega

/-- `Float64` of a finite non-zero decimal `±c·10^x` (`x = exp - 6176`): the two early-outs, and otherwise the
    pair `(w, E)` handed to `float64(·)`/`Ldexp` approximates `c·10^x` from below -/
theorem finitePath_spec (neg : Bool) (sig : U128) (exp : Int16) (hc : 1 ≤ sig.toNat)
    (h0 : 0 ≤ exp.toInt) (h1 : exp.toInt ≤ 12287) :
    (exp.toInt - 6176 < -358 → finitePath neg sig exp = .ok (zeroRes neg)) ∧
    (308 < exp.toInt - 6176 → finitePath neg sig exp = .ok (infRes neg)) ∧
    (-358 ≤ exp.toInt - 6176 → exp.toInt - 6176 ≤ 308 →
      ∃ (w : UInt64) (E : Int16), finitePath neg sig exp = .ok (result neg w E) ∧
        NearBelow ((sig.toNat : ℚ) * 10 ^ (exp.toInt - 6176)) w.toNat E.toInt) := by
  have h6176 : (6176 : Int16).toInt = 6176 := by decide
  have hx : (exp - 6176).toInt = exp.toInt - 6176 := by
    rw [Int16.toInt_sub_of] <;> rw [h6176] <;> omega
  have hm358 : (-358 : Int16).toInt = -358 := by decide
  have h308 : (308 : Int16).toInt = 308 := by decide
  have h064 : (0 : Int64).toInt = 0 := by decide
  have hcx : (Go.conv (exp - 6176) : Int64).toInt = exp.toInt - 6176 := by rw [i16_conv_i64, hx]
  refine ⟨fun h => ?_, fun h => ?_, fun ha hb => ?_⟩
  · have c1 : decide (exp - 6176 < -358) = true := by
      rw [i16_lt, hx, hm358]; simpa using h
    simp only [finitePath, c1, if_true]; rfl
  · have c1 : decide (exp - 6176 < -358) = false := by
      rw [i16_lt, hx, hm358]; simp only [decide_eq_false_iff_not]; omega
    have c2 : decide (exp - 6176 > 308) = true := by
      rw [i16_gt, hx, h308]; simpa using h
    simp only [finitePath, c1, c2, if_true, Bool.false_eq_true, if_false]; rfl
  · have c1 : decide (exp - 6176 < -358) = false := by
      rw [i16_lt, hx, hm358]; simp only [decide_eq_false_iff_not]; omega
    have c2 : decide (exp - 6176 > 308) = false := by
      rw [i16_gt, hx, h308]; simp only [decide_eq_false_iff_not]; omega
    by_cases hneg : exp.toInt - 6176 < 0
    · have c3 : decide ((Go.conv (exp - 6176) : Int64) < 0) = true := by
        rw [i64_lt, hcx, h064]; simpa using hneg
      obtain ⟨k, hk⟩ : ∃ k : Nat, (k : Int) = -(exp.toInt - 6176) := ⟨(-(exp.toInt - 6176)).toNat, by omega⟩
      have hsh : ((Go.conv (exp - 6176) : Int64) * -1).toInt = k := by
        rw [i64_neg1] <;> rw [hcx] <;> omega
      obtain ⟨w, E, e, hn⟩ := negPath_eq neg sig _ k hc hsh (by omega)
      refine ⟨w, E, ?_, ?_⟩
      · simp only [finitePath, c1, c2, c3, if_true, Bool.false_eq_true, if_false]; exact e
      · have : exp.toInt - 6176 = -(k : Int) := by omega
        rw [this]; exact hn
    · have c3 : decide ((Go.conv (exp - 6176) : Int64) < 0) = false := by
        rw [i64_lt, hcx, h064]; simp only [decide_eq_false_iff_not]; exact hneg
      obtain ⟨k, hk⟩ : ∃ k : Nat, (k : Int) = exp.toInt - 6176 := ⟨(exp.toInt - 6176).toNat, by omega⟩
      have hsh : (Go.conv (exp - 6176) : Int64).toInt = k := by rw [hcx]; omega
      obtain ⟨w, E, e, hn⟩ := posPath_eq neg sig _ k hc hsh (by omega)
      refine ⟨w, E, ?_, ?_⟩
      · simp only [finitePath, c1, c2, c3, Bool.false_eq_true, if_false]; exact e
      · rw [← hk]; exact hn

/-! ## the early-outs are right, and the relative error of the pair -/

set_option exponentiation.threshold 2000 in
/-- below the first early-out the value is under half the smallest subnormal, `2^-1075` -/
theorem early_zero_small (c : Nat) (x : Int) (hc : c ≤ Spec.Cmax) (hx : x < -358) :
    (c : ℚ) * 10 ^ x < 1 / 2 ^ 1075 := by
  have h1 : (10 : ℚ) ^ x ≤ 10 ^ (-359 : Int) := zpow_le_zpow_right₀ (by norm_num) (by omega)
  have h2 : (c : ℚ) ≤ (Spec.Cmax : ℚ) := by exact_mod_cast hc
  have h0 : (0 : ℚ) ≤ 10 ^ x := zpow_nonneg (by norm_num) _
  have h3 : (c : ℚ) * 10 ^ x ≤ (Spec.Cmax : ℚ) * 10 ^ (-359 : Int) :=
    mul_le_mul h2 h1 h0 (by positivity)
  have e : (10 : ℚ) ^ (-359 : Int) = 1 / 10 ^ 359 := by
    rw [zpow_neg, one_div]; norm_cast
  have h4 : (Spec.Cmax : ℚ) * (1 / 10 ^ 359) < 1 / 2 ^ 1075 := by
    rw [mul_one_div, div_lt_div_iff₀ (by positivity) (by positivity)]
    norm_num [Spec.Cmax]
  rw [e] at h3
  linarith

set_option exponentiation.threshold 2000 in
/-- above the second early-out the value is at least `2^1024` -/
theorem early_inf_big (c : Nat) (x : Int) (hc : 1 ≤ c) (hx : 308 < x) :
    (2 : ℚ) ^ 1024 ≤ (c : ℚ) * 10 ^ x := by
  have h1 : (10 : ℚ) ^ (309 : Int) ≤ 10 ^ x := zpow_le_zpow_right₀ (by norm_num) (by omega)
  have h2 : (1 : ℚ) ≤ (c : ℚ) := by exact_mod_cast hc
  have h0 : (0 : ℚ) ≤ 10 ^ (309 : Int) := zpow_nonneg (by norm_num) _
  have h3 : (1 : ℚ) * 10 ^ (309 : Int) ≤ (c : ℚ) * 10 ^ x :=
    mul_le_mul h2 h1 h0 (by positivity)
  have e : (10 : ℚ) ^ (309 : Int) = 10 ^ 309 := by norm_cast
  have h4 : (2 : ℚ) ^ 1024 ≤ 10 ^ 309 := by norm_num
  rw [e] at h3
  linarith

/-- the pair is within `2^-63 + 2^-111 < 2^-62` (relative) below the value -/
theorem NearBelow.rel {v : ℚ} {w : Nat} {E : Int} (h : NearBelow v w E) (hv : 0 < v) :
    0 ≤ v - (w : ℚ) * 2 ^ E ∧ v - (w : ℚ) * 2 ^ E < (1 / 2 ^ 63 + 1 / 2 ^ 111) * v := by
  obtain ⟨h1, h2, h3, h4⟩ := h
  have ht : (0 : ℚ) < 2 ^ E := zpow_pos (by norm_num) _
  have hw : (2 : ℚ) ^ 63 ≤ (w : ℚ) := by exact_mod_cast h1
  have h5 : (2 : ℚ) ^ 63 * 2 ^ E ≤ v := le_trans (mul_le_mul_of_nonneg_right hw ht.le) h3
  constructor
  · linarith
  · have : (2 : ℚ) ^ E ≤ 1 / 2 ^ 63 * v := by
      rw [div_mul_eq_mul_div, one_mul, le_div_iff₀ (by positivity)]; linarith
    nlinarith

/-! ## `Gen.Decimal.Float64` by operand class -/

local notation "𝔳[" d "]" => Spec.interp (Gen.Decimal.lo d) (Gen.Decimal.hi d)

/-- NaN ↦ `math.NaN()` -/
theorem Float64_nan (d : Decimal) (n : Bool) (p : UInt64) (h : 𝔳[d] = .nan n p) :
    Decimal.Float64 d = .ok Go.math.NaN := by
  rcases Sp.view d with ⟨h1, h2, h3, h4, hv⟩ | ⟨h1, h2, h3, h4, hv⟩ | ⟨h1, h2, h3, h4, h5, hc, hv⟩ |
    ⟨h1, h2, h3, h4, h5, hc, hb, hv⟩ <;> rw [hv] at h <;> try cases h
  rw [Float64_special d h3, if_pos h1]

/-- ±Inf ↦ ±Inf -/
theorem Float64_inf (d : Decimal) (n : Bool) (h : 𝔳[d] = .inf n) :
    Decimal.Float64 d = .ok (infRes n) := by
  rcases Sp.view d with ⟨h1, h2, h3, h4, hv⟩ | ⟨h1, h2, h3, h4, hv⟩ | ⟨h1, h2, h3, h4, h5, hc, hv⟩ |
    ⟨h1, h2, h3, h4, h5, hc, hb, hv⟩ <;> rw [hv] at h <;> try cases h
  rw [Float64_special d h3, if_neg (by simp [h1])]

/-- ±0 ↦ ±0 (any exponent) -/
theorem Float64_zero' (d : Decimal) (n : Bool) (x : Int) (h : 𝔳[d] = .fin n 0 x) :
    Decimal.Float64 d = .ok (zeroRes n) := by
  rcases Sp.view d with ⟨h1, h2, h3, h4, hv⟩ | ⟨h1, h2, h3, h4, hv⟩ | ⟨h1, h2, h3, h4, h5, hc, hv⟩ |
    ⟨h1, h2, h3, h4, h5, hc, hb, hv⟩ <;> rw [hv] at h <;> try cases h
  · rw [Float64_zero d h3 h5]
  · injection h with _ h0 _; exact absurd h0 hc

/-- finite non-zero `±c·10^x`: `±0` for `x < -358`, `±Inf` for `x > 308`, otherwise
    `result n w E = ±Ldexp(float64(w), E)` for a normalised pair `(w, E)` with `w·2^E ≤ c·10^x` and
    `c·10^x·(1 - 2^-111) < (w+1)·2^E` -/
theorem Float64_fin (d : Decimal) (n : Bool) (c : Nat) (x : Int) (h : 𝔳[d] = .fin n c x) (hc0 : c ≠ 0) :
    (x < -358 → Decimal.Float64 d = .ok (zeroRes n)) ∧
    (308 < x → Decimal.Float64 d = .ok (infRes n)) ∧
    (-358 ≤ x → x ≤ 308 → ∃ (w : UInt64) (E : Int16), Decimal.Float64 d = .ok (result n w E) ∧
        NearBelow ((c : ℚ) * 10 ^ x) w.toNat E.toInt) := by
  rcases Sp.view d with ⟨h1, h2, h3, h4, hv⟩ | ⟨h1, h2, h3, h4, hv⟩ | ⟨h1, h2, h3, h4, h5, hc, hv⟩ |
    ⟨h1, h2, h3, h4, h5, hc, hb, hv⟩ <;> rw [hv] at h <;> try cases h
  · exact absurd rfl hc0
  · rw [Float64_eq d h3 h5]
    exact finitePath_spec _ _ _ (Nat.pos_of_ne_zero hc) (Enc.decompose_exp_nonneg d) (Enc.decompose_exp_le d h3)

/-- the pair `(w, E)` handed to `float64(·)` / `math.Ldexp` on the main path: `2^63 ≤ w`, and `w·2^E` is below `|d|`
    by less than `(2^-63 + 2^-111)·|d|` (in particular `|w·2^E - |d|| < 2^-62·|d|`) -/
theorem Float64_pair (d : Decimal) (n : Bool) (c : Nat) (x : Int) (h : 𝔳[d] = .fin n c x) (hc0 : c ≠ 0)
    (h1 : -358 ≤ x) (h2 : x ≤ 308) :
    ∃ (w : UInt64) (E : Int16), Decimal.Float64 d = .ok (result n w E) ∧ 2 ^ 63 ≤ w.toNat ∧
      0 ≤ (c : ℚ) * 10 ^ x - (w.toNat : ℚ) * 2 ^ E.toInt ∧
      (c : ℚ) * 10 ^ x - (w.toNat : ℚ) * 2 ^ E.toInt < (1 / 2 ^ 63 + 1 / 2 ^ 111) * ((c : ℚ) * 10 ^ x) := by
  obtain ⟨w, E, e, hn⟩ := (Float64_fin d n c x h hc0).2.2 h1 h2
  have hv : (0 : ℚ) < (c : ℚ) * 10 ^ x :=
    mul_pos (by exact_mod_cast Nat.pos_of_ne_zero hc0) (zpow_pos (by norm_num) _)
  exact ⟨w, E, e, hn.1, (hn.rel hv).1, (hn.rel hv).2⟩

/-- `0.1000000000000000055511151231257827` takes the main path -/
example : ∃ (w : UInt64) (E : Int16),
    Decimal.Float64 ⟨4145161186368179427, 3457692824022322579⟩ = .ok (result false w E) ∧
      NearBelow (((1000000000000000055511151231257827 : ℕ) : ℚ) * 10 ^ (-34 : ℤ)) w.toNat E.toInt :=
  (Float64_fin _ _ _ _ (by decide) (by decide)).2.2 (by norm_num) (by norm_num)

/-- `1e-400` (biased exponent 5776) takes the first early-out, `-1e400` (biased exponent 6576) the second -/
example : Decimal.Float64 ⟨1, 3251598930961498112⟩ = .ok (zeroRes false) :=
  (Float64_fin _ false 1 (-400) (by decide) (by decide)).1 (by norm_num)
example : Decimal.Float64 ⟨1, 12925330930553323520⟩ = .ok (infRes true) :=
  (Float64_fin _ true 1 400 (by decide) (by decide)).2.1 (by norm_num)

/-- `Float64` never panics and all its loops terminate -/
theorem Float64_total (d : Decimal) : ∃ r, Decimal.Float64 d = .ok r := by
  rcases Sp.view d with ⟨h1, h2, h3, h4, hv⟩ | ⟨h1, h2, h3, h4, hv⟩ | ⟨h1, h2, h3, h4, h5, hc, hv⟩ |
    ⟨h1, h2, h3, h4, h5, hc, hb, hv⟩
  · exact ⟨_, Float64_nan d _ _ hv⟩
  · exact ⟨_, Float64_inf d _ hv⟩
  · exact ⟨_, Float64_zero d h3 h5⟩
  · obtain ⟨a, b, c⟩ := Float64_fin d _ _ _ hv hc
    by_cases hx : Sp.ex d < -358
    · exact ⟨_, a hx⟩
    · by_cases hy : 308 < Sp.ex d
      · exact ⟨_, b hy⟩
      · obtain ⟨w, E, e, _⟩ := c (by omega) (by omega)
        exact ⟨_, e⟩

/-- `Float32` never panics and terminates: it is `float32(d.Float64())` -/
theorem Float32_total (d : Decimal) : ∃ r, Decimal.Float32 d = .ok r := by
  obtain ⟨r, h⟩ := Float64_total d
  exact ⟨Go.F64.toF32 r, by rw [Float32_eq, h]; rfl⟩

theorem Float32_of_Float64 (d : Decimal) (r : Go.F64) (h : Decimal.Float64 d = .ok r) :
    Decimal.Float32 d = .ok (Go.F64.toF32 r) := by
  rw [Float32_eq, h]; rfl

end F2
