/-
  D128/Proofs/NeverNaNExp.lean — property C15, clause "never yields NaN from finite operands": the
  exponential functions, for ALL bit patterns and EVERY value of `DefaultRoundingMode` (invalid mode bytes
  included).  A structural argument over the generated code: the result of the general path is
  `zero`/`inf`/`compose false sig exp` where `(sig, exp)` comes from `reduce192`, which returns `0 ≤ exp`
  (`PowPf.reduce192_range`) when entered with a non-zero significand and an exponent that did not wrap; the
  working value handed to it is a result of `epow` (non-zero, `-58 ≤ exp ≤ 6169`: `NN.epow_exp_lb`) or the
  reciprocal of one (`NN.rcp_range`).  No accuracy analysis is involved.

  Provided (namespace `NN`):
  * `tail_not_nan`, `tail_not_nan'` : `reduce192` + overflow test + `compose`: the result is not a NaN
  * `Exp_fin_not_nan`    : finite non-zero `d`: no result of `Gen.Exp g d` is a NaN
  * `Expm1_fin_not_nan`  : the same for `Gen.Expm1` (`epowm1` returns a non-zero significand or a flag in {0,1})
  * `NoInvalid`, `table_noInvalid`, `table_some`, `noInvalid_special_isNaN` : the special-operand table of
                           `Exp`, `Exp2`, `Exp10`, `Expm1`, `Cbrt` prescribes a NaN only for a NaN
  * `Exp_isNaN`, `Expm1_isNaN` : every `d`, every `g`: the call returns, and the result is a NaN iff `d` is
-/
import D128.Proofs.NeverNaNEpow
import D128.Proofs.NeverNaNArith
import D128.Proofs.TotalElem
set_option autoImplicit false
set_option maxRecDepth 8192
set_option linter.unusedVariables false

namespace NN
open Gen PowPf

local notation "𝔳[" d "]" => Spec.interp (Gen.Decimal.lo d) (Gen.Decimal.hi d)

/-- the common last stage of the elementary functions: `reduce192`, the overflow test (returning any
    non-NaN constant `alt`) and `compose` -/
theorem tail_not_nan (rm : UInt8) (neg sgn : Bool) (res : decomposed192) (trunc : Int8) (alt : Decimal)
    (halt : Decimal.IsNaN alt = false)
    (hJ : res.sig.toNat ≠ 0 ∨ trunc ≠ -1) (hE : res.exp.toInt ≤ 13824) (r : Decimal)
    (h : (do
      let x ← RoundingMode.reduce192 rm neg res.sig (res.exp + 6176) trunc
      if decide (x.2 > 12287) = true then pure alt else pure (compose sgn x.1 x.2)) = Except.ok r) :
    Decimal.IsNaN r = false := by
  have e6 : (6176 : Int16).toInt = 6176 := by decide
  have hlo := res.exp.le_toInt
  have hexp : (res.exp + 6176).toInt = res.exp.toInt + 6176 := by
    rw [Int16.toInt_add_of] <;> rw [e6] <;> omega
  obtain ⟨x, hx, hx0⟩ := reduce192_range rm neg res.sig (res.exp + 6176) trunc hJ (by omega) (by omega)
  rw [hx, RK.ok_bind] at h
  by_cases hc : decide (x.2 > 12287) = true
  · rw [if_pos hc] at h
    have : alt = r := by injection h
    rw [← this]; exact halt
  · rw [if_neg hc] at h
    have : compose sgn x.1 x.2 = r := by injection h
    rw [← this]
    refine (signOk_compose sgn x.1 x.2 hx0 ?_).2
    rw [decide_eq_true_eq, gt_iff_lt, Int16.lt_iff_toInt_lt] at hc
    have : (12287 : Int16).toInt = 12287 := by decide
    omega

theorem ite_const_not_nan (c : Bool) (r : Decimal)
    (h : ((if c = true then pure (zero false) else pure (inf false)) : Go.GoM Decimal) = .ok r) :
    Decimal.IsNaN r = false := by
  cases c
  · have : inf false = r := by injection h
    rw [← this]; rfl
  · have : zero false = r := by injection h
    rw [← this]; rfl

theorem ite_const_isNaN (c : Bool) :
    Decimal.IsNaN (if c = true then zero false else inf false) = false := by cases c <;> rfl

theorem ite_pure (c : Bool) (a b : Decimal) :
    ((if c = true then pure a else pure b) : Go.GoM Decimal) = pure (if c = true then a else b) := by
  cases c <;> rfl

/-- `tail_not_nan` with the two `pure`s merged -/
theorem tail_not_nan' (rm : UInt8) (neg sgn : Bool) (res : decomposed192) (trunc : Int8) (alt : Decimal)
    (halt : Decimal.IsNaN alt = false)
    (hJ : res.sig.toNat ≠ 0 ∨ trunc ≠ -1) (hE : res.exp.toInt ≤ 13824) (r : Decimal)
    (h : (do
      let x ← RoundingMode.reduce192 rm neg res.sig (res.exp + 6176) trunc
      pure (if decide (x.2 > 12287) = true then alt else compose sgn x.1 x.2)) = Except.ok r) :
    Decimal.IsNaN r = false := by
  apply tail_not_nan rm neg sgn res trunc alt halt hJ hE r
  simp only [ite_pure]
  exact h

theorem i16_gt_6169 (x : Int16) : ¬ (decide (x > 6169) = true) → x.toInt ≤ 6169 := by
  intro h
  rw [decide_eq_true_eq, gt_iff_lt, Int16.lt_iff_toInt_lt] at h
  have : (6169 : Int16).toInt = 6169 := by decide
  omega

/-- finite non-zero argument: no result of `Exp` is a NaN (every `Globals`) -/
theorem Exp_fin_not_nan (g : Globals) (d r : Decimal) (h1 : Decimal.isSpecial d = false)
    (h2 : Decimal.IsZero d = false) (h : Gen.Exp g d = .ok r) : Decimal.IsNaN r = false := by
  unfold Gen.Exp at h
  simp only [h1, h2, Bool.false_eq_true, if_false] at h
  obtain ⟨l10, -, h⟩ := bind_ok h
  split at h
  · exact ite_const_not_nan _ _ h
  obtain ⟨x, hx, h⟩ := bind_ok h
  split at h
  · exact ite_const_not_nan _ _ h
  rename_i hle
  have hle' := i16_gt_6169 _ hle
  have hsig : x.1.sig.toNat ≠ 0 := epow_sig_ne _ _ _ _ hx
  have hlb := epow_exp_lb _ _ _ x.1 x.2 hx hle'
  simp only [ite_pure] at h
  split at h
  · obtain ⟨y, hy, h⟩ := bind_ok h
    obtain ⟨q1, q2, q3⟩ := rcp_range x.1 x.2 hsig hlb (by omega) y.1 y.2 hy
    exact tail_not_nan' _ _ _ y.1 y.2 _ rfl (Or.inl q1) (by omega) r h
  · exact tail_not_nan' _ _ _ x.1 x.2 _ rfl (Or.inl hsig) (by omega) r h

/-- finite non-zero argument: no result of `Expm1` is a NaN (every `Globals`).  `epowm1` returns a non-zero
    significand or a sticky flag in `{0, 1}` (`Total.d192_epowm1_triple`), and the caller tests `exp ≤ 6169`. -/
theorem Expm1_fin_not_nan (g : Globals) (d r : Decimal) (h1 : Decimal.isSpecial d = false)
    (h2 : Decimal.IsZero d = false) (h : Gen.Expm1 g d = .ok r) : Decimal.IsNaN r = false := by
  unfold Gen.Expm1 at h
  simp only [h1, h2, Bool.false_eq_true, if_false] at h
  obtain ⟨l10, -, h⟩ := bind_ok h
  have hone : ∀ (c : Bool) (r : Decimal),
      ((if c = true then pure (one true) else pure (inf false)) : Go.GoM Decimal) = .ok r →
      Decimal.IsNaN r = false := by
    intro c r h
    cases c
    · have : inf false = r := by injection h
      rw [← this]; rfl
    · have : one true = r := by injection h
      rw [← this]; rfl
  split at h
  · exact hone _ _ h
  obtain ⟨x, hx, h⟩ := bind_ok h
  split at h
  · exact hone _ _ h
  rename_i hle
  have hle' := i16_gt_6169 _ hle
  have hnz : (⟨⟨d.decompose.1.w0, d.decompose.1.w1, 0⟩, d.decompose.2 - 6176⟩ : decomposed192).sig.toNat ≠ 0 := by
    have := D128.Proofs.Total.sig_ne_zero d h2
    simpa [U192.toNat, U128.toNat] using this
  obtain ⟨x', hx', hpost⟩ := D128.Proofs.Total.ok_of_triple_pre
    (D128.Proofs.Total.d192_epowm1_triple D128.Proofs.Total.divSpec
      (⟨⟨d.decompose.1.w0, d.decompose.1.w1, 0⟩, d.decompose.2 - 6176⟩ : decomposed192)
      (Decimal.Signbit d) (Go.conv l10) 0) hnz
  rw [hx] at hx'
  have hxx : x = x' := by injection hx'
  subst hxx
  have hJ : x.2.1.sig.toNat ≠ 0 ∨ x.2.2 ≠ -1 := by
    rcases hpost with h | h | h | h
    · exact Or.inl h
    all_goals (right; rw [h]; decide)
  have halt : Decimal.IsNaN (if Decimal.Signbit d = true then one true else inf false) = false := by
    cases Decimal.Signbit d <;> rfl
  simp only [ite_pure] at h
  exact tail_not_nan' _ _ _ x.2.1 x.2.2 _ halt hJ (le_trans hle' (by norm_num)) r h

/-! ## the special-operand table and the all-operand statements -/

/-- the functions without an invalid operation -/
def NoInvalid (fn : Spec.Fn) : Prop :=
  fn = .exp ∨ fn = .exp2 ∨ fn = .exp10 ∨ fn = .expm1 ∨ fn = .cbrt

/-- for `Exp`, `Exp2`, `Exp10`, `Expm1`, `Cbrt` the table prescribes a NaN only for a NaN -/
theorem table_noInvalid (fn : Spec.Fn) (hf : NoInvalid fn) (x w : Spec.Val)
    (h : Spec.specialCase fn x = some w) : w.isNaN = x.isNaN := by
  cases x with
  | nan n p =>
    simp only [Spec.specialCase, Option.some.injEq] at h; subst h; rfl
  | inf n =>
    rcases hf with rfl | rfl | rfl | rfl | rfl <;> cases n <;>
      simp only [Spec.specialCase, if_true, Bool.false_eq_true, if_false, Option.some.injEq] at h <;>
      subst h <;> rfl
  | fin n c e =>
    simp only [Spec.specialCase] at h
    split at h
    · rcases hf with rfl | rfl | rfl | rfl | rfl <;> simp only [Option.some.injEq] at h <;> subst h <;> rfl
    · split at h
      · rcases hf with rfl | rfl | rfl | rfl | rfl <;> cases h
      · cases h

/-- the table decides every special operand and every zero -/
theorem table_some (fn : Spec.Fn) (d : Decimal)
    (h : Decimal.isSpecial d = true ∨ Decimal.IsZero d = true) :
    ∃ w, Spec.specialCase fn 𝔳[d] = some w := by
  rcases Sp.view d with ⟨a1, a2, a3, a4, av⟩ | ⟨a1, a2, a3, a4, av⟩ | ⟨a1, a2, a3, a4, a5, ac, av⟩ |
    ⟨a1, a2, a3, a4, a5, ac, ab, av⟩
  · rw [av]; exact ⟨_, rfl⟩
  · rw [av]; cases fn <;> exact ⟨_, rfl⟩
  · rw [av]; cases fn <;> exact ⟨_, rfl⟩
  · rcases h with h | h
    · rw [a3] at h; cases h
    · rw [a4] at h; cases h

/-- a special operand or a zero of `Exp`, `Exp2`, `Exp10`, `Expm1`, `Cbrt` (every `Globals`): the result is a
    NaN iff the operand is -/
theorem noInvalid_special_isNaN (fn : Spec.Fn) (hf : NoInvalid fn) (g : Globals) (d : Decimal)
    (h : Decimal.isSpecial d = true ∨ Decimal.IsZero d = true) :
    ∃ r, Props.C15.impl fn g d = .ok r ∧ Decimal.IsNaN r = Decimal.IsNaN d := by
  by_cases hz : fn = .expm1 ∧ Decimal.IsZero d = true
  · obtain ⟨rfl, hz⟩ := hz
    refine ⟨_, Props.C15.expm1_neg_zero g d hz, ?_⟩
    rcases Enc.classify_partition d with ⟨_, _, _, e⟩ | ⟨_, _, _, e⟩ | ⟨a, _, _, _⟩ | ⟨_, _, _, e⟩
    all_goals try (rw [hz] at e; cases e)
    rw [a]; rfl
  · obtain ⟨w, hw⟩ := table_some fn d h
    obtain ⟨r, hr, hs⟩ := Props.C15.elem_special fn g d w
      (fun hfn ⟨hz', _⟩ => hz ⟨hfn, hz'⟩) hw
    exact ⟨r, hr, by rw [nan_of_same r w hs, table_noInvalid fn hf _ w hw, Enc.interp_isNaN]⟩

/-- **Exp**, all bit patterns, every `Globals` (invalid mode bytes included): the call returns, and the
    result is a NaN exactly when the operand is -/
theorem Exp_isNaN (g : Globals) (d : Decimal) :
    ∃ r, Gen.Exp g d = .ok r ∧ Decimal.IsNaN r = Decimal.IsNaN d := by
  by_cases h : Decimal.isSpecial d = true ∨ Decimal.IsZero d = true
  · exact noInvalid_special_isNaN .exp (Or.inl rfl) g d h
  · have h1 : Decimal.isSpecial d = false := by
      cases hs : Decimal.isSpecial d
      · rfl
      · exact absurd (Or.inl hs) h
    have h2 : Decimal.IsZero d = false := by
      cases hs : Decimal.IsZero d
      · rfl
      · exact absurd (Or.inr hs) h
    obtain ⟨r, hr⟩ := D128.Proofs.Total.Exp_total g d
    exact ⟨r, hr, by rw [Exp_fin_not_nan g d r h1 h2 hr, (not_nan_of_not_special d h1).1]⟩

/-- **Expm1**, all bit patterns, every `Globals` -/
theorem Expm1_isNaN (g : Globals) (d : Decimal) :
    ∃ r, Gen.Expm1 g d = .ok r ∧ Decimal.IsNaN r = Decimal.IsNaN d := by
  by_cases h : Decimal.isSpecial d = true ∨ Decimal.IsZero d = true
  · exact noInvalid_special_isNaN .expm1 (Or.inr (Or.inr (Or.inr (Or.inl rfl)))) g d h
  · have h1 : Decimal.isSpecial d = false := by
      cases hs : Decimal.isSpecial d
      · rfl
      · exact absurd (Or.inl hs) h
    have h2 : Decimal.IsZero d = false := by
      cases hs : Decimal.IsZero d
      · rfl
      · exact absurd (Or.inr hs) h
    obtain ⟨r, hr⟩ := D128.Proofs.Total.Expm1_total g d
    exact ⟨r, hr, by rw [Expm1_fin_not_nan g d r h1 h2 hr, (not_nan_of_not_special d h1).1]⟩

end NN
