/-
  D128/Proofs/FmtFormatSpecial.lean — `Gen.Decimal.writeSpecial` (Go: `func (d Decimal) writeSpecial(f fmt.State, …)`,
  /repo/format.go), the NaN / ±Inf writer behind `Decimal.Format`, over the value model `Go.FmtState`.

  * `Ly.write_out`            : `(f.Write b).1 = { f with out := f.out ++ b }`
  * `Ly.writeSpecial_t`, `Ly.writeSpecial_unfold` : the function after the text has been selected (`Ly.specialValue`,
        the same six texts as `appendSpecial`); text copied from the generated source, tied by `rfl`
  * `Ly.blank_loop`           : `for ; i < n-2; i += 3 { f.Write("   ") }` writes `3k` blanks and stops in `[n-2, n]`
  * `Ly.blankTail`, `Ly.blank_fill` : the loop followed by the 2- / 1-blank tail writes exactly `n - i` blanks
  * `Ly.writeSpecial_t_eq`    : `writeSpecial_t f value width pr = .ok { f with out := specialOut f.out value W pr }`
        for `-2^62 < width < 2^62`, `W = width.toNat` (a negative width is no width)
  * `Ly.writeSpecial_eq`, `Ly.writeSpecial_spec` : `Decimal.writeSpecial` appends
        `specialPad (specialStr (IsNaN d) (Signbit d) ps pds) W pr` to `f.out`, all other fields unchanged,
        whatever is in `f.out` already; no panic
-/
import D128.Gen.FormatFmt
import D128.Proofs.LayoutAppend

set_option autoImplicit false
set_option maxRecDepth 4096

namespace Ly
open Dg Gen

theorem write_out (f : Go.FmtState) (b : Go.Bytes) :
    (Go.FmtState.Write f b).1 = { f with out := f.out ++ b } := rfl

/-- `writeSpecial` after the choice of the text (copied from the generated source) -/
def writeSpecial_t (f : Go.FmtState) (value : Go.Bytes) (width : Int64) (padRight : Bool) :
    Go.GoM Go.FmtState := do
  let mut f : Go.FmtState := f
  let mut n : Int64 := (Go.len value)
  let mut p : Int64 := (width - n)
  if (decide (p > (0 : Int64))) then
    if padRight then
      f := (Go.FmtState.Write f value).1
      let mut i : Int64 := n
      while (decide (i < (width - (2 : Int64)))) do
        f := (Go.FmtState.Write f spaceText).1
        i := (i + (3 : Int64))
      if (decide (i < (width - (1 : Int64)))) then
        let t_1 ← Go.bslice spaceText (0 : Int) (2 : Int)
        f := (Go.FmtState.Write f t_1).1
      else
        if (decide (i < width)) then
          let t_2 ← Go.bslice spaceText (0 : Int) (1 : Int)
          f := (Go.FmtState.Write f t_2).1
    else
      let mut i_1 : Int64 := (0 : Int64)
      while (decide (i_1 < (p - (2 : Int64)))) do
        f := (Go.FmtState.Write f spaceText).1
        i_1 := (i_1 + (3 : Int64))
      if (decide (i_1 < (p - (1 : Int64)))) then
        let t_3 ← Go.bslice spaceText (0 : Int) (2 : Int)
        f := (Go.FmtState.Write f t_3).1
      else
        if (decide (i_1 < p)) then
          let t_4 ← Go.bslice spaceText (0 : Int) (1 : Int)
          f := (Go.FmtState.Write f t_4).1
      f := (Go.FmtState.Write f value).1
  else
    f := (Go.FmtState.Write f value).1
  return f

theorem writeSpecial_unfold (d : Decimal) (f : Go.FmtState) (width : Int64)
    (printSign padSign padRight : Bool) :
    Decimal.writeSpecial d f width printSign padSign padRight =
      writeSpecial_t f (specialValue d printSign padSign) width padRight := by
  unfold Decimal.writeSpecial specialValue
  cases Decimal.IsNaN d <;> cases printSign <;> cases padSign <;> cases Decimal.Signbit d <;> rfl

/-! ## the blank-writing loop -/

theorem e2 : (2 : Int64).toInt = 2 := by decide
theorem e3 : (3 : Int64).toInt = 3 := by decide

/-- `for ; i < n-2; i += 3 { f.Write(spaceText) }`: `3k` blanks are written, and the loop stops with
`n - 2 ≤ i`, and `i ≤ n` if it ran at all -/
theorem blank_loop (n : Int64)
    (g : Unit → Go.FmtState × Int64 → Go.GoM (ForInStep (Go.FmtState × Int64)))
    (hg : ∀ s, g () s = if decide (s.2 < n - 2) = true then
        pure (ForInStep.yield ((Go.FmtState.Write s.1 spaceText).1, s.2 + 3))
      else pure (ForInStep.done (s.1, s.2)))
    (hn0 : -2 ^ 62 < n.toInt) (hn1 : n.toInt < 2 ^ 62)
    (f : Go.FmtState) (i : Int64) (hi0 : -2 ^ 62 < i.toInt) (hi1 : i.toInt < 2 ^ 62) :
    ∃ (k : Nat) (i' : Int64), forIn Lean.Loop.mk (f, i) g =
        .ok ({ f with out := f.out ++ Array.replicate (3 * k) 32 }, i') ∧
      i'.toInt = i.toInt + 3 * k ∧ n.toInt - 2 ≤ i'.toInt ∧ (k = 0 ∨ i'.toInt ≤ n.toInt) := by
  have hn2 : (n - 2).toInt = n.toInt - 2 := by
    rw [i64_sub _ _ (by rw [e2]; omega) (by rw [e2]; omega), e2]
  generalize hm : (n.toInt - 2 - i.toInt).toNat = m
  induction m using Nat.strong_induction_on generalizing f i with
  | _ m ih =>
    rw [loop_unfold, hg]
    by_cases hlt : i < n - 2
    · have hlt' : i.toInt < n.toInt - 2 := by rw [i64_lt, hn2] at hlt; exact hlt
      have e : (i + 3).toInt = i.toInt + 3 := by
        rw [i64_add _ _ (by rw [e3]; omega) (by rw [e3]; omega), e3]
      simp only [hlt, decide_true, if_true]
      obtain ⟨k, i', hk, h1, h2, h3⟩ := ih (n.toInt - 2 - (i + 3).toInt).toNat (by omega)
        (Go.FmtState.Write f spaceText).1 (i + 3) (by omega) (by omega) rfl
      refine ⟨k + 1, i', ?_, by omega, h2, Or.inr ?_⟩
      · show forIn Lean.Loop.mk ((Go.FmtState.Write f spaceText).1, i + 3) g = _
        rw [hk, write_out]
        have : spaceText ++ Array.replicate (3 * k) (32 : UInt8) = Array.replicate (3 * (k + 1)) 32 := by
          rw [show spaceText = Array.replicate 3 (32 : UInt8) from rfl, Array.replicate_append_replicate]
          congr 1; omega
        simp only [Array.append_assoc, this]
      · rcases h3 with h3 | h3
        · subst h3; omega
        · exact h3
    · have hlt' : ¬ i.toInt < n.toInt - 2 := by rw [i64_lt, hn2] at hlt; exact hlt
      simp only [hlt, decide_false, Bool.false_eq_true, if_false]
      refine ⟨0, i, ?_, by omega, by omega, Or.inl rfl⟩
      simp only [Nat.mul_zero, Array.replicate_zero, Array.append_empty]
      rfl

/-- the body of the loop, for the bound `n` -/
def blankBody (n : Int64) : Unit → Go.FmtState × Int64 → Go.GoM (ForInStep (Go.FmtState × Int64)) :=
  fun _ s => if decide (s.2 < n - 2) = true then
      pure (ForInStep.yield ((Go.FmtState.Write s.1 spaceText).1, s.2 + 3))
    else pure (ForInStep.done (s.1, s.2))

/-- the tail after the loop: two blanks, one blank, or nothing; then the rest `k` of the caller -/
def blankTail {α : Type} (s : Go.FmtState × Int64) (n : Int64) (k : Go.FmtState → Go.GoM α) :
    Go.GoM α :=
  if decide (s.2 < n - 1) = true then do
    let t_1 ← Go.bslice spaceText (0 : Int) (2 : Int)
    k (Go.FmtState.Write s.1 t_1).1
  else
    if decide (s.2 < n) = true then do
      let t_1 ← Go.bslice spaceText (0 : Int) (1 : Int)
      k (Go.FmtState.Write s.1 t_1).1
    else k s.1

/-- loop and tail together write exactly `n - i` blanks (none if `n ≤ i`) -/
theorem blank_fill {α : Type} (n : Int64)
    (hn0 : -2 ^ 62 < n.toInt) (hn1 : n.toInt < 2 ^ 62)
    (f : Go.FmtState) (i : Int64) (hi0 : -2 ^ 62 < i.toInt) (hi1 : i.toInt < 2 ^ 62)
    (k : Go.FmtState → Go.GoM α) :
    (do let s ← forIn Lean.Loop.mk (f, i) (blankBody n)
        blankTail s n k) =
      k { f with out := f.out ++ Array.replicate (n.toInt - i.toInt).toNat 32 } := by
  obtain ⟨m, i', hm, h1, h2, h3⟩ := blank_loop n (blankBody n) (fun _ => rfl) hn0 hn1 f i hi0 hi1
  have hn1' : (n - 1).toInt = n.toInt - 1 := by
    rw [i64_sub _ _ (by rw [e1]; omega) (by rw [e1]; omega), e1]
  rw [hm, ok_bind]
  unfold blankTail
  simp only
  by_cases c1 : i' < n - 1
  · have c1' : i'.toInt < n.toInt - 1 := by rw [i64_lt, hn1'] at c1; exact c1
    simp only [c1, decide_true, if_true]
    rw [bslice_eq _ _ _ (by decide) (by decide) (by decide), ok_bind, write_out]
    have : (n.toInt - i.toInt).toNat = 3 * m + 2 := by omega
    rw [this, ← Array.replicate_append_replicate]
    simp only [Array.append_assoc]
    rfl
  · have c1' : ¬ i'.toInt < n.toInt - 1 := by rw [i64_lt, hn1'] at c1; exact c1
    simp only [c1, decide_false, Bool.false_eq_true, if_false]
    by_cases c2 : i' < n
    · have c2' : i'.toInt < n.toInt := by rw [i64_lt] at c2; exact c2
      simp only [c2, decide_true, if_true]
      rw [bslice_eq _ _ _ (by decide) (by decide) (by decide), ok_bind, write_out]
      have : (n.toInt - i.toInt).toNat = 3 * m + 1 := by omega
      rw [this, ← Array.replicate_append_replicate]
      simp only [Array.append_assoc]
      rfl
    · have c2' : ¬ i'.toInt < n.toInt := by rw [i64_lt] at c2; exact c2
      simp only [c2, decide_false, Bool.false_eq_true, if_false]
      have : (n.toInt - i.toInt).toNat = 3 * m := by
        rcases h3 with h3 | h3
        · subst h3; omega
        · omega
      rw [this]

/-! ## `writeSpecial` -/

/-- `writeSpecial_t` writes the blank-padded text (`Ly.specialOut`, the term `appendSpecial` returns)
for every width in `(-2^62, 2^62)`; a negative width is no width.  Nothing is assumed about `f`. -/
theorem writeSpecial_t_eq (f : Go.FmtState) (value : Go.Bytes) (width : Int64) (padRight : Bool)
    (hw0 : -2 ^ 62 < width.toInt) (hw1 : width.toInt < 2 ^ 62) (hv : value.size < 2 ^ 61) :
    writeSpecial_t f value width padRight =
      .ok { f with out := specialOut f.out value width.toInt.toNat padRight } := by
  have hlenv := len_toInt value (by omega)
  have z0 : (0 : Int64).toInt = 0 := by decide
  have hp : (width - Go.len value).toInt = width.toInt - value.size := by
    rw [i64_sub _ _ (by omega) (by omega), hlenv]
  unfold writeSpecial_t specialOut
  simp only
  by_cases hpos : width - Go.len value > 0
  · have hpos' : ¬ width.toInt.toNat ≤ value.size := by
      have : (0 : Int64) < width - Go.len value := hpos
      rw [i64_lt, hp, z0] at this; omega
    simp only [hpos, decide_true, if_true, hpos', if_false]
    cases padRight
    · simp only [Bool.false_eq_true, if_false]
      have := blank_fill (width - Go.len value) (by omega) (by omega) f 0
        (by rw [z0]; decide) (by rw [z0]; decide)
        (fun g => (pure (Go.FmtState.Write g value).1 : Go.GoM Go.FmtState))
      refine Eq.trans ?_ (this.trans ?_)
      · rfl
      · rw [hp, z0, write_out]
        have : ((width.toInt - (value.size : Int)) - 0).toNat = width.toInt.toNat - value.size := by omega
        rw [this]; rfl
    · simp only [if_true]
      have := blank_fill width (by omega) (by omega) (Go.FmtState.Write f value).1
        (Go.len value) (by omega) (by omega) (fun g => (pure g : Go.GoM Go.FmtState))
      refine Eq.trans ?_ (this.trans ?_)
      · rfl
      · rw [hlenv, write_out]
        have : (width.toInt - (value.size : Int)).toNat = width.toInt.toNat - value.size := by omega
        rw [this]; rfl
  · have hpos' : width.toInt.toNat ≤ value.size := by
      have : ¬ (0 : Int64) < width - Go.len value := hpos
      rw [i64_lt, hp, z0] at this; omega
    simp only [hpos, decide_false, Bool.false_eq_true, if_false, hpos', if_true]
    rfl

/-- **`Decimal.writeSpecial`** as an equation: the state with `specialOut` appended -/
theorem writeSpecial_eq (d : Decimal) (f : Go.FmtState) (width : Int64) (ps pds pr : Bool)
    (hw0 : -2 ^ 62 < width.toInt) (hw1 : width.toInt < 2 ^ 62) :
    Decimal.writeSpecial d f width ps pds pr =
      .ok { f with out := specialOut f.out (specialValue d ps pds) width.toInt.toNat pr } := by
  have := specialValue_size d ps pds
  rw [writeSpecial_unfold]
  exact writeSpecial_t_eq f _ width pr hw0 hw1 (by omega)

/-- what `specialOut` appends, as a byte string of its own -/
def specialBytes (value : Go.Bytes) (W : Nat) (padRight : Bool) : Go.Bytes :=
  if W ≤ value.size then value
  else if padRight then value ++ Array.replicate (W - value.size) 32
  else Array.replicate (W - value.size) 32 ++ value

theorem specialOut_eq (buf value : Go.Bytes) (W : Nat) (pr : Bool) :
    specialOut buf value W pr = buf ++ specialBytes value W pr := by
  unfold specialOut specialBytes
  split
  · rfl
  · split <;> simp only [Array.append_assoc]

theorem specialBytes_str (value : Go.Bytes) (W : Nat) (pr : Bool) :
    bstr (specialBytes value W pr) = specialPad (bstr value) W pr := by
  have h := specialOut_str #[] value W pr
  rw [specialOut_eq, Array.empty_append] at h
  rw [h]; rfl

/-- **`Decimal.writeSpecial`**: NaN and the infinities with the sign flags, blank-padded to the width
(on the right for `-`); the `0` flag is not even a parameter.  Appended to whatever `f.out` holds, all
other fields of the state unchanged; no panic, both loops terminate. -/
theorem writeSpecial_spec (d : Decimal) (f : Go.FmtState) (width : Int64) (ps pds pr : Bool)
    (W : Nat) (hW : width.toInt = W) (hW' : W < 2 ^ 62) :
    ∃ r, Decimal.writeSpecial d f width ps pds pr = .ok { f with out := f.out ++ r } ∧
      r = specialBytes (specialValue d ps pds) W pr ∧
      bstr r = specialPad (specialStr (Decimal.IsNaN d) (Decimal.Signbit d) ps pds) W pr := by
  refine ⟨_, ?_, rfl, ?_⟩
  · rw [writeSpecial_eq d f width ps pds pr (by omega) (by omega), specialOut_eq]
    have : width.toInt.toNat = W := by omega
    rw [this]
  · rw [specialBytes_str, specialValue_str]

/-- a negative width (package fmt never hands one over: a negative `*` width becomes the `-` flag) is
no width, down to `-2^62`.  Further down `width - n` wraps around: for `width = MinInt64` the padding
loop would run `2^63/3` times. -/
theorem writeSpecial_neg_width (d : Decimal) (f : Go.FmtState) (width : Int64) (ps pds pr : Bool)
    (hw0 : -2 ^ 62 < width.toInt) (hw1 : width.toInt ≤ 0) :
    Decimal.writeSpecial d f width ps pds pr =
      .ok { f with out := f.out ++ specialValue d ps pds } := by
  rw [writeSpecial_eq d f width ps pds pr hw0 (by omega)]
  have : width.toInt.toNat = 0 := by omega
  rw [this]
  unfold specialOut
  rw [if_pos (Nat.zero_le _)]

end Ly
