/-
  D128/Proofs/PowAccRound.lean — property C18 (accuracy of `Pow`), specification side of the final rounding:
  what the member that a NEAREST mode selects for a rational working value `W = q·10^k` says about a REAL target
  `T` that `W` approximates with a RELATIVE error of at most `tol/2 + 16·10^-39` (which may be many units in the
  last place), judged by `EnclPf.PowViolation tol`.

  Provided (namespace `PowAcc`):
  * `roundTo_fin_tol`  : nearest mode, `roundTo m neg W = .fin n c e` (no closeness hypothesis)
                         ⇒ `|c·10^e − T| ≤ ½·10^ulpExp T + |W−T|  ∨  |c·10^e − T| ≤ 2·|W−T|`
  * `pv_congr`         : `PowViolation tol P` is invariant under `Val.same`
  * `nearest_tol_W`    : nearest mode, `0 < W`, `0 < T`, `0 ≤ tol ≤ 1/1000`, `|W − T| ≤ (tol/2 + 16/10^39)·T`
                         ⇒ `¬ PowViolation tol (±T) (flushOrRound m neg W)`
  * `nearest_tol`      : the same for `flushOrRoundS m neg q k`, `W = q·10^k`
  * `nearest_exact`    : `T = W` exactly: any tolerance `0 ≤ tol ≤ 1/1000` is enough
-/
import D128.Proofs.PowAccDefs
import D128.Proofs.ExpAccSpec
set_option autoImplicit false

namespace PowAcc
open Spec SpecRound EnclPf ExpAcc

/-! ## arithmetic over plain variables -/

theorem Cmax1_le : (Cmax : ℝ) + 1 ≤ 13 * 10 ^ 33 := by rw [Cmax1_val]; norm_num

/-- `1.6e-38·T` is a small fraction of the unit `U` when `T < C·U`, `C ≤ 1.3e34` -/
theorem arith_small {T U C : ℝ} (hU : 0 < U) (hC : C ≤ 13 * 10 ^ 33) (h : T < C * U) :
    16 / 10 ^ 39 * T ≤ U / 4000 := by
  have h1 : C * U ≤ 13 * 10 ^ 33 * U := mul_le_mul_of_nonneg_right hC hU.le
  have h2 : T < 13 * 10 ^ 33 * U := lt_of_lt_of_le h h1
  linarith

/-- the relative bound in crude forms -/
theorem arith_bounds {W T tol : ℝ} (hT : 0 < T) (ht1 : tol ≤ 1 / 1000)
    (hc : |W - T| ≤ (tol / 2 + 16 / 10 ^ 39) * T) :
    |W - T| ≤ T / 1000 ∧ T ≤ 2 * W ∧ W ≤ 2 * T := by
  have h1 : (tol / 2 + 16 / 10 ^ 39) * T ≤ 1 / 1000 * T := by
    apply mul_le_mul_of_nonneg_right _ hT.le
    have : (16 : ℝ) / 10 ^ 39 ≤ 1 / 2000 := by norm_num
    linarith
  have h2 : |W - T| ≤ T / 1000 := by linarith
  have := abs_le.1 h2
  exact ⟨h2, by linarith [this.1], by linarith [this.2]⟩

/-- finite result: both alternatives of `roundTo_fin_tol` are within `U + tol·T` -/
theorem arith_fin {d δ T U tol : ℝ} (hT : 0 < T) (ht0 : 0 ≤ tol)
    (hs : 16 / 10 ^ 39 * T ≤ U / 4000) (hδ : δ ≤ (tol / 2 + 16 / 10 ^ 39) * T)
    (hd : d ≤ U / 2 + δ ∨ d ≤ 2 * δ) : d ≤ U + tol * T := by
  have htT : 0 ≤ tol * T := mul_nonneg ht0 hT.le
  have hU : 0 ≤ U := by
    have : (0 : ℝ) ≤ 16 / 10 ^ 39 * T := by positivity
    linarith
  have hδ' : δ ≤ tol * T / 2 + 16 / 10 ^ 39 * T := by linarith
  rcases hd with hd | hd
  · linarith
  · linarith

/-- infinite result: the target plus unit plus tolerance reaches the largest finite magnitude -/
theorem arith_inf {W T U tol Cm PE : ℝ} (hT : 0 < T) (hU : 0 < U) (ht0 : 0 ≤ tol) (hPE : 0 < PE)
    (hCm : Cm ≤ 13 * 10 ^ 33) (hge : (Cm + 1 / 2) * PE ≤ W)
    (hδ : W - T ≤ (tol / 2 + 16 / 10 ^ 39) * T) : ¬ (T + U + tol * T < Cm * PE) := by
  intro h
  have htT : 0 ≤ tol * T := mul_nonneg ht0 hT.le
  have h1 : Cm * PE ≤ 13 * 10 ^ 33 * PE := mul_le_mul_of_nonneg_right hCm hPE.le
  have h2 : (Cm + 1 / 2) * PE = Cm * PE + PE / 2 := by ring
  have h3 : (tol / 2 + 16 / 10 ^ 39) * T = tol * T / 2 + 16 / 10 ^ 39 * T := by ring
  rw [h2] at hge; rw [h3] at hδ
  linarith

/-! ## invariance of the verdict under `Val.same` -/

/-- `PowViolation` is invariant under `Val.same` (like `ExpAcc.gv_congr`) -/
theorem pv_congr (tol P : ℝ) {v w : Val} (h : v.same w = true) : PowViolation tol P v → PowViolation tol P w := by
  match v, w with
  | .nan _ _, .nan _ _ => exact id
  | .inf n, .inf n' =>
    have : n = n' := by simpa [Val.same] using h
    subst this; exact id
  | .fin n c e, .fin n' c' e' =>
    have hX := X_of_same h
    have hz := zero_of_same h
    obtain ⟨hnn, -⟩ := same_fin h
    subst hnn
    match c, c' with
    | 0, 0 => exact id
    | 0, c' + 1 => exact absurd (hz.1 rfl) (by omega)
    | c + 1, 0 => exact absurd (hz.2 rfl) (by omega)
    | c + 1, c' + 1 =>
      intro hv
      simp only [PowViolation] at hv ⊢
      rw [← hX]; exact hv
  | .nan _ _, .inf _ => simp [Val.same] at h
  | .nan _ _, .fin _ _ _ => simp [Val.same] at h
  | .inf _, .nan _ _ => simp [Val.same] at h
  | .inf _, .fin _ _ _ => simp [Val.same] at h
  | .fin _ _ _, .nan _ _ => simp [Val.same] at h
  | .fin _ _ _, .inf _ => simp [Val.same] at h

/-! ## the finite case, without a closeness hypothesis -/

/-- **finite result**: the member a nearest mode selects for `W` is within half a unit in the last place (at `T`)
plus `|W − T|`, or within `2·|W − T|`, of every positive real `T` -/
theorem roundTo_fin_tol {m : Mode} (hn : isNearest m = true) {neg : Bool} {W : ℚ} {T : ℝ}
    (hW : 0 < W) (hT : 0 < T) {n : Bool} {c : Nat} {e : Int}
    (h : Spec.roundTo m neg W = .fin n c e) :
    |(c : ℝ) * (10 : ℝ) ^ e - T| ≤ (10 : ℝ) ^ (ulpExp T) / 2 + |(W : ℝ) - T| ∨
    |(c : ℝ) * (10 : ℝ) ^ e - T| ≤ 2 * |(W : ℝ) - T| := by
  obtain ⟨hu0, hu1, -⟩ := ulp_facts hT
  set u := ulpExp T with hu
  set U : ℝ := (10 : ℝ) ^ u with hU
  have hUpos : 0 < U := zpow_pos (by norm_num) _
  by_cases hlt : (W : ℝ) < ((Cmax : ℝ) + 1) * U
  · left
    have hs : Spec.spacingExp W ≤ u := spacing_le_of_lt hW hu0 hlt
    have hr := roundTo_nearest_half hn hW h
    have hr' : |((c : ℝ) * (10 : ℝ) ^ e) - (W : ℝ)| ≤ (10 : ℝ) ^ (Spec.spacingExp W) / 2 := by
      have : (((|(c : ℚ) * (10 : ℚ) ^ e - W| : ℚ)) : ℝ) ≤ ((((10 : ℚ) ^ (Spec.spacingExp W) / 2 : ℚ)) : ℝ) := by
        exact_mod_cast hr
      push_cast at this; exact this
    have hp : (10 : ℝ) ^ (Spec.spacingExp W) ≤ U := zpow_le_zpow_right₀ (by norm_num) hs
    calc |(c : ℝ) * (10 : ℝ) ^ e - T|
        = |((c : ℝ) * (10 : ℝ) ^ e - (W : ℝ)) + ((W : ℝ) - T)| := by ring_nf
      _ ≤ |(c : ℝ) * (10 : ℝ) ^ e - (W : ℝ)| + |(W : ℝ) - T| := abs_add_le _ _
      _ ≤ U / 2 + |(W : ℝ) - T| := by linarith
  · right
    have hge : ((Cmax : ℝ) + 1) * U ≤ (W : ℝ) := not_lt.1 hlt
    have hBq : ((Cmax : ℚ) + 1) * (10 : ℚ) ^ u ≤ W := by
      have : ((((Cmax : ℚ) + 1) * (10 : ℚ) ^ u : ℚ) : ℝ) ≤ (W : ℝ) := by push_cast; exact hge
      exact_mod_cast this
    have hu2 : u + 1 ≤ Emax := by
      by_contra hcon
      have hEm : Emax ≤ u := by omega
      have : Spec.roundTo m neg W = .inf neg := by
        rw [roundTo_nearest_inf_iff hn neg hW]
        have hp : (10 : ℚ) ^ Emax ≤ (10 : ℚ) ^ u := zpow_le_zpow_right₀ (by norm_num) hEm
        have hC : (0 : ℚ) ≤ (Cmax : ℚ) := Nat.cast_nonneg _
        have hpp : (0 : ℚ) < (10 : ℚ) ^ Emax := zpow_pos (by norm_num) _
        calc ((Cmax : ℚ) + 1 / 2) * (10 : ℚ) ^ Emax ≤ ((Cmax : ℚ) + 1) * (10 : ℚ) ^ Emax := by
              apply mul_le_mul_of_nonneg_right _ hpp.le; linarith
          _ ≤ ((Cmax : ℚ) + 1) * (10 : ℚ) ^ u := mul_le_mul_of_nonneg_left hp (by linarith)
          _ ≤ W := hBq
      rw [this] at h; cases h
    have hB := boundary_member u hu0 hu2
    have hr := roundTo_nearest_member hn hW h hB
    have hr' : |((c : ℝ) * (10 : ℝ) ^ e) - (W : ℝ)| ≤ |((Cmax : ℝ) + 1) * U - (W : ℝ)| := by
      have : (((|(c : ℚ) * (10 : ℚ) ^ e - W| : ℚ)) : ℝ) ≤
          (((|((Cmax : ℚ) + 1) * (10 : ℚ) ^ u - W| : ℚ)) : ℝ) := by exact_mod_cast hr
      push_cast at this; exact this
    have hBW : |((Cmax : ℝ) + 1) * U - (W : ℝ)| ≤ |(W : ℝ) - T| := by
      rw [abs_of_nonpos (by linarith), abs_of_nonneg (by linarith)]
      linarith
    calc |(c : ℝ) * (10 : ℝ) ^ e - T|
        = |((c : ℝ) * (10 : ℝ) ^ e - (W : ℝ)) + ((W : ℝ) - T)| := by ring_nf
      _ ≤ |(c : ℝ) * (10 : ℝ) ^ e - (W : ℝ)| + |(W : ℝ) - T| := abs_add_le _ _
      _ ≤ 2 * |(W : ℝ) - T| := by linarith

/-! ## all three outcomes -/

theorem signed_abs' (neg : Bool) (T : ℝ) (hT : 0 < T) : |signed neg T| = T := signed_abs neg T hT

/-- the sign clause of `PowViolation` never holds for a result that carries `neg` -/
theorem sign_clause (neg : Bool) {T : ℝ} (hT : 0 < T) : ¬ (neg = true ↔ 0 < signed neg T) := by
  unfold signed
  cases neg
  · simp [hT]
  · simp [hT.le]

/-- **The member a nearest mode selects for `W` is an acceptable result, with relative tolerance `tol`, for every
real target `±T` that `W` approximates with relative error at most `tol/2 + 16·10^-39`.** -/
theorem nearest_tol_W {m : Mode} (hn : isNearest m = true) (neg : Bool) {W : ℚ} {T tol : ℝ}
    (hW : 0 < W) (hT : 0 < T) (ht0 : 0 ≤ tol) (ht1 : tol ≤ 1 / 1000)
    (hc : |(W : ℝ) - T| ≤ (tol / 2 + 16 / 10 ^ 39) * T) :
    ¬ PowViolation tol (signed neg T) (Spec.flushOrRound m neg W) := by
  obtain ⟨hb1, hb2, hb3⟩ := arith_bounds hT ht1 hc
  have hWr : (0 : ℝ) < (W : ℝ) := by exact_mod_cast hW
  have hFabs : |signed neg T| = T := signed_abs' neg T hT
  have hsgn := sign_clause neg hT
  obtain ⟨hu0, hu1, -⟩ := ulp_facts hT
  have hUpos : (0 : ℝ) < (10 : ℝ) ^ (ulpExp T) := zpow_pos (by norm_num) _
  have hsmall := arith_small hUpos Cmax1_le hu1
  have htT : 0 ≤ tol * T := mul_nonneg ht0 hT.le
  by_cases htiny : W < (10 : ℚ) ^ (Spec.Emin - 1)
  · -- flushed to zero
    rw [flushOrRound_tiny m neg hW htiny]
    show ¬ ((neg = true ↔ 0 < signed neg T) ∨
      (10 : ℝ) ^ (ulpExp |signed neg T|) + tol * |signed neg T| < |signed neg T|)
    rw [hFabs]
    rintro (h | h)
    · exact hsgn h
    have h1 : (W : ℝ) < (10 : ℝ) ^ (Spec.Emin - 1) := by
      have : ((W : ℚ) : ℝ) < (((10 : ℚ) ^ (Spec.Emin - 1) : ℚ) : ℝ) := by exact_mod_cast htiny
      push_cast at this; exact this
    have h2 : (10 : ℝ) ^ (Spec.Emin - 1) * 2 ≤ (10 : ℝ) ^ Emin := by
      rw [zpow_sub₀ (by norm_num : (10 : ℝ) ≠ 0)]
      have hp : (0 : ℝ) < (10 : ℝ) ^ Emin := zpow_pos (by norm_num) _
      rw [zpow_one]; linarith
    have := pow_Emin_le_ulp hT
    linarith
  · rw [flushOrRound_eq_roundTo m neg (not_lt.1 htiny)]
    rcases roundTo_member m neg W hW with hinf | ⟨c, e, hfin, -⟩
    · -- overflow
      rw [hinf]
      have hge := (roundTo_nearest_inf_iff hn neg hW).1 hinf
      have hgeR : (((Cmax : ℝ)) + 1 / 2) * (10 : ℝ) ^ Emax ≤ (W : ℝ) := by
        have : (((((Cmax : ℚ)) + 1 / 2) * (10 : ℚ) ^ Emax : ℚ) : ℝ) ≤ (W : ℝ) := by exact_mod_cast hge
        push_cast at this; exact this
      have hpE : (0 : ℝ) < (10 : ℝ) ^ Emax := zpow_pos (by norm_num) _
      have hC34 := Cmax1_ge
      show ¬ ((neg = true ↔ 0 < signed neg T) ∨ |signed neg T| < (10 : ℝ) ^ (Emax + 30) ∨
        |signed neg T| + (10 : ℝ) ^ (ulpExp |signed neg T|) + tol * |signed neg T| <
          (Cmax : ℝ) * (10 : ℝ) ^ Emax)
      rw [hFabs]
      rintro (h | h | h)
      · exact hsgn h
      · -- T ≥ W/2 ≥ 10^(Emax+33)/2
        have h30 : (10 : ℝ) ^ (Emax + 30) * 2 < (((Cmax : ℝ)) + 1 / 2) * (10 : ℝ) ^ Emax := by
          rw [zpow_add₀ (by norm_num : (10 : ℝ) ≠ 0)]
          have : (10 : ℝ) ^ (30 : Int) * 2 < (Cmax : ℝ) + 1 / 2 := by
            have : (10 : ℝ) ^ (30 : Int) = 10 ^ 30 := by norm_cast
            rw [this]; nlinarith
          nlinarith
        linarith
      · -- T + ulp + tol·T ≥ Cmax·10^Emax
        have hCm : (Cmax : ℝ) ≤ 13 * 10 ^ 33 := by have := Cmax1_le; linarith
        have hδ : (W : ℝ) - T ≤ (tol / 2 + 16 / 10 ^ 39) * T := le_trans (le_abs_self _) hc
        exact arith_inf hT hUpos ht0 hpE hCm hgeR hδ h
    · -- finite
      rw [hfin]
      obtain ⟨hn', hcC, he0, he1, -, -⟩ := roundTo_fin hW hfin
      have halt := roundTo_fin_tol hn hW hT hfin
      have hulp := arith_fin hT ht0 hsmall hc halt
      match c, hfin, halt, hulp with
      | 0, _, _, hulp =>
        show ¬ ((neg = true ↔ 0 < signed neg T) ∨
          (10 : ℝ) ^ (ulpExp |signed neg T|) + tol * |signed neg T| < |signed neg T|)
        rw [hFabs]
        rintro (h | h)
        · exact hsgn h
        simp only [Nat.cast_zero, zero_mul, zero_sub, abs_neg, abs_of_pos hT] at hulp
        linarith
      | c + 1, hfin, halt, hulp =>
        show ¬ ((neg = true ↔ 0 < signed neg T) ∨
          (10 : ℝ) ^ (ulpExp |signed neg T|) + tol * |signed neg T| < |X neg (c + 1) e - signed neg T| ∨
          (10 : ℝ) ^ (Emax + 41) ≤ |signed neg T| ∨ |signed neg T| < (10 : ℝ) ^ (Emin - 40))
        have hRpos : (0 : ℝ) < ((c + 1 : ℕ) : ℝ) * (10 : ℝ) ^ e := by positivity
        have hXF : |X neg (c + 1) e - signed neg T| = |((c + 1 : ℕ) : ℝ) * (10 : ℝ) ^ e - T| := by
          rw [X_eq]; unfold signed
          cases neg
          · simp
          · simp only [if_true]
            rw [show -(((c + 1 : ℕ) : ℝ) * (10 : ℝ) ^ e) - -T = -(((c + 1 : ℕ) : ℝ) * (10 : ℝ) ^ e - T) by ring,
              abs_neg]
        rw [hFabs, hXF]
        rintro (h | h | h | h)
        · exact hsgn h
        · exact absurd hulp (not_le.2 h)
        · -- the result is finite, so W is below (Cmax + 1/2)·10^Emax
          have hninf : ¬ Spec.roundTo m neg W = .inf neg := by rw [hfin]; simp
          rw [roundTo_nearest_inf_iff hn neg hW, not_le] at hninf
          have hltR : (W : ℝ) < (((Cmax : ℝ)) + 1 / 2) * (10 : ℝ) ^ Emax := by
            have : ((W : ℚ) : ℝ) < (((((Cmax : ℚ)) + 1 / 2) * (10 : ℚ) ^ Emax : ℚ) : ℝ) := by exact_mod_cast hninf
            push_cast at this; exact this
          have hpE : (0 : ℝ) < (10 : ℝ) ^ Emax := zpow_pos (by norm_num) _
          have h41 : (((Cmax : ℝ)) + 1 / 2) * (10 : ℝ) ^ Emax * 2 < (10 : ℝ) ^ (Emax + 41) := by
            rw [zpow_add₀ (by norm_num : (10 : ℝ) ≠ 0)]
            have : ((Cmax : ℝ) + 1 / 2) * 2 < (10 : ℝ) ^ (41 : Int) := by
              have e41 : (10 : ℝ) ^ (41 : Int) = 10 ^ 41 := by norm_cast
              rw [e41]
              have := Cmax1_val
              nlinarith
            nlinarith
          linarith
        · -- the result is at least 10^Emin
          have hr1 : (10 : ℝ) ^ Emin ≤ ((c + 1 : ℕ) : ℝ) * (10 : ℝ) ^ e := by
            have h1 : (1 : ℝ) ≤ ((c + 1 : ℕ) : ℝ) := by exact_mod_cast Nat.succ_le_succ (Nat.zero_le c)
            have h2 : (10 : ℝ) ^ Emin ≤ (10 : ℝ) ^ e := zpow_le_zpow_right₀ (by norm_num) he0
            have hp : (0 : ℝ) < (10 : ℝ) ^ e := zpow_pos (by norm_num) _
            nlinarith
          -- T < 10^(Emin-40) forces ulpExp T = Emin
          have hp40 : (10 : ℝ) ^ (Emin - 40) * 10 ^ 40 = (10 : ℝ) ^ Emin := by
            rw [zpow_sub₀ (by norm_num : (10 : ℝ) ≠ 0)]
            have : (10 : ℝ) ^ (40 : Int) = 10 ^ 40 := by norm_cast
            rw [this]; field_simp
          have hpm : (0 : ℝ) < (10 : ℝ) ^ (Emin - 40) := zpow_pos (by norm_num) _
          have hue : ulpExp T = Emin := by
            apply le_antisymm _ (ulp_facts hT).1
            rw [ulpExp_le_iff hT]
            refine ⟨le_refl _, ?_⟩
            have := Cmax1_ge
            nlinarith
          rw [hue] at halt
          -- r − T ≤ 10^Emin/2 + T/1000 or 2·T/1000, and T < 10^Emin / 10^40
          have hTE : T * 10 ^ 40 < (10 : ℝ) ^ Emin := by nlinarith
          have hTE' : T < (10 : ℝ) ^ Emin / 4 := by
            have hTp : T * 4 ≤ T * 10 ^ 40 := mul_le_mul_of_nonneg_left (by norm_num) hT.le
            linarith
          rcases halt with ha | ha
          · have := (abs_le.1 ha).2; linarith
          · have := (abs_le.1 ha).2; linarith

/-- **the same for the scaled form used by the rounding kernel theorems** (property C18: the working value
`q·10^k` of `Pow` has relative error at most `tol/2 + 16·10^-39` from the true power `T`) -/
theorem nearest_tol {m : Mode} (hn : isNearest m = true) (neg : Bool) {q : ℚ} (k : Int) {T tol : ℝ}
    (hq : 0 < q) (hT : 0 < T) (ht0 : 0 ≤ tol) (ht1 : tol ≤ 1 / 1000)
    (hc : |((q * (10 : ℚ) ^ k : ℚ) : ℝ) - T| ≤ (tol / 2 + 16 / 10 ^ 39) * T) :
    ¬ PowViolation tol (signed neg T) (Spec.flushOrRoundS m neg q k) := by
  rw [flushOrRoundS_eq m neg q hq.le k]
  exact nearest_tol_W hn neg (mul_pos hq (zpow_pos (by norm_num) _)) hT ht0 ht1 hc

/-- an exact working value: tolerance 0 is enough -/
theorem nearest_exact {m : Mode} (hn : isNearest m = true) (neg : Bool) {q : ℚ} (k : Int) {tol : ℝ}
    (hq : 0 < q) (ht0 : 0 ≤ tol) (ht1 : tol ≤ 1 / 1000) :
    ¬ PowViolation tol (signed neg (((q * (10 : ℚ) ^ k : ℚ)) : ℝ)) (Spec.flushOrRoundS m neg q k) := by
  have hWq : 0 < q * (10 : ℚ) ^ k := mul_pos hq (zpow_pos (by norm_num) _)
  have hW : (0 : ℝ) < ((q * (10 : ℚ) ^ k : ℚ) : ℝ) := by exact_mod_cast hWq
  apply nearest_tol hn neg k hq hW ht0 ht1
  rw [sub_self, abs_zero]
  positivity

/-- the hypotheses are satisfiable: `W = 2`, `T = 2.001`, `tol = 1/1000` -/
example : ¬ PowViolation (1 / 1000) (signed false (2001 / 1000))
    (Spec.flushOrRoundS .nearestEven false 2 0) :=
  nearest_tol (m := .nearestEven) rfl false 0 (by norm_num) (by norm_num) (by norm_num) (le_refl _)
    (by
      have : ((((2 : ℚ) * (10 : ℚ) ^ (0 : Int) : ℚ)) : ℝ) = 2 := by norm_num
      rw [this]
      rw [abs_of_nonpos (by norm_num)]
      norm_num)

end PowAcc
