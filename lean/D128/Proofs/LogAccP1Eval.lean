/-
  D128/Proofs/LogAccP1Eval.lean — evaluated evidence (re-run on every build by `#guard`) about
  `decomposed192.log1p` (Go: /repo/decomposed.go; the 10-term series used by `Log1p` for |x| < 1e-9).

  * `within10`: on sample inputs the returned magnitude `r` satisfies the bound proved in
    `LogAccP1Code.log1p_spec_strong`,  |r − P10(x)| ≤ 10·x/(25·2^184),  evaluated in exact rational
    arithmetic (x = 3e-12 and a 34-digit x just below 1e-9, both signs; x = 1e-3264 at the edge of the range).
  * The exponent hypothesis `-3264 ≤ d.exp` of the theorem is what the operation contracts allow
    (`10·d.exp − 57 − 59` must stay inside `int16` for `x¹⁰/10`).  Evaluation shows the results stay correct
    somewhat further down (the wrapped term `x¹⁰/10` happens to be dropped), and are WRONG from
    `x = 1e-3641` on, where `x⁹` has exponent `-32769` and wraps (recorded finding
    `log1p-tiny-argument-exponent-wrap`): `log1p(1e-3641)` returns `1e+29125`, `log1p(1e-6176)`
    returns `≈ 1.4e+22303` (which `Log1p` turns into `+Inf`).
-/
import D128.Gen.Decomposed
set_option autoImplicit false

namespace LogAccEval

def mk (n : Nat) (e : Int16) : Gen.decomposed192 :=
  ⟨⟨UInt64.ofNat (n % 2 ^ 64), UInt64.ofNat (n / 2 ^ 64 % 2 ^ 64), UInt64.ofNat (n / 2 ^ 128)⟩, e⟩

def sigN (s : U192) : Nat := s.w0.toNat + 2 ^ 64 * s.w1.toNat + 2 ^ 128 * s.w2.toNat

def run (n : Nat) (e : Int16) (neg : Bool) : Option (Bool × Nat × Int16 × Int8) :=
  (Gen.decomposed192.log1p (mk n e) neg).toOption.map
    (fun x => (x.1, sigN x.2.1.sig, x.2.1.exp, x.2.2))

def p10 (e : Int) : Rat := if e ≥ 0 then (10 : Rat) ^ e.toNat else 1 / (10 : Rat) ^ (-e).toNat

/-- `Σ_{j=1}^{10} s_j x^j / j` -/
def P10 (neg : Bool) (x : Rat) : Rat :=
  (List.range 10).foldl (fun (acc : Rat) (j : Nat) =>
    let k : Nat := j + 1
    let s : Rat := if neg || k % 2 == 1 then 1 else -1
    acc + s * x ^ k / (k : Rat)) 0

/-- the proved bound, evaluated: sign passed through, flag in {0,1,-1}, `|r − P10 x| ≤ 10·lam·x`,
exponent window `[e-58, e+1]` -/
def within10 (n : Nat) (e : Int16) (neg : Bool) : Bool :=
  match run n e neg with
  | some (ng, s, ex, t) =>
      let x : Rat := (n : Rat) * p10 e.toInt
      let r : Rat := (s : Rat) * p10 ex.toInt
      let dlt := r - P10 neg x
      ng == neg && (t == 0 || t == 1 || t == -1) && s != 0 &&
        decide ((if dlt < 0 then -dlt else dlt) ≤ 10 * x / (25 * 2 ^ 184 : Rat)) &&
        decide (e.toInt - 58 ≤ ex.toInt) && decide (ex.toInt ≤ e.toInt + 1)
  | none => false

#guard run 3 (-12) false
  == some (false, 2999999999995500000000008999999999979750000000048600000000, -69, -1)
#guard run 3 (-12) true
  == some (true, 3000000000004500000000009000000000020250000000048600000000, -69, -1)
#guard within10 3 (-12) false
#guard within10 3 (-12) true
#guard within10 9999999999999999999999999999999999 (-43) false
#guard within10 9999999999999999999999999999999999 (-43) true
#guard within10 1 (-3264) false
#guard within10 1234567890123456789012345678901234 (-3264) true

/-- beyond the proved range: still correct at `1e-3640`, wrong from `1e-3641` on -/
example : True := trivial
#guard run 1 (-3640) false
  == some (false, 1000000000000000000000000000000000000000000000000000000000, -3697, -1)
#guard run 1 (-3641) false
  == some (false, 1000000000000000000000000000000000000000000000000000000000, 29068, -1)
#guard run 1 (-6176) false
  == some (false, 1428571428571428571428571428571428571428571428571428571428, 22246, -1)

end LogAccEval
