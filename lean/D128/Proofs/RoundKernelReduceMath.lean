/-
  D128/Proofs/RoundKernelReduceMath.lean — the mathematics of digit dropping in `reduce*`
  (no generated code).

  A kernel state `(s, d, t)` at (biased) exponent `e` denotes the value `V` when
  `V = (s + (d + τ)/10) · 10^e` for some `τ` that the sticky flag `t` stands for (`KInv`);
  before any digit has been dropped the state `(N, T)` denotes `(N + τ0) · 10^E` (`KInit`).

  Provided (namespace `RK`):
  * `KInv`, `KInit`, `kinit_exact`, `kinv_drop`, `kinit_drop1`, `kinit_dropp`, `kinv_times10`
  * `kinv_pos`, `kinv_lt_tenth`, `kinv_ge_tenth`
  * `spec_flush`, `spec_round` : `Spec.flushOrRoundS` in terms of the exact value
-/
import D128.Proofs.RoundKernelTable
import D128.Proofs.SpecRoundMain

set_option autoImplicit false

namespace RK
open Spec

/-- the kernel state `(s, d, t)` at exponent `e` denotes `V`; a negative sticky stands for less than
    a tenth of a guard-digit unit unless the significand is still to be divided again -/
def KInv (V : ℚ) (s d : Nat) (t e : Int) : Prop :=
  ∃ τ : ℚ, TruncRel t τ ∧ d ≤ 9 ∧ ((s : ℚ) + ((d : ℚ) + τ) / 10) * Spec.pow10 e = V ∧
    (t = -1 → -1 / 10 < τ ∨ 10 * 2 ^ 110 ≤ s)

/-- the state before any digit has been dropped: `(N + τ0) · 10^E = V` -/
def KInit (V : ℚ) (N : Nat) (T E : Int) (τ0 : ℚ) : Prop :=
  TruncRel T τ0 ∧ ((N : ℚ) + τ0) * Spec.pow10 E = V

theorem truncRel_zero (τ : ℚ) (h : TruncRel 0 τ) : τ = 0 := by
  rcases h with ⟨_, h⟩ | ⟨h, _⟩ | ⟨h, _⟩
  · exact h
  · exact absurd h (by decide)
  · exact absurd h (by decide)

theorem truncRel_div (t : Int) (τ c : ℚ) (hc : 1 ≤ c) (h : TruncRel t τ) : TruncRel t (τ / c) := by
  have hc0 : 0 < c := by linarith
  rcases h with ⟨h1, h2⟩ | ⟨h1, h2, h3⟩ | ⟨h1, h2, h3⟩
  · left; exact ⟨h1, by rw [h2]; simp⟩
  · right; left
    refine ⟨h1, by positivity, ?_⟩
    rw [div_lt_iff₀ hc0]; nlinarith
  · right; right
    refine ⟨h1, ?_, ?_⟩
    · rw [lt_div_iff₀ hc0]; nlinarith
    · exact div_neg_of_neg_of_pos h3 hc0

theorem kinit_exact (V : ℚ) (N : Nat) (E : Int) (τ0 : ℚ) (h : KInit V N 0 E τ0) :
    KInv V N 0 0 E := by
  obtain ⟨h1, h2⟩ := h
  have := truncRel_zero _ h1
  subst this
  refine ⟨0, Or.inl ⟨rfl, rfl⟩, by omega, ?_, by intro h; exact absurd h (by decide)⟩
  rw [← h2]; simp

/-- dropping one digit -/
theorem kinv_drop (V : ℚ) (s d : Nat) (t e : Int) (h : KInv V s d t e) :
    KInv V (s / 10) (s % 10) (if d ≠ 0 then 1 else t) (e + 1) := by
  obtain ⟨τ, hτ, hd, hv, hj⟩ := h
  obtain ⟨b1, b2⟩ : -1 < τ ∧ τ < 1 := by
    rcases hτ with ⟨_, h⟩ | ⟨_, h1, h2⟩ | ⟨_, h1, h2⟩
    · subst h; constructor <;> norm_num
    · constructor <;> linarith
    · constructor <;> linarith
  have hd9 : (d : ℚ) ≤ 9 := by exact_mod_cast hd
  have hsd : (s : ℚ) = 10 * ((s / 10 : Nat) : ℚ) + ((s % 10 : Nat) : ℚ) := by
    exact_mod_cast (Nat.div_add_mod s 10).symm
  refine ⟨((d : ℚ) + τ) / 10, ?_, by omega, ?_, ?_⟩
  · by_cases h0 : d = 0
    · subst h0
      simp only [ne_eq, not_true_eq_false, if_false, Nat.cast_zero, zero_add]
      exact truncRel_div t τ 10 (by norm_num) hτ
    · simp only [ne_eq, h0, not_false_eq_true, if_true]
      have : (1 : ℚ) ≤ (d : ℚ) := by exact_mod_cast (by omega : 1 ≤ d)
      right; left
      refine ⟨rfl, ?_, ?_⟩
      · apply div_pos _ (by norm_num); linarith
      · rw [div_lt_one (by norm_num)]; linarith
  · rw [← hv, pow10_add, pow10_one, hsd]; ring
  · intro ht
    left
    by_cases h0 : d = 0
    · subst h0
      simp only [Nat.cast_zero, zero_add]
      rw [lt_div_iff₀ (by norm_num)]; linarith
    · simp only [ne_eq, h0, not_false_eq_true, if_true] at ht
      exact absurd ht (by decide)

/-- dropping the first digit -/
theorem kinit_drop1 (V : ℚ) (N : Nat) (T E : Int) (τ0 : ℚ) (h : KInit V N T E τ0)
    (hm : T = -1 → 100 * 2 ^ 110 ≤ N ∨ -1 / 10 < τ0) :
    KInv V (N / 10) (N % 10) T (E + 1) := by
  obtain ⟨h1, h2⟩ := h
  have hsd : (N : ℚ) = 10 * ((N / 10 : Nat) : ℚ) + ((N % 10 : Nat) : ℚ) := by
    exact_mod_cast (Nat.div_add_mod N 10).symm
  refine ⟨τ0, h1, by omega, ?_, ?_⟩
  · rw [← h2, pow10_add, pow10_one, hsd]; ring
  · intro ht
    rcases hm ht with h | h
    · right; omega
    · left; exact h

/-- dropping the first `p ≥ 2` digits at once (`c = 10^(p-1)`) -/
theorem kinit_dropp (V : ℚ) (N : Nat) (T E : Int) (τ0 : ℚ) (h : KInit V N T E τ0) (p : Nat)
    (hp : 2 ≤ p) :
    KInv V (N / 10 ^ p) (N % 10 ^ p / 10 ^ (p - 1)) (if N % 10 ^ (p - 1) ≠ 0 then 1 else T)
      (E + (p : Int)) := by
  obtain ⟨h1, h2⟩ := h
  obtain ⟨b1, b2⟩ : -1 < τ0 ∧ τ0 < 1 := by
    rcases h1 with ⟨_, h⟩ | ⟨_, h1, h2⟩ | ⟨_, h1, h2⟩
    · subst h; constructor <;> norm_num
    · constructor <;> linarith
    · constructor <;> linarith
  set c := 10 ^ (p - 1) with hc
  have hcp : 10 ^ p = 10 * c := by
    rw [hc, ← pow_succ']; congr 1; omega
  have hc10 : 10 ≤ c := by
    rw [hc]
    calc 10 = 10 ^ 1 := by norm_num
      _ ≤ 10 ^ (p - 1) := Nat.pow_le_pow_right (by norm_num) (by omega)
  have hcq : (10 : ℚ) ≤ (c : ℚ) := by exact_mod_cast hc10
  have hcq0 : (0 : ℚ) < (c : ℚ) := by linarith
  rw [hcp]
  have hdec1 := (Nat.div_add_mod N (10 * c)).symm
  have hdec2 := (Nat.div_add_mod (N % (10 * c)) c).symm
  have hmm : N % (10 * c) % c = N % c := Nat.mod_mul_left_mod N 10 c
  rw [hmm] at hdec2
  have hdlt : N % (10 * c) / c < 10 := by
    rw [Nat.div_lt_iff_lt_mul (by omega)]
    exact Nat.mod_lt _ (by omega)
  have hlow : N % c < c := Nat.mod_lt _ (by omega)
  have hNq : (N : ℚ) = 10 * (c : ℚ) * ((N / (10 * c) : Nat) : ℚ)
      + (c : ℚ) * ((N % (10 * c) / c : Nat) : ℚ) + ((N % c : Nat) : ℚ) := by
    have : N = 10 * c * (N / (10 * c)) + (c * (N % (10 * c) / c) + N % c) := by
      rw [← hdec2]; exact hdec1
    exact_mod_cast (by omega : N = 10 * c * (N / (10 * c)) + c * (N % (10 * c) / c) + N % c)
  have hlowq : ((N % c : Nat) : ℚ) ≤ (c : ℚ) - 1 := by
    have : N % c + 1 ≤ c := hlow
    have : ((N % c + 1 : Nat) : ℚ) ≤ (c : ℚ) := by exact_mod_cast this
    push_cast at this; linarith
  have hlow0 : (0 : ℚ) ≤ ((N % c : Nat) : ℚ) := by positivity
  have hpe : Spec.pow10 (E + (p : Int)) = Spec.pow10 E * (10 * (c : ℚ)) := by
    have hcpq : (10 : ℚ) ^ p = 10 * (c : ℚ) := by exact_mod_cast hcp
    rw [pow10_add, pow10_natCast, hcpq]
  refine ⟨(((N % c : Nat) : ℚ) + τ0) / (c : ℚ), ?_, by omega, ?_, ?_⟩
  · by_cases h0 : N % c = 0
    · simp only [h0, ne_eq, not_true_eq_false, if_false, Nat.cast_zero, zero_add]
      exact truncRel_div T τ0 c (by linarith) h1
    · simp only [ne_eq, h0, not_false_eq_true, if_true]
      have : (1 : ℚ) ≤ ((N % c : Nat) : ℚ) := by exact_mod_cast (by omega : 1 ≤ N % c)
      right; left
      refine ⟨rfl, ?_, ?_⟩
      · apply div_pos _ hcq0; linarith
      · rw [div_lt_one hcq0]; linarith
  · rw [← h2, hpe, hNq]
    field_simp
    ring
  · intro ht
    left
    by_cases h0 : N % c = 0
    · simp only [h0, Nat.cast_zero, zero_add]
      rw [lt_div_iff₀ hcq0]; nlinarith
    · simp only [ne_eq, h0, not_false_eq_true, if_true] at ht
      exact absurd ht (by decide)

/-- taking a zero back into an exact significand -/
theorem kinv_times10 (V : ℚ) (s : Nat) (e : Int) (h : KInv V s 0 0 e) :
    KInv V (10 * s) 0 0 (e - 1) := by
  obtain ⟨τ, hτ, _, hv, _⟩ := h
  have := truncRel_zero _ hτ
  subst this
  refine ⟨0, Or.inl ⟨rfl, rfl⟩, by omega, ?_, by intro h; exact absurd h (by decide)⟩
  rw [← hv, pow10_sub, pow10_one]
  push_cast
  ring

/-! ## bounds on the value -/

theorem kinv_lt_tenth (V : ℚ) (d : Nat) (t e : Int) (h : KInv V 0 d t e) (he : e < 0) (hV : 0 < V) :
    V < 1 / 10 := by
  obtain ⟨τ, hτ, hd, hv, _⟩ := h
  obtain ⟨b1, b2⟩ : -1 < τ ∧ τ < 1 := by
    rcases hτ with ⟨_, h⟩ | ⟨_, h1, h2⟩ | ⟨_, h1, h2⟩
    · subst h; constructor <;> norm_num
    · constructor <;> linarith
    · constructor <;> linarith
  have hd9 : (d : ℚ) ≤ 9 := by exact_mod_cast hd
  have hp : Spec.pow10 e ≤ 1 / 10 := by
    rw [← pow10_neg_one]; exact (pow10_le_iff _ _).2 (by omega)
  have hp0 := pow10_pos e
  simp only [Nat.cast_zero, zero_add] at hv
  have hx1 : ((d : ℚ) + τ) / 10 < 1 := by rw [div_lt_one (by norm_num)]; linarith
  have hx0 : 0 < ((d : ℚ) + τ) / 10 := by
    by_contra hc
    have : ((d : ℚ) + τ) / 10 * Spec.pow10 e ≤ 0 :=
      mul_nonpos_of_nonpos_of_nonneg (not_lt.1 hc) (le_of_lt hp0)
    linarith
  rw [← hv]
  calc ((d : ℚ) + τ) / 10 * Spec.pow10 e < 1 * Spec.pow10 e :=
        mul_lt_mul_of_pos_right hx1 hp0
    _ ≤ 1 / 10 := by linarith

theorem kinv_ge_tenth (V : ℚ) (s d : Nat) (t e : Int) (h : KInv V s d t e) (he : 0 ≤ e)
    (hsd : 1 ≤ 10 * s + d) (hm : t = -1 → 1 / 10 ≤ V) : 1 / 10 ≤ V := by
  obtain ⟨τ, hτ, hd, hv, _⟩ := h
  by_cases ht : t = -1
  · exact hm ht
  · have hτ0 : 0 ≤ τ := by
      rcases hτ with ⟨_, h⟩ | ⟨_, h1, _⟩ | ⟨h, _⟩
      · rw [h]
      · exact le_of_lt h1
      · exact absurd h ht
    have hp : 1 ≤ Spec.pow10 e := by
      rw [← pow10_zero]; exact (pow10_le_iff _ _).2 he
    have hsdq : (1 : ℚ) ≤ 10 * (s : ℚ) + (d : ℚ) := by exact_mod_cast hsd
    have hx : 1 / 10 ≤ (s : ℚ) + ((d : ℚ) + τ) / 10 := by
      rw [div_le_iff₀ (by norm_num)]
      have : ((s : ℚ) + ((d : ℚ) + τ) / 10) * 10 = 10 * (s : ℚ) + (d : ℚ) + τ := by ring
      rw [this]; linarith
    rw [← hv]
    calc (1 : ℚ) / 10 = 1 / 10 * 1 := by ring
      _ ≤ ((s : ℚ) + ((d : ℚ) + τ) / 10) * Spec.pow10 e :=
          mul_le_mul hx hp (by norm_num) (by linarith)

/-! ## the specification in terms of the exact value (`V` carries the bias `10^6176`) -/

theorem spec_flush (m : Mode) (neg : Bool) (q : ℚ) (k : Int) (hq : 0 < q) (V : ℚ)
    (hV : q * Spec.pow10 k = V * Spec.pow10 (-6176)) (h : V < 1 / 10) :
    flushOrRoundS m neg q k = .fin neg 0 Emin := by
  rw [SpecRound.flushOrRoundS_eq m neg q (le_of_lt hq) k]
  have hU : q * (10 : ℚ) ^ k = V * Spec.pow10 (-6176) := by rw [← pow10_eq]; exact hV
  have hpos : 0 < q * (10 : ℚ) ^ k := mul_pos hq (zpow_pos (by norm_num) _)
  apply SpecRound.flushOrRound_tiny m neg hpos
  rw [hU, ← pow10_eq]
  have : Spec.pow10 (Emin - 1) = 1 / 10 * Spec.pow10 (-6176) := by
    have : Emin - 1 = -1 + -6176 := by unfold Spec.Emin; ring
    rw [this, pow10_add, pow10_neg_one]
  rw [this]
  exact mul_lt_mul_of_pos_right h (pow10_pos _)

theorem spec_round (m : Mode) (neg : Bool) (q : ℚ) (k : Int) (hq : 0 < q) (V : ℚ)
    (hV : q * Spec.pow10 k = V * Spec.pow10 (-6176)) (h : 1 / 10 ≤ V)
    (q' : ℚ) (k' : Int) (hq' : 0 < q') (hV' : q' * Spec.pow10 k' = V * Spec.pow10 (-6176)) :
    flushOrRoundS m neg q k = roundToS m neg q' k' := by
  rw [SpecRound.flushOrRoundS_eq m neg q (le_of_lt hq) k,
    SpecRound.roundToS_eq_roundTo m neg q' hq' k']
  have hU : q * (10 : ℚ) ^ k = q' * (10 : ℚ) ^ k' := by
    rw [← pow10_eq, ← pow10_eq, hV, hV']
  rw [← hU]
  apply SpecRound.flushOrRound_eq_roundTo
  rw [← pow10_eq, ← pow10_eq, hV]
  have : Spec.pow10 (Emin - 1) = 1 / 10 * Spec.pow10 (-6176) := by
    have : Emin - 1 = -1 + -6176 := by unfold Spec.Emin; ring
    rw [this, pow10_add, pow10_neg_one]
  rw [this]
  exact mul_le_mul_of_nonneg_right h (le_of_lt (pow10_pos _))

/-! ## entry states of the 128-bit ladder, and wide digit dropping -/

/-- A significand `n` without guard digit and a sticky flag `t` at exponent `e` denote `V`, and satisfy
    what the 128-bit ladder needs: a sticky comes with a digit to drop, a negative sticky is small or
    comes with two digits to drop, and with a negative sticky the value is not below `10^(Emin-1)`
    (`V` carries the bias `10^6176`). -/
def Entry (V : ℚ) (n : Nat) (t e : Int) : Prop :=
  ∃ τ : ℚ, TruncRel t τ ∧ ((n : ℚ) + τ) * Spec.pow10 e = V ∧ (t = 1 → Spec.Cmax < n) ∧
    (t = -1 → Spec.Cmax < n ∧ (100 * 2 ^ 110 ≤ n ∨ -1 / 10 < τ)) ∧ (t = -1 → 1 / 10 ≤ V)

/-- dropping `j ≥ 1` digits (`c = 10^j`) from a significand that stays above `Cmax` -/
theorem entry_drop (V : ℚ) (n : Nat) (t e : Int) (c j : Nat) (hc : c = 10 ^ j) (hj : 1 ≤ j)
    (hn : c * (Spec.Cmax + 1) ≤ n) (h : Entry V n t e) :
    Entry V (n / c) (if n % c ≠ 0 then 1 else t) (e + (j : Int)) := by
  obtain ⟨τ, hτ, hv, h1, hm1, hfl⟩ := h
  obtain ⟨b1, b2⟩ : -1 < τ ∧ τ < 1 := by
    rcases hτ with ⟨_, h⟩ | ⟨_, h1, h2⟩ | ⟨_, h1, h2⟩
    · subst h; constructor <;> norm_num
    · constructor <;> linarith
    · constructor <;> linarith
  have hc10 : 10 ≤ c := by
    rw [hc]
    calc 10 = 10 ^ 1 := by norm_num
      _ ≤ 10 ^ j := Nat.pow_le_pow_right (by norm_num) hj
  have hcq : (10 : ℚ) ≤ (c : ℚ) := by exact_mod_cast hc10
  have hcq0 : (0 : ℚ) < (c : ℚ) := by linarith
  have hdec : (n : ℚ) = (c : ℚ) * ((n / c : Nat) : ℚ) + ((n % c : Nat) : ℚ) := by
    exact_mod_cast (Nat.div_add_mod n c).symm
  have hlow : n % c < c := Nat.mod_lt _ (by omega)
  have hlowq : ((n % c : Nat) : ℚ) ≤ (c : ℚ) - 1 := by
    have : ((n % c + 1 : Nat) : ℚ) ≤ (c : ℚ) := by exact_mod_cast hlow
    push_cast at this; linarith
  have hlow0 : (0 : ℚ) ≤ ((n % c : Nat) : ℚ) := by positivity
  have hbig : Spec.Cmax < n / c := by
    have : Spec.Cmax + 1 ≤ n / c := (Nat.le_div_iff_mul_le (by omega)).2 (by rw [Nat.mul_comm]; exact hn)
    omega
  have hpe : Spec.pow10 (e + (j : Int)) = Spec.pow10 e * (c : ℚ) := by
    rw [pow10_add, pow10_natCast, hc]; push_cast; ring
  refine ⟨(((n % c : Nat) : ℚ) + τ) / (c : ℚ), ?_, ?_, fun _ => hbig, ?_, ?_⟩
  · by_cases h0 : n % c = 0
    · simp only [h0, ne_eq, not_true_eq_false, if_false, Nat.cast_zero, zero_add]
      exact truncRel_div t τ c (by linarith) hτ
    · simp only [ne_eq, h0, not_false_eq_true, if_true]
      have : (1 : ℚ) ≤ ((n % c : Nat) : ℚ) := by exact_mod_cast (by omega : 1 ≤ n % c)
      right; left
      refine ⟨rfl, ?_, ?_⟩
      · apply div_pos _ hcq0; linarith
      · rw [div_lt_one hcq0]; linarith
  · rw [← hv, hpe, hdec]
    field_simp
    ring
  · intro ht
    refine ⟨hbig, Or.inr ?_⟩
    by_cases h0 : n % c = 0
    · simp only [h0, Nat.cast_zero, zero_add]
      rw [lt_div_iff₀ hcq0]; nlinarith
    · simp only [ne_eq, h0, not_false_eq_true, if_true] at ht
      exact absurd ht (by decide)
  · intro ht
    by_cases h0 : n % c = 0
    · simp only [h0, ne_eq, not_true_eq_false, if_false] at ht
      exact hfl ht
    · simp only [ne_eq, h0, not_false_eq_true, if_true] at ht
      exact absurd ht (by decide)

theorem entry_pos (V : ℚ) (n : Nat) (t e : Int) (h : Entry V n t e) (hV : 0 < V) : 1 ≤ n := by
  obtain ⟨τ, hτ, hv, h1, _, _⟩ := h
  by_contra hc
  have hn : n = 0 := by omega
  subst hn
  have hpos : 0 < ((0 : Nat) : ℚ) + τ := by
    by_contra hc'
    have : (((0 : Nat) : ℚ) + τ) * Spec.pow10 e ≤ 0 :=
      mul_nonpos_of_nonpos_of_nonneg (not_lt.1 hc') (le_of_lt (pow10_pos _))
    linarith
  simp only [Nat.cast_zero, zero_add] at hpos
  rcases hτ with ⟨_, h⟩ | ⟨ht, _, _⟩ | ⟨_, _, h⟩
  · rw [h] at hpos; exact lt_irrefl _ hpos
  · have := h1 ht; omega
  · linarith

end RK
