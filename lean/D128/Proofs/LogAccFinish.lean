/-
  D128/Proofs/LogAccFinish.lean — the finish stage of `Log`, `Log2`, `Log10`, `Log1p` (Go: /repo/exp.go)
      sig, exp := DefaultRoundingMode.reduce192(neg, res.sig, res.exp+exponentBias, trunc)
      if exp > maxBiasedExponent { return inf(neg) }; return compose(neg, sig, exp)
  i.e. `Root.finishK rm neg res.sig (res.exp + 6176) trunc`, for a working value `res` that is close to the
  true real result `T`, under the two nearest modes and with a sticky flag that may be stale or wrong.

  Provided (namespace `LogAcc`):
  * `mode_of`            : mode bytes 0, 1 denote `nearestEven`, `nearestAway`
  * `val_cast`           : `(D192.val res : ℝ) = sig·10^exp`
  * `finishK_ok`         : `finishK` from the result of `reduce192` (exponent in range)
  * `exists_tau_small`   : every flag value has a compatible remainder `τ` with `-1/10 < τ` and `|τ| < δ`
  * `finish_small`       : the case `res.sig ≤ Cmax` (the working value is returned unchanged)
  * `finish_large_core`  : the case `Cmax < res.sig` for a given compatible remainder
  * `finish_within_ulp'`, `finish_within_ulp` (the same with the redundant hypothesis `res.sig.toNat ≠ 0`)
                         : **main theorem** — `|val res − T| < u/2` ⇒ the finish stage returns a finite Decimal of
                           the given sign within `u` of `T`, and `T` itself when `T` is a member and
                           `|val res − T| < u/20`   (`u = 10^(ulpExp T)`)
-/
import D128.Proofs.LogAccRound
import D128.Proofs.LogAccSmall
import D128.Proofs.D192RootFinish
import D128.Proofs.D192Base
set_option autoImplicit false
set_option maxRecDepth 4096

namespace LogAcc
open Gen Spec SpecRound EnclPf
local notation "𝔳[" d "]" => Spec.interp (Gen.Decimal.lo d) (Gen.Decimal.hi d)

theorem mode_of (rm : UInt8) (hrm : rm = 0 ∨ rm = 1) :
    ∃ m, Spec.Mode.ofNat? rm.toNat = some m ∧ isNearest m = true := by
  rcases hrm with rfl | rfl
  · exact ⟨.nearestEven, rfl, rfl⟩
  · exact ⟨.nearestAway, rfl, rfl⟩

theorem val_cast (res : Gen.decomposed192) :
    ((D192.val res : ℚ) : ℝ) = (res.sig.toNat : ℝ) * (10 : ℝ) ^ res.exp.toInt := by
  unfold D192.val; push_cast; rfl

/-- the finish stage, given what `reduce192` returns -/
theorem finishK_ok (rm : UInt8) (neg : Bool) (sig : U192) (exp : Int16) (trunc : Int8) (s : U128)
    (e : Int16) (hred : RoundingMode.reduce192 rm neg sig exp trunc = .ok (s, e))
    (hle : e.toInt ≤ 12287) : Root.finishK rm neg sig exp trunc = .ok (compose neg s e) := by
  have e12 : (e > 12287) ↔ e.toInt > 12287 := by
    rw [gt_iff_lt, Int16.lt_iff_toInt_lt]; simp
  unfold Root.finishK
  rw [hred]
  show (if decide (e > 12287) = true then _ else _) = _
  rw [if_neg (by simpa [e12] using hle)]; rfl

/-- a remainder compatible with a flag value, as small as we like -/
theorem exists_tau_small (trunc : Int8) (ht : trunc = 0 ∨ trunc = 1 ∨ trunc = -1) (δ : ℝ) (hδ : 0 < δ) :
    ∃ τ : ℚ, RK.TruncRel trunc.toInt τ ∧ -1 / 10 < τ ∧ |(τ : ℝ)| < δ := by
  obtain ⟨q, hq0, hq1⟩ := exists_rat_btwn (lt_min (by norm_num : (0 : ℝ) < 1 / 20) hδ)
  have hq0' : (0 : ℚ) < q := by exact_mod_cast hq0
  have hq20 : (q : ℝ) < 1 / 20 := lt_of_lt_of_le hq1 (min_le_left _ _)
  have hqδ : (q : ℝ) < δ := lt_of_lt_of_le hq1 (min_le_right _ _)
  have hq20' : q < 1 / 20 := by
    have : (q : ℝ) < ((1 / 20 : ℚ) : ℝ) := by push_cast; exact hq20
    exact_mod_cast this
  rcases ht with h | h | h
  · exact ⟨0, Or.inl ⟨by rw [h]; decide, rfl⟩, by norm_num, by simpa using hδ⟩
  · exact ⟨q, Or.inr (Or.inl ⟨by rw [h]; decide, hq0', by linarith⟩), by linarith,
      by rw [abs_of_pos hq0]; exact hqδ⟩
  · exact ⟨-q, Or.inr (Or.inr ⟨by rw [h]; decide, by linarith, by linarith⟩), by linarith,
      by push_cast; rw [abs_neg, abs_of_pos hq0]; exact hqδ⟩

/-- the case of a working significand that already fits the format: it is returned unchanged -/
theorem finish_small (rm : UInt8) (neg : Bool) (res : Gen.decomposed192) (trunc : Int8) (T : ℝ)
    (hrm : rm = 0 ∨ rm = 1) (hs : res.sig.toNat ≤ Spec.Cmax)
    (he0 : -6000 ≤ res.exp.toInt) (he1 : res.exp.toInt ≤ 6000)
    (hT0 : (10 : ℝ) ^ (-6000 : ℤ) ≤ T)
    (hclose : |((D192.val res : ℚ) : ℝ) - T| < (10 : ℝ) ^ (EnclPf.ulpExp T) / 2) :
    ∃ r c e, Root.finishK rm neg res.sig (res.exp + 6176) trunc = .ok r ∧ 𝔳[r] = .fin neg c e ∧
      c ≤ Spec.Cmax ∧ Spec.Emin ≤ e ∧ e ≤ Spec.Emax ∧
      |(c : ℝ) * (10 : ℝ) ^ e - T| ≤ (10 : ℝ) ^ (EnclPf.ulpExp T) ∧
      (|((D192.val res : ℚ) : ℝ) - T| < (10 : ℝ) ^ (EnclPf.ulpExp T) / 20 →
        ∀ c' e', c' ≤ Spec.Cmax → Spec.Emin ≤ e' → e' ≤ Spec.Emax → T = (c' : ℝ) * (10 : ℝ) ^ e' →
          (c : ℝ) * (10 : ℝ) ^ e = T) := by
  have hT : 0 < T := lt_of_lt_of_le (zpow_pos (by norm_num) _) hT0
  have hE := Root.cbrt_exp res.exp (by omega) (by omega)
  have hup : (0 : ℝ) < (10 : ℝ) ^ (EnclPf.ulpExp T) := zpow_pos (by norm_num) _
  have hlo := small_lo res.sig hs
  have hred := reduce192_small rm neg res.sig (res.exp + 6176) trunc hrm hs (by omega) (by omega)
  have hint := Sp.interp_compose neg (⟨res.sig.w0, res.sig.w1⟩ : U128) (res.exp + 6176)
    (by rw [hlo]; exact hs) (by omega) (by omega)
  rw [hlo, hE, show res.exp.toInt + 6176 - 6176 = res.exp.toInt by ring] at hint
  rw [val_cast] at hclose ⊢
  refine ⟨_, res.sig.toNat, res.exp.toInt, finishK_ok _ _ _ _ _ _ _ hred (by omega), hint, hs,
    by unfold Spec.Emin; omega, by unfold Spec.Emax; omega, by linarith, ?_⟩
  intro h20 c' e' hc' h1 _ hT'
  exact members_close_eq hT hs (by unfold Spec.Emin; omega) hc' h1 hT' (by linarith)

/-- the case of a long working significand, for a given remainder `τ` compatible with the flag: the value
`W = (sig + τ)·10^exp` that the rounding kernel rounds is still within half a unit of `T` -/
theorem finish_large_core (rm : UInt8) (neg : Bool) (res : Gen.decomposed192) (trunc : Int8) (T : ℝ)
    (τ : ℚ) (hrm : rm = 0 ∨ rm = 1) (hCm : Spec.Cmax < res.sig.toNat)
    (he0 : -6000 ≤ res.exp.toInt) (he1 : res.exp.toInt ≤ 6000)
    (hT0 : (10 : ℝ) ^ (-6000 : ℤ) ≤ T) (hT1 : T ≤ (10 : ℝ) ^ (6000 : ℤ))
    (hrel : RK.TruncRel trunc.toInt τ) (hτ0 : -1 / 10 < τ)
    (hW : |((((res.sig.toNat : ℚ) + τ) * (10 : ℚ) ^ res.exp.toInt : ℚ) : ℝ) - T|
      ≤ (10 : ℝ) ^ (EnclPf.ulpExp T) / 2)
    (hW20 : |((D192.val res : ℚ) : ℝ) - T| < (10 : ℝ) ^ (EnclPf.ulpExp T) / 20 →
      |((((res.sig.toNat : ℚ) + τ) * (10 : ℚ) ^ res.exp.toInt : ℚ) : ℝ) - T|
        < (10 : ℝ) ^ (EnclPf.ulpExp T) / 20) :
    ∃ r c e, Root.finishK rm neg res.sig (res.exp + 6176) trunc = .ok r ∧ 𝔳[r] = .fin neg c e ∧
      c ≤ Spec.Cmax ∧ Spec.Emin ≤ e ∧ e ≤ Spec.Emax ∧
      |(c : ℝ) * (10 : ℝ) ^ e - T| ≤ (10 : ℝ) ^ (EnclPf.ulpExp T) ∧
      (|((D192.val res : ℚ) : ℝ) - T| < (10 : ℝ) ^ (EnclPf.ulpExp T) / 20 →
        ∀ c' e', c' ≤ Spec.Cmax → Spec.Emin ≤ e' → e' ≤ Spec.Emax → T = (c' : ℝ) * (10 : ℝ) ^ e' →
          (c : ℝ) * (10 : ℝ) ^ e = T) := by
  obtain ⟨m, hm, hn⟩ := mode_of rm hrm
  have hE := Root.cbrt_exp res.exp (by omega) (by omega)
  have hE' : (res.exp + 6176).toInt - 6176 = res.exp.toInt := by omega
  have hq : 0 < (res.sig.toNat : ℚ) + τ := by
    have : (1 : ℚ) ≤ (res.sig.toNat : ℚ) := by exact_mod_cast (by omega : 1 ≤ res.sig.toNat)
    linarith
  generalize hWdef : ((res.sig.toNat : ℚ) + τ) * (10 : ℚ) ^ res.exp.toInt = W at hW hW20
  have hWpos : 0 < W := by rw [← hWdef]; exact mul_pos hq (zpow_pos (by norm_num) _)
  have hge := close_ge hT0 hW
  obtain ⟨c0, e0, hfin, hc0, he00, he01, hb, hex⟩ :=
    nearest_within_ulp m hn neg W T hWpos hT0 hT1 hW
  have hspec : Spec.flushOrRoundS m neg ((res.sig.toNat : ℚ) + τ) ((res.exp + 6176).toInt - 6176)
      = .fin neg c0 e0 := by
    rw [hE', flushOrRoundS_eq m neg _ hq.le, hWdef, flushOrRound_eq_roundTo m neg hge, hfin]
  obtain ⟨sig', exp', hred, hpost⟩ := reduce192_correct rm m neg res.sig (res.exp + 6176) trunc τ hm
    (by omega) (by omega) hrel hq (fun _ => hCm) (fun _ => ⟨hCm, Or.inr hτ0⟩)
    (fun _ => by rw [hE', pow10_eq_zpow, pow10_eq_zpow, hWdef]; exact hge)
  rw [hspec] at hpost
  by_cases hgt : exp'.toInt > 12287
  · rw [if_pos hgt] at hpost; cases hpost
  · rw [if_neg hgt] at hpost
    obtain ⟨hs', he', hsame⟩ := hpost
    have hmag : (sig'.toNat : ℝ) * (10 : ℝ) ^ (exp'.toInt - 6176) = (c0 : ℝ) * (10 : ℝ) ^ e0 := by
      simp only [Spec.Val.same, Bool.and_eq_true, beq_iff_eq, Spec.mag, pow10_eq_zpow] at hsame
      have h1 := hsame.2.symm
      have h2 : (((sig'.toNat : ℚ) * (10 : ℚ) ^ (exp'.toInt - 6176) : ℚ) : ℝ)
          = (((c0 : ℚ) * (10 : ℚ) ^ e0 : ℚ) : ℝ) := by rw [h1]
      push_cast at h2; exact h2
    refine ⟨compose neg sig' exp', sig'.toNat, exp'.toInt - 6176,
      finishK_ok _ _ _ _ _ _ _ hred (by omega), Sp.interp_compose neg sig' exp' hs' he' (by omega), hs',
      by unfold Spec.Emin; omega, by unfold Spec.Emax; omega, ?_, ?_⟩
    · rw [hmag]; exact hb
    · intro h20 c' e' hc' h1 h2 hT'
      rw [hmag]; exact hex (hW20 h20) c' e' hc' h1 h2 hT'

/-- **The finish stage of the logarithm functions.**  `res` is the 57-digit working result, `T` the true real
value with `10^-6000 ≤ T ≤ 10^6000`, `u = 10^(ulpExp T)` the unit in the last place of the format at `T`.
If `val res` is within `u/2` of `T` then — for both nearest modes and EVERY value of the sticky flag — the final
rounding does not panic and returns a finite Decimal of the given sign whose magnitude is within `u` of `T`; and
if moreover `val res` is within `u/20` of `T` and `T` is itself a member of the format, the result is `T`. -/
theorem finish_within_ulp' (rm : UInt8) (neg : Bool) (res : Gen.decomposed192) (trunc : Int8) (T : ℝ)
    (hrm : rm = 0 ∨ rm = 1) (ht : trunc = 0 ∨ trunc = 1 ∨ trunc = -1)
    (he0 : -6000 ≤ res.exp.toInt) (he1 : res.exp.toInt ≤ 6000)
    (hT0 : (10 : ℝ) ^ (-6000 : ℤ) ≤ T) (hT1 : T ≤ (10 : ℝ) ^ (6000 : ℤ))
    (hclose : |((D192.val res : ℚ) : ℝ) - T| < (10 : ℝ) ^ (EnclPf.ulpExp T) / 2) :
    ∃ r c e, Root.finishK rm neg res.sig (res.exp + 6176) trunc = .ok r ∧ 𝔳[r] = .fin neg c e ∧
      c ≤ Spec.Cmax ∧ Spec.Emin ≤ e ∧ e ≤ Spec.Emax ∧
      |(c : ℝ) * (10 : ℝ) ^ e - T| ≤ (10 : ℝ) ^ (EnclPf.ulpExp T) ∧
      (|((D192.val res : ℚ) : ℝ) - T| < (10 : ℝ) ^ (EnclPf.ulpExp T) / 20 →
        ∀ c' e', c' ≤ Spec.Cmax → Spec.Emin ≤ e' → e' ≤ Spec.Emax → T = (c' : ℝ) * (10 : ℝ) ^ e' →
          (c : ℝ) * (10 : ℝ) ^ e = T) := by
  by_cases hs : res.sig.toNat ≤ Spec.Cmax
  · exact finish_small rm neg res trunc T hrm hs he0 he1 hT0 hclose
  · have hCm : Spec.Cmax < res.sig.toNat := by omega
    have hup : (0 : ℝ) < (10 : ℝ) ^ (EnclPf.ulpExp T) := zpow_pos (by norm_num) _
    have hp : (0 : ℝ) < (10 : ℝ) ^ res.exp.toInt := zpow_pos (by norm_num) _
    -- the room left by the strict hypotheses
    obtain ⟨g, hg0, hg1, hg2⟩ : ∃ g : ℝ, 0 < g ∧
        |((D192.val res : ℚ) : ℝ) - T| + g ≤ (10 : ℝ) ^ (EnclPf.ulpExp T) / 2 ∧
        (|((D192.val res : ℚ) : ℝ) - T| < (10 : ℝ) ^ (EnclPf.ulpExp T) / 20 →
          |((D192.val res : ℚ) : ℝ) - T| + g ≤ (10 : ℝ) ^ (EnclPf.ulpExp T) / 20) := by
      by_cases h : |((D192.val res : ℚ) : ℝ) - T| < (10 : ℝ) ^ (EnclPf.ulpExp T) / 20
      · exact ⟨(10 : ℝ) ^ (EnclPf.ulpExp T) / 20 - |((D192.val res : ℚ) : ℝ) - T|, by linarith,
          by linarith, fun _ => by linarith⟩
      · exact ⟨(10 : ℝ) ^ (EnclPf.ulpExp T) / 2 - |((D192.val res : ℚ) : ℝ) - T|, by linarith,
          by linarith, fun h' => absurd h' h⟩
    obtain ⟨τ, hrel, hτ0, hτabs⟩ := exists_tau_small trunc ht (g / (10 : ℝ) ^ res.exp.toInt)
      (div_pos hg0 hp)
    rw [lt_div_iff₀ hp] at hτabs
    have key : |((((res.sig.toNat : ℚ) + τ) * (10 : ℚ) ^ res.exp.toInt : ℚ) : ℝ) - T|
        ≤ |((D192.val res : ℚ) : ℝ) - T| + |(τ : ℝ)| * (10 : ℝ) ^ res.exp.toInt := by
      have e : ((((res.sig.toNat : ℚ) + τ) * (10 : ℚ) ^ res.exp.toInt : ℚ) : ℝ) - T
          = (((D192.val res : ℚ) : ℝ) - T) + (τ : ℝ) * (10 : ℝ) ^ res.exp.toInt := by
        rw [val_cast]; push_cast; ring
      rw [e]
      refine le_trans (abs_add_le _ _) ?_
      rw [abs_mul, abs_of_pos hp]
    exact finish_large_core rm neg res trunc T τ hrm hCm he0 he1 hT0 hT1 hrel hτ0 (by linarith)
      (fun h => by linarith [hg2 h])

/-- `finish_within_ulp'` in the form with the (redundant: `hclose` and `T ≥ 10^-6000` already exclude a zero
significand) hypothesis `res.sig.toNat ≠ 0`, as stated by the callers. -/
theorem finish_within_ulp (rm : UInt8) (neg : Bool) (res : Gen.decomposed192) (trunc : Int8) (T : ℝ)
    (hrm : rm = 0 ∨ rm = 1) (ht : trunc = 0 ∨ trunc = 1 ∨ trunc = -1)
    (_hsig : res.sig.toNat ≠ 0) (he0 : -6000 ≤ res.exp.toInt) (he1 : res.exp.toInt ≤ 6000)
    (hT0 : (10 : ℝ) ^ (-6000 : ℤ) ≤ T) (hT1 : T ≤ (10 : ℝ) ^ (6000 : ℤ))
    (hclose : |((D192.val res : ℚ) : ℝ) - T| < (10 : ℝ) ^ (EnclPf.ulpExp T) / 2) :
    ∃ r c e, Root.finishK rm neg res.sig (res.exp + 6176) trunc = .ok r ∧ 𝔳[r] = .fin neg c e ∧
      c ≤ Spec.Cmax ∧ Spec.Emin ≤ e ∧ e ≤ Spec.Emax ∧
      |(c : ℝ) * (10 : ℝ) ^ e - T| ≤ (10 : ℝ) ^ (EnclPf.ulpExp T) ∧
      (|((D192.val res : ℚ) : ℝ) - T| < (10 : ℝ) ^ (EnclPf.ulpExp T) / 20 →
        ∀ c' e', c' ≤ Spec.Cmax → Spec.Emin ≤ e' → e' ≤ Spec.Emax → T = (c' : ℝ) * (10 : ℝ) ^ e' →
          (c : ℝ) * (10 : ℝ) ^ e = T) :=
  finish_within_ulp' rm neg res trunc T hrm ht he0 he1 hT0 hT1 hclose

/-- the hypotheses of `finish_within_ulp` are satisfiable: the working value `3·10^0`, true value `T = 3`,
any mode byte in {0, 1}, any flag -/
example (rm : UInt8) (neg : Bool) (trunc : Int8) (hrm : rm = 0 ∨ rm = 1)
    (ht : trunc = 0 ∨ trunc = 1 ∨ trunc = -1) :=
  finish_within_ulp rm neg ⟨⟨3, 0, 0⟩, 0⟩ trunc 3 hrm ht (by simp [U192.toNat]) (by decide) (by decide)
    (le_trans (zpow_le_one_of_nonpos₀ (by norm_num) (by norm_num)) (by norm_num))
    (le_trans (by norm_num : (3 : ℝ) ≤ (10 : ℝ) ^ (1 : ℤ)) (zpow_le_zpow_right₀ (by norm_num) (by norm_num)))
    (by
      have : ((D192.val ⟨⟨3, 0, 0⟩, 0⟩ : ℚ) : ℝ) = 3 := by
        rw [val_cast]; simp [U192.toNat]
      rw [this, sub_self, abs_zero]
      exact div_pos (zpow_pos (by norm_num) _) (by norm_num))

/-- … and on the long path (`Cmax < sig`): the 57-digit working value `3·10^56 · 10^-56` with a stale
negative flag, ToNearestAway -/
example (neg : Bool) :=
  finish_within_ulp 1 neg ⟨⟨7133701809754865664, 18014212251170167591, 881620763116715630⟩, -56⟩ (-1) 3
    (Or.inr rfl) (Or.inr (Or.inr rfl)) (by simp [U192.toNat]) (by decide) (by decide)
    (le_trans (zpow_le_one_of_nonpos₀ (by norm_num) (by norm_num)) (by norm_num))
    (le_trans (by norm_num : (3 : ℝ) ≤ (10 : ℝ) ^ (1 : ℤ)) (zpow_le_zpow_right₀ (by norm_num) (by norm_num)))
    (by
      have h56 : (-56 : Int16).toInt = -56 := by decide
      have : ((D192.val ⟨⟨7133701809754865664, 18014212251170167591, 881620763116715630⟩, -56⟩ : ℚ) : ℝ)
          = 3 := by
        have hn : (⟨7133701809754865664, 18014212251170167591, 881620763116715630⟩ : U192).toNat
            = 3 * 10 ^ 56 := by decide
        rw [val_cast]; simp only [hn, h56]; norm_num
      rw [this, sub_self, abs_zero]
      exact div_pos (zpow_pos (by norm_num) _) (by norm_num))

end LogAcc
