/-
  D128/Proofs/ExpAccM1Round.lean — property C16: staging of `Gen.Expm1` and its final rounding.

  Provided (namespace `ExpAcc`):
  * `outM1 sb`          : the out-of-range value of `Expm1` (`-1` for a negative argument, `+Inf` otherwise)
  * `expm1Round`, `expm1Staged`, `Expm1_eq : Gen.Expm1 g d = expm1Staged g d := rfl`, `Expm1_fin`
  * `gv_m1_of_huge`     : `10^35 ≤ e^A` ⇒ `-1` is no `GeneralViolation` for `e^(-A) - 1`
  * `outM1_ok`          : the out-of-range value against the real target
  * `expm1Round_ok`     : the final rounding of a working value `Near` the target `|e^(±A) - 1|`, sign as the argument
-/
import D128.Proofs.ExpAccEpow
import D128.Proofs.ExpAccHornerM1
set_option autoImplicit false
set_option maxRecDepth 4096
set_option exponentiation.threshold 512

namespace ExpAcc
open Gen D192 Spec SpecRound EnclPf
local notation "𝔳[" d "]" => Spec.interp (Gen.Decimal.lo d) (Gen.Decimal.hi d)

/-- the out-of-range value of `Expm1` -/
def outM1 (sb : Bool) : Decimal := if sb then one true else inf false

/-- the final rounding of `Expm1` -/
def expm1Round (g : Globals) (sb neg : Bool) (res : decomposed192) (trunc : Int8) : Go.GoM Decimal := do
  let (r_7, r_8) ← RoundingMode.reduce192 g.DefaultRoundingMode neg res.sig (res.exp + (6176 : Int16)) trunc
  let mut sig : U128 := r_7
  let mut exp : Int16 := r_8
  if (decide (exp > (12287 : Int16))) then
    if sb then
      return (one true)
    return (inf false)
  return (compose neg sig exp)

def expm1Staged (g : Globals) (d : Decimal) : Go.GoM Decimal := do
  if (Decimal.isSpecial d) then
    if (Decimal.IsNaN d) then
      return d
    if (Decimal.Signbit d) then
      return (one true)
    return (inf false)
  if (Decimal.IsZero d) then
    return (zero false)
  let (r_1, r_2) := Decimal.decompose d
  let mut dSig : U128 := r_1
  let mut dExp : Int16 := r_2
  dExp := (dExp - (6176 : Int16))
  let t_3 ← U128.log10 dSig
  let mut l10 : Int64 := t_3
  if (decide ((Go.conv dExp : Int64) > ((5 : Int64) - l10))) then
    if (Decimal.Signbit d) then
      return (one true)
    return (inf false)
  let (r_4, r_5, r_6) ← decomposed192.epowm1 ({ (default : decomposed192) with sig := (U192.mk dSig.w0 dSig.w1 (0 : UInt64)), exp := dExp } : decomposed192) (Decimal.Signbit d) (Go.conv l10 : Int16) (0 : Int8)
  let mut neg : Bool := r_4
  let mut res : decomposed192 := r_5
  let mut trunc : Int8 := r_6
  if (decide (res.exp > (6169 : Int16))) then
    if (Decimal.Signbit d) then
      return (one true)
    return (inf false)
  expm1Round g (Decimal.Signbit d) neg res trunc

theorem Expm1_eq (g : Globals) (d : Decimal) : Gen.Expm1 g d = expm1Staged g d := rfl

/-- `Gen.Expm1` on a finite non-zero argument, with the integer comparisons resolved -/
theorem Expm1_fin (g : Globals) (d : Decimal) (h1 : Decimal.isSpecial d = false) (h2 : Decimal.IsZero d = false) :
    Gen.Expm1 g d =
      if ((d.decompose.2.toInt - 6176) > 5 - (Nat.log 10 d.decompose.1.toNat : Int)) then
        .ok (outM1 (Decimal.Signbit d))
      else decomposed192.epowm1 (argOf d) (Decimal.Signbit d)
          (Go.conv (Int64.ofNat (Nat.log 10 d.decompose.1.toNat)) : Int16) 0 >>= fun z =>
        if z.2.1.exp.toInt > 6169 then .ok (outM1 (Decimal.Signbit d))
        else expm1Round g (Decimal.Signbit d) z.1 z.2.1 z.2.2 := by
  rw [Expm1_eq]
  unfold expm1Staged
  simp only [h1, h2, if_false, Bool.false_eq_true]
  rw [U128_log10_eq]
  have hk := Nat.log10_lt_39_of_lt d.decompose.1.toNat d.decompose.1.toNat_lt
  have hl : (Int64.ofNat (Nat.log 10 d.decompose.1.toNat)).toInt = Nat.log 10 d.decompose.1.toNat :=
    Int64.toInt_ofNat_small _ (by omega)
  have he := argOf_exp d h1
  have hc : (Go.conv (d.decompose.2 - 6176) : Int64).toInt = d.decompose.2.toInt - 6176 := by
    rw [conv_i16_i64]; exact he
  have h5 : ((5 : Int64) - Int64.ofNat (Nat.log 10 d.decompose.1.toNat)).toInt
      = 5 - (Nat.log 10 d.decompose.1.toNat : Int) := by
    rw [Int64.toInt_sub, hl]
    have : (5 : Int64).toInt = 5 := by decide
    rw [this]
    apply Int.bmod_eq_of_le <;> omega
  have hg : (decide ((Go.conv (d.decompose.2 - 6176) : Int64) > (5 : Int64) - Int64.ofNat (Nat.log 10 d.decompose.1.toNat)) = true)
      ↔ (d.decompose.2.toInt - 6176) > 5 - (Nat.log 10 d.decompose.1.toNat : Int) := by
    rw [decide_eq_true_eq, gt_iff_lt, Int64.lt_iff_toInt_lt, h5, hc]
  show (Except.ok _ >>= _) = _
  rw [RK.ok_bind]
  by_cases hgd : (d.decompose.2.toInt - 6176) > 5 - (Nat.log 10 d.decompose.1.toNat : Int)
  · rw [if_pos hgd]
    simp only [hg.2 hgd, if_true]
    unfold outM1
    cases Decimal.Signbit d <;> rfl
  · rw [if_neg hgd]
    have : ¬ (decide ((Go.conv (d.decompose.2 - 6176) : Int64) > (5 : Int64) - Int64.ofNat (Nat.log 10 d.decompose.1.toNat)) = true) :=
      fun h => hgd (hg.1 h)
    simp only [this]
    rw [if_neg (by decide)]
    show (decomposed192.epowm1 (argOf d) _ _ 0 >>= _) = _
    refine congrArg _ (funext fun z => ?_)
    have h69 : (decide (z.2.1.exp > (6169 : Int16)) = true) ↔ z.2.1.exp.toInt > 6169 := by
      rw [decide_eq_true_eq, gt_iff_lt, Int16.lt_iff_toInt_lt]; simp
    by_cases hz : z.2.1.exp.toInt > 6169
    · rw [if_pos hz]
      simp only [h69.2 hz, if_true]
      unfold outM1
      cases Decimal.Signbit d <;> rfl
    · rw [if_neg hz]
      have : ¬ (decide (z.2.1.exp > (6169 : Int16)) = true) := fun h => hz (h69.1 h)
      simp only [this]
      rw [if_neg (by decide)]

/-! ## range ends -/

/-- for `e^A ≥ 10^35` the result `-1` is acceptable for `e^(-A) - 1` -/
theorem gv_m1_of_huge {A : ℝ} (h : (10 : ℝ) ^ (35 : ℕ) ≤ Real.exp A) :
    ¬ GeneralViolation (Real.exp (-A) - 1) (.fin true 1 0) := by
  have hE0 : 0 < Real.exp A := Real.exp_pos _
  have hinv : Real.exp (-A) ≤ 1 / (10 : ℝ) ^ (35 : ℕ) := by
    rw [Real.exp_neg, ← one_div]; exact one_div_le_one_div_of_le (by positivity) h
  have hpos : 0 < Real.exp (-A) := Real.exp_pos _
  set u : ℝ := Real.exp (-A) with hu
  clear_value u
  have hF : |u - 1| = 1 - u := by
    rw [abs_of_nonpos (by have : (1 : ℝ) / 10 ^ 35 < 1 := by norm_num
                          linarith)]; ring
  have hT : 0 < 1 - u := by
    have : (1 : ℝ) / 10 ^ 35 < 1 := by norm_num
    linarith
  show ¬ (X true (0 + 1) 0 * (u - 1) < 0 ∨ (10 : ℝ) ^ (ulpExp |u - 1|) < |X true (0 + 1) 0 - (u - 1)| ∨
    (10 : ℝ) ^ (Emax + 41) ≤ |u - 1| ∨ |u - 1| < (10 : ℝ) ^ (Emin - 40))
  have hX : X true (0 + 1) 0 = -1 := by rw [X_eq]; simp
  rw [hX, hF]
  have h9 : (9 : ℝ) / 10 ≤ 1 - u := by
    have : (1 : ℝ) / 10 ^ 35 ≤ 1 / 10 := by norm_num
    linarith
  rintro (h' | h' | h' | h')
  · nlinarith
  · -- ulpExp (1 - u) ≥ -35
    have hge : (-35 : Int) ≤ ulpExp (1 - u) := by
      by_contra hc
      have hle : ulpExp (1 - u) ≤ -36 := by omega
      obtain ⟨h1, h2⟩ := (ulpExp_le_iff hT (-36)).1 hle
      rw [Cmax1_val] at h2
      have : ((10 : ℝ) * 2 ^ 110) * (10 : ℝ) ^ (-36 : Int) < 9 / 10 := by
        rw [zpow_neg]; norm_num
      exact absurd (lt_trans h2 this) (not_lt.2 h9)
    have hp : (10 : ℝ) ^ (-35 : Int) ≤ (10 : ℝ) ^ (ulpExp (1 - u)) := zpow_le_zpow_right₀ (by norm_num) hge
    have e35 : (10 : ℝ) ^ (-35 : Int) = 1 / (10 : ℝ) ^ (35 : ℕ) := by
      rw [zpow_neg, one_div]; norm_cast
    have habs : |(-1 : ℝ) - (u - 1)| = u := by
      rw [show (-1 : ℝ) - (u - 1) = -u by ring, abs_neg, abs_of_pos hpos]
    rw [habs] at h'
    rw [← e35] at hinv
    exact lt_irrefl _ (lt_of_le_of_lt (le_trans hinv hp) h')
  · have h1 : (1 : ℝ) ≤ (10 : ℝ) ^ (Emax + 41) := one_le_zpow₀ (by norm_num) (by unfold Spec.Emax; norm_num)
    linarith
  · have h1 : (10 : ℝ) ^ (Emin - 40) ≤ (10 : ℝ) ^ (-1 : Int) :=
      zpow_le_zpow_right₀ (by norm_num) (by unfold Spec.Emin; norm_num)
    have h2 : (10 : ℝ) ^ (-1 : Int) = 1 / 10 := by norm_num
    rw [h2] at h1
    linarith

/-- the out-of-range value of `Expm1` against the real target -/
theorem outM1_ok (sb : Bool) (A : ℝ) (h : (10 : ℝ) ^ (6200 : ℕ) ≤ Real.exp A) :
    ¬ GeneralViolation (Real.exp (if sb then -A else A) - 1) 𝔳[outM1 sb] := by
  cases sb
  · simp only [outM1, Bool.false_eq_true, if_false]
    rw [Enc.interp_inf]
    apply gv_inf_of_huge
    have h1 : (10 : ℝ) ^ (6150 : ℕ) + 1 ≤ (10 : ℝ) ^ (6200 : ℕ) := by
      have : (10 : ℝ) ^ (6200 : ℕ) = (10 : ℝ) ^ (6150 : ℕ) * (10 : ℝ) ^ (50 : ℕ) := by rw [← pow_add]
      rw [this]
      have hp : (1 : ℝ) ≤ (10 : ℝ) ^ (6150 : ℕ) := one_le_pow₀ (by norm_num)
      have h50 : (2 : ℝ) ≤ (10 : ℝ) ^ (50 : ℕ) := by norm_num
      generalize (10 : ℝ) ^ (6150 : ℕ) = b at *
      generalize (10 : ℝ) ^ (50 : ℕ) = c at *
      nlinarith
    generalize (10 : ℝ) ^ (6200 : ℕ) = a at *
    generalize (10 : ℝ) ^ (6150 : ℕ) = b at *
    linarith
  · simp only [outM1, if_true]
    rw [Enc.interp_one]
    exact gv_m1_of_huge (le_trans (pow_le_pow_right₀ (by norm_num) (by norm_num)) h)

/-! ## the final rounding -/

/-- **the final rounding of `Expm1`** for a working value `Near` the magnitude `T` of the target, the sign being
that of the argument -/
theorem expm1Round_ok (g : Globals) (m : Spec.Mode) (hm : Spec.Mode.ofNat? g.DefaultRoundingMode.toNat = some m)
    (hn : isNearest m = true) (sb : Bool) (res : decomposed192) (t : Int8) (T : ℝ) (hT : 0 < T)
    (hs1 : 1 ≤ res.sig.toNat) (he0 : -20000 ≤ res.exp.toInt) (he1 : res.exp.toInt ≤ 13000)
    (ht : t = 0 ∨ t = 1 ∨ t = -1) (hfl : t = -1 → -6176 ≤ res.exp.toInt)
    (hnear : Near (val res) T) (hsb : sb = true → T < 1) :
    ∃ r, expm1Round g sb sb res t = .ok r ∧ ¬ GeneralViolation (if sb then -T else T) 𝔳[r] := by
  have hE := i16_add_6176 res.exp he0 (by omega)
  have hnear' : Near ((res.sig.toNat : ℚ) * (10 : ℚ) ^ ((res.exp + 6176).toInt - 6176)) T := by
    rw [hE, show res.exp.toInt + 6176 - 6176 = res.exp.toInt by ring]; exact hnear
  obtain ⟨sig', exp', hred, hpost⟩ := round_real g.DefaultRoundingMode m hm hn sb res.sig (res.exp + 6176)
    t T hT hs1 (by omega) (by omega) ht (by intro h; rw [hE]; have := hfl h; omega) hnear'
  unfold expm1Round
  rw [hred]
  by_cases hgt : exp'.toInt > 12287
  · rw [if_pos hgt] at hpost
    have hd : decide (exp' > 12287) = true := by simpa [gt_12287] using hgt
    cases sb
    · refine ⟨inf false, ?_, ?_⟩
      · show (if decide (exp' > 12287) = true then _ else _) = _
        rw [if_pos hd]; rfl
      · rw [Enc.interp_inf]; exact hpost
    · exfalso
      apply hpost
      right; left
      simp only [if_true]
      rw [abs_neg, abs_of_pos hT]
      have h1 : (1 : ℝ) ≤ (10 : ℝ) ^ (Spec.Emax + 30) := by
        apply one_le_zpow₀ (by norm_num); unfold Spec.Emax; norm_num
      linarith [hsb rfl]
  · rw [if_neg hgt] at hpost
    obtain ⟨hs', he', hgv⟩ := hpost
    have hd : ¬ decide (exp' > 12287) = true := by simpa [gt_12287] using hgt
    refine ⟨compose sb sig' exp', ?_, ?_⟩
    · show (if decide (exp' > 12287) = true then _ else _) = _
      rw [if_neg hd]; rfl
    · rw [Sp.interp_compose sb sig' exp' hs' he' (by omega)]; exact hgv

end ExpAcc
