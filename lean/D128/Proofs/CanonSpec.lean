/-
  D128/Proofs/CanonSpec.lean — what `Spec.scaleUp`/`Spec.stripZeros` (fuel 40) compute, normal
  forms, and reading an encoded triple back.  Specification-level (no generated loops).

    scaleUp_props     enough fuel: result (c·10^j, e − j), stops only for lack of room / exponent 0
    stripZeros_props  enough fuel: result (c', e + j) with c = c'·10^j, stops at a non-zero digit / 0
    Normal            c ≠ 0, c ≤ Cmax, exponent in range, e > 0 → no room, e < 0 → no trailing zero
    normPair          the pair `Spec.canonical` encodes;  canonical_fin'
    normPair_props    normPair is Normal and c·10^j1 = c'·10^j2, e' = e − j1 + j2 (same value)
    normal_unique     Normal pairs with equal value coincide
    normPair_of_normal  a Normal pair is a fixed point (fuel 40 is enough; idempotence)
    U128_ofNat_toNat, i16_ofInt_toInt, encode_eq_compose
    interp_encode     Spec.interp (Spec.encode n c e) = .fin n c e   (c ≤ Cmax, e in range)
    mag_eq_of_scaled  c·10^j1 = c'·10^j2 → e' = e − j1 + j2 → mag c' e' = mag c e   (ℚ)
-/
import D128.Proofs.Canon
import D128.Proofs.CmpOrder
set_option autoImplicit false

namespace CanonPf

/-! ## what the fuel recursions compute -/

theorem scaleUp_props (F : Nat) : ∀ (c : Nat) (e : Int), c ≠ 0 → Spec.Cmax < c * 10 ^ F →
    ∃ j : Nat, Spec.scaleUp F c e = (c * 10 ^ j, e - j) ∧
      (j = 0 ∨ (0 ≤ e - j ∧ c * 10 ^ j ≤ Spec.Cmax)) ∧
      ¬ (e - j > 0 ∧ c * 10 ^ j * 10 ≤ Spec.Cmax) := by
  induction F with
  | zero =>
    intro c e _ hF
    refine ⟨0, by simp [Spec.scaleUp], Or.inl rfl, ?_⟩
    simp only [Nat.pow_zero, Nat.mul_one] at hF ⊢
    omega
  | succ F ih =>
    intro c e hc hF
    by_cases hcond : e > 0 ∧ c * 10 ≤ Spec.Cmax
    · rw [scaleUp_step _ _ _ hcond.1 hcond.2]
      obtain ⟨j, hj, h1, h2⟩ := ih (c * 10) (e - 1) (by omega)
        (by rw [Nat.pow_succ] at hF; rw [Nat.mul_assoc, Nat.mul_comm 10]; exact hF)
      have e1 : c * 10 * 10 ^ j = c * 10 ^ (j + 1) := by rw [Nat.pow_succ]; ac_rfl
      have e2 : e - 1 - (j : Int) = e - ((j + 1 : Nat) : Int) := by omega
      refine ⟨j + 1, ?_, Or.inr ?_, ?_⟩
      · rw [hj, e1, e2]
      · rw [← e1, ← e2]
        rcases h1 with h0 | h1
        · subst h0
          simp only [Nat.pow_zero, Nat.mul_one]
          omega
        · exact h1
      · rw [← e1, ← e2]; exact h2
    · rw [scaleUp_stop _ _ _ hcond]
      refine ⟨0, by simp, Or.inl rfl, ?_⟩
      simpa using hcond

theorem stripZeros_props (F : Nat) : ∀ (c : Nat) (e : Int), c ≠ 0 → c < 10 ^ F →
    ∃ (j c' : Nat), Spec.stripZeros F c e = (c', e + j) ∧ c = c' * 10 ^ j ∧
      (j = 0 ∨ e + j ≤ 0) ∧ ¬ (e + j < 0 ∧ c' % 10 = 0) := by
  induction F with
  | zero =>
    intro c e hc hF
    simp only [Nat.pow_zero] at hF
    omega
  | succ F ih =>
    intro c e hc hF
    by_cases hcond : e < 0 ∧ c % 10 = 0
    · rw [stripZeros_step _ _ _ hcond.1 hcond.2]
      obtain ⟨j, c', hj, h0, h1, h2⟩ := ih (c / 10) (e + 1) (by omega)
        (by rw [Nat.pow_succ] at hF; omega)
      have e2 : e + 1 + (j : Int) = e + ((j + 1 : Nat) : Int) := by omega
      refine ⟨j + 1, c', ?_, ?_, Or.inr ?_, ?_⟩
      · rw [hj, e2]
      · rw [Nat.pow_succ, ← Nat.mul_assoc, ← h0]; omega
      · rw [← e2]
        rcases h1 with h0 | h1
        · subst h0; simp only [Int.natCast_zero, Int.add_zero]; omega
        · exact h1
      · rw [← e2]; exact h2
    · rw [stripZeros_stop _ _ _ hcond]
      refine ⟨0, c, by simp, by simp, Or.inl rfl, ?_⟩
      simpa using hcond


/-! ## normal forms -/

/-- the coefficient/exponent pairs `Canonical` produces for non-zero values: the exponent cannot be
    moved closer to zero (no room to scale up, no trailing zero to strip) -/
structure Normal (c : Nat) (e : Int) : Prop where
  nz : c ≠ 0
  le : c ≤ Spec.Cmax
  rng : -6176 ≤ e ∧ e ≤ 6111
  up : e > 0 → Spec.Cmax < c * 10
  dn : e < 0 → c % 10 ≠ 0

/-- result of the two recursions, as used by `Spec.canonical` -/
def normPair (c : Nat) (e : Int) : Nat × Int :=
  Spec.stripZeros 40 (Spec.scaleUp 40 c e).1 (Spec.scaleUp 40 c e).2

theorem canonical_fin' (n : Bool) (c : Nat) (e : Int) (hc : c ≠ 0) :
    Spec.canonical (.fin n c e) = Spec.encode n (normPair c e).1 (normPair c e).2 :=
  canonical_fin n c e hc

/-- the pair computed by `Spec.canonical` is normal and denotes the same value:
    `c·10^j1 = c'·10^j2`, `e' = e − j1 + j2`, the exponent moves toward zero only -/
theorem normPair_props (c : Nat) (e : Int) (hc : c ≠ 0) (hle : c ≤ Spec.Cmax)
    (he : -6176 ≤ e ∧ e ≤ 6111) :
    Normal (normPair c e).1 (normPair c e).2 ∧
    ∃ j1 j2 : Nat, c * 10 ^ j1 = (normPair c e).1 * 10 ^ j2 ∧ (normPair c e).2 = e - j1 + j2 ∧
      (j1 = 0 ∨ j2 = 0) ∧ (j1 = 0 ∨ 0 ≤ e - j1) ∧ (j2 = 0 ∨ e + j2 ≤ 0) := by
  have hF : Spec.Cmax < c * 10 ^ 40 :=
    Nat.lt_of_lt_of_le Cmax_lt_pow40 (Nat.le_mul_of_pos_left _ (Nat.pos_of_ne_zero hc))
  obtain ⟨j1, hj1, ha, hb⟩ := scaleUp_props 40 c e hc hF
  have hc1 : c * 10 ^ j1 ≠ 0 := Nat.mul_ne_zero hc (by positivity)
  have hle1 : c * 10 ^ j1 ≤ Spec.Cmax := by
    rcases ha with h0 | h1
    · subst h0; simpa using hle
    · exact h1.2
  obtain ⟨j2, c2, hj2, hc2, hd, hf⟩ := stripZeros_props 40 (c * 10 ^ j1) (e - j1) hc1
    (Nat.lt_of_le_of_lt hle1 Cmax_lt_pow40)
  have hnp : normPair c e = (c2, e - j1 + j2) := by
    unfold normPair; rw [hj1]; exact hj2
  rw [hnp]
  dsimp only
  have hc2nz : c2 ≠ 0 := by
    intro h0; rw [h0] at hc2; simp at hc2; omega
  have hpos : 0 < 10 ^ j2 := by positivity
  have hc2le : c2 ≤ c * 10 ^ j1 := by
    rw [hc2]; exact Nat.le_mul_of_pos_right _ hpos
  -- at most one of the two recursions moves
  have hone : j1 = 0 ∨ j2 = 0 := by
    rcases ha with h0 | h1
    · exact Or.inl h0
    · rcases hd with h0 | h2
      · exact Or.inr h0
      · -- e - j1 ≥ 0 and e - j1 + j2 ≤ 0 force j2 = 0
        right; omega
  refine ⟨⟨hc2nz, Nat.le_trans hc2le hle1, ?_, ?_, ?_⟩, j1, j2, hc2, rfl, hone, ?_, ?_⟩
  · rcases ha with h0 | h1 <;> rcases hd with h0' | h2 <;> omega
  · intro hpos'
    -- exponent still positive: the strip loop did nothing, and scaleUp stopped for lack of room
    have hj20 : j2 = 0 := by
      rcases hd with h0 | h2
      · exact h0
      · omega
    subst hj20
    simp only [Nat.pow_zero, Nat.mul_one] at hc2
    rw [← hc2]
    simp only [Int.natCast_zero, Int.add_zero] at hpos'
    omega
  · intro hneg
    omega
  · rcases ha with h0 | h1
    · exact Or.inl h0
    · exact Or.inr h1.1
  · rcases hd with h0 | h2
    · exact Or.inl h0
    · rcases hone with h1 | h1
      · subst h1; right; simpa using h2
      · exact Or.inl h1

/-- normal pairs are unique per value -/
theorem normal_unique (c c' : Nat) (e e' : Int) (h : Normal c e) (h' : Normal c' e')
    (hv : c * 10 ^ (e - e').toNat = c' * 10 ^ (e' - e).toNat) : c = c' ∧ e = e' := by
  have key : ∀ (c c' : Nat) (e e' : Int), Normal c e → Normal c' e' → e < e' →
      c * 10 ^ (e - e').toNat = c' * 10 ^ (e' - e).toNat → False := by
    intro c c' e e' h h' hlt hv
    have h0 : (e - e').toNat = 0 := by omega
    obtain ⟨k, hk⟩ : ∃ k : Nat, (e' - e).toNat = k + 1 := ⟨(e' - e).toNat - 1, by omega⟩
    rw [h0, hk, Nat.pow_zero, Nat.mul_one, Nat.pow_succ] at hv
    have hdiv : c % 10 = 0 := by rw [hv, ← Nat.mul_assoc]; exact Nat.mul_mod_left _ _
    have he0 : ¬ e < 0 := fun hn => h.dn hn hdiv
    have hup := h'.up (by omega)
    have hpos : 0 < 10 ^ k := by positivity
    have : c' * 10 ≤ c := by
      rw [hv, Nat.mul_comm (10 ^ k), ← Nat.mul_assoc]
      exact Nat.le_mul_of_pos_right _ hpos
    have := h.le
    omega
  rcases Int.lt_trichotomy e e' with hlt | heq | hgt
  · exact (key c c' e e' h h' hlt hv).elim
  · subst heq
    simp only [Int.sub_self, Int.toNat_zero, Nat.pow_zero, Nat.mul_one] at hv
    exact ⟨hv, rfl⟩
  · exact (key c' c e' e h' h hgt hv.symm).elim

/-- a normal pair is a fixed point of the two recursions -/
theorem normPair_of_normal (c : Nat) (e : Int) (h : Normal c e) : normPair c e = (c, e) := by
  unfold normPair
  have h1 : Spec.scaleUp 40 c e = (c, e) := by
    apply scaleUp_stop
    intro hh
    have := h.up hh.1
    omega
  rw [h1]
  apply stripZeros_stop
  intro hh
  exact h.dn hh.1 hh.2


/-! ## reading back an encoded triple -/

theorem U128_ofNat_toNat (c : Nat) (h : c < 2 ^ 128) : (U128.ofNat c).toNat = c := by
  unfold U128.ofNat U128.toNat
  simp only [UInt64.toNat_ofNat']
  omega

theorem i16_ofInt_toInt (x : Int) (h0 : -2 ^ 15 ≤ x) (h1 : x < 2 ^ 15) : (Int16.ofInt x).toInt = x := by
  rw [Int16.toInt_ofInt]
  apply Int.bmod_eq_of_le <;> simp only [Int16.size] at * <;> omega

theorem encode_eq_compose (n : Bool) (c : Nat) (e : Int) (hc : c ≤ Spec.Cmax)
    (he : -6176 ≤ e ∧ e ≤ 6111) :
    ∃ r : Gen.Decimal, (r.lo, r.hi) = Spec.encode n c e ∧
      Gen.Decimal.isSpecial r = false ∧ Gen.Decimal.Signbit r = n ∧
      (Gen.Decimal.decompose r).1.toNat = c ∧ (Gen.Decimal.decompose r).2.toInt = e + 6176 := by
  have hlt : c < 2 ^ 128 := by rw [Cmax_val] at hc; omega
  have hs : (U128.ofNat c).toNat = c := U128_ofNat_toNat c hlt
  have hx : (Int16.ofInt (e + 6176)).toInt = e + 6176 :=
    i16_ofInt_toInt _ (by simp only [Int.reducePow]; omega) (by simp only [Int.reducePow]; omega)
  have hs' : (U128.ofNat c).toNat ≤ Spec.Cmax := by rw [hs]; exact hc
  have h0 : 0 ≤ (Int16.ofInt (e + 6176)).toInt := by rw [hx]; omega
  have h1 : (Int16.ofInt (e + 6176)).toInt ≤ 12287 := by rw [hx]; omega
  refine ⟨Gen.compose n (U128.ofNat c) (Int16.ofInt (e + 6176)), ?_,
    Enc.isSpecial_compose _ _ _ hs' h0 h1, Enc.Signbit_compose _ _ _ hs' h0 h1, ?_, ?_⟩
  · rw [compose_encode _ _ _ hs' h0 h1, hs, hx]
    congr 1; omega
  · rw [Enc.decompose_compose _ _ _ hs' h0 h1]; exact hs
  · rw [Enc.decompose_compose _ _ _ hs' h0 h1]; exact hx

theorem interp_encode (n : Bool) (c : Nat) (e : Int) (hc : c ≤ Spec.Cmax)
    (he : -6176 ≤ e ∧ e ≤ 6111) :
    Spec.interp (Spec.encode n c e).1 (Spec.encode n c e).2 = .fin n c e := by
  obtain ⟨r, hr, hsp, hsg, hsig, hexp⟩ := encode_eq_compose n c e hc he
  rw [← hr]
  show Spec.interp r.lo r.hi = _
  rw [Enc.interp_decompose r hsp, hsg, hsig, hexp]
  congr 1; omega

/-! ## values (ℚ) -/

theorem mag_eq_of_scaled (c c' : Nat) (e e' : Int) (j1 j2 : Nat)
    (h : c * 10 ^ j1 = c' * 10 ^ j2) (he : e' = e - j1 + j2) :
    Spec.mag c' e' = Spec.mag c e := by
  unfold Spec.mag
  rw [CmpPf.pow10_eq_zpow, CmpPf.pow10_eq_zpow]
  have hq : (c : ℚ) * 10 ^ j1 = (c' : ℚ) * 10 ^ j2 := by exact_mod_cast h
  have h10 : (10 : ℚ) ≠ 0 := by norm_num
  have e1 : e' = e + ((j2 : Int) - j1) := by omega
  rw [e1, zpow_add₀ h10, zpow_sub₀ h10, zpow_natCast, zpow_natCast]
  have hp : (10 : ℚ) ^ j1 ≠ 0 := pow_ne_zero _ h10
  field_simp
  rw [← hq]; ring

end CanonPf
