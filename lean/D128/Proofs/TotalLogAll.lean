/-
  D128/Proofs/TotalLogAll.lean — property C20 (totality): `Log`, `Log2`, `Log10` terminate without panic for every
  bit pattern and EVERY `DefaultRoundingMode` byte, including the directed modes ToZero / ToNegativeInf /
  ToPositiveInf that `TotalLog.lean` had to leave open.

  What was missing there: `decomposed192.log` must never return the degenerate pair "zero significand, sticky
  flag −1" (on which the rounding kernel spins forever in the directed modes, `TotalRound.round_zero_stuck`).
  * argument `≠ 1`: the result is non-zero.  This is a value-level fact; it follows from PA17b's accuracy theorem
    `LogAcc.log_spec` (`|val x − |ln X|| ≤ errLog …`): a decimal with at most 35 digits that is not 1 is at least
    `10^-35` away from 1 (`dec_gap`; coefficients go up to 5·2^111 − 1), so `|ln X| ≥ 10^-35/2` (`log_gap`), while the error budget is below
    `10^-36` (`errLog_small`)  ⇒ `log_sig_ne_zero`.
  * argument `= 1` (any of the representations `10^k·10^-k`): here the result IS zero; but then the code takes
    the addition path (`exp ≥ 0`, `logExp_of_one`), on which only `add`/`mul` follow the series, and these never
    produce flag −1 together with a zero significand (`d192_add_strong_triple`)  ⇒ `d192_log_nonneg_triple`.
  * `log_good`, `Log_total_all`, `Log2_total_all`, `Log10_total_all`.
-/
import D128.Proofs.TotalLog
import D128.Proofs.LogAccSpec
set_option autoImplicit false
set_option mvcgen.warning false
set_option exponentiation.threshold 512
set_option maxRecDepth 16384
namespace D128.Proofs.Total
open Std.Do
open D128.Proofs.WordsWide

/-- a decimal number with at most 35 digits that is different from 1 is at least `10^-35` away from 1 -/
theorem dec_gap (n : ℕ) (e : ℤ) (hn0 : 1 ≤ n) (hn : n < 10 ^ 35)
    (hne : (n : ℝ) * (10 : ℝ) ^ e ≠ 1) :
    (n : ℝ) * (10 : ℝ) ^ e ≤ 1 - 1 / 10 ^ 35 ∨ 1 + 1 / 10 ^ 35 ≤ (n : ℝ) * (10 : ℝ) ^ e := by
  rcases le_or_gt 0 e with he | he
  · -- an integer ≥ 2
    obtain ⟨k, rfl⟩ := Int.eq_ofNat_of_zero_le he
    right
    rw [zpow_natCast]
    have h2 : 2 ≤ n * 10 ^ k := by
      by_contra hc
      have h1 : n * 10 ^ k = 1 := by
        have : 1 ≤ n * 10 ^ k := Nat.mul_pos hn0 (Nat.pow_pos (by norm_num))
        omega
      apply hne
      rw [zpow_natCast]
      exact_mod_cast h1
    have : (2 : ℝ) ≤ (n : ℝ) * (10 : ℝ) ^ k := by exact_mod_cast h2
    have h3 : (1 : ℝ) / 10 ^ 35 ≤ 1 := by
      rw [div_le_one (by positivity)]; exact one_le_pow₀ (by norm_num)
    linarith
  · obtain ⟨k, hk⟩ : ∃ k : ℕ, e = -(k : ℤ) := ⟨e.toNat.succ - 1 + (-e).toNat - e.toNat, by omega⟩
    subst hk
    have hpk : (0 : ℝ) < (10 : ℝ) ^ k := by positivity
    have hz : (10 : ℝ) ^ (-(k : ℤ)) = ((10 : ℝ) ^ k)⁻¹ := by rw [zpow_neg, zpow_natCast]
    rw [hz, ← div_eq_mul_inv] at hne ⊢
    rcases le_or_gt 36 k with hk35 | hk35
    · left
      rw [div_le_iff₀ hpk]
      have h1 : (n : ℝ) ≤ 10 ^ 35 := by exact_mod_cast hn.le
      have h2 : (10 : ℝ) ^ 36 ≤ 10 ^ k := pow_le_pow_right₀ (by norm_num) hk35
      have h3 : (0 : ℝ) ≤ 1 - 1 / 10 ^ 35 - 1 / 10 := by norm_num
      nlinarith
    · have hk35' : (10 : ℝ) ^ k ≤ 10 ^ 35 := pow_le_pow_right₀ (by norm_num) (by omega)
      have hinv : (1 : ℝ) / 10 ^ 35 ≤ 1 / 10 ^ k := one_div_le_one_div_of_le hpk hk35'
      have hnk : n ≠ 10 ^ k := by
        intro h; apply hne; rw [h]; push_cast; exact div_self hpk.ne'
      rcases Nat.lt_or_gt_of_ne hnk with hlt | hgt
      · left
        have : (n : ℝ) + 1 ≤ (10 : ℝ) ^ k := by exact_mod_cast hlt
        have e1 : (n : ℝ) / 10 ^ k ≤ 1 - 1 / 10 ^ k := by
          rw [div_le_iff₀ hpk, sub_mul, one_mul, div_mul_cancel₀ _ hpk.ne']; linarith
        linarith
      · right
        have : (10 : ℝ) ^ k + 1 ≤ (n : ℝ) := by exact_mod_cast hgt
        have e1 : 1 + 1 / 10 ^ k ≤ (n : ℝ) / 10 ^ k := by
          rw [le_div_iff₀ hpk, add_mul, one_mul, div_mul_cancel₀ _ hpk.ne']; linarith
        linarith

/-- away from 1 the logarithm is bounded away from 0 -/
theorem log_gap (X u : ℝ) (hX : 0 < X) (hu0 : 0 < u) (hu1 : u ≤ 1)
    (h : X ≤ 1 - u ∨ 1 + u ≤ X) : u / 2 ≤ |Real.log X| := by
  rcases h with h | h
  · have h1 := Real.log_le_sub_one_of_pos hX
    have : Real.log X ≤ -u := by linarith
    rw [abs_of_nonpos (by linarith)]; linarith
  · have hp : (0 : ℝ) < 1 + u := by linarith
    have h1 := Real.one_sub_inv_le_log_of_pos hp
    have h2 : Real.log (1 + u) ≤ Real.log X := Real.log_le_log hp h
    have h3 : u / 2 ≤ 1 - (1 + u)⁻¹ := by
      rw [inv_eq_one_div, le_sub_iff_add_le, ← le_sub_iff_add_le', div_le_iff₀ hp]
      nlinarith
    rw [abs_of_nonneg (by linarith)]; linarith

/-- the error budget of `log` is below `10^-35 / 2` -/
theorem errLog_small (K : ℕ) (m S F : ℝ) (hK : K ≤ 16057) (hm : m ≤ 1) (hF0 : 0 ≤ F)
    (hF : F ≤ 1 / 20) (hS : S ≤ 101 / 100 * F) : LogAcc.errLog K m S F < 1 / 10 ^ 35 / 2 := by
  unfold LogAcc.errLog
  have h1 := LogAcc.tailR_le F hF0 hF
  have h2 : F ^ 35 ≤ (1 / 20) ^ 35 := pow_le_pow_left₀ hF0 hF 35
  have hKr : (K : ℝ) ≤ 16057 := by exact_mod_cast hK
  have h3 : (16 * (K : ℝ) + 7 * m + 231 * S) / 10 ^ 57 ≤ (16 * 16057 + 7 + 12) / 10 ^ 57 := by
    apply div_le_div_of_nonneg_right _ (by positivity); linarith
  have h4 : 2 * ((1 / 20 : ℝ) ^ 35 / 34) + (16 * 16057 + 7 + 12) / 10 ^ 57 < 1 / 10 ^ 35 / 2 := by
    norm_num
  have h5 : F ^ 35 / 34 ≤ (1 / 20 : ℝ) ^ 35 / 34 := div_le_div_of_nonneg_right h2 (by norm_num)
  linarith

open D192 in
/-- for an argument `≠ 1` with at most 35 digits the result of `decomposed192.log` is non-zero
(from the accuracy theorem `LogAcc.log_spec`) -/
theorem log_sig_ne_zero (d : Gen.decomposed192) (hd : d.sig.toNat ≠ 0) (hs : d.sig.toNat < 10 ^ 35)
    (he : -16000 ≤ d.exp.toInt ∧ d.exp.toInt ≤ 16000) (hne : val d ≠ 1)
    (r : Bool × Gen.decomposed192 × Int8) (hr : Gen.decomposed192.log d = .ok r) :
    r.2.1.sig.toNat ≠ 0 := by
  obtain ⟨neg, x, t, e0, M, v, S, F, hlog, -, -, -, -, he0a, he0b, hM0, hM1, -, -, hF0, hF1, -, hS,
    -, -, -, herr⟩ := LogAcc.log_spec d hd he
  rw [hlog] at hr
  obtain rfl : (neg, x, t) = r := by injection hr
  show x.sig.toNat ≠ 0
  have hX : ((val d : ℚ) : ℝ) = (d.sig.toNat : ℝ) * (10 : ℝ) ^ d.exp.toInt := by
    unfold val; push_cast; rfl
  have hXne : (d.sig.toNat : ℝ) * (10 : ℝ) ^ d.exp.toInt ≠ 1 := by
    rw [← hX]; intro h; apply hne; exact_mod_cast h
  have hXpos : (0 : ℝ) < (d.sig.toNat : ℝ) * (10 : ℝ) ^ d.exp.toInt := by
    have : (0 : ℝ) < (d.sig.toNat : ℝ) := by exact_mod_cast Nat.pos_of_ne_zero hd
    positivity
  have hgap := log_gap _ (1 / 10 ^ 35) hXpos (by positivity)
    (by rw [div_le_one (by positivity)]; exact one_le_pow₀ (by norm_num))
    (dec_gap _ _ (Nat.pos_of_ne_zero hd) hs hXne)
  rw [← hX] at hgap
  have hMr : (10 : ℝ) ≤ (M : ℝ) := by exact_mod_cast hM0
  have hF20 : F ≤ 1 / 20 := by
    refine le_trans hF1 ?_
    rw [div_le_div_iff₀ (by linarith) (by norm_num)]; linarith
  have hsmall := errLog_small e0.natAbs (if M = 10 then 0 else 1) S F (by omega)
    (by split <;> norm_num) hF0 hF20 hS
  have hpos : (0 : ℝ) < ((val x : ℚ) : ℝ) := by
    have := (abs_le.mp herr).1
    linarith
  intro h0
  have : val x = 0 := by unfold val; rw [h0]; simp
  rw [this] at hpos
  simp at hpos

/-- the decimal exponent of the argument of `decomposed192.log` (`exp` in the Go source) -/
def logExp (d : Gen.decomposed192) : Int16 :=
  d.exp + (Go.conv (Int64.ofNat (Nat.log 10 d.sig.toNat)) : Int16)

open D192 in
/-- for the argument 1 (in any representation `10^k · 10^-k`) `log` takes the addition path -/
theorem logExp_of_one (d : Gen.decomposed192) (he : -16000 ≤ d.exp.toInt ∧ d.exp.toInt ≤ 16000)
    (h1 : val d = 1) : ¬ (logExp d < 0) := by
  have hlt := D128.Proofs.WordsWide.U192.toNat_lt d.sig
  have hL := D128.Proofs.WordsWide.Nat_log10_le_57_of_lt d.sig.toNat hlt
  have hc := LogAcc.conv_log _ hL (D128.Proofs.WordsWide.Int64_toInt_ofNat_small _ (by omega))
  unfold val at h1
  have hn0 : d.sig.toNat ≠ 0 := by
    intro h0; rw [h0] at h1; simp at h1
  have hn1 : (1 : ℚ) ≤ (d.sig.toNat : ℚ) := by exact_mod_cast Nat.pos_of_ne_zero hn0
  -- the exponent is `-k` and the significand `10^k`
  have hle : d.exp.toInt ≤ 0 := by
    by_contra hc'
    have h10 : (10 : ℚ) ≤ (10 : ℚ) ^ d.exp.toInt := by
      calc (10 : ℚ) = (10 : ℚ) ^ (1 : ℤ) := by norm_num
        _ ≤ (10 : ℚ) ^ d.exp.toInt := zpow_le_zpow_right₀ (by norm_num) (by omega)
    nlinarith
  obtain ⟨k, hk⟩ : ∃ k : ℕ, d.exp.toInt = -(k : ℤ) := ⟨(-d.exp.toInt).toNat, by omega⟩
  rw [hk, zpow_neg, zpow_natCast, ← div_eq_mul_inv, div_eq_one_iff_eq (by positivity)] at h1
  have hsig : d.sig.toNat = 10 ^ k := by exact_mod_cast h1
  have hlog : Nat.log 10 d.sig.toNat = k := by rw [hsig]; exact Nat.log_pow (by norm_num) k
  rw [hlog] at hc hL
  unfold logExp
  rw [hlog, Int16.lt_iff_toInt_lt, Int16.toInt_add_of] <;> rw [hc, hk]
  · have : (0 : Int16).toInt = 0 := rfl
    omega
  · omega
  · omega


theorem U192_log10_eq_triple (n : U192) :
    ⦃⌜True⌝⦄ Gen.U192.log10 n ⦃⇓ r => ⌜r = Int64.ofNat (Nat.log 10 n.toNat)⌝⦄ :=
  triple_of_ok_pre fun _ => ⟨_, U192_log10_eq n, rfl⟩

set_option maxHeartbeats 1000000 in
theorem d192_log_nonneg_triple (hdiv : DivSpec) (d : Gen.decomposed192) :
    ⦃⌜d.sig.toNat ≠ 0⌝⦄ Gen.decomposed192.log d
    ⦃⇓ r => ⌜¬ (logExp d < 0) → (r.2.1.sig.toNat ≠ 0 ∨ r.2.2 ≠ -1)⌝⦄ := by
  have hq := d192_quo_triple hdiv
  have hv := @vget_any_triple U192 89 Gen.ln
  have ha := d192_add_strong_triple
  have hl := U192_log10_eq_triple
  mvcgen -trivial [Gen.decomposed192.log, hq, hv, ha, hl, -d192_add_triple, -U192_log10_triple]
  case inv1 | inv3 | inv5 => exact fun st => ⟨2^192 - st.sig.toNat⟩
  case inv2 | inv4 | inv6 => exact ⇓ x => match x with
    | .inl st => ⌜st.sig.toNat ≠ 0⌝
    | .inr st => ⌜st.sig.toNat ≠ 0⌝
  case inv7 | inv9 | inv11 | inv13 => exact fun st => ⟨40 - st.2.2.2.toNat⟩
  case inv8 | inv10 | inv12 | inv14 => exact ⇓ x => match x with
    | .inl st => ⌜3 ≤ st.2.2.2.toNat ∧ st.2.2.2.toNat ≤ 35 ∧ (st.2.2.1.sig.toNat ≠ 0 ∨ st.1 ≠ -1)⌝
    | .inr st => ⌜3 ≤ st.2.2.2.toNat ∧ st.2.2.2.toNat ≤ 35 ∧ (st.2.2.1.sig.toNat ≠ 0 ∨ st.1 ≠ -1)⌝
  all_goals (simp +zetaDelta [logExp] at *)
  all_goals (try subst_vars)
  all_goals d192_prep
  all_goals (try d192_fin)

theorem logArg_sig (d : Gen.Decimal) : (logArg d).sig.toNat = (d.decompose).1.toNat := by
  simp [logArg, U192.toNat, U128.toNat]

theorem logArg_exp (d : Gen.Decimal) : (logArg d).exp.toInt = (d.decompose).2.toInt - 6176 := by
  have h := decompose_exp_range d
  show ((d.decompose).2 - 6176).toInt = _
  have : (6176 : Int16).toInt = 6176 := rfl
  rw [i16_sub_toInt] <;> rw [this] <;> omega

/-- **the working-format logarithm of a decoded finite non-zero `Decimal` is never the degenerate pair**
"zero significand, sticky flag −1" -/
theorem log_good (d : Gen.Decimal) (hs : (d.decompose).1.toNat ≠ 0)
    (r : Bool × Gen.decomposed192 × Int8) (hr : Gen.decomposed192.log (logArg d) = .ok r) : Good r := by
  have hsig := logArg_sig d
  have hexp := logArg_exp d
  have hrange := decompose_exp_range d
  have hd : (logArg d).sig.toNat ≠ 0 := by rw [hsig]; exact hs
  have he : -16000 ≤ (logArg d).exp.toInt ∧ (logArg d).exp.toInt ≤ 16000 := by rw [hexp]; omega
  by_cases h1 : D192.val (logArg d) = 1
  · obtain ⟨r', e, h⟩ := ok_of_triple_pre (d192_log_nonneg_triple divSpec (logArg d)) hd
    rw [hr] at e
    obtain rfl : r = r' := by injection e
    exact h (logExp_of_one _ he h1)
  · refine Or.inl (log_sig_ne_zero _ hd ?_ he h1 r hr)
    rw [hsig]
    have := Enc.decompose_sig_le d
    have hC : Spec.Cmax = 12980742146337069071326240823050239 := by decide
    rw [hC] at this
    omega

/-- `Log` terminates without panic for every bit pattern and every mode byte -/
theorem Log_total_all (g : Globals) (d : Gen.Decimal) : ∃ r, Gen.Log g d = .ok r := by
  by_cases hz : d.IsZero = true
  · unfold Gen.Log
    simp only [hz, ↓reduceIte]
    repeat' split
    all_goals exact ⟨_, rfl⟩
  · have hs := sig_ne_zero d (by simpa using hz)
    exact total_of_triple (Log_triple_partial g d (log_good d hs))

theorem Log2_total_all (g : Globals) (d : Gen.Decimal) : ∃ r, Gen.Log2 g d = .ok r := by
  by_cases hz : d.IsZero = true
  · unfold Gen.Log2
    simp only [hz, ↓reduceIte]
    repeat' split
    all_goals exact ⟨_, rfl⟩
  · have hs := sig_ne_zero d (by simpa using hz)
    exact total_of_triple (Log2_triple_partial g d (log_good d hs))

theorem Log10_total_all (g : Globals) (d : Gen.Decimal) : ∃ r, Gen.Log10 g d = .ok r := by
  by_cases hz : d.IsZero = true
  · unfold Gen.Log10
    simp only [hz, ↓reduceIte]
    repeat' split
    all_goals exact ⟨_, rfl⟩
  · have hs := sig_ne_zero d (by simpa using hz)
    exact total_of_triple (Log10_triple_partial g d (log_good d hs))

/-- e.g. `Log(0.5)` under ToZero (mode byte 2) -/
example : ∃ r, Gen.Log { DefaultRoundingMode := 2 } (Gen.compose false ⟨5, 0⟩ 6175) = .ok r :=
  Log_total_all _ _

end D128.Proofs.Total
