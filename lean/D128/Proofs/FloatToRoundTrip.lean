/-
  D128/Proofs/FloatToRoundTrip.lean — property C09, the round trips binary float → Decimal → binary float:
  `FromFloat64(f).Float64() == f` and `FromFloat32(f).Float32() == f` for every non-NaN `f`, as bit patterns,
  for every valid default rounding mode.  Assembles `F2.Float64_roundtrip` (FloatToTop.lean) with
  `FF.fromFloat64_near` / `FF.fromFloat64_inf` / `FF.fromFloat64_zero` (FloatFromNear.lean, FloatFromTop.lean).

  Provided (namespace `F2`):
  * `F64_inf_bits`, `F64_zero_bits`   : `f = ofParts f.sign (2047·2^52)` for `±Inf`, `f = ofParts f.sign 0` for `±0`
  * `float64_fromFloat64_roundtrip`   : `f` not NaN ⇒ `∃ d, FromFloat64 f = d ∧ d.Float64() = f`
  * `float32_fromFloat32_roundtrip`   : `f` not NaN ⇒ `∃ d, FromFloat32 f = d ∧ d.Float32() = f`
  * `float64_fromFloat64_nan`, `float32_fromFloat32_nan` : NaN ↦ NaN (the canonical quiet NaN patterns)
-/
import D128.Proofs.FloatToTop
import D128.Proofs.FloatFromNear

set_option autoImplicit false
set_option maxRecDepth 8192
set_option linter.unusedVariables false

namespace F2
open Gen Go

local notation "𝔳[" d "]" => Spec.interp (Gen.Decimal.lo d) (Gen.Decimal.hi d)

theorem F64_inf_bits (f : F64) (h : f.isInf = true) : f = F64.ofParts f.sign (2047 * 2 ^ 52) := by
  have he := F64.expField_eq' f
  have hm := F64.mantField_eq' f
  unfold F64.isInf at h
  simp only [Bool.and_eq_true, beq_iff_eq] at h
  have : f.bits.toNat % 2 ^ 63 = 2047 * 2 ^ 52 := by omega
  rw [← this]; exact (F64_ofParts_self f).symm

theorem F64_zero_bits (f : F64) (h : f.isZero = true) : f = F64.ofParts f.sign 0 := by
  have he := F64.expField_eq' f
  have hm := F64.mantField_eq' f
  unfold F64.isZero at h
  simp only [Bool.and_eq_true, beq_iff_eq] at h
  have : f.bits.toNat % 2 ^ 63 = 0 := by omega
  rw [← this]; exact (F64_ofParts_self f).symm

/-- **C09 round trip, float64.**  For every non-NaN float64 `f` (normal, subnormal, `±0`, `±Inf`) and every
    valid default rounding mode, `FromFloat64(f)` succeeds and its `Float64()` is `f`, bit for bit. -/
theorem float64_fromFloat64_roundtrip (g : Globals) (m : Spec.Mode)
    (hm : Spec.Mode.ofNat? g.DefaultRoundingMode.toNat = some m) (f : F64) (hn : f.isNaN = false) :
    ∃ d, Gen.FromFloat64 g f = .ok d ∧ Decimal.Float64 d = .ok f := by
  by_cases hi : f.isInf = true
  · refine ⟨_, FF.fromFloat64_inf g f hi, ?_⟩
    rw [Float64_inf _ _ (Enc.interp_inf f.sign), infRes_eq, ← F64_inf_bits f hi]
  · have hi' : f.isInf = false := by simpa using hi
    have hfin : f.isFinite = true := by rw [F64.isFinite_eq, hn, hi']; rfl
    by_cases hz : f.isZero = true
    · refine ⟨_, FF.fromFloat64_zero g f hz, ?_⟩
      rw [Float64_zero' _ _ _ (Enc.interp_zero f.sign), zeroRes_eq, ← F64_zero_bits f hz]
    · have hz' : f.isZero = false := by simpa using hz
      obtain ⟨r, c, e, hr, hv, hnear⟩ := FF.fromFloat64_near g f m hm hfin hz'
      refine ⟨r, hr, ?_⟩
      have hmag := f.mag_nonneg
      have hc0 : c ≠ 0 := by
        rintro rfl
        simp only [Nat.cast_zero, zero_mul, zero_sub, abs_neg, abs_of_nonneg hmag] at hnear
        have : f.mag * 1 ≤ f.mag * 2 ^ 110 := mul_le_mul_of_nonneg_left (by norm_num) hmag
        linarith
      apply Float64_roundtrip r f.sign c e hv hc0 f hfin hz' rfl
      rw [le_div_iff₀ (by positivity)]
      have h1 : |(c : ℚ) * 10 ^ e - f.mag| * 2 ^ 100 ≤ |(c : ℚ) * 10 ^ e - f.mag| * 2 ^ 110 :=
        mul_le_mul_of_nonneg_left (by norm_num) (abs_nonneg _)
      linarith

/-- NaN ↦ NaN: `FromFloat64(NaN).Float64()` is the canonical `math.NaN()` pattern -/
theorem float64_fromFloat64_nan (g : Globals) (f : F64) (hn : f.isNaN = true) :
    ∃ d, Gen.FromFloat64 g f = .ok d ∧ Decimal.Float64 d = .ok Go.math.NaN :=
  ⟨_, FF.fromFloat64_nan g f hn, Float64_nan _ false ((3 ||| Go.shl 0 8) ||| Go.shl 0 16) (by decide)⟩

/-- widening then narrowing gives back every non-NaN float32 (finite or infinite) -/
theorem F32_toF64_toF32 (f : F32) (hn : f.isNaN = false) : f.toF64.toF32 = f := by
  by_cases hi : f.isInf = true
  · have e1 : f.toF64 = F64.ofParts f.sign (0x7ff * 2 ^ 52) := by
      unfold F32.toF64; simp [hn, hi]
    have h63 : 0x7ff * 2 ^ 52 < 2 ^ 63 := by norm_num
    have h31 : 0xff * 2 ^ 23 < 2 ^ 31 := by norm_num
    have e2 : f.toF64.toF32 = F32.ofParts f.sign (0xff * 2 ^ 23) := by
      have a : f.toF64.isNaN = false := by rw [F32.toF64_isNaN, hn]
      have b : f.toF64.isInf = true := by rw [F32.toF64_isInf, hi]
      unfold F64.toF32
      simp only [a, b, Bool.false_eq_true, if_false, if_true]
      rw [F32.toF64_sign]
    rw [e2]
    apply F32.ext_of_sign_rest
    · rw [F32.ofParts_sign _ _ h31]
    · rw [F32.ofParts_rest _ _ h31]
      have he := F32.expField_eq' f
      have hm := F32.mantField_eq' f
      unfold F32.isInf at hi
      simp only [Bool.and_eq_true, beq_iff_eq] at hi
      omega
  · have hi' : f.isInf = false := by simpa using hi
    exact F32.toF64_toF32 f (by rw [F32.isFinite_eq, hn, hi']; rfl)

theorem fromFloat32_eq (g : Globals) (f : F32) (hn : f.isNaN = false) :
    Gen.FromFloat32 g f = Gen.FromFloat64 g f.toF64 := by
  have : Go.math.IsNaN f.toF64 = false := by
    show f.toF64.isNaN = false
    rw [F32.toF64_isNaN, hn]
  unfold Gen.FromFloat32
  simp only [this, Bool.false_eq_true, if_false]

/-- **C09 round trip, float32.**  For every non-NaN float32 `f` and every valid default rounding mode,
    `FromFloat32(f)` succeeds and its `Float32()` is `f`, bit for bit. -/
theorem float32_fromFloat32_roundtrip (g : Globals) (m : Spec.Mode)
    (hm : Spec.Mode.ofNat? g.DefaultRoundingMode.toNat = some m) (f : F32) (hn : f.isNaN = false) :
    ∃ d, Gen.FromFloat32 g f = .ok d ∧ Decimal.Float32 d = .ok f := by
  obtain ⟨d, hd, h64⟩ := float64_fromFloat64_roundtrip g m hm f.toF64 (by rw [F32.toF64_isNaN, hn])
  refine ⟨d, by rw [fromFloat32_eq g f hn, hd], ?_⟩
  rw [Float32_of_Float64 d _ h64, F32_toF64_toF32 f hn]

/-- NaN ↦ NaN for float32: the canonical quiet NaN `0x7fc00000` -/
theorem float32_fromFloat32_nan (g : Globals) (f : F32) (hn : f.isNaN = true) :
    ∃ d, Gen.FromFloat32 g f = .ok d ∧ Decimal.Float32 d = .ok ⟨0x7fc00000⟩ := by
  have : Go.math.IsNaN f.toF64 = true := by
    show f.toF64.isNaN = true
    rw [F32.toF64_isNaN, hn]
  refine ⟨nan 2 0 0, by unfold Gen.FromFloat32; simp only [this, if_true]; rfl, ?_⟩
  exact (Float32_specials _).1 false ((2 ||| Go.shl 0 8) ||| Go.shl 0 16) (by decide)

end F2
