/-
  D128/Proofs/FloatFromCert.lean — a checkable certificate that no float of a binade is close to a rounding
  boundary of the decimal format ("hard cases" of binary → decimal conversion do not exist within 2^-121 ulp).

  For a magnitude `V = M·B/C` (`M` in a range) and a quantum exponent `q`, write `V / 10^q = M·A/N`
  (`(A, N) = AN B C q`).  A multiple `n/2` of half a quantum lies within `2^-122` quanta below `V` iff
  `r = 2·M·A − n·N ∈ [0, N/2^121]`.  For integers `d, k` and `c = k·N − 2·A·d` the combination `c·M + d·r` is a
  multiple of `N`; when its range over the admissible `M`, `r` contains no multiple of `N`, no such `n` exists.
  `d` comes from a table (found outside Lean by continued fractions); the check is executable in `Nat`.

  Provided (namespace `FF.Cert`):
  * `no_multiple`, `AN`, `AN_spec`, `entryOK`, `entry_sound`, `entry_sound_rat`
  * `rowOK` (all quanta of one binade), `row_sound`; `tableOK` (consecutive binades), `table_sound`
-/
import Mathlib.Tactic.Ring
import Mathlib.Tactic.Linarith
import Mathlib.Tactic.Positivity
import Mathlib.Tactic.FieldSimp
import Mathlib.Tactic.NormNum
import Mathlib.Tactic.Zify

set_option autoImplicit false

namespace FF.Cert

theorem no_multiple (N lo hi x : Nat) (hρ : lo % N ≠ 0) (hlen : lo % N + (hi - lo) < N)
    (hlo : lo ≤ x) (hhi : x ≤ hi) (hdvd : N ∣ x) : False := by
  obtain ⟨w, rfl⟩ := hdvd
  have hdm := Nat.div_add_mod lo N
  have hw : lo / N + 1 ≤ w := by
    by_contra hc
    have : w ≤ lo / N := by omega
    have := Nat.mul_le_mul_left N this
    omega
  have := Nat.mul_le_mul_left N hw
  rw [Nat.mul_add, Nat.mul_one] at this
  omega

theorem ceil_mul_ge (P N : Nat) (hN : 0 < N) : P ≤ (P + N - 1) / N * N := by
  have h3 := Nat.div_add_mod (P + N - 1) N
  have h4 := Nat.mod_lt (P + N - 1) hN
  generalize (P + N - 1) / N = q at *
  generalize (P + N - 1) % N = rem at *
  rw [Nat.mul_comm]
  omega

/-- `x % N` as an integer, the quotient kept as a natural number -/
theorem mod_cast_eq (x N : Nat) : ∃ q : Nat, ((x % N : Nat) : Int) = (x : Int) - (N : Int) * q := by
  refine ⟨x / N, ?_⟩
  have h := Nat.div_add_mod x N
  generalize x / N = q at *
  generalize x % N = rem at *
  subst h
  push_cast; ring

/-- `V / 10^q = M·A/N` for `V = M·B/C` -/
def AN (B C : Nat) (q : Int) : Nat × Nat :=
  if 0 ≤ q then (B, C * 10 ^ q.toNat) else (B * 10 ^ (-q).toNat, C)

theorem AN_pos (B C : Nat) (q : Int) (hB : 0 < B) (hC : 0 < C) : 0 < (AN B C q).1 ∧ 0 < (AN B C q).2 := by
  unfold AN
  split
  · exact ⟨hB, Nat.mul_pos hC (by positivity)⟩
  · exact ⟨Nat.mul_pos hB (by positivity), hC⟩

theorem AN_spec (B C : Nat) (q : Int) (hC : 0 < C) :
    ((AN B C q).1 : ℚ) / (AN B C q).2 = (B : ℚ) / C / (10 : ℚ) ^ q := by
  have hC' : (C : ℚ) ≠ 0 := by exact_mod_cast hC.ne'
  unfold AN
  split
  · rename_i h
    obtain ⟨k, rfl⟩ := Int.eq_ofNat_of_zero_le h
    simp only [Int.toNat_natCast, zpow_natCast]
    push_cast
    rw [div_div]
  · rename_i h
    obtain ⟨k, hk⟩ : ∃ k : Nat, q = -(k : Int) := ⟨(-q).toNat, by omega⟩
    subst hk
    simp only [neg_neg, Int.toNat_natCast, zpow_neg, zpow_natCast]
    push_cast
    field_simp

/-- the executable check for one `(binade, quantum)` pair with certificate `(d, flag)` -/
def entryOK (A N Mlo Mhi d : Nat) (flag : Bool) : Bool :=
  let M0 := max Mlo ((2 ^ 110 * N + A - 1) / A)
  let M1 := min Mhi ((10 * 2 ^ 110 * N - 1) / A)
  if M1 < M0 then true else
  let R := N / 2 ^ 121
  let P := 2 * A * d
  let cc := if flag then P % N else ((P + N - 1) / N) * N - P
  let t := if flag then (d * R) % N else 0
  let ρ := (cc * M0 + (N - t)) % N
  ρ != 0 && decide (ρ + cc * (M1 - M0) + d * R < N)

theorem entry_sound (A N Mlo Mhi d : Nat) (flag : Bool) (hA : 0 < A) (hN : 0 < N)
    (h : entryOK A N Mlo Mhi d flag = true) (M : Nat) (hM0 : Mlo ≤ M) (hM1 : M ≤ Mhi)
    (h1 : 2 ^ 110 * N ≤ M * A) (h2 : M * A < 10 * 2 ^ 110 * N) (n : Int)
    (hr0 : 0 ≤ 2 * (M : Int) * A - n * N) (hr1 : (2 * (M : Int) * A - n * N) * 2 ^ 121 ≤ N) : False := by
  unfold entryOK at h
  simp only [] at h
  set M0 := max Mlo ((2 ^ 110 * N + A - 1) / A) with hM0def
  set M1 := min Mhi ((10 * 2 ^ 110 * N - 1) / A) with hM1def
  have hlo : M0 ≤ M := by
    apply max_le hM0
    rw [← Nat.lt_succ_iff, Nat.div_lt_iff_lt_mul hA, Nat.succ_mul]
    omega
  have hhi : M ≤ M1 := by
    apply le_min hM1
    rw [Nat.le_div_iff_mul_le hA]
    omega
  rw [if_neg (by omega)] at h
  set R := N / 2 ^ 121 with hRdef
  -- the residual as a natural number
  obtain ⟨r, hr⟩ : ∃ r : Nat, 2 * (M : Int) * A - n * N = r := ⟨_, (Int.toNat_of_nonneg hr0).symm⟩
  rw [hr] at hr1
  have hrR : r ≤ R := by
    rw [hRdef, Nat.le_div_iff_mul_le (by positivity)]
    exact_mod_cast hr1
  simp only [Bool.and_eq_true, bne_iff_ne, ne_eq, decide_eq_true_eq] at h
  obtain ⟨hρ, hlen⟩ := h
  have hcM : ∀ cc : Nat, cc * M0 ≤ cc * M ∧ cc * M = cc * M0 + cc * (M - M0) ∧
      cc * (M - M0) ≤ cc * (M1 - M0) := by
    intro cc
    refine ⟨Nat.mul_le_mul_left _ hlo, ?_, Nat.mul_le_mul_left _ (by omega)⟩
    rw [← Nat.mul_add]; congr 1; omega
  have hdr : d * r ≤ d * R := Nat.mul_le_mul_left _ hrR
  cases flag
  · -- c = k·N − P ≥ 0
    simp only [Bool.false_eq_true, if_false, Nat.sub_zero] at hρ hlen
    set k := (2 * A * d + N - 1) / N with hk
    have hkP : 2 * A * d ≤ k * N := ceil_mul_ge _ _ hN
    set cc := k * N - 2 * A * d with hcc
    obtain ⟨e1, e2, e3⟩ := hcM cc
    have hdvd : N ∣ cc * M + d * r := by
      have : ((cc * M + d * r : Nat) : Int) = (N : Int) * (k * M - d * n) := by
        have hcc' : (cc : Int) = k * N - 2 * A * d := by
          rw [hcc]; push_cast [Nat.cast_sub hkP]; ring
        push_cast
        rw [hcc', ← hr]; ring
      exact Int.natCast_dvd_natCast.1 ⟨_, this⟩
    have hρ' : (cc * M0) % N ≠ 0 := by
      intro h0; apply hρ
      rw [Nat.add_mod, h0, Nat.mod_self]; simp
    have hmod : (cc * M0 + N) % N = (cc * M0) % N := by rw [Nat.add_mod_right]
    rw [hmod] at hlen
    exact no_multiple N (cc * M0) (cc * M1 + d * R) (cc * M + d * r) hρ'
      (by have : cc * M1 = cc * M0 + cc * (M1 - M0) := by
            rw [← Nat.mul_add]; congr 1; omega
          omega)
      (by omega) (by have := (hcM cc).2.1; have : cc * M ≤ cc * M1 := Nat.mul_le_mul_left _ hhi; omega) hdvd
  · -- c = k·N − P < 0: use −c
    simp only [if_true] at hρ hlen
    set P := 2 * A * d with hP
    set cc := P % N with hcc
    set t := (d * R) % N with ht
    have htN : t < N := Nat.mod_lt _ hN
    have hPdm := Nat.div_add_mod P N
    obtain ⟨e1, e2, e3⟩ := hcM cc
    have hdvd : N ∣ cc * M + d * (R - r) + (N - t) := by
      obtain ⟨q1, hq1⟩ := mod_cast_eq P N
      obtain ⟨q2, hq2⟩ := mod_cast_eq (d * R) N
      rw [← hcc] at hq1
      rw [← ht] at hq2
      have : ((cc * M + d * (R - r) + (N - t) : Nat) : Int)
          = (N : Int) * (d * n - q1 * M + q2 + 1) := by
        have hP' : (P : Int) = 2 * A * d := by rw [hP]; push_cast; ring
        push_cast [Nat.cast_sub hrR, Nat.cast_sub htN.le] at hq2 ⊢
        rw [hq1, hq2, hP', ← hr]; ring
      exact Int.natCast_dvd_natCast.1 ⟨_, this⟩
    have hdr' : d * (R - r) ≤ d * R := Nat.mul_le_mul_left _ (by omega)
    exact no_multiple N (cc * M0 + (N - t)) (cc * M1 + d * R + (N - t))
      (cc * M + d * (R - r) + (N - t)) hρ
      (by have : cc * M1 = cc * M0 + cc * (M1 - M0) := by
            rw [← Nat.mul_add]; congr 1; omega
          omega)
      (by omega) (by have : cc * M ≤ cc * M1 := Nat.mul_le_mul_left _ hhi; omega) hdvd

/-- the rational form: `y = V/10^q = M·A/N` lies in the coefficient range, `a'` is within `2^-236` below
    it, and a half-integer `n/2` lies in `[a', y]` -/
theorem entry_sound_rat (A N Mlo Mhi d : Nat) (flag : Bool) (hA : 0 < A) (hN : 0 < N)
    (h : entryOK A N Mlo Mhi d flag = true) (M : Nat) (hM0 : Mlo ≤ M) (hM1 : M ≤ Mhi) (n : Int)
    (y a' : ℚ) (hy : y = (M : ℚ) * A / N) (hsp1 : 2 ^ 110 ≤ y) (hsp2 : y < 10 * 2 ^ 110)
    (hn1 : a' ≤ (n : ℚ) / 2) (hn2 : (n : ℚ) / 2 ≤ y) (hclose : y * 2 ^ 236 ≤ a' * (2 ^ 236 + 1)) :
    False := by
  have hNq : (0 : ℚ) < N := by exact_mod_cast hN
  have hyN : y * N = (M : ℚ) * A := by rw [hy]; field_simp
  apply entry_sound A N Mlo Mhi d flag hA hN h M hM0 hM1 _ _ n
  · -- 0 ≤ r
    have : (n : ℚ) * N ≤ 2 * (M : ℚ) * A := by
      have := mul_le_mul_of_nonneg_right hn2 hNq.le
      linarith
    have : ((n * N : Int) : ℚ) ≤ ((2 * (M : Int) * A : Int) : ℚ) := by push_cast; exact this
    have := Int.cast_le.1 this
    omega
  · -- r·2^121 ≤ N
    have h1 : 2 * y - n ≤ 2 * y / (2 ^ 236 + 1) := by
      rw [le_div_iff₀ (by positivity)]
      nlinarith
    have h2 : 2 * y / (2 ^ 236 + 1) ≤ 1 / 2 ^ 121 := by
      rw [div_le_div_iff₀ (by positivity) (by positivity)]
      nlinarith
    have h3 : (2 * y - n) * N * 2 ^ 121 ≤ N := by
      have : (2 * y - n) * 2 ^ 121 ≤ 1 := by
        have := le_trans h1 h2
        rw [le_div_iff₀ (by positivity)] at this
        exact this
      nlinarith
    have h4 : (2 * y - n) * N = 2 * (M : ℚ) * A - n * N := by
      rw [sub_mul, mul_assoc, hyN]; ring
    rw [h4] at h3
    have : (((2 * (M : Int) * A - n * N) * 2 ^ 121 : Int) : ℚ) ≤ ((N : Int) : ℚ) := by
      push_cast; exact h3
    exact Int.cast_le.1 this
  · have : (2 : ℚ) ^ 110 * N ≤ (M : ℚ) * A := by
      rw [← hyN]; exact mul_le_mul_of_nonneg_right hsp1 hNq.le
    exact_mod_cast this
  · have : (M : ℚ) * A < 10 * 2 ^ 110 * N := by
      rw [← hyN]; exact mul_lt_mul_of_pos_right hsp2 hNq
    exact_mod_cast this

/-- what a checked entry gives for `V = M·B/C` at quantum exponent `q` -/
def Clear (V : ℚ) (q : Int) : Prop :=
  ∀ (a : ℚ) (n : Int), a ≤ V → V * 2 ^ 236 ≤ a * (2 ^ 236 + 1) →
    ¬ (a ≤ (n : ℚ) / 2 * (10 : ℚ) ^ q ∧ (n : ℚ) / 2 * (10 : ℚ) ^ q ≤ V)

theorem entry_clear (B C Mlo Mhi d : Nat) (flag : Bool) (q : Int) (hB : 0 < B) (hC : 0 < C)
    (h : entryOK (AN B C q).1 (AN B C q).2 Mlo Mhi d flag = true) (M : Nat) (hM0 : Mlo ≤ M)
    (hM1 : M ≤ Mhi) (hsp1 : 2 ^ 110 * (10 : ℚ) ^ q ≤ (M : ℚ) * B / C)
    (hsp2 : (M : ℚ) * B / C < 10 * 2 ^ 110 * (10 : ℚ) ^ q) : Clear ((M : ℚ) * B / C) q := by
  intro a n haV hclose ⟨hn1, hn2⟩
  have hp : (0 : ℚ) < (10 : ℚ) ^ q := zpow_pos (by norm_num) _
  obtain ⟨hA, hN⟩ := AN_pos B C q hB hC
  refine entry_sound_rat _ _ Mlo Mhi d flag hA hN h M hM0 hM1 n ((M : ℚ) * B / C / (10 : ℚ) ^ q)
    (a / (10 : ℚ) ^ q) ?_ ?_ ?_ ?_ ?_ ?_
  · rw [mul_div_assoc (M : ℚ) ((AN B C q).1 : ℚ), AN_spec B C q hC]; ring
  · rw [le_div_iff₀ hp]; exact hsp1
  · rw [div_lt_iff₀ hp]; exact hsp2
  · rw [div_le_iff₀ hp]; exact hn1
  · rw [le_div_iff₀ hp]; exact hn2
  · have e1 : (M : ℚ) * B / C / (10 : ℚ) ^ q * 2 ^ 236 = ((M : ℚ) * B / C * 2 ^ 236) / (10 : ℚ) ^ q := by
      ring
    have e2 : a / (10 : ℚ) ^ q * (2 ^ 236 + 1) = (a * (2 ^ 236 + 1)) / (10 : ℚ) ^ q := by ring
    rw [e1, e2]
    exact div_le_div_of_nonneg_right hclose hp.le

/-- the quanta `q, q+1, …` of one binade, then the upper boundary -/
def rowGo (B C Mlo Mhi : Nat) : Int → List (Nat × Bool) → Bool
  | q, [] => decide (Mhi * (AN B C q).1 < 2 ^ 110 * (AN B C q).2)
  | q, (d, f) :: rest => entryOK (AN B C q).1 (AN B C q).2 Mlo Mhi d f && rowGo B C Mlo Mhi (q + 1) rest

/-- one binade `V = M·B/C`, `Mlo ≤ M ≤ Mhi`: its least quantum exponent is `q0`, every quantum is clear -/
def rowOK (B C Mlo Mhi : Nat) (q0 : Int) (ds : List (Nat × Bool)) : Bool :=
  decide (2 ^ 110 * (AN B C q0).2 ≤ Mlo * (AN B C q0).1) && rowGo B C Mlo Mhi q0 ds

theorem AN_le (B C : Nat) (q : Int) (hB : 0 < B) (hC : 0 < C) (x y : Nat) :
    (x * (AN B C q).2 ≤ y * (AN B C q).1 ↔ (x : ℚ) * (10 : ℚ) ^ q ≤ (y : ℚ) * B / C) ∧
    (y * (AN B C q).1 < x * (AN B C q).2 ↔ (y : ℚ) * B / C < (x : ℚ) * (10 : ℚ) ^ q) := by
  obtain ⟨hA, hN⟩ := AN_pos B C q hB hC
  have hNq : (0 : ℚ) < (AN B C q).2 := by exact_mod_cast hN
  have hp : (0 : ℚ) < (10 : ℚ) ^ q := zpow_pos (by norm_num) _
  have hs := AN_spec B C q hC
  have e : (y : ℚ) * B / C = (y : ℚ) * (AN B C q).1 / (AN B C q).2 * (10 : ℚ) ^ q := by
    rw [mul_div_assoc, mul_div_assoc, hs]; field_simp
  rw [e]
  constructor
  · rw [mul_le_mul_iff_left₀ hp, le_div_iff₀ hNq]; exact_mod_cast Iff.rfl
  · rw [mul_lt_mul_iff_left₀ hp, div_lt_iff₀ hNq]; exact_mod_cast Iff.rfl

theorem rowGo_sound (B C Mlo Mhi : Nat) (hB : 0 < B) (hC : 0 < C) (ds : List (Nat × Bool)) :
    ∀ q : Int, rowGo B C Mlo Mhi q ds = true → ∀ M : Nat, Mlo ≤ M → M ≤ Mhi → ∀ q' : Int, q ≤ q' →
      2 ^ 110 * (10 : ℚ) ^ q' ≤ (M : ℚ) * B / C → (M : ℚ) * B / C < 10 * 2 ^ 110 * (10 : ℚ) ^ q' →
      Clear ((M : ℚ) * B / C) q' := by
  have hBq : (0 : ℚ) < B := by exact_mod_cast hB
  have hCq : (0 : ℚ) < C := by exact_mod_cast hC
  induction ds with
  | nil =>
    intro q h M hM0 hM1 q' hqq hsp1 hsp2
    exfalso
    unfold rowGo at h
    rw [decide_eq_true_eq] at h
    have h' := ((AN_le B C q hB hC (2 ^ 110) Mhi).2).1 h
    have hmono : (10 : ℚ) ^ q ≤ (10 : ℚ) ^ q' := zpow_le_zpow_right₀ (by norm_num) hqq
    have hM : (M : ℚ) * B / C ≤ (Mhi : ℚ) * B / C := by
      apply div_le_div_of_nonneg_right _ hCq.le
      exact mul_le_mul_of_nonneg_right (by exact_mod_cast hM1) hBq.le
    push_cast at h'
    have : (2 : ℚ) ^ 110 * (10 : ℚ) ^ q ≤ 2 ^ 110 * (10 : ℚ) ^ q' :=
      mul_le_mul_of_nonneg_left hmono (by positivity)
    linarith
  | cons e rest ih =>
    intro q h M hM0 hM1 q' hqq hsp1 hsp2
    obtain ⟨d, f⟩ := e
    unfold rowGo at h
    rw [Bool.and_eq_true] at h
    rcases eq_or_lt_of_le hqq with heq | hlt
    · subst heq
      exact entry_clear B C Mlo Mhi d f q hB hC h.1 M hM0 hM1 hsp1 hsp2
    · exact ih (q + 1) h.2 M hM0 hM1 q' (by omega) hsp1 hsp2

theorem row_sound (B C Mlo Mhi : Nat) (hB : 0 < B) (hC : 0 < C) (q0 : Int) (ds : List (Nat × Bool))
    (h : rowOK B C Mlo Mhi q0 ds = true) (M : Nat) (hM0 : Mlo ≤ M) (hM1 : M ≤ Mhi) (q' : Int)
    (hsp1 : 2 ^ 110 * (10 : ℚ) ^ q' ≤ (M : ℚ) * B / C)
    (hsp2 : (M : ℚ) * B / C < 10 * 2 ^ 110 * (10 : ℚ) ^ q') : Clear ((M : ℚ) * B / C) q' := by
  have hBq : (0 : ℚ) < B := by exact_mod_cast hB
  have hCq : (0 : ℚ) < C := by exact_mod_cast hC
  unfold rowOK at h
  rw [Bool.and_eq_true, decide_eq_true_eq] at h
  have h' := ((AN_le B C q0 hB hC (2 ^ 110) Mlo).1).1 h.1
  push_cast at h'
  have hq : q0 ≤ q' := by
    by_contra hc
    have hle : q' + 1 ≤ q0 := by omega
    have hmono : (10 : ℚ) ^ (q' + 1) ≤ (10 : ℚ) ^ q0 := zpow_le_zpow_right₀ (by norm_num) hle
    rw [zpow_add_one₀ (by norm_num)] at hmono
    have hM : (Mlo : ℚ) * B / C ≤ (M : ℚ) * B / C := by
      apply div_le_div_of_nonneg_right _ hCq.le
      exact mul_le_mul_of_nonneg_right (by exact_mod_cast hM0) hBq.le
    have : (2 : ℚ) ^ 110 * ((10 : ℚ) ^ q' * 10) ≤ 2 ^ 110 * (10 : ℚ) ^ q0 :=
      mul_le_mul_of_nonneg_left hmono (by positivity)
    linarith
  exact rowGo_sound B C Mlo Mhi hB hC ds q0 h.2 M hM0 hM1 q' hq hsp1 hsp2

/-- consecutive binades `S, S+1, …` with `(B, C) = mk S` -/
def tableOK (mk : Nat → Nat × Nat) (Mlo Mhi : Nat) : Nat → List (Int × List (Nat × Bool)) → Bool
  | _, [] => true
  | S, (q0, ds) :: rest => rowOK (mk S).1 (mk S).2 Mlo Mhi q0 ds && tableOK mk Mlo Mhi (S + 1) rest

theorem table_sound (mk : Nat → Nat × Nat) (Mlo Mhi : Nat) (tbl : List (Int × List (Nat × Bool))) :
    ∀ S0 : Nat, tableOK mk Mlo Mhi S0 tbl = true → ∀ S : Nat, S0 ≤ S → S < S0 + tbl.length →
      ∃ q0 ds, rowOK (mk S).1 (mk S).2 Mlo Mhi q0 ds = true := by
  induction tbl with
  | nil => intro S0 _ S h1 h2; simp at h2; omega
  | cons e rest ih =>
    intro S0 h S h1 h2
    obtain ⟨q0, ds⟩ := e
    unfold tableOK at h
    rw [Bool.and_eq_true] at h
    rcases eq_or_lt_of_le h1 with heq | hlt
    · subst heq; exact ⟨q0, ds, h.1⟩
    · exact ih (S0 + 1) h.2 S (by omega) (by simp at h2 ⊢; omega)

end FF.Cert
