/-
  7. `roundTo m neg q` (q > 0) is the correctly rounded member of the format, 8. `flushOrRound`.
  Throughout, a finite result `.fin n c e` has magnitude `c·10^e`.

  7a `roundTo_member` (±Inf of the sign or a member: c ≤ Cmax, Emin ≤ e ≤ Emax), `roundTo_fin`,
     `roundTo_fin_member`, `roundTo_within_spacing : |c·10^e - q| < 10^spacingExp q`
  7b `roundTo_down_le` (isDown: c·10^e ≤ q), `roundTo_up_ge` (isUp: q ≤ c·10^e), and per mode
     `roundTo_toZero_le`, `roundTo_awayFromZero_ge`, `roundTo_toNegInf_le`, `roundTo_toPosInf_ge`
     (the last two on the signed value)
  7c `roundTo_nearest_half : |c·10^e - q| ≤ 10^spacingExp q / 2`, `tie_frac`,
     `roundTo_nearestEven_tie` (tie → c even), `roundTo_nearestAway_tie` (tie → c·10^e = q + half),
     `roundTo_nearest_member` (no member is closer to q than the result)
  7d `roundTo_exact` (a member q = c·10^e is returned unchanged in value, every mode)
  7e `roundTo_down_greatest` (greatest member ≤ q), `roundTo_up_least` (least member ≥ q),
     `member_le_max`, `roundTo_inf_gt_max`, `roundTo_inf_no_member`, `roundTo_up_inf_iff`
     (overflow ↔ Cmax·10^Emax < q), `roundTo_down_inf_iff` (overflow ↔ (Cmax+1)·10^Emax ≤ q)
  8  `flushOrRound_zero`, `flushOrRound_tiny` (0 < q < 10^(Emin-1) → signed zero at Emin),
     `flushOrRound_eq_roundTo` (10^(Emin-1) ≤ q), `flushOrRoundS_eq`, `ilog10_lt_iff`
-/
import D128.Proofs.SpecRoundAt

namespace SpecRound
open Spec

/-! ## 7. characterisation of `roundTo` -/

/-- everything `roundTo_cases` says when the result is finite -/
theorem roundTo_fin {m : Mode} {neg : Bool} {q : Rat} (hq : 0 < q) {n : Bool} {c : Nat} {e : Int}
    (h : Spec.roundTo m neg q = .fin n c e) :
    n = neg ∧ c ≤ Spec.Cmax ∧ Spec.Emin ≤ e ∧ e ≤ Spec.Emax ∧
    (c : Rat) * (10 : Rat) ^ e =
      (Spec.roundAt m neg q (Spec.spacingExp q) : Rat) * (10 : Rat) ^ (Spec.spacingExp q) ∧
    ((e = Spec.spacingExp q ∧ c = Spec.roundAt m neg q (Spec.spacingExp q)) ∨
     (e = Spec.spacingExp q + 1 ∧ Spec.roundAt m neg q (Spec.spacingExp q) = Spec.Cmax + 1 ∧
        c = 2 ^ 110)) := by
  rcases roundTo_cases m neg q hq with ⟨hinf, -⟩ | ⟨c', e', hfin, h1, h2, h3, h4, h5⟩
  · rw [hinf] at h; cases h
  · rw [hfin] at h
    injection h with hn hc he
    subst hn hc he
    exact ⟨rfl, h1, h2, h3, h4, h5⟩

/-- 7a (membership): the result is ±Inf of the given sign or a finite member of the format -/
theorem roundTo_member (m : Mode) (neg : Bool) (q : Rat) (hq : 0 < q) :
    Spec.roundTo m neg q = .inf neg ∨
    ∃ c e, Spec.roundTo m neg q = .fin neg c e ∧ c ≤ Spec.Cmax ∧ Spec.Emin ≤ e ∧ e ≤ Spec.Emax := by
  rcases roundTo_cases m neg q hq with ⟨hinf, -⟩ | ⟨c', e', hfin, h1, h2, h3, -, -⟩
  · exact Or.inl hinf
  · exact Or.inr ⟨c', e', hfin, h1, h2, h3⟩

theorem roundTo_fin_member {m : Mode} {neg : Bool} {q : Rat} (hq : 0 < q) {n : Bool} {c : Nat} {e : Int}
    (h : Spec.roundTo m neg q = .fin n c e) : Member ((c : Rat) * (10 : Rat) ^ e) := by
  obtain ⟨-, h1, h2, h3, -, -⟩ := roundTo_fin hq h
  exact ⟨c, e, h1, h2, h3, rfl⟩

/-- the scaled quantities every proof below works with -/
theorem scaled_facts (m : Mode) (neg : Bool) (q : Rat) (hq : 0 < q) (E : Int) :
    0 ≤ q / (10 : Rat) ^ E ∧ (0 : Rat) < (10 : Rat) ^ E ∧
    q = q / (10 : Rat) ^ E * (10 : Rat) ^ E ∧
    ((⌊q / (10 : Rat) ^ E⌋₊ : Nat) : Rat) ≤ (Spec.roundAt m neg q E : Rat) ∧
    (Spec.roundAt m neg q E : Rat) ≤ ((⌈q / (10 : Rat) ^ E⌉₊ : Nat) : Rat) ∧
    ((⌊q / (10 : Rat) ^ E⌋₊ : Nat) : Rat) ≤ q / (10 : Rat) ^ E ∧
    q / (10 : Rat) ^ E < ((⌊q / (10 : Rat) ^ E⌋₊ : Nat) : Rat) + 1 ∧
    q / (10 : Rat) ^ E ≤ ((⌈q / (10 : Rat) ^ E⌉₊ : Nat) : Rat) ∧
    ((⌈q / (10 : Rat) ^ E⌉₊ : Nat) : Rat) < q / (10 : Rat) ^ E + 1 := by
  have hE : (0 : Rat) < (10 : Rat) ^ E := zpow_pos (by norm_num) _
  have hs : 0 ≤ q / (10 : Rat) ^ E := div_nonneg hq.le hE.le
  refine ⟨hs, hE, (div_mul_zpow q E).symm, ?_, ?_, Nat.floor_le hs, Nat.lt_floor_add_one _,
    Nat.le_ceil _, Nat.ceil_lt_add_one hs⟩
  · exact_mod_cast floor_le_roundAt m neg q hq.le E
  · exact_mod_cast roundAt_le_ceil m neg q hq.le E

/-- 7a (distance): a finite result is within one spacing of q -/
theorem roundTo_within_spacing {m : Mode} {neg : Bool} {q : Rat} (hq : 0 < q) {n : Bool} {c : Nat}
    {e : Int} (h : Spec.roundTo m neg q = .fin n c e) :
    |(c : Rat) * (10 : Rat) ^ e - q| < (10 : Rat) ^ (Spec.spacingExp q) := by
  obtain ⟨-, -, -, -, hval, -⟩ := roundTo_fin hq h
  obtain ⟨hs, hE, hqs, h1, h2, h3, h4, h5, h6⟩ := scaled_facts m neg q hq (Spec.spacingExp q)
  rw [hval]
  generalize Spec.spacingExp q = E at *
  generalize (Spec.roundAt m neg q E : Rat) = C at *
  generalize q / (10 : Rat) ^ E = s at *
  generalize (10 : Rat) ^ E = p at *
  rw [hqs, abs_lt]
  constructor
  · have := mul_pos (show 0 < C - s + 1 by linarith) hE; linarith
  · have := mul_pos (show 0 < s + 1 - C by linarith) hE; linarith

/-- 7b: modes that truncate the magnitude never exceed q -/
theorem roundTo_down_le {m : Mode} {neg : Bool} (hd : isDown m neg = true) {q : Rat} (hq : 0 < q)
    {n : Bool} {c : Nat} {e : Int} (h : Spec.roundTo m neg q = .fin n c e) :
    (c : Rat) * (10 : Rat) ^ e ≤ q := by
  obtain ⟨-, -, -, -, hval, -⟩ := roundTo_fin hq h
  obtain ⟨hs, hE, hqs, h1, h2, h3, h4, h5, h6⟩ := scaled_facts m neg q hq (Spec.spacingExp q)
  rw [hval, roundAt_of_isDown hd q hq.le]
  conv_rhs => rw [hqs]
  exact mul_le_mul_of_nonneg_right h3 hE.le

/-- 7b: modes that round the magnitude up never fall below q -/
theorem roundTo_up_ge {m : Mode} {neg : Bool} (hu : isUp m neg = true) {q : Rat} (hq : 0 < q)
    {n : Bool} {c : Nat} {e : Int} (h : Spec.roundTo m neg q = .fin n c e) :
    q ≤ (c : Rat) * (10 : Rat) ^ e := by
  obtain ⟨-, -, -, -, hval, -⟩ := roundTo_fin hq h
  obtain ⟨hs, hE, hqs, h1, h2, h3, h4, h5, h6⟩ := scaled_facts m neg q hq (Spec.spacingExp q)
  rw [hval, roundAt_of_isUp hu q hq.le]
  conv_lhs => rw [hqs]
  exact mul_le_mul_of_nonneg_right h5 hE.le


/-- 7b, per mode, on the signed value: toZero / awayFromZero on magnitudes,
    toNegInf / toPosInf on the signed value `±q` -/
theorem roundTo_toZero_le {neg : Bool} {q : Rat} (hq : 0 < q) {n : Bool} {c : Nat} {e : Int}
    (h : Spec.roundTo .toZero neg q = .fin n c e) : (Spec.Val.fin n c e).abs ≤ q := by
  rw [abs_fin]; exact roundTo_down_le (m := .toZero) rfl hq h

theorem roundTo_awayFromZero_ge {neg : Bool} {q : Rat} (hq : 0 < q) {n : Bool} {c : Nat} {e : Int}
    (h : Spec.roundTo .awayFromZero neg q = .fin n c e) : q ≤ (Spec.Val.fin n c e).abs := by
  rw [abs_fin]; exact roundTo_up_ge (m := .awayFromZero) rfl hq h

theorem toRat_fin (n : Bool) (c : Nat) (e : Int) :
    (Spec.Val.fin n c e).toRat = if n then -((c : Rat) * (10 : Rat) ^ e) else (c : Rat) * (10 : Rat) ^ e := by
  simp [Spec.Val.toRat, Spec.mag, pow10_eq_zpow]

theorem roundTo_toNegInf_le {neg : Bool} {q : Rat} (hq : 0 < q) {n : Bool} {c : Nat} {e : Int}
    (h : Spec.roundTo .toNegInf neg q = .fin n c e) :
    (Spec.Val.fin n c e).toRat ≤ (if neg then -q else q) := by
  obtain ⟨hn, -⟩ := roundTo_fin hq h
  subst hn
  rw [toRat_fin]
  cases n
  · simpa using roundTo_down_le (m := .toNegInf) (neg := false) rfl hq h
  · simpa using roundTo_up_ge (m := .toNegInf) (neg := true) rfl hq h

theorem roundTo_toPosInf_ge {neg : Bool} {q : Rat} (hq : 0 < q) {n : Bool} {c : Nat} {e : Int}
    (h : Spec.roundTo .toPosInf neg q = .fin n c e) :
    (if neg then -q else q) ≤ (Spec.Val.fin n c e).toRat := by
  obtain ⟨hn, -⟩ := roundTo_fin hq h
  subst hn
  rw [toRat_fin]
  cases n
  · simpa using roundTo_up_ge (m := .toPosInf) (neg := false) rfl hq h
  · simpa using roundTo_down_le (m := .toPosInf) (neg := true) rfl hq h

/-! ### 7c nearest modes -/

/-- 7c: the nearest modes are within half a spacing -/
theorem roundTo_nearest_half {m : Mode} (hn : isNearest m = true) {neg : Bool} {q : Rat} (hq : 0 < q)
    {n : Bool} {c : Nat} {e : Int} (h : Spec.roundTo m neg q = .fin n c e) :
    |(c : Rat) * (10 : Rat) ^ e - q| ≤ (10 : Rat) ^ (Spec.spacingExp q) / 2 := by
  obtain ⟨-, -, -, -, hval, -⟩ := roundTo_fin hq h
  obtain ⟨hs, hE, hqs, h1, h2, h3, h4, h5, h6⟩ := scaled_facts m neg q hq (Spec.spacingExp q)
  have hnr := roundAt_nearest hn neg q hq.le (Spec.spacingExp q)
  rw [hval]
  generalize Spec.spacingExp q = E at *
  generalize Spec.roundAt m neg q E = C at *
  generalize q / (10 : Rat) ^ E = s at *
  generalize (10 : Rat) ^ E = p at *
  rw [hqs, abs_le]
  rcases hnr with ⟨hC, hf⟩ | ⟨hC, hf⟩
  · rw [hC]
    constructor
    · have := mul_nonneg (show 0 ≤ (⌊s⌋₊ : Rat) - s + 1 / 2 by linarith) hE.le; linarith
    · have := mul_nonneg (show 0 ≤ s - (⌊s⌋₊ : Rat) by linarith) hE.le; linarith
  · rw [hC]; push_cast
    constructor
    · have := mul_nonneg (show 0 ≤ (⌊s⌋₊ : Rat) + 1 - s by linarith) hE.le; linarith
    · have := mul_nonneg (show 0 ≤ s - (⌊s⌋₊ : Rat) - 1 / 2 by linarith) hE.le; linarith

/-- in a nearest mode, being exactly half a spacing away means the discarded fraction is 1/2 -/
theorem tie_frac {m : Mode} (hn : isNearest m = true) {neg : Bool} {q : Rat} (hq : 0 < q)
    {n : Bool} {c : Nat} {e : Int} (h : Spec.roundTo m neg q = .fin n c e)
    (ht : |(c : Rat) * (10 : Rat) ^ e - q| = (10 : Rat) ^ (Spec.spacingExp q) / 2) :
    q / (10 : Rat) ^ (Spec.spacingExp q) - (⌊q / (10 : Rat) ^ (Spec.spacingExp q)⌋₊ : Rat) = 1 / 2 := by
  obtain ⟨-, -, -, -, hval, -⟩ := roundTo_fin hq h
  obtain ⟨hs, hE, hqs, h1, h2, h3, h4, h5, h6⟩ := scaled_facts m neg q hq (Spec.spacingExp q)
  have hnr := roundAt_nearest hn neg q hq.le (Spec.spacingExp q)
  rw [hval] at ht
  generalize Spec.spacingExp q = E at *
  generalize Spec.roundAt m neg q E = C at *
  generalize q / (10 : Rat) ^ E = s at *
  generalize (10 : Rat) ^ E = p at *
  rw [hqs] at ht
  have key : ∀ C' : Rat, C' * p - s * p = (C' - s) * p := fun _ => by ring
  rcases hnr with ⟨hC, hf⟩ | ⟨hC, hf⟩
  · rw [hC, key, abs_mul, abs_of_pos hE, abs_of_nonpos (by linarith)] at ht
    have : (-((⌊s⌋₊ : Rat) - s) - 1 / 2) * p = 0 := by linarith
    rcases mul_eq_zero.1 this with h0 | h0
    · linarith
    · exact absurd h0 hE.ne'
  · rw [hC] at ht; push_cast at ht
    rw [key, abs_mul, abs_of_pos hE, abs_of_nonneg (by linarith)] at ht
    have : ((⌊s⌋₊ : Rat) + 1 - s - 1 / 2) * p = 0 := by linarith
    rcases mul_eq_zero.1 this with h0 | h0
    · linarith
    · exact absurd h0 hE.ne'

/-- 7c: ties go to the even coefficient under nearestEven -/
theorem roundTo_nearestEven_tie {neg : Bool} {q : Rat} (hq : 0 < q) {n : Bool} {c : Nat} {e : Int}
    (h : Spec.roundTo .nearestEven neg q = .fin n c e)
    (ht : |(c : Rat) * (10 : Rat) ^ e - q| = (10 : Rat) ^ (Spec.spacingExp q) / 2) :
    c % 2 = 0 := by
  have hf := tie_frac (m := .nearestEven) rfl hq h ht
  obtain ⟨-, -, -, -, -, hshape⟩ := roundTo_fin hq h
  have hC : Spec.roundAt .nearestEven neg q (Spec.spacingExp q) % 2 = 0 := by
    rw [roundAt_nearestEven neg q hq.le]
    split
    · rename_i hc
      rcases hc with hc | ⟨-, hc⟩
      · rw [hf] at hc; exact absurd hc (lt_irrefl _)
      · omega
    · rename_i hc
      have : ¬ (⌊q / (10 : Rat) ^ (Spec.spacingExp q)⌋₊ % 2 = 1) := fun ho => hc (Or.inr ⟨hf, ho⟩)
      omega
  rcases hshape with ⟨-, hc⟩ | ⟨-, -, hc⟩
  · rw [hc]; exact hC
  · rw [hc]; norm_num

/-- 7c: ties go away from zero under nearestAway -/
theorem roundTo_nearestAway_tie {neg : Bool} {q : Rat} (hq : 0 < q) {n : Bool} {c : Nat} {e : Int}
    (h : Spec.roundTo .nearestAway neg q = .fin n c e)
    (ht : |(c : Rat) * (10 : Rat) ^ e - q| = (10 : Rat) ^ (Spec.spacingExp q) / 2) :
    (c : Rat) * (10 : Rat) ^ e = q + (10 : Rat) ^ (Spec.spacingExp q) / 2 := by
  have hf := tie_frac (m := .nearestAway) rfl hq h ht
  obtain ⟨-, -, -, -, hval, -⟩ := roundTo_fin hq h
  obtain ⟨hs, hE, hqs, -⟩ := scaled_facts .nearestAway neg q hq (Spec.spacingExp q)
  rw [hval, roundAt_nearestAway neg q hq.le, if_pos hf.ge]
  generalize Spec.spacingExp q = E at *
  generalize q / (10 : Rat) ^ E = s at *
  generalize (10 : Rat) ^ E = p at *
  rw [hqs]; push_cast
  have : (⌊s⌋₊ : Rat) = s - 1 / 2 := by linarith
  rw [this]; ring


/-! ### 7e the result is the neighbouring member in the rounding direction -/

/-- 7e: a truncating mode returns the greatest member not above q -/
theorem roundTo_down_greatest {m : Mode} {neg : Bool} (hd : isDown m neg = true) {q : Rat} (hq : 0 < q)
    {n : Bool} {c : Nat} {e : Int} (h : Spec.roundTo m neg q = .fin n c e)
    {x : Rat} (hx : Member x) (hxq : x ≤ q) : x ≤ (c : Rat) * (10 : Rat) ^ e := by
  obtain ⟨-, -, -, -, hval, -⟩ := roundTo_fin hq h
  obtain ⟨c', e', hc', he1, -, rfl⟩ := hx
  rw [hval, roundAt_of_isDown hd q hq.le]
  exact member_le_floor q hq hc' he1 hxq

/-- 7e: an upward mode returns the least member not below q -/
theorem roundTo_up_least {m : Mode} {neg : Bool} (hu : isUp m neg = true) {q : Rat} (hq : 0 < q)
    {n : Bool} {c : Nat} {e : Int} (h : Spec.roundTo m neg q = .fin n c e)
    {x : Rat} (hx : Member x) (hqx : q ≤ x) : (c : Rat) * (10 : Rat) ^ e ≤ x := by
  obtain ⟨-, -, -, -, hval, -⟩ := roundTo_fin hq h
  obtain ⟨c', e', hc', he1, -, rfl⟩ := hx
  rw [hval, roundAt_of_isUp hu q hq.le]
  exact (ceil_le_member q hq hc' he1 hqx).1

/-- every member is at most the largest finite magnitude -/
theorem member_le_max {x : Rat} (hx : Member x) : x ≤ (Spec.Cmax : Rat) * (10 : Rat) ^ Spec.Emax := by
  obtain ⟨c', e', hc', -, he2, rfl⟩ := hx
  have h1 : (c' : Rat) ≤ (Spec.Cmax : Rat) := by exact_mod_cast hc'
  exact mul_le_mul h1 (zpow_le_zpow_right₀ (by norm_num) he2) (zpow_pos (by norm_num) _).le
    (by positivity)

/-- ±Inf is returned only when q exceeds the largest finite magnitude (all modes) -/
theorem roundTo_inf_gt_max {m : Mode} {neg : Bool} {q : Rat} (hq : 0 < q) {n : Bool}
    (h : Spec.roundTo m neg q = .inf n) : (Spec.Cmax : Rat) * (10 : Rat) ^ Spec.Emax < q := by
  rcases roundTo_cases m neg q hq with ⟨-, hE | ⟨hE, hC⟩⟩ | ⟨c', e', hfin, -⟩
  · have hEmin : Spec.Emin ≤ Spec.Emax := by unfold Spec.Emin Spec.Emax; omega
    obtain ⟨h1, h2⟩ := member_below q hq (le_refl Spec.Cmax) hEmin hE
    obtain ⟨hs, hp, hqs, -, -, h3, -⟩ := scaled_facts m neg q hq (Spec.spacingExp q)
    have : ((2 ^ 110 : Nat) : Rat) ≤ (⌊q / (10 : Rat) ^ (Spec.spacingExp q)⌋₊ : Rat) := by exact_mod_cast h2
    push_cast at this
    calc (Spec.Cmax : Rat) * (10 : Rat) ^ Spec.Emax < (2 ^ 110 : Rat) * (10 : Rat) ^ (Spec.spacingExp q) := h1
      _ ≤ q / (10 : Rat) ^ (Spec.spacingExp q) * (10 : Rat) ^ (Spec.spacingExp q) :=
          mul_le_mul_of_nonneg_right (le_trans this h3) hp.le
      _ = q := div_mul_zpow q _
  · have hce := roundAt_le_ceil m neg q hq.le (Spec.spacingExp q)
    rw [hC] at hce
    have : (Spec.Cmax : Rat) < q / (10 : Rat) ^ (Spec.spacingExp q) := Nat.lt_ceil.1 (by omega)
    rw [hE] at this
    have hp : (0 : Rat) < (10 : Rat) ^ Spec.Emax := zpow_pos (by norm_num) _
    calc (Spec.Cmax : Rat) * (10 : Rat) ^ Spec.Emax < q / (10 : Rat) ^ Spec.Emax * (10 : Rat) ^ Spec.Emax :=
          mul_lt_mul_of_pos_right this hp
      _ = q := div_mul_zpow q _
  · rw [hfin] at h; cases h

/-- 7e: when ±Inf is returned every member is strictly below q -/
theorem roundTo_inf_no_member {m : Mode} {neg : Bool} {q : Rat} (hq : 0 < q) {n : Bool}
    (h : Spec.roundTo m neg q = .inf n) {x : Rat} (hx : Member x) : x < q :=
  lt_of_le_of_lt (member_le_max hx) (roundTo_inf_gt_max hq h)

/-- an upward mode overflows exactly when q exceeds the largest finite magnitude -/
theorem roundTo_up_inf_iff {m : Mode} {neg : Bool} (hu : isUp m neg = true) {q : Rat} (hq : 0 < q) :
    Spec.roundTo m neg q = .inf neg ↔ (Spec.Cmax : Rat) * (10 : Rat) ^ Spec.Emax < q := by
  constructor
  · exact roundTo_inf_gt_max hq
  · intro hgt
    rcases roundTo_member m neg q hq with h | ⟨c, e, h, -⟩
    · exact h
    · exfalso
      have h1 := roundTo_up_ge hu hq h
      have h2 := member_le_max (roundTo_fin_member hq h)
      linarith

/-! ### 7c' nearest member -/

/-- 7c: in a nearest mode no member of the format is closer to q than the result -/
theorem roundTo_nearest_member {m : Mode} (hn : isNearest m = true) {neg : Bool} {q : Rat} (hq : 0 < q)
    {n : Bool} {c : Nat} {e : Int} (h : Spec.roundTo m neg q = .fin n c e)
    {x : Rat} (hx : Member x) : |(c : Rat) * (10 : Rat) ^ e - q| ≤ |x - q| := by
  obtain ⟨-, -, -, -, hval, -⟩ := roundTo_fin hq h
  obtain ⟨c', e', hc', he1, -, rfl⟩ := hx
  obtain ⟨hs, hE, hqs, h1, h2, h3, h4, h5, h6⟩ := scaled_facts m neg q hq (Spec.spacingExp q)
  have hnr := roundAt_nearest hn neg q hq.le (Spec.spacingExp q)
  have hfl := member_le_floor q hq hc' he1
  have hce := ceil_le_member q hq hc' he1
  have hceil : q / (10 : Rat) ^ (Spec.spacingExp q) - (⌊q / (10 : Rat) ^ (Spec.spacingExp q)⌋₊ : Rat) ≠ 0 →
      ⌈q / (10 : Rat) ^ (Spec.spacingExp q)⌉₊ = ⌊q / (10 : Rat) ^ (Spec.spacingExp q)⌋₊ + 1 :=
    ceil_of_frac_ne hs
  rw [hval]
  generalize Spec.spacingExp q = E at *
  generalize Spec.roundAt m neg q E = C at *
  generalize (c' : Rat) * (10 : Rat) ^ e' = x at *
  generalize q / (10 : Rat) ^ E = s at *
  generalize (10 : Rat) ^ E = p at *
  rcases le_total x q with hxq | hxq
  · have hx1 := hfl hxq
    rw [abs_le, abs_of_nonpos (by linarith : x - q ≤ 0)]
    rcases hnr with ⟨hC, hf⟩ | ⟨hC, hf⟩
    · rw [hC]
      have := mul_nonneg (show 0 ≤ s - (⌊s⌋₊ : Rat) by linarith) hE.le
      constructor <;> linarith
    · rw [hC]; push_cast
      have a1 := mul_nonneg (show 0 ≤ s - (⌊s⌋₊ : Rat) - 1 / 2 by linarith) hE.le
      have a2 := mul_nonneg (show 0 ≤ (⌊s⌋₊ : Rat) + 1 - s by linarith) hE.le
      constructor <;> linarith
  · have hx1 := (hce hxq).1
    rw [abs_le, abs_of_nonneg (by linarith : 0 ≤ x - q)]
    rcases hnr with ⟨hC, hf⟩ | ⟨hC, hf⟩
    · rw [hC]
      have a1 := mul_nonneg (show 0 ≤ s - (⌊s⌋₊ : Rat) by linarith) hE.le
      by_cases hz : s - (⌊s⌋₊ : Rat) = 0
      · have : (⌊s⌋₊ : Rat) = s := by linarith
        rw [this]; constructor <;> linarith
      · have hc1 := hceil hz
        rw [hc1] at hx1; push_cast at hx1
        have a2 := mul_nonneg (show 0 ≤ 1 / 2 - (s - (⌊s⌋₊ : Rat)) by linarith) hE.le
        constructor <;> linarith
    · have hz : s - (⌊s⌋₊ : Rat) ≠ 0 := by intro h0; rw [h0] at hf; norm_num at hf
      have hc1 := hceil hz
      rw [hc1] at hx1; push_cast at hx1
      rw [hC]; push_cast
      have a2 := mul_nonneg (show 0 ≤ (⌊s⌋₊ : Rat) + 1 - s by linarith) hE.le
      constructor <;> linarith


/-! ### 7d exactness -/

theorem spacingExp_eq (q : Rat) : Spec.spacingExp q = max Spec.Emin (Spec.spacingExpRaw q) := by
  unfold Spec.spacingExp; rw [spacingExpS_eq]; simp

/-- when q / 10^E is a natural number every mode returns it -/
theorem roundAt_of_nat (m : Mode) (neg : Bool) {q : Rat} (hq : 0 ≤ q) {E : Int} {N : Nat}
    (h : q / (10 : Rat) ^ E = (N : Rat)) : Spec.roundAt m neg q E = N := by
  have h1 := floor_le_roundAt m neg q hq E
  have h2 := roundAt_le_ceil m neg q hq E
  rw [h, Nat.floor_natCast] at h1
  rw [h, Nat.ceil_natCast] at h2
  omega

/-- 7d: a member of the format is returned unchanged (as the cohort member with the least
    exponent), in every mode -/
theorem roundTo_exact (m : Mode) (neg : Bool) {c : Nat} {e : Int} (hc0 : 0 < c) (hc : c ≤ Spec.Cmax)
    (he1 : Spec.Emin ≤ e) (he2 : e ≤ Spec.Emax) :
    ∃ c' e', Spec.roundTo m neg ((c : Rat) * (10 : Rat) ^ e) = .fin neg c' e' ∧
      (c' : Rat) * (10 : Rat) ^ e' = (c : Rat) * (10 : Rat) ^ e ∧
      c' ≤ Spec.Cmax ∧ Spec.Emin ≤ e' ∧ e' ≤ e := by
  have hpe : (0 : Rat) < (10 : Rat) ^ e := zpow_pos (by norm_num) _
  have hq : 0 < (c : Rat) * (10 : Rat) ^ e := mul_pos (by exact_mod_cast hc0) hpe
  have hEe : Spec.spacingExp ((c : Rat) * (10 : Rat) ^ e) ≤ e := by
    rw [spacingExp_eq]
    apply max_le he1
    apply (coef_le_Cmax_iff _ hq e).1
    unfold coef
    rw [mul_div_assoc, div_self hpe.ne', mul_one, Nat.floor_natCast]; exact hc
  obtain ⟨N, hN⟩ := scaled_nat c hEe
  generalize hqdef : (c : Rat) * (10 : Rat) ^ e = q at *
  have hpE : (0 : Rat) < (10 : Rat) ^ (Spec.spacingExp q) := zpow_pos (by norm_num) _
  have hs : q / (10 : Rat) ^ (Spec.spacingExp q) = (N : Rat) := by
    rw [div_eq_iff hpE.ne']; exact hN
  have hC := roundAt_of_nat m neg hq.le hs
  have hNC : N ≤ Spec.Cmax := by
    have := (spacingExp_spec q hq).2.1
    unfold coef at this
    rwa [hs, Nat.floor_natCast] at this
  rcases roundTo_cases m neg q hq with ⟨-, hE | ⟨-, hC'⟩⟩ | ⟨c', e', hfin, h1, h2, h3, h4, h5⟩
  · omega
  · omega
  · refine ⟨c', e', hfin, ?_, h1, h2, ?_⟩
    · rw [h4, hC]; exact hN.symm
    · rcases h5 with ⟨h5, -⟩ | ⟨-, h5, -⟩
      · omega
      · omega

/-- a truncating mode overflows exactly from (Cmax+1)·10^Emax on -/
theorem roundTo_down_inf_iff {m : Mode} {neg : Bool} (hd : isDown m neg = true) {q : Rat} (hq : 0 < q) :
    Spec.roundTo m neg q = .inf neg ↔ ((Spec.Cmax : Rat) + 1) * (10 : Rat) ^ Spec.Emax ≤ q := by
  have hp : (0 : Rat) < (10 : Rat) ^ Spec.Emax := zpow_pos (by norm_num) _
  have hcoef : Spec.Cmax < coef q Spec.Emax ↔ ((Spec.Cmax : Rat) + 1) * (10 : Rat) ^ Spec.Emax ≤ q := by
    unfold coef
    rw [← le_div_iff₀ hp]
    have : ((Spec.Cmax : Rat) + 1) = ((Spec.Cmax + 1 : Nat) : Rat) := by push_cast; rfl
    rw [this, ← Nat.le_floor_iff (div_nonneg hq.le hp.le)]
    exact Nat.lt_iff_add_one_le
  have hraw : Spec.Cmax < coef q Spec.Emax ↔ Spec.Emax < Spec.spacingExp q := by
    rw [← not_le, coef_le_Cmax_iff q hq, spacingExp_eq]
    have : Spec.Emin ≤ Spec.Emax := by unfold Spec.Emin Spec.Emax; omega
    constructor
    · intro h; exact lt_of_lt_of_le (not_le.1 h) (le_max_right _ _)
    · intro h hc; exact absurd (max_le this hc) (not_le.2 h)
  rw [← hcoef, hraw]
  have hCle : Spec.roundAt m neg q (Spec.spacingExp q) ≤ Spec.Cmax := by
    rw [roundAt_of_isDown hd q hq.le]; exact (spacingExp_spec q hq).2.1
  rcases roundTo_cases m neg q hq with ⟨hinf, hE | ⟨-, hC⟩⟩ | ⟨c', e', hfin, h1, h2, h3, h4, h5⟩
  · exact ⟨fun _ => hE, fun _ => hinf⟩
  · omega
  · rw [hfin]
    constructor
    · intro h; cases h
    · intro h
      rcases h5 with ⟨h5, -⟩ | ⟨h5, -⟩ <;> omega


/-! ## 8. flushOrRound -/

theorem ilog10_lt_iff (q : Rat) (hq : 0 < q) (E : Int) : Spec.ilog10 q < E ↔ q < (10 : Rat) ^ E := by
  obtain ⟨h1, h2⟩ := ilog10_spec q hq
  constructor
  · intro h
    exact lt_of_lt_of_le h2 (zpow_le_zpow_right₀ (by norm_num) (by omega))
  · intro h
    exact (zpow_lt_zpow_iff_right₀ (by norm_num : (1 : Rat) < 10)).1 (lt_of_le_of_lt h1 h)

theorem flushOrRound_zero (m : Mode) (neg : Bool) : Spec.flushOrRound m neg 0 = .fin neg 0 0 := by
  simp [Spec.flushOrRound, Spec.flushOrRoundS]

/-- 8: below 10^(Emin-1) the result is the zero of the given sign -/
theorem flushOrRound_tiny (m : Mode) (neg : Bool) {q : Rat} (hq : 0 < q)
    (h : q < (10 : Rat) ^ (Spec.Emin - 1)) : Spec.flushOrRound m neg q = .fin neg 0 Spec.Emin := by
  unfold Spec.flushOrRound Spec.flushOrRoundS
  have h0 : ¬ q = 0 := hq.ne'
  have h1 : Spec.ilog10 q + 0 < Spec.Emin - 1 := by
    rw [add_zero]; exact (ilog10_lt_iff q hq _).2 h
  simp only [beq_iff_eq, h0, h1, ↓reduceIte]

/-- 8: from 10^(Emin-1) on, `flushOrRound` is `roundTo` -/
theorem flushOrRound_eq_roundTo (m : Mode) (neg : Bool) {q : Rat}
    (h : (10 : Rat) ^ (Spec.Emin - 1) ≤ q) : Spec.flushOrRound m neg q = Spec.roundTo m neg q := by
  have hq : 0 < q := lt_of_lt_of_le (zpow_pos (by norm_num) _) h
  unfold Spec.flushOrRound Spec.flushOrRoundS
  have h0 : ¬ q = 0 := hq.ne'
  have h1 : ¬ Spec.ilog10 q + 0 < Spec.Emin - 1 := by
    rw [add_zero, ilog10_lt_iff q hq]; exact not_lt.2 h
  simp only [beq_iff_eq, h0, h1, ↓reduceIte]
  rfl

/-- 8, scaled form: `flushOrRoundS m neg q k` is `flushOrRound` of the exact magnitude q·10^k -/
theorem flushOrRoundS_eq (m : Mode) (neg : Bool) (q : Rat) (hq : 0 ≤ q) (k : Int) :
    Spec.flushOrRoundS m neg q k = Spec.flushOrRound m neg (q * (10 : Rat) ^ k) :=
  flushOrRoundS_scale m neg q hq k

end SpecRound
