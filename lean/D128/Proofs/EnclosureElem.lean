/-
  Soundness of the enclosure oracle, part 6: `Spec.trueValue` (D128/Spec/Elem.lean) for the exponential
  family.  `X n c e` is the real value of the finite operand `(-1)^n · c · 10^e`.

  0. helpers: `toRatR`, `X_eq`, `abs_X_lt`, `abs_X_ge` (|X| ∈ [10^(e+nd-1), 10^(e+nd)) with nd = ndigits c),
     `ndigits_le_35`, `xguard` (the guarded rational `x` of `trueValue` is the operand when −200 ≤ e ≤ 200),
     `mul_pt_eq_scale`, `scale_small` (magnitude/width of `b.scale x` for a narrow `b`),
     `ln2_lo_ge`, `ln2_hi_le`, `ln2_width`, `exp_neg_100_le`
  1. `trueValue_exp_sound`   : trueValue .exp n c e = some (tn,t)   → tn = false ∧ Real.exp X ∈ₛ t
     `trueValue_exp2_sound`  : trueValue .exp2 n c e = some (tn,t)  → tn = false ∧ (2:ℝ)^X ∈ₛ t
     `trueValue_exp10_sound` : trueValue .exp10 n c e = some (tn,t) → tn = false ∧ (10:ℝ)^X ∈ₛ t
     for every c with 0 < c < 10^35 and every e.
  2. `trueValue_exp_isSome`, `trueValue_exp2_isSome`, `trueValue_exp10_isSome` : the oracle answers whenever
     e + ndigits c ≤ 7 (i.e. on every argument that is not judged by the overflow/underflow rule)
-/
import D128.Spec.Elem
import D128.Proofs.EnclosureRange
import Mathlib.Analysis.SpecialFunctions.Pow.Real
import Mathlib.Analysis.Complex.ExponentialBounds
set_option autoImplicit false

namespace EnclPf
open Spec Spec.Encl SpecRound

/-! ## 0. helpers -/

/-- the real value of the finite operand `(-1)^n · c · 10^e` -/
noncomputable def X (n : Bool) (c : Nat) (e : Int) : ℝ := (((Val.fin n c e).toRat : ℚ) : ℝ)

theorem toRat_fin (n : Bool) (c : Nat) (e : Int) :
    (Val.fin n c e).toRat = if n then -(mag c e) else mag c e := rfl

theorem mag_cast (c : Nat) (e : Int) : ((mag c e : ℚ) : ℝ) = (c : ℝ) * (10 : ℝ) ^ e := by
  unfold mag; rw [Rat.cast_mul, pow10_cast]; simp

theorem X_eq (n : Bool) (c : Nat) (e : Int) :
    X n c e = if n then -((c : ℝ) * (10 : ℝ) ^ e) else (c : ℝ) * (10 : ℝ) ^ e := by
  unfold X; rw [toRat_fin]; split <;> simp [mag_cast]

theorem abs_X (n : Bool) (c : Nat) (e : Int) : |X n c e| = (c : ℝ) * (10 : ℝ) ^ e := by
  have hp : (0 : ℝ) ≤ (c : ℝ) * (10 : ℝ) ^ e := by positivity
  rw [X_eq]; split
  · rw [abs_neg, abs_of_nonneg hp]
  · rw [abs_of_nonneg hp]

theorem ndigits_le_35 {c : Nat} (hc0 : c ≠ 0) (hc : c < 10 ^ 35) : ndigits c ≤ 35 := by
  obtain ⟨h1, -⟩ := ndigits_spec c hc0
  by_contra h
  have : 10 ^ 35 ≤ 10 ^ (ndigits c - 1) := Nat.pow_le_pow_right (by norm_num) (by omega)
  omega

theorem abs_X_lt (n : Bool) {c : Nat} (hc0 : c ≠ 0) (e : Int) :
    |X n c e| < (10 : ℝ) ^ (e + (ndigits c : Int)) := by
  rw [abs_X, zpow_add₀ (by norm_num), mul_comm]
  apply mul_lt_mul_of_pos_left _ (zpow_pos (by norm_num) e)
  have := (ndigits_spec_rat c hc0).2
  have h : ((c : ℚ) : ℝ) < (((10 : ℚ) ^ (ndigits c : Int) : ℚ) : ℝ) := by exact_mod_cast this
  simpa using h

theorem abs_X_ge (n : Bool) {c : Nat} (hc0 : c ≠ 0) (e : Int) :
    (10 : ℝ) ^ (e + (ndigits c : Int) - 1) ≤ |X n c e| := by
  rw [abs_X, show e + (ndigits c : Int) - 1 = e + ((ndigits c : Int) - 1) by ring,
    zpow_add₀ (by norm_num), mul_comm]
  apply mul_le_mul_of_nonneg_right _ (zpow_pos (by norm_num) e).le
  have := (ndigits_spec_rat c hc0).1
  have h : (((10 : ℚ) ^ ((ndigits c : Int) - 1) : ℚ) : ℝ) ≤ ((c : ℚ) : ℝ) := by exact_mod_cast this
  simpa using h

theorem abs_toRat_lt (n : Bool) {c : Nat} (hc0 : c ≠ 0) (e : Int) :
    |(Val.fin n c e).toRat| < (10 : ℚ) ^ (e + (ndigits c : Int)) := by
  have := abs_X_lt n hc0 e
  unfold X at this
  have h : ((|(Val.fin n c e).toRat| : ℚ) : ℝ) < (((10 : ℚ) ^ (e + (ndigits c : Int)) : ℚ) : ℝ) := by
    push_cast; exact this
  exact_mod_cast h

/-- the guarded rational used by `trueValue` -/
theorem xguard (n : Bool) (c : Nat) (e : Int) (h1 : -200 ≤ e) (h2 : e ≤ 200) :
    (if e < -200 || e > 200 then (0 : ℚ) else (if n then -(mag c e) else mag c e)) = (Val.fin n c e).toRat := by
  rw [toRat_fin]
  have : (decide (e < -200) || decide (e > 200)) = false := by
    simp only [Bool.or_eq_false_iff, decide_eq_false_iff_not]; omega
  simp only [this]; rfl

theorem mul_pt_eq_scale (x : ℚ) (b : I) : (I.pt x).mul b = b.scale x := by
  rw [scale_eq]
  unfold I.mul I.pt min4 max4
  simp only
  have e1 : min (min (x * b.lo) (x * b.hi)) (min (x * b.lo) (x * b.hi)) =
      min (min (b.lo * x) (b.lo * x)) (min (b.hi * x) (b.hi * x)) := by
    simp only [min_self, mul_comm]
  have e2 : max (max (x * b.lo) (x * b.hi)) (max (x * b.lo) (x * b.hi)) =
      max (max (b.lo * x) (b.lo * x)) (max (b.hi * x) (b.hi * x)) := by
    simp only [max_self, mul_comm]
  rw [e1, e2]

/-- a narrow interval of moderate magnitude scaled by `|x| ≤ 10^59` satisfies the range conditions of `expI` -/
theorem scale_small (b : I) (x : ℚ) (hb : b.lo ≤ b.hi) (hb1 : |b.lo| ≤ 3) (hb2 : |b.hi| ≤ 3)
    (hbw : b.hi - b.lo ≤ 1 / 10 ^ 75) (hx : |x| ≤ 10 ^ 59) :
    (b.scale x).hi - (b.scale x).lo ≤ 4 ∧ |(b.scale x).lo| ≤ 10 ^ 60 ∧ |(b.scale x).hi| ≤ 10 ^ 60 := by
  obtain ⟨s1, s2, s3, s4⟩ := scale_bounds b b.lo x (le_refl _) hb
  have hW : (b.hi - b.lo + (|b.lo| + |b.hi|) * eps) * |x| ≤ 1 := by
    have : b.hi - b.lo + (|b.lo| + |b.hi|) * eps ≤ 1 / 10 ^ 74 := by
      unfold eps
      have : (|b.lo| + |b.hi|) * (1 / 10 ^ 79) ≤ 6 * (1 / 10 ^ 79) :=
        mul_le_mul_of_nonneg_right (by linarith) (by positivity)
      have e : (6 : ℚ) * (1 / 10 ^ 79) + 1 / 10 ^ 75 ≤ 1 / 10 ^ 74 := by norm_num
      linarith
    calc (b.hi - b.lo + (|b.lo| + |b.hi|) * eps) * |x| ≤ (1 / 10 ^ 74) * 10 ^ 59 :=
          mul_le_mul this hx (abs_nonneg _) (by positivity)
      _ ≤ 1 := by norm_num
  have hcx : |b.lo * x| ≤ 3 * 10 ^ 59 := by
    rw [abs_mul]; exact mul_le_mul hb1 hx (abs_nonneg _) (by norm_num)
  have := abs_le.1 hcx
  refine ⟨by linarith, ?_, ?_⟩
  · rw [abs_le]; constructor <;> linarith
  · rw [abs_le]; constructor <;> linarith

theorem ln2_lo_ge : (69 / 100 : ℚ) ≤ ln2.lo := by decide +kernel
theorem ln2_hi_le : ln2.hi ≤ (7 / 10 : ℚ) := by decide +kernel
theorem ln2_width : ln2.hi - ln2.lo ≤ (1 / 10 ^ 75 : ℚ) := by decide +kernel

theorem exp_neg_100_le : Real.exp (-100) ≤ 1 / 10 ^ 40 := by
  have h1 : (27 / 10 : ℝ) < Real.exp 1 := lt_trans (by norm_num) Real.exp_one_gt_d9
  have h2 : Real.exp 100 = Real.exp 1 ^ 100 := by
    rw [← Real.exp_nat_mul]; norm_num
  have h3 : (10 : ℝ) ^ 40 ≤ Real.exp 100 := by
    rw [h2]
    calc (10 : ℝ) ^ 40 ≤ (27 / 10) ^ 100 := by norm_num
      _ ≤ Real.exp 1 ^ 100 := pow_le_pow_left₀ (by norm_num) h1.le 100
  rw [Real.exp_neg, one_div]
  exact inv_anti₀ (by positivity) h3

/-! ## 1. the exponential family -/

theorem trueValue_exp_eq (n : Bool) (c : Nat) (e : Int) :
    trueValue .exp n c e =
      if e + (ndigits c : Int) > 7 then none
      else if e + (ndigits c : Int) < -40 then some (false, ⟨⟨1 - pow10 (-39), 1 + pow10 (-39)⟩, 0⟩)
      else (Encl.exp (if e < -200 || e > 200 then 0 else (if n then -(mag c e) else mag c e))).map (fun t => (false, t)) := rfl

theorem trueValue_exp2_eq (n : Bool) (c : Nat) (e : Int) :
    trueValue .exp2 n c e =
      if e + (ndigits c : Int) > 7 then none
      else if e + (ndigits c : Int) < -40 then some (false, ⟨⟨1 - pow10 (-39), 1 + pow10 (-39)⟩, 0⟩)
      else (expI ((I.pt (if e < -200 || e > 200 then 0 else (if n then -(mag c e) else mag c e))).mul ln2)).map (fun t => (false, t)) := rfl

theorem trueValue_exp10_eq (n : Bool) (c : Nat) (e : Int) :
    trueValue .exp10 n c e =
      if e + (ndigits c : Int) > 7 then none
      else if e + (ndigits c : Int) < -40 then some (false, ⟨⟨1 - pow10 (-39), 1 + pow10 (-39)⟩, 0⟩)
      else (expI ((I.pt (if e < -200 || e > 200 then 0 else (if n then -(mag c e) else mag c e))).mul ln10)).map (fun t => (false, t)) := rfl

/-- for |y| ≤ 10^-39/2 (in particular |y| < 3·10^-40) the value exp y is in the `nearOne` enclosure -/
theorem nearOne_sound {y : ℝ} (hy : |y| ≤ 1 / 2 * (10 : ℝ) ^ (-39 : Int)) :
    Real.exp y ∈ₛ (⟨⟨1 - pow10 (-39), 1 + pow10 (-39)⟩, 0⟩ : Sci) := by
  rw [sciMem_mk]
  refine ⟨Real.exp y, ?_, by simp⟩
  have h10 : (10 : ℝ) ^ (-39 : Int) ≤ 1 := zpow_le_one_of_nonpos₀ (by norm_num) (by norm_num)
  have hp : (0 : ℝ) < (10 : ℝ) ^ (-39 : Int) := zpow_pos (by norm_num) _
  rw [mem_mk, Rat.cast_sub, Rat.cast_add, pow10_cast]
  generalize (10 : ℝ) ^ (-39 : Int) = u at *
  have h := Real.abs_exp_sub_one_le (x := y) (by linarith)
  have h' := abs_le.1 (le_trans h (by linarith : 2 * |y| ≤ u))
  constructor <;> push_cast <;> linarith [h'.1, h'.2]

theorem abs_toRat_le_of (n : Bool) {c : Nat} (hc0 : c ≠ 0) (e : Int) (m : Nat)
    (h : e + (ndigits c : Int) ≤ (m : Int)) : |(Val.fin n c e).toRat| ≤ 10 ^ m := by
  have h1 := abs_toRat_lt n hc0 e
  have h2 : (10 : ℚ) ^ (e + (ndigits c : Int)) ≤ (10 : ℚ) ^ (m : Int) :=
    zpow_le_zpow_right₀ (by norm_num) h
  rw [zpow_natCast] at h2
  linarith

theorem trueValue_exp_sound (n : Bool) (c : Nat) (e : Int) (tn : Bool) (t : Sci)
    (hc0 : c ≠ 0) (hc : c < 10 ^ 35) (h : trueValue .exp n c e = some (tn, t)) :
    tn = false ∧ Real.exp (X n c e) ∈ₛ t := by
  rw [trueValue_exp_eq] at h
  have hnd := ndigits_le_35 hc0 hc
  have hnd1 := ndigits_pos c
  split at h
  · exact absurd h (by simp)
  · rename_i h7
    split at h
    · rename_i h40
      simp only [Option.some.injEq, Prod.mk.injEq] at h
      obtain ⟨rfl, rfl⟩ := h
      refine ⟨rfl, nearOne_sound ?_⟩
      have h1 := abs_X_lt n hc0 e
      have h2 : (10 : ℝ) ^ (e + (ndigits c : Int)) ≤ (10 : ℝ) ^ (-41 : Int) :=
        zpow_le_zpow_right₀ (by norm_num) (by omega)
      have h3 : (10 : ℝ) ^ (-41 : Int) ≤ 1 / 2 * (10 : ℝ) ^ (-39 : Int) := by norm_num
      exact le_trans (le_trans h1.le h2) h3
    · rename_i h40
      rw [xguard n c e (by omega) (by omega)] at h
      obtain ⟨s, hs, hst⟩ := Option.map_eq_some_iff.1 h
      simp only [Prod.mk.injEq] at hst
      obtain ⟨rfl, rfl⟩ := hst
      exact ⟨rfl, exp_sound hs⟩

/-- exponential of a rational multiple of an enclosed constant (`ln2`, `ln10`) -/
theorem expI_scaled_sound {b : I} {β : ℝ} (hβ : β ∈ᵢ b) {x : ℚ} {s : Sci}
    (h : expI ((I.pt x).mul b) = some s) : Real.exp ((x : ℝ) * β) ∈ₛ s :=
  expI_sound h (mem_mul (mem_pt x) hβ)

/-- and `expI` does answer for such arguments -/
theorem expI_scaled_isSome (b : I) (hb : b.lo ≤ b.hi) (hb1 : |b.lo| ≤ 3) (hb2 : |b.hi| ≤ 3)
    (hbw : b.hi - b.lo ≤ 1 / 10 ^ 75) (x : ℚ) (hx : |x| ≤ 10 ^ 59) :
    ∃ s, expI ((I.pt x).mul b) = some s := by
  rw [mul_pt_eq_scale]
  obtain ⟨w, l1, l2⟩ := scale_small b x hb hb1 hb2 hbw hx
  obtain ⟨s1, s2, -, -⟩ := scale_bounds b b.lo x (le_refl _) hb
  exact expI_isSome _ (le_trans s1 s2) w l1 l2

theorem trueValue_exp2_sound (n : Bool) (c : Nat) (e : Int) (tn : Bool) (t : Sci)
    (hc0 : c ≠ 0) (hc : c < 10 ^ 35) (h : trueValue .exp2 n c e = some (tn, t)) :
    tn = false ∧ (2 : ℝ) ^ (X n c e) ∈ₛ t := by
  rw [trueValue_exp2_eq] at h
  have hnd := ndigits_le_35 hc0 hc
  have hnd1 := ndigits_pos c
  have hrw : (2 : ℝ) ^ (X n c e) = Real.exp (X n c e * Real.log 2) := by
    rw [Real.rpow_def_of_pos (by norm_num), mul_comm]
  have hlog2 : |Real.log 2| ≤ 1 := by
    have h1 := ln2_sound.1; have h2 := ln2_sound.2
    have a1 : ((ln2.hi : ℚ) : ℝ) ≤ ((7 / 10 : ℚ) : ℝ) := by exact_mod_cast ln2_hi_le
    have a2 : (((69 / 100 : ℚ)) : ℝ) ≤ ((ln2.lo : ℚ) : ℝ) := by exact_mod_cast ln2_lo_ge
    push_cast at a1 a2
    rw [abs_le]; constructor <;> linarith
  split at h
  · exact absurd h (by simp)
  · rename_i h7
    split at h
    · rename_i h40
      simp only [Option.some.injEq, Prod.mk.injEq] at h
      obtain ⟨rfl, rfl⟩ := h
      refine ⟨rfl, ?_⟩
      rw [hrw]
      apply nearOne_sound
      have h1 := abs_X_lt n hc0 e
      have h2 : (10 : ℝ) ^ (e + (ndigits c : Int)) ≤ (10 : ℝ) ^ (-41 : Int) :=
        zpow_le_zpow_right₀ (by norm_num) (by omega)
      have h3 : (10 : ℝ) ^ (-41 : Int) ≤ 1 / 2 * (10 : ℝ) ^ (-39 : Int) := by norm_num
      rw [abs_mul]
      have : |X n c e| * |Real.log 2| ≤ |X n c e| * 1 :=
        mul_le_mul_of_nonneg_left hlog2 (abs_nonneg _)
      rw [mul_one] at this
      exact le_trans this (le_trans (le_trans h1.le h2) h3)
    · rename_i h40
      rw [xguard n c e (by omega) (by omega)] at h
      obtain ⟨s, hs, hst⟩ := Option.map_eq_some_iff.1 h
      simp only [Prod.mk.injEq] at hst
      obtain ⟨rfl, rfl⟩ := hst
      refine ⟨rfl, ?_⟩
      rw [hrw]
      exact expI_scaled_sound ln2_sound hs

theorem trueValue_exp10_sound (n : Bool) (c : Nat) (e : Int) (tn : Bool) (t : Sci)
    (hc0 : c ≠ 0) (hc : c < 10 ^ 35) (h : trueValue .exp10 n c e = some (tn, t)) :
    tn = false ∧ (10 : ℝ) ^ (X n c e) ∈ₛ t := by
  rw [trueValue_exp10_eq] at h
  have hnd := ndigits_le_35 hc0 hc
  have hnd1 := ndigits_pos c
  have hrw : (10 : ℝ) ^ (X n c e) = Real.exp (X n c e * Real.log 10) := by
    rw [Real.rpow_def_of_pos (by norm_num), mul_comm]
  have hlog10 : |Real.log 10| ≤ 3 := by
    have h1 := ln10_sound.1; have h2 := ln10_sound.2
    have a1 : ((ln10.hi : ℚ) : ℝ) ≤ ((231 / 100 : ℚ) : ℝ) := by exact_mod_cast ln10_hi_le
    have a2 : (((23 / 10 : ℚ)) : ℝ) ≤ ((ln10.lo : ℚ) : ℝ) := by exact_mod_cast ln10_lo_ge
    push_cast at a1 a2
    rw [abs_le]; constructor <;> linarith
  split at h
  · exact absurd h (by simp)
  · rename_i h7
    split at h
    · rename_i h40
      simp only [Option.some.injEq, Prod.mk.injEq] at h
      obtain ⟨rfl, rfl⟩ := h
      refine ⟨rfl, ?_⟩
      rw [hrw]
      apply nearOne_sound
      have h1 := abs_X_lt n hc0 e
      have h2 : (10 : ℝ) ^ (e + (ndigits c : Int)) ≤ (10 : ℝ) ^ (-41 : Int) :=
        zpow_le_zpow_right₀ (by norm_num) (by omega)
      have h3 : (10 : ℝ) ^ (-41 : Int) * 3 ≤ 1 / 2 * (10 : ℝ) ^ (-39 : Int) := by norm_num
      rw [abs_mul]
      have : |X n c e| * |Real.log 10| ≤ |X n c e| * 3 :=
        mul_le_mul_of_nonneg_left hlog10 (abs_nonneg _)
      exact le_trans this (le_trans (mul_le_mul_of_nonneg_right (le_trans h1.le h2) (by norm_num)) h3)
    · rename_i h40
      rw [xguard n c e (by omega) (by omega)] at h
      obtain ⟨s, hs, hst⟩ := Option.map_eq_some_iff.1 h
      simp only [Prod.mk.injEq] at hst
      obtain ⟨rfl, rfl⟩ := hst
      refine ⟨rfl, ?_⟩
      rw [hrw]
      exact expI_scaled_sound ln10_sound hs

/-! ### the oracle does answer: totality of `trueValue` on the exponential family -/

theorem trueValue_exp_isSome (n : Bool) (c : Nat) (e : Int) (hc0 : c ≠ 0) (hc : c < 10 ^ 35)
    (h7 : e + (ndigits c : Int) ≤ 7) : ∃ t, trueValue .exp n c e = some (false, t) := by
  have hnd := ndigits_le_35 hc0 hc
  have hnd1 := ndigits_pos c
  rw [trueValue_exp_eq, if_neg (by omega)]
  split
  · exact ⟨_, rfl⟩
  · rw [xguard n c e (by omega) (by omega)]
    obtain ⟨s, hs⟩ := exp_isSome (Val.fin n c e).toRat
      (le_trans (abs_toRat_le_of n hc0 e 7 (by omega)) (by norm_num))
    exact ⟨s, by rw [hs]; rfl⟩

theorem trueValue_exp2_isSome (n : Bool) (c : Nat) (e : Int) (hc0 : c ≠ 0) (hc : c < 10 ^ 35)
    (h7 : e + (ndigits c : Int) ≤ 7) : ∃ t, trueValue .exp2 n c e = some (false, t) := by
  have hnd := ndigits_le_35 hc0 hc
  have hnd1 := ndigits_pos c
  rw [trueValue_exp2_eq, if_neg (by omega)]
  split
  · exact ⟨_, rfl⟩
  · rw [xguard n c e (by omega) (by omega)]
    have l1 := ln2_lo_ge; have l2 := ln2_hi_le; have l3 := lo_le_hi_of_mem ln2_sound
    obtain ⟨s, hs⟩ := expI_scaled_isSome ln2 l3
      (by rw [abs_le]; constructor <;> linarith) (by rw [abs_le]; constructor <;> linarith) ln2_width
      (Val.fin n c e).toRat (le_trans (abs_toRat_le_of n hc0 e 7 (by omega)) (by norm_num))
    exact ⟨s, by rw [hs]; rfl⟩

theorem trueValue_exp10_isSome (n : Bool) (c : Nat) (e : Int) (hc0 : c ≠ 0) (hc : c < 10 ^ 35)
    (h7 : e + (ndigits c : Int) ≤ 7) : ∃ t, trueValue .exp10 n c e = some (false, t) := by
  have hnd := ndigits_le_35 hc0 hc
  have hnd1 := ndigits_pos c
  rw [trueValue_exp10_eq, if_neg (by omega)]
  split
  · exact ⟨_, rfl⟩
  · rw [xguard n c e (by omega) (by omega)]
    have l1 := ln10_lo_ge; have l2 := ln10_hi_le; have l3 := ln10_lo_le_hi
    obtain ⟨s, hs⟩ := expI_scaled_isSome ln10 l3
      (by rw [abs_le]; constructor <;> linarith) (by rw [abs_le]; constructor <;> linarith) ln10_width
      (Val.fin n c e).toRat (le_trans (abs_toRat_le_of n hc0 e 7 (by omega)) (by norm_num))
    exact ⟨s, by rw [hs]; rfl⟩

example : ∃ t, trueValue .exp true 12345 (-2) = some (false, t) ∧ Real.exp (X true 12345 (-2)) ∈ₛ t := by
  obtain ⟨s, hs⟩ := exp_isSome (-(2469 / 20)) (by rw [abs_le]; constructor <;> norm_num)
  have h : trueValue .exp true 12345 (-2) = some (false, s) := by
    rw [trueValue_exp_eq]
    have : ndigits 12345 = 5 := ndigits_eq_of (by norm_num) (by norm_num) (by norm_num)
    rw [this]
    norm_num [mag, pow10_eq_zpow]
    exact hs
  exact ⟨s, h, (trueValue_exp_sound true 12345 (-2) false _ (by norm_num) (by norm_num) h).2⟩

end EnclPf
