/-
  6. The scale parameter of the `…S` functions is only an optimisation (q ≥ 0 resp. q > 0):
     `splitAt_scale`, `roundAt_scale`, `ilog10_scale : ilog10 (q * 10^k) = ilog10 q + k`,
     `roundToS_scale : roundToS m neg q k = roundToS m neg (q * 10^k) 0`,
     `roundToS_eq_roundTo : roundToS m neg q k = roundTo m neg (q * 10^k)`,
     `flushOrRoundS_scale`, `exactOrInfS_scale`, `isMemberS_scale`.
-/
import D128.Proofs.SpecRoundBase

namespace SpecRound
open Spec

/-! ## 6. the scale parameter is only an optimisation -/

theorem div_zpow_sub (q : Rat) (e k : Int) :
    q / (10 : Rat) ^ (e - k) = q * (10 : Rat) ^ k / (10 : Rat) ^ e := by
  rw [zpow_sub₀ (by norm_num : (10 : Rat) ≠ 0)]
  have h1 : (10 : Rat) ^ e ≠ 0 := zpow_ne_zero _ (by norm_num)
  have h2 : (10 : Rat) ^ k ≠ 0 := zpow_ne_zero _ (by norm_num)
  field_simp

theorem splitAt_scale (q : Rat) (hq : 0 ≤ q) (k e : Int) :
    Spec.splitAt (q * (10 : Rat) ^ k) e = Spec.splitAt q (e - k) := by
  have hp : (0 : Rat) < (10 : Rat) ^ k := zpow_pos (by norm_num) _
  rw [splitAt_eq_splitOf _ (mul_nonneg hq hp.le), splitAt_eq_splitOf _ hq, div_zpow_sub]

theorem roundAt_scale (m : Mode) (neg : Bool) (q : Rat) (hq : 0 ≤ q) (k e : Int) :
    Spec.roundAt m neg (q * (10 : Rat) ^ k) e = Spec.roundAt m neg q (e - k) := by
  unfold Spec.roundAt; rw [splitAt_scale q hq]

theorem ilog10_scale (q : Rat) (hq : 0 < q) (k : Int) :
    Spec.ilog10 (q * (10 : Rat) ^ k) = Spec.ilog10 q + k := by
  obtain ⟨h1, h2⟩ := ilog10_spec q hq
  have hp : (0 : Rat) < (10 : Rat) ^ k := zpow_pos (by norm_num) _
  apply ilog10_eq_of
  · rw [zpow_add₀ (by norm_num)]; exact mul_le_mul_of_nonneg_right h1 hp.le
  · have : Spec.ilog10 q + k + 1 = Spec.ilog10 q + 1 + k := by ring
    rw [this, zpow_add₀ (by norm_num)]; exact mul_lt_mul_of_pos_right h2 hp

theorem roundToS_scale (m : Mode) (neg : Bool) (q : Rat) (hq : 0 < q) (k : Int) :
    Spec.roundToS m neg q k = Spec.roundToS m neg (q * (10 : Rat) ^ k) 0 := by
  unfold Spec.roundToS
  simp only [← spacingExpS_scale q hq k, roundAt_scale m neg q hq.le, sub_zero]

theorem roundToS_eq_roundTo (m : Mode) (neg : Bool) (q : Rat) (hq : 0 < q) (k : Int) :
    Spec.roundToS m neg q k = Spec.roundTo m neg (q * (10 : Rat) ^ k) :=
  roundToS_scale m neg q hq k

theorem mul_zpow_eq_zero_iff (q : Rat) (k : Int) : q * (10 : Rat) ^ k = 0 ↔ q = 0 := by
  have h2 : (10 : Rat) ^ k ≠ 0 := zpow_ne_zero _ (by norm_num)
  simp [h2]

theorem flushOrRoundS_scale (m : Mode) (neg : Bool) (q : Rat) (hq : 0 ≤ q) (k : Int) :
    Spec.flushOrRoundS m neg q k = Spec.flushOrRoundS m neg (q * (10 : Rat) ^ k) 0 := by
  unfold Spec.flushOrRoundS
  rcases eq_or_lt_of_le hq with h | h
  · subst h; simp
  · have h0 : ¬ q = 0 := h.ne'
    have h0' : ¬ q * (10 : Rat) ^ k = 0 := by rw [mul_zpow_eq_zero_iff]; exact h0
    simp only [beq_iff_eq, h0, h0', ↓reduceIte, ilog10_scale q h k, add_zero,
      ← roundToS_scale m neg q h k]

theorem exactOrInfS_scale (neg : Bool) (q : Rat) (hq : 0 ≤ q) (k : Int) :
    Spec.exactOrInfS neg q k = Spec.exactOrInfS neg (q * (10 : Rat) ^ k) 0 := by
  unfold Spec.exactOrInfS
  rcases eq_or_lt_of_le hq with h | h
  · subst h; simp
  · have h0 : ¬ q = 0 := h.ne'
    have h0' : ¬ q * (10 : Rat) ^ k = 0 := by rw [mul_zpow_eq_zero_iff]; exact h0
    simp only [beq_iff_eq, h0, h0', ↓reduceIte, ← spacingExpS_scale q h k, sub_zero,
      splitAt_scale q h.le]

theorem isMemberS_scale (q : Rat) (hq : 0 ≤ q) (k : Int) :
    Spec.isMemberS q k = Spec.isMemberS (q * (10 : Rat) ^ k) 0 := by
  unfold Spec.isMemberS
  rw [← exactOrInfS_scale false q hq k]
  congr 1
  simp only [beq_eq_decide, mul_zpow_eq_zero_iff]

end SpecRound
