/-
  D128/Proofs/FloatFromSmallLoop.lean — the outer loop of the branch `shift > 0` of `FromFloat64`.

  Provided (namespace `FF`):
  * `exact_div`      : while the remaining shift is at most 60 the shifted-out bits are zero
  * `SmallInv`, `SmallPost`, `smallBody_step`, `smallLoop_spec` : the loop terminates without panic with
      `sig ≤ V·10^K ≤ sig·(1 + n·2^-247)`, sticky flag set exactly when `sig < V·10^K`, and never set
      when the total shift is at most 60 bits
-/
import D128.Proofs.FloatFromSmall

set_option autoImplicit false
set_option maxRecDepth 8192
set_option exponentiation.threshold 2000

namespace FF
open Gen

/-- exact register, at most 60 bits to shift in total: the low `mx` bits are zero -/
theorem exact_div (T S0 sh K mx sig : Nat) (hT : T < 2 ^ 53) (hS0 : S0 ≤ 60) (hsh : sh ≤ S0)
    (hmx : mx ≤ sh) (hbig : 2 ^ 252 ≤ sig)
    (hX : (sig : ℚ) = (T : ℚ) / 2 ^ S0 * 2 ^ sh * 10 ^ K) : sig % 2 ^ mx = 0 := by
  have hnat : sig * 2 ^ S0 = T * 2 ^ sh * 10 ^ K := by
    have h2 : (2 : ℚ) ^ S0 ≠ 0 := by positivity
    have : (sig : ℚ) * 2 ^ S0 = (T : ℚ) * 2 ^ sh * 10 ^ K := by rw [hX]; field_simp
    exact_mod_cast this
  have hK : 60 ≤ K := by
    by_contra hc
    have h1 : 10 ^ K ≤ 10 ^ 59 := Nat.pow_le_pow_right (by norm_num) (by omega)
    have h2 : 2 ^ 252 * 2 ^ sh ≤ sig * 2 ^ S0 :=
      Nat.mul_le_mul hbig (Nat.pow_le_pow_right (by norm_num) hsh)
    have h3 : T * 2 ^ sh * 10 ^ K ≤ 2 ^ 53 * 2 ^ sh * 10 ^ 59 :=
      Nat.mul_le_mul (Nat.mul_le_mul_right _ hT.le) h1
    have h4 : 2 ^ 53 * 2 ^ sh * 10 ^ 59 < 2 ^ 252 * 2 ^ sh := by
      have : (2 : Nat) ^ 53 * 10 ^ 59 < 2 ^ 252 := by norm_num
      calc 2 ^ 53 * 2 ^ sh * 10 ^ 59 = (2 ^ 53 * 10 ^ 59) * 2 ^ sh := by ring
        _ < 2 ^ 252 * 2 ^ sh := Nat.mul_lt_mul_of_pos_right this (by positivity)
    omega
  have e10 : 10 ^ K = 2 ^ K * 5 ^ K := by rw [← Nat.mul_pow]
  have eK : 2 ^ K = 2 ^ (K - S0) * 2 ^ S0 := by rw [← Nat.pow_add]; congr 1; omega
  have esh : 2 ^ sh = 2 ^ (sh - mx) * 2 ^ mx := by rw [← Nat.pow_add]; congr 1; omega
  have : sig * 2 ^ S0 = (T * 5 ^ K * 2 ^ (sh - mx) * 2 ^ (K - S0) * 2 ^ mx) * 2 ^ S0 := by
    rw [hnat, e10, eK, esh]; ring
  have hsig := Nat.eq_of_mul_eq_mul_right (by positivity) this
  rw [hsig, Nat.mul_mod_left]

/-- invariant of the outer loop: `K` multiplications by ten, `n` right shifts, `sh` bits to go;
    `V = T / 2^S0` -/
def SmallInv (T S0 : Nat) (s : St) : Prop :=
  ∃ K sh n : Nat, s.1.toInt = 6176 - K ∧ s.2.1.toInt = sh ∧ n + sh ≤ S0 ∧ 1 ≤ s.2.2.1.toNat ∧
    ApproxS ((T : ℚ) / 2 ^ S0 * 2 ^ sh * 10 ^ K) s.2.2.1.toNat n s.2.2.2.1.toInt ∧
    (S0 ≤ 60 → s.2.2.2.1.toInt = 0) ∧ (s.2.2.2.1.toInt = 1 → 2 ^ 248 ≤ s.2.2.1.toNat)

def SmallPost (T S0 : Nat) (s : St) : Prop :=
  ∃ K n : Nat, s.1.toInt = 6176 - K ∧ K ≤ 500 ∧ n ≤ S0 ∧ 1 ≤ s.2.2.1.toNat ∧
    ApproxS ((T : ℚ) / 2 ^ S0 * 10 ^ K) s.2.2.1.toNat n s.2.2.2.1.toInt ∧
    (S0 ≤ 60 → s.2.2.2.1.toInt = 0) ∧ (s.2.2.2.1.toInt = 1 → 2 ^ 248 ≤ s.2.2.1.toNat)

theorem V_ge (T S0 : Nat) (hT : 1 ≤ T) (hS0 : S0 ≤ 1100) : 1 ≤ (T : ℚ) / 2 ^ S0 * 2 ^ 1100 := by
  have e : (2 : ℚ) ^ 1100 = 2 ^ S0 * 2 ^ (1100 - S0) := by rw [← pow_add]; congr 1; omega
  have hT' : (1 : ℚ) ≤ T := by exact_mod_cast hT
  have h2 : (1 : ℚ) ≤ 2 ^ (1100 - S0) := one_le_pow₀ (by norm_num)
  rw [e]
  have : (T : ℚ) / 2 ^ S0 * (2 ^ S0 * 2 ^ (1100 - S0)) = T * 2 ^ (1100 - S0) := by field_simp
  rw [this]
  nlinarith

/-- the right shift at the end of a pass, `mx = min sh (4 - z1)` -/
theorem smallShift_spec (T S0 : Nat) (hT : T < 2 ^ 53) (hS0 : S0 ≤ 1100) (s : St)
    (s1 : Int16 × U256 × Int64) (maxI : Int64) (K sh n mx : Nat)
    (he : s1.1.toInt = 6176 - K) (hsh : s.2.1.toInt = sh) (hn : n + sh ≤ S0)
    (hmax : maxI.toInt = mx) (hmx1 : 1 ≤ mx) (hmx4 : mx ≤ 4) (hmxsh : mx ≤ sh)
    (hbig : 2 ^ 252 ≤ s1.2.1.toNat)
    (happ : ApproxS ((T : ℚ) / 2 ^ S0 * 2 ^ sh * 10 ^ K) s1.2.1.toNat n s.2.2.2.1.toInt)
    (hex : S0 ≤ 60 → s.2.2.2.1.toInt = 0) :
    ∃ b', smallShift s s1 maxI = .ok (.yield b') ∧ SmallInv T S0 b' ∧
      b'.2.1.toInt.toNat < s.2.1.toInt.toNat := by
  obtain ⟨tzv, htz, _, _, _, htzk⟩ := tz_spec s1.2.1.w0
  have hmod := U256.w0_mod s1.2.1 mx (by omega)
  have hiff := htzk mx (by omega)
  rw [hmod] at hiff
  have hsub : (s.2.1 - maxI).toInt = ((sh - mx : Nat) : Int) := by
    rw [i64_sub] <;> rw [hsh, hmax] <;> omega
  have hconv : (Go.conv maxI : UInt64).toNat = mx := by
    rw [i64_conv_u64 _ (by rw [hmax]; omega), hmax]; simp
  have hrsh : (U256.rsh s1.2.1 (Go.conv maxI)).toNat = s1.2.1.toNat / 2 ^ mx := by
    rw [D128.Proofs.WordsWide.U256_rsh_toNat, hconv]
  have hdm := Nat.div_add_mod s1.2.1.toNat (2 ^ mx)
  have hml := Nat.mod_lt s1.2.1.toNat (show 0 < 2 ^ mx by positivity)
  have hp16 : 2 ^ mx ≤ 2 ^ 4 := Nat.pow_le_pow_right (by norm_num) hmx4
  have hX : (T : ℚ) / 2 ^ S0 * 2 ^ (sh - mx) * 10 ^ K
      = (T : ℚ) / 2 ^ S0 * 2 ^ sh * 10 ^ K / 2 ^ mx := by
    have : (2 : ℚ) ^ sh = 2 ^ (sh - mx) * 2 ^ mx := by rw [← pow_add]; congr 1; omega
    rw [this]; field_simp
  have happ' := approxS_shr _ (s1.2.1.toNat / 2 ^ mx) (s1.2.1.toNat % 2 ^ mx) n mx s.2.2.2.1.toInt
    hmx4 hml (by rw [hdm]; exact hbig) (by omega) (by rw [hdm]; exact happ)
  rw [← hX] at happ'
  have hq248 : 2 ^ 248 ≤ s1.2.1.toNat / 2 ^ mx := by
    rw [Nat.le_div_iff_mul_le (by positivity)]
    calc 2 ^ 248 * 2 ^ mx ≤ 2 ^ 248 * 2 ^ 4 := Nat.mul_le_mul_left _ hp16
      _ ≤ s1.2.1.toNat := by omega
  -- exactness below 61 bits
  have hexact : S0 ≤ 60 → s1.2.1.toNat % 2 ^ mx = 0 := by
    intro h60
    have ht0 := hex h60
    rcases happ.2.2 with ⟨_, hXe⟩ | ⟨ht1, _⟩
    · exact exact_div T S0 sh K mx _ hT h60 (by omega) hmxsh hbig hXe.symm
    · omega
  by_cases hc : tzv < mx
  · have hr : s1.2.1.toNat % 2 ^ mx ≠ 0 := hiff.1 hc
    refine ⟨(s1.1, s.2.1 - maxI, U256.rsh s1.2.1 (Go.conv maxI), 1,
      Go.bits.TrailingZeros64 s1.2.1.w0), ?_, ⟨K, sh - mx, n + 1, he, hsub, by omega, ?_, ?_, ?_, ?_⟩, ?_⟩
    · unfold smallShift
      rw [if_pos (by rw [i64_lt, htz, hmax]; simpa using hc)]
      rfl
    · show 1 ≤ (U256.rsh s1.2.1 (Go.conv maxI)).toNat
      rw [hrsh]; omega
    · show ApproxS _ (U256.rsh s1.2.1 (Go.conv maxI)).toNat (n + 1) (1 : Int8).toInt
      rw [hrsh]
      simpa [hr] using happ'
    · intro h60; exact absurd (hexact h60) hr
    · intro _
      show 2 ^ 248 ≤ (U256.rsh s1.2.1 (Go.conv maxI)).toNat
      rw [hrsh]; exact hq248
    · show (s.2.1 - maxI).toInt.toNat < s.2.1.toInt.toNat
      rw [hsub, hsh]; omega
  · have hr : s1.2.1.toNat % 2 ^ mx = 0 := by
      by_contra h; exact hc (hiff.2 h)
    refine ⟨(s1.1, s.2.1 - maxI, U256.rsh s1.2.1 (Go.conv maxI), s.2.2.2.1,
      Go.bits.TrailingZeros64 s1.2.1.w0), ?_, ⟨K, sh - mx, n + 1, he, hsub, by omega, ?_, ?_, hex, ?_⟩, ?_⟩
    · unfold smallShift
      rw [if_neg (by rw [i64_lt, htz, hmax]; simpa using hc)]
      rfl
    · show 1 ≤ (U256.rsh s1.2.1 (Go.conv maxI)).toNat
      rw [hrsh]; omega
    · show ApproxS _ (U256.rsh s1.2.1 (Go.conv maxI)).toNat (n + 1) s.2.2.2.1.toInt
      rw [hrsh]
      simpa [hr] using happ'
    · intro _
      show 2 ^ 248 ≤ (U256.rsh s1.2.1 (Go.conv maxI)).toNat
      rw [hrsh]; exact hq248
    · show (s.2.1 - maxI).toInt.toNat < s.2.1.toInt.toNat
      rw [hsub, hsh]; omega

theorem smallBody_step (T S0 : Nat) (hT1 : 1 ≤ T) (hT : T < 2 ^ 53) (hS0 : S0 ≤ 1100) (b : St)
    (hb : SmallInv T S0 b) :
    (∃ b', smallBody () b = .ok (.yield b') ∧ SmallInv T S0 b' ∧
        b'.2.1.toInt.toNat < b.2.1.toInt.toNat) ∨
    (∃ b', smallBody () b = .ok (.done b') ∧ SmallPost T S0 b') := by
  obtain ⟨K, sh, n, he, hsh, hn, hpos, happ, hex, h248⟩ := hb
  have h256 := D128.Proofs.WordsWide.U256.toNat_lt b.2.2.1
  have hV := V_ge T S0 hT1 hS0
  by_cases h0 : sh = 0
  · right
    subst h0
    have hK : K ≤ 500 := K_bound _ _ 0 K hV rfl (approxS_lt _ _ _ _ happ (by omega) h256)
    refine ⟨(b.1, b.2.1, b.2.2.1, b.2.2.2.1, b.2.2.2.2), ?_, K, n, he, hK, by omega, hpos, ?_, hex, h248⟩
    · have : (b.2.1 != 0) = false := by rw [i64_ne_zero, hsh]; simp
      simp only [smallBody, this]; rfl
    · simpa using happ
  · left
    have hc0 : (b.2.1 != 0) = true := by rw [i64_ne_zero, hsh]; simp; omega
    obtain ⟨s1, hs1, ⟨K1, he1, hz1eq, hpos1, happ1⟩, hbig1⟩ :=
      smallInner_spec _ sh n b.2.2.2.1.toInt hV (by omega)
        (b.1, b.2.2.1, Go.bits.LeadingZeros64 b.2.2.1.w3) ⟨K, he, rfl, hpos, happ⟩
    obtain ⟨z1, hz1, _, hz1lt, _, _⟩ := lz_w3 s1.2.1
    have hz13 : z1 ≤ 3 := by
      by_contra hc
      have : s1.2.1.toNat * 2 ^ 4 ≤ s1.2.1.toNat * 2 ^ z1 :=
        Nat.mul_le_mul_left _ (Nat.pow_le_pow_right (by norm_num) (by omega))
      omega
    have h4 : (4 : Int64).toInt = 4 := by decide
    have h4z : ((4 : Int64) - s1.2.2).toInt = ((4 - z1 : Nat) : Int) := by
      rw [i64_sub] <;> rw [h4, hz1eq, hz1] <;> omega
    simp only [smallBody, hc0, if_true, hs1, D128.Proofs.WordsWide.ok_bind]
    by_cases hlt : sh < 4 - z1
    · rw [if_pos (by rw [i64_lt, hsh, h4z]; simpa using hlt)]
      exact smallShift_spec T S0 hT hS0 b s1 b.2.1 K1 sh n sh he1 hsh hn hsh (by omega) (by omega)
        (le_refl _) hbig1 happ1 hex
    · rw [if_neg (by rw [i64_lt, hsh, h4z]; simpa using hlt)]
      exact smallShift_spec T S0 hT hS0 b s1 _ K1 sh n (4 - z1) he1 hsh hn h4z (by omega) (by omega)
        (by omega) hbig1 happ1 hex

/-- the outer loop terminates without panic -/
theorem smallLoop_spec (T S0 : Nat) (hT1 : 1 ≤ T) (hT : T < 2 ^ 53) (hS0 : S0 ≤ 1100) (st : St)
    (hst : SmallInv T S0 st) :
    ∃ st', forIn (m := Go.GoM) Lean.Loop.mk st smallBody = .ok st' ∧ SmallPost T S0 st' :=
  RK.loop_inv smallBody (SmallInv T S0) (SmallPost T S0) (fun s => s.2.1.toInt.toNat)
    (fun b hb => smallBody_step T S0 hT1 hT hS0 b hb) st hst

end FF
