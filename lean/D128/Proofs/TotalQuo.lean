/-
  D128.Proofs.TotalQuo — totality (termination, no panic) of `Decimal.QuoWithMode` for every pair of
  bit patterns and EVERY mode byte, including invalid ones (C20).  The correctness theorem
  `Props.C02.quo_correct` covers the six valid modes only.

  Uses the stage decomposition `MQ.QuoWithMode_eq` of `D128/Proofs/MulQuoQuoCode.lean` for finite
  non-zero operands and `Props.C15.quo_prologue` (mode-independent) for specials and zeros.

  * `quoRound_triple`, `quoTail_triple`, `quoWide_triple`, `quoGen_triple`, `quoFast_triple`,
    `quoFinite_triple`
  * `QuoWithMode_total_all : ∃ r, Gen.Decimal.QuoWithMode d o rm = .ok r`
  Termination of the digit-accumulation loops: the quotient significand strictly increases in every
  pass, because after the two scaling loops either it or the remainder is normalised, and a
  normalised remainder exceeds the divisor (coefficients are below `2^114`), so the next quotient
  block is ≥ 1.  (For a divisor above `~2^124.6` the Go loop would spin; no Decimal has such a
  coefficient.)  The `bits.Div64` calls have `hi = 0 < y`; `reduce128` is entered with a sticky flag in
  `{0, 1}`.
-/
import D128.Proofs.TotalBase128
import D128.Proofs.TotalReduce192
import D128.Proofs.MulQuoQuoCode
import D128.Proofs.Specials
import D128.Props.C15
set_option autoImplicit false
set_option mvcgen.warning false
set_option exponentiation.threshold 512
set_option maxRecDepth 16384
namespace D128.Proofs.Total
open Std.Do
open D128.Proofs.WordsWide

theorem quoRound_triple (rm : UInt8) (neg : Bool) (sig : U128) (exp : Int16) (trunc : Int8) :
    ⦃⌜trunc = 0 ∨ trunc = 1⌝⦄ MQ.quoRound rm neg sig exp trunc ⦃⇓ _ => ⌜True⌝⦄ := by
  mvcgen -trivial [MQ.quoRound]
  all_goals (simp +zetaDelta at *)
  rename_i h
  rcases h with h | h <;> simp [h]

theorem quoTail_triple (rm : UInt8) (neg : Bool) (oS : U128) (exp : Int16) (sig rem : U128) :
    ⦃⌜oS.toNat ≠ 0 ∧ oS.toNat < 2^114⌝⦄ MQ.quoTail rm neg oS exp sig rem ⦃⇓ _ => ⌜True⌝⦄ := by
  have hd := div128_lin
  have hr := quoRound_triple
  mvcgen -trivial [MQ.quoTail, MQ.mainBody, MQ.ms4Body, MQ.ms1Body, MQ.dropBody192, hd, hr, -U128_div_triple]
  case inv1 => exact fun st => ⟨2^128 - st.2.1.toNat⟩
  case inv2 => exact ⇓ x => match x with
    | .inl st => ⌜st.2.2.2 = 0 ∨ st.2.2.2 = 1⌝
    | .inr st => ⌜st.2.2.2 = 0 ∨ st.2.2.2 = 1⌝
  case inv3 | inv5 => exact fun st => ⟨2^128 - st.2.2.toNat⟩
  case inv4 => exact ⇓ x => match x with
    | .inl st => ⌜st.2.2.toNat ≠ 0 ∧ (‹Int16 × U128 × U128 × Int8›).2.1.toNat ≤ st.2.1.toNat⌝
    | .inr st => ⌜st.2.2.toNat ≠ 0 ∧ (‹Int16 × U128 × U128 × Int8›).2.1.toNat ≤ st.2.1.toNat⌝
  case inv6 => exact ⇓ x => match x with
    | .inl st => ⌜st.2.2.toNat ≠ 0 ∧ (‹Int16 × U128 × U128 × Int8›).2.1.toNat ≤ st.2.1.toNat⌝
    | .inr st => ⌜st.2.2.toNat ≠ 0 ∧ (‹Int16 × U128 × U128 × Int8›).2.1.toNat ≤ st.2.1.toNat ∧
        (1801439850948198400 * 2^64 ≤ st.2.2.toNat ∨ 1801439850948198400 * 2^64 ≤ st.2.1.toNat)⌝
  case inv7 => exact fun st => ⟨st.2.2.toNat⟩
  case inv8 => exact ⇓ x => match x with
    | .inl st => ⌜(st.2.1 = 0 ∨ st.2.1 = 1) ∧
        (st.2.2.toNat = (‹Int16 × U128 × U128›).2.1.toNat + (‹U128 × U128›).1.toNat ∨ (2^128 ≤ (‹Int16 × U128 × U128›).2.1.toNat + (‹U128 × U128›).1.toNat ∧ st.2.2.toNat = ((‹Int16 × U128 × U128›).2.1.toNat + (‹U128 × U128›).1.toNat) / 10))⌝
    | .inr st => ⌜(st.2.1 = 0 ∨ st.2.1 = 1) ∧ st.2.2.toNat < 2^128 ∧
        (st.2.2.toNat = (‹Int16 × U128 × U128›).2.1.toNat + (‹U128 × U128›).1.toNat ∨ (2^128 ≤ (‹Int16 × U128 × U128›).2.1.toNat + (‹U128 × U128›).1.toNat ∧ st.2.2.toNat = ((‹Int16 × U128 × U128›).2.1.toNat + (‹U128 × U128›).1.toNat) / 10))⌝
  all_goals (simp +zetaDelta at *)
  all_goals d128_prep
  all_goals d192_fin

theorem quoWide_triple (rm : UInt8) (neg : Bool) (oS dS : U128) (exp : Int16) :
    ⦃⌜oS.toNat ≠ 0 ∧ oS.toNat < 2^114 ∧ dS.toNat ≠ 0⌝⦄ MQ.quoWide rm neg oS dS exp ⦃⇓ _ => ⌜True⌝⦄ := by
  have hd := div128_lin
  have ht := quoTail_triple
  mvcgen -trivial [MQ.quoWide, MQ.dBody4, MQ.dBody1, hd, ht, -U128_div_triple]
  case inv1 | inv3 => exact fun st => ⟨2^128 - st.1.toNat⟩
  case inv2 | inv4 => exact ⇓ x => match x with
    | .inl st => ⌜st.1.toNat ≠ 0⌝
    | .inr st => ⌜st.1.toNat ≠ 0⌝
  all_goals (simp +zetaDelta at *)
  all_goals d128_prep
  all_goals d192_fin

theorem quoGen_triple (rm : UInt8) (neg : Bool) (dS oS : U128) (exp : Int16) :
    ⦃⌜oS.toNat ≠ 0 ∧ oS.toNat < 2^114 ∧ dS.toNat ≠ 0⌝⦄ MQ.quoGen rm neg dS oS exp ⦃⇓ _ => ⌜True⌝⦄ := by
  have hw := quoWide_triple
  mvcgen -trivial [MQ.quoGen, hw]
  all_goals (simp +zetaDelta at *)
  all_goals d128_prep
  all_goals d192_fin

theorem quoFast_triple (rm : UInt8) (neg : Bool) (dS oS : U128) (exp : Int16) :
    ⦃⌜oS.toNat ≠ 0 ∧ oS.toNat < 2^64 ∧ dS.toNat ≠ 0 ∧ dS.toNat < 2^64⌝⦄
    MQ.quoFast rm neg dS oS exp ⦃⇓ _ => ⌜True⌝⦄ := by
  have hd := div64_lin
  have ht := quoTail_triple
  mvcgen -trivial [MQ.quoFast, MQ.d64Body4, MQ.d64Body1, MQ.fastBody, MQ.fs4Body, MQ.fs1Body, hd, ht]
  case inv1 | inv3 => exact fun st => ⟨2^64 - st.2.toNat⟩
  case inv2 | inv4 => exact ⇓ x => match x with
    | .inl st => ⌜st.2.toNat ≠ 0⌝
    | .inr st => ⌜st.2.toNat ≠ 0⌝
  case inv5 => exact fun st => ⟨2^64 - st.2.1.toNat⟩
  case inv6 => exact ⇓ _ => ⌜True⌝
  case inv7 | inv9 => exact fun st => ⟨2^64 - st.2.2.toNat⟩
  case inv8 => exact ⇓ x => match x with
    | .inl st => ⌜st.2.2.toNat ≠ 0 ∧ (‹Int16 × UInt64 × UInt64 × UInt64›).2.1.toNat ≤ st.2.1.toNat⌝
    | .inr st => ⌜st.2.2.toNat ≠ 0 ∧ (‹Int16 × UInt64 × UInt64 × UInt64›).2.1.toNat ≤ st.2.1.toNat⌝
  case inv10 => exact ⇓ x => match x with
    | .inl st => ⌜st.2.2.toNat ≠ 0 ∧ (‹Int16 × UInt64 × UInt64 × UInt64›).2.1.toNat ≤ st.2.1.toNat⌝
    | .inr st => ⌜st.2.2.toNat ≠ 0 ∧ (‹Int16 × UInt64 × UInt64 × UInt64›).2.1.toNat ≤ st.2.1.toNat⌝
  all_goals (simp +zetaDelta at *)
  all_goals d128_prep
  all_goals d192_fin

theorem quoFinite_triple (rm : UInt8) (neg : Bool) (dS : U128) (dE : Int16) (oS : U128) (oE : Int16) :
    ⦃⌜oS.toNat ≠ 0 ∧ oS.toNat < 2^114 ∧ dS.toNat ≠ 0⌝⦄
    MQ.quoFinite rm neg dS dE oS oE ⦃⇓ _ => ⌜True⌝⦄ := by
  have h1 := quoFast_triple
  have h2 := quoGen_triple
  mvcgen -trivial [MQ.quoFinite, h1, h2]
  all_goals (simp +zetaDelta at *)
  all_goals d128_prep
  all_goals d192_fin

/-- `QuoWithMode` terminates without panic for every pair of bit patterns and EVERY mode byte -/
theorem QuoWithMode_total_all (d o : Gen.Decimal) (rm : UInt8) :
    ∃ r, Gen.Decimal.QuoWithMode d o rm = .ok r := by
  by_cases h : Gen.Decimal.isSpecial d = true ∨ Gen.Decimal.isSpecial o = true ∨
      Gen.Decimal.IsZero d = true ∨ Gen.Decimal.IsZero o = true
  · obtain ⟨r, hr, _⟩ := Props.C15.quo_prologue d o rm .nearestEven h
    exact ⟨r, hr⟩
  · simp only [not_or, Bool.not_eq_true] at h
    obtain ⟨hd, ho, zd, zo⟩ := h
    have hcd : (Gen.Decimal.decompose d).1.toNat ≠ 0 := by
      have := Sp.IsZero_eq_sig d; rw [zd] at this; simpa using this.symm
    have hco : (Gen.Decimal.decompose o).1.toNat ≠ 0 := by
      have := Sp.IsZero_eq_sig o; rw [zo] at this; simpa using this.symm
    have hzd : ((Gen.Decimal.decompose d).1.w0 ||| (Gen.Decimal.decompose d).1.w1 == 0) = false := by
      rw [Bool.eq_false_iff, ne_eq, beq_iff_eq, U128.or_zero]; exact hcd
    have hzo : ((Gen.Decimal.decompose o).1.w0 ||| (Gen.Decimal.decompose o).1.w1 == 0) = false := by
      rw [Bool.eq_false_iff, ne_eq, beq_iff_eq, U128.or_zero]; exact hco
    rw [MQ.QuoWithMode_eq d o rm hd ho hzo hzd]
    have hole := Enc.decompose_sig_le o
    have hc : Spec.Cmax < 2^114 := by decide
    obtain ⟨r, hr, _⟩ := ok_of_triple_pre (quoFinite_triple rm _ _ _ _ _) ⟨hco, by omega, hcd⟩
    exact ⟨r, hr⟩

end D128.Proofs.Total
