/-
  D128/Proofs/SpecialsLog1p.lean — `Log1p` on special operands and on negative arguments ≤ −1
  (property C15, target 4; the comparison with −1 reads the power-of-ten table).

  * `mag_nonpos`, `mag_eq_one_iff`, `mag_gt_one_iff`, `mag_pos_exp` : position of |x| = c·10^e relative to 1
  * `bmod16_small`, `i16_sub`, `i16_neg`, `dExp_toInt` (the unbiased exponent does not wrap), `pow39_gt_Cmax`
  * `Log1p_special` : Spec.specialCase .log1p 𝔳[d] = some w → ∃ r, Gen.Log1p g d = .ok r ∧ 𝔳[r].same w
-/
import D128.Proofs.SpecialsUnary
import D128.Proofs.Words128
import Mathlib.Algebra.Order.Field.Rat
import Mathlib.Data.Rat.Cast.Order
import Mathlib.Tactic.Positivity
import Mathlib.Tactic.NormNum
set_option autoImplicit false
set_option linter.unusedSimpArgs false
namespace Sp
local notation "𝔳[" d "]" => Spec.interp (Gen.Decimal.lo d) (Gen.Decimal.hi d)

theorem mag_nonpos (c : Nat) (e : Int) (he : e ≤ 0) :
    Spec.mag c e = (c : Rat) / ((10 ^ (-e).toNat : Nat) : Rat) := by
  unfold Spec.mag Spec.pow10
  by_cases h0 : e = 0
  · subst h0; simp
  · have : ¬ e ≥ 0 := by omega
    rw [if_neg this]
    push_cast
    rw [mul_one_div]

theorem mag_eq_one_iff (c : Nat) (e : Int) (he : e ≤ 0) :
    (Spec.mag c e == 1) = decide (c = 10 ^ (-e).toNat) := by
  rw [mag_nonpos c e he]
  have hp : (0 : Rat) < ((10 ^ (-e).toNat : Nat) : Rat) := by positivity
  rw [Bool.eq_iff_iff]
  simp only [beq_iff_eq, decide_eq_true_eq]
  rw [div_eq_one_iff_eq hp.ne']
  exact Nat.cast_inj

theorem mag_gt_one_iff (c : Nat) (e : Int) (he : e ≤ 0) :
    Spec.mag c e > 1 ↔ c > 10 ^ (-e).toNat := by
  rw [mag_nonpos c e he]
  have hp : (0 : Rat) < ((10 ^ (-e).toNat : Nat) : Rat) := by positivity
  rw [gt_iff_lt, one_lt_div hp]
  exact Nat.cast_lt

theorem mag_pos_exp (c : Nat) (e : Int) (hc : c ≠ 0) (he : 0 < e) :
    Spec.mag c e > 1 := by
  unfold Spec.mag Spec.pow10
  have : e ≥ 0 := by omega
  rw [if_pos this]
  have h1 : (1 : Rat) ≤ (c : Rat) := by exact_mod_cast Nat.one_le_iff_ne_zero.mpr hc
  have h2 : (1 : Rat) < (10 : Rat) ^ e.toNat := by
    apply one_lt_pow₀ (by norm_num)
    omega
  calc (1 : Rat) = 1 * 1 := by ring
    _ < (c : Rat) * (10 : Rat) ^ e.toNat := by
      apply mul_lt_mul' h1 h2 (by norm_num) (by linarith)

theorem bmod16_small (x : Int) (h1 : -32768 ≤ x) (h2 : x < 32768) : x.bmod (2 ^ 16) = x := by
  rw [Int.bmod_eq_emod]
  split <;> omega

theorem i16_sub (a b : Int16) (h1 : -32768 ≤ a.toInt - b.toInt) (h2 : a.toInt - b.toInt < 32768) :
    (a - b).toInt = a.toInt - b.toInt := by
  rw [Int16.toInt_sub, bmod16_small _ h1 h2]

theorem i16_neg (a : Int16) (h1 : -32768 < a.toInt) : (-a).toInt = -a.toInt := by
  have := a.toInt_lt
  rw [Int16.toInt_neg, bmod16_small _ (by omega) (by omega)]

/-- the unbiased exponent as the code computes it (no wrap-around) -/
theorem dExp_toInt (d : Gen.Decimal) (h : Gen.Decimal.isSpecial d = false) :
    ((Gen.Decimal.decompose d).2 - 6176).toInt = ex d := by
  have h0 := Enc.decompose_exp_nonneg d
  have h1 := Enc.decompose_exp_le d h
  have e : (6176 : Int16).toInt = 6176 := by decide
  rw [i16_sub _ _ (by rw [e]; omega) (by rw [e]; omega), e]

theorem pow39_gt_Cmax : Spec.Cmax < 10 ^ 39 := by
  unfold Spec.Cmax; norm_num

theorem Log1p_special (g : Globals) (d : Gen.Decimal) (w : Spec.Val)
    (h : Spec.specialCase .log1p 𝔳[d] = some w) :
    ∃ r, Gen.Log1p g d = .ok r ∧ (𝔳[r]).same w = true := by
  unfold Gen.Log1p
  unary_pre
  case fin.true =>
    have hE := dExp_toInt d a3
    have h0 := Enc.decompose_exp_nonneg d
    have h1 := Enc.decompose_exp_le d a3
    generalize hX : (Gen.Decimal.decompose d).2 - 6176 = X at hE ⊢
    by_cases c1 : 0 < ex d
    · have t1 : decide (X > 0) = true := by
        simp only [gt_iff_lt, Int16.lt_iff_toInt_lt, hE, decide_eq_true_eq]; exact c1
      simp only [t1, if_true]
      have hm := mag_pos_exp (cf d) (ex d) ac c1
      have hne : (Spec.mag (cf d) (ex d) == 1) = false := by
        simp only [beq_eq_false_iff_ne]; exact ne_of_gt hm
      simp only [hne, hm, if_true, if_false, Bool.false_eq_true, Option.some.injEq] at h
      unary_post
    · have t1 : decide (X > 0) = false := by
        simp only [gt_iff_lt, Int16.lt_iff_toInt_lt, hE, decide_eq_false_iff_not]; exact c1
      have he : ex d ≤ 0 := by omega
      simp only [t1, if_false, Bool.false_eq_true]
      rw [mag_eq_one_iff _ _ he] at h
      by_cases c2 : -39 < ex d
      · have t2 : decide (X > -39) = true := by
          simp only [gt_iff_lt, Int16.lt_iff_toInt_lt, hE, decide_eq_true_eq]; exact c2
        have hidx : Go.idx (-X) = -(ex d) := by
          show (-X).toInt = _
          rw [i16_neg X (by rw [hE]; omega), hE]
        obtain ⟨t, ht, htn⟩ := uint128PowersOf10_vget (Go.idx (-X)) (by rw [hidx]; omega) (by rw [hidx]; omega)
        rw [hidx] at htn
        simp only [t2, if_true, ht, bind, Except.bind, U128_cmp_eq, htn]
        rcases Nat.lt_trichotomy (cf d) (10 ^ (-ex d).toNat) with hlt | heq | hgt
        · exfalso
          have n1 : ¬ cf d = 10 ^ (-ex d).toNat := by omega
          have n2 : ¬ Spec.mag (cf d) (ex d) > 1 := by rw [mag_gt_one_iff _ _ he]; omega
          simp only [n1, n2, decide_false, if_false, Bool.false_eq_true] at h
          cases h
        · have e1 : ¬ (Gen.Decimal.decompose d).1.toNat < 10 ^ (-ex d).toNat := by
            show ¬ cf d < _; omega
          have e2 : (Gen.Decimal.decompose d).1.toNat = 10 ^ (-ex d).toNat := heq
          simp only [e2, Nat.lt_irrefl, if_true, if_false, beq_self_eq_true]
          simp only [heq, decide_true, if_true, Option.some.injEq] at h
          unary_post
        · have e1 : ¬ (Gen.Decimal.decompose d).1.toNat < 10 ^ (-ex d).toNat := by
            show ¬ cf d < _; omega
          have e2 : ¬ (Gen.Decimal.decompose d).1.toNat = 10 ^ (-ex d).toNat := by
            show ¬ cf d = _; omega
          have n1 : ¬ cf d = 10 ^ (-ex d).toNat := by omega
          have n2 : Spec.mag (cf d) (ex d) > 1 := by rw [mag_gt_one_iff _ _ he]; omega
          simp only [n1, n2, decide_false, if_false, if_true, Bool.false_eq_true, Option.some.injEq] at h
          simp only [e1, e2, if_false]
          have e3 : ((1 : Int64) == 0) = false := by decide
          have e4 : decide ((1 : Int64) > 0) = true := by decide
          simp only [e3, e4, if_true, if_false, Bool.false_eq_true]
          unary_post
      · exfalso
        have hc := Enc.decompose_sig_le d
        have hp : 10 ^ 39 ≤ 10 ^ (-ex d).toNat := Nat.pow_le_pow_right (by norm_num) (by omega)
        have hC := pow39_gt_Cmax
        have n1 : ¬ cf d = 10 ^ (-ex d).toNat := by show ¬ (Gen.Decimal.decompose d).1.toNat = _; omega
        have n2 : ¬ Spec.mag (cf d) (ex d) > 1 := by
          rw [mag_gt_one_iff _ _ he]; show ¬ (Gen.Decimal.decompose d).1.toNat > _; omega
        simp only [n1, n2, decide_false, if_false, Bool.false_eq_true] at h
        cases h
  all_goals unary_post
end Sp
