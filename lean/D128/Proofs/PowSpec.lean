/-
  D128/Proofs/PowSpec.lean — the specification `Spec.powSpecial` (D128/Spec/Elem.lean) taken apart,
  and the arithmetic of `Spec.intParity` / `Spec.powerOfTen` on a coefficient with its trailing
  zeros stripped.  No generated code here.

  * `mag_one_zero`, `same_posOne`
  * `psFin`, `psInf`, `powSpecial_eq` : `Spec.powSpecial` as the three leading tests followed by the
       per-class tables (`psFin`, `psInf` are the literal sub-terms of `Spec.powSpecial`)
  * `intParity_strip`  : for c = s·10^j, s % 10 ≠ 0, j ≤ 40:
       `intParity c e = if e + j < 0 then none else some (e + j = 0 ∧ s odd)`
  * `powerOfTen_strip` : for c = s·10^j, s % 10 ≠ 0: `powerOfTen c e = if s = 1 then some (j + e) else none`
-/
import D128.Proofs.PowBase
import D128.Proofs.SpecRound
set_option autoImplicit false
set_option maxRecDepth 8192
set_option linter.unusedSimpArgs false
namespace PowPf
open Gen Sp Spec

theorem mag_one_zero : Spec.mag 1 0 = 1 := by
  unfold Spec.mag Spec.pow10; simp

theorem same_posOne (x : Val) : x.same Spec.posOne = (!x.neg && absOne x) := by
  cases x with
  | nan n p => simp [Val.same, posOne, absOne]
  | inf n => simp [Val.same, posOne, absOne]
  | fin n c e => cases n <;> simp [Val.same, posOne, absOne, Val.neg, mag_one_zero]

/-- `Spec.powSpecial` for a finite y that is neither zero nor ±1 -/
def psFin (m : Mode) (x : Val) (yn : Bool) (yc : Nat) (ye : Int) : Option Val :=
    match x with
    | .nan n p => some (.nan n p)
    | .inf xn =>
      match intParity yc ye with
      | some odd => let neg := xn && odd; some (if yn then .fin neg 0 0 else .inf neg)
      | none => some (if yn then .fin false 0 0 else .inf false)
    | .fin xn xc xe =>
      if xc == 0 then
        match intParity yc ye with
        | some odd => let neg := xn && odd; some (if yn then .inf neg else .fin neg 0 0)
        | none => some (if yn then .inf false else .fin false 0 0)
      else if xn && (intParity yc ye).isNone then some (invalid2 .pow x (.fin yn yc ye))
      else
        match powerOfTen xc xe with
        | some k =>
          let neg := xn && (intParity yc ye == some true)
          if !yn && ye ≥ 0 then
            if ye > 6 || yc * 10 ^ ye.toNat > 20000 then
              some (if k == 0 then .fin neg 1 0 else if k > 0 then .inf neg else .fin neg 0 0)
            else
              let t := k * ((yc * 10 ^ ye.toNat : Nat) : Int)
              some (flushOrRoundS m neg 1 t)
          else if !xn && mag yc ye == 1 / 2 && k % 2 == 0 then
            some (exactOrInfS false 1 (if yn then -(k / 2) else k / 2))
          else none
        | none => none

/-- `Spec.powSpecial` for y = ±Inf -/
def psInf (x : Val) (yn : Bool) : Option Val :=
    match x with
    | .nan n p => some (.nan n p)
    | .inf _ => some (if yn then .fin false 0 0 else .inf false)
    | .fin _ c e =>
      if c == 0 then some (if yn then .inf false else .fin false 0 0)
      else
        let big := e + (ndigits c : Int) > 0 && !(c == 10 ^ (ndigits c - 1) && e + (ndigits c : Int) == 1)
        let isOne := powerOfTen c e == some 0
        if isOne then some posOne
        else if big then some (if yn then .fin false 0 0 else .inf false)
        else some (if yn then .inf false else .fin false 0 0)

theorem powSpecial_eq (m : Mode) (x y : Val) :
    powSpecial m x y =
      if y.isZero then some posOne
      else if !x.neg && absOne x then some posOne
      else if (x.neg && absOne x) && y.isInf then some posOne
      else match y with
        | .fin yn yc ye =>
          if mag yc ye == 1 && (ye.natAbs < 40) then (if yn then some (quo m posOne x) else some x)
          else psFin m x yn yc ye
        | .inf yn => psInf x yn
        | .nan n p => match x with | .nan n' p' => some (.nan n' p') | _ => some (.nan n p) := by
  unfold powSpecial psFin psInf
  rcases x with ⟨n, p⟩ | ⟨n⟩ | ⟨n, c, e⟩
  · simp only [Val.same, absOne, Val.neg, posOne, Bool.and_false, Bool.false_or, Bool.false_and,
      Bool.false_eq_true, if_false]
    cases y <;> rfl
  · simp only [Val.same, absOne, Val.neg, posOne, Bool.and_false, Bool.false_or, Bool.false_and,
      Bool.false_eq_true, if_false]
    cases y <;> rfl
  · cases n <;>
    simp only [Val.same, absOne, Val.neg, posOne, mag_one_zero, beq_self_eq_true, Bool.true_and,
      Bool.false_and, Bool.not_true, Bool.not_false, Bool.false_or, Bool.or_self, Sp.beq_tf, Sp.beq_ft,
      Bool.false_eq_true, if_false] <;>
    cases y <;> rfl



theorem split_pow (s j n : Nat) (h : n ≤ j) : s * 10 ^ j = s * 10 ^ (j - n) * 10 ^ n := by
  rw [mul_assoc, ← pow_add]; congr 2; omega

theorem dvd_strip (s j n : Nat) (hs : s % 10 ≠ 0) : (s * 10 ^ j) % 10 ^ n = 0 ↔ n ≤ j := by
  constructor
  · intro h
    by_contra hc
    have hd : 10 ^ n ∣ s * 10 ^ j := Nat.dvd_of_mod_eq_zero h
    have hn : 10 ^ n = 10 ^ j * 10 ^ (n - j) := by rw [← pow_add]; congr 1; omega
    rw [hn, mul_comm s] at hd
    have hd2 : 10 ^ (n - j) ∣ s := Nat.dvd_of_mul_dvd_mul_left (by positivity) hd
    have : 10 ∣ s := Dvd.dvd.trans (dvd_pow_self 10 (by omega)) hd2
    omega
  · intro h
    rw [split_pow s j n h]
    exact Nat.mul_mod_left _ _

theorem even_mul_pow (s j : Nat) (hj : j ≠ 0) : (s * 10 ^ j) % 2 = 0 := by
  have : 10 ^ j = 10 ^ (j - 1) * 10 := by rw [← pow_succ]; congr 1; omega
  rw [this, ← mul_assoc]
  omega

theorem intParity_strip (s j : Nat) (e : Int) (hs : s % 10 ≠ 0) (hj : j ≤ 40) :
    intParity (s * 10 ^ j) e =
      if e + j < 0 then none else some (decide (e + j = 0) && decide (s % 2 = 1)) := by
  have hs0 : s ≠ 0 := by rintro rfl; simp at hs
  have hc0 : s * 10 ^ j ≠ 0 := Nat.mul_ne_zero hs0 (by positivity)
  unfold intParity
  simp only [beq_iff_eq, hc0, if_false]
  by_cases he : e ≥ 0
  · have h1 : ¬ e + j < 0 := by omega
    simp only [he, if_true, h1, if_false, Option.some.injEq]
    by_cases hj0 : j = 0
    · subst hj0; rw [Bool.eq_iff_iff]; simp
    · have hev := even_mul_pow s j hj0
      have h2 : ¬ e + j = 0 := by omega
      have h3 : ¬ (s * 10 ^ j) % 2 = 1 := by omega
      simp [h3, h2]
  · simp only [he, if_false]
    by_cases h40 : -e > 40
    · have h1 : e + j < 0 := by omega
      simp only [h40, if_true, h1]
    · simp only [h40, if_false]
      have hn : ((-e).toNat : Int) = -e := Int.toNat_of_nonneg (by omega)
      generalize hN : (-e).toNat = n at *
      by_cases hd : (s * 10 ^ j) % 10 ^ n = 0
      · have hle := (dvd_strip s j _ hs).1 hd
        have h1 : ¬ e + j < 0 := by omega
        simp only [hd, if_true, h1, if_false, Option.some.injEq]
        have hq : s * 10 ^ j / 10 ^ n = s * 10 ^ (j - n) := by
          rw [split_pow s j n hle, Nat.mul_div_cancel _ (by positivity)]
        rw [hq]
        by_cases hjn : j - n = 0
        · have h2 : e + j = 0 := by omega
          rw [hjn, Bool.eq_iff_iff]; simp [h2]
        · have hev := even_mul_pow s (j - n) hjn
          have h2 : ¬ e + j = 0 := by omega
          have h3 : ¬ (s * 10 ^ (j - n)) % 2 = 1 := by omega
          simp [h3, h2]
      · have hle : ¬ n ≤ j := fun h => hd ((dvd_strip s j _ hs).2 h)
        have h1 : e + j < 0 := by omega
        simp only [hd, if_false, h1, if_true]

theorem ndigits_pow10 (j : Nat) : ndigits (10 ^ j) = j + 1 :=
  SpecRound.ndigits_eq_of (by omega) (by simp) (Nat.pow_lt_pow_right (by norm_num) (by omega))

theorem powerOfTen_strip (s j : Nat) (e : Int) (hs : s % 10 ≠ 0) :
    powerOfTen (s * 10 ^ j) e = if s = 1 then some ((j : Int) + e) else none := by
  have hs0 : s ≠ 0 := by rintro rfl; simp at hs
  have hc0 : s * 10 ^ j ≠ 0 := Nat.mul_ne_zero hs0 (by positivity)
  unfold powerOfTen
  by_cases h1 : s = 1
  · subst h1
    simp only [one_mul, ndigits_pow10, if_true]
    have : (10 ^ j != 0 && 10 ^ j == 10 ^ (j + 1 - 1)) = true := by simp
    rw [if_pos this]
    congr 1; push_cast; ring
  · simp only [h1, if_false]
    have : ¬ (s * 10 ^ j != 0 && s * 10 ^ j == 10 ^ (ndigits (s * 10 ^ j) - 1)) = true := by
      simp only [Bool.and_eq_true, bne_iff_ne, beq_iff_eq, not_and]
      intro _ heq
      generalize ndigits (s * 10 ^ j) - 1 = n at heq
      by_cases hnj : j ≤ n
      · have : 10 ^ n = 10 ^ (n - j) * 10 ^ j := by rw [← pow_add]; congr 1; omega
        rw [this] at heq
        have h2 : s = 10 ^ (n - j) := Nat.eq_of_mul_eq_mul_right (by positivity) heq
        by_cases h3 : n - j = 0
        · rw [h3] at h2; exact h1 (by simpa using h2)
        · have : 10 ∣ s := by rw [h2]; exact dvd_pow_self 10 h3
          omega
      · have : 10 ^ j = 10 ^ (j - n) * 10 ^ n := by rw [← pow_add]; congr 1; omega
        rw [this, ← mul_assoc] at heq
        have h2 : s * 10 ^ (j - n) = 1 := by
          apply Nat.eq_of_mul_eq_mul_right (show 0 < 10 ^ n by positivity)
          rw [heq]; ring
        have := Nat.eq_one_of_mul_eq_one_right h2
        exact h1 this
    rw [if_neg this]

end PowPf
