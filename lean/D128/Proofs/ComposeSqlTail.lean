/-
  D128/Proofs/ComposeSqlTail.lean — the last stage of `Decimal.Compose` (`CS.tail`, see
  ComposeSqlDefs.lean): from the 128-bit coefficient to the result.  Three `while` loops:
  normalisation (`for sig128[1] > 0x0002_7fff_ffff_ffff` divide by ten), underflow compensation
  (`for exp < -6176` divide by ten), overflow compensation (`for exp > 6111` multiply by ten).

  The first loop is entered with ANY int32 exponent on the ≤ 16-byte path, and `exp++` is not guarded
  there: for `exp = MaxInt32` it wraps to `MinInt32`.  The invariant `T1` follows the wrapped run (the
  value is then not a member, the loop ends within five more passes and the test `exp < -6211` reports
  the range error), so the contract holds for every exponent.

  Provided (namespace `CS`):
  * Int32 helpers  `i32_add`, `i32_sub`, `i32_add_one_wrap`, `i32_lt_lit`, `i32_gt_lit`, `conv_i32_i16`
  * `InvSt`, `ExitSt`   the shape of every loop invariant of `Compose` (no pending `return` / a pending
                        `return` carries the range error and the value is not a member)
  * `T1`/`X1`, `T2`/`X2`, `T3`   loop invariants / exit conditions, with their step lemmas
  * `tail_triple`, `tail_ok` :  for `0 < sig.toNat`,
        `∃ r, tail d neg exp sig = .ok r ∧ Res d neg (sig.toNat · 10^exp) r`
-/
import D128.Proofs.ComposeSqlDefs
import D128.Proofs.ComposeSqlMath
import D128.Proofs.Specials
import Std.Tactic.Do
set_option autoImplicit false
set_option maxRecDepth 4096
open Std.Do
set_option mvcgen.warning false

namespace CS
open SpecRound (Member)
open CanonPf (ok_of_triple w1_gt_iff mul10_toNat)

local notation "𝔳[" d "]" => Spec.interp (Gen.Decimal.lo d) (Gen.Decimal.hi d)

/-! ## Int32 helpers -/

theorem i32_add (a k : Int32) (h0 : -2 ^ 31 ≤ a.toInt + k.toInt) (h1 : a.toInt + k.toInt < 2 ^ 31) :
    (a + k).toInt = a.toInt + k.toInt := by
  rw [Int32.toInt_add]
  apply Int.bmod_eq_of_le <;> simp only [Nat.reducePow, Int.reducePow] at * <;> omega

theorem i32_sub (a k : Int32) (h0 : -2 ^ 31 ≤ a.toInt - k.toInt) (h1 : a.toInt - k.toInt < 2 ^ 31) :
    (a - k).toInt = a.toInt - k.toInt := by
  rw [Int32.toInt_sub]
  apply Int.bmod_eq_of_le <;> simp only [Nat.reducePow, Int.reducePow] at * <;> omega

theorem i32_add_one_wrap (a : Int32) (h : a.toInt = 2 ^ 31 - 1) : (a + 1).toInt = -2 ^ 31 := by
  rw [Int32.toInt_add, h]
  decide

theorem i32_lt_lit (e k : Int32) : (decide (e < k) = true) ↔ e.toInt < k.toInt := by
  simp only [decide_eq_true_eq, Int32.lt_iff_toInt_lt]

theorem i32_gt_lit (e k : Int32) : (decide (e > k) = true) ↔ k.toInt < e.toInt := by
  simp only [decide_eq_true_eq, gt_iff_lt, Int32.lt_iff_toInt_lt]

theorem i32_6111 : (6111 : Int32).toInt = 6111 := by decide
theorem i32_m6211 : (-6211 : Int32).toInt = -6211 := by decide
theorem i32_m6176 : (-6176 : Int32).toInt = -6176 := by decide
theorem i32_6176 : (6176 : Int32).toInt = 6176 := by decide
theorem i32_1 : (1 : Int32).toInt = 1 := by decide
theorem i32_4 : (4 : Int32).toInt = 4 := by decide
theorem i32_19 : (19 : Int32).toInt = 19 := by decide

theorem conv_i32_i16 (x : Int32) (h0 : -2 ^ 15 ≤ x.toInt) (h1 : x.toInt < 2 ^ 15) :
    (Go.conv x : Int16).toInt = x.toInt := by
  simp only [Go.conv, Go.GoInt.ofInt, Go.GoInt.toInt]
  rw [Int16.toInt_ofInt_of_le] <;> simp only [Int.reducePow] at * <;> omega

theorem u64_ne_zero_iff (x : UInt64) : (x != 0) = true ↔ x.toNat ≠ 0 := by
  rw [bne_iff_ne, ne_eq, ← UInt64.toNat_inj]; rfl

/-! ## the shape of the loop invariants -/

abbrev RetSt (σ : Type) := Option (Gen.Decimal × Go.Err) × σ

/-- loop invariant: no `return` pending and `I` holds of the loop variables -/
def InvSt {σ : Type} (I : σ → Prop) (s : RetSt σ) : Prop := s.1 = none ∧ I s.2

/-- loop exit: either a pending `return` of the range error (and the value is not a member, `d`
    unchanged), or `X` holds of the loop variables -/
def ExitSt {σ : Type} (d : Gen.Decimal) (V0 : ℚ) (X : σ → Prop) (s : RetSt σ) : Prop :=
  match s.1 with
  | some r => r = (d, Go.Err.composeRangeError) ∧ ¬ Member V0
  | none => X s.2

theorem ExitSt.of_some {σ : Type} {d : Gen.Decimal} {V0 : ℚ} {X : σ → Prop} {s : RetSt σ} {neg : Bool}
    {a : Gen.Decimal × Go.Err} (h : ExitSt d V0 X s) (ha : s.1 = some a) : Res d neg V0 a := by
  unfold ExitSt at h
  rw [ha] at h
  obtain ⟨rfl, hm⟩ := h
  exact Res.err hm

theorem ExitSt.of_none {σ : Type} {d : Gen.Decimal} {V0 : ℚ} {X : σ → Prop} {s : RetSt σ}
    (h : ExitSt d V0 X s) (ha : s.1 = none) : X s.2 := by
  unfold ExitSt at h
  rw [ha] at h
  exact h

theorem ExitSt.ret {σ : Type} (d : Gen.Decimal) (V0 : ℚ) (X : σ → Prop) (st : σ) (h : ¬ Member V0) :
    ExitSt d V0 X (some (d, Go.Err.composeRangeError), st) := ⟨rfl, h⟩

/-! ## first loop: normalisation -/

structure T1 (V0 : ℚ) (s : Int32 × U128) : Prop where
  pos : 0 < s.2.toNat
  cs : (((s.2.toNat : ℚ) * (10 : ℚ) ^ s.1.toInt = V0) ∧ (s.2.toNat ≤ Spec.Cmax ∨ s.1.toInt ≤ 6111))
     ∨ (¬ Member V0 ∧ ((6111 < s.1.toInt ∧ Spec.Cmax < s.2.toNat) ∨
          s.2.toNat * 10 ^ (s.1.toInt + 2 ^ 31).toNat < 2 ^ 128))

structure X1 (V0 : ℚ) (s : Int32 × U128) : Prop where
  pos : 0 < s.2.toNat
  le : s.2.toNat ≤ Spec.Cmax
  cs : ((s.2.toNat : ℚ) * (10 : ℚ) ^ s.1.toInt = V0) ∨ (¬ Member V0 ∧ s.1.toInt < -6211)

theorem T1_init (exp : Int32) (sig : U128) (h0 : 0 < sig.toNat) :
    T1 ((sig.toNat : ℚ) * (10 : ℚ) ^ exp.toInt) (exp, sig) := by
  refine ⟨h0, ?_⟩
  by_cases h : sig.toNat ≤ Spec.Cmax ∨ exp.toInt ≤ 6111
  · exact Or.inl ⟨rfl, h⟩
  · right
    have h1 : Spec.Cmax < sig.toNat := by omega
    have h2 : 6111 < exp.toInt := by omega
    refine ⟨?_, Or.inl ⟨h2, h1⟩⟩
    intro hm
    have := member_hi (by rw [Emax_val]; exact h2) hm
    omega

theorem T1_rem (V0 : ℚ) (s : Int32 × U128) (h : T1 V0 s) (q : U128 × UInt64)
    (hq : q.1.toNat = s.2.toNat / 10 ∧ q.2.toNat = s.2.toNat % 10)
    (hc : decide (s.2.w1 > (703687441776639 : UInt64)) = true)
    (hr : (q.2 != 0) = true) : ¬ Member V0 := by
  rw [w1_gt_iff] at hc
  rw [u64_ne_zero_iff] at hr
  rcases h.cs with ⟨hv, -⟩ | ⟨hm, -⟩
  · intro hm
    rw [← hv] at hm
    have := member_dvd 1 (le_refl 1) (by simpa using hc) hm
    omega
  · exact hm

theorem T1_ovf (V0 : ℚ) (s : Int32 × U128) (h : T1 V0 s)
    (hc : decide (s.2.w1 > (703687441776639 : UInt64)) = true)
    (ho : decide (s.1 + 1 > (6111 : Int32)) = true) : ¬ Member V0 := by
  rw [w1_gt_iff] at hc
  rw [i32_gt_lit, i32_6111] at ho
  rcases h.cs with ⟨hv, hle⟩ | ⟨hm, -⟩
  · have hx : s.1.toInt ≤ 6111 := by omega
    have hl := s.1.le_toInt
    have hs : (s.1 + 1).toInt = s.1.toInt + 1 := by
      apply i32_add <;> rw [i32_1] <;> simp only [Int.reducePow] at * <;> omega
    intro hm
    rw [← hv] at hm
    have := member_ge (by rw [Emax_val]; omega) hm
    omega
  · exact hm

theorem pow10_lt_imp {m k : Nat} (h : 10 ^ m < 10 ^ k) : m < k :=
  (Nat.pow_lt_pow_iff_right (by norm_num)).1 h

theorem T1_step (V0 : ℚ) (s : Int32 × U128) (h : T1 V0 s) (q : U128 × UInt64)
    (hq : q.1.toNat = s.2.toNat / 10 ∧ q.2.toNat = s.2.toNat % 10)
    (hc : decide (s.2.w1 > (703687441776639 : UInt64)) = true)
    (hr : ¬ (q.2 != 0) = true)
    (ho : ¬ decide (s.1 + 1 > (6111 : Int32)) = true) :
    T1 V0 (s.1 + 1, q.1) ∧ q.1.toNat < s.2.toNat := by
  rw [w1_gt_iff] at hc
  rw [u64_ne_zero_iff] at hr
  rw [i32_gt_lit, i32_6111] at ho
  have hCv := Cmax_val
  have hl := s.1.le_toInt
  have hu := s.1.toInt_lt
  have hlt : q.1.toNat < s.2.toNat := by omega
  have hpos : 0 < q.1.toNat := by omega
  have hdvd : 10 ∣ s.2.toNat := by omega
  refine ⟨⟨hpos, ?_⟩, hlt⟩
  rcases h.cs with ⟨hv, hle⟩ | ⟨hm, hb⟩
  · have hx : s.1.toInt ≤ 6111 := by omega
    have hs : (s.1 + 1).toInt = s.1.toInt + 1 := by
      apply i32_add <;> rw [i32_1] <;> simp only [Int.reducePow] at * <;> omega
    left
    refine ⟨?_, Or.inr (by show (s.1 + 1).toInt ≤ 6111; omega)⟩
    show (q.1.toNat : ℚ) * (10 : ℚ) ^ (s.1 + 1).toInt = V0
    rw [hs, hq.1, ← hv]
    have := val_div s.2.toNat 1 s.1.toInt (by simpa using hdvd)
    simpa using this
  · right
    refine ⟨hm, Or.inr ?_⟩
    show q.1.toNat * 10 ^ ((s.1 + 1).toInt + 2 ^ 31).toNat < 2 ^ 128
    rcases hb with ⟨hx, -⟩ | hb
    · have hmax : s.1.toInt = 2 ^ 31 - 1 := by
        by_contra hne
        have hs : (s.1 + 1).toInt = s.1.toInt + 1 := by
          apply i32_add <;> rw [i32_1] <;> simp only [Int.reducePow] at * <;> omega
        omega
      rw [i32_add_one_wrap _ hmax]
      have := s.2.toNat_lt
      simp only [Int.reducePow, Int.add_left_neg, Int.toNat_zero, Nat.pow_zero, Nat.mul_one]
      omega
    · have h1 : 10 ^ (s.1.toInt + 2 ^ 31).toNat < 10 ^ 5 := by
        by_contra hge
        have hge' : 10 ^ 5 ≤ 10 ^ (s.1.toInt + 2 ^ 31).toNat := by omega
        have : s.2.toNat * 10 ^ 5 ≤ s.2.toNat * 10 ^ (s.1.toInt + 2 ^ 31).toNat :=
          Nat.mul_le_mul_left _ hge'
        omega
      have h2 := pow10_lt_imp h1
      have hs : (s.1 + 1).toInt = s.1.toInt + 1 := by
        apply i32_add <;> rw [i32_1] <;> simp only [Int.reducePow] at * <;> omega
      rw [hs]
      have e1 : (s.1.toInt + 1 + 2 ^ 31).toNat = (s.1.toInt + 2 ^ 31).toNat + 1 := by
        simp only [Int.reducePow] at *; omega
      rw [e1, Nat.pow_succ, hq.1]
      have : s.2.toNat / 10 * (10 ^ (s.1.toInt + 2 ^ 31).toNat * 10)
          = (s.2.toNat / 10 * 10) * 10 ^ (s.1.toInt + 2 ^ 31).toNat := by ring
      rw [this]
      have : s.2.toNat / 10 * 10 ≤ s.2.toNat := Nat.div_mul_le_self _ _
      exact Nat.lt_of_le_of_lt (Nat.mul_le_mul_right _ this) hb

theorem T1_exit (V0 : ℚ) (s : Int32 × U128) (h : T1 V0 s)
    (hc : ¬ decide (s.2.w1 > (703687441776639 : UInt64)) = true) : X1 V0 s := by
  rw [w1_gt_iff] at hc
  have hle : s.2.toNat ≤ Spec.Cmax := by omega
  refine ⟨h.pos, hle, ?_⟩
  rcases h.cs with ⟨hv, -⟩ | ⟨hm, hb⟩
  · exact Or.inl hv
  · right
    refine ⟨hm, ?_⟩
    rcases hb with ⟨-, hx⟩ | hb
    · omega
    · have hp := h.pos
      have h1 : 10 ^ (s.1.toInt + 2 ^ 31).toNat < 10 ^ 39 := by
        have : 1 * 10 ^ (s.1.toInt + 2 ^ 31).toNat ≤ s.2.toNat * 10 ^ (s.1.toInt + 2 ^ 31).toNat :=
          Nat.mul_le_mul_right _ hp
        have e : (2 : Nat) ^ 128 < 10 ^ 39 := by norm_num
        omega
      have h2 := pow10_lt_imp h1
      simp only [Int.reducePow] at h2
      omega

/-! ## second loop: exponents below `Emin` -/

structure T2 (V0 : ℚ) (lo : Int) (s : Int32 × U128) : Prop where
  pos : 0 < s.2.toNat
  le : s.2.toNat ≤ Spec.Cmax
  val : (s.2.toNat : ℚ) * (10 : ℚ) ^ s.1.toInt = V0
  rng : lo ≤ s.1.toInt

theorem X1_low (V0 : ℚ) (s : Int32 × U128) (h : X1 V0 s)
    (hc : decide (s.1 < (-6211 : Int32)) = true) : ¬ Member V0 := by
  rw [i32_lt_lit, i32_m6211] at hc
  rcases h.cs with hv | ⟨hm, -⟩
  · rw [← hv]
    exact not_member_tiny h.pos h.le (by rw [Emin_val]; omega)
  · exact hm

theorem X1_T2 (V0 : ℚ) (s : Int32 × U128) (h : X1 V0 s)
    (hc : ¬ decide (s.1 < (-6211 : Int32)) = true) : T2 V0 (-6211) s := by
  rw [i32_lt_lit, i32_m6211] at hc
  rcases h.cs with hv | ⟨-, hx⟩
  · exact ⟨h.pos, h.le, hv, by omega⟩
  · omega

theorem T2_rem (V0 : ℚ) (s : Int32 × U128) (h : T2 V0 (-6211) s) (q : U128 × UInt64)
    (hq : q.1.toNat = s.2.toNat / 10 ∧ q.2.toNat = s.2.toNat % 10)
    (hc : decide (s.1 < (-6176 : Int32)) = true)
    (hr : (q.2 != 0) = true) : ¬ Member V0 := by
  rw [i32_lt_lit, i32_m6176] at hc
  rw [u64_ne_zero_iff] at hr
  intro hm
  rw [← h.val] at hm
  have := member_lo_ten (by rw [Emin_val]; exact hc) hm
  omega

theorem T2_step (V0 : ℚ) (s : Int32 × U128) (h : T2 V0 (-6211) s) (q : U128 × UInt64)
    (hq : q.1.toNat = s.2.toNat / 10 ∧ q.2.toNat = s.2.toNat % 10)
    (hc : decide (s.1 < (-6176 : Int32)) = true)
    (hr : ¬ (q.2 != 0) = true) :
    T2 V0 (-6211) (s.1 + 1, q.1) ∧ (-6176 - (s.1 + 1).toInt).toNat < (-6176 - s.1.toInt).toNat := by
  rw [i32_lt_lit, i32_m6176] at hc
  rw [u64_ne_zero_iff] at hr
  obtain ⟨pos, le, val, rng⟩ := h
  have hs : (s.1 + 1).toInt = s.1.toInt + 1 := by
    apply i32_add <;> rw [i32_1] <;> simp only [Int.reducePow] at * <;> omega
  have hdvd : 10 ∣ s.2.toNat := by omega
  refine ⟨⟨?_, ?_, ?_, ?_⟩, ?_⟩
  · show 0 < q.1.toNat; omega
  · show q.1.toNat ≤ Spec.Cmax; omega
  · show (q.1.toNat : ℚ) * (10 : ℚ) ^ (s.1 + 1).toInt = V0
    rw [hs, hq.1, ← val]
    have := val_div s.2.toNat 1 s.1.toInt (by simpa using hdvd)
    simpa using this
  · show -6211 ≤ (s.1 + 1).toInt; omega
  · rw [hs]; omega

theorem T2_exit (V0 : ℚ) (s : Int32 × U128) (h : T2 V0 (-6211) s)
    (hc : ¬ decide (s.1 < (-6176 : Int32)) = true) : T2 V0 (-6176) s := by
  rw [i32_lt_lit, i32_m6176] at hc
  exact ⟨h.pos, h.le, h.val, by omega⟩

/-! ## third loop: exponents above `Emax` -/

theorem T3_ovf (V0 : ℚ) (s : Int32 × U128) (h : T2 V0 (-6176) s)
    (hc : decide (s.1 > (6111 : Int32)) = true)
    (ho : decide ((Gen.U128.mul64 s.2 10).w1 > (703687441776639 : UInt64)) = true) : ¬ Member V0 := by
  rw [i32_gt_lit, i32_6111] at hc
  rw [w1_gt_iff, mul10_toNat _ h.le] at ho
  intro hm
  rw [← h.val] at hm
  have := member_hi (by rw [Emax_val]; exact hc) hm
  omega

theorem T3_step (V0 : ℚ) (s : Int32 × U128) (h : T2 V0 (-6176) s)
    (hc : decide (s.1 > (6111 : Int32)) = true)
    (ho : ¬ decide ((Gen.U128.mul64 s.2 10).w1 > (703687441776639 : UInt64)) = true) :
    T2 V0 (-6176) (s.1 - 1, Gen.U128.mul64 s.2 10) ∧
      ((s.1 - 1).toInt - 6111).toNat < (s.1.toInt - 6111).toNat := by
  rw [i32_gt_lit, i32_6111] at hc
  rw [w1_gt_iff, mul10_toNat _ h.le] at ho
  obtain ⟨pos, le, val, rng⟩ := h
  have hu := s.1.toInt_lt
  have hs : (s.1 - 1).toInt = s.1.toInt - 1 := by
    apply i32_sub <;> rw [i32_1] <;> simp only [Int.reducePow] at * <;> omega
  refine ⟨⟨?_, ?_, ?_, ?_⟩, ?_⟩
  · show 0 < (Gen.U128.mul64 s.2 10).toNat; rw [mul10_toNat _ le]; omega
  · show (Gen.U128.mul64 s.2 10).toNat ≤ Spec.Cmax; rw [mul10_toNat _ le]; omega
  · show ((Gen.U128.mul64 s.2 10).toNat : ℚ) * (10 : ℚ) ^ (s.1 - 1).toInt = V0
    rw [hs, mul10_toNat _ le, ← val]
    exact val_mul10 _ _
  · show -6176 ≤ (s.1 - 1).toInt; omega
  · rw [hs]; omega

/-- exit condition of the third loop -/
def X3 (V0 : ℚ) (s : Int32 × U128) : Prop := T2 V0 (-6176) s ∧ ¬ decide (s.1 > (6111 : Int32)) = true

theorem T3_final (d : Gen.Decimal) (neg : Bool) (V0 : ℚ) (s : Int32 × U128) (h : T2 V0 (-6176) s)
    (hc : ¬ decide (s.1 > (6111 : Int32)) = true) :
    Res d neg V0 (Gen.compose neg s.2 (Go.conv (s.1 + (6176 : Int32)) : Int16), Go.Err.nil) := by
  rw [i32_gt_lit, i32_6111] at hc
  obtain ⟨pos, le, val, rng⟩ := h
  have hs : (s.1 + 6176).toInt = s.1.toInt + 6176 := by
    apply i32_add <;> rw [i32_6176] <;> simp only [Int.reducePow] at * <;> omega
  have hcv : (Go.conv (s.1 + (6176 : Int32)) : Int16).toInt = s.1.toInt + 6176 := by
    rw [conv_i32_i16, hs] <;> rw [hs] <;> simp only [Int.reducePow] <;> omega
  left
  refine ⟨rfl, s.2.toNat, s.1.toInt, ?_, le, by rw [Emin_val]; omega, by rw [Emax_val]; omega, val⟩
  show 𝔳[Gen.compose neg s.2 (Go.conv (s.1 + (6176 : Int32)) : Int16)] = _
  have hi := Sp.interp_compose neg s.2 (Go.conv (s.1 + (6176 : Int32)) : Int16) le
    (by rw [hcv]; omega) (by rw [hcv]; omega)
  refine hi.trans ?_
  have e : (Go.conv (s.1 + (6176 : Int32)) : Int16).toInt - 6176 = s.1.toInt := by rw [hcv]; omega
  rw [e]

/-! ## the stage -/

theorem tail_triple (d : Gen.Decimal) (neg : Bool) (exp : Int32) (sig : U128) (h0 : 0 < sig.toNat)
    (V0 : ℚ) (hV : (sig.toNat : ℚ) * (10 : ℚ) ^ exp.toInt = V0) :
    ⦃⌜True⌝⦄ tail d neg exp sig ⦃⇓ r => ⌜Res d neg V0 r⌝⦄ := by
  mvcgen [tail]
  case inv1 => exact fun s => ⟨s.2.2.toNat⟩
  case inv2 =>
    exact ⇓ x => match x with
      | .inl s => ⌜InvSt (T1 V0) s⌝
      | .inr s => ⌜ExitSt d V0 (X1 V0) s⌝
  case inv3 => exact fun s => ⟨(-6176 - s.2.1.toInt).toNat⟩
  case inv4 =>
    exact ⇓ x => match x with
      | .inl s => ⌜InvSt (T2 V0 (-6211)) s⌝
      | .inr s => ⌜ExitSt d V0 (T2 V0 (-6176)) s⌝
  case inv5 => exact fun s => ⟨(s.2.1.toInt - 6111).toNat⟩
  case inv6 =>
    exact ⇓ x => match x with
      | .inl s => ⌜InvSt (T2 V0 (-6176)) s⌝
      | .inr s => ⌜ExitSt d V0 (X3 V0) s⌝
  case vc1 =>
    rename_i b mb _ e _ hc hinv r sg _ hr hq
    exact ExitSt.ret d V0 (X1 V0) (e, sg) (T1_rem _ b.2 hinv.2.2 r hq hc hr)
  case vc2 =>
    rename_i b mb _ _ _ hc hinv r sg _ hr e ho hq
    exact ExitSt.ret d V0 (X1 V0) (e, sg) (T1_ovf _ b.2 hinv.2.2 hc ho)
  case vc3 =>
    rename_i b mb _ _ _ hc hinv r _ _ hr _ ho hq
    have hv : mb = b.2.2.toNat := congrArg ULift.down hinv.1
    obtain ⟨h1, h2⟩ := T1_step _ b.2 hinv.2.2 r hq hc hr ho
    exact ⟨_, rfl, by rw [hv]; exact h2, rfl, h1⟩
  case vc4 =>
    rename_i b mb _ _ _ hc hinv
    exact T1_exit _ b.2 hinv.2.2 hc
  case vc5 => exact ⟨rfl, hV ▸ T1_init exp sig h0⟩
  case vc6 =>
    rename_i r _ _ _ _ a x h
    exact ExitSt.of_some (h : ExitSt d V0 (X1 V0) r) x
  case vc7 =>
    rename_i r _ _ _ _ x hc h
    exact Res.err (X1_low _ r.2 (ExitSt.of_none (h : ExitSt d V0 (X1 V0) r) x) hc)
  case vc8 =>
    rename_i b mb _ e _ hc hinv r sg _ hr hq
    exact ExitSt.ret d V0 (T2 V0 (-6176)) (e, sg) (T2_rem _ b.2 hinv.2.2 r hq hc hr)
  case vc9 =>
    rename_i b mb _ _ _ hc hinv r _ _ hr _ hq
    have hv : mb = (-6176 - b.2.1.toInt).toNat := congrArg ULift.down hinv.1
    obtain ⟨h1, h2⟩ := T2_step _ b.2 hinv.2.2 r hq hc hr
    exact ⟨_, rfl, by rw [hv]; exact h2, rfl, h1⟩
  case vc10 =>
    rename_i b mb _ _ _ hc hinv
    exact T2_exit _ b.2 hinv.2.2 hc
  case vc11 =>
    rename_i r _ _ _ _ x hc h
    exact ⟨rfl, X1_T2 _ r.2 (ExitSt.of_none (h : ExitSt d V0 (X1 V0) r) x) hc⟩
  case vc12 =>
    rename_i r _ _ _ _ a x h
    exact ExitSt.of_some (h : ExitSt d V0 (T2 V0 (-6176)) r) x
  case vc13 =>
    rename_i b mb _ e _ hc sg ho hinv
    exact ExitSt.ret d V0 (X3 V0) (e, sg) (T3_ovf _ b.2 hinv.2.2 hc ho)
  case vc14 =>
    rename_i b mb _ _ _ hc _ ho _ hinv
    have hv : mb = (b.2.1.toInt - 6111).toNat := congrArg ULift.down hinv.1
    obtain ⟨h1, h2⟩ := T3_step _ b.2 hinv.2.2 hc ho
    exact ⟨_, rfl, by rw [hv]; exact h2, rfl, h1⟩
  case vc15 =>
    rename_i b mb _ _ _ hc hinv
    exact ⟨hinv.2.2, hc⟩
  case vc16 =>
    rename_i r _ _ _ _ x h
    have hx := ExitSt.of_none (h : ExitSt d V0 (T2 V0 (-6176)) r) x
    exact ⟨rfl, hx⟩
  case vc17 =>
    rename_i r _ _ _ _ a x h
    exact ExitSt.of_some (h : ExitSt d V0 (X3 V0) r) x
  case vc18 =>
    rename_i r _ _ _ _ x _ h
    have hx := ExitSt.of_none (h : ExitSt d V0 (X3 V0) r) x
    exact T3_final d neg _ r.2 hx.1 hx.2
  all_goals exact ExceptConds.entails.refl _

theorem tail_ok (d : Gen.Decimal) (neg : Bool) (exp : Int32) (sig : U128) (h0 : 0 < sig.toNat) :
    ∃ r, tail d neg exp sig = .ok r ∧ Res d neg ((sig.toNat : ℚ) * (10 : ℚ) ^ exp.toInt) r :=
  ok_of_triple (tail_triple d neg exp sig h0 _ rfl)

end CS
