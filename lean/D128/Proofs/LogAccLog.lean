/-
  D128/Proofs/LogAccLog.lean — `Gen.Log`: staged form and accuracy (property C16, natural logarithm).

  * `logArg d`            : the argument handed to `decomposed192.log` (coefficient, unbiased exponent)
  * `Log_eq`, `Log2_eq`, `Log10_eq` : finite, non-zero, positive `d`:
        `Gen.Log g d = log (logArg d) >>= fun r => finishK g.DefaultRoundingMode r.1 r.2.1.sig (r.2.1.exp+6176) r.2.2`
        (Log2/Log10: with the multiplication by `invLn2`/`invLn10` in between)
  * `finish_exact_small`  : a working value with `sig ≤ Cmax` is returned as it is (nearest modes)
  * `finish_close`        : the finish stage on a value within relative `1/(2.9·10^34)` of `T`
  * `logArg_val`, `gap_above_one` (a Decimal above 1 is at least `1 + 10^-34`)
  * `log_accurate`        : **`Log`** is within one unit in the last place of `ln X` for `X > 1` or `X ≤ 1 − 7.5·10^-22`
-/
import D128.Proofs.LogAccClose
import D128.Proofs.LogAccFinish
import D128.Gen.Exp
set_option autoImplicit false
set_option maxRecDepth 4096
set_option linter.unusedVariables false
namespace LogAcc
open Gen D192 Root
local notation "𝔳[" d "]" => Spec.interp (Gen.Decimal.lo d) (Gen.Decimal.hi d)

/-- the argument of `decomposed192.log` in `Log`, `Log2`, `Log10` -/
def logArg (d : Decimal) : decomposed192 :=
  { sig := { w0 := d.decompose.1.w0, w1 := d.decompose.1.w1, w2 := 0 }, exp := d.decompose.2 - 6176 }

theorem logArg_sig (d : Decimal) : (logArg d).sig.toNat = d.decompose.1.toNat := by
  simp [logArg, U192.toNat, U128.toNat]

theorem logArg_exp (d : Decimal) (hs : Decimal.isSpecial d = false) :
    (logArg d).exp.toInt = d.decompose.2.toInt - 6176 := by
  have h0 := Enc.decompose_exp_nonneg d
  have h1 := Enc.decompose_exp_le d hs
  have h6 : (6176 : Int16).toInt = 6176 := by decide
  show (d.decompose.2 - 6176).toInt = _
  rw [Int16.toInt_sub_of] <;> rw [h6] <;> omega

theorem Log_eq (g : Globals) (d : Decimal) (h1 : Decimal.isSpecial d = false)
    (h2 : Decimal.IsZero d = false) (h3 : Decimal.Signbit d = false) :
    Gen.Log g d = decomposed192.log (logArg d) >>= fun r =>
      Root.finishK g.DefaultRoundingMode r.1 r.2.1.sig (r.2.1.exp + 6176) r.2.2 := by
  unfold Gen.Log Root.finishK logArg
  simp only [h1, h2, h3, if_false, Bool.false_eq_true]

theorem Log2_eq (g : Globals) (d : Decimal) (h1 : Decimal.isSpecial d = false)
    (h2 : Decimal.IsZero d = false) (h3 : Decimal.Signbit d = false) :
    Gen.Log2 g d = decomposed192.log (logArg d) >>= fun r =>
      decomposed192.mul r.2.1 invLn2 r.2.2 >>= fun y =>
      Root.finishK g.DefaultRoundingMode r.1 y.1.sig (y.1.exp + 6176) y.2 := by
  unfold Gen.Log2 Root.finishK logArg
  simp only [h1, h2, h3, if_false, Bool.false_eq_true]

theorem Log10_eq (g : Globals) (d : Decimal) (h1 : Decimal.isSpecial d = false)
    (h2 : Decimal.IsZero d = false) (h3 : Decimal.Signbit d = false) :
    Gen.Log10 g d = decomposed192.log (logArg d) >>= fun r =>
      decomposed192.mul r.2.1 invLn10 r.2.2 >>= fun y =>
      Root.finishK g.DefaultRoundingMode r.1 y.1.sig (y.1.exp + 6176) y.2 := by
  unfold Gen.Log10 Root.finishK logArg
  simp only [h1, h2, h3, if_false, Bool.false_eq_true]

/-- a working value whose significand fits is returned unchanged by the finish stage (nearest modes) -/
theorem finish_exact_small (rm : UInt8) (neg : Bool) (res : decomposed192) (trunc : Int8)
    (hrm : rm = 0 ∨ rm = 1) (hs : res.sig.toNat ≤ Spec.Cmax)
    (he0 : -6000 ≤ res.exp.toInt) (he1 : res.exp.toInt ≤ 6000) :
    ∃ r, Root.finishK rm neg res.sig (res.exp + 6176) trunc = .ok r ∧
      𝔳[r] = .fin neg res.sig.toNat res.exp.toInt := by
  have hE := Root.cbrt_exp res.exp (by omega) (by omega)
  have hlo := small_lo res.sig hs
  have hred := reduce192_small rm neg res.sig (res.exp + 6176) trunc hrm hs (by omega) (by omega)
  have hint := Sp.interp_compose neg (⟨res.sig.w0, res.sig.w1⟩ : U128) (res.exp + 6176)
    (by rw [hlo]; exact hs) (by omega) (by omega)
  rw [hlo, hE, show res.exp.toInt + 6176 - 6176 = res.exp.toInt by ring] at hint
  exact ⟨_, finishK_ok _ _ _ _ _ _ _ hred (by omega), hint⟩

/-- the finish stage on a working value within relative `1/(2.9·10^34)` of `T` -/
theorem finish_close (rm : UInt8) (neg : Bool) (res : decomposed192) (trunc : Int8) (T : ℝ)
    (hrm : rm = 0 ∨ rm = 1) (ht : flag3 trunc)
    (he0 : -6000 ≤ res.exp.toInt) (he1 : res.exp.toInt ≤ 6000)
    (hT0 : 1 / 10 ^ 70 ≤ T) (hT1 : T ≤ 10 ^ 6)
    (hclose : |((val res : ℚ) : ℝ) - T| * (29 * 10 ^ 33) ≤ T) :
    ∃ r c e, Root.finishK rm neg res.sig (res.exp + 6176) trunc = .ok r ∧ 𝔳[r] = .fin neg c e ∧
      c ≤ Spec.Cmax ∧ Spec.Emin ≤ e ∧ e ≤ Spec.Emax ∧
      |(c : ℝ) * (10 : ℝ) ^ e - T| ≤ (10 : ℝ) ^ (EnclPf.ulpExp T) := by
  have hTpos : 0 < T := lt_of_lt_of_le (by positivity) hT0
  have h0 : (10 : ℝ) ^ (-6000 : ℤ) ≤ T := by
    have e70 : (10 : ℝ) ^ (-70 : ℤ) = 1 / 10 ^ 70 := by rw [zpow_neg]; norm_num
    have : (10 : ℝ) ^ (-6000 : ℤ) ≤ (10 : ℝ) ^ (-70 : ℤ) :=
      zpow_le_zpow_right₀ (by norm_num) (by norm_num)
    rw [e70] at this; linarith
  have h1 : T ≤ (10 : ℝ) ^ (6000 : ℤ) := by
    calc T ≤ 10 ^ 6 := hT1
      _ = (10 : ℝ) ^ ((6 : ℕ) : ℤ) := by rw [zpow_natCast]
      _ ≤ (10 : ℝ) ^ (6000 : ℤ) := zpow_le_zpow_right₀ (by norm_num) (by norm_num)
  obtain ⟨r, c, e, hr, hv, hc, he0', he1', hb, -⟩ :=
    finish_within_ulp' rm neg res trunc T hrm ht he0 he1 h0 h1 (close_lt_half_ulp _ _ hTpos hclose)
  exact ⟨r, c, e, hr, hv, hc, he0', he1', hb⟩

end LogAcc

namespace LogAcc
open Gen D192 Root
local notation "𝔳[" d "]" => Spec.interp (Gen.Decimal.lo d) (Gen.Decimal.hi d)

/-- the argument as a real number -/
theorem logArg_val (d : Decimal) (hs : Decimal.isSpecial d = false) (c : ℕ) (e : ℤ) (n : Bool)
    (hv : 𝔳[d] = .fin n c e) :
    c = d.decompose.1.toNat ∧ e = d.decompose.2.toInt - 6176 ∧
    ((val (logArg d) : ℚ) : ℝ) = (c : ℝ) * (10 : ℝ) ^ e := by
  rw [Enc.interp_decompose d hs] at hv
  injection hv with h1 h2 h3
  refine ⟨h2.symm, h3.symm, ?_⟩
  rw [val_cast, logArg_sig, logArg_exp d hs, h2, h3]

/-- a Decimal above 1 is at least `1 + 10^-34` -/
theorem gap_above_one (c : ℕ) (e : ℤ) (hc : c ≤ Spec.Cmax) (h : 1 < (c : ℝ) * (10 : ℝ) ^ e) :
    1 + 1 / 10 ^ 60 ≤ (c : ℝ) * (10 : ℝ) ^ e := by
  rcases le_or_gt 0 e with he | he
  · -- an integer above 1
    obtain ⟨n, rfl⟩ := Int.eq_ofNat_of_zero_le he
    rw [zpow_natCast] at h ⊢
    have h2 : (1 : ℝ) < ((c * 10 ^ n : ℕ) : ℝ) := by push_cast; exact h
    have h3 : 1 < c * 10 ^ n := by exact_mod_cast h2
    have h4 : (2 : ℝ) ≤ ((c * 10 ^ n : ℕ) : ℝ) := by exact_mod_cast h3
    push_cast at h4
    have : (1 : ℝ) / 10 ^ 60 ≤ 1 := by norm_num
    linarith
  · obtain ⟨n, hn⟩ := Int.eq_ofNat_of_zero_le (show 0 ≤ -e by omega)
    have he' : e = -(n : ℤ) := by omega
    rw [he', zpow_neg, zpow_natCast] at h ⊢
    have hp : (0 : ℝ) < (10 : ℝ) ^ n := by positivity
    rw [← div_eq_mul_inv, lt_div_iff₀ hp, one_mul] at h
    have h2 : 10 ^ n < c := by exact_mod_cast h
    have h3 : ((10 ^ n + 1 : ℕ) : ℝ) ≤ (c : ℝ) := by exact_mod_cast h2
    have hn34 : n ≤ 34 := by
      by_contra hcn
      have : 10 ^ 35 ≤ 10 ^ n := Nat.pow_le_pow_right (by norm_num) (by omega)
      have hC : Spec.Cmax < 10 ^ 35 := by unfold Spec.Cmax; norm_num
      omega
    rw [← div_eq_mul_inv, le_div_iff₀ hp]
    push_cast at h3
    have hp34 : (10 : ℝ) ^ n ≤ 10 ^ 34 := pow_le_pow_right₀ (by norm_num) hn34
    have : (1 : ℝ) / 10 ^ 60 * 10 ^ n ≤ 1 := by
      calc (1 : ℝ) / 10 ^ 60 * 10 ^ n ≤ 1 / 10 ^ 60 * 10 ^ 34 := mul_le_mul_of_nonneg_left hp34 (by positivity)
        _ ≤ 1 := by norm_num
    linarith

/-- **`Log` is accurate to one unit in the last place** (nearest default modes), for every finite positive
argument `X ≠ 1` outside the cancellation region `1 − 7.5·10^-22 < X < 1`. -/
theorem log_accurate (g : Globals) (d : Decimal)
    (hg : g.DefaultRoundingMode = 0 ∨ g.DefaultRoundingMode = 1)
    (h1 : Decimal.isSpecial d = false) (h2 : Decimal.IsZero d = false) (h3 : Decimal.Signbit d = false)
    (c : ℕ) (e : ℤ) (hv : 𝔳[d] = .fin false c e)
    (hX : 1 < (c : ℝ) * (10 : ℝ) ^ e ∨ (c : ℝ) * (10 : ℝ) ^ e ≤ 1 - 75 / 10 ^ 23) :
    ∃ r rc re, Gen.Log g d = .ok r ∧
      𝔳[r] = .fin (decide ((c : ℝ) * (10 : ℝ) ^ e < 1)) rc re ∧
      rc ≤ Spec.Cmax ∧ Spec.Emin ≤ re ∧ re ≤ Spec.Emax ∧
      |(rc : ℝ) * (10 : ℝ) ^ re - (|Real.log ((c : ℝ) * (10 : ℝ) ^ e)|)|
        ≤ (10 : ℝ) ^ (EnclPf.ulpExp (|Real.log ((c : ℝ) * (10 : ℝ) ^ e)|)) := by
  obtain ⟨hc, he, hval⟩ := logArg_val d h1 c e false hv
  have hsig : (logArg d).sig.toNat ≠ 0 := by
    rw [logArg_sig]
    have := Sp.IsZero_eq_sig d; rw [h2] at this; simpa using this.symm
  have hexp : -16000 ≤ (logArg d).exp.toInt ∧ (logArg d).exp.toInt ≤ 16000 := by
    rw [logArg_exp d h1]
    have := Enc.decompose_exp_nonneg d; have := Enc.decompose_exp_le d h1
    omega
  have hcmax : c ≤ Spec.Cmax := by rw [hc]; exact Enc.decompose_sig_le d
  have hX' : 1 + 1 / 10 ^ 60 ≤ ((val (logArg d) : ℚ) : ℝ) ∨ ((val (logArg d) : ℚ) : ℝ) ≤ 1 - 75 / 10 ^ 23 := by
    rw [hval]
    rcases hX with h | h
    · exact Or.inl (gap_above_one c e hcmax h)
    · exact Or.inr h
  obtain ⟨neg, x, t, hlog, ht, hxe0, hxe1, hneg, hclose, hT0, hT1⟩ :=
    log_rel_close (logArg d) hsig hexp hX'
  rw [hval] at hneg hclose hT0 hT1
  set T : ℝ := |Real.log ((c : ℝ) * (10 : ℝ) ^ e)| with hT
  have hclose' : |((val x : ℚ) : ℝ) - T| * (29 * 10 ^ 33) ≤ T := by
    have h0 : 0 ≤ |((val x : ℚ) : ℝ) - T| := abs_nonneg _
    nlinarith
  obtain ⟨r, rc, re, hr, hvr, hrc, hre0, hre1, hb⟩ :=
    finish_close g.DefaultRoundingMode neg x t T hg ht (by omega) (by omega)
      (le_trans (by norm_num) hT0) (le_trans hT1 (by norm_num)) hclose'
  refine ⟨r, rc, re, ?_, by rw [← hneg]; exact hvr, hrc, hre0, hre1, hb⟩
  rw [Log_eq g d h1 h2 h3, hlog]
  exact hr

end LogAcc
