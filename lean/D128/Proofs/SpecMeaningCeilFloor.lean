/-
  D128/Proofs/SpecMeaningCeilFloor.lean — what `Spec.ceilDp dp x` and `Spec.floorDp dp x` MEAN: the LEAST
  multiple of the quantum `Q = 10^(-dp)` that is `≥ X = x.toRat`, resp. the GREATEST that is `≤ X`,
  with NO exception other than overflow (`±Inf` when that multiple is not a member of the format).
  Reuses `Qz.ceilDp_val`, `Qz.floorDp_val` (QuantizeIdem.lean) and SpecMeaningQuantize.lean.
  Pure mathematics; no generated code.

  Provided (namespace `SpecMeaning`):
  * `isLeast_ceil`, `isGreatest_floor` : `⌈X/Q⌉·Q` is the least multiple of `Q` that is `≥ X`;
                               `⌊X/Q⌋·Q` the greatest that is `≤ X`
  * `ratio_signed`, `ceil_signed`, `floor_signed`, `counts` : sign/magnitude bookkeeping
  * `ceilDp_of_mult`, `floorDp_of_mult` : a multiple of the quantum is returned unchanged
  * `ceilDp_round`, `floorDp_round`     : otherwise the result is `|⌈X/Q⌉|` resp. `|⌊X/Q⌋|` quanta with the sign
                               bit of x (`quanta_cases`: zero count → the zero of x's sign, e.g. Ceil(−0.5) = −0)
  * `ceilDp_value`, `floorDp_value`     : a finite result has the sign bit of x and denotes `⌈X/Q⌉·Q` / `⌊X/Q⌋·Q`
  * `ceilDp_isLeast`, `floorDp_isGreatest` : … hence is the least / greatest multiple (all finite x, zero incl.)
  * `ceilDp_inf_iff`, `floorDp_inf_iff` : the result is `±Inf` ↔ X is not a multiple and the selected multiple is
                               not a member of the format
  * `ceilDp_member_inf_iff`, `floorDp_member_inf_iff` : for x a member of the format: `+Inf` exactly when
                               `⌈X/Q⌉·Q` exceeds the largest finite magnitude (resp. `−Inf`, `⌊X/Q⌋·Q` below its
                               negation); `ceilDp_inf_result`, `floorDp_inf_result` (sign of an infinite result)
  * `ceilDp_zero'`, `floorDp_zero'`, `ceilDp_nan`, `ceilDp_inf`, `floorDp_nan`, `floorDp_inf`
-/
import D128.Proofs.SpecMeaningQuantize

set_option autoImplicit false

namespace SpecMeaning
open Spec SpecRound

/-! ## least / greatest multiple of the quantum -/

theorem isLeast_ceil (X : ℚ) (dp : Int) :
    IsLeast {y : ℚ | IsMult y dp ∧ X ≤ y} ((⌈X / (10 : ℚ) ^ (-dp)⌉ : ℚ) * (10 : ℚ) ^ (-dp)) := by
  have hQ := Q_pos dp
  constructor
  · refine ⟨⟨_, rfl⟩, ?_⟩
    have := Int.le_ceil (X / (10 : ℚ) ^ (-dp))
    rwa [div_le_iff₀ hQ] at this
  · rintro y ⟨⟨w, rfl⟩, hy⟩
    apply mul_le_mul_of_nonneg_right _ hQ.le
    have : X / (10 : ℚ) ^ (-dp) ≤ (w : ℚ) := by rwa [div_le_iff₀ hQ]
    exact_mod_cast Int.ceil_le.2 this

theorem isGreatest_floor (X : ℚ) (dp : Int) :
    IsGreatest {y : ℚ | IsMult y dp ∧ y ≤ X} ((⌊X / (10 : ℚ) ^ (-dp)⌋ : ℚ) * (10 : ℚ) ^ (-dp)) := by
  have hQ := Q_pos dp
  constructor
  · refine ⟨⟨_, rfl⟩, ?_⟩
    have := Int.floor_le (X / (10 : ℚ) ^ (-dp))
    rwa [le_div_iff₀ hQ] at this
  · rintro y ⟨⟨w, rfl⟩, hy⟩
    apply mul_le_mul_of_nonneg_right _ hQ.le
    have : (w : ℚ) ≤ X / (10 : ℚ) ^ (-dp) := by rwa [le_div_iff₀ hQ]
    exact_mod_cast Int.le_floor.2 this

/-! ## sign / magnitude bookkeeping -/

/-- `X / Q` is `|X| / Q` with the sign of x -/
theorem ratio_signed (n : Bool) (c : Nat) (e dp : Int) :
    (Val.fin n c e).toRat / (10 : ℚ) ^ (-dp) =
      if n then -(|(Val.fin n c e).toRat| / (10 : ℚ) ^ (-dp)) else |(Val.fin n c e).toRat| / (10 : ℚ) ^ (-dp) := by
  conv_lhs => rw [toRat_eq_signed_abs n c e]
  cases n <;> simp

theorem ceil_signed (n : Bool) (c : Nat) (e dp : Int) :
    ((⌈(Val.fin n c e).toRat / (10 : ℚ) ^ (-dp)⌉ : Int) : ℚ) =
      if n then -((⌈(Val.fin n c e).toRat / (10 : ℚ) ^ (-dp)⌉.natAbs : Nat) : ℚ)
      else ((⌈(Val.fin n c e).toRat / (10 : ℚ) ^ (-dp)⌉.natAbs : Nat) : ℚ) := by
  have hs : 0 ≤ |(Val.fin n c e).toRat| / (10 : ℚ) ^ (-dp) := div_nonneg (abs_nonneg _) (Q_pos dp).le
  have hr := ratio_signed n c e dp
  generalize (Val.fin n c e).toRat / (10 : ℚ) ^ (-dp) = r at *
  generalize |(Val.fin n c e).toRat| / (10 : ℚ) ^ (-dp) = s at *
  cases n
  · simp only [Bool.false_eq_true, if_false] at hr ⊢
    have h0 : 0 ≤ ⌈r⌉ := Int.ceil_nonneg (by rw [hr]; exact hs)
    have h3 : ((⌈r⌉.natAbs : Nat) : Int) = ⌈r⌉ := Int.natAbs_of_nonneg h0
    rw [← Int.cast_natCast, h3]
  · simp only [if_true] at hr ⊢
    have h0 : ⌈r⌉ ≤ 0 := Int.ceil_le.2 (by rw [hr]; simpa using hs)
    have h3 : ((⌈r⌉.natAbs : Nat) : Int) = -⌈r⌉ := Int.ofNat_natAbs_of_nonpos h0
    rw [← Int.cast_natCast, h3, Int.cast_neg, neg_neg]

theorem floor_signed (n : Bool) (c : Nat) (e dp : Int) :
    ((⌊(Val.fin n c e).toRat / (10 : ℚ) ^ (-dp)⌋ : Int) : ℚ) =
      if n then -((⌊(Val.fin n c e).toRat / (10 : ℚ) ^ (-dp)⌋.natAbs : Nat) : ℚ)
      else ((⌊(Val.fin n c e).toRat / (10 : ℚ) ^ (-dp)⌋.natAbs : Nat) : ℚ) := by
  have hs : 0 ≤ |(Val.fin n c e).toRat| / (10 : ℚ) ^ (-dp) := div_nonneg (abs_nonneg _) (Q_pos dp).le
  have hr := ratio_signed n c e dp
  generalize (Val.fin n c e).toRat / (10 : ℚ) ^ (-dp) = r at *
  generalize |(Val.fin n c e).toRat| / (10 : ℚ) ^ (-dp) = s at *
  cases n
  · simp only [Bool.false_eq_true, if_false] at hr ⊢
    have h0 : 0 ≤ ⌊r⌋ := Int.floor_nonneg.2 (by rw [hr]; exact hs)
    have h3 : ((⌊r⌋.natAbs : Nat) : Int) = ⌊r⌋ := Int.natAbs_of_nonneg h0
    rw [← Int.cast_natCast, h3]
  · simp only [if_true] at hr ⊢
    have h0 : ⌊r⌋ ≤ 0 := by
      have h1 : (⌊r⌋ : ℚ) ≤ r := Int.floor_le r
      have h2 : ((⌊r⌋ : Int) : ℚ) ≤ ((0 : Int) : ℚ) := by push_cast; linarith
      exact_mod_cast h2
    have h3 : ((⌊r⌋.natAbs : Nat) : Int) = -⌊r⌋ := Int.ofNat_natAbs_of_nonpos h0
    rw [← Int.cast_natCast, h3, Int.cast_neg, neg_neg]

/-- the counts the Spec uses are the magnitudes of `⌈±s⌉`, `⌊±s⌋` for a non-integral `s ≥ 0` -/
theorem counts (n : Bool) {s : ℚ} (hs : 0 ≤ s) (hf : s - (⌊s⌋₊ : ℚ) ≠ 0) :
    (⌈(if n then -s else s)⌉.natAbs = if n then ⌊s⌋₊ else ⌊s⌋₊ + 1) ∧
    (⌊(if n then -s else s)⌋.natAbs = if n then ⌊s⌋₊ + 1 else ⌊s⌋₊) := by
  have hce : ⌈s⌉₊ = ⌊s⌋₊ + 1 := ceil_of_frac_ne hs hf
  have h1 : ((⌊s⌋₊ : Nat) : Int) = ⌊s⌋ := Int.natCast_floor_eq_floor hs
  have h2 : ((⌈s⌉₊ : Nat) : Int) = ⌈s⌉ := Int.natCast_ceil_eq_ceil hs
  cases n
  · simp only [Bool.false_eq_true, if_false]
    rw [← h2, ← h1, Int.natAbs_natCast, Int.natAbs_natCast, hce]
    exact ⟨rfl, rfl⟩
  · simp only [if_true]
    rw [Int.ceil_neg, Int.floor_neg, Int.natAbs_neg, Int.natAbs_neg, ← h2, ← h1, Int.natAbs_natCast,
      Int.natAbs_natCast, hce]
    exact ⟨rfl, rfl⟩

theorem frac_ne_of_den {s : ℚ} (h : ¬ s.den = 1) : s - (⌊s⌋₊ : ℚ) ≠ 0 := by
  intro h0
  apply h
  have : s = ((⌊s⌋₊ : Nat) : ℚ) := by linarith
  rw [this]; exact Rat.den_natCast _

/-! ## `Spec.ceilDp` -/

theorem ceilDp_nan (dp : Int) (n : Bool) (p : UInt64) : Spec.ceilDp dp (.nan n p) = .nan n p := rfl
theorem ceilDp_inf (dp : Int) (n : Bool) : Spec.ceilDp dp (.inf n) = .inf n := rfl
theorem ceilDp_zero' (dp : Int) (n : Bool) (e : Int) : Spec.ceilDp dp (.fin n 0 e) = .fin n 0 0 :=
  Qz.ceilDp_zero dp n e

/-- a multiple of the quantum is returned unchanged -/
theorem ceilDp_of_mult (dp : Int) (n : Bool) (c : Nat) (e : Int) (hc : c ≠ 0)
    (h : IsMult (Val.fin n c e).toRat dp) : Spec.ceilDp dp (.fin n c e) = .fin n c e := by
  rw [Qz.ceilDp_val dp n c e (Nat.pos_of_ne_zero hc), if_pos ((den_one_iff_isMult n c e dp).2 h)]

/-- otherwise the result is `|⌈X/Q⌉|` quanta with the sign bit of x -/
theorem ceilDp_round (dp : Int) (n : Bool) (c : Nat) (e : Int) (hc : c ≠ 0)
    (h : ¬ IsMult (Val.fin n c e).toRat dp) :
    Spec.ceilDp dp (.fin n c e) =
      Spec.exactOrInfS n ((⌈(Val.fin n c e).toRat / (10 : ℚ) ^ (-dp)⌉.natAbs : Nat) : ℚ) (-dp) := by
  have hden : ¬ (Qz.sc c e dp).den = 1 := mt (den_one_iff_isMult n c e dp).1 h
  rw [Qz.ceilDp_val dp n c e (Nat.pos_of_ne_zero hc), if_neg hden, ratio_signed n c e dp,
    ← sc_eq n c e dp, (counts n (sc_nonneg c e dp) (frac_ne_of_den hden)).1, floorNat_eq]

/-- a finite result has the sign bit of x and denotes `⌈X/Q⌉·Q` (all finite x, zero included) -/
theorem ceilDp_value (dp : Int) (n : Bool) (c : Nat) (e : Int) {n' : Bool} {c' : Nat} {e' : Int}
    (h : Spec.ceilDp dp (.fin n c e) = .fin n' c' e') :
    n' = n ∧ (Val.fin n' c' e').toRat =
      (⌈(Val.fin n c e).toRat / (10 : ℚ) ^ (-dp)⌉ : ℚ) * (10 : ℚ) ^ (-dp) := by
  have hQ := Q_pos dp
  by_cases hc : c = 0
  · subst hc
    rw [ceilDp_zero'] at h
    injection h with h1 h2 h3
    subst h1 h2 h3
    refine ⟨rfl, ?_⟩
    rw [(toRat_eq_zero_iff n 0 0).2 rfl, (toRat_eq_zero_iff n 0 e).2 rfl]; simp
  · by_cases hm : IsMult (Val.fin n c e).toRat dp
    · rw [ceilDp_of_mult dp n c e hc hm] at h
      injection h with h1 h2 h3
      subst h1 h2 h3
      refine ⟨rfl, ?_⟩
      obtain ⟨z, hz⟩ := hm
      rw [hz, mul_div_assoc, div_self hQ.ne', mul_one, Int.ceil_intCast]
    · rw [ceilDp_round dp n c e hc hm] at h
      obtain ⟨h1, -, h3⟩ := quanta_fin h
      subst h1
      refine ⟨rfl, ?_⟩
      rw [h3, ceil_signed n' c e dp]
      cases n' <;> simp

/-- `Ceil(dp)`: a finite result is the LEAST multiple of `10^(-dp)` that is `≥ x` -/
theorem ceilDp_isLeast (dp : Int) (n : Bool) (c : Nat) (e : Int) {n' : Bool} {c' : Nat} {e' : Int}
    (h : Spec.ceilDp dp (.fin n c e) = .fin n' c' e') :
    IsLeast {y : ℚ | IsMult y dp ∧ (Val.fin n c e).toRat ≤ y} (Val.fin n' c' e').toRat := by
  rw [(ceilDp_value dp n c e h).2]; exact isLeast_ceil _ dp

theorem ceilDp_cases (dp : Int) (n : Bool) (c : Nat) (e : Int) :
    (∃ c' e', Spec.ceilDp dp (.fin n c e) = .fin n c' e') ∨
    (c ≠ 0 ∧ ¬ IsMult (Val.fin n c e).toRat dp ∧ Spec.ceilDp dp (.fin n c e) = .inf n ∧
      ¬ Member (((⌈(Val.fin n c e).toRat / (10 : ℚ) ^ (-dp)⌉.natAbs : Nat) : ℚ) * (10 : ℚ) ^ (-dp))) := by
  by_cases hc : c = 0
  · subst hc; exact Or.inl ⟨0, 0, ceilDp_zero' dp n e⟩
  · by_cases hm : IsMult (Val.fin n c e).toRat dp
    · exact Or.inl ⟨c, e, ceilDp_of_mult dp n c e hc hm⟩
    · rw [ceilDp_round dp n c e hc hm]
      rcases quanta_cases n (⌈(Val.fin n c e).toRat / (10 : ℚ) ^ (-dp)⌉.natAbs) (-dp) with
        ⟨-, hq⟩ | ⟨-, hnm, hq⟩ | ⟨-, -, c', e', hq, -⟩
      · exact Or.inl ⟨0, 0, hq⟩
      · exact Or.inr ⟨hc, hm, hq, hnm⟩
      · exact Or.inl ⟨c', e', hq⟩

/-- the result is never NaN; an infinite result has the sign of x -/
theorem ceilDp_inf_result (dp : Int) (n : Bool) (c : Nat) (e : Int) {n' : Bool}
    (h : Spec.ceilDp dp (.fin n c e) = .inf n') : n' = n := by
  rcases ceilDp_cases dp n c e with ⟨c', e', hr⟩ | ⟨-, -, hr, -⟩
  · rw [hr] at h; cases h
  · rw [hr] at h; injection h with h1; exact h1.symm

/-- the result is `±Inf` exactly when X is not a multiple and the least multiple above is not a member -/
theorem ceilDp_inf_iff (dp : Int) (n : Bool) (c : Nat) (e : Int) (hc : c ≠ 0) :
    Spec.ceilDp dp (.fin n c e) = .inf n ↔
      (¬ IsMult (Val.fin n c e).toRat dp ∧
        ¬ Member (((⌈(Val.fin n c e).toRat / (10 : ℚ) ^ (-dp)⌉.natAbs : Nat) : ℚ) * (10 : ℚ) ^ (-dp))) := by
  constructor
  · intro h
    rcases ceilDp_cases dp n c e with ⟨c', e', hr⟩ | ⟨-, hm, -, hnm⟩
    · rw [hr] at h; cases h
    · exact ⟨hm, hnm⟩
  · rintro ⟨hm, hnm⟩
    rw [ceilDp_round dp n c e hc hm]
    exact (quanta_inf_iff n _ (-dp)).2 hnm

theorem abs_le_max {n : Bool} {c : Nat} {e : Int} (hcm : c ≤ Spec.Cmax) (he : Spec.Emin ≤ e)
    (he2 : e ≤ Spec.Emax) :
    |(Val.fin n c e).toRat| ≤ (Spec.Cmax : ℚ) * (10 : ℚ) ^ Spec.Emax := by
  rw [abs_toRat_fin]; exact member_le_max ⟨c, e, hcm, he, he2, rfl⟩

/-- x a member of the format: `Ceil` overflows exactly when the least multiple `≥ x` exceeds the largest
    finite magnitude (then x > 0 and the result is `+Inf`) -/
theorem ceilDp_member_inf_iff (dp : Int) (n : Bool) (c : Nat) (e : Int) (hc : c ≠ 0)
    (hcm : c ≤ Spec.Cmax) (he : Spec.Emin ≤ e) (he2 : e ≤ Spec.Emax) :
    Spec.ceilDp dp (.fin n c e) = .inf n ↔
      (Spec.Cmax : ℚ) * (10 : ℚ) ^ Spec.Emax <
        (⌈(Val.fin n c e).toRat / (10 : ℚ) ^ (-dp)⌉ : ℚ) * (10 : ℚ) ^ (-dp) := by
  have hQ := Q_pos dp
  have hmax := abs_le_max (n := n) hcm he he2
  have hsgn := ceil_signed n c e dp
  rw [ceilDp_inf_iff dp n c e hc]
  constructor
  · rintro ⟨hm, hnm⟩
    have hlt := lt_of_not_isMult hm
    have hden : ¬ (Qz.sc c e dp).den = 1 := mt (den_one_iff_isMult n c e dp).1 hm
    have hcnt := (counts n (sc_nonneg c e dp) (frac_ne_of_den hden)).1
    rw [sc_eq n c e dp, ← ratio_signed n c e dp] at hcnt
    have hce : ⌈|(Val.fin n c e).toRat| / (10 : ℚ) ^ (-dp)⌉₊ = ⌊|(Val.fin n c e).toRat| / (10 : ℚ) ^ (-dp)⌋₊ + 1 := by
      rw [← sc_eq n c e dp]; exact ceil_of_frac_ne (sc_nonneg c e dp) (frac_ne_of_den hden)
    have hkc : ⌈(Val.fin n c e).toRat / (10 : ℚ) ^ (-dp)⌉.natAbs ≤ c := by
      apply count_le_coef hc hlt
      rw [sc_eq n c e dp, hcnt, hce]
      split <;> omega
    rw [member_quanta_iff (le_trans hkc hcm) (by omega), not_le] at hnm
    cases n
    · rw [hsgn]; simpa using hnm
    · exfalso
      simp only [if_true] at hcnt
      rw [hcnt] at hnm
      have hs : 0 ≤ |(Val.fin true c e).toRat| / (10 : ℚ) ^ (-dp) := div_nonneg (abs_nonneg _) hQ.le
      have hfl := Nat.floor_le hs
      have : ((⌊|(Val.fin true c e).toRat| / (10 : ℚ) ^ (-dp)⌋₊ : Nat) : ℚ) * (10 : ℚ) ^ (-dp) ≤
          |(Val.fin true c e).toRat| := by
        rw [← le_div_iff₀ hQ]; exact hfl
      linarith
  · intro hgt
    have hm : ¬ IsMult (Val.fin n c e).toRat dp := by
      rintro ⟨z, hz⟩
      rw [hz, mul_div_assoc, div_self hQ.ne', mul_one, Int.ceil_intCast, ← hz] at hgt
      have := le_abs_self (Val.fin n c e).toRat
      linarith
    refine ⟨hm, fun hmem => ?_⟩
    have h1 := member_le_max hmem
    cases n
    · rw [hsgn] at hgt; simp only [Bool.false_eq_true, if_false] at hgt; linarith
    · rw [hsgn] at hgt; simp only [if_true] at hgt
      have h2 : (0 : ℚ) ≤ ((⌈(Val.fin true c e).toRat / (10 : ℚ) ^ (-dp)⌉.natAbs : Nat) : ℚ) * (10 : ℚ) ^ (-dp) :=
        mul_nonneg (Nat.cast_nonneg _) hQ.le
      have h3 : (0 : ℚ) ≤ (Spec.Cmax : ℚ) * (10 : ℚ) ^ Spec.Emax := mag_nonneg _ _
      linarith

/-! ## `Spec.floorDp` -/

theorem floorDp_nan (dp : Int) (n : Bool) (p : UInt64) : Spec.floorDp dp (.nan n p) = .nan n p := rfl
theorem floorDp_inf (dp : Int) (n : Bool) : Spec.floorDp dp (.inf n) = .inf n := rfl
theorem floorDp_zero' (dp : Int) (n : Bool) (e : Int) : Spec.floorDp dp (.fin n 0 e) = .fin n 0 0 :=
  Qz.floorDp_zero dp n e

theorem floorDp_of_mult (dp : Int) (n : Bool) (c : Nat) (e : Int) (hc : c ≠ 0)
    (h : IsMult (Val.fin n c e).toRat dp) : Spec.floorDp dp (.fin n c e) = .fin n c e := by
  rw [Qz.floorDp_val dp n c e (Nat.pos_of_ne_zero hc), if_pos ((den_one_iff_isMult n c e dp).2 h)]

/-- otherwise the result is `|⌊X/Q⌋|` quanta with the sign bit of x -/
theorem floorDp_round (dp : Int) (n : Bool) (c : Nat) (e : Int) (hc : c ≠ 0)
    (h : ¬ IsMult (Val.fin n c e).toRat dp) :
    Spec.floorDp dp (.fin n c e) =
      Spec.exactOrInfS n ((⌊(Val.fin n c e).toRat / (10 : ℚ) ^ (-dp)⌋.natAbs : Nat) : ℚ) (-dp) := by
  have hden : ¬ (Qz.sc c e dp).den = 1 := mt (den_one_iff_isMult n c e dp).1 h
  rw [Qz.floorDp_val dp n c e (Nat.pos_of_ne_zero hc), if_neg hden, ratio_signed n c e dp,
    ← sc_eq n c e dp, (counts n (sc_nonneg c e dp) (frac_ne_of_den hden)).2, floorNat_eq]

/-- a finite result has the sign bit of x and denotes `⌊X/Q⌋·Q` (all finite x, zero included) -/
theorem floorDp_value (dp : Int) (n : Bool) (c : Nat) (e : Int) {n' : Bool} {c' : Nat} {e' : Int}
    (h : Spec.floorDp dp (.fin n c e) = .fin n' c' e') :
    n' = n ∧ (Val.fin n' c' e').toRat =
      (⌊(Val.fin n c e).toRat / (10 : ℚ) ^ (-dp)⌋ : ℚ) * (10 : ℚ) ^ (-dp) := by
  have hQ := Q_pos dp
  by_cases hc : c = 0
  · subst hc
    rw [floorDp_zero'] at h
    injection h with h1 h2 h3
    subst h1 h2 h3
    refine ⟨rfl, ?_⟩
    rw [(toRat_eq_zero_iff n 0 0).2 rfl, (toRat_eq_zero_iff n 0 e).2 rfl]; simp
  · by_cases hm : IsMult (Val.fin n c e).toRat dp
    · rw [floorDp_of_mult dp n c e hc hm] at h
      injection h with h1 h2 h3
      subst h1 h2 h3
      refine ⟨rfl, ?_⟩
      obtain ⟨z, hz⟩ := hm
      rw [hz, mul_div_assoc, div_self hQ.ne', mul_one, Int.floor_intCast]
    · rw [floorDp_round dp n c e hc hm] at h
      obtain ⟨h1, -, h3⟩ := quanta_fin h
      subst h1
      refine ⟨rfl, ?_⟩
      rw [h3, floor_signed n' c e dp]
      cases n' <;> simp

/-- `Floor(dp)`: a finite result is the GREATEST multiple of `10^(-dp)` that is `≤ x` -/
theorem floorDp_isGreatest (dp : Int) (n : Bool) (c : Nat) (e : Int) {n' : Bool} {c' : Nat} {e' : Int}
    (h : Spec.floorDp dp (.fin n c e) = .fin n' c' e') :
    IsGreatest {y : ℚ | IsMult y dp ∧ y ≤ (Val.fin n c e).toRat} (Val.fin n' c' e').toRat := by
  rw [(floorDp_value dp n c e h).2]; exact isGreatest_floor _ dp

theorem floorDp_cases (dp : Int) (n : Bool) (c : Nat) (e : Int) :
    (∃ c' e', Spec.floorDp dp (.fin n c e) = .fin n c' e') ∨
    (c ≠ 0 ∧ ¬ IsMult (Val.fin n c e).toRat dp ∧ Spec.floorDp dp (.fin n c e) = .inf n ∧
      ¬ Member (((⌊(Val.fin n c e).toRat / (10 : ℚ) ^ (-dp)⌋.natAbs : Nat) : ℚ) * (10 : ℚ) ^ (-dp))) := by
  by_cases hc : c = 0
  · subst hc; exact Or.inl ⟨0, 0, floorDp_zero' dp n e⟩
  · by_cases hm : IsMult (Val.fin n c e).toRat dp
    · exact Or.inl ⟨c, e, floorDp_of_mult dp n c e hc hm⟩
    · rw [floorDp_round dp n c e hc hm]
      rcases quanta_cases n (⌊(Val.fin n c e).toRat / (10 : ℚ) ^ (-dp)⌋.natAbs) (-dp) with
        ⟨-, hq⟩ | ⟨-, hnm, hq⟩ | ⟨-, -, c', e', hq, -⟩
      · exact Or.inl ⟨0, 0, hq⟩
      · exact Or.inr ⟨hc, hm, hq, hnm⟩
      · exact Or.inl ⟨c', e', hq⟩

theorem floorDp_inf_result (dp : Int) (n : Bool) (c : Nat) (e : Int) {n' : Bool}
    (h : Spec.floorDp dp (.fin n c e) = .inf n') : n' = n := by
  rcases floorDp_cases dp n c e with ⟨c', e', hr⟩ | ⟨-, -, hr, -⟩
  · rw [hr] at h; cases h
  · rw [hr] at h; injection h with h1; exact h1.symm

theorem floorDp_inf_iff (dp : Int) (n : Bool) (c : Nat) (e : Int) (hc : c ≠ 0) :
    Spec.floorDp dp (.fin n c e) = .inf n ↔
      (¬ IsMult (Val.fin n c e).toRat dp ∧
        ¬ Member (((⌊(Val.fin n c e).toRat / (10 : ℚ) ^ (-dp)⌋.natAbs : Nat) : ℚ) * (10 : ℚ) ^ (-dp))) := by
  constructor
  · intro h
    rcases floorDp_cases dp n c e with ⟨c', e', hr⟩ | ⟨-, hm, -, hnm⟩
    · rw [hr] at h; cases h
    · exact ⟨hm, hnm⟩
  · rintro ⟨hm, hnm⟩
    rw [floorDp_round dp n c e hc hm]
    exact (quanta_inf_iff n _ (-dp)).2 hnm

/-- x a member of the format: `Floor` overflows exactly when the greatest multiple `≤ x` lies below the
    most negative finite value (then x < 0 and the result is `−Inf`) -/
theorem floorDp_member_inf_iff (dp : Int) (n : Bool) (c : Nat) (e : Int) (hc : c ≠ 0)
    (hcm : c ≤ Spec.Cmax) (he : Spec.Emin ≤ e) (he2 : e ≤ Spec.Emax) :
    Spec.floorDp dp (.fin n c e) = .inf n ↔
      (⌊(Val.fin n c e).toRat / (10 : ℚ) ^ (-dp)⌋ : ℚ) * (10 : ℚ) ^ (-dp) <
        -((Spec.Cmax : ℚ) * (10 : ℚ) ^ Spec.Emax) := by
  have hQ := Q_pos dp
  have hmax := abs_le_max (n := n) hcm he he2
  have hsgn := floor_signed n c e dp
  rw [floorDp_inf_iff dp n c e hc]
  constructor
  · rintro ⟨hm, hnm⟩
    have hlt := lt_of_not_isMult hm
    have hden : ¬ (Qz.sc c e dp).den = 1 := mt (den_one_iff_isMult n c e dp).1 hm
    have hcnt := (counts n (sc_nonneg c e dp) (frac_ne_of_den hden)).2
    rw [sc_eq n c e dp, ← ratio_signed n c e dp] at hcnt
    have hce : ⌈|(Val.fin n c e).toRat| / (10 : ℚ) ^ (-dp)⌉₊ = ⌊|(Val.fin n c e).toRat| / (10 : ℚ) ^ (-dp)⌋₊ + 1 := by
      rw [← sc_eq n c e dp]; exact ceil_of_frac_ne (sc_nonneg c e dp) (frac_ne_of_den hden)
    have hkc : ⌊(Val.fin n c e).toRat / (10 : ℚ) ^ (-dp)⌋.natAbs ≤ c := by
      apply count_le_coef hc hlt
      rw [sc_eq n c e dp, hcnt, hce]
      split <;> omega
    rw [member_quanta_iff (le_trans hkc hcm) (by omega), not_le] at hnm
    cases n
    · exfalso
      simp only [Bool.false_eq_true, if_false] at hcnt
      rw [hcnt] at hnm
      have hs : 0 ≤ |(Val.fin false c e).toRat| / (10 : ℚ) ^ (-dp) := div_nonneg (abs_nonneg _) hQ.le
      have hfl := Nat.floor_le hs
      have : ((⌊|(Val.fin false c e).toRat| / (10 : ℚ) ^ (-dp)⌋₊ : Nat) : ℚ) * (10 : ℚ) ^ (-dp) ≤
          |(Val.fin false c e).toRat| := by
        rw [← le_div_iff₀ hQ]; exact hfl
      linarith
    · rw [hsgn]; simp only [if_true]; linarith
  · intro hgt
    have hm : ¬ IsMult (Val.fin n c e).toRat dp := by
      rintro ⟨z, hz⟩
      rw [hz, mul_div_assoc, div_self hQ.ne', mul_one, Int.floor_intCast, ← hz] at hgt
      have := neg_abs_le (Val.fin n c e).toRat
      linarith
    refine ⟨hm, fun hmem => ?_⟩
    have h1 := member_le_max hmem
    cases n
    · rw [hsgn] at hgt; simp only [Bool.false_eq_true, if_false] at hgt
      have h2 : (0 : ℚ) ≤ ((⌊(Val.fin false c e).toRat / (10 : ℚ) ^ (-dp)⌋.natAbs : Nat) : ℚ) * (10 : ℚ) ^ (-dp) :=
        mul_nonneg (Nat.cast_nonneg _) hQ.le
      have h3 : (0 : ℚ) ≤ (Spec.Cmax : ℚ) * (10 : ℚ) ^ Spec.Emax := mag_nonneg _ _
      linarith
    · rw [hsgn] at hgt; simp only [if_true] at hgt; linarith

example : Spec.ceilDp 0 (.fin true 5 (-1)) = .fin true 0 0 := by decide +kernel
example : Spec.ceilDp 0 (.fin false 5 (-3)) = .fin false 10000000000000000000000000000000000 (-34) := by
  decide +kernel
example : Spec.floorDp 0 (.fin true 5 (-3)) = .fin true 10000000000000000000000000000000000 (-34) := by
  decide +kernel
example : Spec.ceilDp (-6200) (.fin false 1 0) = .inf false := by decide +kernel

end SpecMeaning
