/-
  D128/Proofs/PowAccDefs.lean — property C18, general path of `Pow`: shared definitions of the accuracy proof
  (D128/Proofs/PowAcc*.lean, D128/Props/C18c.lean).

  * `tolK κ xc xe yc ye`   : the relative tolerance `|y|·(κ·|ln|x|| + 10^-55)`; `tolK (4·10^-37)` is `EnclPf.propTol`
  * `PowGood neg tol T v`  : the value `v` is an acceptable result for the real power `±T` (`T > 0`, sign `neg`)
                             with relative tolerance `tol`: not a `EnclPf.PowViolation`, the infinity of sign `neg`
                             when `T > 10^17000`, the zero of sign `neg` when `T < 10^-17000`
                             (these are exactly the three ways `EnclPf.PowBad` can hold on the general path)
  * `InBand x`             : `1.092 < x < 1.1`: the bases where, BEFORE /repo commit 04f6227 (artanh series of `log` to
                             the 33rd instead of the 25th power), the logarithm was less accurate than half the tolerance of
                             the property; kept for the record, no theorem needs it any more
  * `signed neg T`         : `±T`
-/
import D128.Proofs.EnclosurePow
set_option autoImplicit false

namespace PowAcc
open Spec EnclPf

/-- `±T` -/
noncomputable def signed (neg : Bool) (T : ℝ) : ℝ := if neg then -T else T

/-- the relative tolerance `|y|·(κ·|ln|x|| + 10^-55)` of property C18 with `κ` in place of `4·10^-37` -/
noncomputable def tolK (κ : ℝ) (xc : Nat) (xe : Int) (yc : Nat) (ye : Int) : ℝ :=
  ((yc : ℝ) * (10 : ℝ) ^ ye) * (κ * |Real.log ((xc : ℝ) * (10 : ℝ) ^ xe)| + (10 : ℝ) ^ (-55 : Int))

/-- `v` is an acceptable result for the real power `±T`, `T > 0`, with the relative tolerance `tol` -/
def PowGood (neg : Bool) (tol : ℝ) (T : ℝ) (v : Val) : Prop :=
  ¬ PowViolation tol (signed neg T) v ∧
  ((10 : ℝ) ^ (17000 : ℕ) < T → v.same (.inf neg) = true) ∧
  (T < 1 / (10 : ℝ) ^ (17000 : ℕ) → (v.isZero && v.neg == neg) = true)

/-- the band of bases where the claim of property C18 failed before /repo commit 04f6227 -/
def InBand (x : ℝ) : Prop := 1092 / 1000 < x ∧ x < 11 / 10

end PowAcc
