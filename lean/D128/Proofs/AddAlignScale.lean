/-
  D128/Proofs/AddAlignScale.lean — the scale-up loops of `Gen.Decimal.add` and the alignment of a whole
  half.

  Provided (namespace `AD`):
  * `scaleLoop_spec` : `for c(exp) && sig[1] ≤ K { sig = sig.mul64(10^j); e -= j; exp ± = j }` keeps
                       `sig = a0·10^u`, `e = e0 - u`, `gap = g - u` and stops with `gap < j` or `sig[1] > K`
  * `alignL_spec`    : the half `exp < 0` (`o` has the larger exponent): the epilogue is applied to
                       `oSig·10^u`, `⌊dSig/10^n⌋`, the sticky flag `1` iff `dSig % 10^n ≠ 0`, and the exponent
                       `oExp - u`, where `u + n = oExp - dExp` and `n = 0` or `oSig·10^u ≥ 25·2^120`
  * `alignR_spec`    : the half `exp > 0`, symmetric (sticky flag `-1`)
-/
import D128.Proofs.AddAlign

set_option autoImplicit false
set_option maxRecDepth 4096
set_option linter.unusedVariables false

namespace AD
open Gen

theorem scaleLoop_spec (c : Int16 → Bool) (K M : UInt64) (j : Int16) (fx : Int16 → Int16)
    (nOf : Int16 → Int) (jn : Nat) (hM : M.toNat = 10 ^ jn) (hj : j.toInt = jn) (hjn : 1 ≤ jn)
    (hj8 : jn ≤ 8)
    (hKM : (K.toNat + 1) * 2 ^ 64 * M.toNat ≤ 2 ^ 128)
    (hc : ∀ x : Int16, c x = true → (jn : Int) ≤ nOf x)
    (hc' : ∀ x : Int16, c x = false → nOf x < jn)
    (hfx : ∀ x : Int16, (jn : Int) ≤ nOf x → nOf x ≤ 12287 → nOf (fx x) = nOf x - jn)
    (a0 : Nat) (e0 : Int) (g : Nat) (hg : g ≤ 12287) (he0 : 0 ≤ e0 - g) (he1 : e0 ≤ 12287)
    (s : S3) (u : Nat)
    (hinv : u ≤ g ∧ s.1.toNat = a0 * 10 ^ u ∧ s.2.1.toInt = e0 - u ∧ nOf s.2.2 = (g : Int) - u) :
    ∃ (s' : S3) (u' : Nat), scaleLoop c K M j fx s = .ok s' ∧
      (u' ≤ g ∧ s'.1.toNat = a0 * 10 ^ u' ∧ s'.2.1.toInt = e0 - u' ∧ nOf s'.2.2 = (g : Int) - u') ∧
      ((g : Int) - u' < jn ∨ K.toNat < s'.1.w1.toNat) := by
  unfold scaleLoop
  have key := RK.loop_inv (scaleBody c K M j fx)
    (fun s : S3 => ∃ u : Nat, u ≤ g ∧ s.1.toNat = a0 * 10 ^ u ∧ s.2.1.toInt = e0 - u ∧
      nOf s.2.2 = (g : Int) - u)
    (fun s' : S3 => ∃ u' : Nat, (u' ≤ g ∧ s'.1.toNat = a0 * 10 ^ u' ∧ s'.2.1.toInt = e0 - u' ∧
      nOf s'.2.2 = (g : Int) - u') ∧ ((g : Int) - u' < jn ∨ K.toNat < s'.1.w1.toNat))
    (fun s : S3 => (nOf s.2.2).toNat) ?_ s ⟨u, hinv⟩
  · obtain ⟨s', e, u', h1, h2⟩ := key
    exact ⟨s', u', e, h1, h2⟩
  intro b ⟨u, hu, hsig, he, hn⟩
  by_cases hcond : (c b.2.2 && decide (b.1.w1 ≤ K)) = true
  · left
    rw [Bool.and_eq_true, decide_eq_true_eq, UInt64.le_iff_toNat_le] at hcond
    obtain ⟨hcb, hw1⟩ := hcond
    have hjle := hc _ hcb
    have hw0 := b.1.w0.toNat_lt
    have hsm : b.1.toNat * M.toNat < 2 ^ 128 := by
      have h1 : b.1.toNat < (K.toNat + 1) * 2 ^ 64 := by
        simp only [U128.toNat]
        have : b.1.w1.toNat * 2 ^ 64 ≤ K.toNat * 2 ^ 64 := Nat.mul_le_mul_right _ hw1
        have e : (K.toNat + 1) * 2 ^ 64 = K.toNat * 2 ^ 64 + 2 ^ 64 := by ring
        omega
      have hMpos : 0 < M.toNat := by rw [hM]; positivity
      calc b.1.toNat * M.toNat < (K.toNat + 1) * 2 ^ 64 * M.toNat :=
            Nat.mul_lt_mul_of_pos_right h1 hMpos
        _ ≤ 2 ^ 128 := hKM
    refine ⟨(U128.mul64 b.1 M, b.2.1 - j, fx b.2.2), ?_, ⟨u + jn, by omega, ?_, ?_, ?_⟩, ?_⟩
    · simp only [scaleBody, hcb, hw1, Bool.true_and, decide_true, if_true, UInt64.le_iff_toNat_le]
      rfl
    · show (U128.mul64 b.1 M).toNat = _
      rw [U128_mul64_toNat_of_lt _ _ hsm, hsig, hM, pow_add, Nat.mul_assoc]
    · show (b.2.1 - j).toInt = _
      rw [i16_sub _ _ (by omega) (by omega), he, hj]; push_cast; ring
    · show nOf (fx b.2.2) = _
      rw [hfx _ hjle (by omega), hn]; push_cast; ring
    · show (nOf (fx b.2.2)).toNat < (nOf b.2.2).toNat
      rw [hfx _ hjle (by omega)]; omega
  · right
    refine ⟨(b.1, b.2.1, b.2.2), ?_, u, ⟨hu, hsig, he, hn⟩, ?_⟩
    · simp only [scaleBody, hcond]; rfl
    · rw [Bool.and_eq_true, decide_eq_true_eq, UInt64.le_iff_toNat_le, not_and_or] at hcond
      rcases hcond with h | h
      · left
        have := hc' b.2.2 (by simpa using h)
        rw [hn] at this; exact this
      · right
        show K.toNat < b.1.w1.toNat
        omega

/-- what a half needs to know about its gap counter `exp` (`nOf exp` is the number of digits the
    exponents still differ by) -/
structure Dir (nOf : Int16 → Int) (c4 c1 : Int16 → Bool) (f4 f1 : Int16 → Int16) : Prop where
  c4t : ∀ x : Int16, c4 x = true → ((4 : Nat) : Int) ≤ nOf x
  c4f : ∀ x : Int16, c4 x = false → nOf x < ((4 : Nat) : Int)
  c1t : ∀ x : Int16, c1 x = true → ((1 : Nat) : Int) ≤ nOf x
  c1f : ∀ x : Int16, c1 x = false → nOf x < ((1 : Nat) : Int)
  f4s : ∀ x : Int16, ((4 : Nat) : Int) ≤ nOf x → nOf x ≤ 12287 → nOf (f4 x) = nOf x - ((4 : Nat) : Int)
  f1s : ∀ x : Int16, ((1 : Nat) : Int) ≤ nOf x → nOf x ≤ 12287 → nOf (f1 x) = nOf x - ((1 : Nat) : Int)

theorem dirL : Dir (fun x => -x.toInt) (fun e => decide (e ≤ -4)) (fun e => decide (e < 0))
    (fun e => e + 4) (fun e => e + 1) := by
  have h4 : (-4 : Int16).toInt = -4 := rfl
  have h0 : (0 : Int16).toInt = 0 := rfl
  have p4 : (4 : Int16).toInt = 4 := rfl
  have p1 : (1 : Int16).toInt = 1 := rfl
  refine ⟨?_, ?_, ?_, ?_, ?_, ?_⟩
  · intro x h; rw [i16_le_iff, h4] at h; omega
  · intro x h
    have : ¬ (x.toInt ≤ (-4 : Int16).toInt) := by rw [← i16_le_iff]; simp [h]
    omega
  · intro x h; rw [i16_lt_iff, h0] at h; omega
  · intro x h
    have : ¬ (x.toInt < (0 : Int16).toInt) := by rw [← i16_lt_iff]; simp [h]
    omega
  · intro x h1 h2
    rw [i16_add _ _ (by omega) (by omega), p4]; omega
  · intro x h1 h2
    rw [i16_add _ _ (by omega) (by omega), p1]; omega

theorem dirR : Dir (fun x => x.toInt) (fun e => decide (e ≥ 4)) (fun e => decide (e > 0))
    (fun e => e - 4) (fun e => e - 1) := by
  have h0 : (0 : Int16).toInt = 0 := rfl
  have p4 : (4 : Int16).toInt = 4 := rfl
  have p1 : (1 : Int16).toInt = 1 := rfl
  refine ⟨?_, ?_, ?_, ?_, ?_, ?_⟩
  · intro x h; rw [i16_ge_iff, p4] at h; omega
  · intro x h
    have : ¬ ((4 : Int16).toInt ≤ x.toInt) := by rw [← i16_ge_iff]; simp [h]
    omega
  · intro x h; rw [i16_gt_iff, h0] at h; omega
  · intro x h
    have : ¬ ((0 : Int16).toInt < x.toInt) := by rw [← i16_gt_iff]; simp [h]
    omega
  · intro x h1 h2
    rw [i16_sub _ _ (by omega) (by omega), p4]; omega
  · intro x h1 h2
    rw [i16_sub _ _ (by omega) (by omega), p1]; omega

/-- the two scale-up loops of a half -/
theorem scale2_spec {α : Type} (nOf : Int16 → Int) (c4 c1 : Int16 → Bool) (f4 f1 : Int16 → Int16)
    (hdir : Dir nOf c4 c1 f4 f1) (k : U128 → Int16 → Int16 → Go.GoM α)
    (a0 : Nat) (e0 : Int) (g : Nat) (hg : g ≤ 12287) (he0 : 0 ≤ e0 - g) (he1 : e0 ≤ 12287)
    (sig : U128) (e exp : Int16) (u0 : Nat)
    (hinv : u0 ≤ g ∧ sig.toNat = a0 * 10 ^ u0 ∧ e.toInt = e0 - u0 ∧ nOf exp = (g : Int) - u0) :
    ∃ (sig' : U128) (e' exp' : Int16) (u : Nat), u ≤ g ∧ sig'.toNat = a0 * 10 ^ u ∧ e'.toInt = e0 - u ∧
      nOf exp' = (g : Int) - u ∧ (u = g ∨ 25 * 2 ^ 120 ≤ sig'.toNat) ∧
      scale2 c4 c1 f4 f1 k sig e exp = k sig' e' exp' := by
  obtain ⟨s1, u1, eq1, hinv1, _⟩ := scaleLoop_spec c4 703687441776639 10000 4 f4 nOf 4 (by decide) rfl
    (by omega) (by omega) (by decide) hdir.c4t hdir.c4f hdir.f4s a0 e0 g hg he0 he1 (sig, e, exp) u0 hinv
  obtain ⟨s2, u2, eq2, hinv2, hstop⟩ := scaleLoop_spec c1 1801439850948198399 10 1 f1 nOf 1 (by decide) rfl
    (by omega) (by omega) (by decide) hdir.c1t hdir.c1f hdir.f1s a0 e0 g hg he0 he1
    (s1.1, s1.2.1, s1.2.2) u1 hinv1
  refine ⟨s2.1, s2.2.1, s2.2.2, u2, hinv2.1, hinv2.2.1, hinv2.2.2.1, hinv2.2.2.2, ?_, ?_⟩
  · rcases hstop with h | h
    · left; omega
    · right
      have hk : (1801439850948198399 : UInt64).toNat = 1801439850948198399 := rfl
      rw [hk] at h
      simp only [U128.toNat]
      omega
  · simp only [scale2, eq1, eq2, RK.ok_bind]

/-- **alignment, half `exp < 0`** (`o` has the larger exponent): `oSig` is scaled up by `10^u`, `dSig` is
    truncated by `10^n` with sticky flag `+1`, `u + n = oExp - dExp`, and either nothing is truncated
    (`n = 0`) or the scaled-up operand is at least `25·2^120`; the common exponent is `oExp - u`. -/
theorem alignL_spec {α : Type} (K : U128 → Int16 → U128 → Int8 → Go.GoM α) (dSig : U128) (dExp : Int16)
    (oSig : U128) (oExp exp : Int16) (g : Nat)
    (hd0 : 0 < dSig.toNat) (hd1 : dSig.toNat < 10 ^ 35)
    (hde : 0 ≤ dExp.toInt) (hoe : oExp.toInt ≤ 12287) (hg : oExp.toInt - dExp.toInt = g)
    (hexp : exp.toInt = -(g : Int)) :
    ∃ (dS' : U128) (E' : Int16) (oS' : U128) (t' : Int8) (u n : Nat), u + n = g ∧
      oS'.toNat = oSig.toNat * 10 ^ u ∧ (n = 0 ∨ 25 * 2 ^ 120 ≤ oS'.toNat) ∧
      dS'.toNat = dSig.toNat / 10 ^ n ∧ t' = (if dSig.toNat % 10 ^ n ≠ 0 then (1 : Int8) else 0) ∧
      E'.toInt = oExp.toInt - u ∧
      alignL K dSig dExp oSig oExp exp = K dS' E' oS' t' := by
  have hg' : g ≤ 12287 := by omega
  -- the continuation after the scale-up loops
  have hk : ∀ (oS' : U128) (oE' x' : Int16) (u : Nat), u ≤ g → oS'.toNat = oSig.toNat * 10 ^ u →
      oE'.toInt = oExp.toInt - u → -x'.toInt = (g : Int) - u → (u = g ∨ 25 * 2 ^ 120 ≤ oS'.toNat) →
      ∃ (dS' : U128) (E' : Int16) (oS'' : U128) (t' : Int8) (u n : Nat), u + n = g ∧
        oS''.toNat = oSig.toNat * 10 ^ u ∧ (n = 0 ∨ 25 * 2 ^ 120 ≤ oS''.toNat) ∧
        dS'.toNat = dSig.toNat / 10 ^ n ∧ t' = (if dSig.toNat % 10 ^ n ≠ 0 then (1 : Int8) else 0) ∧
        E'.toInt = oExp.toInt - u ∧
        ladderL (fun dS dE t => K dS dE oS' t) oE' dSig dExp x' 0 = K dS' E' oS'' t' := by
    intro oS' oE' x' u hu hs he hx hstop
    obtain ⟨dS', t', h1, h2, h3⟩ := ladderL_spec (fun dS dE t => K dS dE oS' t) oE' (g - u) (by omega)
      (by omega) (by omega) dSig dExp x' hd0 hd1 (by omega) (by omega)
    refine ⟨dS', oE', oS', t', u, g - u, by omega, hs, ?_, h1, h2, he, h3⟩
    rcases hstop with h | h
    · left; omega
    · right; exact h
  unfold alignL
  simp only []
  by_cases h19 : (decide (exp ≤ -19) && oSig.w1 == 0) = true
  · rw [if_pos h19]
    rw [Bool.and_eq_true, i16_le_iff, hexp, beq_iff_eq] at h19
    obtain ⟨hge, hw1⟩ := h19
    have h19' : (-19 : Int16).toInt = -19 := rfl
    have p19 : (19 : Int16).toInt = 19 := rfl
    have hM : (10000000000000000000 : UInt64).toNat = 10 ^ 19 := rfl
    have hw0 := oSig.w0.toNat_lt
    have hsmall : oSig.toNat < 2 ^ 64 := by
      simp only [U128.toNat, hw1]; simp; exact hw0
    have hmul : (U128.mul64 oSig 10000000000000000000).toNat = oSig.toNat * 10 ^ 19 := by
      rw [U128_mul64_toNat_of_lt _ _ (by rw [hM]; omega), hM]
    obtain ⟨s', e', x', u, hu, hs, he, hx, hstop, eq⟩ := scale2_spec (fun x => -x.toInt) _ _ _ _ dirL
      (fun oSig oExp exp => ladderL (fun dS dE t => K dS dE oSig t) oExp dSig dExp exp 0)
      oSig.toNat oExp.toInt g hg' (by omega) hoe
      (U128.mul64 oSig 10000000000000000000) (oExp - 19) (exp + 19) 19
      ⟨by omega, hmul, by rw [i16_sub _ _ (by omega) (by omega), p19]; push_cast; ring,
        by rw [i16_add _ _ (by omega) (by omega), p19, hexp]; push_cast; ring⟩
    rw [eq]
    exact hk s' e' x' u hu hs he hx hstop
  · rw [if_neg h19]
    obtain ⟨s', e', x', u, hu, hs, he, hx, hstop, eq⟩ := scale2_spec (fun x => -x.toInt) _ _ _ _ dirL
      (fun oSig oExp exp => ladderL (fun dS dE t => K dS dE oSig t) oExp dSig dExp exp 0)
      oSig.toNat oExp.toInt g hg' (by omega) hoe oSig oExp exp 0
      ⟨by omega, by simp, by simp, by rw [hexp]; push_cast; ring⟩
    rw [eq]
    exact hk s' e' x' u hu hs he hx hstop

/-- **alignment, half `exp > 0`** (`d` has the larger exponent): `dSig` is scaled up by `10^u`, `oSig` is
    truncated by `10^n` with sticky flag `-1`; the common exponent is `dExp - u`. -/
theorem alignR_spec {α : Type} (K : U128 → Int16 → U128 → Int8 → Go.GoM α) (dSig : U128) (dExp : Int16)
    (oSig : U128) (oExp exp : Int16) (g : Nat)
    (ho0 : 0 < oSig.toNat) (ho1 : oSig.toNat < 10 ^ 35)
    (hoe : 0 ≤ oExp.toInt) (hde : dExp.toInt ≤ 12287) (hg : dExp.toInt - oExp.toInt = g)
    (hexp : exp.toInt = (g : Int)) :
    ∃ (dS' : U128) (E' : Int16) (oS' : U128) (t' : Int8) (u n : Nat), u + n = g ∧
      dS'.toNat = dSig.toNat * 10 ^ u ∧ (n = 0 ∨ 25 * 2 ^ 120 ≤ dS'.toNat) ∧
      oS'.toNat = oSig.toNat / 10 ^ n ∧ t' = (if oSig.toNat % 10 ^ n ≠ 0 then (-1 : Int8) else 0) ∧
      E'.toInt = dExp.toInt - u ∧
      alignR K dSig dExp oSig exp = K dS' E' oS' t' := by
  have hg' : g ≤ 12287 := by omega
  have hk : ∀ (dS' : U128) (dE' x' : Int16) (u : Nat), u ≤ g → dS'.toNat = dSig.toNat * 10 ^ u →
      dE'.toInt = dExp.toInt - u → x'.toInt = (g : Int) - u → (u = g ∨ 25 * 2 ^ 120 ≤ dS'.toNat) →
      ∃ (dS'' : U128) (E' : Int16) (oS' : U128) (t' : Int8) (u n : Nat), u + n = g ∧
        dS''.toNat = dSig.toNat * 10 ^ u ∧ (n = 0 ∨ 25 * 2 ^ 120 ≤ dS''.toNat) ∧
        oS'.toNat = oSig.toNat / 10 ^ n ∧ t' = (if oSig.toNat % 10 ^ n ≠ 0 then (-1 : Int8) else 0) ∧
        E'.toInt = dExp.toInt - u ∧
        ladderR (fun oS t => K dS' dE' oS t) oSig x' 0 = K dS'' E' oS' t' := by
    intro dS' dE' x' u hu hs he hx hstop
    obtain ⟨oS', t', h1, h2, h3⟩ := ladderR_spec (fun oS t => K dS' dE' oS t) (g - u) (by omega)
      oSig x' ho0 ho1 (by omega)
    refine ⟨dS', dE', oS', t', u, g - u, by omega, hs, ?_, h1, h2, he, h3⟩
    rcases hstop with h | h
    · left; omega
    · right; exact h
  unfold alignR
  simp only []
  by_cases h19 : (decide (exp ≥ 19) && dSig.w1 == 0) = true
  · rw [if_pos h19]
    rw [Bool.and_eq_true, i16_ge_iff, hexp, beq_iff_eq] at h19
    obtain ⟨hge, hw1⟩ := h19
    have p19 : (19 : Int16).toInt = 19 := rfl
    have hM : (10000000000000000000 : UInt64).toNat = 10 ^ 19 := rfl
    have hw0 := dSig.w0.toNat_lt
    have hsmall : dSig.toNat < 2 ^ 64 := by
      simp only [U128.toNat, hw1]; simp; exact hw0
    have hmul : (U128.mul64 dSig 10000000000000000000).toNat = dSig.toNat * 10 ^ 19 := by
      rw [U128_mul64_toNat_of_lt _ _ (by rw [hM]; omega), hM]
    obtain ⟨s', e', x', u, hu, hs, he, hx, hstop, eq⟩ := scale2_spec (fun x => x.toInt) _ _ _ _ dirR
      (fun dSig dExp exp => ladderR (fun oS t => K dSig dExp oS t) oSig exp 0)
      dSig.toNat dExp.toInt g hg' (by omega) hde
      (U128.mul64 dSig 10000000000000000000) (dExp - 19) (exp - 19) 19
      ⟨by omega, hmul, by rw [i16_sub _ _ (by omega) (by omega), p19]; push_cast; ring,
        by rw [i16_sub _ _ (by omega) (by omega), p19, hexp]; push_cast; ring⟩
    rw [eq]
    exact hk s' e' x' u hu hs he hx hstop
  · rw [if_neg h19]
    obtain ⟨s', e', x', u, hu, hs, he, hx, hstop, eq⟩ := scale2_spec (fun x => x.toInt) _ _ _ _ dirR
      (fun dSig dExp exp => ladderR (fun oS t => K dSig dExp oS t) oSig exp 0)
      dSig.toNat dExp.toInt g hg' (by omega) hde dSig dExp exp 0
      ⟨by omega, by simp, by simp, by rw [hexp]; push_cast; ring⟩
    rw [eq]
    exact hk s' e' x' u hu hs he hx hstop

/-- the hypotheses of `alignL_spec` are satisfiable: `5·10^-76 + 7` (a gap of 76 digits) -/
example := alignL_spec (α := Decimal) (fun _ _ _ _ => pure default) ⟨5, 0⟩ 6100 ⟨7, 0⟩ 6176 (6100 - 6176) 76
  (by decide) (by simp [U128.toNat]) (by decide) (by decide) (by decide) (by decide)

end AD
