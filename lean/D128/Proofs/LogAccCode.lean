/-
  D128/Proofs/LogAccCode.lean — `log_code_spec`: what `Gen.decomposed192.log` computes, in ℚ (no panic,
  termination, no `int16` wrap), assembled from `log_prefix`, `logReduce_spec`, `logSeries_spec`, `logTail_spec`.

  For `d.sig ≠ 0`, `|d.exp| ≤ 16000`:  `log d = .ok (neg, x, t)` and there are
    `e0 : ℤ`, `M ∈ [10,99]`, `v ∈ [1,10)` with `val d = v·10^e0`, `M = ⌊10v⌋`            (argument decomposition)
    `v2` with `1 ≤ v2 ≤ q := 10v/M`, `q(1 - [M≠10]·lam) ≤ v2`                            (first reduction)
    `f ≥ 0` with `z(1-lam) ≤ f ≤ z(1+eps)/(1-lam)`, `z = (v2-1)/(v2+1)`, `f ≤ 1/20`       (the quotient)
    `R` with `Sj f 16·(1-lam)^50 ≤ R ≤ Sj f 16`                                          (the series)
    `neg = (e0 < 0)`, `|val x − |B|| ≤ lam·(4(|e0|·ln10v + 2R) + lnM M)`,
    `B = 2R + |e0|·ln10v + lnM M` (`e0 ≥ 0`), `|e0|·ln10v − 2R − lnM M` (`e0 < 0`)        (the tail)
  * `Sj_le_two_mul` : `0 ≤ f ≤ 1/20 → Sj f j ≤ 2f`
-/
import D128.Proofs.LogAccTail
set_option autoImplicit false
set_option maxRecDepth 4096
set_option linter.unusedVariables false
namespace LogAcc
open Gen D192 Root

theorem Sj_le_aux (f : ℚ) (hf0 : 0 ≤ f) (hf : f ≤ 1 / 20) : ∀ j, Sj f j ≤ f * (2 - (1 / 2) ^ j)
  | 0 => by unfold Sj; norm_num
  | j + 1 => by
      unfold Sj
      have ih := Sj_le_aux f hf0 hf j
      have hsq : f ^ 2 ≤ 1 / 2 := by nlinarith
      have hsq0 : 0 ≤ f ^ 2 := by positivity
      have hp : (f ^ 2) ^ (j + 1) ≤ (1 / 2) ^ (j + 1) := pow_le_pow_left₀ hsq0 hsq _
      have hp0 : 0 ≤ (f ^ 2) ^ (j + 1) := by positivity
      have hden : (1 : ℚ) ≤ ((2 * (j + 1) + 1 : Nat) : ℚ) := by
        have : 1 ≤ 2 * (j + 1) + 1 := by omega
        exact_mod_cast this
      have hterm : f * (f ^ 2) ^ (j + 1) / ((2 * (j + 1) + 1 : Nat) : ℚ) ≤ f * (1 / 2) ^ (j + 1) := by
        calc f * (f ^ 2) ^ (j + 1) / ((2 * (j + 1) + 1 : Nat) : ℚ) ≤ f * (f ^ 2) ^ (j + 1) / 1 :=
              div_le_div_of_nonneg_left (by positivity) (by norm_num) hden
          _ = f * (f ^ 2) ^ (j + 1) := by ring
          _ ≤ f * (1 / 2) ^ (j + 1) := mul_le_mul_of_nonneg_left hp hf0
      have e : f * (2 - (1 / 2) ^ (j + 1)) = f * (2 - (1 / 2) ^ j) + f * (1 / 2) ^ (j + 1) := by
        rw [pow_succ]; ring
      rw [e]; linarith

theorem Sj_le_two_mul (f : ℚ) (hf0 : 0 ≤ f) (hf : f ≤ 1 / 20) (j : Nat) : Sj f j ≤ 2 * f := by
  have := Sj_le_aux f hf0 hf j
  have hp : 0 ≤ (1 / 2 : ℚ) ^ j := by positivity
  nlinarith

/-- sharper: `Sj f j ≤ f·(1 + (1 − 400^-j)/399) ≤ 1.01·f` for `f ≤ 1/20` -/
theorem Sj_le_aux2 (f : ℚ) (hf0 : 0 ≤ f) (hf : f ≤ 1 / 20) :
    ∀ j, Sj f j ≤ f * (1 + (1 - (1 / 400) ^ j) / 399)
  | 0 => by unfold Sj; norm_num
  | j + 1 => by
      unfold Sj
      have ih := Sj_le_aux2 f hf0 hf j
      have hsq : f ^ 2 ≤ 1 / 400 := by nlinarith
      have hsq0 : 0 ≤ f ^ 2 := by positivity
      have hp : (f ^ 2) ^ (j + 1) ≤ (1 / 400) ^ (j + 1) := pow_le_pow_left₀ hsq0 hsq _
      have hden : (1 : ℚ) ≤ ((2 * (j + 1) + 1 : Nat) : ℚ) := by
        have : 1 ≤ 2 * (j + 1) + 1 := by omega
        exact_mod_cast this
      have hterm : f * (f ^ 2) ^ (j + 1) / ((2 * (j + 1) + 1 : Nat) : ℚ) ≤ f * (1 / 400) ^ (j + 1) := by
        calc f * (f ^ 2) ^ (j + 1) / ((2 * (j + 1) + 1 : Nat) : ℚ) ≤ f * (f ^ 2) ^ (j + 1) / 1 :=
              div_le_div_of_nonneg_left (by positivity) (by norm_num) hden
          _ = f * (f ^ 2) ^ (j + 1) := by ring
          _ ≤ f * (1 / 400) ^ (j + 1) := mul_le_mul_of_nonneg_left hp hf0
      have e : f * (1 + (1 - (1 / 400) ^ (j + 1)) / 399)
          = f * (1 + (1 - (1 / 400) ^ j) / 399) + f * (1 / 400) ^ (j + 1) := by
        rw [pow_succ]; ring
      rw [e]; linarith

theorem Sj_le_101 (f : ℚ) (hf0 : 0 ≤ f) (hf : f ≤ 1 / 20) (j : Nat) : Sj f j ≤ 101 / 100 * f := by
  have := Sj_le_aux2 f hf0 hf j
  have hp : 0 ≤ (1 / 400 : ℚ) ^ j := by positivity
  nlinarith

/-- **What `decomposed192.log` computes** (rational arithmetic). -/
theorem log_code_spec (d : decomposed192) (hd : d.sig.toNat ≠ 0)
    (he : -16000 ≤ d.exp.toInt ∧ d.exp.toInt ≤ 16000) :
    ∃ (neg : Bool) (x : decomposed192) (t : Int8) (e0 : Int) (M : Int64) (v v2 f R : ℚ),
      Gen.decomposed192.log d = .ok (neg, x, t) ∧ flag3 t ∧ -5930 ≤ x.exp.toInt ∧ x.exp.toInt ≤ 5500 ∧
      val d = v * (10 : ℚ) ^ e0 ∧ -16000 ≤ e0 ∧ e0 ≤ 16057 ∧ 10 ≤ M.toInt ∧ M.toInt ≤ 99 ∧
      (M.toInt : ℚ) ≤ 10 * v ∧ 10 * v < (M.toInt : ℚ) + 1 ∧
      1 ≤ v2 ∧ v2 ≤ 10 * v / (M.toInt : ℚ) ∧
      10 * v / (M.toInt : ℚ) * (1 - (if M.toInt = 10 then 0 else lam)) ≤ v2 ∧
      0 ≤ f ∧ f ≤ 1 / 20 ∧ (v2 - 1) / (v2 + 1) * (1 - lam) ≤ f ∧
      f ≤ (v2 - 1) / (v2 + 1) * ((1 + Root.eps) / (1 - lam)) ∧
      Sj f 16 * (1 - lam) ^ 50 ≤ R ∧ R ≤ Sj f 16 ∧
      neg = decide (e0 < 0) ∧
      |val x - (|if e0 < 0 then (e0.natAbs : ℚ) * ln10v - 2 * R - lnM M
                 else 2 * R + (e0.natAbs : ℚ) * ln10v + lnM M|)|
        ≤ lam * (4 * ((e0.natAbs : ℚ) * ln10v + 2 * R) + lnM M) := by
  obtain ⟨L, M, d1, e0, hlog, hL, he0, hM0, hM1, hvd, hMlo, hMhi, hL1, hd1e0, hd1e1⟩ := log_prefix d hd he
  obtain ⟨d2, t2, hred, ht2, h21, h22, h23, h2e0, h2e1⟩ :=
    logReduce_spec d1 M hM0 hM1 hMlo hMhi hL1 hd1e0 hd1e1
  have hMq : (10 : ℚ) ≤ (M.toInt : ℚ) := by exact_mod_cast hM0
  have hMpos : (0 : ℚ) < (M.toInt : ℚ) := by linarith
  have hq_hi : 10 * val d1 / (M.toInt : ℚ) < 11 / 10 := by
    rw [div_lt_iff₀ hMpos]; linarith
  have hv2_hi : val d2 < 11 / 10 := lt_of_le_of_lt h22 hq_hi
  have hft2 : flag3 t2 := by
    rcases ht2 with h | h
    · rw [h]; exact flag3_zero
    · rw [h]; exact flag3_one
  obtain ⟨res, t, f, hser, ht, hf0, hf1, hf2, hR1, hR2, hre0, hre1⟩ :=
    logSeries_spec d2 t2 hft2 h21 hv2_hi h2e0 h2e1
  -- f ≤ 1/20
  have hu0 := one_sub_lam_pos
  have hl := lam_pos
  have hz : (val d2 - 1) / (val d2 + 1) ≤ 1 / 21 := by
    rw [div_le_div_iff₀ (by linarith) (by norm_num)]; linarith
  have hz0 : 0 ≤ (val d2 - 1) / (val d2 + 1) := div_nonneg (by linarith) (by linarith)
  have hfac : (1 + Root.eps) / (1 - lam) ≤ 21 / 20 := by
    rw [div_le_iff₀ hu0]
    have h1 : lam ≤ 1 / (6 * 10 ^ 56) := lam_le
    have h2 : Root.eps ≤ 1 / 10 ^ 55 := by unfold Root.eps; norm_num
    nlinarith
  have hfac0 : 0 ≤ (1 + Root.eps) / (1 - lam) :=
    div_nonneg (by have := Root.eps_pos; linarith) hu0.le
  have hf20 : f ≤ 1 / 20 := by
    calc f ≤ (val d2 - 1) / (val d2 + 1) * ((1 + Root.eps) / (1 - lam)) := hf2
      _ ≤ 1 / 21 * (21 / 20) := mul_le_mul hz hfac hfac0 (by norm_num)
      _ = 1 / 20 := by norm_num
  have hRle : val res ≤ 1 / 10 := by
    have := Sj_le_two_mul f hf0 hf20 16
    linarith
  obtain ⟨neg, x, t', htail, ht', hneg, hx, hxe0, hxe1⟩ :=
    logTail_spec e0 M res t ht (by omega) hM0 hM1 hRle hre0 hre1
  refine ⟨neg, x, t', e0.toInt, M, val d1, val d2, f, val res, ?_, ht', hxe0, hxe1, hvd, by omega, by omega,
    hM0, hM1, hMlo, hMhi, h21, h22, h23, hf0, hf20, hf1, hf2, hR1, hR2, hneg, hx⟩
  rw [hlog]
  unfold logMain
  simp only [hred, hser, bind, Except.bind]
  exact htail

end LogAcc
