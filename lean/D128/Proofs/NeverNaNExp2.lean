/-
  D128/Proofs/NeverNaNExp2.lean — property C15, clause "never yields NaN from finite operands": `Exp2`, for
  ALL bit patterns and EVERY value of `DefaultRoundingMode`.  Structural argument over the staged form
  `Total.exp2Staged` (D128/Proofs/TotalExp2.lean, `Exp2_eq := rfl`):
  `exp2Split` (integer / fraction split) → `exp2Pow` (`2^int` as a working number) → `exp2Tail`
  (`epow`, product, reciprocal, `reduce192`, `compose`).

  Provided (namespace `NN`):
  * `PotInv`, `exp2Pow_tripleQ` : `exp2Pow` with an arbitrary postcondition `Q` of the continuation; the
        continuation is entered with `sigInt ≠ 0` (when the integer part is non-zero) and
        `0 ≤ expInt ≤ 20678` (no `int16` wrap in the two scaling loops)
  * `mul_facts`                 : non-zero factors, exponents away from the wrap: the product is non-zero and
        its exponent is `a.exp + b.exp + k`, `0 ≤ k ≤ 58`
  * `exp2Tail_not_nan`          : no result of the last stage is a NaN
  * `Exp2_fin_not_nan`          : finite non-zero `d`: no result of `Gen.Exp2 g d` is a NaN
  * `Exp2_isNaN`                : every `d`, every `g`: `Gen.Exp2 g d` returns and the result is a NaN iff `d` is
-/
import D128.Proofs.TotalExp2
import D128.Proofs.NeverNaNExp
set_option autoImplicit false
set_option mvcgen.warning false
set_option exponentiation.threshold 512
set_option maxRecDepth 16384
set_option linter.unusedVariables false
open Std.Do D128.Proofs.WordsWide D128.Proofs.Total

namespace NN
open Gen PowPf

local notation "𝔳[" d "]" => Spec.interp (Gen.Decimal.lo d) (Gen.Decimal.hi d)

/-- bound on the decimal exponent accumulated while `2^shift` is brought into 192 bits -/
def PotInv (s : Nat) (e : Int) : Prop :=
  0 ≤ e ∧ ((s < 2^192 ∧ e ≤ 20678) ∨ (s < 2^192 * 10^19 ∧ e ≤ 20659) ∨ e ≤ 20640)

theorem i16_add19 (x : Int16) (h0 : -32768 ≤ x.toInt) (h1 : x.toInt ≤ 30000) : (x + 19).toInt = x.toInt + 19 := by
  have : (19 : Int16).toInt = 19 := by decide
  rw [Int16.toInt_add_of] <;> rw [this] <;> omega
theorem i16_add1 (x : Int16) (h0 : -32768 ≤ x.toInt) (h1 : x.toInt ≤ 30000) : (x + 1).toInt = x.toInt + 1 := by
  have : (1 : Int16).toInt = 1 := by decide
  rw [Int16.toInt_add_of] <;> rw [this] <;> omega

set_option maxHeartbeats 1000000 in
theorem exp2Pow_tripleQ (d : Gen.Decimal) (dSigInt : UInt64)
    (k : U192 → Int16 → Int8 → Go.GoM Gen.Decimal) (Q : Gen.Decimal → Prop)
    (hz : Q (Gen.zero false)) (hi : Q (Gen.inf false))
    (hk : ∀ s e t, ⦃⌜(dSigInt.toNat ≠ 0 → s.toNat ≠ 0) ∧ 0 ≤ i16v e ∧ i16v e ≤ 20678⌝⦄ k s e t ⦃⇓ r => ⌜Q r⌝⦄) :
    ⦃⌜True⌝⦄ exp2Pow d dSigInt k ⦃⇓ r => ⌜Q r⌝⦄ := by
  have hd := U256_div10_clz
  have s0 := shl_one_pos dSigInt
  have s1 := shl_one_pos (dSigInt - 64)
  have s2 := shl_one_pos (dSigInt - 128)
  have s3 := shl_one_pos (dSigInt - 192)
  mvcgen -trivial [exp2Pow, hk, hd, -U256_div10_spec]
  case inv1 | inv3 | inv7 => exact fun st => ⟨st.2.2.toNat⟩
  case inv2 | inv4 | inv8 => exact ⇓ x => match x with
    | .inl st => ⌜st.2.2.toNat ≠ 0 ∧ PotInv st.2.2.toNat (i16v st.2.1)⌝
    | .inr st => ⌜st.2.2.toNat ≠ 0 ∧ st.2.2.toNat < 2^192 ∧ 0 ≤ i16v st.2.1 ∧ i16v st.2.1 ≤ 20678⌝
  case inv5 => exact fun st => ⟨st.2.2.1.toNat⟩
  case inv6 => exact ⇓ x => match x with
    | .inl st => ⌜2^255 ≤ st.2.2.2.toNat ∧ 0 ≤ i16v st.2.1 ∧ i16v st.2.1 + st.2.2.1.toNat ≤ 20640⌝
    | .inr st => ⌜st.2.2.2.toNat ≠ 0 ∧ 0 ≤ i16v st.2.1 ∧ i16v st.2.1 ≤ 20640⌝
  all_goals (simp +zetaDelta at *)
  all_goals d192_prep
  all_goals (try simp (disch := omega) only [lsh_ne_zero_of_le, not_false_eq_true])
  all_goals (try omega)
  all_goals (unfold PotInv at *)
  all_goals (try rw [i16_add19 _ (by omega) (by omega)])
  all_goals (try omega)
  all_goals (refine ⟨trivial, ?_, ?_⟩ <;> omega)

theorem mul_facts (a b : decomposed192) (t : Int8) (x : decomposed192 × Int8)
    (ha : a.sig.toNat ≠ 0) (hb : b.sig.toNat ≠ 0)
    (hlo : -30000 ≤ a.exp.toInt + b.exp.toInt) (hhi : a.exp.toInt + b.exp.toInt ≤ 30000)
    (h : decomposed192.mul a b t = .ok x) :
    x.1.sig.toNat ≠ 0 ∧ a.exp.toInt + b.exp.toInt ≤ x.1.exp.toInt ∧
      x.1.exp.toInt ≤ a.exp.toInt + b.exp.toInt + 58 := by
  obtain ⟨r, t', k, hr, hk, hs, he, -, hn⟩ := D192.mul_spec a b t
  rw [h] at hr
  have hx : x = (r, t') := by injection hr
  subst hx
  have hkk : (Int16.ofNat k).toInt = k := Int16.toInt_ofNat_of_lt (by omega)
  have hab : (a.exp + b.exp).toInt = a.exp.toInt + b.exp.toInt := Int16.toInt_add_of _ _ (by omega) (by omega)
  have hexp : r.exp.toInt = a.exp.toInt + b.exp.toInt + k := by
    rw [he, Int16.toInt_add_of] <;> rw [hab, hkk] <;> omega
  refine ⟨?_, by show a.exp.toInt + b.exp.toInt ≤ r.exp.toInt; omega,
    by show r.exp.toInt ≤ a.exp.toInt + b.exp.toInt + 58; omega⟩
  show r.sig.toNat ≠ 0
  rcases hn with rfl | hn
  · rw [hs]; simp only [pow_zero, Nat.div_one]
    exact Nat.mul_ne_zero ha hb
  · have : 0 < 2 ^ 192 / 10 := by norm_num
    omega

theorem exp2Tail_not_nan (g : Globals) (d : Decimal) (dSig : U128) (dExp : Int16) (dSigInt : UInt64)
    (sigInt : U192) (expInt : Int16) (trunc : Int8) (r : Decimal)
    (h0 : dSigInt.toNat ≠ 0 ∨ dSig.toNat ≠ 0) (h1 : dSigInt.toNat ≠ 0 → sigInt.toNat ≠ 0)
    (he0 : 0 ≤ expInt.toInt) (he1 : expInt.toInt ≤ 20678)
    (h : exp2Tail g d dSig dExp dSigInt sigInt expInt trunc = .ok r) : Decimal.IsNaN r = false := by
  unfold exp2Tail at h
  extract_lets res0 tr0 jpR jp res1 at h
  have hjpR : ∀ (res : decomposed192) (tr : Int8) (r : Decimal), res.sig.toNat ≠ 0 →
      res.exp.toInt ≤ 13824 → jpR () res tr = .ok r → Decimal.IsNaN r = false := by
    intro res tr r hs hub h
    simp only [jpR, ite_pure] at h
    exact tail_not_nan' _ _ _ res tr _ (ite_const_isNaN _) (Or.inl hs) hub r h
  have hjp : ∀ (res : decomposed192) (tr : Int8) (r : Decimal), res.sig.toNat ≠ 0 →
      -58 ≤ res.exp.toInt → jp () res tr = .ok r → Decimal.IsNaN r = false := by
    intro res tr r hs hlb h
    simp only [jp] at h
    split at h
    · exact ite_const_not_nan _ _ h
    rename_i hle
    have hle' : res.exp.toInt ≤ 6146 := by
      rw [decide_eq_true_eq, gt_iff_lt, Int16.lt_iff_toInt_lt] at hle
      have : (6146 : Int16).toInt = 6146 := by decide
      omega
    split at h
    · obtain ⟨y, hy, h⟩ := bind_ok h
      obtain ⟨q1, q2, q3⟩ := rcp_range res tr hs hlb (by omega) y.1 y.2 hy
      exact hjpR y.1 y.2 r q1 (by omega) h
    · exact hjpR res tr r hs (by omega) h
  clear_value jp jpR
  split at h
  · obtain ⟨m, -, h⟩ := bind_ok h
    try dsimp only at h
    obtain ⟨l, -, h⟩ := bind_ok h
    obtain ⟨x, hx, h⟩ := bind_ok h
    try dsimp only at h
    split at h
    · exact ite_const_not_nan _ _ h
    rename_i hle
    have hle' := i16_gt_6169 _ hle
    have hsig : x.1.sig.toNat ≠ 0 := epow_sig_ne _ _ _ _ hx
    have hlb := epow_exp_lb _ _ _ x.1 x.2 hx hle'
    split at h
    · rename_i hne
      obtain ⟨p, hp, h⟩ := bind_ok h
      try dsimp only at h
      have hsi : sigInt.toNat ≠ 0 := by
        apply h1
        intro h0'
        have : dSigInt = 0 := UInt64.toNat_inj.mp (by rw [h0']; rfl)
        rw [this] at hne; cases hne
      obtain ⟨f1, f2, f3⟩ := mul_facts ⟨sigInt, expInt⟩ x.1 x.2 p hsi hsig (by show -30000 ≤ expInt.toInt + x.1.exp.toInt; omega)
        (by show expInt.toInt + x.1.exp.toInt ≤ 30000; omega) hp
      exact hjp p.1 p.2 r f1 (by have : -58 ≤ expInt.toInt + x.1.exp.toInt := by omega
                                 exact le_trans this f2) h
    · exact hjp x.1 x.2 r hsig hlb h
  · rename_i hds
    have hdz : dSig.toNat = 0 := by
      by_contra hc
      apply hds
      simp only [bne_iff_ne, ne_eq]
      intro hz
      exact hc ((U128.or_zero dSig).mp hz)
    have hsi : sigInt.toNat ≠ 0 := by
      apply h1
      rcases h0 with h | h
      · exact h
      · exact absurd hdz h
    exact hjp res1 tr0 r hsi (by show -58 ≤ expInt.toInt; omega) h

/-- the two later stages of `Exp2` as a triple with the postcondition "not a NaN" -/
theorem exp2_stages (g : Globals) (d : Decimal) (dSig : U128) (dExp : Int16) (l10 : Int64) :
    ⦃⌜dSig.toNat ≠ 0 ∧ l10.toInt = Nat.log 10 dSig.toNat ∧ i16v dExp ≤ 5 - l10.toInt⌝⦄
    exp2Split dSig dExp l10 (fun dSig dExp dSigInt =>
      exp2Pow d dSigInt (fun sigInt expInt trunc =>
        exp2Tail g d dSig dExp dSigInt sigInt expInt trunc))
    ⦃⇓ r => ⌜Decimal.IsNaN r = false⌝⦄ := by
  apply exp2Split_triple
  intro s e i
  apply triple_of_ok_pre
  intro hpre
  have := exp2Pow_tripleQ d i (fun sigInt expInt trunc => exp2Tail g d s e i sigInt expInt trunc)
    (fun r => Decimal.IsNaN r = false) rfl rfl
    (fun s' e' t' => by
      apply triple_of_ok_pre
      intro hs'
      obtain ⟨r, hr, _⟩ := ok_of_triple_pre (exp2Tail_triple g d s e i s' e' t') ⟨hpre, hs'.1⟩
      exact ⟨r, hr, exp2Tail_not_nan g d s e i s' e' t' r hpre hs'.1 hs'.2.1 hs'.2.2 hr⟩)
  exact ok_of_triple this

/-- finite non-zero argument: no result of `Exp2` is a NaN (every `Globals`) -/
theorem Exp2_fin_not_nan (g : Globals) (d r : Decimal) (h1 : Decimal.isSpecial d = false)
    (h2 : Decimal.IsZero d = false) (h : Gen.Exp2 g d = .ok r) : Decimal.IsNaN r = false := by
  rw [Exp2_eq] at h
  unfold exp2Staged at h
  simp only [h1, h2, Bool.false_eq_true, if_false] at h
  rw [U128_log10_eq] at h
  obtain ⟨l10, hl, h⟩ := bind_ok h
  have hl' : Int64.ofNat (Nat.log 10 d.decompose.1.toNat) = l10 := by injection hl
  split at h
  · exact ite_const_not_nan _ _ h
  rename_i hg
  have hk := Nat.log10_lt_39_of_lt d.decompose.1.toNat d.decompose.1.toNat_lt
  have hlv : l10.toInt = Nat.log 10 d.decompose.1.toNat := by
    rw [← hl']; exact Int64.toInt_ofNat_small _ (by omega)
  have he0 := Enc.decompose_exp_nonneg d
  have he1 := Enc.decompose_exp_le d h1
  have h6 : (6176 : Int16).toInt = 6176 := by decide
  have hde : (d.decompose.2 - 6176).toInt = d.decompose.2.toInt - 6176 := by
    rw [Int16.toInt_sub_of] <;> rw [h6] <;> omega
  have hc : (Go.conv (d.decompose.2 - 6176) : Int64).toInt = d.decompose.2.toInt - 6176 := by
    rw [conv_i16_i64_toInt]; exact hde
  have h5 : ((5 : Int64) - l10).toInt = 5 - l10.toInt := by
    have : (5 : Int64).toInt = 5 := by decide
    rw [i64_sub_toInt] <;> rw [this] <;> omega
  have hguard : i16v (d.decompose.2 - 6176) ≤ 5 - l10.toInt := by
    rw [decide_eq_true_eq, gt_iff_lt, Int64.lt_iff_toInt_lt, h5, hc] at hg
    unfold i16v; rw [hde]; omega
  obtain ⟨r', hr', hq⟩ := ok_of_triple_pre (exp2_stages g d d.decompose.1 (d.decompose.2 - 6176) l10)
    ⟨sig_ne_zero d h2, hlv, hguard⟩
  rw [h] at hr'
  have : r = r' := by injection hr'
  rw [this]; exact hq

/-- **Exp2**, all bit patterns, every `Globals` (invalid mode bytes included): the call returns, and the
    result is a NaN exactly when the operand is -/
theorem Exp2_isNaN (g : Globals) (d : Decimal) :
    ∃ r, Gen.Exp2 g d = .ok r ∧ Decimal.IsNaN r = Decimal.IsNaN d := by
  by_cases h : Decimal.isSpecial d = true ∨ Decimal.IsZero d = true
  · exact noInvalid_special_isNaN .exp2 (Or.inr (Or.inl rfl)) g d h
  · have h1 : Decimal.isSpecial d = false := by
      cases hs : Decimal.isSpecial d
      · rfl
      · exact absurd (Or.inl hs) h
    have h2 : Decimal.IsZero d = false := by
      cases hs : Decimal.IsZero d
      · rfl
      · exact absurd (Or.inr hs) h
    obtain ⟨r, hr⟩ := Exp2_total g d
    exact ⟨r, hr, by rw [Exp2_fin_not_nan g d r h1 h2 hr, (not_nan_of_not_special d h1).1]⟩

end NN
