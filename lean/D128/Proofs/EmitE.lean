/-
  D128/Proofs/EmitE.lean — `Gen.digits.fmtE` (Go: `func (d *digits) fmtE(...)`, /repo/format.go) at byte level.

  The generated function is cut at its join points into the continuations `Emit.E.kA … k6` (text copied
  from the generated source, tied to it by `Emit.E.fmtE_eq : … := rfl`).

  * `Emit.E.signB`, `expDigitsB`, `expB`, `expOf`, `firstB`, `fracB`, `eBytes` : what `fmtE` appends
  * `Emit.E.k5_eq … k0_eq`   : the stages
  * `Emit.E.k6_nop`          : no padding when `width ≤` emitted length
  * `Emit.E.fmtE_bytes`      : `fmtE d buf prec width … = .ok (d, buf ++ eBytes …)` (no panic, termination)
-/
import D128.Proofs.EmitBase
set_option autoImplicit false

namespace Emit
namespace E
section
variable (d : Gen.digits) (prec width : Int64)
  (forceDP printSign padSign padExp padRight padZero : Bool) (e : UInt8) (start : Int64)

def k6 (buf : Go.Bytes) : Go.GoM (Gen.digits × Go.Bytes) := do
  let __x ← d.pad buf start width printSign padSign padRight padZero
  match __x with
    | (r_3, r_4) => pure (r_3, r_4)

def k5 (buf : Go.Bytes) (exp : Int64) : Go.GoM (Gen.digits × Go.Bytes) :=
  if decide (exp < 10) = true then
    if padExp = true then
      k6 d width printSign padSign padRight padZero start ((Array.push buf 48).push (48 + Go.conv exp))
    else
      k6 d width printSign padSign padRight padZero start (Array.push buf (48 + Go.conv exp))
  else
    if decide (exp < 100) = true then
      k6 d width printSign padSign padRight padZero start
        ((Array.push buf (48 + Go.conv (exp / 10))).push (48 + Go.conv (exp % 10)))
    else
      if decide (exp < 1000) = true then
        k6 d width printSign padSign padRight padZero start
          (((Array.push buf (48 + Go.conv (exp / 100))).push (48 + Go.conv (exp / 10 % 10))).push
            (48 + Go.conv (exp % 10)))
      else
        k6 d width printSign padSign padRight padZero start
          ((((Array.push buf (48 + Go.conv (exp / 1000))).push (48 + Go.conv (exp / 100 % 10))).push
                (48 + Go.conv (exp / 10 % 10))).push
            (48 + Go.conv (exp % 10)))

def k4 (buf : Go.Bytes) (exp : Int64) : Go.GoM (Gen.digits × Go.Bytes) :=
  if decide (exp < 0) = true then
    k5 d width printSign padSign padExp padRight padZero start (Array.push buf 45) (-exp)
  else
    k5 d width printSign padSign padExp padRight padZero start (Array.push buf 43) exp

def k3 (buf : Go.Bytes) : Go.GoM (Gen.digits × Go.Bytes) :=
  if decide (d.ndig > 1) = true then
    k4 d width printSign padSign padExp padRight padZero start (Array.push buf e) (d.exp + (d.ndig - 1))
  else k4 d width printSign padSign padExp padRight padZero start (Array.push buf e) d.exp

def k2loop (buf : Go.Bytes) (i : Int64) : Go.GoM (Gen.digits × Go.Bytes) := do
  let __s ←
    forIn Lean.Loop.mk (buf, i) fun (_ : Unit) (__s : Go.Bytes × Int64) =>
        if decide (__s.snd < prec) = true then
          pure (ForInStep.yield (Array.push __s.fst 48, __s.snd + 1))
        else pure (ForInStep.done (__s.fst, __s.snd))
  k3 d width printSign padSign padExp padRight padZero e start __s.fst

def k2 (buf : Go.Bytes) : Go.GoM (Gen.digits × Go.Bytes) :=
  if decide (prec > 0) = true then
    if decide (d.ndig > 1) = true then do
      let t_2 ← Go.vslice d.dig 1 (Go.idx d.ndig)
      k2loop d prec width printSign padSign padExp padRight padZero e start (Array.push buf 46 ++ t_2) (d.ndig - 1)
    else k2loop d prec width printSign padSign padExp padRight padZero e start (Array.push buf 46) 0
  else
    if forceDP = true then
      k3 d width printSign padSign padExp padRight padZero e start (Array.push buf 46)
    else k3 d width printSign padSign padExp padRight padZero e start buf

def k1 (buf : Go.Bytes) : Go.GoM (Gen.digits × Go.Bytes) :=
  if (d.ndig == 0) = true then
    k2 d prec width forceDP printSign padSign padExp padRight padZero e start (Array.push buf 48)
  else
    k2 d prec width forceDP printSign padSign padExp padRight padZero e start (Array.push buf d.dig[0])

def k0 (buf : Go.Bytes) : Go.GoM (Gen.digits × Go.Bytes) :=
  if d.neg = true then
    k1 d prec width forceDP printSign padSign padExp padRight padZero e (Go.len buf) (Array.push buf 45)
  else
    if printSign = true then
      k1 d prec width forceDP printSign padSign padExp padRight padZero e (Go.len buf) (Array.push buf 43)
    else
      if padSign = true then
        k1 d prec width forceDP printSign padSign padExp padRight padZero e (Go.len buf) (Array.push buf 32)
      else k1 d prec width forceDP printSign padSign padExp padRight padZero e (Go.len buf) buf

def kA (buf : Go.Bytes) : Go.GoM (Gen.digits × Go.Bytes) :=
  if (Go.len buf == 0) = true then
    if decide (width > 9 + d.ndig) = true then do
      let t_1 ← Go.makeBytes 0 (Go.idx width)
      k0 d prec width forceDP printSign padSign padExp padRight padZero e t_1
    else do
      let t_1 ← Go.makeBytes 0 (Go.idx (9 + d.ndig))
      k0 d prec width forceDP printSign padSign padExp padRight padZero e t_1
  else k0 d prec width forceDP printSign padSign padExp padRight padZero e buf
end

theorem fmtE_eq (d : Gen.digits) (buf : Go.Bytes) (prec width : Int64)
    (forceDP printSign padSign padExp padRight padZero : Bool) (e : UInt8) :
    Gen.digits.fmtE d buf prec width forceDP printSign padSign padExp padRight padZero e =
      kA d prec width forceDP printSign padSign padExp padRight padZero e buf := rfl

theorem k6_congr (d : Gen.digits) (width : Int64) (printSign padSign padRight padZero : Bool)
    (start : Int64) {a b : Go.Bytes} (h : a.toList = b.toList) :
    k6 d width printSign padSign padRight padZero start a =
      k6 d width printSign padSign padRight padZero start b := by
  rw [Array.toList_inj.mp h]

theorem k3_congr (d : Gen.digits) (width : Int64) (printSign padSign padExp padRight padZero : Bool)
    (e : UInt8) (start : Int64) {a b : Go.Bytes} (h : a.toList = b.toList) :
    k3 d width printSign padSign padExp padRight padZero e start a =
      k3 d width printSign padSign padExp padRight padZero e start b := by
  rw [Array.toList_inj.mp h]

/-- equality of continuations applied to byte arrays built from `push`/`++`/literals -/
macro "arr" : tactic =>
  `(tactic| ((first | apply k6_congr | apply k3_congr); simp))

/-! ## byte-level description -/

/-- sign prefix -/
def signB (neg printSign padSign : Bool) : Go.Bytes :=
  if neg then #[45] else if printSign then #[43] else if padSign then #[32] else #[]

/-- digits of a non-negative exponent as the code prints them -/
def expDigitsB (padExp : Bool) (x : Int64) : Go.Bytes :=
  if x < 10 then (if padExp then #[48, 48 + Go.conv x] else #[48 + Go.conv x])
  else if x < 100 then #[48 + Go.conv (x / 10), 48 + Go.conv (x % 10)]
  else if x < 1000 then #[48 + Go.conv (x / 100), 48 + Go.conv (x / 10 % 10), 48 + Go.conv (x % 10)]
  else #[48 + Go.conv (x / 1000), 48 + Go.conv (x / 100 % 10), 48 + Go.conv (x / 10 % 10),
    48 + Go.conv (x % 10)]

/-- sign and digits of the exponent -/
def expB (padExp : Bool) (x : Int64) : Go.Bytes :=
  if x < 0 then #[45] ++ expDigitsB padExp (-x) else #[43] ++ expDigitsB padExp x

/-- the exponent `fmtE` prints: the exponent of the leading digit -/
def expOf (d : Gen.digits) : Int64 := if d.ndig > 1 then d.exp + (d.ndig - 1) else d.exp

/-- leading digit -/
def firstB (d : Gen.digits) : UInt8 := if d.ndig == 0 then 48 else d.dig[0]

/-- decimal point and fraction digits of `fmtE` -/
def fracB (d : Gen.digits) (prec : Int64) (forceDP : Bool) : Go.Bytes :=
  if prec > 0 then
    if d.ndig > 1 then
      #[46] ++ digB d.dig 1 d.ndig.toInt.toNat ++
        Array.replicate (prec.toInt - (d.ndig.toInt - 1)).toNat 48
    else #[46] ++ Array.replicate prec.toInt.toNat 48
  else if forceDP then #[46] else #[]

/-- everything `fmtE` appends (before padding) -/
def eBytes (d : Gen.digits) (prec : Int64) (forceDP printSign padSign padExp : Bool) (e : UInt8) :
    Go.Bytes :=
  signB d.neg printSign padSign ++ #[firstB d] ++ fracB d prec forceDP ++ #[e] ++ expB padExp (expOf d)

section
variable (d : Gen.digits) (prec width : Int64)
  (forceDP printSign padSign padExp padRight padZero : Bool) (e : UInt8) (start : Int64)

theorem k5_eq (buf : Go.Bytes) (exp : Int64) :
    k5 d width printSign padSign padExp padRight padZero start buf exp =
      k6 d width printSign padSign padRight padZero start (buf ++ expDigitsB padExp exp) := by
  unfold k5 expDigitsB
  split
  · rename_i h
    have h' : exp < 10 := by simpa using h
    rw [if_pos h']
    cases padExp <;> arr
  · rename_i h
    have h' : ¬ exp < 10 := by simpa using h
    rw [if_neg h']
    split
    · rename_i h2
      have h2' : exp < 100 := by simpa using h2
      rw [if_pos h2']; arr
    · rename_i h2
      have h2' : ¬ exp < 100 := by simpa using h2
      rw [if_neg h2']
      split
      · rename_i h3
        have h3' : exp < 1000 := by simpa using h3
        rw [if_pos h3']; arr
      · rename_i h3
        have h3' : ¬ exp < 1000 := by simpa using h3
        rw [if_neg h3']; arr

theorem k4_eq (buf : Go.Bytes) (exp : Int64) :
    k4 d width printSign padSign padExp padRight padZero start buf exp =
      k6 d width printSign padSign padRight padZero start (buf ++ expB padExp exp) := by
  unfold k4 expB
  split
  · rename_i h
    have h' : exp < 0 := by simpa using h
    rw [if_pos h', k5_eq]; simp
  · rename_i h
    have h' : ¬ exp < 0 := by simpa using h
    rw [if_neg h', k5_eq]; simp

theorem k3_eq (buf : Go.Bytes) :
    k3 d width printSign padSign padExp padRight padZero e start buf =
      k6 d width printSign padSign padRight padZero start (buf ++ #[e] ++ expB padExp (expOf d)) := by
  unfold k3 expOf
  split
  · rename_i h
    have h' : d.ndig > 1 := by simpa using h
    rw [if_pos h', k4_eq]; simp
  · rename_i h
    have h' : ¬ d.ndig > 1 := by simpa using h
    rw [if_neg h', k4_eq]; simp

theorem k2loop_eq (buf : Go.Bytes) (i : Int64) :
    k2loop d prec width printSign padSign padExp padRight padZero e start buf i =
      k3 d width printSign padSign padExp padRight padZero e start
        (buf ++ Array.replicate (prec.toInt - i.toInt).toNat 48) := by
  unfold k2loop
  rw [loop_up]
  rfl

theorem k2_eq (buf : Go.Bytes) (h0 : 0 ≤ d.ndig.toInt) (h39 : d.ndig.toInt ≤ 39) :
    k2 d prec width forceDP printSign padSign padExp padRight padZero e start buf =
      k3 d width printSign padSign padExp padRight padZero e start (buf ++ fracB d prec forceDP) := by
  unfold k2 fracB
  split
  · rename_i h
    have h' : prec > 0 := by simpa using h
    rw [if_pos h']
    split
    · rename_i h2
      have h2' : d.ndig > 1 := by simpa using h2
      have h2'' := (i64_gt_iff _ _).mp h2'
      rw [i64_one] at h2''
      rw [if_pos h2', vslice_eq d.dig 1 (Go.idx d.ndig) (by decide) (by show (1:Int) ≤ d.ndig.toInt; omega)
        (by show d.ndig.toInt ≤ 39; omega)]
      show k2loop _ _ _ _ _ _ _ _ _ _ _ _ = _
      rw [k2loop_eq]
      have e1 : (d.ndig - 1).toInt = d.ndig.toInt - 1 := by
        rw [Dg.i64_sub _ _ (by rw [i64_one]; omega) (by rw [i64_one]; omega), i64_one]
      rw [e1]
      congr 1
      show _ ++ digB d.dig 1 d.ndig.toInt.toNat ++ _ = _
      simp
    · rename_i h2
      have h2' : ¬ d.ndig > 1 := by simpa using h2
      rw [if_neg h2', k2loop_eq, i64_zero]
      simp
  · rename_i h
    have h' : ¬ prec > 0 := by simpa using h
    rw [if_neg h']
    cases forceDP <;> simp

theorem k1_eq (buf : Go.Bytes) (h0 : 0 ≤ d.ndig.toInt) (h39 : d.ndig.toInt ≤ 39) :
    k1 d prec width forceDP printSign padSign padExp padRight padZero e start buf =
      k3 d width printSign padSign padExp padRight padZero e start
        (buf ++ #[firstB d] ++ fracB d prec forceDP) := by
  unfold k1 firstB
  split
  · rename_i h
    rw [k2_eq _ _ _ _ _ _ _ _ _ _ _ _ h0 h39]; arr
  · rename_i h
    rw [k2_eq _ _ _ _ _ _ _ _ _ _ _ _ h0 h39]; arr

theorem k0_eq (buf : Go.Bytes) (h0 : 0 ≤ d.ndig.toInt) (h39 : d.ndig.toInt ≤ 39) :
    k0 d prec width forceDP printSign padSign padExp padRight padZero e buf =
      k6 d width printSign padSign padRight padZero (Go.len buf)
        (buf ++ eBytes d prec forceDP printSign padSign padExp e) := by
  unfold k0 eBytes signB
  cases d.neg <;> cases printSign <;> cases padSign <;>
    simp only [k1_eq _ _ _ _ _ _ _ _ _ _ _ _ h0 h39, k3_eq, if_true, if_false, Bool.false_eq_true] <;> arr


theorem k6_nop (buf X : Go.Bytes) (hw0 : 0 ≤ width.toInt) (hsz : buf.size + X.size < 2 ^ 63)
    (hw : width.toInt ≤ X.size) :
    k6 d width printSign padSign padRight padZero (Go.len buf) (buf ++ X) = .ok (d, buf ++ X) := by
  unfold k6
  rw [pad_nop]
  · rfl
  · rw [i64_le_iff, i64_zero]
    have h1 := len_sub buf X hsz
    have h2 := width.toInt_lt
    rw [Dg.i64_sub _ _ (by rw [h1]; omega) (by rw [h1]; omega), h1]
    omega

end

/-- **`fmtE`, byte level**: without padding (`width` at most the length of the emitted text) `fmtE`
appends exactly `eBytes`: sign, leading digit, fraction, exponent letter, exponent.  No panic, the loop
terminates.  Holds for every precision (a non-positive one means "no fraction digits"). -/
theorem fmtE_bytes (d : Gen.digits) (buf : Go.Bytes) (prec width : Int64)
    (forceDP printSign padSign padExp padRight padZero : Bool) (e : UInt8)
    (h0 : 0 ≤ d.ndig.toInt) (h39 : d.ndig.toInt ≤ 39) (hw0 : 0 ≤ width.toInt)
    (hsz : buf.size + (eBytes d prec forceDP printSign padSign padExp e).size < 2 ^ 63)
    (hw : width.toInt ≤ (eBytes d prec forceDP printSign padSign padExp e).size) :
    Gen.digits.fmtE d buf prec width forceDP printSign padSign padExp padRight padZero e =
      .ok (d, buf ++ eBytes d prec forceDP printSign padSign padExp e) := by
  rw [fmtE_eq]
  unfold kA
  rw [len_beq_zero buf (by omega)]
  by_cases hb : buf.size = 0
  · have hbuf : buf = #[] := Array.eq_empty_of_size_eq_zero hb
    have e9 : (9 + d.ndig).toInt = 9 + d.ndig.toInt := by
      have : (9 : Int64).toInt = 9 := by decide
      rw [Dg.i64_add _ _ (by rw [this]; omega) (by rw [this]; omega), this]
    rw [if_pos (by simp [hb]), makeBytes_zero _ (by show 0 ≤ width.toInt; exact hw0),
      makeBytes_zero _ (by show 0 ≤ (9 + d.ndig).toInt; omega)]
    have hk : k0 d prec width forceDP printSign padSign padExp padRight padZero e #[] =
        .ok (d, buf ++ eBytes d prec forceDP printSign padSign padExp e) := by
      rw [← hbuf, k0_eq _ _ _ _ _ _ _ _ _ _ _ h0 h39, k6_nop _ _ _ _ _ _ _ _ hw0 hsz hw]
    split <;> exact hk
  · rw [if_neg (by simp [hb])]
    rw [k0_eq _ _ _ _ _ _ _ _ _ _ _ h0 h39, k6_nop _ _ _ _ _ _ _ _ hw0 hsz hw]

end E
end Emit
