/-
  D128/Proofs/PowCode.lean — stage decomposition of the generated `Gen.Decimal.PowWithMode`
  (Go: /repo/arith.go, `func (d Decimal) PowWithMode`).

  The generated function is one long `do` block (a ~30-branch ladder with two trailing-zero
  stripping loops, followed by the general path `log → mul → epow → rcp → reduce192`).  We name its
  continuations; every name is tied to the generated definition by `PowWithMode_eq`, which is
  proved by definitional unfolding (`unfold …; zeta_except_jp; simp only []`), so it breaks when the
  generated code changes.  Nothing here is a model that anything is proved "instead of".

  Provided (namespace `PowPf`):
  * `stripBody`, `strip`        : the loop `for { sig, rem := s.div10(); if rem != 0 {break}; s = sig; e++ }`
  * `general`                   : the general path (from `decomposed192{…}.log()` on)
  * `byK`                       : `if dExp == bias {one} else if dExp < bias {zero} else {inf}`
  * `pow10Exact`, `pow10Path`   : the power-of-ten shortcut (`dSig == 1`, non-negative integer y)
  * `finish`                    : power-of-ten shortcut / square-root shortcut / general path
  * `afterD`                    : negative base: NaN for non-integer y, parity digit; then `finish`
  * `afterO`                    : x = ±0, x = ±Inf with finite y; strip `d`; then `afterD`
  * `infY`                      : y = ±Inf
  * `ladder`                    : from `if d.IsNaN()` on
  * `staged`, `PowWithMode_eq`  : `Gen.Decimal.PowWithMode d o mode = staged d o mode`
-/
import D128.Gen.Arith2
import D128.Proofs.RoundKernelCode

set_option autoImplicit false
set_option maxRecDepth 8192
set_option linter.unusedVariables false

namespace PowPf
open Gen

/-- body of the trailing-zero stripping loop -/
def stripBody (_ : Unit) (s : U128 × Int16) : Go.GoM (ForInStep (U128 × Int16)) :=
  if true = true then do
    let x ← U128.div10 s.1
    if (x.2 != (0 : UInt64)) = true then pure (ForInStep.done (s.1, s.2))
    else pure (ForInStep.yield (x.1, s.2 + 1))
  else pure (ForInStep.done (s.1, s.2))

/-- `for { sig, rem := s.div10(); if rem != 0 { break }; s = sig; e++ }` -/
def strip (s : U128 × Int16) : Go.GoM (U128 × Int16) := forIn Lean.Loop.mk s stripBody

/-- the general path: `log → mul → epow → (rcp) → reduce192` -/
def general (mode : UInt8) (oNeg neg : Bool) (oSig : U128) (oExp : Int16) (dSig : U128) (dExp : Int16) :
    Go.GoM Decimal := do
  let (r_23, r_24, r_25) ← decomposed192.log ({ (default : decomposed192) with sig := (U192.mk dSig.w0 dSig.w1 (0 : UInt64)), exp := (dExp - (6176 : Int16)) } : decomposed192)
  let mut inv : Bool := r_23
  let mut res : decomposed192 := r_24
  let mut trunc : Int8 := r_25
  if (((res.sig.w0 ||| res.sig.w1) ||| res.sig.w2) == (0 : UInt64)) then
    return (one neg)
  if (decide (((Go.conv res.exp : Int64) + (Go.conv oExp : Int64)) > (12322 : Int64))) then
    if (oNeg != inv) then
      return (zero neg)
    return (inf neg)
  let (r_26, r_27) ← decomposed192.mul res ({ (default : decomposed192) with sig := (U192.mk oSig.w0 oSig.w1 (0 : UInt64)), exp := (oExp - (6176 : Int16)) } : decomposed192) trunc
  res := r_26
  trunc := r_27
  if (((res.sig.w0 ||| res.sig.w1) ||| res.sig.w2) == (0 : UInt64)) then
    return (one neg)
  let t_28 ← U192.log10 res.sig
  let mut l10_1 : Int64 := t_28
  if (decide ((Go.conv res.exp : Int64) > ((5 : Int64) - l10_1))) then
    if (oNeg != inv) then
      return (zero neg)
    return (inf neg)
  if (((res.sig.w0 ||| res.sig.w1) ||| res.sig.w2) == (0 : UInt64)) then
    return (one neg)
  let (r_29, r_30) ← decomposed192.epow res (Go.conv l10_1 : Int16) trunc
  res := r_29
  trunc := r_30
  if (decide (res.exp > (6169 : Int16))) then
    if (oNeg != inv) then
      return (zero neg)
    return (inf neg)
  if (oNeg != inv) then
    let (r_31, r_32) ← decomposed192.rcp res trunc
    res := r_31
    trunc := r_32
    trunc := (trunc * (-1 : Int8))
  let (r_33, r_34) ← RoundingMode.reduce192 mode neg res.sig (res.exp + (6176 : Int16)) trunc
  let mut sig_3 : U128 := r_33
  let mut exp_2 : Int16 := r_34
  if (decide (exp_2 > (12287 : Int16))) then
    return (inf neg)
  return (compose neg sig_3 exp_2)

/-- `1`, `0` or `Inf` according to the sign of the decimal exponent of the base -/
def byK (neg : Bool) (dExp : Int16) : Go.GoM Decimal :=
  if (dExp == (6176 : Int16)) = true then pure (one neg)
  else if decide (dExp < (6176 : Int16)) = true then pure (zero neg) else pure (inf neg)

/-- the exact power of ten once the multiplier `p10 = 10^(oExp - bias)` is known -/
def pow10Exact (mode : UInt8) (dNeg neg : Bool) (oSig dSig : U128) (dExp : Int16) (p10 : Int64) :
    Go.GoM Decimal :=
  if decide (((((Go.conv (dExp - (6176 : Int16)) : Int64) * p10) * (Go.conv oSig.w0 : Int64)) + (6176 : Int64)) < (-35 : Int64)) = true then
    pure (zero neg)
  else if decide (((((Go.conv (dExp - (6176 : Int16)) : Int64) * p10) * (Go.conv oSig.w0 : Int64)) + (6176 : Int64)) > (12322 : Int64)) = true then
    pure (inf neg)
  else do
    let x ← RoundingMode.reduce128 mode dNeg dSig (Go.conv ((((Go.conv (dExp - (6176 : Int16)) : Int64) * p10) * (Go.conv oSig.w0 : Int64)) + (6176 : Int64)) : Int16) (0 : Int8)
    if decide (x.2 > (12287 : Int16)) = true then pure (inf neg) else pure (compose neg x.1 x.2)

/-- the power-of-ten shortcut -/
def pow10Path (mode : UInt8) (dNeg neg : Bool) (oSig : U128) (oExp : Int16) (dSig : U128) (dExp : Int16) :
    Go.GoM Decimal :=
  if ((oSig.w1 != (0 : UInt64)) || (decide (oSig.w0 > (12322 : UInt64)))) = true then byK neg dExp
  else if (oExp == (6176 : Int16)) = true then pow10Exact mode dNeg neg oSig dSig dExp 1
  else if (oExp == (6177 : Int16)) = true then pow10Exact mode dNeg neg oSig dSig dExp 10
  else if (oExp == (6178 : Int16)) = true then pow10Exact mode dNeg neg oSig dSig dExp 100
  else if (oExp == (6179 : Int16)) = true then pow10Exact mode dNeg neg oSig dSig dExp 1000
  else if (oExp == (6180 : Int16)) = true then pow10Exact mode dNeg neg oSig dSig dExp 10000
  else if (oExp == (6181 : Int16)) = true then pow10Exact mode dNeg neg oSig dSig dExp 100000
  else if (oExp == (6182 : Int16)) = true then pow10Exact mode dNeg neg oSig dSig dExp 1000000
  else if (oExp == (6183 : Int16)) = true then pow10Exact mode dNeg neg oSig dSig dExp 10000000
  else byK neg dExp

/-- after the sign of the result is known -/
def finish (mode : UInt8) (dNeg oNeg neg : Bool) (oSig : U128) (oExp : Int16) (dSig : U128) (dExp : Int16) :
    Go.GoM Decimal :=
  if (((!oNeg) && (decide (oExp ≥ (6176 : Int16)))) && (dSig == (U128.mk (1 : UInt64) (0 : UInt64)))) = true then
    pow10Path mode dNeg neg oSig oExp dSig dExp
  else if (((((dExp &&& (1 : Int16)) == (0 : Int16)) && (oExp == (6175 : Int16))) && (dSig == (U128.mk (1 : UInt64) (0 : UInt64)))) && (oSig == (U128.mk (5 : UInt64) (0 : UInt64)))) = true then
    (if oNeg = true then pure (compose neg dSig ((((dExp - (6176 : Int16)) / (2 : Int16)) * (-1 : Int16)) + (6176 : Int16)))
     else pure (compose neg dSig (((dExp - (6176 : Int16)) / (2 : Int16)) + (6176 : Int16))))
  else general mode oNeg neg oSig oExp dSig dExp

/-- negative base: NaN for a non-integer exponent, otherwise the parity digit decides the sign -/
def afterD (mode : UInt8) (dNeg oNeg : Bool) (oSig : U128) (oExp : Int16) (dSig : U128) (dExp : Int16) :
    Go.GoM Decimal :=
  if dNeg = true then
    if decide (oExp < (6176 : Int16)) = true then
      (if oNeg = true then pure (nan (15 : UInt64) (4 : UInt64) (4 : UInt64))
       else pure (nan (15 : UInt64) (4 : UInt64) (3 : UInt64)))
    else if (oExp == (6176 : Int16)) = true then do
      let x ← U128.div10 oSig
      if ((x.2 &&& (1 : UInt64)) != (0 : UInt64)) = true then finish mode dNeg oNeg true oSig oExp dSig dExp
      else finish mode dNeg oNeg false oSig oExp dSig dExp
    else finish mode dNeg oNeg false oSig oExp dSig dExp
  else finish mode dNeg oNeg false oSig oExp dSig dExp

/-- after the exponent's coefficient has been stripped: zero and infinite bases, then strip the base -/
def afterO (mode : UInt8) (d : Decimal) (dNeg oNeg : Bool) (oSig : U128) (oExp : Int16) : Go.GoM Decimal :=
  if (Decimal.IsZero d) = true then
    (if ((Decimal.Signbit d) && (oExp == (6176 : Int16))) = true then do
      let x ← U128.div10 oSig
      if ((x.2 &&& (1 : UInt64)) != (0 : UInt64)) = true then
        (if oNeg = true then pure (inf true) else pure (zero true))
      else (if oNeg = true then pure (inf false) else pure (zero false))
    else (if oNeg = true then pure (inf false) else pure (zero false)))
  else if (Decimal.isInf d) = true then
    (if dNeg = true then
      (if (oExp == (6176 : Int16)) = true then do
        let x ← U128.div10 oSig
        if ((x.2 &&& (1 : UInt64)) != (0 : UInt64)) = true then
          (if oNeg = true then pure (zero true) else pure (inf true))
        else (if oNeg = true then pure (zero false) else pure (inf false))
      else (if oNeg = true then pure (zero false) else pure (inf false)))
    else (if oNeg = true then pure (zero false) else pure (inf false)))
  else do
    let s ← strip (Decimal.decompose d)
    afterD mode dNeg oNeg oSig oExp s.1 s.2

/-- y = ±Inf -/
def infY (d : Decimal) (oNeg : Bool) : Go.GoM Decimal :=
  if (Decimal.IsZero d) = true then
    (if oNeg = true then pure (inf false) else pure (zero false))
  else if (Decimal.isInf d) = true then
    (if oNeg = true then pure (zero false) else pure (inf false))
  else if decide (((Decimal.decompose d).2 - (6176 : Int16)) > (0 : Int16)) = true then
    (if oNeg = true then pure (zero false) else pure (inf false))
  else if decide (((Decimal.decompose d).2 - (6176 : Int16)) > (-35 : Int16)) = true then do
    let t ← U128.log10 (Decimal.decompose d).1
    if decide ((Go.conv t : Int16) ≥ (-((Decimal.decompose d).2 - (6176 : Int16)))) = true then
      (if oNeg = true then pure (zero false) else pure (inf false))
    else (if oNeg = true then pure (inf false) else pure (zero false))
  else (if oNeg = true then pure (inf false) else pure (zero false))

/-- from `if d.IsNaN()` on -/
def ladder (mode : UInt8) (d o : Decimal) : Go.GoM Decimal :=
  if (Decimal.IsNaN d) = true then pure d
  else if (Decimal.IsNaN o) = true then pure o
  else if (Decimal.isInf o) = true then infY d (Decimal.Signbit o)
  else do
    let s ← strip (Decimal.decompose o)
    afterO mode d (Decimal.Signbit d) (Decimal.Signbit o) s.1 s.2

/-- from `if o.isOne()` on -/
def stage2 (mode : UInt8) (d o : Decimal) : Go.GoM Decimal := do
  let t_2 ← Decimal.isOne o
  if t_2 = true then
    (if (Decimal.Signbit o) = true then Decimal.QuoWithMode (one false) d mode else pure d)
  else ladder mode d o

/-- `PowWithMode` with the stages named -/
def staged (d o : Decimal) (mode : UInt8) : Go.GoM Decimal :=
  if (Decimal.IsZero o) = true then pure (one false)
  else do
    let t_1 ← Decimal.isOne d
    if t_1 = true then
      (if ((!(Decimal.Signbit d)) || (Decimal.isInf o)) = true then pure (one false) else stage2 mode d o)
    else stage2 mode d o

end PowPf

namespace PowPf
open Gen

theorem PowWithMode_eq (d o : Decimal) (mode : UInt8) :
    Gen.Decimal.PowWithMode d o mode = staged d o mode := by
  unfold Gen.Decimal.PowWithMode staged stage2 ladder infY afterO afterD finish pow10Path pow10Exact byK
    general strip stripBody
  zeta_except_jp
  simp only []

end PowPf
