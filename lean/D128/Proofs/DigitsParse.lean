/-
  D128/Proofs/DigitsParse.lean — `Gen.parseFormat` (Go: `func parseFormat(format string, args *formatArgs)`,
  /repo/format.go:824), the fmt-style spec parser behind `Decimal.Append`.

  Specification (a recursive-descent reading of `flags* width? ('.' precision?)? verb`):
  * `Dg.pfInit`, `Dg.pfFlags`, `Dg.pfWidth`, `Dg.pfWidthDigits`, `Dg.pfPrec`, `Dg.pfPrecDigits`,
    `Dg.pfVerb`, `Dg.parseSpec`
  Code = specification, for ALL byte strings (Hoare triple over the four generated loops, mvcgen):
  * `Dg.bget_eq`, `Dg.bget_triple`, `Dg.pfInput`, `Dg.len_le`, `Dg.len_eq`, `Dg.pfInput_eq`
  * `Dg.PInv`, `Dg.PExit`, `Dg.pinv_step`, `Dg.pinv_break`, `Dg.pinv_end`, `Dg.pexit_nil`,
    `Dg.pexit_cons`, `Dg.pinv_enter`, `Dg.verb_at`, `Dg.prec_dot*`, `Dg.prec_nodot`, `Dg.verb_exit`
  * `Dg.parseFormat_triple`, `Dg.parseFormat_eq`, `Dg.parseFormat_eq_toList`
  What the specification computes on grammatical input:
  * `Dg.isFlagB`, `Dg.applyFlag`, `Dg.isDig8`, `Dg.accW`, `Dg.accP`, `Dg.setW`, `Dg.setP`
  * `Dg.pfFlags_append`, `Dg.pfWidthDigits_append`, `Dg.pfPrecDigits_append`, `Dg.parseSpec_grammar`
  * `Dg.flags_fold` : the flag fields after a run of flag bytes
  * `Dg.widOf`, `Dg.precOf`, `Dg.verbOf`, `Dg.grammar_fields` : all eight result fields, explicitly
  * `Dg.numeral_value` : numerals of up to six digits are read as decimal numbers
  * `Dg.acc_fold_gen`, `Dg.accW_fold_eq`, `Dg.accP_fold_eq` : below the saturation bound the folds are
    decimal numbers
  (`D128/Proofs/DigitsParseBound.lean`: EVERY parsed spec has precision −1 or in `[0, 10^6)`)
-/
import D128.Proofs.Digits

set_option autoImplicit false
set_option maxRecDepth 4096
set_option linter.unusedVariables false
set_option linter.unusedSimpArgs false
open Std.Do

namespace Dg


theorem bget_eq (b : Go.Bytes) (i : Int) (h0 : 0 ≤ i) (h1 : i.toNat < b.size) :
    Go.bget b i = .ok (b[i.toNat]'h1) := by
  unfold Go.bget; rw [dif_pos ⟨h0, h1⟩]; rfl

@[spec] theorem bget_triple (b : Go.Bytes) (i : Int) :
    ⦃⌜0 ≤ i ∧ i.toNat < b.size⌝⦄ Go.bget b i ⦃⇓ r => ⌜r = b[i.toNat]?.getD 0⌝⦄ := by
  mintro ⌜h⌝
  rw [bget_eq b i h.1 h.2]
  exact Triple.pure (m := Go.GoM) _ (by simp [h.2])

/-! ## the specification: a recursive-descent reading of `flags* width? ('.' prec?)? verb` -/

/-- initial arguments: everything off, precision "absent" (−1) -/
def pfInit : Gen.formatArgs := { (default : Gen.formatArgs) with prec := (-1 : Int64) }

/-- exactly one byte left: it is the verb; otherwise (nothing, or trailing bytes) the verb stays 0 -/
def pfVerb (a : Gen.formatArgs) : List UInt8 → Gen.formatArgs
  | [v] => { a with verb := v }
  | _ => a

/-- further precision digits (saturating: beyond 10^5 the precision becomes "absent" and stays so) -/
def pfPrecDigits (a : Gen.formatArgs) : List UInt8 → Gen.formatArgs
  | [] => a
  | c :: t =>
    if (decide (c < 48) || decide (c > 57)) = true then pfVerb a (c :: t)
    else if (decide (a.prec ≥ 0) && decide (a.prec < 100000)) = true then
      pfPrecDigits { a with prec := a.prec * 10 + (Go.conv (c - 48) : Int64) } t
    else pfPrecDigits { a with prec := (-1 : Int64) } t

/-- optional `.precision` -/
def pfPrec (a : Gen.formatArgs) : List UInt8 → Gen.formatArgs
  | [] => a
  | c :: t =>
    if (c == 46) = true then
      match t with
      | [] => { a with prec := 0 }
      | c3 :: t3 =>
        if (decide (c3 < 48) || decide (c3 > 57)) = true then pfVerb { a with prec := 0 } (c3 :: t3)
        else pfPrecDigits { a with prec := (Go.conv (c3 - 48) : Int64) } t3
    else pfVerb a (c :: t)

/-- further width digits (saturating: beyond 10^5 the width becomes 0) -/
def pfWidthDigits (a : Gen.formatArgs) : List UInt8 → Gen.formatArgs
  | [] => a
  | c :: t =>
    if (decide (c < 48) || decide (c > 57)) = true then pfPrec a (c :: t)
    else if decide (a.wid < 100000) = true then
      pfWidthDigits { a with wid := a.wid * 10 + (Go.conv (c - 48) : Int64) } t
    else pfWidthDigits { a with wid := (0 : Int64) } t

/-- optional width, starting with a digit 1–9 -/
def pfWidth (a : Gen.formatArgs) : List UInt8 → Gen.formatArgs
  | [] => a
  | c :: t =>
    if (decide (c ≥ 49) && decide (c ≤ 57)) = true then
      pfWidthDigits { a with wid := (Go.conv (c - 48) : Int64) } t
    else pfPrec a (c :: t)

/-- flags ` #+-0` in any order and number; `-` clears and blocks `0` -/
def pfFlags (a : Gen.formatArgs) : List UInt8 → Gen.formatArgs
  | [] => a
  | c :: t =>
    if (c == 32) = true then pfFlags { a with padSign := true } t
    else if (c == 35) = true then pfFlags { a with forceDP := true } t
    else if (c == 43) = true then pfFlags { a with printSign := true } t
    else if (c == 45) = true then pfFlags { a with padRight := true, padZero := false } t
    else if (c == 48) = true then pfFlags { a with padZero := !a.padRight } t
    else pfWidth a (c :: t)

/-- the specified result of `parseFormat` on a byte string -/
def parseSpec (L : List UInt8) : Gen.formatArgs := pfFlags pfInit L

/-! ## the Hoare triple -/

/-- the part of the string the code can see (`len` is an `int`): all of it below 2^63 bytes -/
def pfInput (s : Go.Bytes) : List UInt8 := s.toList.take (Go.len s).toInt.toNat

theorem len_le (s : Go.Bytes) : (Go.len s).toInt ≤ s.size := by
  show (Int64.ofNat s.size).toInt ≤ _
  have hs : Int64.size = 18446744073709551616 := rfl
  rw [Int64.toInt_ofNat', hs, Int.bmod_eq_emod]
  split <;> omega

theorem len_eq (s : Go.Bytes) (h : s.size < 2 ^ 63) : (Go.len s).toInt = s.size := by
  show (Int64.ofNat s.size).toInt = _
  exact Int64.toInt_ofNat_of_lt h

theorem pfInput_eq (s : Go.Bytes) (h : s.size < 2 ^ 63) : pfInput s = s.toList := by
  unfold pfInput; rw [len_eq s h]
  apply List.take_of_length_le; simp

theorem pfInput_drop (s : Go.Bytes) (i : Nat) (h : (i : Int) < (Go.len s).toInt) :
    (pfInput s).drop i = (s[i]?.getD 0) :: (pfInput s).drop (i + 1) := by
  have hl := len_le s
  have hi : i < (pfInput s).length := by
    unfold pfInput; rw [List.length_take, Array.length_toList]; omega
  rw [List.drop_eq_getElem_cons hi]
  congr 1
  unfold pfInput
  have : i < s.size := by omega
  simp [this]

theorem pfInput_drop_end (s : Go.Bytes) (i : Nat) (h : (Go.len s).toInt ≤ (i : Int)) :
    (pfInput s).drop i = [] := by
  apply List.drop_eq_nil_of_le
  unfold pfInput; rw [List.length_take, Array.length_toList]; omega

/-- loop invariant: parsing the rest of the input with continuation `K` from the current arguments
gives the specified result -/
def PInv (K : Gen.formatArgs → List UInt8 → Gen.formatArgs) (s : Go.Bytes)
    (st : Gen.formatArgs × UInt8 × Int64) : Prop :=
  0 ≤ st.2.2.toInt ∧ parseSpec (pfInput s) = K st.1 ((pfInput s).drop st.2.2.toInt.toNat)

/-- loop exit: additionally `c` is the current byte if there is one -/
def PExit (K : Gen.formatArgs → List UInt8 → Gen.formatArgs) (s : Go.Bytes)
    (st : Gen.formatArgs × UInt8 × Int64) : Prop :=
  PInv K s st ∧ (st.2.2.toInt < (Go.len s).toInt → st.2.1 = s[st.2.2.toInt.toNat]?.getD 0)


/-! ### Int64 conditions as integer facts -/

theorem lt_of_not_ge {i n : Int64} (h : ¬ decide (i ≥ n) = true) : i.toInt < n.toInt := by
  have h' : ¬ n ≤ i := by simpa using h
  rw [Int64.le_iff_toInt_le] at h'; omega

theorem le_of_ge {i n : Int64} (h : decide (i ≥ n) = true) : n.toInt ≤ i.toInt := by
  have h' : n ≤ i := by simpa using h
  exact Int64.le_iff_toInt_le.mp h'

theorem lt_of_dlt {i n : Int64} (h : decide (i < n) = true) : i.toInt < n.toInt :=
  Int64.lt_iff_toInt_lt.mp (of_decide_eq_true h)

theorem ge_of_not_dlt {i n : Int64} (h : ¬ decide (i < n) = true) : n.toInt ≤ i.toInt := by
  have h' : ¬ i < n := by simpa using h
  rw [Int64.lt_iff_toInt_lt] at h'; omega

theorem toInt_lt_max (n : Int64) : n.toInt < 2 ^ 63 := n.toInt_lt

theorem succ_toInt {i n : Int64} (h0 : 0 ≤ i.toInt) (h : i.toInt < n.toInt) :
    (i + 1).toInt = i.toInt + 1 := by
  have e1 : (1 : Int64).toInt = 1 := by decide
  have := toInt_lt_max n
  rw [i64_add _ _ (by rw [e1]; omega) (by rw [e1]; omega), e1]

theorem pred_toInt {n : Int64} (h : 0 < n.toInt) : (n - 1).toInt = n.toInt - 1 := by
  have e1 : (1 : Int64).toInt = 1 := by decide
  have := toInt_lt_max n
  rw [i64_sub _ _ (by rw [e1]; omega) (by rw [e1]; omega), e1]

theorem idx_ok (s : Go.Bytes) (i : Int64) (h0 : 0 ≤ i.toInt) (h : i.toInt < (Go.len s).toInt) :
    0 ≤ Go.idx i ∧ (Go.idx i).toNat < Array.size s := by
  have := len_le s
  show 0 ≤ i.toInt ∧ i.toInt.toNat < s.size
  omega

/-! ### invariant plumbing -/

theorem pinv_idx {K : Gen.formatArgs → List UInt8 → Gen.formatArgs} {s : Go.Bytes}
    {st : Gen.formatArgs × UInt8 × Int64} {mb : Nat}
    (h : mb = ((Go.len s).toInt - st.2.2.toInt).toNat ∧ PInv K s st)
    (hlt : decide (st.2.2 < Go.len s) = true) :
    0 ≤ Go.idx st.2.2 ∧ (Go.idx st.2.2).toNat < Array.size s :=
  idx_ok s _ h.2.1 (lt_of_dlt hlt)

/-- one more byte consumed inside a loop -/
theorem pinv_step {K K' : Gen.formatArgs → List UInt8 → Gen.formatArgs} {s : Go.Bytes}
    {st : Gen.formatArgs × UInt8 × Int64} {mb : Nat} {c : UInt8} (a' : Gen.formatArgs)
    (h : mb = ((Go.len s).toInt - st.2.2.toInt).toNat ∧ PInv K s st)
    (hlt : decide (st.2.2 < Go.len s) = true)
    (hc : c = s[(Go.idx st.2.2).toNat]?.getD 0)
    (hK : ∀ t, K st.1 (c :: t) = K' a' t) :
    ∃ a, a = ((Go.len s).toInt - (st.2.2 + 1).toInt).toNat ∧ a < mb ∧ PInv K' s (a', c, st.2.2 + 1) := by
  obtain ⟨hmb, h0, hsp⟩ := h
  have hl := lt_of_dlt hlt
  have hs := succ_toInt h0 hl
  refine ⟨_, rfl, by rw [hmb, hs]; omega, by show 0 ≤ (st.2.2 + 1).toInt; rw [hs]; omega, ?_⟩
  show parseSpec (pfInput s) = K' a' ((pfInput s).drop (st.2.2 + 1).toInt.toNat)
  rw [hsp, pfInput_drop s st.2.2.toInt.toNat (by omega), hs]
  have : (st.2.2.toInt + 1).toNat = st.2.2.toInt.toNat + 1 := by omega
  rw [this, ← hK]
  congr 2
  rw [hc]; rfl

/-- leaving a loop by `break` at a byte that does not belong to the phase -/
theorem pinv_break {K K' : Gen.formatArgs → List UInt8 → Gen.formatArgs} {s : Go.Bytes}
    {st : Gen.formatArgs × UInt8 × Int64} {mb : Nat} {c : UInt8}
    (h : mb = ((Go.len s).toInt - st.2.2.toInt).toNat ∧ PInv K s st)
    (hlt : decide (st.2.2 < Go.len s) = true)
    (hc : c = s[(Go.idx st.2.2).toNat]?.getD 0)
    (hK : ∀ t, K st.1 (c :: t) = K' st.1 (c :: t)) :
    PExit K' s (st.1, c, st.2.2) := by
  obtain ⟨_, h0, hsp⟩ := h
  have hl := lt_of_dlt hlt
  refine ⟨⟨h0, ?_⟩, fun _ => hc⟩
  show parseSpec (pfInput s) = K' st.1 ((pfInput s).drop st.2.2.toInt.toNat)
  rw [hsp, pfInput_drop s st.2.2.toInt.toNat (by omega)]
  have : s[st.2.2.toInt.toNat]?.getD 0 = c := by rw [hc]; rfl
  rw [this, hK]

/-- leaving a loop because the input is exhausted -/
theorem pinv_end {K K' : Gen.formatArgs → List UInt8 → Gen.formatArgs} {s : Go.Bytes}
    {st : Gen.formatArgs × UInt8 × Int64} {mb : Nat}
    (h : mb = ((Go.len s).toInt - st.2.2.toInt).toNat ∧ PInv K s st)
    (hge : ¬ decide (st.2.2 < Go.len s) = true)
    (hK : ∀ a, K a [] = K' a []) :
    PExit K' s (st.1, st.2.1, st.2.2) := by
  obtain ⟨_, h0, hsp⟩ := h
  have hl := ge_of_not_dlt hge
  refine ⟨⟨h0, ?_⟩, fun h => absurd h (by show ¬ st.2.2.toInt < _; omega)⟩
  show parseSpec (pfInput s) = K' st.1 ((pfInput s).drop st.2.2.toInt.toNat)
  rw [hsp, pfInput_drop_end s _ (by omega), hK]

/-- after a loop, input exhausted: the continuation sees `[]` -/
theorem pexit_nil {K : Gen.formatArgs → List UInt8 → Gen.formatArgs} {s : Go.Bytes}
    {st : Gen.formatArgs × UInt8 × Int64} (h : PExit K s st)
    (hge : decide (st.2.2 ≥ Go.len s) = true) : parseSpec (pfInput s) = K st.1 [] := by
  obtain ⟨⟨h0, hsp⟩, _⟩ := h
  rw [hsp, pfInput_drop_end s _ (by have := le_of_ge hge; omega)]

/-- after a loop, a current byte exists -/
theorem pexit_cons {K : Gen.formatArgs → List UInt8 → Gen.formatArgs} {s : Go.Bytes}
    {st : Gen.formatArgs × UInt8 × Int64} (h : PExit K s st)
    (hlt : ¬ decide (st.2.2 ≥ Go.len s) = true) :
    0 ≤ st.2.2.toInt ∧ st.2.2.toInt < (Go.len s).toInt ∧
      parseSpec (pfInput s) = K st.1 (st.2.1 :: (pfInput s).drop (st.2.2.toInt.toNat + 1)) := by
  obtain ⟨⟨h0, hsp⟩, hc⟩ := h
  have hl := lt_of_not_ge hlt
  refine ⟨h0, hl, ?_⟩
  rw [hsp, pfInput_drop s st.2.2.toInt.toNat (by omega), hc hl]

/-- entering a loop after consuming the current byte -/
theorem pinv_enter {K' : Gen.formatArgs → List UInt8 → Gen.formatArgs} {s : Go.Bytes}
    {i : Int64} (a' : Gen.formatArgs) (c' : UInt8) (h0 : 0 ≤ i.toInt) (hl : i.toInt < (Go.len s).toInt)
    (hsp : parseSpec (pfInput s) = K' a' ((pfInput s).drop (i.toInt.toNat + 1))) :
    PInv K' s (a', c', i + 1) := by
  have hs := succ_toInt h0 hl
  refine ⟨by show 0 ≤ (i + 1).toInt; rw [hs]; omega, ?_⟩
  show parseSpec (pfInput s) = K' a' ((pfInput s).drop (i + 1).toInt.toNat)
  rw [hs]
  have : (i.toInt + 1).toNat = i.toInt.toNat + 1 := by omega
  rw [this]; exact hsp

theorem drop_succ_nil (s : Go.Bytes) (i : Int64) (h0 : 0 ≤ i.toInt)
    (h : (Go.len s).toInt ≤ i.toInt + 1) : (pfInput s).drop (i.toInt.toNat + 1) = [] :=
  pfInput_drop_end s _ (by omega)

/-- the verb phase at position `i`: the verb is set iff `i` is the last position -/
theorem verb_at (s : Go.Bytes) (a : Gen.formatArgs) (c : UInt8) (i : Int64) (h0 : 0 ≤ i.toInt)
    (hl : i.toInt < (Go.len s).toInt) :
    pfVerb a (c :: (pfInput s).drop (i.toInt.toNat + 1)) =
      if (i != Go.len s - 1) = true then a else { a with verb := c } := by
  have hp := pred_toInt (n := Go.len s) (by omega)
  by_cases hlast : i.toInt = (Go.len s).toInt - 1
  · have : i = Go.len s - 1 := Int64.toInt_inj.mp (by rw [hp]; exact hlast)
    rw [if_neg (by simp [this]), drop_succ_nil s i h0 (by omega)]
    rfl
  · have hne : i ≠ Go.len s - 1 := fun e => hlast (by rw [e, hp])
    rw [if_pos (by simpa using hne), pfInput_drop s (i.toInt.toNat + 1) (by omega)]
    rfl

/-- no width: the width phase hands over to the precision phase -/
theorem pexit_width_to_prec {s : Go.Bytes} {st : Gen.formatArgs × UInt8 × Int64}
    (h : PExit pfWidth s st) (hlt : ¬ decide (st.2.2 ≥ Go.len s) = true)
    (hw : ¬ (decide (st.2.1 ≥ 49) && decide (st.2.1 ≤ 57)) = true) : PExit pfPrec s st := by
  obtain ⟨h0, hl, hsp⟩ := pexit_cons h hlt
  obtain ⟨⟨_, _⟩, hc⟩ := h
  refine ⟨⟨h0, ?_⟩, hc⟩
  show parseSpec (pfInput s) = pfPrec st.1 ((pfInput s).drop st.2.2.toInt.toNat)
  rw [pfInput_drop s st.2.2.toInt.toNat (by omega), ← hc hl, hsp, pfWidth]
  simp only [hw, if_false, Bool.false_eq_true]

/-- `.` is the last byte: precision 0, no verb -/
theorem prec_dot_end {s : Go.Bytes} {st : Gen.formatArgs × UInt8 × Int64}
    (h : PExit pfPrec s st) (hlt : ¬ decide (st.2.2 ≥ Go.len s) = true)
    (hdot : (st.2.1 == 46) = true) (hend : decide (st.2.2 + 1 ≥ Go.len s) = true) :
    ({ st.1 with prec := (0 : Int64) } : Gen.formatArgs) = parseSpec (pfInput s) := by
  obtain ⟨h0, hl, hsp⟩ := pexit_cons h hlt
  have hs := succ_toInt h0 hl
  have he := le_of_ge hend
  rw [hs] at he
  rw [hsp, drop_succ_nil s _ h0 he, pfPrec]
  simp only [hdot, if_true]

theorem prec_dot_idx {s : Go.Bytes} {st : Gen.formatArgs × UInt8 × Int64}
    (h : PExit pfPrec s st) (hlt : ¬ decide (st.2.2 ≥ Go.len s) = true)
    (hnend : ¬ decide (st.2.2 + 1 ≥ Go.len s) = true) :
    0 ≤ Go.idx (st.2.2 + 1) ∧ (Go.idx (st.2.2 + 1)).toNat < Array.size s := by
  obtain ⟨h0, hl, _⟩ := pexit_cons h hlt
  have hs := succ_toInt h0 hl
  exact idx_ok s _ (by rw [hs]; omega) (lt_of_not_ge hnend)

/-- `.` followed by the byte `c3` -/
theorem prec_dot {s : Go.Bytes} {st : Gen.formatArgs × UInt8 × Int64} {c3 : UInt8}
    (h : PExit pfPrec s st) (hlt : ¬ decide (st.2.2 ≥ Go.len s) = true)
    (hdot : (st.2.1 == 46) = true) (hnend : ¬ decide (st.2.2 + 1 ≥ Go.len s) = true)
    (hc3 : c3 = s[(Go.idx (st.2.2 + 1)).toNat]?.getD 0) :
    0 ≤ (st.2.2 + 1).toInt ∧ (st.2.2 + 1).toInt < (Go.len s).toInt ∧
    parseSpec (pfInput s) =
      if (decide (c3 < 48) || decide (c3 > 57)) = true then
        pfVerb { st.1 with prec := (0 : Int64) } (c3 :: (pfInput s).drop ((st.2.2 + 1).toInt.toNat + 1))
      else pfPrecDigits { st.1 with prec := (Go.conv (c3 - 48) : Int64) }
        ((pfInput s).drop ((st.2.2 + 1).toInt.toNat + 1)) := by
  obtain ⟨h0, hl, hsp⟩ := pexit_cons h hlt
  have hs := succ_toInt h0 hl
  have hl1 := lt_of_not_ge hnend
  refine ⟨by rw [hs]; omega, hl1, ?_⟩
  have e : st.2.2.toInt.toNat + 1 = (st.2.2 + 1).toInt.toNat := by rw [hs]; omega
  rw [hsp, e, pfInput_drop s (st.2.2 + 1).toInt.toNat (by rw [hs] at hl1 ⊢; omega), pfPrec]
  have : s[(st.2.2 + 1).toInt.toNat]?.getD 0 = c3 := by rw [hc3]; rfl
  simp only [hdot, if_true, this]

/-- final step: `c` at position `i` is the verb iff it is the last byte -/
theorem verb_final {s : Go.Bytes} {a : Gen.formatArgs} {c : UInt8} {i : Int64}
    (h0 : 0 ≤ i.toInt) (hl : i.toInt < (Go.len s).toInt)
    (hsp : parseSpec (pfInput s) = pfVerb a (c :: (pfInput s).drop (i.toInt.toNat + 1))) :
    parseSpec (pfInput s) = if (i != Go.len s - 1) = true then a else { a with verb := c } := by
  rw [hsp, verb_at s a c i h0 hl]

/-- not a `.`: the precision phase hands over to the verb phase -/
theorem prec_nodot {s : Go.Bytes} {st : Gen.formatArgs × UInt8 × Int64}
    (h : PExit pfPrec s st) (hlt : ¬ decide (st.2.2 ≥ Go.len s) = true)
    (hdot : ¬ (st.2.1 == 46) = true) :
    parseSpec (pfInput s) =
      if (st.2.2 != Go.len s - 1) = true then st.1 else { st.1 with verb := st.2.1 } := by
  obtain ⟨h0, hl, hsp⟩ := pexit_cons h hlt
  apply verb_final h0 hl
  rw [hsp, pfPrec.eq_def]
  simp only [hdot, if_false, Bool.false_eq_true]

theorem verb_exit {s : Go.Bytes} {st : Gen.formatArgs × UInt8 × Int64}
    (h : PExit pfVerb s st) (hlt : ¬ decide (st.2.2 ≥ Go.len s) = true) :
    parseSpec (pfInput s) =
      if (st.2.2 != Go.len s - 1) = true then st.1 else { st.1 with verb := st.2.1 } := by
  obtain ⟨h0, hl, hsp⟩ := pexit_cons h hlt
  exact verb_final h0 hl hsp

set_option mvcgen.warning false
theorem parseFormat_triple (s : Go.Bytes) (a : Gen.formatArgs) :
    ⦃⌜True⌝⦄ Gen.parseFormat s a ⦃⇓ r => ⌜r = parseSpec (pfInput s)⌝⦄ := by
  mvcgen [Gen.parseFormat]
  case inv1 => exact fun st => ⟨((Go.len s).toInt - st.2.2.toInt).toNat⟩
  case inv2 => exact ⇓ x => match x with
    | .inl st => ⌜PInv pfFlags s st⌝
    | .inr st => ⌜PExit pfWidth s st⌝
  case inv3 => exact fun st => ⟨((Go.len s).toInt - st.2.2.toInt).toNat⟩
  case inv4 => exact ⇓ x => match x with
    | .inl st => ⌜PInv pfWidthDigits s st⌝
    | .inr st => ⌜PExit pfPrec s st⌝
  case inv5 => exact fun st => ⟨((Go.len s).toInt - st.2.2.toInt).toNat⟩
  case inv6 => exact ⇓ x => match x with
    | .inl st => ⌜PInv pfPrecDigits s st⌝
    | .inr st => ⌜PExit pfVerb s st⌝
  case inv7 => exact fun st => ⟨((Go.len s).toInt - st.2.2.toInt).toNat⟩
  case inv8 => exact ⇓ x => match x with
    | .inl st => ⌜PInv pfPrecDigits s st⌝
    | .inr st => ⌜PExit pfVerb s st⌝
  all_goals (try mleave)
  all_goals (try (simp +zetaDelta only [WhileVariant.eval, SVal.evalsTo, SVal.curry_nil,
    SVal.uncurry_nil, SPred.down_pure, ULift.up.injEq] at *))
  -- flags loop
  case vc1 => exact pinv_idx ‹_ ∧ PInv _ _ _› ‹decide (_ < _) = true›
  case vc2 =>
    exact pinv_step _ ‹_ ∧ PInv _ _ _› ‹decide (_ < _) = true› ‹(_ : UInt8) = Option.getD _ 0›
      (fun t => by rw [pfFlags]; simp only [‹(_ == (32 : UInt8)) = true›, if_true])
  case vc3 =>
    exact pinv_step _ ‹_ ∧ PInv _ _ _› ‹decide (_ < _) = true› ‹(_ : UInt8) = Option.getD _ 0›
      (fun t => by rw [pfFlags]; simp only [‹¬ (_ == (32 : UInt8)) = true›,
        ‹(_ == (35 : UInt8)) = true›, if_true, if_false, Bool.false_eq_true])
  case vc4 =>
    exact pinv_step _ ‹_ ∧ PInv _ _ _› ‹decide (_ < _) = true› ‹(_ : UInt8) = Option.getD _ 0›
      (fun t => by rw [pfFlags]; simp only [‹¬ (_ == (32 : UInt8)) = true›,
        ‹¬ (_ == (35 : UInt8)) = true›, ‹(_ == (43 : UInt8)) = true›, if_true, if_false, Bool.false_eq_true])
  case vc5 =>
    exact pinv_step _ ‹_ ∧ PInv _ _ _› ‹decide (_ < _) = true› ‹(_ : UInt8) = Option.getD _ 0›
      (fun t => by rw [pfFlags]; simp only [‹¬ (_ == (32 : UInt8)) = true›,
        ‹¬ (_ == (35 : UInt8)) = true›, ‹¬ (_ == (43 : UInt8)) = true›,
        ‹(_ == (45 : UInt8)) = true›, if_true, if_false, Bool.false_eq_true])
  case vc6 =>
    exact pinv_step _ ‹_ ∧ PInv _ _ _› ‹decide (_ < _) = true› ‹(_ : UInt8) = Option.getD _ 0›
      (fun t => by rw [pfFlags]; simp only [‹¬ (_ == (32 : UInt8)) = true›,
        ‹¬ (_ == (35 : UInt8)) = true›, ‹¬ (_ == (43 : UInt8)) = true›,
        ‹¬ (_ == (45 : UInt8)) = true›, ‹(_ == (48 : UInt8)) = true›, if_true, if_false, Bool.false_eq_true])
  case vc7 =>
    exact pinv_break ‹_ ∧ PInv _ _ _› ‹decide (_ < _) = true› ‹(_ : UInt8) = Option.getD _ 0›
      (fun t => by rw [pfFlags]; simp only [‹¬ (_ == (32 : UInt8)) = true›,
        ‹¬ (_ == (35 : UInt8)) = true›, ‹¬ (_ == (43 : UInt8)) = true›,
        ‹¬ (_ == (45 : UInt8)) = true›, ‹¬ (_ == (48 : UInt8)) = true›, if_false, Bool.false_eq_true])
  case vc8 => exact pinv_end ‹_ ∧ PInv pfFlags _ _› ‹¬ decide (_ < _) = true› (fun _ => rfl)
  case vc9 => exact ⟨by decide, rfl⟩
  case vc10 => rw [pexit_nil ‹PExit pfWidth _ _› ‹decide (_ ≥ _) = true›]; rfl
  -- width loop
  case vc11 => exact pinv_idx ‹_ ∧ PInv _ _ _› ‹decide (_ < _) = true›
  case vc12 =>
    exact pinv_break ‹_ ∧ PInv pfWidthDigits _ _› ‹decide (_ < _) = true› ‹(_ : UInt8) = Option.getD _ 0›
      (fun t => by rw [pfWidthDigits]; simp only [‹(decide (_ < (48 : UInt8)) || _) = true›, if_true])
  case vc13 =>
    exact pinv_step _ ‹_ ∧ PInv pfWidthDigits _ _› ‹decide (_ < _) = true›
      ‹(_ : UInt8) = Option.getD _ 0›
      (fun t => by rw [pfWidthDigits]; simp only [‹¬ (decide (_ < (48 : UInt8)) || _) = true›,
        ‹decide (_ < (100000 : Int64)) = true›, if_true, if_false, Bool.false_eq_true])
  case vc14 =>
    exact pinv_step _ ‹_ ∧ PInv pfWidthDigits _ _› ‹decide (_ < _) = true›
      ‹(_ : UInt8) = Option.getD _ 0›
      (fun t => by rw [pfWidthDigits]; simp only [‹¬ (decide (_ < (48 : UInt8)) || _) = true›,
        ‹¬ decide (_ < (100000 : Int64)) = true›, if_true, if_false, Bool.false_eq_true])
  case vc15 => exact pinv_end ‹_ ∧ PInv pfWidthDigits _ _› ‹¬ decide (_ < _) = true› (fun _ => rfl)
  case vc16 =>
    obtain ⟨h0, hl, hsp⟩ := pexit_cons ‹PExit pfWidth _ _› ‹¬ decide (_ ≥ _) = true›
    refine pinv_enter _ _ h0 hl ?_
    rw [hsp, pfWidth]; simp only [‹(decide (_ ≥ (49 : UInt8)) && _) = true›, if_true]
  case vc17 => rw [pexit_nil ‹PExit pfPrec _ _› ‹decide (_ ≥ _) = true›]; rfl
  -- precision phase after a width
  case vc18 =>
    exact prec_dot_end ‹PExit pfPrec _ _› ‹¬ decide (_ ≥ _) = true› ‹(_ == (46 : UInt8)) = true›
      (by assumption)
  case vc19 =>
    exact prec_dot_idx ‹PExit pfPrec _ _› ‹¬ decide (_ ≥ _) = true› (by assumption)
  case vc20 =>
    obtain ⟨h0', hl', hsp⟩ := prec_dot ‹PExit pfPrec _ _› ‹¬ decide (_ ≥ _) = true›
      ‹(_ == (46 : UInt8)) = true› (by assumption) ‹(_ : UInt8) = Option.getD _ 0›
    rw [if_pos ‹(decide (_ < (48 : UInt8)) || _) = true›] at hsp
    rw [verb_final h0' hl' hsp, if_pos ‹(_ != _) = true›]
  case vc21 =>
    obtain ⟨h0', hl', hsp⟩ := prec_dot ‹PExit pfPrec _ _› ‹¬ decide (_ ≥ _) = true›
      ‹(_ == (46 : UInt8)) = true› (by assumption) ‹(_ : UInt8) = Option.getD _ 0›
    rw [if_pos ‹(decide (_ < (48 : UInt8)) || _) = true›] at hsp
    rw [verb_final h0' hl' hsp, if_neg ‹¬ (_ != _) = true›]
  case vc22 => exact pinv_idx ‹_ ∧ PInv _ _ _› ‹decide (_ < _) = true›
  case vc23 =>
    exact pinv_break ‹_ ∧ PInv pfPrecDigits _ _› ‹decide (_ < _) = true› ‹(_ : UInt8) = Option.getD _ 0›
      (fun t => by rw [pfPrecDigits]; simp only [‹(decide (_ < (48 : UInt8)) || _) = true›, if_true])
  case vc24 =>
    exact pinv_step _ ‹_ ∧ PInv pfPrecDigits _ _› ‹decide (_ < _) = true›
      ‹(_ : UInt8) = Option.getD _ 0›
      (fun t => by rw [pfPrecDigits]; simp only [‹¬ (decide (_ < (48 : UInt8)) || _) = true›,
        ‹(decide (_ ≥ (0 : Int64)) && _) = true›, if_true, if_false, Bool.false_eq_true])
  case vc25 =>
    exact pinv_step _ ‹_ ∧ PInv pfPrecDigits _ _› ‹decide (_ < _) = true›
      ‹(_ : UInt8) = Option.getD _ 0›
      (fun t => by rw [pfPrecDigits]; simp only [‹¬ (decide (_ < (48 : UInt8)) || _) = true›,
        ‹¬ (decide (_ ≥ (0 : Int64)) && _) = true›, if_true, if_false, Bool.false_eq_true])
  case vc26 => exact pinv_end ‹_ ∧ PInv pfPrecDigits _ _› ‹¬ decide (_ < _) = true› (fun _ => rfl)
  case vc27 =>
    obtain ⟨h0', hl', hsp⟩ := prec_dot ‹PExit pfPrec _ _› ‹¬ decide (_ ≥ _) = true›
      ‹(_ == (46 : UInt8)) = true› (by assumption) ‹(_ : UInt8) = Option.getD _ 0›
    rw [if_neg ‹¬ (decide (_ < (48 : UInt8)) || _) = true›] at hsp
    exact pinv_enter _ _ h0' hl' hsp
  case vc28 => rw [pexit_nil ‹PExit pfVerb _ _› ‹decide (_ ≥ _) = true›]; rfl
  case vc29 =>
    rw [verb_exit ‹PExit pfVerb _ _› ‹¬ decide (_ ≥ _) = true›, if_pos ‹(_ != _) = true›]
  case vc30 =>
    rw [verb_exit ‹PExit pfVerb _ _› ‹¬ decide (_ ≥ _) = true›, if_neg ‹¬ (_ != _) = true›]
  case vc32 =>
    rw [prec_nodot ‹PExit pfPrec _ _› ‹¬ decide (_ ≥ _) = true› ‹¬ (_ == (46 : UInt8)) = true›,
      if_pos ‹(_ != _) = true›]
  case vc33 =>
    rw [prec_nodot ‹PExit pfPrec _ _› ‹¬ decide (_ ≥ _) = true› ‹¬ (_ == (46 : UInt8)) = true›,
      if_neg ‹¬ (_ != _) = true›]
  -- precision phase without a width
  case vc35 =>
    have hP := pexit_width_to_prec ‹PExit pfWidth _ _› ‹¬ decide (_ ≥ _) = true›
      ‹¬ (decide (_ ≥ (49 : UInt8)) && _) = true›
    exact prec_dot_end hP ‹¬ decide (_ ≥ _) = true› ‹(_ == (46 : UInt8)) = true›
      (by assumption)
  case vc36 =>
    have hP := pexit_width_to_prec ‹PExit pfWidth _ _› ‹¬ decide (_ ≥ _) = true›
      ‹¬ (decide (_ ≥ (49 : UInt8)) && _) = true›
    exact prec_dot_idx hP ‹¬ decide (_ ≥ _) = true› (by assumption)
  case vc37 =>
    have hP := pexit_width_to_prec ‹PExit pfWidth _ _› ‹¬ decide (_ ≥ _) = true›
      ‹¬ (decide (_ ≥ (49 : UInt8)) && _) = true›
    obtain ⟨h0', hl', hsp⟩ := prec_dot hP ‹¬ decide (_ ≥ _) = true›
      ‹(_ == (46 : UInt8)) = true› (by assumption) ‹(_ : UInt8) = Option.getD _ 0›
    rw [if_pos ‹(decide (_ < (48 : UInt8)) || _) = true›] at hsp
    rw [verb_final h0' hl' hsp, if_pos ‹(_ != _) = true›]
  case vc38 =>
    have hP := pexit_width_to_prec ‹PExit pfWidth _ _› ‹¬ decide (_ ≥ _) = true›
      ‹¬ (decide (_ ≥ (49 : UInt8)) && _) = true›
    obtain ⟨h0', hl', hsp⟩ := prec_dot hP ‹¬ decide (_ ≥ _) = true›
      ‹(_ == (46 : UInt8)) = true› (by assumption) ‹(_ : UInt8) = Option.getD _ 0›
    rw [if_pos ‹(decide (_ < (48 : UInt8)) || _) = true›] at hsp
    rw [verb_final h0' hl' hsp, if_neg ‹¬ (_ != _) = true›]
  case vc39 => exact pinv_idx ‹_ ∧ PInv _ _ _› ‹decide (_ < _) = true›
  case vc40 =>
    exact pinv_break ‹_ ∧ PInv pfPrecDigits _ _› ‹decide (_ < _) = true› ‹(_ : UInt8) = Option.getD _ 0›
      (fun t => by rw [pfPrecDigits]; simp only [‹(decide (_ < (48 : UInt8)) || _) = true›, if_true])
  case vc41 =>
    exact pinv_step _ ‹_ ∧ PInv pfPrecDigits _ _› ‹decide (_ < _) = true›
      ‹(_ : UInt8) = Option.getD _ 0›
      (fun t => by rw [pfPrecDigits]; simp only [‹¬ (decide (_ < (48 : UInt8)) || _) = true›,
        ‹(decide (_ ≥ (0 : Int64)) && _) = true›, if_true, if_false, Bool.false_eq_true])
  case vc42 =>
    exact pinv_step _ ‹_ ∧ PInv pfPrecDigits _ _› ‹decide (_ < _) = true›
      ‹(_ : UInt8) = Option.getD _ 0›
      (fun t => by rw [pfPrecDigits]; simp only [‹¬ (decide (_ < (48 : UInt8)) || _) = true›,
        ‹¬ (decide (_ ≥ (0 : Int64)) && _) = true›, if_true, if_false, Bool.false_eq_true])
  case vc43 => exact pinv_end ‹_ ∧ PInv pfPrecDigits _ _› ‹¬ decide (_ < _) = true› (fun _ => rfl)
  case vc44 =>
    have hP := pexit_width_to_prec ‹PExit pfWidth _ _› ‹¬ decide (_ ≥ _) = true›
      ‹¬ (decide (_ ≥ (49 : UInt8)) && _) = true›
    obtain ⟨h0', hl', hsp⟩ := prec_dot hP ‹¬ decide (_ ≥ _) = true›
      ‹(_ == (46 : UInt8)) = true› (by assumption) ‹(_ : UInt8) = Option.getD _ 0›
    rw [if_neg ‹¬ (decide (_ < (48 : UInt8)) || _) = true›] at hsp
    exact pinv_enter _ _ h0' hl' hsp
  case vc45 => rw [pexit_nil ‹PExit pfVerb _ _› ‹decide (_ ≥ _) = true›]; rfl
  case vc46 =>
    rw [verb_exit ‹PExit pfVerb _ _› ‹¬ decide (_ ≥ _) = true›, if_pos ‹(_ != _) = true›]
  case vc47 =>
    rw [verb_exit ‹PExit pfVerb _ _› ‹¬ decide (_ ≥ _) = true›, if_neg ‹¬ (_ != _) = true›]
  case vc49 =>
    have hP := pexit_width_to_prec ‹PExit pfWidth _ _› ‹¬ decide (_ ≥ _) = true›
      ‹¬ (decide (_ ≥ (49 : UInt8)) && _) = true›
    rw [prec_nodot hP ‹¬ decide (_ ≥ _) = true› ‹¬ (_ == (46 : UInt8)) = true›,
      if_pos ‹(_ != _) = true›]
  case vc50 =>
    have hP := pexit_width_to_prec ‹PExit pfWidth _ _› ‹¬ decide (_ ≥ _) = true›
      ‹¬ (decide (_ ≥ (49 : UInt8)) && _) = true›
    rw [prec_nodot hP ‹¬ decide (_ ≥ _) = true› ‹¬ (_ == (46 : UInt8)) = true›,
      if_neg ‹¬ (_ != _) = true›]


/-- `parseFormat` never panics, terminates, ignores the incoming `args`, and computes `parseSpec`
of its input — for every byte string. -/
theorem parseFormat_eq (s : Go.Bytes) (a : Gen.formatArgs) :
    Gen.parseFormat s a = .ok (parseSpec (pfInput s)) := by
  obtain ⟨r, hr, he⟩ := ok_of_triple (parseFormat_triple s a)
  rw [hr, he]

theorem parseFormat_eq_toList (s : Go.Bytes) (a : Gen.formatArgs) (h : s.size < 2 ^ 63) :
    Gen.parseFormat s a = .ok (parseSpec s.toList) := by
  rw [parseFormat_eq, pfInput_eq s h]


/-! ## what the specification computes on grammatical input -/

/-- flag byte: one of ` #+-0` -/
def isFlagB (c : UInt8) : Bool := c == 32 || c == 35 || c == 43 || c == 45 || c == 48

/-- effect of one flag byte -/
def applyFlag (a : Gen.formatArgs) (c : UInt8) : Gen.formatArgs :=
  if (c == 32) = true then { a with padSign := true }
  else if (c == 35) = true then { a with forceDP := true }
  else if (c == 43) = true then { a with printSign := true }
  else if (c == 45) = true then { a with padRight := true, padZero := false }
  else { a with padZero := !a.padRight }

/-- ASCII digit -/
def isDig8 (c : UInt8) : Bool := !(decide (c < 48) || decide (c > 57))

/-- one more width digit (saturating to 0 from 10^5 on) -/
def accW (w : Int64) (c : UInt8) : Int64 :=
  if decide (w < 100000) = true then w * 10 + (Go.conv (c - 48) : Int64) else 0

/-- one more precision digit (saturating to −1 = "absent" from 10^5 on, and staying there) -/
def accP (p : Int64) (c : UInt8) : Int64 :=
  if (decide (p ≥ 0) && decide (p < 100000)) = true then p * 10 + (Go.conv (c - 48) : Int64) else -1

/-- width field after an optional width numeral -/
def setW (a : Gen.formatArgs) : List UInt8 → Gen.formatArgs
  | [] => a
  | c :: ds => { a with wid := ds.foldl accW (Go.conv (c - 48) : Int64) }

/-- precision field after an optional `.digits` -/
def setP (a : Gen.formatArgs) : Option (List UInt8) → Gen.formatArgs
  | none => a
  | some [] => { a with prec := 0 }
  | some (c :: ds) => { a with prec := ds.foldl accP (Go.conv (c - 48) : Int64) }

/-- the bytes of an optional `.digits` part -/
def dotBytes : Option (List UInt8) → List UInt8
  | none => []
  | some pd => 46 :: pd

/-- a width numeral: empty, or a digit 1–9 followed by digits -/
def widthOK : List UInt8 → Prop
  | [] => True
  | c :: ds => (decide (c ≥ 49) && decide (c ≤ 57)) = true ∧ ∀ x ∈ ds, isDig8 x = true

/-- the next byte (if any) does not satisfy `p` -/
def headNot (p : UInt8 → Bool) : List UInt8 → Prop
  | [] => True
  | c :: _ => p c = false

theorem pfFlags_append (fl R : List UInt8) (a : Gen.formatArgs) (hfl : ∀ c ∈ fl, isFlagB c = true)
    (hR : headNot isFlagB R) : pfFlags a (fl ++ R) = pfWidth (fl.foldl applyFlag a) R := by
  induction fl generalizing a with
  | nil =>
    cases R with
    | nil => rfl
    | cons c t =>
      have h : isFlagB c = false := hR
      simp only [isFlagB, Bool.or_eq_false_iff] at h
      obtain ⟨⟨⟨⟨h1, h2⟩, h3⟩, h4⟩, h5⟩ := h
      simp only [List.nil_append, List.foldl_nil]
      rw [pfFlags]
      simp only [h1, h2, h3, h4, h5, Bool.false_eq_true, if_false]
  | cons c fl ih =>
    have hc : isFlagB c = true := hfl c (by simp)
    have ih' := fun a => ih a (fun x hx => hfl x (by simp [hx]))
    simp only [List.cons_append, List.foldl_cons]
    rw [pfFlags, ← ih']
    unfold applyFlag
    simp only [isFlagB, Bool.or_eq_true] at hc
    by_cases h1 : (c == 32) = true
    · simp only [h1, if_true]
    · by_cases h2 : (c == 35) = true
      · simp only [h1, h2, if_true, if_false, Bool.false_eq_true]
      · by_cases h3 : (c == 43) = true
        · simp only [h1, h2, h3, if_true, if_false, Bool.false_eq_true]
        · by_cases h4 : (c == 45) = true
          · simp only [h1, h2, h3, h4, if_true, if_false, Bool.false_eq_true]
          · have h5 : (c == 48) = true := by
              rcases hc with (((h | h) | h) | h) | h
              · exact absurd h h1
              · exact absurd h h2
              · exact absurd h h3
              · exact absurd h h4
              · exact h
            simp only [h1, h2, h3, h4, h5, if_true, if_false, Bool.false_eq_true]

theorem pfWidthDigits_append (ds R : List UInt8) (a : Gen.formatArgs)
    (hds : ∀ c ∈ ds, isDig8 c = true) (hR : headNot isDig8 R) :
    pfWidthDigits a (ds ++ R) = pfPrec { a with wid := ds.foldl accW a.wid } R := by
  induction ds generalizing a with
  | nil =>
    cases R with
    | nil => rfl
    | cons c t =>
      have h : isDig8 c = false := hR
      simp only [isDig8, Bool.not_eq_false'] at h
      simp only [List.nil_append, List.foldl_nil]
      rw [pfWidthDigits]
      simp only [h, if_true]
  | cons c ds ih =>
    have hc : isDig8 c = true := hds c (by simp)
    simp only [isDig8, Bool.not_eq_true'] at hc
    have ih' := fun a => ih a (fun x hx => hds x (by simp [hx]))
    simp only [List.cons_append, List.foldl_cons]
    rw [pfWidthDigits]
    simp only [hc, Bool.false_eq_true, if_false]
    by_cases hw : decide (a.wid < 100000) = true
    · rw [if_pos hw, ih']
      simp only [accW, hw, if_true]
    · rw [if_neg hw, ih']
      simp only [accW, hw, if_false, Bool.false_eq_true]

theorem pfPrecDigits_append (ds R : List UInt8) (a : Gen.formatArgs)
    (hds : ∀ c ∈ ds, isDig8 c = true) (hR : headNot isDig8 R) :
    pfPrecDigits a (ds ++ R) = pfVerb { a with prec := ds.foldl accP a.prec } R := by
  induction ds generalizing a with
  | nil =>
    cases R with
    | nil => rfl
    | cons c t =>
      have h : isDig8 c = false := hR
      simp only [isDig8, Bool.not_eq_false'] at h
      simp only [List.nil_append, List.foldl_nil]
      rw [pfPrecDigits]
      simp only [h, if_true]
  | cons c ds ih =>
    have hc : isDig8 c = true := hds c (by simp)
    simp only [isDig8, Bool.not_eq_true'] at hc
    have ih' := fun a => ih a (fun x hx => hds x (by simp [hx]))
    simp only [List.cons_append, List.foldl_cons]
    rw [pfPrecDigits]
    simp only [hc, Bool.false_eq_true, if_false]
    by_cases hw : (decide (a.prec ≥ 0) && decide (a.prec < 100000)) = true
    · rw [if_pos hw, ih']
      simp only [accP, hw, if_true]
    · rw [if_neg hw, ih']
      simp only [accP, hw, if_false, Bool.false_eq_true]

theorem u8_beq_lit (c : UInt8) (v : Nat) (hv : v < 256) :
    (c == UInt8.ofNat v) = true ↔ c.toNat = v := by
  rw [u8_beq c v hv]; simp

theorem isFlagB_iff (c : UInt8) : isFlagB c = true ↔
    (c.toNat = 32 ∨ c.toNat = 35 ∨ c.toNat = 43 ∨ c.toNat = 45 ∨ c.toNat = 48) := by
  unfold isFlagB
  simp only [Bool.or_eq_true]
  rw [show (32 : UInt8) = UInt8.ofNat 32 from rfl, show (35 : UInt8) = UInt8.ofNat 35 from rfl,
    show (43 : UInt8) = UInt8.ofNat 43 from rfl, show (45 : UInt8) = UInt8.ofNat 45 from rfl,
    show (48 : UInt8) = UInt8.ofNat 48 from rfl,
    u8_beq_lit c 32 (by decide), u8_beq_lit c 35 (by decide), u8_beq_lit c 43 (by decide),
    u8_beq_lit c 45 (by decide), u8_beq_lit c 48 (by decide)]
  omega

theorem isDig8_iff (c : UInt8) : isDig8 c = true ↔ (48 ≤ c.toNat ∧ c.toNat ≤ 57) := by
  unfold isDig8
  simp only [Bool.not_eq_true', Bool.or_eq_false_iff, decide_eq_false_iff_not, UInt8.lt_iff_toNat_lt,
    gt_iff_lt]
  have e1 : (48 : UInt8).toNat = 48 := rfl
  have e2 : (57 : UInt8).toNat = 57 := rfl
  rw [e1, e2]; omega

theorem isW_iff (c : UInt8) :
    (decide (c ≥ 49) && decide (c ≤ 57)) = true ↔ (49 ≤ c.toNat ∧ c.toNat ≤ 57) := by
  simp only [Bool.and_eq_true, decide_eq_true_eq, ge_iff_le, UInt8.le_iff_toNat_le]
  have e1 : (49 : UInt8).toNat = 49 := rfl
  have e2 : (57 : UInt8).toNat = 57 := rfl
  rw [e1, e2]

theorem bool_false_of_not {b : Bool} (h : ¬ b = true) : b = false := by simpa using h

/-- **Grammar theorem.**  On `flags* width? ('.' digits*)? tail`, where `tail` does not start with a
flag, a digit or a `.`, the specification returns: the flags folded left to right, the width and
the precision as accumulated numerals, and the verb iff `tail` is a single byte. -/
theorem parseSpec_grammar (fl wd : List UInt8) (dot : Option (List UInt8)) (tail : List UInt8)
    (hfl : ∀ c ∈ fl, isFlagB c = true)
    (hwd : widthOK wd)
    (hdot : ∀ pd, dot = some pd → ∀ x ∈ pd, isDig8 x = true)
    (htail : headNot (fun c => isFlagB c || isDig8 c || c == 46) tail) :
    parseSpec (fl ++ wd ++ dotBytes dot ++ tail) =
      pfVerb (setP (setW (fl.foldl applyFlag pfInit) wd) dot) tail := by
  -- facts about the first byte of the tail
  have htf : headNot isFlagB tail := by
    cases tail with
    | nil => trivial
    | cons c t =>
      have h : (isFlagB c || isDig8 c || c == 46) = false := htail
      simp only [Bool.or_eq_false_iff] at h
      exact h.1.1
  have htd : headNot isDig8 tail := by
    cases tail with
    | nil => trivial
    | cons c t =>
      have h : (isFlagB c || isDig8 c || c == 46) = false := htail
      simp only [Bool.or_eq_false_iff] at h
      exact h.1.2
  have e46 : (46 : UInt8).toNat = 46 := rfl
  have dotF : isFlagB 46 = false := bool_false_of_not (fun h => by
    have := (isFlagB_iff 46).mp h; rw [e46] at this; omega)
  have dotD : isDig8 46 = false := bool_false_of_not (fun h => by
    have := (isDig8_iff 46).mp h; rw [e46] at this; omega)
  have dotW : (decide ((46 : UInt8) ≥ 49) && decide ((46 : UInt8) ≤ 57)) = false :=
    bool_false_of_not (fun h => by have := (isW_iff 46).mp h; rw [e46] at this; omega)
  -- the precision phase
  have hprec : ∀ B : Gen.formatArgs,
      pfPrec B (dotBytes dot ++ tail) =
        pfVerb (setP B dot) tail := by
    intro B
    cases dot with
    | none =>
      cases tail with
      | nil => rfl
      | cons c t =>
        have h : (isFlagB c || isDig8 c || c == 46) = false := htail
        simp only [Bool.or_eq_false_iff] at h
        show pfPrec B (c :: t) = pfVerb B (c :: t)
        rw [pfPrec.eq_def]
        simp only [h.2, Bool.false_eq_true, if_false]
    | some pd =>
      cases pd with
      | nil =>
        cases tail with
        | nil => rfl
        | cons c t =>
          have h : isDig8 c = false := htd
          simp only [isDig8, Bool.not_eq_false'] at h
          show pfPrec B (46 :: c :: t) = pfVerb { B with prec := 0 } (c :: t)
          rw [pfPrec]
          simp only [beq_self_eq_true, if_true, h]
      | cons c3 ds =>
        have hpd := hdot (c3 :: ds) rfl
        have h3 : isDig8 c3 = true := hpd c3 (by simp)
        simp only [isDig8, Bool.not_eq_true'] at h3
        show pfPrec B (46 :: c3 :: (ds ++ tail)) = pfVerb (setP B (some (c3 :: ds))) tail
        rw [pfPrec]
        simp only [beq_self_eq_true, if_true, h3, Bool.false_eq_true, if_false]
        rw [pfPrecDigits_append ds tail _ (fun x hx => hpd x (by simp [hx])) htd]
        rfl
  unfold parseSpec
  rw [List.append_assoc, List.append_assoc, pfFlags_append fl _ pfInit hfl]
  · generalize fl.foldl applyFlag pfInit = A
    cases wd with
    | nil =>
      rw [List.nil_append]
      show pfWidth A (dotBytes dot ++ tail) = pfVerb (setP A dot) tail
      rw [← hprec A]
      cases dot with
      | none =>
        cases tail with
        | nil => rfl
        | cons c t =>
          have h : isDig8 c = false := htd
          have hw : (decide (c ≥ 49) && decide (c ≤ 57)) = false := bool_false_of_not (fun hw => by
            have h1 := (isW_iff c).mp hw
            have h2 : isDig8 c = true := (isDig8_iff c).mpr (by omega)
            rw [h] at h2; exact Bool.false_ne_true h2)
          show pfWidth A (c :: t) = pfPrec A (c :: t)
          rw [pfWidth]; simp only [hw, Bool.false_eq_true, if_false]
      | some pd =>
        show pfWidth A (46 :: (pd ++ tail)) = pfPrec A (46 :: (pd ++ tail))
        rw [pfWidth]; simp only [dotW, Bool.false_eq_true, if_false]
    | cons c ds =>
      obtain ⟨hc, hds⟩ := hwd
      rw [List.cons_append, pfWidth]; simp only [hc, if_true]
      rw [pfWidthDigits_append ds _ _ hds, hprec]
      · rfl
      · cases dot with
        | none => exact htd
        | some pd => exact dotD
  · cases wd with
    | nil =>
      cases dot with
      | none => exact htf
      | some pd => exact dotF
    | cons c ds =>
      obtain ⟨hc, _⟩ := hwd
      show isFlagB c = false
      exact bool_false_of_not (fun h => by
        have h1 := (isW_iff c).mp hc
        have h2 := (isFlagB_iff c).mp h
        omega)

theorem flag_cases (c : UInt8) (h : isFlagB c = true) :
    c = 32 ∨ c = 35 ∨ c = 43 ∨ c = 45 ∨ c = 48 := by
  have := (isFlagB_iff c).mp h
  rcases this with h | h | h | h | h
  · exact Or.inl (UInt8.toNat_inj.mp h)
  · exact Or.inr (Or.inl (UInt8.toNat_inj.mp h))
  · exact Or.inr (Or.inr (Or.inl (UInt8.toNat_inj.mp h)))
  · exact Or.inr (Or.inr (Or.inr (Or.inl (UInt8.toNat_inj.mp h))))
  · exact Or.inr (Or.inr (Or.inr (Or.inr (UInt8.toNat_inj.mp h))))

/-- **Flags.**  After a run of flag bytes each of ` `, `#`, `+`, `-` is set iff it occurs; `0` is set
iff it occurs and `-` does not occur anywhere in the run (`-` clears it and blocks it); the other
fields are untouched. -/
theorem flags_fold (fl : List UInt8) (a : Gen.formatArgs) (hfl : ∀ c ∈ fl, isFlagB c = true) :
    (fl.foldl applyFlag a).padSign = (a.padSign || fl.contains 32) ∧
    (fl.foldl applyFlag a).forceDP = (a.forceDP || fl.contains 35) ∧
    (fl.foldl applyFlag a).printSign = (a.printSign || fl.contains 43) ∧
    (fl.foldl applyFlag a).padRight = (a.padRight || fl.contains 45) ∧
    (fl.foldl applyFlag a).padZero =
      (if fl.contains 45 then false else if fl.contains 48 then !a.padRight else a.padZero) ∧
    (fl.foldl applyFlag a).verb = a.verb ∧ (fl.foldl applyFlag a).prec = a.prec ∧
    (fl.foldl applyFlag a).wid = a.wid := by
  induction fl generalizing a with
  | nil => simp
  | cons c fl ih =>
    have ih' := ih (applyFlag a c) (fun x hx => hfl x (by simp [hx]))
    rw [List.foldl_cons]
    obtain ⟨i1, i2, i3, i4, i5, i6, i7, i8⟩ := ih'
    rw [i1, i2, i3, i4, i5, i6, i7, i8]
    rcases flag_cases c (hfl c (by simp)) with h | h | h | h | h <;> subst h
    · refine ⟨?_, ?_, ?_, ?_, ?_, rfl, rfl, rfl⟩ <;>
        simp [applyFlag, List.contains_cons, Bool.or_assoc, Bool.or_comm]
    · refine ⟨?_, ?_, ?_, ?_, ?_, rfl, rfl, rfl⟩ <;>
        simp [applyFlag, List.contains_cons, Bool.or_assoc, Bool.or_comm]
    · refine ⟨?_, ?_, ?_, ?_, ?_, rfl, rfl, rfl⟩ <;>
        simp [applyFlag, List.contains_cons, Bool.or_assoc, Bool.or_comm]
    · refine ⟨?_, ?_, ?_, ?_, ?_, rfl, rfl, rfl⟩ <;>
        simp [applyFlag, List.contains_cons, Bool.or_assoc, Bool.or_comm]
    · refine ⟨?_, ?_, ?_, ?_, ?_, rfl, rfl, rfl⟩ <;>
        simp [applyFlag, List.contains_cons, Bool.or_assoc, Bool.or_comm]

/-! ### below the saturation bound the accumulated numerals are decimal numbers -/

theorem conv_digit (c : UInt8) (h : isDig8 c = true) : (Go.conv (c - 48) : Int64).toInt = dv c := by
  have hd := (isDig8_iff c).mp h
  have e : (c - 48).toNat = c.toNat - 48 :=
    UInt8.toNat_sub_of_le _ _ (by rw [UInt8.le_iff_toNat_le]; exact hd.1)
  show (Int64.ofInt ((c - 48).toNat : Int)).toInt = _
  rw [Int64.toInt_ofInt, e]
  unfold dv
  exact bmod64 _ (by omega) (by omega)

theorem acc_step (sat w : Int64) (c : UInt8) (n : Nat) (hw : w.toInt = n) (hn : n < 100000)
    (hc : isDig8 c = true) :
    (if decide (w < 100000) = true then w * 10 + (Go.conv (c - 48) : Int64) else sat).toInt =
      ((n * 10 + dv c : Nat) : Int) := by
  have hd := (isDig8_iff c).mp hc
  have e5 : (100000 : Int64).toInt = 100000 := by decide
  have e10 : (10 : Int64).toInt = 10 := by decide
  have hlt : w < 100000 := by rw [Int64.lt_iff_toInt_lt, hw, e5]; omega
  rw [if_pos (decide_eq_true hlt)]
  have hm : (w * 10).toInt = n * 10 := by
    rw [Int64.toInt_mul, hw, e10]; exact bmod64 _ (by omega) (by omega)
  have hdv : dv c ≤ 9 := by unfold dv; omega
  rw [i64_add _ _ (by rw [hm, conv_digit c hc]; omega) (by rw [hm, conv_digit c hc]; omega), hm,
    conv_digit c hc]
  push_cast; rfl

/-- while all proper prefixes stay below 10^5, the fold is the decimal value `n‖ds` -/
theorem acc_fold_gen (g : Int64 → UInt8 → Int64)
    (hg : ∀ (w : Int64) (c : UInt8) (n : Nat), w.toInt = n → n < 100000 →
      g w c = w * 10 + (Go.conv (c - 48) : Int64))
    (ds : List UInt8) (w : Int64) (n : Nat) (hw : w.toInt = n)
    (hds : ∀ c ∈ ds, isDig8 c = true)
    (hb : ds = [] ∨ (n * 10 ^ ds.length + ofMsd (ds.map dv)) / 10 < 100000) :
    (ds.foldl g w).toInt = ((n * 10 ^ ds.length + ofMsd (ds.map dv) : Nat) : Int) := by
  induction ds generalizing w n with
  | nil => simp [hw]
  | cons c t ih =>
    have hc := hds c (by simp)
    have hb' : (n * 10 ^ (c :: t).length + ofMsd ((c :: t).map dv)) / 10 < 100000 := by
      rcases hb with h | h
      · exact absurd h (by simp)
      · exact h
    rw [List.map_cons, ofMsd_cons, List.length_cons, List.length_map, Nat.pow_succ] at hb'
    have hp := Nat.pow_pos (n := t.length) (show 0 < 10 by decide)
    have hn : n < 100000 := by
      have : n * (10 ^ t.length * 10) ≥ n * 10 := by nlinarith
      omega
    rw [List.foldl_cons]
    have hstep := acc_step 0 w c n hw hn hc
    have e5 : (100000 : Int64).toInt = 100000 := by decide
    have hlt : w < 100000 := by rw [Int64.lt_iff_toInt_lt, hw, e5]; omega
    rw [if_pos (decide_eq_true hlt), ← hg w c n hw hn] at hstep
    have key : n * 10 ^ (c :: t).length + ofMsd ((c :: t).map dv) =
        (n * 10 + dv c) * 10 ^ t.length + ofMsd (t.map dv) := by
      rw [List.map_cons, ofMsd_cons, List.length_cons, List.length_map, Nat.pow_succ]; ring
    rw [key]
    apply ih _ _ hstep (fun x hx => hds x (by simp [hx]))
    by_cases ht : t = []
    · exact Or.inl ht
    · right
      rw [← key, List.map_cons, ofMsd_cons, List.length_cons, List.length_map, Nat.pow_succ]
      exact hb'

theorem accW_fold_eq (ds : List UInt8) (w : Int64) (n : Nat) (hw : w.toInt = n)
    (hds : ∀ c ∈ ds, isDig8 c = true)
    (hb : ds = [] ∨ (n * 10 ^ ds.length + ofMsd (ds.map dv)) / 10 < 100000) :
    (ds.foldl accW w).toInt = ((n * 10 ^ ds.length + ofMsd (ds.map dv) : Nat) : Int) := by
  apply acc_fold_gen accW _ ds w n hw hds hb
  intro w c n hw hn
  have e5 : (100000 : Int64).toInt = 100000 := by decide
  have hlt : w < 100000 := by rw [Int64.lt_iff_toInt_lt, hw, e5]; omega
  unfold accW
  rw [if_pos (decide_eq_true hlt)]

theorem accP_fold_eq (ds : List UInt8) (w : Int64) (n : Nat) (hw : w.toInt = n)
    (hds : ∀ c ∈ ds, isDig8 c = true)
    (hb : ds = [] ∨ (n * 10 ^ ds.length + ofMsd (ds.map dv)) / 10 < 100000) :
    (ds.foldl accP w).toInt = ((n * 10 ^ ds.length + ofMsd (ds.map dv) : Nat) : Int) := by
  apply acc_fold_gen accP _ ds w n hw hds hb
  intro w c n hw hn
  have e5 : (100000 : Int64).toInt = 100000 := by decide
  have e0 : (0 : Int64).toInt = 0 := by decide
  have hlt : w < 100000 := by rw [Int64.lt_iff_toInt_lt, hw, e5]; omega
  have hge : w ≥ 0 := by
    show (0 : Int64) ≤ w
    rw [Int64.le_iff_toInt_le, hw, e0]; omega
  unfold accP
  rw [if_pos (by simp [hlt, hge])]

/-- a numeral `c ds` of at most six digits whose first five digits are below 10^5 is read as its
decimal value -/
theorem numeral_value (c : UInt8) (ds : List UInt8) (hc : isDig8 c = true)
    (hds : ∀ x ∈ ds, isDig8 x = true) (hb : ofMsd ((c :: ds).map dv) / 10 < 100000 ∨ ds = []) :
    (ds.foldl accW (Go.conv (c - 48) : Int64)).toInt = (ofMsd ((c :: ds).map dv) : Nat) ∧
    (ds.foldl accP (Go.conv (c - 48) : Int64)).toInt = (ofMsd ((c :: ds).map dv) : Nat) := by
  have e : ofMsd ((c :: ds).map dv) = dv c * 10 ^ ds.length + ofMsd (ds.map dv) := by
    rw [List.map_cons, ofMsd_cons, List.length_map]
  have hb' : ds = [] ∨ (dv c * 10 ^ ds.length + ofMsd (ds.map dv)) / 10 < 100000 := by
    rcases hb with h | h
    · exact Or.inr (by rw [← e]; exact h)
    · exact Or.inl h
  rw [e]
  exact ⟨accW_fold_eq ds _ (dv c) (conv_digit c hc) hds hb',
    accP_fold_eq ds _ (dv c) (conv_digit c hc) hds hb'⟩

-- sanity: the specification on concrete specs
example : parseSpec "-08.3f".toUTF8.data.toList =
    { forceDP := false, printSign := false, padSign := false, padRight := true, padZero := false,
      verb := 102, prec := 3, wid := 8 } := by decide
example : parseSpec "+ #12e".toUTF8.data.toList =
    { forceDP := true, printSign := true, padSign := true, padRight := false, padZero := false,
      verb := 101, prec := -1, wid := 12 } := by decide
example : (parseSpec "5.2fx".toUTF8.data.toList).verb = 0 := by decide
example : (parseSpec "5.".toUTF8.data.toList) =
    { forceDP := false, printSign := false, padSign := false, padRight := false, padZero := false,
      verb := 0, prec := 0, wid := 5 } := by decide



/-- the width a numeral denotes for the parser (0 when absent) -/
def widOf : List UInt8 → Int64
  | [] => 0
  | c :: ds => ds.foldl accW (Go.conv (c - 48) : Int64)

/-- the precision an optional `.digits` denotes for the parser (−1 when absent, 0 for a bare `.`) -/
def precOf : Option (List UInt8) → Int64
  | none => -1
  | some [] => 0
  | some (c :: ds) => ds.foldl accP (Go.conv (c - 48) : Int64)

/-- the verb: the single remaining byte, else 0 -/
def verbOf : List UInt8 → UInt8
  | [v] => v
  | _ => 0

theorem pfVerb_fields (a : Gen.formatArgs) (t : List UInt8) :
    pfVerb a t = { a with verb := (match t with | [v] => v | _ => a.verb) } := by
  match t with
  | [] => rfl
  | [v] => rfl
  | _ :: _ :: _ => rfl

/-- all fields of the result on grammatical input -/
theorem grammar_fields (fl wd : List UInt8) (dot : Option (List UInt8)) (tail : List UInt8)
    (hfl : ∀ c ∈ fl, isFlagB c = true) :
    pfVerb (setP (setW (fl.foldl applyFlag pfInit) wd) dot) tail =
      { forceDP := fl.contains 35, printSign := fl.contains 43, padSign := fl.contains 32,
        padRight := fl.contains 45, padZero := fl.contains 48 && !fl.contains 45,
        verb := verbOf tail, prec := precOf dot, wid := widOf wd } := by
  obtain ⟨h1, h2, h3, h4, h5, h6, h7, h8⟩ := flags_fold fl pfInit hfl
  generalize fl.foldl applyFlag pfInit = A at *
  have i1 : pfInit.padSign = false := rfl
  have i2 : pfInit.forceDP = false := rfl
  have i3 : pfInit.printSign = false := rfl
  have i4 : pfInit.padRight = false := rfl
  have i5 : pfInit.padZero = false := rfl
  have i6 : pfInit.verb = 0 := rfl
  have i7 : pfInit.prec = -1 := rfl
  have i8 : pfInit.wid = 0 := rfl
  rw [i1, Bool.false_or] at h1
  rw [i2, Bool.false_or] at h2
  rw [i3, Bool.false_or] at h3
  rw [i4, Bool.false_or] at h4
  rw [i4, i5] at h5
  rw [i6] at h6; rw [i7] at h7; rw [i8] at h8
  have h5' : A.padZero = (fl.contains 48 && !fl.contains 45) := by
    rw [h5]; cases fl.contains 45 <;> cases fl.contains 48 <;> rfl
  cases A with
  | mk fdp ps pds pr pz vb pc wd0 =>
    simp only at h1 h2 h3 h4 h5' h6 h7 h8
    subst h1 h2 h3 h4 h5' h6 h7 h8
    cases wd with
    | nil =>
      cases dot with
      | none =>
        match tail with
        | [] => rfl
        | [v] => rfl
        | _ :: _ :: _ => rfl
      | some pd =>
        cases pd with
        | nil =>
          match tail with
          | [] => rfl
          | [v] => rfl
          | _ :: _ :: _ => rfl
        | cons c ds =>
          match tail with
          | [] => rfl
          | [v] => rfl
          | _ :: _ :: _ => rfl
    | cons w ws =>
      cases dot with
      | none =>
        match tail with
        | [] => rfl
        | [v] => rfl
        | _ :: _ :: _ => rfl
      | some pd =>
        cases pd with
        | nil =>
          match tail with
          | [] => rfl
          | [v] => rfl
          | _ :: _ :: _ => rfl
        | cons c ds =>
          match tail with
          | [] => rfl
          | [v] => rfl
          | _ :: _ :: _ => rfl


end Dg
