/-
  D128/Proofs/LayoutSharpG.lean — `#` with `%g`: `Spec.sharpFix` on the shortest-style body restores the
  trailing zeros up to the precision, which is what the `g` arm of `format` prints directly
  (`Ly.bodyG … true`).  Pure; no generated code.

  * `Ly.fracS_fit`, `Ly.fracS_extend`, `Ly.layoutF_sharp`, `Ly.layoutF_addpoint`, `Ly.mantE_sharp`,
    `Ly.mantE_addpoint` : normal forms of the two layouts
  * `Ly.cnt_head`, `Ly.norm_cons`, `Ly.cnt_mantE`, `Ly.ipF_pos`, `Ly.q0F`, `Ly.cnt_layoutF` :
        significant-digit counts
  * `Ly.sharpFix_bodyG` : `Spec.sharpFix (bodyG r P M false e) verb prec = bodyG r P M true e`
-/
import D128.Proofs.LayoutBody

set_option autoImplicit false
set_option maxRecDepth 4096
set_option linter.unusedVariables false

namespace Ly
open Dg

/-! ## normal forms of the layouts -/

theorem fracS_fit (r : Spec.Slice) (q : Nat)
    (hfit : (-r.dp).toNat + (r.ds.length - (max r.dp 0).toNat) ≤ q) :
    fracS r q = Spec.zeros (-r.dp).toNat ++ Spec.digitsStr (r.ds.drop (max r.dp 0).toNat) ++
      Spec.zeros (q - (-r.dp).toNat - (r.ds.length - (max r.dp 0).toNat)) :=
  (fracF_list r.ds r.dp q hfit).symm

theorem fracS_length (r : Spec.Slice) (q : Nat) : (fracS r q).length = q := by
  simp [fracS]

/-- `layoutF` with a forced point, uniformly in the precision -/
theorem layoutF_sharp (r : Spec.Slice) (q : Nat) :
    Spec.layoutF r q true = ipF r ++ '.' :: fracS r q := by
  rw [layoutF_split]
  by_cases hq : q > 0
  · simp [hq]
  · have : q = 0 := by omega
    subst this
    simp [fracS]

/-- `layoutF` with the point added if missing, uniformly in the precision -/
theorem layoutF_addpoint (r : Spec.Slice) (hr : NormS r) (q : Nat) :
    (if (Spec.layoutF r q false).contains '.' then Spec.layoutF r q false
      else Spec.layoutF r q false ++ ['.']) = ipF r ++ '.' :: fracS r q := by
  rw [(layoutF_facts r hr q false).2, layoutF_split]
  by_cases hq : q > 0
  · simp [hq]
  · have : q = 0 := by omega
    subst this
    simp [fracS]

theorem digitsStr_length (L : List Nat) : (Spec.digitsStr L).length = L.length := by
  simp [Spec.digitsStr]

/-- `mantE` with a forced point once all digits fit -/
theorem mantE_sharp (r : Spec.Slice) (q : Nat) (hnd : 1 ≤ r.ds.length) (hq : r.ds.length - 1 ≤ q) :
    mantE r q true = firstC r :: '.' ::
      (Spec.digitsStr (r.ds.drop 1) ++ Spec.zeros (q - (r.ds.length - 1))) := by
  unfold mantE
  have hl : (Spec.digitsStr (r.ds.drop 1)).length = r.ds.length - 1 := by
    rw [digitsStr_length, List.length_drop]
  rw [hl]
  by_cases hq0 : q > 0
  · simp only [hq0, if_true, List.singleton_append]
    rw [List.take_of_length_le (by rw [List.length_append, hl, Spec.zeros, List.length_replicate]; omega)]
  · have hq' : q = 0 := by omega
    have hn1 : r.ds.length - 1 = 0 := by omega
    have : r.ds.drop 1 = [] := List.eq_nil_of_length_eq_zero (by rw [List.length_drop]; exact hn1)
    simp [hq', this, Spec.digitsStr, Spec.zeros]

/-- `mantE` of exactly the digits, with the point added if missing -/
theorem mantE_addpoint (r : Spec.Slice) (hr : NormS r) (hnd : 1 ≤ r.ds.length) :
    (if (mantE r (r.ds.length - 1) false).contains '.' then mantE r (r.ds.length - 1) false
      else mantE r (r.ds.length - 1) false ++ ['.']) =
    firstC r :: '.' ::
      Spec.digitsStr (r.ds.drop 1) := by
  rw [(mantE_facts r hr _ false).2]
  unfold mantE
  have hl : (Spec.digitsStr (r.ds.drop 1)).length = r.ds.length - 1 := by
    rw [digitsStr_length, List.length_drop]
  rw [hl]
  by_cases hq0 : r.ds.length - 1 > 0
  · simp only [hq0, if_true, List.singleton_append, decide_true, Bool.or_false]
    rw [List.take_of_length_le (by rw [List.length_append, hl, Spec.zeros, List.length_replicate]; omega)]
    simp [Spec.zeros]
  · have hn1 : r.ds.length - 1 = 0 := by omega
    have : r.ds.drop 1 = [] := List.eq_nil_of_length_eq_zero (by rw [List.length_drop]; exact hn1)
    simp [hq0, this, Spec.digitsStr]

/-! ## significant-digit counts of the two layouts -/

theorem cnt_head (k : Nat) (hk : k < 10) (hk0 : k ≠ 0) (t : Spec.Str) :
    cnt (Spec.digitChar k :: t) false = 1 + cnt t true ∧
    sawAfter (Spec.digitChar k :: t) false = sawAfter t true := by
  obtain ⟨_, _, c', z⟩ := digitChar_facts ⟨k, hk⟩
  simp only at c' z
  have hc' : ¬ (Spec.digitChar k == '.') = true := by simpa using c'
  have hz : (Spec.digitChar k != '0') = true := by
    simp only [bne_iff_ne, ne_eq]; intro e; exact hk0 (z.mp e)
  simp only [cnt, sawAfter, hc', if_false, hz, Bool.or_true, if_true, Bool.false_eq_true]
  exact ⟨trivial, trivial⟩

/-- a normalised non-zero slice starts with a non-zero digit -/
theorem norm_cons (r : Spec.Slice) (hr : NormS r) (hnd : 1 ≤ r.ds.length) :
    ∃ d0 t, r.ds = d0 :: t ∧ d0 < 10 ∧ d0 ≠ 0 ∧ firstC r = Spec.digitChar d0 := by
  cases hds : r.ds with
  | nil => rw [hds] at hnd; simp at hnd
  | cons d0 t =>
    refine ⟨d0, t, rfl, hr.lt10 d0 (by rw [hds]; simp), ?_, by unfold firstC; rw [hds]⟩
    have := hr.head
    rw [hds] at this
    simpa using this

theorem cnt_mantE (r : Spec.Slice) (hr : NormS r) (hnd : 1 ≤ r.ds.length) :
    cnt (mantE r (r.ds.length - 1) false) false = r.ds.length ∧
    (mantE r (r.ds.length - 1) false == ['0']) = false := by
  obtain ⟨d0, t, hds, h10, h0, hf⟩ := norm_cons r hr hnd
  have hl : (Spec.digitsStr (r.ds.drop 1)).length = r.ds.length - 1 := by
    rw [digitsStr_length, List.length_drop]
  have hne : Spec.digitChar d0 ≠ '0' := by
    intro e
    exact h0 ((digitChar_facts ⟨d0, h10⟩).2.2.2.mp e)
  unfold mantE
  rw [hf, List.singleton_append]
  refine ⟨?_, ?_⟩
  · rw [(cnt_head d0 h10 h0 _).1]
    by_cases hq0 : r.ds.length - 1 > 0
    · simp only [hq0, if_true]
      rw [(cnt_dot _ _).1, hl, (cnt_dstr_true _ (dstr_take (dstr_append (dstr_drop_digits r hr 1)
        (dstr_zeros _)) _)).1, List.length_take, List.length_append, hl, Spec.zeros,
        List.length_replicate]
      omega
    · simp only [hq0, if_false, Bool.false_eq_true, cnt]; omega
  · cases hb : (Spec.digitChar d0 :: (if r.ds.length - 1 > 0 then
        '.' :: (Spec.digitsStr (r.ds.drop 1) ++ Spec.zeros (r.ds.length - 1 -
          (Spec.digitsStr (r.ds.drop 1)).length)).take (r.ds.length - 1)
        else if false = true then ['.'] else []) == ['0'])
    · rfl
    · exfalso
      rw [beq_iff_eq] at hb
      injection hb with h1 _
      exact hne h1

theorem ipF_pos (r : Spec.Slice) (hr : NormS r) (hnd : 1 ≤ r.ds.length) (hdp : 0 < r.dp) :
    ∃ d0 T, ipF r = Spec.digitChar d0 :: T ∧ d0 < 10 ∧ d0 ≠ 0 ∧ DStr T ∧
      T.length + 1 = r.dp.toNat := by
  obtain ⟨d0, t, hds, h10, h0, _⟩ := norm_cons r hr hnd
  have hk : r.dp.toNat = (r.dp.toNat - 1) + 1 := by omega
  have ht10 : ∀ x ∈ t, x < 10 := fun x hx => hr.lt10 x (by rw [hds]; simp [hx])
  refine ⟨d0, Spec.digitsStr (t.take (r.dp.toNat - 1)) ++ Spec.zeros (r.dp.toNat - r.ds.length),
    ?_, h10, h0, ?_, ?_⟩
  · unfold ipF
    rw [if_pos hdp, hds, hk, List.take_succ_cons]
    simp [Spec.digitsStr]
  · exact dstr_append (dstr_digitsStr _ (fun x hx => ht10 x (List.mem_of_mem_take hx))) (dstr_zeros _)
  · rw [List.length_append, digitsStr_length, List.length_take, Spec.zeros, List.length_replicate, hds]
    simp only [List.length_cons]
    omega

/-- the precision the shortest fixed layout uses -/
def q0F (r : Spec.Slice) : Nat :=
  if (r.ds.length : Int) > r.dp then ((r.ds.length : Int) - r.dp).toNat else 0

theorem cnt_layoutF (r : Spec.Slice) (hr : NormS r) (hnd : 1 ≤ r.ds.length) :
    cnt (Spec.layoutF r (q0F r) false) false =
      (if 0 < r.dp then max r.dp.toNat r.ds.length else r.ds.length) ∧
    (!(Spec.layoutF r (q0F r) false).contains '.' && Spec.layoutF r (q0F r) false == ['0']) = false := by
  have hfl := fracS_length r (q0F r)
  have hfd := dstr_fracS r hr (q0F r)
  by_cases hdp : 0 < r.dp
  · obtain ⟨d0, T, hip, h10, h0, hT, hTl⟩ := ipF_pos r hr hnd hdp
    have hne : Spec.digitChar d0 ≠ '0' := by
      intro e
      exact h0 ((digitChar_facts ⟨d0, h10⟩).2.2.2.mp e)
    rw [layoutF_split, hip, if_pos hdp]
    constructor
    · rw [List.cons_append, (cnt_head d0 h10 h0 _).1, cnt_append, (cnt_dstr_true T hT).1,
        (cnt_dstr_true T hT).2]
      by_cases hq : q0F r > 0
      · simp only [hq, if_true]
        rw [(cnt_dot _ _).1, (cnt_dstr_true _ hfd).1, hfl]
        unfold q0F at hq ⊢
        split <;> omega
      · simp only [hq, if_false, Bool.false_eq_true, cnt]
        unfold q0F at hq
        split at hq <;> omega
    · rw [Bool.and_eq_false_iff]; right
      cases hb : ((Spec.digitChar d0 :: T ++ if q0F r > 0 then '.' :: fracS r (q0F r)
          else if false = true then ['.'] else []) == ['0'])
      · rfl
      · exfalso
        rw [beq_iff_eq, List.cons_append] at hb
        injection hb with h1 _
        exact hne h1
  · have hq : q0F r > 0 := by unfold q0F; split <;> omega
    have hip : ipF r = ['0'] := by unfold ipF; rw [if_neg (by omega)]
    rw [layoutF_split, hip, if_neg hdp]
    simp only [hq, if_true]
    constructor
    · rw [List.singleton_append]
      have h1 : cnt ('0' :: '.' :: fracS r (q0F r)) false = cnt (fracS r (q0F r)) false := by
        simp [cnt]
      rw [h1, fracS_fit r (q0F r) (by unfold q0F; split <;> omega)]
      have hmx : (max r.dp 0).toNat = 0 := by omega
      rw [hmx, List.drop_zero, List.append_assoc, cnt_append, (cnt_zeros _).1, (cnt_zeros _).2]
      obtain ⟨d0, t, hds, h10, h0, _⟩ := norm_cons r hr hnd
      have ht10 : ∀ x ∈ t, x < 10 := fun x hx => hr.lt10 x (by rw [hds]; simp [hx])
      have hD : Spec.digitsStr r.ds = Spec.digitChar d0 :: Spec.digitsStr t := by
        rw [hds]; simp [Spec.digitsStr]
      rw [hD, List.cons_append, (cnt_head d0 h10 h0 _).1,
        (cnt_dstr_true _ (dstr_append (dstr_digitsStr t ht10) (dstr_zeros _))).1,
        List.length_append, digitsStr_length, Spec.zeros, List.length_replicate, hds]
      simp only [List.length_cons, Nat.zero_add]
      unfold q0F
      rw [hds]
      simp only [List.length_cons]
      split <;> omega
    · rw [Bool.and_eq_false_iff]; left
      simp

/-! ## the main statement -/

theorem fracS_extend (r : Spec.Slice) (q k : Nat)
    (hfit : (-r.dp).toNat + (r.ds.length - (max r.dp 0).toNat) ≤ q) :
    fracS r (q + k) = fracS r q ++ Spec.zeros k := by
  rw [fracS_fit r q hfit, fracS_fit r (q + k) (by omega), List.append_assoc, List.append_assoc,
    List.append_assoc]
  congr 2
  simp only [Spec.zeros, List.replicate_append_replicate]
  congr 1; omega

/-- **`#` with `%g`**: restoring zeros on the shortest-style body (`Spec.sharpFix`) gives the body
the `g` arm prints with `P` significant digits.  `hD`/`hD0` relate fmt's digit budget (the raw
precision, 6 if absent) to `P` (`max prec 1`, or `max ndigits 6`). -/
theorem sharpFix_bodyG (r : Spec.Slice) (hr : NormS r) (P M : Nat) (e : Char)
    (he : e = 'e' ∨ e = 'E') (verb : Char) (hv : verb = 'g' ∨ verb = 'G') (prec : Option Nat)
    (hlen : r.ds.length ≤ P) (hM1 : 1 ≤ M) (hMP : M ≤ P)
    (hD : ∀ c : Nat, 1 ≤ c → r.ds.length ≤ c → c ≤ max r.ds.length M →
      (((prec.getD 6 : Nat) : Int) - (c : Int)).toNat = P - c)
    (hD0 : r.ds.length = 0 → (((prec.getD 6 : Nat) : Int) - 1).toNat = P - 1) :
    Spec.sharpFix (bodyG r P M false e) verb prec = bodyG r P M true e := by
  have hvg : (verb == 'g' || verb == 'G') = true := by rcases hv with rfl | rfl <;> decide
  unfold bodyG
  simp only [Bool.false_eq_true, if_false, if_true]
  by_cases hnd : r.ds.length = 0
  · -- zero
    have hnil : r.ds = [] := List.eq_nil_of_length_eq_zero hnd
    have hdp := hr.zero hnil
    have hr0 : r = ⟨[], 0⟩ := by cases r; simp only at hnil hdp; rw [hnil, hdp]
    subst hr0
    have c1 : (decide ((0 : Int) < -4) || decide ((0 : Int) ≥ (M : Int))) = false := by
      simp; omega
    simp only [List.length_nil, if_true, c1, Bool.false_eq_true, if_false]
    have hb : Spec.layoutF ⟨[], 0⟩ (if ((0 : Nat) : Int) > 0 then (((0 : Nat) : Int) - 0).toNat else 0) false
        = ['0'] := by decide
    rw [hb]
    have := sharpFix_eq ['0'] [] verb prec (by decide) (Or.inl rfl)
    rw [List.append_nil] at this
    rw [this, hvg, layoutF_sharp]
    have hc : cnt ['0'] false = 0 := by decide
    have hz := hD0 rfl
    simp only [hc, if_true] at hz ⊢
    have h1 : (List.contains ['0'] '.') = false := by decide
    have h2 : (['0'] == ['0']) = true := by decide
    simp only [h1, h2, Bool.not_false, Bool.and_true, if_true, Bool.false_eq_true, if_false]
    have hq : (((prec.getD 6 : Nat) : Int) - ((0 : Nat) : Int) - 1).toNat = P - 1 := by
      rw [← hz]; congr 1
    have hP1 : ((P : Int) - 1).toNat = P - 1 := by omega
    rw [hq, hP1]
    have hf := fracS_fit ⟨[], 0⟩ (P - 1) (by simp)
    rw [hf]
    simp [ipF, Spec.zeros, Spec.digitsStr]
  · have hnd1 : 1 ≤ r.ds.length := by omega
    simp only [hnd, if_false]
    by_cases hc : (decide (r.dp - 1 < -4) || decide (r.dp - 1 ≥ (M : Int))) = true
    · -- exponent form
      simp only [hc, if_true]
      obtain ⟨hm, hcon⟩ := mantE_facts r hr (r.ds.length - 1) false
      obtain ⟨hcnt, hne0⟩ := cnt_mantE r hr hnd1
      rw [layoutE_split, sharpFix_eq _ _ verb prec hm (Or.inr (expStr_head e _ 2 he)),
        layoutE_split, hvg, mantE_addpoint r hr hnd1, hcnt, hne0,
        mantE_sharp r (P - 1) hnd1 (by omega)]
      simp only [if_true, Bool.and_false, Bool.false_eq_true, if_false, Int.sub_zero]
      rw [hD r.ds.length hnd1 (Nat.le_refl _) (by omega)]
      have : P - 1 - (r.ds.length - 1) = P - r.ds.length := by omega
      rw [this]
      simp
    · -- fixed form
      simp only [hc, Bool.false_eq_true, if_false]
      have hcond : ¬ r.dp - 1 < -4 ∧ ¬ r.dp - 1 ≥ (M : Int) := by
        rw [Bool.or_eq_true, decide_eq_true_eq, decide_eq_true_eq] at hc
        exact ⟨fun h => hc (Or.inl h), fun h => hc (Or.inr h)⟩
      have hdpM : r.dp ≤ M := by omega
      show Spec.sharpFix (Spec.layoutF r (q0F r) false) verb prec = _
      obtain ⟨hm, hcon⟩ := layoutF_facts r hr (q0F r) false
      obtain ⟨hcnt, hne0⟩ := cnt_layoutF r hr hnd1
      have := sharpFix_eq (Spec.layoutF r (q0F r) false) [] verb prec hm (Or.inl rfl)
      rw [List.append_nil] at this
      rw [this, hvg, layoutF_addpoint r hr, hcnt, hne0, layoutF_sharp]
      simp only [if_true, Bool.false_eq_true, if_false, Int.sub_zero, List.append_nil]
      have hfit : (-r.dp).toNat + (r.ds.length - (max r.dp 0).toNat) ≤ q0F r := by
        unfold q0F; split <;> omega
      -- the count and the budget
      generalize hcv : (if 0 < r.dp then max r.dp.toNat r.ds.length else r.ds.length) = c
      have hc1 : 1 ≤ c := by rw [← hcv]; split <;> omega
      have hc2 : r.ds.length ≤ c := by rw [← hcv]; split <;> omega
      have hc3 : c ≤ max r.ds.length M := by rw [← hcv]; split <;> omega
      rw [hD c hc1 hc2 hc3]
      have hQ : ((P : Int) - r.dp).toNat = q0F r + (P - c) := by
        rw [← hcv]; unfold q0F; split <;> split <;> omega
      rw [hQ, fracS_extend r _ _ hfit]
      simp

end Ly
