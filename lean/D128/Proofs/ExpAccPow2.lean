/-
  D128/Proofs/ExpAccPow2.lean — property C16: the stage `exp2Pow` of `Gen.Exp2` (`2^n` for the integer part
  `n = dSigInt` of the argument, as a working-format number `sig·10^exp` with a sticky flag; Go: /repo/exp.go
  l.327–385; staged form `D128.Proofs.Total.exp2Pow`, `Exp2_eq : Gen.Exp2 g d = exp2Staged g d := rfl`).

  Provided (namespace `ExpAcc`):
  * `exp2Pow_post`   : Hoare triple, parametrised by an arbitrary postcondition `Q` (normal and panic part) of the
                       continuation: if `k s e t` satisfies `Q` whenever `Post n s e t`, then `exp2Pow d n k`
                       satisfies `Q` (for `1 ≤ n ≤ 20640`)
  * `exp2Pow_run`    : `1 ≤ n ≤ 20640 → ∃ s e t, exp2Pow d n k = k s e t ∧ Post n s e t`
  * `exp2Pow_zero`, `exp2Pow_huge` : the cases `n = 0` and `n > 20640`
  * `exp2Pow_eq`     : the three cases together, `Post` spelled out:
        exact (`s = 2^n`, `e = 0`, flag 0) for `n < 128`;  `s·10^e ≤ 2^n ≤ s·10^e / (1 - 10^-38)`;
        flag ∈ {0,1}, flag 0 only if exact;  `0 ≤ e ≤ 6300` (`Post`: `≤ 6175`);  `s ≥ 10^38` for `n ≥ 128`.

  Probes (`#eval` of `exp2Pow default n (fun s e t => .error (.explicit s!"{s.toNat} {e.toInt} {t.toInt}"))`, compared
  with `2^n` in `ℕ`; `V = s·10^e`):
    n = 10     s = 1024, e = 0, t = 0
    n = 255    s = 5789604461865809771178549250434395392663499233282028201972, e = 19, t = 1, V ≤ 2^n < V + 10^e
    n = 300    s = 2037035976334486086268445688409378161051468393665936250636, e = 33, t = 1, V ≤ 2^n < V + 10^e
    n = 2936   s = 666910061334050615121219143016972134884 (39 digits: two divisions by 10^19), so the bound
               `10^-38` of the theorem is of the right order (the result carries 39 to 58 digits)
    n = 20000  s = 3980276840337966592354307206191202453704772780492425938713, e = 5963, t = 1, V ≤ 2^n < V + 10^e
    n = 20640  s = 1815977672573887200707284566288031737266612347385498726592, e = 6156, t = 1, V ≤ 2^n < V + 10^e
    n = 20641  `.ok (inf false)` (for `d = default`)
-/
import D128.Proofs.ExpAccPow2Math
set_option autoImplicit false
set_option mvcgen.warning false
set_option exponentiation.threshold 32768
set_option maxRecDepth 16384
set_option linter.unusedVariables false

namespace ExpAcc
open Std.Do D128.Proofs.Total D128.Proofs.WordsWide

/-! ## initial states in the form the verification conditions have -/

theorem u64_sub_toNat (x c : UInt64) (h : c.toNat ≤ x.toNat) : (x - c).toNat = x.toNat - c.toNat :=
  UInt64.toNat_sub_of_le x c (UInt64.le_iff_toNat_le.2 h)

theorem PB_init2 (x a b c : UInt64) (ha : a = 0) (hb : b = 0) (hc : c = 0)
    (h1 : 128 ≤ x.toNat) (h2 : x.toNat < 192) :
    PB x.toNat 0 0 (U256.mk a b (Go.shl (1 : UInt64) (Go.idx (x - 128))) c).toNat := by
  have hsub : (x - 128).toNat = x.toNat - 128 := u64_sub_toNat x 128 h1
  have : (U256.mk a b (Go.shl (1 : UInt64) (Go.idx (x - 128))) c).toNat = 2 ^ x.toNat := by
    rw [U256.toNat_mk, shl_one_toNat _ (by omega), ha, hb, hc, hsub]
    simp only [UInt64.toNat_zero, Nat.zero_mul, Nat.add_zero, Nat.zero_add]
    rw [← Nat.pow_add]; congr 1; omega
  rw [this]
  exact PB_of_exact _ h1 (by omega)

theorem PB_init3 (x a b c : UInt64) (ha : a = 0) (hb : b = 0) (hc : c = 0)
    (h1 : 192 ≤ x.toNat) (h2 : x.toNat < 256) :
    PB x.toNat 0 0 (U256.mk a b c (Go.shl (1 : UInt64) (Go.idx (x - 192)))).toNat := by
  have hsub : (x - 192).toNat = x.toNat - 192 := u64_sub_toNat x 192 h1
  have : (U256.mk a b c (Go.shl (1 : UInt64) (Go.idx (x - 192)))).toNat = 2 ^ x.toNat := by
    rw [U256.toNat_mk, shl_one_toNat _ (by omega), ha, hb, hc, hsub]
    simp only [UInt64.toNat_zero, Nat.zero_mul, Nat.add_zero, Nat.zero_add]
    rw [← Nat.pow_add]; congr 1; omega
  rw [this]
  exact PB_of_exact _ (by omega) h2

theorem PA_init' (x a b c : UInt64) (ha : a = 0) (hb : b = 0) (hc : c = 0) (h1 : 256 ≤ x.toNat) :
    PA x.toNat 0 0 (x - 255).toNat (U256.mk a b c 9223372036854775808).toNat := by
  have hsub : (x - 255).toNat = x.toNat - 255 := u64_sub_toNat x 255 (by
    have : (255 : UInt64).toNat = 255 := rfl
    omega)
  have : (U256.mk a b c 9223372036854775808).toNat = 2 ^ 255 := by
    rw [U256.toNat_mk, ha, hb, hc]; rfl
  rw [this, hsub]
  exact PA_init _ h1

theorem u64_ge (x c : UInt64) (h : c ≤ x) : c.toNat ≤ x.toNat := UInt64.le_iff_toNat_le.1 h
theorem u64_lt (x c : UInt64) (h : x < c) : x.toNat < c.toNat := UInt64.lt_iff_toNat_lt.1 h

/-! ## the triple -/

set_option maxHeartbeats 1000000 in
/-- `exp2Pow` runs its continuation on a triple satisfying `Post`, whatever the continuation does (`Q` has a
normal and a panic part) -/
theorem exp2Pow_post (d : Gen.Decimal) (dSigInt : UInt64)
    (k : U192 → Int16 → Int8 → Go.GoM Gen.Decimal) (Q : PostCond Gen.Decimal (.except Go.Panic .pure))
    (hk : ∀ s e t, ⦃⌜Post dSigInt.toNat s e t⌝⦄ k s e t ⦃Q⦄) :
    ⦃⌜1 ≤ dSigInt.toNat ∧ dSigInt.toNat ≤ 20640⌝⦄ exp2Pow d dSigInt k ⦃Q⦄ := by
  mvcgen -trivial [exp2Pow, hk]
  case inv1 | inv3 | inv7 => exact fun st => ⟨st.2.2.toNat⟩
  case inv5 => exact fun st => ⟨st.2.2.1.toNat⟩
  case inv2 | inv4 | inv8 => exact ⇓ x => match x with
    | .inl st => ⌜PB dSigInt.toNat st.1 st.2.1 st.2.2.toNat⌝
    | .inr st => ⌜PB dSigInt.toNat st.1 st.2.1 st.2.2.toNat ∧ st.2.2.toNat < 2^192⌝
  case inv6 => exact ⇓ x => match x with
    | .inl st => ⌜PA dSigInt.toNat st.1 st.2.1 st.2.2.1.toNat st.2.2.2.toNat⌝
    | .inr st => ⌜PB dSigInt.toNat st.1 st.2.1 st.2.2.2.toNat⌝
  all_goals (simp +zetaDelta at *)
  -- out of range / zero: excluded by the precondition
  case vc1 | vc2 => have := u64_lt _ _ ‹20640 < dSigInt›; have : (20640 : UInt64).toNat = 20640 := rfl; omega
  case vc30 => subst ‹dSigInt = 0›; simp at *
  -- one word
  case vc3 => exact post_small0 _ _ _ rfl rfl (u64_lt _ _ ‹dSigInt < 64›)
  case vc4 => exact post_small1 _ _ _ rfl rfl (u64_ge _ _ ‹64 ≤ dSigInt›) (u64_lt _ _ ‹dSigInt < 128›)
  -- initial states of the loops
  case vc8 => exact PB_init2 _ _ _ _ rfl rfl rfl (u64_ge _ _ ‹128 ≤ dSigInt›) (u64_lt _ _ ‹dSigInt < 192›)
  case vc14 => exact PB_init3 _ _ _ _ rfl rfl rfl (u64_ge _ _ ‹192 ≤ dSigInt›) (u64_lt _ _ ‹dSigInt < 256›)
  case vc22 => exact PA_init' _ _ _ _ rfl rfl rfl (u64_ge _ _ ‹256 ≤ dSigInt›)
  case vc26 => assumption
  -- the `/10^19` loop
  case vc5 | vc11 | vc23 =>
    obtain ⟨hm, hpb⟩ := ‹_ ∧ PB _ _ _ _›
    obtain ⟨hq, hr⟩ := ‹_ ∧ _ = _ % _›
    rw [hm]; exact PB_step hpb hq hr (Or.inl rfl) ((U256.w3_pos _).1 ‹0 < _›)
  case vc6 | vc12 | vc24 =>
    obtain ⟨hm, hpb⟩ := ‹_ ∧ PB _ _ _ _›
    obtain ⟨hq, hr⟩ := ‹_ ∧ _ = _ % _›
    rw [hm]; exact PB_step hpb hq hr (Or.inr ⟨rfl, ‹_ = (0 : UInt64)›⟩) ((U256.w3_pos _).1 ‹0 < _›)
  case vc7 | vc13 | vc25 => exact ⟨‹_ ∧ PB _ _ _ _›.2, (U256.w3_zero _).1 ‹_ = (0 : UInt64)›⟩
  case vc9 | vc15 | vc27 =>
    exact PB_post (u64_ge _ _ ‹128 ≤ dSigInt›) ‹_ ∧ dSigInt.toNat ≤ 20640›.2 ‹PB _ _ _ _ ∧ _›.1 ‹PB _ _ _ _ ∧ _›.2
  -- the `/10` loop
  case vc17 =>
    obtain ⟨hm, hpa⟩ := ‹_ ∧ PA _ _ _ _ _›
    obtain ⟨hq, hr⟩ := ‹_ ∧ _ = _ % _›
    rw [hm]; exact PA_step ‹_ ∧ dSigInt.toNat ≤ 20640›.2 hpa hq hr (Or.inl rfl) ‹_ < _›
  case vc19 =>
    obtain ⟨hm, hpa⟩ := ‹_ ∧ PA _ _ _ _ _›
    obtain ⟨hq, hr⟩ := ‹_ ∧ _ = _ % _›
    rw [hm]; exact PA_step ‹_ ∧ dSigInt.toNat ≤ 20640›.2 hpa hq hr (Or.inr ⟨rfl, ‹_ = (0 : UInt64)›⟩) ‹_ < _›
  case vc18 =>
    obtain ⟨hm, hpa⟩ := ‹_ ∧ PA _ _ _ _ _›
    obtain ⟨hq, hr⟩ := ‹_ ∧ _ = _ % _›
    exact PA_break ‹_ ∧ dSigInt.toNat ≤ 20640›.2 hpa hq hr (Or.inl rfl) (by simpa using ‹_ ≤ Go.conv _›)
  case vc20 =>
    obtain ⟨hm, hpa⟩ := ‹_ ∧ PA _ _ _ _ _›
    obtain ⟨hq, hr⟩ := ‹_ ∧ _ = _ % _›
    exact PA_break ‹_ ∧ dSigInt.toNat ≤ 20640›.2 hpa hq hr (Or.inr ⟨rfl, ‹_ = (0 : UInt64)›⟩) (by simpa using ‹_ ≤ Go.conv _›)
  case vc21 =>
    obtain ⟨hm, hpa⟩ := ‹_ ∧ PA _ _ _ _ _›
    have h0 : _ = (0 : UInt64) := ‹_ = (0 : UInt64)›
    rw [h0] at hpa
    exact absurd hpa.2.1 (by decide)

/-! ## from the triple to an equation -/

/-- the postcondition "the outcome (value or panic) is that of `k b` for some `b` with `P b`" -/
def RunPost {α β : Type} (k : β → Go.GoM α) (P : β → Prop) : PostCond α (.except Go.Panic .pure) :=
  (fun r => ⌜∃ b, P b ∧ k b = .ok r⌝, fun p => ⌜∃ b, P b ∧ k b = .error p⌝, ())

theorem triple_run {α β : Type} (k : β → Go.GoM α) (P : β → Prop) (b : β) :
    ⦃⌜P b⌝⦄ k b ⦃RunPost k P⦄ := by
  rcases h : k b with p | r
  · simp [Triple, RunPost]
    exact fun hp => ⟨b, hp, h⟩
  · simp [Triple, RunPost]
    exact fun hp => ⟨b, hp, h⟩

theorem run_of_triple {α β : Type} {k : β → Go.GoM α} {P : β → Prop} {f : Go.GoM α} {H : Prop}
    (h : ⦃⌜H⌝⦄ f ⦃RunPost k P⦄) (hH : H) : ∃ b, f = k b ∧ P b := by
  rcases hf : f with p | r
  · rw [hf] at h
    simp [Triple, RunPost, hH] at h
    obtain ⟨b, hb, e⟩ := h
    exact ⟨b, e.symm, hb⟩
  · rw [hf] at h
    simp [Triple, RunPost, hH] at h
    obtain ⟨b, hb, e⟩ := h
    exact ⟨b, e.symm, hb⟩

/-- for `1 ≤ n ≤ 20640` the stage is its continuation applied to a triple satisfying `Post` -/
theorem exp2Pow_run (d : Gen.Decimal) (dSigInt : UInt64) (k : U192 → Int16 → Int8 → Go.GoM Gen.Decimal)
    (h1 : 1 ≤ dSigInt.toNat) (h2 : dSigInt.toNat ≤ 20640) :
    ∃ (s : U192) (e : Int16) (t : Int8), exp2Pow d dSigInt k = k s e t ∧ Post dSigInt.toNat s e t := by
  have hk : ∀ s e t, ⦃⌜Post dSigInt.toNat s e t⌝⦄ k s e t
      ⦃RunPost (fun b : U192 × Int16 × Int8 => k b.1 b.2.1 b.2.2)
        (fun b => Post dSigInt.toNat b.1 b.2.1 b.2.2)⦄ :=
    fun s e t => triple_run (fun b : U192 × Int16 × Int8 => k b.1 b.2.1 b.2.2)
      (fun b => Post dSigInt.toNat b.1 b.2.1 b.2.2) (s, e, t)
  obtain ⟨b, e, hb⟩ := run_of_triple (exp2Pow_post d dSigInt k _ hk) ⟨h1, h2⟩
  exact ⟨b.1, b.2.1, b.2.2, e, hb⟩

theorem exp2Pow_zero (d : Gen.Decimal) (dSigInt : UInt64) (k : U192 → Int16 → Int8 → Go.GoM Gen.Decimal)
    (h : dSigInt.toNat = 0) : exp2Pow d dSigInt k = k ⟨0, 0, 0⟩ 0 0 := by
  have : dSigInt = 0 := UInt64.toNat_inj.1 h
  subst this
  rfl

theorem exp2Pow_huge (d : Gen.Decimal) (dSigInt : UInt64) (k : U192 → Int16 → Int8 → Go.GoM Gen.Decimal)
    (h : 20640 < dSigInt.toNat) :
    exp2Pow d dSigInt k = .ok (if d.Signbit then Gen.zero false else Gen.inf false) := by
  have h0 : (dSigInt != 0) = true := by
    rw [bne_iff_ne]; intro h0; rw [h0] at h; exact absurd h (by decide)
  have h1 : decide (dSigInt > 20640) = true := by
    rw [decide_eq_true_eq, gt_iff_lt, UInt64.lt_iff_toNat_lt]; exact h
  unfold exp2Pow
  simp only [h0, h1, if_true]
  split <;> rfl

/-- **`2^n` as a working-format number** (stage `exp2Pow` of `Gen.Exp2`) -/
theorem exp2Pow_eq (d : Gen.Decimal) (dSigInt : UInt64) (k : U192 → Int16 → Int8 → Go.GoM Gen.Decimal) :
    (dSigInt.toNat = 0 → exp2Pow d dSigInt k = k ⟨0,0,0⟩ 0 0) ∧
    (20640 < dSigInt.toNat →
      exp2Pow d dSigInt k = .ok (if d.Signbit then Gen.zero false else Gen.inf false)) ∧
    (1 ≤ dSigInt.toNat → dSigInt.toNat ≤ 20640 →
      ∃ (s : U192) (e : Int16) (t : Int8), exp2Pow d dSigInt k = k s e t ∧
        (s.toNat : ℚ) * (10 : ℚ) ^ e.toInt ≤ (2 : ℚ) ^ dSigInt.toNat ∧
        (2 : ℚ) ^ dSigInt.toNat * (1 - 1 / 10 ^ 38) ≤ (s.toNat : ℚ) * (10 : ℚ) ^ e.toInt ∧
        (t = 0 ∨ t = 1) ∧ (t = 0 → (s.toNat : ℚ) * (10 : ℚ) ^ e.toInt = (2 : ℚ) ^ dSigInt.toNat) ∧
        0 ≤ e.toInt ∧ e.toInt ≤ 6300 ∧ 1 ≤ s.toNat ∧
        (dSigInt.toNat < 128 → s.toNat = 2 ^ dSigInt.toNat ∧ e = 0 ∧ t = 0) ∧
        (128 ≤ dSigInt.toNat → 10 ^ 38 ≤ s.toNat)) :=
  ⟨exp2Pow_zero d dSigInt k, exp2Pow_huge d dSigInt k, fun h1 h2 => by
    obtain ⟨s, e, t, h, p1, p2, p3, p4, p5, p6, p7⟩ := exp2Pow_run d dSigInt k h1 h2
    exact ⟨s, e, t, h, p1, p2, p3, p4, p5, by omega, p7⟩⟩

/-- `n = 10`: exact -/
example (d : Gen.Decimal) (k : U192 → Int16 → Int8 → Go.GoM Gen.Decimal) :
    ∃ s : U192, exp2Pow d 10 k = k s 0 0 ∧ s.toNat = 1024 := by
  obtain ⟨s, e, t, h, hp⟩ := exp2Pow_run d 10 k (by decide) (by decide)
  obtain ⟨hs, he, ht⟩ := hp.2.2.2.2.2.2.2.1 (by decide)
  subst he ht
  exact ⟨s, h, hs⟩

/-- `n = 300`: at least 38 digits, within `10^-38` (relative) below `2^300` -/
example (d : Gen.Decimal) (k : U192 → Int16 → Int8 → Go.GoM Gen.Decimal) :
    ∃ (s : U192) (e : Int16) (t : Int8), exp2Pow d 300 k = k s e t ∧ 10 ^ 38 ≤ s.toNat ∧
      (s.toNat : ℚ) * (10 : ℚ) ^ e.toInt ≤ 2 ^ 300 ∧
      (2 : ℚ) ^ 300 * (1 - 1 / 10 ^ 38) ≤ (s.toNat : ℚ) * (10 : ℚ) ^ e.toInt := by
  obtain ⟨s, e, t, h, hp⟩ := exp2Pow_run d 300 k (by decide) (by decide)
  exact ⟨s, e, t, h, hp.2.2.2.2.2.2.2.2 (by decide), hp.1, hp.2.1⟩

end ExpAcc
