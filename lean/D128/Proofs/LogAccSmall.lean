/-
  D128/Proofs/LogAccSmall.lean — `Gen.RoundingMode.reduce192` (Go: /repo/rounding.go) on a significand that
  already fits the format: under the two nearest modes the final rounding ignores a stale sticky flag.

  `reduce192_correct` needs `trunc = 1 → Cmax < sig` (a sticky flag comes with a digit to drop).  The
  logarithm code can call `reduce192` with the flag set although the working significand is short; then no
  digit is dropped, the guard digit stays `0`, and `round` under ToNearestEven/ToNearestAway computes
  `adjust = 0` whatever the flag is.

  Provided (namespace `LogAcc`):
  * `small_w2`, `small_w1`       : word facts of `sig.toNat ≤ Cmax`
  * `loop_done`                  : a `while` loop whose first pass finishes
  * `adjW_nearest_digit0`        : the decision table of `round` for mode bytes 0, 1 and guard digit 0
  * `reduce192_small_tail`       : for `sig ≤ Cmax`, `0 ≤ exp`: `reduce192` is the rescaling loop `upLoop` alone
  * `reduce192_small`            : `sig ≤ Cmax`, `0 ≤ exp ≤ 12287`: `reduce192 … = .ok (⟨sig.w0, sig.w1⟩, exp)`
  * `reduce192_small_flag`       : `sig ≤ Cmax`, `0 ≤ exp`: the result does not depend on `trunc`
  * `reduce192_small_high`       : the same for `12287 < exp ≤ 20000` (the form asked for)
-/
import D128.Proofs.RoundKernelWideCode

set_option autoImplicit false
set_option maxRecDepth 4096
set_option linter.unusedVariables false

namespace LogAcc
open Gen RK

/-! ## word facts -/

theorem small_w2 (sig : U192) (hs : sig.toNat ≤ Spec.Cmax) : sig.w2 = 0 := by
  have hCm := Cmax_val
  apply UInt64.toNat_inj.1
  show sig.w2.toNat = 0
  simp only [U192.toNat] at hs
  omega

theorem small_w1 (sig : U192) (hs : sig.toNat ≤ Spec.Cmax) : sig.w1.toNat ≤ 703687441776639 := by
  have hCm := Cmax_val
  have h0 := sig.w0.toNat_lt
  simp only [U192.toNat] at hs
  omega

theorem small_lo (sig : U192) (hs : sig.toNat ≤ Spec.Cmax) :
    (⟨sig.w0, sig.w1⟩ : U128).toNat = sig.toNat := by
  have h2 : sig.w2.toNat = 0 := by rw [small_w2 sig hs]; rfl
  simp only [U128.toNat, U192.toNat, h2]
  omega

/-! ## loops whose first pass finishes -/

theorem loop_done {β : Type} (f : Unit → β → Go.GoM (ForInStep β)) (b b' : β)
    (h : f () b = .ok (.done b')) : forIn (m := Go.GoM) Lean.Loop.mk b f = .ok b' := by
  rw [Go.loop_unfold, h]
  rfl

/-! ## the decision table -/

theorem adjW_nearest_digit0 (rm : UInt8) (neg : Bool) (w0 : UInt64) (trunc : Int8)
    (hrm : rm = 0 ∨ rm = 1) : adjW rm neg w0 trunc 0 = 0 := by
  rcases hrm with rfl | rfl
  · simp only [adjW]
    simp (decide := true) only [if_true, if_false]
    split_ifs <;> rfl
  · simp only [adjW]
    simp (decide := true) only [if_true, if_false]
    split_ifs <;> rfl

/-! ## the staged form on a short significand -/

/-- for a significand that fits, `reduce192` is the rescaling loop (`for exp > maxBiasedExponent && …`)
    alone; the sticky flag is not looked at -/
theorem reduce192_small_tail (rm : UInt8) (neg : Bool) (sig : U192) (exp : Int16) (trunc : Int8)
    (hrm : rm = 0 ∨ rm = 1) (hs : sig.toNat ≤ Spec.Cmax) (he0 : 0 ≤ exp.toInt) :
    Gen.RoundingMode.reduce192 rm neg sig exp trunc = upLoop (⟨sig.w0, sig.w1⟩, exp) := by
  have hw2 := small_w2 sig hs
  have hw1 := small_w1 sig hs
  -- step192: `sig192[2] > 10000` is false
  have hc1 : ¬ decide (sig.w2 > 10000) = true := by
    rw [hw2]; decide
  -- wide loop: `sig192[2] > 0` is false
  have hc2 : ¬ decide (sig.w2 > 0) = true := by
    rw [hw2]; decide
  have hwide : forIn (m := Go.GoM) Lean.Loop.mk (sig, exp, trunc) wide192Body = .ok (sig, exp, trunc) := by
    apply loop_done
    simp only [wide192Body, hc2]
    rfl
  -- the ladder: the three comparisons are false
  have hl (c : UInt64) (hc : 703687441776639 ≤ c.toNat) :
      ¬ decide ((⟨sig.w0, sig.w1⟩ : U128).w1 > c) = true := by
    rw [decide_eq_true_eq, gt_iff_lt, UInt64.lt_iff_toNat_lt]
    show ¬ c.toNat < sig.w1.toNat
    omega
  have hl4 := hl 703687441776640000 (by decide)
  have hl3 := hl 70368744177664000 (by decide)
  have hl2 := hl 7036874417766400 (by decide)
  have hl1 := hl 703687441776639 (by decide)
  -- loop B
  have hdrop : dropLoop ((⟨sig.w0, sig.w1⟩ : U128), exp, trunc, (0 : UInt64))
      = .ok ((⟨sig.w0, sig.w1⟩ : U128), exp, trunc, (0 : UInt64)) := by
    unfold dropLoop
    apply loop_done
    simp only [dropBody, hl1]
    rfl
  -- loop C
  have hsub : subLoop ((⟨sig.w0, sig.w1⟩ : U128), exp, trunc, (0 : UInt64))
      = .ok ((⟨sig.w0, sig.w1⟩ : U128), exp, trunc, (0 : UInt64)) := by
    unfold subLoop
    apply loop_done
    have hc : ¬ decide (exp < 0) = true := by
      rw [i16_lt_zero, decide_eq_true_eq]; omega
    simp only [subBody, hc]
    rfl
  rw [reduce192_eq]
  unfold step192
  simp only [hc1, if_false, Bool.false_eq_true]
  rw [hwide, ok_bind]
  unfold ladder128
  simp only [hl4, hl3, hl2, if_false, Bool.false_eq_true]
  rw [reduceTailP_eq]
  unfold reduceTail
  rw [hdrop, ok_bind, hsub, ok_bind]
  show (upLoop (⟨sig.w0, sig.w1⟩, exp) >>= fun s1 =>
      RoundingMode.round rm true neg s1.1 s1.2 trunc 0) = _
  have : ∀ s1 : U128 × Int16, RoundingMode.round rm true neg s1.1 s1.2 trunc 0 = pure s1 := by
    intro s1
    rw [round_adj0 _ _ _ _ _ _ _ (adjW_nearest_digit0 rm neg s1.1.w0 trunc hrm)]
    rfl
  simp only [this]
  exact bind_pure _

/-- nearest modes: a significand that already fits is returned unchanged, whatever the sticky flag -/
theorem reduce192_small (rm : UInt8) (neg : Bool) (sig : U192) (exp : Int16) (trunc : Int8)
    (hrm : rm = 0 ∨ rm = 1) (hs : sig.toNat ≤ Spec.Cmax)
    (he0 : 0 ≤ exp.toInt) (he1 : exp.toInt ≤ 12287) :
    Gen.RoundingMode.reduce192 rm neg sig exp trunc = .ok (⟨sig.w0, sig.w1⟩, exp) := by
  rw [reduce192_small_tail rm neg sig exp trunc hrm hs he0]
  unfold upLoop
  apply loop_done
  have hc : ¬ (decide (exp > 12287) && decide ((⟨sig.w0, sig.w1⟩ : U128).w1 < 703687441776639)) = true := by
    rw [Bool.and_eq_true, i16_gt_12287, decide_eq_true_eq]
    omega
  simp only [upBody, hc]
  rfl

/-- the hypotheses of `reduce192_small` hold for `3·10^0` with a stale sticky flag -/
example : Gen.RoundingMode.reduce192 0 false ⟨3, 0, 0⟩ 6176 1 = .ok (⟨3, 0⟩, 6176) :=
  reduce192_small 0 false ⟨3, 0, 0⟩ 6176 1 (Or.inl rfl) (by rw [Cmax_val]; decide) (by decide)
    (by decide)

/-- … and for the largest significand under ToNearestAway, negative flag -/
example : Gen.RoundingMode.reduce192 1 true ⟨18446744073709551615, 703687441776639, 0⟩ 12287 (-1)
    = .ok (⟨18446744073709551615, 703687441776639⟩, 12287) :=
  reduce192_small 1 true ⟨18446744073709551615, 703687441776639, 0⟩ 12287 (-1) (Or.inr rfl)
    (by rw [Cmax_val]; decide) (by decide) (by decide)

/-- nearest modes, a significand that fits, any non-negative exponent (above `maxBiasedExponent` only the
    flag-independent rescaling loop runs): the result does not depend on the sticky flag -/
theorem reduce192_small_flag (rm : UInt8) (neg : Bool) (sig : U192) (exp : Int16) (trunc : Int8)
    (hrm : rm = 0 ∨ rm = 1) (hs : sig.toNat ≤ Spec.Cmax) (he0 : 0 ≤ exp.toInt) :
    Gen.RoundingMode.reduce192 rm neg sig exp trunc = Gen.RoundingMode.reduce192 rm neg sig exp 0 := by
  rw [reduce192_small_tail rm neg sig exp trunc hrm hs he0,
    reduce192_small_tail rm neg sig exp 0 hrm hs he0]

/-- the variant for an exponent above `maxBiasedExponent` -/
theorem reduce192_small_high (rm : UInt8) (neg : Bool) (sig : U192) (exp : Int16) (trunc : Int8)
    (hrm : rm = 0 ∨ rm = 1) (hs : sig.toNat ≤ Spec.Cmax)
    (he0 : 12287 < exp.toInt) (he1 : exp.toInt ≤ 20000) :
    Gen.RoundingMode.reduce192 rm neg sig exp trunc = Gen.RoundingMode.reduce192 rm neg sig exp 0 :=
  reduce192_small_flag rm neg sig exp trunc hrm hs (by omega)

example := reduce192_small_high 0 false ⟨3, 0, 0⟩ 12300 1 (Or.inl rfl) (by rw [Cmax_val]; decide)
  (by decide) (by decide)

/-! ## evaluated checks (the generated code is executable) -/

#guard Gen.RoundingMode.reduce192 0 false ⟨3, 0, 0⟩ 6176 1 == .ok (⟨3, 0⟩, 6176)
#guard Gen.RoundingMode.reduce192 1 true ⟨18446744073709551615, 703687441776639, 0⟩ 12287 (-1)
    == .ok (⟨18446744073709551615, 703687441776639⟩, 12287)
#guard Gen.RoundingMode.reduce192 0 false ⟨3, 0, 0⟩ 12300 1
    == Gen.RoundingMode.reduce192 0 false ⟨3, 0, 0⟩ 12300 0

end LogAcc
