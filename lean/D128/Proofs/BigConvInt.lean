/-
  D128/Proofs/BigConvInt.lean — `Decimal.Int` and `Decimal.Rat` of /repo/convert.go (generated:
  `Gen.Decimal.Int_`, `Gen.Decimal.Rat`, D128/Gen/ConvertBig.lean) over the math/big layer
  (`Go.BigInt = Int`, `Go.BigRat = Rat`, D128/Go/Big.lean).  Property C10 (big conversions).

  math/big layer    Or_nonneg, big_of_words (w1·2^64 | w0 as a big.Int is the coefficient),
                    big_of_low, exp10_pos / exp10_neg / exp10_nonpos (`bigexp.Exp(10, |exp|, nil)`),
                    quo_pow, tdiv_pow, i16_mul_neg_one, i16_conv_i64
  classes           interp_class (NaN / Inf / finite, as `Spec.interp` reads the pattern)
  Int               Int_tail, Int_finite : finite d ⇒ `Int_ d i = .ok (Spec.truncInt 𝔳[d])` (any `i`),
                    Int_nan, Int_inf : the documented panics
  Rat               Rat_finite : finite d ⇒ `Rat d r = .ok 𝔳[d].toRat` (any `r`), Rat_nan, Rat_inf
-/
import D128.Proofs.IntConv
import D128.Gen.ConvertBig
import D128.Proofs.SpecRoundBase
set_option autoImplicit false
set_option maxRecDepth 4096

namespace BigConv
open IntConvPf CanonPf

theorem Or_nonneg (x y : Int) (hx : 0 ≤ x) (hy : 0 ≤ y) :
    Go.BigInt.Or x y = Int.ofNat (x.toNat ||| y.toNat) := by
  unfold Go.BigInt.Or Go.BigInt.twos
  rw [if_neg (by omega), if_neg (by omega)]

/-- the two-word coefficient as a `big.Int`, the way `Int`, `Rat` (and `Float`) build it -/
theorem big_of_words (s : U128) :
    Go.BigInt.Or (Go.BigInt.Lsh (Go.BigInt.SetUint64 s.w1) (64 : UInt64)) (Go.BigInt.SetUint64 s.w0)
      = (s.toNat : Int) := by
  unfold Go.BigInt.Lsh Go.BigInt.SetUint64
  have h0 := s.w0.toNat_lt
  have h64 : (64 : UInt64).toNat = 64 := rfl
  have e1 : (Int.ofNat s.w1.toNat * 2 ^ (64 : UInt64).toNat) = ((s.w1.toNat * 2 ^ 64 : Nat) : Int) := by
    rw [h64]; push_cast; rfl
  rw [e1, Or_nonneg ((s.w1.toNat * 2 ^ 64 : Nat) : Int) (Int.ofNat s.w0.toNat) (Int.natCast_nonneg _) (Int.natCast_nonneg _)]
  simp only [Int.toNat_natCast, Int.ofNat_eq_natCast, U128.toNat]
  rw [← Nat.shiftLeft_eq, ← Nat.shiftLeft_add_eq_or_of_lt h0, Nat.shiftLeft_eq]
  congr 1
  omega

theorem big_of_low (s : U128) (h : (s.w1 == 0) = true) : Go.BigInt.SetUint64 s.w0 = (s.toNat : Int) := by
  rw [u64_eq_zero_iff] at h
  simp only [Go.BigInt.SetUint64, U128.toNat, h, Int.ofNat_eq_natCast]
  congr 1

theorem i16_mul_neg_one (e : Int16) (h : -32768 < e.toInt) : (e * (-1 : Int16)).toInt = -e.toInt := by
  have h1 : (-1 : Int16).toInt = -1 := by decide
  have := e.toInt_lt
  rw [Int16.toInt_mul, h1, Int.mul_neg_one]
  apply Int.bmod_eq_of_le <;> simp only [Nat.reducePow] at * <;> omega

theorem i16_conv_i64 (e : Int16) : (Go.conv e : Int64).toInt = e.toInt := by
  have h1 := e.toInt_lt
  have h2 := e.le_toInt
  show (Int64.ofInt e.toInt).toInt = _
  rw [Int64.toInt_ofInt]
  apply Int.bmod_eq_of_le <;> simp only [Int64.size, Int.reducePow] at * <;> omega

theorem exp10_pos (e : Int16) (h : 0 < e.toInt) :
    Go.BigInt.Exp 10 (Go.BigInt.NewInt (Go.conv e : Int64)) = ((10 ^ e.toInt.toNat : Nat) : Int) := by
  unfold Go.BigInt.Exp Go.BigInt.NewInt
  have hn : ¬ (e.toInt ≤ 0) := by omega
  rw [i16_conv_i64, if_neg hn]
  push_cast; rfl

theorem exp10_neg (e : Int16) (h : e.toInt < 0) (h' : -32768 < e.toInt) :
    Go.BigInt.Exp 10 (Go.BigInt.NewInt (Go.conv (e * (-1 : Int16)) : Int64))
      = ((10 ^ (-e.toInt).toNat : Nat) : Int) := by
  unfold Go.BigInt.Exp Go.BigInt.NewInt
  have hn : ¬ (-e.toInt ≤ 0) := by omega
  rw [i16_conv_i64, i16_mul_neg_one e h', if_neg hn]
  push_cast; rfl

theorem quo_pow (x : Int) (n : Nat) :
    Go.BigInt.Quo x ((10 ^ n : Nat) : Int) = .ok (Int.tdiv x ((10 ^ n : Nat) : Int)) := by
  unfold Go.BigInt.Quo
  rw [if_neg]
  · rfl
  · have : 0 < 10 ^ n := Nat.pow_pos (by decide)
    intro h
    have h2 : (10 ^ n : Nat) = 0 := by exact_mod_cast h
    omega

theorem tdiv_pow (sg : Bool) (c n : Nat) :
    Int.tdiv (if sg then -(c : Int) else (c : Int)) ((10 ^ n : Nat) : Int)
      = if sg then -((c / 10 ^ n : Nat) : Int) else ((c / 10 ^ n : Nat) : Int) := by
  cases sg
  · simp only [Bool.false_eq_true, if_false]
    rw [Int.tdiv_eq_ediv_of_nonneg (Int.natCast_nonneg _)]; push_cast; rfl
  · simp only [if_true]
    rw [Int.neg_tdiv, Int.tdiv_eq_ediv_of_nonneg (Int.natCast_nonneg _)]; push_cast; rfl

/-- the part of `Int` after the coefficient has been made a signed `big.Int` -/
theorem Int_tail (sg : Bool) (c : Nat) (e' : Int16) (hlo : -35 ≤ e'.toInt) :
    (if (e' == 0) = true then (pure (if sg then -(c : Int) else (c : Int)) : Go.GoM Go.BigInt)
        else
          if decide (e' > 0) = true then
            if decide (e' > 0) = true then
              pure (Go.BigInt.Mul (if sg then -(c : Int) else (c : Int)) (Go.BigInt.Exp 10 (Go.BigInt.NewInt (Go.conv e'))))
            else do
              let t_3 ← Go.BigInt.Quo (if sg then -(c : Int) else (c : Int)) (Go.BigInt.Exp 10 (Go.BigInt.NewInt (Go.conv e')))
              pure t_3
          else
            if decide (e' > 0) = true then
              pure (Go.BigInt.Mul (if sg then -(c : Int) else (c : Int)) (Go.BigInt.Exp 10 (Go.BigInt.NewInt (Go.conv (e' * -1)))))
            else do
              let t_3 ← Go.BigInt.Quo (if sg then -(c : Int) else (c : Int)) (Go.BigInt.Exp 10 (Go.BigInt.NewInt (Go.conv (e' * -1))))
              pure t_3) =
    Except.ok (if sg = true then -((truncMag c e'.toInt : Nat) : Int) else ((truncMag c e'.toInt : Nat) : Int)) := by
  by_cases hz : (e' == 0) = true
  · rw [if_pos hz]
    have : e'.toInt = 0 := by rw [beq_iff_eq] at hz; rw [hz]; rfl
    simp [truncMag, this]; rfl
  · rw [if_neg hz]
    have hz' : e'.toInt ≠ 0 := by
      intro h; apply hz; rw [beq_iff_eq, ← Int16.toInt_inj, h]; rfl
    by_cases hp : decide (e' > 0) = true
    · rw [if_pos hp, if_pos hp]
      rw [i16_gt_lit, i16_0] at hp
      rw [exp10_pos e' hp]
      have h1 : (-e'.toInt).toNat = 0 := by omega
      simp only [truncMag, h1, Nat.pow_zero, Nat.div_one, Go.BigInt.Mul]
      cases sg <;> simp <;> rfl
    · rw [if_neg hp, if_neg hp]
      rw [i16_gt_lit, i16_0] at hp
      rw [exp10_neg e' (by omega) (by omega), quo_pow, tdiv_pow]
      have h1 : e'.toInt.toNat = 0 := by omega
      simp only [truncMag, h1, Nat.pow_zero, Nat.mul_one]

theorem Int_finite (d : Gen.Decimal) (i0 : Go.BigInt) (hs : Gen.Decimal.isSpecial d = false) :
    Gen.Decimal.Int_ d i0 = .ok (Spec.truncInt (Spec.interp d.lo d.hi)) := by
  have hc := Enc.decompose_sig_le d
  have h0 := Enc.decompose_exp_nonneg d
  have h1 := Enc.decompose_exp_le d hs
  rw [Enc.interp_decompose d hs, truncInt_fin]
  unfold Gen.Decimal.Int_
  generalize Gen.Decimal.decompose d = p at *
  obtain ⟨s, e⟩ := p
  simp only at hc h0 h1
  have hE : (e - 6176).toInt = e.toInt - 6176 := by
    apply i16_sub <;> rw [i16_6176] <;> simp only [Int.reducePow] <;> omega
  by_cases hw : (s.w1 == 0) = true
  · simp only [hs, hw, Bool.false_eq_true, if_false, if_true, big_of_low s hw]
    by_cases h35 : decide (e - 6176 < (-35 : Int16)) = true
    · rw [if_pos h35, early_exit s e hc h0 h1 h35]; cases Gen.Decimal.Signbit d <;> rfl
    · rw [if_neg h35]
      rw [i16_lt_lit, hE, i16_m35] at h35
      have := Int_tail (Gen.Decimal.Signbit d) s.toNat (e - 6176) (by omega)
      rw [hE] at this
      generalize Gen.Decimal.Signbit d = sg at *
      cases sg <;>
        simp only [if_true, if_false, Bool.false_eq_true, bind_pure, Go.BigInt.Neg] at this ⊢ <;>
        exact this
  · simp only [hs, hw, Bool.false_eq_true, if_false, big_of_words s]
    by_cases h35 : decide (e - 6176 < (-35 : Int16)) = true
    · rw [if_pos h35, early_exit s e hc h0 h1 h35]; cases Gen.Decimal.Signbit d <;> rfl
    · rw [if_neg h35]
      rw [i16_lt_lit, hE, i16_m35] at h35
      have := Int_tail (Gen.Decimal.Signbit d) s.toNat (e - 6176) (by omega)
      rw [hE] at this
      generalize Gen.Decimal.Signbit d = sg at *
      cases sg <;>
        simp only [if_true, if_false, Bool.false_eq_true, bind_pure, Go.BigInt.Neg] at this ⊢ <;>
        exact this

theorem exp10_nonpos (e : Int16) (h : e.toInt ≤ 0) (h' : -32768 < e.toInt) :
    Go.BigInt.Exp 10 (Go.BigInt.NewInt (Go.conv (e * (-1 : Int16)) : Int64))
      = ((10 ^ (-e.toInt).toNat : Nat) : Int) := by
  by_cases h0 : e.toInt < 0
  · exact exp10_neg e h0 h'
  · have : e.toInt = 0 := by omega
    unfold Go.BigInt.Exp Go.BigInt.NewInt
    have hn : (-e.toInt ≤ 0) := by omega
    rw [i16_conv_i64, i16_mul_neg_one e h', if_pos hn, this]
    rfl

theorem Rat_finite (d : Gen.Decimal) (r0 : Go.BigRat) (hs : Gen.Decimal.isSpecial d = false) :
    Gen.Decimal.Rat d r0 = .ok (Spec.interp d.lo d.hi).toRat := by
  have hc := Enc.decompose_sig_le d
  have h0 := Enc.decompose_exp_nonneg d
  have h1 := Enc.decompose_exp_le d hs
  rw [Enc.interp_decompose d hs]
  unfold Gen.Decimal.Rat
  generalize Gen.Decimal.decompose d = p at *
  obtain ⟨s, e⟩ := p
  simp only at hc h0 h1
  have hE : (e - 6176).toInt = e.toInt - 6176 := by
    apply i16_sub <;> rw [i16_6176] <;> simp only [Int.reducePow] <;> omega
  simp only [hs, Bool.false_eq_true, if_false, big_of_words s]
  have hlo : -6176 ≤ (e - 6176).toInt := by omega
  have hhi : (e - 6176).toInt ≤ 6111 := by omega
  rw [← hE]
  generalize e - 6176 = e' at *
  generalize Gen.Decimal.Signbit d = sg
  simp only [Spec.Val.toRat, Spec.mag, SpecRound.pow10_eq_zpow]
  by_cases hA : (e' == 0 && s.w1 == 0) = true
  · rw [if_pos hA]
    rw [Bool.and_eq_true, beq_iff_eq] at hA
    have he0 : e'.toInt = 0 := by rw [hA.1]; rfl
    have hw : s.toNat = s.w0.toNat := by
      have := hA.2; rw [u64_eq_zero_iff] at this; simp [U128.toNat, this]
    rw [hw, he0]
    simp only [Go.BigRat.SetUint64, Go.BigRat.Neg, Rat.divInt_eq_div]
    cases sg <;> simp <;> rfl
  · rw [if_neg hA]
    by_cases hp : decide (e' > 0) = true
    · rw [if_pos hp, if_pos hp]
      rw [i16_gt_lit, i16_0] at hp
      rw [exp10_pos e' hp]
      simp only [Go.BigRat.SetInt, Go.BigRat.Neg, Go.BigInt.Mul, Rat.divInt_eq_div]
      have : ((10 : ℚ) ^ e'.toInt) = (10 : ℚ) ^ e'.toInt.toNat := by
        conv_lhs => rw [← Int.toNat_of_nonneg (le_of_lt hp)]
        exact zpow_natCast _ _
      rw [this]
      cases sg <;> simp <;> rfl
    · rw [if_neg hp, if_neg hp]
      rw [i16_gt_lit, i16_0] at hp
      rw [exp10_nonpos e' (by omega) (by omega)]
      have hne : ((10 ^ (-e'.toInt).toNat : Nat) : Int) ≠ 0 := by
        have : 0 < 10 ^ (-e'.toInt).toNat := Nat.pow_pos (by decide)
        omega
      simp only [Go.BigRat.SetFrac, hne, if_false]
      have hz : ((10 : ℚ) ^ e'.toInt) = 1 / (10 : ℚ) ^ (-e'.toInt).toNat := by
        have : e'.toInt = -(((-e'.toInt).toNat : Nat) : Int) := by omega
        conv_lhs => rw [this]
        rw [zpow_neg, zpow_natCast, one_div]
      rw [hz]
      simp only [pure_bind, Go.BigRat.Neg, Rat.divInt_eq_div]
      cases sg <;> simp <;> rfl

/-- the class of a bit pattern, as the specification reads it -/
theorem interp_class (d : Gen.Decimal) :
    (Gen.Decimal.IsNaN d = true ∧ ∃ p, Spec.interp d.lo d.hi = .nan (Gen.Decimal.Signbit d) p) ∨
    (Gen.Decimal.isSpecial d = true ∧ Gen.Decimal.IsNaN d = false ∧
      Spec.interp d.lo d.hi = .inf (Gen.Decimal.Signbit d)) ∨
    (Gen.Decimal.isSpecial d = false ∧ Gen.Decimal.IsNaN d = false ∧
      Spec.interp d.lo d.hi = .fin (Gen.Decimal.Signbit d) (Gen.Decimal.decompose d).1.toNat
        ((Gen.Decimal.decompose d).2.toInt - 6176)) := by
  by_cases hs : Gen.Decimal.isSpecial d = false
  · right; right
    refine ⟨hs, ?_, Enc.interp_decompose d hs⟩
    by_contra hn
    simp only [Bool.not_eq_false] at hn
    have : Gen.Decimal.isSpecial d = true := by rw [Enc.isSpecial_iff, hn]; rfl
    rw [hs] at this; cases this
  · simp only [Bool.not_eq_false] at hs
    by_cases hn : Gen.Decimal.IsNaN d = true
    · left
      refine ⟨hn, d.lo, ?_⟩
      have h1 := hn
      rw [Enc.IsNaN_eq] at h1
      simp only [decide_eq_true_eq] at h1
      rw [Enc.interp_eq, if_pos h1, ← Enc.Signbit_eq]
    · simp only [Bool.not_eq_true] at hn
      right; left
      refine ⟨hs, hn, ?_⟩
      have h1 := hn
      have h2 := hs
      rw [Enc.IsNaN_eq] at h1
      rw [Enc.isSpecial_eq] at h2
      simp only [decide_eq_true_eq, decide_eq_false_iff_not] at h1 h2
      have h30 : d.hi.toNat / 2 ^ 58 % 32 = 30 := by omega
      rw [Enc.interp_eq, if_neg h1, if_pos h30, ← Enc.Signbit_eq]

theorem Int_nan (d : Gen.Decimal) (i0 : Go.BigInt) (hn : Gen.Decimal.IsNaN d = true) :
    Gen.Decimal.Int_ d i0 = .error (.explicit "Decimal(NaN).Int()") := by
  have hs : Gen.Decimal.isSpecial d = true := by rw [Enc.isSpecial_iff, hn]; rfl
  unfold Gen.Decimal.Int_
  simp only [hs, hn, if_true]
  rfl

theorem Int_inf (d : Gen.Decimal) (i0 : Go.BigInt) (hs : Gen.Decimal.isSpecial d = true)
    (hn : Gen.Decimal.IsNaN d = false) :
    Gen.Decimal.Int_ d i0 = .error (.explicit
      (if Gen.Decimal.Signbit d then "Decimal(-Inf).Int()" else "Decimal(+Inf).Int()")) := by
  unfold Gen.Decimal.Int_
  simp only [hs, hn, if_true, Bool.false_eq_true, if_false]
  cases Gen.Decimal.Signbit d <;> rfl

theorem Rat_nan (d : Gen.Decimal) (r0 : Go.BigRat) (hn : Gen.Decimal.IsNaN d = true) :
    Gen.Decimal.Rat d r0 = .error (.explicit "Decimal(NaN).Rat()") := by
  have hs : Gen.Decimal.isSpecial d = true := by rw [Enc.isSpecial_iff, hn]; rfl
  unfold Gen.Decimal.Rat
  simp only [hs, hn, if_true]
  rfl

theorem Rat_inf (d : Gen.Decimal) (r0 : Go.BigRat) (hs : Gen.Decimal.isSpecial d = true)
    (hn : Gen.Decimal.IsNaN d = false) :
    Gen.Decimal.Rat d r0 = .error (.explicit
      (if Gen.Decimal.Signbit d then "Decimal(-Inf).Rat()" else "Decimal(+Inf).Rat()")) := by
  unfold Gen.Decimal.Rat
  simp only [hs, hn, if_true, Bool.false_eq_true, if_false]
  cases Gen.Decimal.Signbit d <;> rfl

end BigConv
