/-
  D128/Proofs/NeverNaNPayloadText.lean — property C15: `Payload.String` (generated
  `Gen.Payload.String`, D128/Gen/PayloadText.lean, translation of /repo/payload.go) on the payloads that
  invalid operations create.  The function ends in an unmodelled `fmt.Sprintf` for unknown codes; on every
  payload `op | l << 8 | r << 16` of an invalid operation (`l`, `r` operand classes 1…6) that branch is not
  reached and the result is the documented text.

  Provided (namespace `NN`):
  * `clsName`, `opName`              : the vocabulary ("Zero", "-Zero", "Finite", …; "Add", "Log", …)
  * `string_binary`                  : `op ∈ {Add, Mul, Pow, Quo, QuoRem, Sub}`, `l r ∈ 1…6`:
        `Payload.String (op | l<<8 | r<<16) = "Op(<l>, <r>)"`
  * `string_unary`                   : `op ∈ {Log, Log10, Log1p, Log2, Sqrt}`, `l ∈ 1…6`:
        `Payload.String (op | l<<8 | 0<<16) = "Op(<l>)"`
  * `cls_range`                      : a non-NaN bit pattern has a class in 1…6
  * `string_of_invalid2`, `string_of_invalid1` : the same with `l = cls d`, `r = cls o` for non-NaN `d`, `o`
-/
import D128.Proofs.NeverNaNPayload
import D128.Proofs.NeverNaNRoot
import D128.Gen.PayloadText
set_option autoImplicit false

namespace NN
open Spec

/-- text of an operand class (payload.go `argString`) -/
def clsName (c : UInt64) : String :=
  if c = 1 then "Zero" else if c = 2 then "-Zero" else if c = 3 then "Finite"
  else if c = 4 then "-Finite" else if c = 5 then "Infinite" else if c = 6 then "-Infinite"
  else "Unknown"

/-- text of an operation (payload.go `Payload.String`) -/
def opName : Op → String
  | .compose => "Compose" | .fromFloat32 => "FromFloat32" | .fromFloat64 => "FromFloat64"
  | .mustParse => "MustParse" | .nan => "NaN" | .parse => "Parse" | .scan => "Scan"
  | .unmarshalText => "UnmarshalText" | .add => "Add" | .log => "Log" | .log10 => "Log10"
  | .log1p => "Log1p" | .log2 => "Log2" | .mul => "Mul" | .pow => "Pow" | .quo => "Quo"
  | .quoRem => "QuoRem" | .sqrt => "Sqrt" | .sub => "Sub"

def InRange (c : UInt64) : Prop := c = 1 ∨ c = 2 ∨ c = 3 ∨ c = 4 ∨ c = 5 ∨ c = 6

def IsBinary (op : Op) : Prop :=
  op = .add ∨ op = .mul ∨ op = .pow ∨ op = .quo ∨ op = .quoRem ∨ op = .sub
def IsUnary (op : Op) : Prop :=
  op = .log ∨ op = .log10 ∨ op = .log1p ∨ op = .log2 ∨ op = .sqrt

set_option maxRecDepth 8192 in
/-- the six binary operations × 6 × 6 operand classes (216 closed evaluations) -/
theorem string_binary (op : Op) (l r : UInt64) (hop : IsBinary op) (hl : InRange l) (hr : InRange r) :
    Gen.Payload.String (op.code ||| l <<< 8 ||| r <<< 16) =
      .ok (Go.str (opName op ++ "(" ++ clsName l ++ ", " ++ clsName r ++ ")")) := by
  rcases hop with rfl | rfl | rfl | rfl | rfl | rfl <;>
  rcases hl with rfl | rfl | rfl | rfl | rfl | rfl <;>
  rcases hr with rfl | rfl | rfl | rfl | rfl | rfl <;> rfl

set_option maxRecDepth 8192 in
/-- the five unary operations × 6 operand classes -/
theorem string_unary (op : Op) (l : UInt64) (hop : IsUnary op) (hl : InRange l) :
    Gen.Payload.String (op.code ||| l <<< 8 ||| (0 : UInt64) <<< 16) =
      .ok (Go.str (opName op ++ "(" ++ clsName l ++ ")")) := by
  rcases hop with rfl | rfl | rfl | rfl | rfl <;>
  rcases hl with rfl | rfl | rfl | rfl | rfl | rfl <;> rfl

/-- a bit pattern that is not a NaN has one of the six operand classes -/
theorem cls_range (d : Gen.Decimal) (h : Gen.Decimal.IsNaN d = false) : InRange (cls d) := by
  unfold cls InRange
  rw [h]
  cases Gen.Decimal.isInf d <;> cases Gen.Decimal.IsZero d <;> cases Gen.Decimal.Signbit d <;> simp

/-- the text of the payload an invalid binary operation on the non-NaN operands `d`, `o` creates -/
theorem string_of_invalid2 (op : Op) (d o : Gen.Decimal) (hop : IsBinary op)
    (hd : Gen.Decimal.IsNaN d = false) (ho : Gen.Decimal.IsNaN o = false) :
    Gen.Payload.String (op.code ||| cls d <<< 8 ||| cls o <<< 16) =
      .ok (Go.str (opName op ++ "(" ++ clsName (cls d) ++ ", " ++ clsName (cls o) ++ ")")) :=
  string_binary op _ _ hop (cls_range d hd) (cls_range o ho)

theorem string_of_invalid1 (op : Op) (d : Gen.Decimal) (hop : IsUnary op)
    (hd : Gen.Decimal.IsNaN d = false) :
    Gen.Payload.String (op.code ||| cls d <<< 8 ||| (0 : UInt64) <<< 16) =
      .ok (Go.str (opName op ++ "(" ++ clsName (cls d) ++ ")")) :=
  string_unary op _ hop (cls_range d hd)

/-- example: `Sqrt(-Inf)` reports "Sqrt(-Infinite)" -/
example (g : Globals) : ∃ r p, Gen.Sqrt g (Gen.inf true) = .ok r ∧ Gen.Decimal.Payload_ r = .ok p ∧
    Gen.Payload.String p = .ok (Go.str "Sqrt(-Infinite)") :=
  ⟨_, _, (Props.C17.sqrt_neg_inf g (Gen.inf true) rfl rfl).1, (Props.C17.sqrt_neg_inf g (Gen.inf true) rfl rfl).2.1, rfl⟩

end NN
