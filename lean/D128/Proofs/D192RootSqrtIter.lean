/-
  D128/Proofs/D192RootSqrtIter.lean — the Heron loop of `Gen.Sqrt` from the operation contracts
  (`Root.quo_rel`, `Root.add_rel`, `Root.mul_rel`), with both alternatives of every "exact or normalised"
  clause.

  Provided (namespace `Root`):
  * `halfD`, `val_half`, `exp_le_zero`, `eps_le`, `three_lam_le_eps`
  * `SInv nrm β L (res, t)` : invariant of the loop: `res.sig ≠ 0`, `-L ≤ res.exp`, `ν/x² ∈ [1-β, 1+3·eps]`
                              (ν = val nrm, x = val res), flag ∈ {0,1,-1}, and `LIM ≤ res.sig ∨ t = 0`
  * `sqrtStep_inv`          : one step: no panic, result within relative `eps = 2^-185` of `(x + ν/x)/2`
                              (quotient in `[-lam, +eps]`, sum and halving in `[-lam, 0]`), invariant with
                              `β' ≥ β²/(2-β)² + 2·eps`, `L+1`.  An un-normalised result forces all three
                              operations of the step to be exact with the flag passed through.
  * `iter_chain`, `betaSeq`, `sqrtIter_inv` : the eight steps: from defect 0.87 to `2·eps + 1e-76`, no panic
-/
import D128.Proofs.D192RootOps
import D128.Proofs.D192RootRel
import D128.Proofs.D192RootHeron
set_option autoImplicit false
set_option maxRecDepth 4096
set_option linter.unusedVariables false
namespace Root
open Gen D192
local notation "𝔳[" d "]" => Spec.interp (Gen.Decimal.lo d) (Gen.Decimal.hi d)

theorem eps_le : eps ≤ 1 / 10 ^ 55 := by unfold eps; norm_num
theorem three_lam_le_eps : 3 * lam ≤ eps := by unfold lam eps LIM; norm_num

/-- the constant `0.5` of the Heron step -/
def halfD : decomposed192 := { sig := { w0 := 5, w1 := 0, w2 := 0 }, exp := -1 }

theorem val_half : val halfD = 1 / 2 := by
  unfold val halfD
  have h1 : ({ w0 := 5, w1 := 0, w2 := 0 } : U192).toNat = 5 := by simp [U192.toNat]
  have h2 : (-1 : Int16).toInt = -1 := by decide
  simp only [h1, h2]; norm_num

/-- exponent of a value below 10 with a non-zero significand is at most 0 -/
theorem exp_le_zero (r : decomposed192) (hs : r.sig.toNat ≠ 0) (hv : val r < 10) : r.exp.toInt ≤ 0 := by
  have h1 : (1 : ℚ) ≤ (r.sig.toNat : ℚ) := by exact_mod_cast Nat.pos_of_ne_zero hs
  have hp : (0 : ℚ) < (10 : ℚ) ^ r.exp.toInt := zpow_pos (by norm_num) _
  have h2 : (10 : ℚ) ^ r.exp.toInt < (10 : ℚ) ^ (1 : Int) := by
    unfold val at hv
    have : (10 : ℚ) ^ r.exp.toInt ≤ (r.sig.toNat : ℚ) * (10 : ℚ) ^ r.exp.toInt :=
      le_mul_of_one_le_left hp.le h1
    rw [zpow_one]; linarith
  have := (zpow_lt_zpow_iff_right₀ (by norm_num : (1 : ℚ) < 10)).1 h2
  omega

/-- invariant of the Heron loop of `Sqrt`: non-zero iterate, exponent window, defect of `ν/x²`,
flag in {0,1,-1}, and "normalised or flag 0" -/
def SInv (nrm : decomposed192) (β : ℚ) (L : Int) (s : decomposed192 × Int8) : Prop :=
  s.1.sig.toNat ≠ 0 ∧ -L ≤ s.1.exp.toInt ∧
  (1 - β) * val s.1 ^ 2 ≤ val nrm ∧ val nrm ≤ (1 + 3 * eps) * val s.1 ^ 2 ∧
  (s.2 = 0 ∨ s.2 = 1 ∨ s.2 = -1) ∧ (LIM ≤ s.1.sig.toNat ∨ s.2 = 0)

/-- **One Heron step of `Sqrt` from the contracts.**  Under the invariant (defect `β ≤ 0.87`) the step does
not panic, its result is within relative `eps = 2^-185` of the exact Heron step, hence satisfies the invariant
with the next defect bound `β' ≥ β²/(2-β)² + 2·eps`. -/
theorem sqrtStep_inv (nrm : decomposed192) (s : decomposed192 × Int8) (β β' : ℚ) (L : Int)
    (hn0 : nrm.sig.toNat ≠ 0) (hne0 : -39 ≤ nrm.exp.toInt) (hne1 : nrm.exp.toInt ≤ 0)
    (hν10 : val nrm < 10)
    (hβ : 3 * eps ≤ β) (hβ1 : β ≤ 87 / 100) (hL0 : 157 ≤ L) (hL1 : L ≤ 5000)
    (hβ' : β ^ 2 ≤ (β' - 2 * eps) * (2 - β) ^ 2)
    (h : SInv nrm β L s) :
    ∃ s', sqrtStep nrm s = .ok s' ∧ SInv nrm β' (L + 1) s' := by
  obtain ⟨res, t⟩ := s
  obtain ⟨hs0, hexpL, hlo, hhi, htf, hnz⟩ := h
  simp only at hs0 hexpL hlo hhi htf hnz
  have hε := eps_pos
  have hε1 : eps ≤ 1 / 100 := le_trans eps_le (by norm_num)
  have hl := lam_pos
  have hl1 : lam ≤ 1 / 100 := le_trans lam_le (by norm_num)
  set ν := val nrm with hνdef
  set x := val res with hxdef
  have hν : 0 < ν := val_pos_of_sig nrm hn0
  have hx : 0 < x := val_pos_of_sig res hs0
  -- x < 10
  have hx10 : x < 10 := by
    by_contra hcon
    have h10 : 10 ≤ x := not_lt.1 hcon
    have : (100 : ℚ) ≤ x ^ 2 := by nlinarith
    have : (1 - β) * x ^ 2 ≥ (13 / 100) * 100 := by nlinarith
    linarith
  have hexp0 : res.exp.toInt ≤ 0 := exp_le_zero res hs0 hx10
  -- quo
  obtain ⟨tmp, t1, hq, q1, q2, qf, qs, qe0, qe1, qx⟩ := quo_rel nrm res t hn0 hs0
    ⟨by omega, by omega⟩ ⟨by omega, by omega⟩
  set q := val tmp with hqdef
  have hνx : 0 < ν / x := div_pos hν hx
  have hq0 : 0 < q := lt_of_lt_of_le (mul_pos hνx (by linarith)) q1
  -- add
  obtain ⟨sm, t2, ha, a1, a2, af, ae0, ae1, ax⟩ := add_rel res tmp t1 (by omega) (by omega)
    (by omega) (by omega)
  set sv := val sm with hsvdef
  have hsv0 : 0 < sv := lt_of_lt_of_le (mul_pos (by linarith) (by linarith)) a1
  -- mul by 0.5
  have hhe : halfD.exp.toInt = -1 := by decide
  obtain ⟨res', t3, hm, m1, m2, mf, me0, me1, mx⟩ := mul_rel halfD sm t2
    (by rw [hhe]; omega) (by rw [hhe]; omega)
  rw [val_half] at m1 m2 mx
  set x' := val res' with hx'def
  have hx'0 : 0 < x' := lt_of_lt_of_le (mul_pos (by linarith) (by linarith)) m1
  -- the step evaluates
  refine ⟨(res', t3), ?_, ?_⟩
  · show (decomposed192.quo nrm res t >>= fun x => decomposed192.add res x.1 x.2 >>= fun x1 =>
        decomposed192.mul halfD x1.1 x1.2 >>= fun x2 => pure (x2.1, x2.2)) = _
    rw [hq]
    show (decomposed192.add res tmp t1 >>= fun x1 =>
        decomposed192.mul halfD x1.1 x1.2 >>= fun x2 => pure (x2.1, x2.2)) = _
    rw [ha]
    show (decomposed192.mul halfD sm t2 >>= fun x2 => pure (x2.1, x2.2)) = _
    rw [hm]; rfl
  -- accuracy of the step
  have hxq : x * (ν / x) = ν := by field_simp
  have hxq1 : ν * (1 - lam) ≤ x * q := by
    have := mul_le_mul_of_nonneg_left q1 hx.le
    rw [← mul_assoc, hxq] at this; exact this
  have hxq2 : x * q ≤ ν * (1 + eps) := by
    have := mul_le_mul_of_nonneg_left q2 hx.le
    rw [← mul_assoc, hxq] at this; exact this
  have hx2 : 0 ≤ x ^ 2 := sq_nonneg x
  have hup : 2 * x * x' ≤ (1 + eps) * (x ^ 2 + ν) := by
    have h1 : 2 * x' ≤ x + q := by linarith
    have h3 : x * (2 * x') ≤ x * (x + q) := mul_le_mul_of_nonneg_left h1 hx.le
    have e : x * (x + q) = x ^ 2 + x * q := by ring
    have h4 : 0 ≤ eps * x ^ 2 := mul_nonneg hε.le hx2
    have e2 : (1 + eps) * (x ^ 2 + ν) = x ^ 2 + eps * x ^ 2 + ν * (1 + eps) := by ring
    rw [e2]; rw [e] at h3; linarith
  have hdn : (1 - eps) * (x ^ 2 + ν) ≤ 2 * x * x' := by
    set u := 1 - lam with hu
    have hu0 : 0 < u := by rw [hu]; linarith
    have hu1 : u ≤ 1 := by rw [hu]; linarith
    have h1 : (x + q) * u * u ≤ 2 * x' := by
      have := mul_le_mul_of_nonneg_right a1 hu0.le
      linarith
    have h3 : (x ^ 2 + ν * u) * (u * u) ≤ 2 * x * x' := by
      have h4 : x * ((x + q) * u * u) ≤ x * (2 * x') := mul_le_mul_of_nonneg_left h1 hx.le
      have h5 : (x ^ 2 + ν * u) ≤ x * (x + q) := by
        have e : x * (x + q) = x ^ 2 + x * q := by ring
        rw [e]; linarith
      have h6 : (x ^ 2 + ν * u) * (u * u) ≤ (x * (x + q)) * (u * u) :=
        mul_le_mul_of_nonneg_right h5 (mul_nonneg hu0.le hu0.le)
      have e2 : (x * (x + q)) * (u * u) = x * ((x + q) * u * u) := by ring
      rw [e2] at h6; linarith
    have h7 : (x ^ 2 + ν) * (u * u * u) ≤ (x ^ 2 + ν * u) * (u * u) := by
      have h8 : x ^ 2 * (u * u) * u ≤ x ^ 2 * (u * u) * 1 :=
        mul_le_mul_of_nonneg_left hu1 (mul_nonneg hx2 (mul_nonneg hu0.le hu0.le))
      have e1 : (x ^ 2 + ν) * (u * u * u) = x ^ 2 * (u * u) * u + ν * u * (u * u) := by ring
      have e2 : (x ^ 2 + ν * u) * (u * u) = x ^ 2 * (u * u) * 1 + ν * u * (u * u) := by ring
      rw [e1, e2]; linarith
    have h9 : 1 - eps ≤ u * u * u := by
      have e : u * u * u = 1 - 3 * lam + lam ^ 2 * (3 - lam) := by rw [hu]; ring
      have : 0 ≤ lam ^ 2 * (3 - lam) := mul_nonneg (sq_nonneg _) (by linarith)
      have := three_lam_le_eps
      rw [e]; linarith
    have h10 : (x ^ 2 + ν) * (1 - eps) ≤ (x ^ 2 + ν) * (u * u * u) :=
      mul_le_mul_of_nonneg_left h9 (by linarith)
    linarith
  obtain ⟨g1, g2⟩ := heron_step ν x x' eps β β' hx hν hx'0 hε.le hε1 hβ (by linarith) ⟨hlo, hhi⟩
    ⟨hdn, hup⟩ hβ'
  -- flags
  have hflag : t3 = 0 ∨ t3 = 1 ∨ t3 = -1 := by
    rcases mf with rfl | rfl
    · rcases af with rfl | rfl | rfl
      · rcases qf with rfl | rfl
        · exact htf
        · exact Or.inr (Or.inl rfl)
      · exact Or.inr (Or.inl rfl)
      · exact Or.inr (Or.inr rfl)
    · exact Or.inr (Or.inl rfl)
  -- normalised or flag 0
  have hnorm : LIM ≤ res'.sig.toNat ∨ t3 = 0 := by
    by_cases hL' : LIM ≤ res'.sig.toNat
    · exact Or.inl hL'
    · right
      have hlt : res'.sig.toNat < LIM := by omega
      obtain ⟨-, e3, hsig5⟩ := mx (lt_of_lt_of_le hlt (by unfold LIM; norm_num))
      have h5 : (halfD.sig.toNat) = 5 := by simp [halfD, U192.toNat]
      rw [h5] at hsig5
      have hsm : sm.sig.toNat < LIM := by omega
      obtain ⟨-, e2, hr, htm⟩ := ax hsm
      have hres : res.sig.toNat < OLIM := by
        have : 5 * OLIM > LIM := by unfold OLIM LIM lim; norm_num
        omega
      have hresL : res.sig.toNat < LIM := by omega
      obtain ⟨-, e1⟩ := qx (by omega) hres
      have ht0 : t = 0 := by
        rcases hnz with h | h
        · omega
        · exact h
      rw [e3, e2, e1, ht0]
  have hexp' : -(L + 1) ≤ res'.exp.toInt := by
    rw [hhe] at me0
    have := min_le_left res.exp.toInt tmp.exp.toInt
    have := min_le_right res.exp.toInt tmp.exp.toInt
    rcases min_choice res.exp.toInt tmp.exp.toInt with h | h <;> omega
  exact ⟨sig_ne_of_val_pos res' hx'0, hexp', g1, g2, hflag, hnorm⟩

/-- chaining an indexed invariant through `iter` -/
theorem iter_chain {α : Type} (f : α → Go.GoM α) (I : ℕ → α → Prop) (n : ℕ)
    (hstep : ∀ i, i < n → ∀ a, I i a → ∃ b, f a = .ok b ∧ I (i + 1) b) :
    ∀ k, k ≤ n → ∀ a, I (n - k) a → ∃ b, iter f k a = .ok b ∧ I n b := by
  intro k
  induction k with
  | zero => intro _ a ha; exact ⟨a, rfl, by simpa using ha⟩
  | succ k ih =>
    intro hk a ha
    obtain ⟨b, hb, hIb⟩ := hstep (n - (k + 1)) (by omega) a ha
    have e : n - (k + 1) + 1 = n - k := by omega
    rw [e] at hIb
    obtain ⟨c, hc, hIc⟩ := ih (by omega) b hIb
    exact ⟨c, by rw [iter_succ, hb]; exact hc, hIc⟩

/-- the defect bounds along the eight Heron steps -/
def betaSeq : ℕ → ℚ
  | 0 => 87 / 100
  | 1 => 6 / 10
  | 2 => 19 / 100
  | 3 => 12 / 1000
  | 4 => 4 / 10 ^ 5
  | 5 => 5 / 10 ^ 10
  | 6 => 1 / 10 ^ 19
  | 7 => 1 / 10 ^ 38
  | _ => 2 * eps + 1 / 10 ^ 76

theorem eps_le40 : eps ≤ 1 / 10 ^ 40 := le_trans eps_le (by norm_num)

/-- **The eight Heron steps of `Sqrt` from the contracts**: from a seed satisfying the invariant with defect
0.87 the loop does not panic and ends in the invariant with defect `2·eps + 1e-76`. -/
theorem sqrtIter_inv (nrm : decomposed192) (s : decomposed192 × Int8)
    (hn0 : nrm.sig.toNat ≠ 0) (hne0 : -39 ≤ nrm.exp.toInt) (hne1 : nrm.exp.toInt ≤ 0)
    (hν10 : val nrm < 10) (h : SInv nrm (87 / 100) 157 s) :
    ∃ s', iter (sqrtStep nrm) 8 s = .ok s' ∧ SInv nrm (2 * eps + 1 / 10 ^ 76) 165 s' := by
  have hε := eps_pos
  have h40 := eps_le40
  have key := iter_chain (sqrtStep nrm) (fun i a => SInv nrm (betaSeq i) (157 + i) a) 8
    (fun i hi a ha => by
      have hb : 3 * eps ≤ betaSeq i ∧ betaSeq i ≤ 87 / 100 ∧
          betaSeq i ^ 2 ≤ (betaSeq (i + 1) - 2 * eps) * (2 - betaSeq i) ^ 2 := by
        interval_cases i
        · exact ⟨by norm_num [betaSeq]; linarith, by norm_num [betaSeq],
            beta_ok eps _ _ hε.le h40 (by norm_num [betaSeq])⟩
        · exact ⟨by norm_num [betaSeq]; linarith, by norm_num [betaSeq],
            beta_ok eps _ _ hε.le h40 (by norm_num [betaSeq])⟩
        · exact ⟨by norm_num [betaSeq]; linarith, by norm_num [betaSeq],
            beta_ok eps _ _ hε.le h40 (by norm_num [betaSeq])⟩
        · exact ⟨by norm_num [betaSeq]; linarith, by norm_num [betaSeq],
            beta_ok eps _ _ hε.le h40 (by norm_num [betaSeq])⟩
        · exact ⟨by norm_num [betaSeq]; linarith, by norm_num [betaSeq],
            beta_ok eps _ _ hε.le h40 (by norm_num [betaSeq])⟩
        · exact ⟨by norm_num [betaSeq]; linarith, by norm_num [betaSeq],
            beta_ok eps _ _ hε.le h40 (by norm_num [betaSeq])⟩
        · exact ⟨by norm_num [betaSeq]; linarith, by norm_num [betaSeq],
            beta_ok eps _ _ hε.le h40 (by norm_num [betaSeq])⟩
        · refine ⟨by norm_num [betaSeq]; linarith, by norm_num [betaSeq], ?_⟩
          show betaSeq 7 ^ 2 ≤ (2 * eps + 1 / 10 ^ 76 - 2 * eps) * (2 - betaSeq 7) ^ 2
          rw [show 2 * eps + 1 / 10 ^ 76 - 2 * eps = (1 : ℚ) / 10 ^ 76 by ring]
          norm_num [betaSeq]
      have := sqrtStep_inv nrm a (betaSeq i) (betaSeq (i + 1)) (157 + i) hn0 hne0 hne1 hν10
        hb.1 hb.2.1 (by omega) (by omega) hb.2.2 ha
      obtain ⟨b, h1, h2⟩ := this
      exact ⟨b, h1, by push_cast; rw [add_assoc] at h2; exact h2⟩)
    8 (le_refl _) s (by simpa [betaSeq] using h)
  obtain ⟨b, hb1, hb2⟩ := key
  exact ⟨b, hb1, by simpa [betaSeq] using hb2⟩
end Root
