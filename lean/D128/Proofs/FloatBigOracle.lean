/-
  D128/Proofs/FloatBigOracle.lean — the oracle's view of `Decimal.Float` (property C09): the executable
  specification `Spec.roundBinNE` (D128/Spec/Conv.lean; "round q > 0 to `prec` bits, nearest-even") that the
  differential harness compares `Decimal.Float` with (mode 0, prec ≥ 114) is the same function as the model's
  `Go.BigFloat.roundBits prec 0`.

  Provided (namespace `BF`):
  * `roundBinNE_eq`   `prec > 0`, `q > 0 ⇒ Spec.roundBinNE q prec = roundBits prec 0 neg q`
-/
import D128.Proofs.BigFloatSpec
import D128.Proofs.FloatToSpec
set_option autoImplicit false
namespace BF
open Go Go.BigFloat

/-- **the oracle's rounding function is the model's, in mode ToNearestEven**: `Spec.roundBinNE` (D128/Spec/Conv.lean,
    the function the differential harness compares `Decimal.Float` with for `prec ≥ 114`, mode 0) agrees with
    `Go.BigFloat.roundBits prec 0` on every positive rational -/
theorem roundBinNE_eq (prec : ℕ) (neg : Bool) (q : ℚ) (hp : 0 < prec) (hq : 0 < q) :
    Spec.roundBinNE q prec = roundBits prec 0 neg q := by
  obtain ⟨l1, l2⟩ := F2.ilog2_spec q hq
  have hexp : exponent q = Spec.ilog2 q + 1 := exponent_eq q _ (by rw [add_sub_cancel_right]; exact l1) l2
  have hb := bracket_exists prec q hp hq
  rw [roundBits_eq prec 0 neg q hp hq hb]
  have hu : Spec.ilog2 q - (prec : ℤ) + 1 = exponent q - (prec : ℤ) := by rw [hexp]; ring
  unfold Spec.roundBinNE
  simp only [hu, F2.pow2_eq, SpecRound.floorNat_eq]
  set u : ℤ := exponent q - (prec : ℤ) with hu'
  set m := ⌊q / (2 : ℚ) ^ u⌋₊ with hm
  have hup := two_zpow_pos u
  have e1 : q - (m : ℚ) * (2 : ℚ) ^ u = (q / (2 : ℚ) ^ u - (m : ℚ)) * (2 : ℚ) ^ u := by
    rw [sub_mul, div_mul_cancel₀ _ hup.ne']
  have e2 : ((m : ℚ) + 1) * (2 : ℚ) ^ u - q = (1 - (q / (2 : ℚ) ^ u - (m : ℚ))) * (2 : ℚ) ^ u := by
    have : q = q / (2 : ℚ) ^ u * (2 : ℚ) ^ u := (div_mul_cancel₀ _ hup.ne').symm
    conv_lhs => rw [this]
    ring
  set fr : ℚ := q / (2 : ℚ) ^ u - (m : ℚ) with hfr
  unfold pick
  by_cases h0 : q = (m : ℚ) * (2 : ℚ) ^ u
  · rw [if_pos h0]
    have : fr = 0 := by
      rw [hfr]; conv_lhs => rw [h0]
      rw [mul_div_assoc, div_self hup.ne', mul_one, sub_self]
    rw [this]
    norm_num
    exact h0.symm
  · rw [if_neg h0]
    have c1 : (q - (m : ℚ) * (2 : ℚ) ^ u < ((m : ℚ) + 1) * (2 : ℚ) ^ u - q) ↔ fr < 1 / 2 := by
      rw [e1, e2, mul_lt_mul_iff_left₀ hup]; constructor <;> intro h <;> linarith
    have c2 : (q - (m : ℚ) * (2 : ℚ) ^ u = ((m : ℚ) + 1) * (2 : ℚ) ^ u - q) ↔ fr = 1 / 2 := by
      rw [e1, e2, mul_left_inj' hup.ne']; constructor <;> intro h <;> linarith
    unfold half
    simp only [c1, c2]
    simp only [one_div]
    rcases lt_trichotomy fr (2 : ℚ)⁻¹ with h | h | h
    · have n1 : ¬ ((2 : ℚ)⁻¹ < fr) := not_lt.2 h.le
      have n2 : ¬ (fr = (2 : ℚ)⁻¹) := ne_of_lt h
      simp [roundUp, h, n1, n2]
    · have n1 : ¬ ((2 : ℚ)⁻¹ < fr) := by rw [h]; exact lt_irrefl _
      have n0 : ¬ (fr < (2 : ℚ)⁻¹) := by rw [h]; exact lt_irrefl _
      by_cases ho : m % 2 = 1 <;> simp [roundUp, ho, h]
    · have n0 : ¬ (fr < (2 : ℚ)⁻¹) := not_lt.2 h.le
      have n2 : ¬ (fr = (2 : ℚ)⁻¹) := ne_of_gt h
      simp [roundUp, h, n0, n2]

end BF
