/-
  D128.Proofs.TotalPow — totality (termination, no panic) of `Decimal.PowWithMode`, by stages of
  `D128/Proofs/PowCode.lean` (`PowPf.staged`, tied to the generated function by `PowPf.PowWithMode_eq`),
  for every pair of bit patterns and EVERY mode byte (C20).

  * `strip_triple`   : `⦃s.1 ≠ 0⦄ strip s ⦃r => r.1 ≠ 0⦄` — the trailing-zero stripping loops
                       `for { sig, rem := s.div10(); if rem != 0 { break }; … }` terminate because the
                       coefficient is non-zero (exponent/base are non-zero finite at those points)
  * `general_triple` : `⦃dSig ≠ 0⦄ general … ⦃True⦄` — the general path `log → mul → epow → rcp →
                       reduce192`: `log` gets the non-zero base, `epow` is guarded by the code's own
                       `res.sig == 0` tests, `rcp`/`reduce192` get `epow`'s non-zero result
  * `byK_triple`, `pow10Exact_triple`, `pow10Path_triple`, `finish_triple`, `afterD_triple`,
    `afterO_triple`, `infY_triple`, `ladder_triple`, `isOne_triple`
  * `PowWithMode_triple_of`, `PowWithMode_total_of` : totality of `PowWithMode d o mode` given that the
    single division `QuoWithMode 1 d mode` it performs (for `o = -1`) returns — which `Props.C02`
    provides for the six valid modes.
-/
import D128.Proofs.TotalElem
import D128.Proofs.PowBase
set_option autoImplicit false
set_option mvcgen.warning false
set_option exponentiation.threshold 512
set_option maxRecDepth 16384
namespace D128.Proofs.Total
open Std.Do
open D128.Proofs.WordsWide

/-- the trailing-zero stripping loop of `Pow` terminates on a non-zero coefficient (and keeps it
non-zero); on a zero coefficient the Go loop `for { sig, rem := s.div10(); if rem != 0 {break}; … }`
would spin forever -/
theorem strip_triple (s : U128 × Int16) :
    ⦃⌜s.1.toNat ≠ 0⌝⦄ PowPf.strip s ⦃⇓ r => ⌜r.1.toNat ≠ 0⌝⦄ := by
  mvcgen -trivial [PowPf.strip, PowPf.stripBody]
  case inv1 => exact fun st => ⟨st.1.toNat⟩
  case inv2 => exact ⇓ x => match x with
    | .inl st => ⌜st.1.toNat ≠ 0⌝
    | .inr st => ⌜st.1.toNat ≠ 0⌝
  all_goals (simp +zetaDelta at *)
  all_goals d192_prep
  all_goals d192_fin

theorem general_triple (mode : UInt8) (oNeg neg : Bool) (oSig : U128) (oExp : Int16) (dSig : U128)
    (dExp : Int16) :
    ⦃⌜dSig.toNat ≠ 0⌝⦄ PowPf.general mode oNeg neg oSig oExp dSig dExp ⦃⇓ _ => ⌜True⌝⦄ := by
  have hl := d192_log_triple divSpec
  have he := d192_epow_triple divSpec
  have hr := d192_rcp_triple divSpec
  mvcgen -trivial [PowPf.general, hl, he, hr]
  all_goals (simp +zetaDelta at *)
  all_goals d192_prep
  all_goals d192_fin


theorem byK_triple (neg : Bool) (dExp : Int16) :
    ⦃⌜True⌝⦄ PowPf.byK neg dExp ⦃⇓ _ => ⌜True⌝⦄ := by
  mvcgen -trivial [PowPf.byK]

theorem pow10Exact_triple (mode : UInt8) (dNeg neg : Bool) (oSig dSig : U128) (dExp : Int16) (p10 : Int64) :
    ⦃⌜True⌝⦄ PowPf.pow10Exact mode dNeg neg oSig dSig dExp p10 ⦃⇓ _ => ⌜True⌝⦄ := by
  mvcgen -trivial [PowPf.pow10Exact]
  all_goals (simp +zetaDelta at *)

theorem pow10Path_triple (mode : UInt8) (dNeg neg : Bool) (oSig : U128) (oExp : Int16) (dSig : U128)
    (dExp : Int16) :
    ⦃⌜True⌝⦄ PowPf.pow10Path mode dNeg neg oSig oExp dSig dExp ⦃⇓ _ => ⌜True⌝⦄ := by
  have h1 := byK_triple
  have h2 := pow10Exact_triple
  mvcgen -trivial [PowPf.pow10Path, h1, h2]

theorem finish_triple (mode : UInt8) (dNeg oNeg neg : Bool) (oSig : U128) (oExp : Int16) (dSig : U128)
    (dExp : Int16) :
    ⦃⌜dSig.toNat ≠ 0⌝⦄ PowPf.finish mode dNeg oNeg neg oSig oExp dSig dExp ⦃⇓ _ => ⌜True⌝⦄ := by
  have h1 := pow10Path_triple
  have h2 := general_triple
  mvcgen -trivial [PowPf.finish, h1, h2]
  all_goals (simp +zetaDelta at *)
  all_goals (first | assumption | (d192_prep; d192_fin))

theorem afterD_triple (mode : UInt8) (dNeg oNeg : Bool) (oSig : U128) (oExp : Int16) (dSig : U128)
    (dExp : Int16) :
    ⦃⌜dSig.toNat ≠ 0⌝⦄ PowPf.afterD mode dNeg oNeg oSig oExp dSig dExp ⦃⇓ _ => ⌜True⌝⦄ := by
  have h1 := finish_triple
  mvcgen -trivial [PowPf.afterD, h1]
  all_goals (simp +zetaDelta at *)
  all_goals (first | assumption | (d192_prep; d192_fin))

theorem afterO_triple (mode : UInt8) (d : Gen.Decimal) (dNeg oNeg : Bool) (oSig : U128) (oExp : Int16) :
    ⦃⌜True⌝⦄ PowPf.afterO mode d dNeg oNeg oSig oExp ⦃⇓ _ => ⌜True⌝⦄ := by
  have h1 := afterD_triple
  have h2 := strip_triple
  have hnz := sig_ne_zero d
  mvcgen -trivial [PowPf.afterO, h1, h2]
  all_goals (simp +zetaDelta at *)
  all_goals (try have hnz' := hnz (by first | assumption | (casesm* _ ∧ _ <;> assumption)))
  all_goals (first | assumption | (d192_prep; d192_fin))

theorem infY_triple (d : Gen.Decimal) (oNeg : Bool) :
    ⦃⌜True⌝⦄ PowPf.infY d oNeg ⦃⇓ _ => ⌜True⌝⦄ := by
  mvcgen -trivial [PowPf.infY]

theorem ladder_triple (mode : UInt8) (d o : Gen.Decimal) :
    ⦃⌜o.IsZero = false⌝⦄ PowPf.ladder mode d o ⦃⇓ _ => ⌜True⌝⦄ := by
  have h1 := afterO_triple
  have h2 := strip_triple
  have h3 := infY_triple
  have hnz := sig_ne_zero o
  mvcgen -trivial [PowPf.ladder, h1, h2, h3]
  all_goals (simp +zetaDelta at *)
  all_goals (try have hnz' := hnz (by first | assumption | (casesm* _ ∧ _ <;> assumption)))
  all_goals (first | assumption | (d192_prep; d192_fin))


theorem isOne_triple (d : Gen.Decimal) : ⦃⌜True⌝⦄ Gen.Decimal.isOne d ⦃⇓ _ => ⌜True⌝⦄ :=
  triple_of_eq (PowPf.isOne_eq d) trivial

/-- `PowWithMode` terminates without panic provided the one call `1/d` it makes (for `o = -1`) does -/
theorem PowWithMode_triple_of (d o : Gen.Decimal) (mode : UInt8)
    (hq : ∃ r, Gen.Decimal.QuoWithMode (Gen.one false) d mode = .ok r) :
    ⦃⌜True⌝⦄ Gen.Decimal.PowWithMode d o mode ⦃⇓ _ => ⌜True⌝⦄ := by
  rw [PowPf.PowWithMode_eq]
  have h1 := isOne_triple
  have h2 := ladder_triple
  have h3 : ⦃⌜True⌝⦄ Gen.Decimal.QuoWithMode (Gen.one false) d mode ⦃⇓ _ => ⌜True⌝⦄ := by
    obtain ⟨r, hr⟩ := hq
    exact triple_of_eq hr trivial
  mvcgen -trivial [PowPf.staged, PowPf.stage2, h1, h2, h3]
  all_goals (simp +zetaDelta at *)
  all_goals (first | assumption | (casesm* _ ∧ _ <;> assumption))

theorem PowWithMode_total_of (d o : Gen.Decimal) (mode : UInt8)
    (hq : ∃ r, Gen.Decimal.QuoWithMode (Gen.one false) d mode = .ok r) :
    ∃ r, Gen.Decimal.PowWithMode d o mode = .ok r :=
  total_of_triple (PowWithMode_triple_of d o mode hq)

end D128.Proofs.Total
