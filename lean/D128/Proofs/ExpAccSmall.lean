/-
  D128/Proofs/ExpAccSmall.lean — `Gen.RoundingMode.reduce192` without the hypothesis "a sticky flag comes
  with a digit to drop" of `reduce192_correct`, for the two nearest modes.

  `reduce192_correct` (RoundKernelWide.lean) needs `trunc ≠ 0 → Cmax < sig`.  The exponential code can reach the
  final rounding with a short significand and a stale flag (e.g. `Exp(1e-100)`: working value `1`, flag `1`; an
  exact reciprocal `1/5 = 2·10^-1` keeps the flag of its operand).  Two cases:
  * biased exponent `≥ 0`: no digit is dropped and the nearest modes ignore the flag
    (`LogAcc.reduce192_small_flag`, by pa17b);
  * biased exponent `≤ 0` (`reduce192_small_sub`, here): the sub-minimum-exponent loop drops at least one digit
    (or none at `0`, where nothing can be scaled either), after which the flag stands for ANY `τ ∈ (0,1)` resp.
    `(-1,0)` below the dropped digit: the result is the rounding of `(sig + τ/10)·10^E` for every such `τ`, in
    every valid mode.

  Provided (namespace `ExpAcc`):
  * `reduce192_small_sub`
  * `reduce192_nearest` : nearest mode byte, `1 ≤ sig`, any flag in {0,1,-1} (for `-1`: biased exponent `≥ 0`),
        `-20000 ≤ exp ≤ 20000`:
        `∃ τ, |τ| ≤ 10^-40 ∧ reduce192 … = .ok (sig', exp') ∧ RoundPost (flushOrRoundS m neg (sig + τ) (exp-6176)) …`
    i.e. the final rounding is the correct nearest rounding of a value within relative `10^-40` of `sig·10^(exp-6176)`.
-/
import D128.Proofs.RoundKernelWide
import D128.Proofs.LogAccSmall
set_option autoImplicit false
set_option maxRecDepth 4096
set_option linter.unusedVariables false

namespace ExpAcc
open Gen RK Spec SpecRound LogAcc

/-- a short significand at a biased exponent `≤ 0`: the flag stands for any amount below the first dropped
digit -/
theorem reduce192_small_sub (rm : UInt8) (m : Spec.Mode) (neg : Bool) (sig : U192) (exp : Int16)
    (trunc : Int8) (τ : ℚ) (hm : Spec.Mode.ofNat? rm.toNat = some m)
    (hs1 : 1 ≤ sig.toNat) (hs : sig.toNat ≤ Spec.Cmax)
    (he0 : -20000 ≤ exp.toInt) (he : exp.toInt ≤ 0)
    (ht : TruncRel trunc.toInt τ) (hτ : trunc = -1 → -1 / 10 < τ)
    (hfl : trunc = -1 → 1 / 10 ≤ ((sig.toNat : ℚ) + τ / 10) * Spec.pow10 exp.toInt) :
    ∃ sig' exp', Gen.RoundingMode.reduce192 rm neg sig exp trunc = .ok (sig', exp') ∧
      RoundPost (flushOrRoundS m neg ((sig.toNat : ℚ) + τ / 10) (exp.toInt - 6176)) neg sig' exp' := by
  have hCm := Cmax_val
  have hw2 := small_w2 sig hs
  have hw1 := small_w1 sig hs
  have hlo := small_lo sig hs
  have hc1 : ¬ decide (sig.w2 > 10000) = true := by rw [hw2]; decide
  have hc2 : ¬ decide (sig.w2 > 0) = true := by rw [hw2]; decide
  have hwide : forIn (m := Go.GoM) Lean.Loop.mk (sig, exp, trunc) wide192Body = .ok (sig, exp, trunc) := by
    apply loop_done
    simp only [wide192Body, hc2]
    rfl
  have hl (c : UInt64) (hc : 703687441776639 ≤ c.toNat) :
      ¬ decide ((⟨sig.w0, sig.w1⟩ : U128).w1 > c) = true := by
    rw [decide_eq_true_eq, gt_iff_lt, UInt64.lt_iff_toNat_lt]
    show ¬ c.toNat < sig.w1.toNat
    omega
  have hl4 := hl 703687441776640000 (by decide)
  have hl3 := hl 70368744177664000 (by decide)
  have hl2 := hl 7036874417766400 (by decide)
  have hl1 := hl 703687441776639 (by decide)
  have hdrop : dropLoop ((⟨sig.w0, sig.w1⟩ : U128), exp, trunc, (0 : UInt64))
      = .ok ((⟨sig.w0, sig.w1⟩ : U128), exp, trunc, (0 : UInt64)) := by
    unfold dropLoop
    apply loop_done
    simp only [dropBody, hl1]
    rfl
  rw [reduce192_eq]
  unfold step192
  simp only [hc1, if_false, Bool.false_eq_true]
  rw [hwide, ok_bind]
  unfold ladder128
  simp only [hl4, hl3, hl2, if_false, Bool.false_eq_true]
  rw [reduceTailP_eq]
  unfold reduceTail
  rw [hdrop, ok_bind]
  -- the sub-minimum-exponent loop from a `PCd` state
  set N := sig.toNat with hN
  set T := trunc.toInt with hT
  set E := exp.toInt with hE
  set V : ℚ := ((N : ℚ) + τ / 10) * Spec.pow10 E with hV
  have hNpos : (0 : ℚ) < (N : ℚ) := by exact_mod_cast hs1
  have hτb := tau_bounds T τ ht
  have hVpos : 0 < V := by
    apply mul_pos _ (RK.pow10_pos E)
    have : (1 : ℚ) ≤ (N : ℚ) := by exact_mod_cast hs1
    linarith [hτb.1]
  have hTm : T = -1 → trunc = -1 := fun h => Int8.toInt_inj.1 (h.trans (by rfl))
  have hPC : PCd V T (⟨sig.w0, sig.w1⟩ : U128).toNat (0 : UInt64).toNat trunc.toInt exp.toInt := by
    rw [hlo]
    refine ⟨⟨τ, ht, by decide, ?_, fun h => Or.inl (hτ (hTm h))⟩, hs, Or.inl rfl, by omega, ?_, Or.inr (Or.inr he)⟩
    · show ((N : ℚ) + (((0 : UInt64).toNat : ℚ) + τ) / 10) * Spec.pow10 E = V
      rw [hV]; simp
    · show 1 ≤ 10 * N + (0 : UInt64).toNat
      have : (0 : UInt64).toNat = 0 := rfl
      omega
  obtain ⟨st3, hC, hpost3⟩ := subLoop_inv (PCd V T) (pcd_step V T)
    ((⟨sig.w0, sig.w1⟩ : U128), exp, trunc, (0 : UInt64)) hPC
  rw [hC, ok_bind]
  have hq : (0 : ℚ) < (N : ℚ) + τ / 10 := by
    have : (1 : ℚ) ≤ (N : ℚ) := by exact_mod_cast hs1
    linarith [hτb.1]
  exact phaseD_correct rm m neg st3.1 st3.2.1 st3.2.2.1 st3.2.2.2 ((N : ℚ) + τ / 10) (E - 6176) V T hm
    hVpos hq (by rw [hV, sub_eq_add_neg, RK.pow10_add]; ring) (fun h => hfl (hTm h)) hpost3

/-- a mode byte of a nearest mode -/
theorem nearest_byte (rm : UInt8) (m : Spec.Mode) (hm : Spec.Mode.ofNat? rm.toNat = some m)
    (hn : isNearest m = true) : rm = 0 ∨ rm = 1 := by
  have hlt := ofNat?_lt rm.toNat m hm
  have h6 : rm.toNat = 0 ∨ rm.toNat = 1 ∨ rm.toNat = 2 ∨ rm.toNat = 3 ∨ rm.toNat = 4 ∨ rm.toNat = 5 := by omega
  rcases h6 with h | h | h | h | h | h <;> rw [h] at hm <;> simp [Spec.Mode.ofNat?] at hm <;> subst hm
  · left; exact UInt8.toNat_inj.1 h
  · right; exact UInt8.toNat_inj.1 h
  all_goals simp [isNearest] at hn

theorem tiny_pos : (0 : ℚ) < 1 / 10 ^ 40 := by norm_num

/-- **The final rounding in a nearest mode, any flag, any length of the significand.**  The result is the
member the mode selects for `(sig + τ)·10^(exp-6176)` for some `|τ| ≤ 10^-40` of the sign the flag has: the
correct rounding of a value within relative `10^-40` of the working value. -/
theorem reduce192_nearest (rm : UInt8) (m : Spec.Mode) (neg : Bool) (sig : U192) (exp : Int16)
    (trunc : Int8) (hm : Spec.Mode.ofNat? rm.toNat = some m) (hn : isNearest m = true)
    (hs1 : 1 ≤ sig.toNat) (he0 : -20000 ≤ exp.toInt) (he1 : exp.toInt ≤ 20000)
    (ht : trunc = 0 ∨ trunc = 1 ∨ trunc = -1)
    (hfl : trunc = -1 → 0 ≤ exp.toInt) :
    ∃ (τ : ℚ) (sig' : U128) (exp' : Int16), |τ| ≤ 1 / 10 ^ 40 ∧
      Gen.RoundingMode.reduce192 rm neg sig exp trunc = .ok (sig', exp') ∧
      RoundPost (flushOrRoundS m neg ((sig.toNat : ℚ) + τ) (exp.toInt - 6176)) neg sig' exp' := by
  have hrm := nearest_byte rm m hm hn
  have hsq : (1 : ℚ) ≤ (sig.toNat : ℚ) := by exact_mod_cast hs1
  -- the amount the flag stands for: tiny
  obtain ⟨τ, hrel, hτabs, hτm⟩ : ∃ τ : ℚ, TruncRel trunc.toInt τ ∧ |τ| ≤ 1 / 10 ^ 40 ∧ (trunc = -1 → -1 / 10 < τ) := by
    rcases ht with h | h | h
    · exact ⟨0, Or.inl ⟨by rw [h]; decide, rfl⟩, by norm_num, fun _ => by norm_num⟩
    · exact ⟨1 / 10 ^ 40, Or.inr (Or.inl ⟨by rw [h]; decide, by norm_num, by norm_num⟩),
        by rw [abs_of_pos tiny_pos], fun _ => by norm_num⟩
    · refine ⟨-(1 / 10 ^ 40), Or.inr (Or.inr ⟨by rw [h]; decide, by norm_num, by norm_num⟩), ?_,
        fun _ => by norm_num⟩
      rw [abs_neg, abs_of_pos tiny_pos]
  have hτb := tau_bounds _ τ hrel
  have hτhalf : -1 / 2 ≤ τ := by
    have := (abs_le.1 hτabs).1
    have : (1 : ℚ) / 10 ^ 40 < 1 / 2 := by norm_num
    linarith
  -- the flush hypothesis for any τ ≥ -1/2 (the biased exponent is non-negative)
  have hflτ : ∀ τ' : ℚ, -1 / 2 ≤ τ' → trunc = -1 →
      Spec.pow10 (Spec.Emin - 1) ≤ ((sig.toNat : ℚ) + τ') * Spec.pow10 (exp.toInt - 6176) := by
    intro τ' hτ' h
    have he := hfl h
    have e1 : Spec.pow10 (Spec.Emin - 1) = 1 / 10 * Spec.pow10 (-6176) := by
      have : Spec.Emin - 1 = -1 + -6176 := by unfold Spec.Emin; ring
      rw [this, RK.pow10_add, RK.pow10_neg_one]
    have e2 : Spec.pow10 (-6176) ≤ Spec.pow10 (exp.toInt - 6176) := by
      rw [pow10_eq_zpow, pow10_eq_zpow]
      exact zpow_le_zpow_right₀ (by norm_num) (by omega)
    have hp := RK.pow10_pos (-6176)
    have hp2 := RK.pow10_pos (exp.toInt - 6176)
    rw [e1]
    have h12 : (1 : ℚ) / 2 ≤ (sig.toNat : ℚ) + τ' := by linarith
    nlinarith
  by_cases hbig : Spec.Cmax < sig.toNat
  · -- a digit will be dropped: `reduce192_correct`
    obtain ⟨sig', exp', hred, hpost⟩ := reduce192_correct rm m neg sig exp trunc τ hm he0 he1 hrel
      (by linarith [hτb.1]) (fun _ => hbig) (fun h => ⟨hbig, Or.inr (hτm h)⟩) (hflτ τ hτhalf)
    exact ⟨τ, sig', exp', hτabs, hred, hpost⟩
  · have hs : sig.toNat ≤ Spec.Cmax := not_lt.1 hbig
    by_cases hpos : 0 ≤ exp.toInt
    · -- the flag is ignored
      obtain ⟨sig', exp', hred, hpost⟩ := reduce192_correct rm m neg sig exp 0 0 hm he0 he1
        (Or.inl ⟨by decide, rfl⟩) (by linarith) (fun h => absurd h (by decide))
        (fun h => absurd h (by decide)) (fun h => absurd h (by decide))
      refine ⟨0, sig', exp', by norm_num, ?_, hpost⟩
      rw [reduce192_small_flag rm neg sig exp trunc hrm hs hpos]; exact hred
    · -- at least one digit is dropped by the sub-minimum-exponent loop
      have hneg : exp.toInt ≤ 0 := by omega
      have hrel10 : TruncRel trunc.toInt (10 * τ) := by
        rcases hrel with ⟨h1, h2⟩ | ⟨h1, h2, h3⟩ | ⟨h1, h2, h3⟩
        · exact Or.inl ⟨h1, by rw [h2]; ring⟩
        · refine Or.inr (Or.inl ⟨h1, by linarith, ?_⟩)
          have := (abs_le.1 hτabs).2
          have : (1 : ℚ) / 10 ^ 40 < 1 / 10 := by norm_num
          linarith
        · refine Or.inr (Or.inr ⟨h1, ?_, by linarith⟩)
          have := (abs_le.1 hτabs).1
          have : (1 : ℚ) / 10 ^ 40 < 1 / 10 := by norm_num
          linarith
      have h10 : (10 * τ) / 10 = τ := by ring
      obtain ⟨sig', exp', hred, hpost⟩ := reduce192_small_sub rm m neg sig exp trunc (10 * τ) hm hs1 hs he0 hneg
        hrel10
        (by intro _
            have := (abs_le.1 hτabs).1
            have : (1 : ℚ) / 10 ^ 40 < 1 / 100 := by norm_num
            linarith)
        (by intro h
            rw [h10]
            have h1 := hflτ τ hτhalf h
            have e1 : Spec.pow10 (Spec.Emin - 1) = 1 / 10 * Spec.pow10 (-6176) := by
              have : Spec.Emin - 1 = -1 + -6176 := by unfold Spec.Emin; ring
              rw [this, RK.pow10_add, RK.pow10_neg_one]
            have e2 : ((sig.toNat : ℚ) + τ) * Spec.pow10 (exp.toInt - 6176)
                = ((sig.toNat : ℚ) + τ) * Spec.pow10 exp.toInt * Spec.pow10 (-6176) := by
              rw [sub_eq_add_neg, RK.pow10_add]; ring
            rw [e1, e2] at h1
            exact le_of_mul_le_mul_right h1 (RK.pow10_pos _))
      rw [h10] at hpost
      exact ⟨τ, sig', exp', hτabs, hred, hpost⟩

/-- the hypotheses are satisfiable: a short significand with a stale flag (`Exp(1e-100)`: `1`, flag `1`) -/
example := reduce192_nearest 0 .nearestEven false ⟨1, 0, 0⟩ 6176 1 rfl rfl (by decide) (by decide) (by decide)
  (Or.inr (Or.inl rfl)) (fun h => absurd h (by decide))

end ExpAcc
