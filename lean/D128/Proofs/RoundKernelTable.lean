/-
  D128/Proofs/RoundKernelTable.lean — the six-mode decision table of the rounding kernel against
  `Spec.roundsUp` (pure mathematics, no generated code).

  The kernel state `(s, d, t)` with sticky value `τ` denotes `x = s + (d + τ)/10`.

  Provided (namespace `RK`):
  * `TruncRel t τ`   : the relation between the three-valued sticky flag and its value
  * `adjZ`           : the decision table of `round` (`/repo/rounding.go`) on mathematical data
  * `adjZ_range`, `adjZ_up_again`, `adjZ_up_trunc`
  * `splitQ_of`      : `splitQ (n + φ) = (n, fracOrd φ, φ == 0)` for `0 ≤ φ < 1`
  * `rndQ_kernel`    : `(rndQ m neg (s + (d+τ)/10) : ℤ) = s + adjZ m neg (s odd) t d`
  * `rndQ_exact`     : `rndQ m neg n = n` for natural `n`
  * `rndQ_110`       : rounding just below `10·2^110`
-/
import D128.Proofs.RoundKernelSpec

set_option autoImplicit false

namespace RK
open Spec

/-- sticky flag `t ∈ {-1,0,1}` and the signed amount `τ` it stands for -/
def TruncRel (t : Int) (τ : ℚ) : Prop :=
  (t = 0 ∧ τ = 0) ∨ (t = 1 ∧ 0 < τ ∧ τ < 1) ∨ (t = -1 ∧ -1 < τ ∧ τ < 0)

/-- the decision table of `RoundingMode.round`: adjustment of the significand given the mode,
    the sign, the parity of the significand, the sticky flag and the guard digit -/
def adjZ (m : Mode) (neg odd : Bool) (t : Int) (d : Nat) : Int :=
  match m with
  | .nearestEven =>
      if t = 1 then (if 5 ≤ d then 1 else 0)
      else if t = -1 then (if 5 < d then 1 else 0)
      else (if 5 < d then 1 else if d = 5 then (if odd then 1 else 0) else 0)
  | .nearestAway => if t = -1 then (if 5 < d then 1 else 0) else (if 5 ≤ d then 1 else 0)
  | .toZero => if t = -1 ∧ d = 0 then -1 else 0
  | .awayFromZero => if t = 1 ∨ d ≠ 0 then 1 else 0
  | .toPosInf =>
      if neg then (if t = -1 ∧ d = 0 then -1 else 0) else (if t = 1 ∨ d ≠ 0 then 1 else 0)
  | .toNegInf =>
      if neg then (if t = 1 ∨ d ≠ 0 then 1 else 0) else (if t = -1 ∧ d = 0 then -1 else 0)

theorem adjZ_range (m : Mode) (neg odd : Bool) (t : Int) (d : Nat) :
    adjZ m neg odd t d = 0 ∨ adjZ m neg odd t d = 1 ∨ adjZ m neg odd t d = -1 := by
  unfold adjZ
  cases m <;> simp only [] <;> split_ifs <;> simp

theorem adjZ_neg_one (m : Mode) (neg odd : Bool) (t : Int) (d : Nat)
    (h : adjZ m neg odd t d = -1) : t = -1 ∧ d = 0 := by
  unfold adjZ at h
  cases m <;> simp only [] at h <;> split_ifs at h <;> simp_all

/-- after a carry the second pass (guard digit 9, positive sticky) rounds up again -/
theorem adjZ_up_again (m : Mode) (neg odd odd' : Bool) (t : Int) (d : Nat)
    (h : adjZ m neg odd t d = 1) : adjZ m neg odd' 1 9 = 1 := by
  unfold adjZ at h ⊢
  cases m <;> simp only [] at h ⊢ <;> split_ifs at h ⊢ <;> simp_all

/-- rounding up with guard digit 0 only happens with a positive sticky -/
theorem adjZ_up_trunc (m : Mode) (neg odd : Bool) (t : Int)
    (h : adjZ m neg odd t 0 = 1) : t = 1 := by
  unfold adjZ at h
  cases m <;> simp only [] at h <;> split_ifs at h <;> simp_all

/-! ## position of the discarded part -/

/-- comparison of `(d + τ)/10` with one half -/
def ordOf (t : Int) (d : Nat) : Ordering :=
  if t = 0 then (if d < 5 then .lt else if d = 5 then .eq else .gt)
  else if t = 1 then (if d < 5 then .lt else .gt)
  else (if d ≤ 5 then .lt else .gt)

/-- is `(d + τ)/10` zero -/
def exactOf (t : Int) (d : Nat) : Bool := t == 0 && d == 0

theorem fracOrd_kernel (t : Int) (τ : ℚ) (d : Nat) (ht : TruncRel t τ) (hA : ¬ (d = 0 ∧ τ < 0)) :
    fracOrd (((d : ℚ) + τ) / 10) = ordOf t d ∧ ((((d : ℚ) + τ) / 10) == 0) = exactOf t d := by
  have hlt : (((d : ℚ) + τ) / 10 < 1 / 2) ↔ (d : ℚ) + τ < 5 := by
    constructor <;> intro h <;> linarith
  have heq : (((d : ℚ) + τ) / 10 = 1 / 2) ↔ (d : ℚ) + τ = 5 := by
    constructor <;> intro h <;> linarith
  have hz : (((d : ℚ) + τ) / 10 = 0) ↔ (d : ℚ) + τ = 0 := by
    constructor <;> intro h <;> linarith
  unfold fracOrd ordOf exactOf
  simp only [hlt, beq_iff_eq, heq]
  rw [Bool.eq_iff_iff, beq_iff_eq, hz]
  rcases ht with ⟨rfl, rfl⟩ | ⟨rfl, h1, h2⟩ | ⟨rfl, h1, h2⟩
  · simp only [add_zero, if_true, beq_self_eq_true, Bool.true_and, beq_iff_eq]
    constructor
    · by_cases c1 : d < 5
      · have : (d : ℚ) < 5 := by exact_mod_cast c1
        simp [c1, this]
      · have c1' : ¬ ((d : ℚ) < 5) := by
          intro h; apply c1; exact_mod_cast h
        by_cases c2 : d = 5
        · subst c2; simp
        · have : ¬ ((d : ℚ) = 5) := by intro h; apply c2; exact_mod_cast h
          simp [c1, c1', c2, this]
    · exact_mod_cast Iff.rfl
  · have e10 : ¬ ((1 : Int) = 0) := by decide
    simp only [e10, if_false, if_true]
    constructor
    · by_cases c1 : d < 5
      · have : (d : ℚ) ≤ 4 := by exact_mod_cast (by omega : d ≤ 4)
        have : (d : ℚ) + τ < 5 := by linarith
        simp [c1, this]
      · have c5 : (5 : ℚ) ≤ (d : ℚ) := by exact_mod_cast (by omega : 5 ≤ d)
        have n1 : ¬ ((d : ℚ) + τ < 5) := by intro h; linarith
        have n2 : ¬ ((d : ℚ) + τ = 5) := by intro h; linarith
        simp [c1, n1, n2]
    · have : ¬ ((d : ℚ) + τ = 0) := by
        intro h; have : (0 : ℚ) ≤ (d : ℚ) := by positivity
        linarith
      simp [this]
  · have e10 : ¬ ((-1 : Int) = 0) := by decide
    have e11 : ¬ ((-1 : Int) = 1) := by decide
    simp only [e10, e11, if_false]
    have hd1 : 1 ≤ d := by
      by_contra hc
      exact hA ⟨by omega, h2⟩
    constructor
    · by_cases c1 : d ≤ 5
      · have : (d : ℚ) ≤ 5 := by exact_mod_cast c1
        have : (d : ℚ) + τ < 5 := by linarith
        simp [c1, this]
      · have c6 : (6 : ℚ) ≤ (d : ℚ) := by exact_mod_cast (by omega : 6 ≤ d)
        have n1 : ¬ ((d : ℚ) + τ < 5) := by intro h; linarith
        have n2 : ¬ ((d : ℚ) + τ = 5) := by intro h; linarith
        simp [c1, n1, n2]
    · have : ¬ ((d : ℚ) + τ = 0) := by
        intro h; have : (1 : ℚ) ≤ (d : ℚ) := by exact_mod_cast hd1
        linarith
      simp [this]

theorem table_A (m : Mode) (neg odd : Bool) (t : Int) (d : Nat)
    (ht : t = 0 ∨ t = 1 ∨ t = -1) (hd : d ≤ 9) (hA : ¬ (t = -1 ∧ d = 0)) :
    adjZ m neg odd t d = if roundsUp m neg odd (ordOf t d) (exactOf t d) then 1 else 0 := by
  rcases ht with rfl | rfl | rfl <;> interval_cases d <;> cases m <;> cases neg <;> cases odd <;>
    first | rfl | (exfalso; exact hA ⟨rfl, rfl⟩)

/-! ## rounding a kernel state -/

theorem splitQ_of (n : Nat) (φ : ℚ) (h0 : 0 ≤ φ) (h1 : φ < 1) :
    splitQ ((n : ℚ) + φ) = (n, fracOrd φ, φ == 0) := by
  have hf : floorNat ((n : ℚ) + φ) = n := floorNat_eq _ _ (by linarith) (by linarith)
  unfold splitQ
  rw [hf, add_sub_cancel_left]

/-- the decision table is right: rounding `s + (d+τ)/10` to an integer in mode `m` moves the
    significand by `adjZ` -/
theorem rndQ_kernel (m : Mode) (neg : Bool) (s d : Nat) (t : Int) (τ : ℚ) (hd : d ≤ 9)
    (ht : TruncRel t τ) (hq : 0 < (s : ℚ) + ((d : ℚ) + τ) / 10) :
    (rndQ m neg ((s : ℚ) + ((d : ℚ) + τ) / 10) : Int)
      = (s : Int) + adjZ m neg (s % 2 == 1) t d := by
  have ht3 : t = 0 ∨ t = 1 ∨ t = -1 := by
    rcases ht with ⟨h, _⟩ | ⟨h, _⟩ | ⟨h, _⟩ <;> simp [h]
  have hτ : -1 < τ ∧ τ < 1 := by
    rcases ht with ⟨_, h⟩ | ⟨_, h1, h2⟩ | ⟨_, h1, h2⟩
    · subst h; constructor <;> norm_num
    · constructor <;> linarith
    · constructor <;> linarith
  have hd9 : (d : ℚ) ≤ 9 := by exact_mod_cast hd
  have hd0 : (0 : ℚ) ≤ (d : ℚ) := by positivity
  by_cases hA : d = 0 ∧ τ < 0
  · -- the value lies just below `s`
    obtain ⟨hd0', hτ0⟩ := hA
    subst hd0'
    have htm : t = -1 := by
      rcases ht with ⟨_, h⟩ | ⟨_, h1, _⟩ | ⟨h, _⟩
      · subst h; exact absurd hτ0 (lt_irrefl _)
      · linarith
      · exact h
    subst htm
    have hs1 : 1 ≤ s := by
      by_contra hc
      have : s = 0 := by omega
      subst this
      simp only [Nat.cast_zero, zero_add] at hq
      linarith
    obtain ⟨s', rfl⟩ : ∃ s', s = s' + 1 := ⟨s - 1, by omega⟩
    have hx : ((s' + 1 : Nat) : ℚ) + (((0 : Nat) : ℚ) + τ) / 10 = (s' : ℚ) + (1 + τ / 10) := by
      push_cast; ring
    have hφ0 : 0 ≤ 1 + τ / 10 := by linarith [hτ.1]
    have hφ1 : 1 + τ / 10 < 1 := by linarith
    have hord : fracOrd (1 + τ / 10) = .gt := by
      unfold fracOrd
      have n1 : ¬ (1 + τ / 10 < 1 / 2) := by intro h; linarith [hτ.1]
      have n2 : ¬ ((1 + τ / 10 == 1 / 2) = true) := by
        rw [beq_iff_eq]; intro h; linarith [hτ.1]
      rw [if_neg n1, if_neg n2]
    have hex : (1 + τ / 10 == 0) = false := by
      rw [beq_eq_false_iff_ne]; intro h; linarith [hτ.1]
    unfold rndQ
    rw [hx, splitQ_of s' _ hφ0 hφ1, hord, hex]
    simp only []
    have hpar : ((s' + 1) % 2 == 1) = !(s' % 2 == 1) := by
      rcases Nat.mod_two_eq_zero_or_one s' with h | h
      · have : (s' + 1) % 2 = 1 := by omega
        simp [h, this]
      · have : (s' + 1) % 2 = 0 := by omega
        simp [h, this]
    rw [hpar]
    cases m <;> cases neg <;> cases hp : (s' % 2 == 1) <;>
      simp [roundsUp, adjZ]
  · -- the value lies in `[s, s+1)`
    have hφ0 : 0 ≤ ((d : ℚ) + τ) / 10 := by
      by_cases hd' : d = 0
      · have : ¬ τ < 0 := fun h => hA ⟨hd', h⟩
        subst hd'
        have : 0 ≤ τ := not_lt.1 this
        simp only [Nat.cast_zero, zero_add]; positivity
      · have : (1 : ℚ) ≤ (d : ℚ) := by exact_mod_cast (by omega : 1 ≤ d)
        have : 0 ≤ (d : ℚ) + τ := by linarith [hτ.1]
        positivity
    have hφ1 : ((d : ℚ) + τ) / 10 < 1 := by
      rw [div_lt_one (by norm_num)]; linarith [hτ.2]
    obtain ⟨ho, he⟩ := fracOrd_kernel t τ d ht hA
    have hA' : ¬ (t = -1 ∧ d = 0) := by
      rintro ⟨h1, h2⟩
      apply hA
      refine ⟨h2, ?_⟩
      rcases ht with ⟨h, _⟩ | ⟨h, _⟩ | ⟨_, _, h⟩
      · omega
      · omega
      · exact h
    unfold rndQ
    rw [splitQ_of s _ hφ0 hφ1, ho, he]
    simp only []
    rw [table_A m neg (s % 2 == 1) t d ht3 hd hA']
    split <;> simp

/-- an integer is left alone -/
theorem rndQ_exact (m : Mode) (neg : Bool) (n : Nat) : rndQ m neg (n : ℚ) = n := by
  have h := splitQ_of n 0 (le_refl _) (by norm_num)
  rw [add_zero] at h
  unfold rndQ
  rw [h]
  have : fracOrd 0 = .lt := by unfold fracOrd; norm_num
  rw [this]
  cases m <;> simp [roundsUp]

/-- rounding a value just below `10·2^110 = Cmax + 1` (the state `sig = 2^110`, guard digit 0,
    negative sticky, seen one exponent lower).  In the two nearest modes the sticky must stand for
    at most half a unit. -/
theorem rndQ_110 (m : Mode) (neg odd : Bool) (τ : ℚ) (h1 : -1 < τ) (h2 : τ < 0)
    (hn : (m = .nearestEven ∨ m = .nearestAway) → -1 / 2 ≤ τ) :
    rndQ m neg ((Spec.Cmax : ℚ) + (1 + τ))
      = if adjZ m neg odd (-1) 0 = 0 then Spec.Cmax + 1 else Spec.Cmax := by
  have hφ0 : 0 ≤ 1 + τ := by linarith
  have hφ1 : 1 + τ < 1 := by linarith
  have hex : (1 + τ == 0) = false := by
    rw [beq_eq_false_iff_ne]; intro h; linarith
  have hodd : (Spec.Cmax % 2 == 1) = true := by rw [Cmax_val]; decide
  unfold rndQ
  rw [splitQ_of Spec.Cmax _ hφ0 hφ1, hex, hodd]
  simp only []
  cases m
  case nearestEven =>
    have hτ := hn (Or.inl rfl)
    have : fracOrd (1 + τ) = .gt ∨ fracOrd (1 + τ) = .eq := by
      unfold fracOrd
      have n1 : ¬ (1 + τ < 1 / 2) := by intro h; linarith
      rw [if_neg n1]
      split <;> simp
    rcases this with h | h <;> simp [h, roundsUp, adjZ]
  case nearestAway =>
    have hτ := hn (Or.inr rfl)
    have : fracOrd (1 + τ) = .gt ∨ fracOrd (1 + τ) = .eq := by
      unfold fracOrd
      have n1 : ¬ (1 + τ < 1 / 2) := by intro h; linarith
      rw [if_neg n1]
      split <;> simp
    rcases this with h | h <;> simp [h, roundsUp, adjZ]
  all_goals cases neg <;> simp [roundsUp, adjZ]

end RK
