/-
  D128/Proofs/Words128Div.lean — the general 128-by-128 division `uint128.div`
  (Hacker's Delight `udivdi3`: estimate from the normalised top word of the divisor and the
  halved dividend, decrement, one correction step).

  * `Nat.div_estimate`        : for n < 2^128, i ≤ 63, 2^127 ≤ d·2^i:
        n/d ≤ n/2/(d·2^i/2^64)/2^(63-i) ≤ n/d + 1
  * `U128_div_correction`     : a candidate c with c ≤ n/o ≤ c+1 is fixed by the final compare/subtract
  * `Go.conv_int64_ofNat`, `Go.bits.LeadingZeros64_spec`, `U128.w0_toNat`, `U128.w1_toNat`,
    `U128.toNat_mk_zero`, `U128_div_small_branch`
  * `U128_div_spec`           : o.toNat ≠ 0 →
        ∃ q r, Gen.U128.div n o = .ok (q, r) ∧ q.toNat = n.toNat / o.toNat ∧ r.toNat = n.toNat % o.toNat
  * `U128_div_eq`             : o.toNat ≠ 0 → Gen.U128.div n o = .ok (U128.ofNat (n/o), U128.ofNat (n%o))
  * `U128_div_zero`           : o.toNat = 0 → Gen.U128.div n o = .error .divZero
  * `U128_div_triple`         : the `@[spec]` Hoare triple (precondition o.toNat ≠ 0).
-/
import D128.Proofs.Words128Log

set_option autoImplicit false
set_option maxRecDepth 4096
open Std.Do


/-- The quotient estimate of Hacker's Delight `udivdi3` (used by `uint128.div`): dividing the
halved dividend by the normalised top word of the divisor and shifting back overestimates the
true quotient by at most one. -/
theorem Nat.div_estimate (n d i : Nat) (hn : n < 2^128) (hi : i ≤ 63)
    (hlo : 2^127 ≤ d * 2^i) :
    n / d ≤ n / 2 / (d * 2^i / 2^64) / 2^(63 - i)
      ∧ n / 2 / (d * 2^i / 2^64) / 2^(63 - i) ≤ n / d + 1 := by
  have hPQ : (2:Nat)^i * 2^(64 - i) = 2^64 := by rw [← Nat.pow_add]; congr 1; omega
  have hQ2 : (2:Nat)^(64 - i) = 2 * 2^(63 - i) := by
    rw [show 64 - i = (63 - i) + 1 by omega, Nat.pow_succ, Nat.mul_comm]
  have hPpos : 0 < (2:Nat)^i := Nat.two_pow_pos _
  have hP63 : (2:Nat)^i ≤ 2^63 := Nat.pow_le_pow_right (by omega) hi
  have hQ2le : 2 ≤ (2:Nat)^(64 - i) := by
    have := Nat.two_pow_pos (63 - i); omega
  generalize hP : (2:Nat)^i = P at *
  generalize hQ : (2:Nat)^(64 - i) = Q at *
  have hd1lo : 2^63 ≤ d * P / 2^64 := by
    rw [Nat.le_div_iff_mul_le (Nat.two_pow_pos _)]; omega
  generalize hd1 : d * P / 2^64 = d1 at *
  -- q0 = n / (d1 * Q)
  have hq0 : n / 2 / d1 / 2^(63 - i) = n / (d1 * Q) := by
    rw [Nat.div_div_eq_div_mul, Nat.div_div_eq_div_mul, hQ2]
    congr 1; ring
  rw [hq0]
  have hd1Q : d1 * 2^64 ≤ d * P := by rw [← hd1]; exact Nat.div_mul_le_self _ _
  have hd1Q' : d * P < (d1 + 1) * 2^64 := by
    rw [← hd1, Nat.mul_comm (_ + 1)]; exact Nat.lt_mul_div_succ _ (Nat.two_pow_pos _)
  have hle : d1 * Q ≤ d := by
    apply Nat.le_of_mul_le_mul_right _ hPpos
    calc d1 * Q * P = d1 * (P * Q) := by ring
      _ = d1 * 2^64 := by rw [hPQ]
      _ ≤ d * P := hd1Q
  have hlt : d < d1 * Q + Q := by
    apply Nat.lt_of_mul_lt_mul_right (a := P)
    calc d * P < (d1 + 1) * 2^64 := hd1Q'
      _ = (d1 * Q + Q) * P := by rw [← hPQ]; ring
  have hd'pos : 0 < d1 * Q := Nat.mul_pos (by omega) (by omega)
  have hdpos : 0 < d := by omega
  refine ⟨Nat.div_le_div_left hle hd'pos, ?_⟩
  -- upper bound
  have hq : n / d * d ≤ n := Nat.div_mul_le_self _ _
  have hq' : n < (n / d + 1) * d := by
    rw [Nat.mul_comm]; exact Nat.lt_mul_div_succ _ hdpos
  generalize n / d = q at *
  have hq2P : q < 2 * P := by
    have h1 : q * 2^127 ≤ q * (d * P) := Nat.mul_le_mul_left _ hlo
    have h2 : q * (d * P) = (q * d) * P := by ring
    have h3 : (q * d) * P ≤ n * P := Nat.mul_le_mul_right _ hq
    have h4 : n * P < 2^128 * P := Nat.mul_lt_mul_of_pos_right hn hPpos
    have h5 : q * 2^127 < (2 * P) * 2^127 := by
      calc q * 2^127 ≤ q * (d * P) := h1
        _ = (q * d) * P := h2
        _ ≤ n * P := h3
        _ < 2^128 * P := h4
        _ = (2 * P) * 2^127 := by ring
    exact Nat.lt_of_mul_lt_mul_right h5
  have hkey : (q + 1) * (Q - 1) ≤ d1 * Q := by
    have h1 : (q + 1) * (Q - 1) ≤ (2 * P) * (Q - 1) := Nat.mul_le_mul_right _ (by omega)
    have h2 : (2 * P) * (Q - 1) = 2 * 2^64 - 2 * P := by
      rw [Nat.mul_sub, Nat.mul_one, Nat.mul_assoc, hPQ]
    have h3 : 2^63 * Q ≤ d1 * Q := Nat.mul_le_mul_right _ hd1lo
    have h4 : 2 * 2^64 - 2 * P ≤ 2^63 * Q := by
      rcases Nat.lt_or_ge i 63 with h | h
      · have : 4 ≤ Q := by
          rw [← hQ, show 64 - i = (62 - i) + 2 by omega, Nat.pow_add]
          have := Nat.two_pow_pos (62 - i); omega
        omega
      · have hi63 : i = 63 := by omega
        subst hi63
        have : P = 2^63 := hP.symm
        have : Q = 2 := by rw [← hQ]; rfl
        omega
    omega
  rw [show q + 1 = (q + 2) - 1 by omega, Nat.le_sub_one_iff_lt (by omega),
    Nat.div_lt_iff_lt_mul hd'pos]
  have h5 : (q + 1) * d ≤ (q + 1) * (d1 * Q + (Q - 1)) := Nat.mul_le_mul_left _ (by omega)
  have h6 : (q + 1) * (d1 * Q + (Q - 1)) = (q + 1) * (d1 * Q) + (q + 1) * (Q - 1) := by ring
  have h7 : (q + 2) * (d1 * Q) = (q + 1) * (d1 * Q) + d1 * Q := by ring
  omega


/-- the final correction step of `uint128.div`: a candidate `c ∈ {q-1, q}` is fixed up by one
compare-and-subtract. -/
theorem U128_div_correction (n o : U128) (c : UInt64) (ho : o.toNat ≠ 0)
    (h1 : c.toNat ≤ n.toNat / o.toNat) (h2 : n.toNat / o.toNat ≤ c.toNat + 1) :
    ∃ q r, (if 0 ≤ Gen.U128.cmp (Gen.U128.sub n (Gen.U128.mul64 o c)).1 o then
          pure (Gen.U128.add64 { w0 := c, w1 := 0 } 1,
            (Gen.U128.sub (Gen.U128.sub n (Gen.U128.mul64 o c)).1 o).1)
        else
          pure (({ w0 := c, w1 := 0 } : U128), (Gen.U128.sub n (Gen.U128.mul64 o c)).1)
          : Go.GoM (U128 × U128)) = .ok (q, r)
      ∧ q.toNat = n.toNat / o.toNat ∧ r.toNat = n.toNat % o.toNat := by
  have hn := n.toNat_lt
  have hopos : 0 < o.toNat := Nat.pos_of_ne_zero ho
  have hdm := Nat.div_add_mod n.toNat o.toNat
  have hR := Nat.mod_lt n.toNat hopos
  have hc := c.toNat_lt
  have hc0 : (U128.mk c 0).toNat = c.toNat := by simp [U128.toNat]
  generalize hQ : n.toNat / o.toNat = Q at *
  generalize hRR : n.toNat % o.toNat = R at *
  have hQc : Q = c.toNat ∨ Q = c.toNat + 1 := by omega
  have hmul : (Gen.U128.mul64 o c).toNat = o.toNat * c.toNat := by
    apply U128_mul64_toNat_of_lt
    rcases hQc with h | h <;> subst h
    · omega
    · rw [Nat.mul_add, Nat.mul_one] at hdm; omega
  have hsub : (Gen.U128.sub n (Gen.U128.mul64 o c)).1.toNat = n.toNat - o.toNat * c.toNat := by
    rw [U128_sub_toNat_of_le, hmul]
    rw [hmul]
    rcases hQc with h | h <;> subst h
    · omega
    · rw [Nat.mul_add, Nat.mul_one] at hdm; omega
  have hge := U128_cmp_ge_zero_iff (Gen.U128.sub n (Gen.U128.mul64 o c)).1 o
  simp only [ge_iff_le] at hge
  rw [hsub] at hge
  rcases hQc with h | h <;> subst h
  · rw [if_neg (fun h => absurd (hge.mp h) (by omega))]
    exact ⟨_, _, rfl, hc0, by rw [hsub]; omega⟩
  · rw [Nat.mul_add, Nat.mul_one] at hdm
    rw [if_pos (hge.mpr (by omega))]
    refine ⟨_, _, rfl, ?_, ?_⟩
    · rw [U128_add64_toNat_of_lt] <;> simp only [hc0, UInt64.toNat_one]; omega
    · rw [U128_sub_toNat_of_le, hsub]
      · omega
      · rw [hsub]; omega

theorem Go.conv_int64_ofNat (k : Nat) (h : k < 2^63) :
    (Go.conv (Int64.ofNat k) : UInt64) = UInt64.ofNat k := by
  show UInt64.ofInt (Int64.ofNat k).toInt = UInt64.ofNat k
  rw [Int64.toInt_ofNat_of_lt h, UInt64.ofInt]
  congr 1
  omega

theorem Go.conv_leadingZeros (L : Nat) (h1 : 1 ≤ L) (h2 : L ≤ 64) :
    (Go.conv ((64 : Int64) - Int64.ofNat L) : UInt64) = UInt64.ofNat (64 - L) := by
  have e : (64 : Int64) - Int64.ofNat L = Int64.ofNat (64 - L) := by
    have h64 : Int64.ofNat 64 = (64 : Int64) := rfl
    rw [Int64.ofNat_sub _ _ h2, h64]
  rw [e, Go.conv_int64_ofNat _ (by omega)]

/-- `bits.LeadingZeros64` of a non-zero word, converted to `uint`. -/
theorem Go.bits.LeadingZeros64_spec (x : UInt64) (hx : x ≠ 0) :
    ∃ L : Nat, 1 ≤ L ∧ L ≤ 64 ∧ 2^(L-1) ≤ x.toNat ∧ x.toNat < 2^L ∧
      (Go.conv (Go.bits.LeadingZeros64 x) : UInt64).toNat = 64 - L := by
  obtain ⟨L, hL, h1, h2, hlo, hhi⟩ := Go.bits.Len64_spec x hx
  refine ⟨L, h1, h2, hlo, hhi, ?_⟩
  rw [Go.bits.LeadingZeros64, hL, Go.conv_leadingZeros L h1 h2, UInt64.toNat_ofNat']
  omega

theorem U128.w1_toNat (n : U128) : n.w1.toNat = n.toNat / 2^64 := by
  have := n.w0.toNat_lt
  simp only [U128.toNat]; omega

theorem U128.w0_toNat (n : U128) : n.w0.toNat = n.toNat % 2^64 := by
  have := n.w0.toNat_lt
  simp only [U128.toNat]; omega

theorem U128.toNat_mk_zero (x : UInt64) : (U128.mk x 0).toNat = x.toNat := by
  simp [U128.toNat]

theorem U128_div_small_branch (n : U128) (d : UInt64) (hd : 0 < d.toNat) :
    ∃ q r, (if n.w1.toNat < d.toNat then do
          let t_1 ← Go.bits.Div64 n.w1 n.w0 d
          pure (({ w0 := t_1.1, w1 := 0 } : U128), ({ w0 := t_1.2, w1 := 0 } : U128))
        else do
          let t_4 ← Go.bits.Div64 0 n.w1 d
          let t_7 ← Go.bits.Div64 t_4.2 n.w0 d
          pure ({ w0 := t_7.1, w1 := t_4.1 }, { w0 := t_7.2, w1 := 0 })) =
        Except.ok (q, r) ∧
      q.toNat = n.toNat / d.toNat ∧ r.toNat = n.toNat % d.toNat := by
  by_cases h : n.w1.toNat < d.toNat
  · obtain ⟨q0, r0, e0, hq0, hr0⟩ := Go.bits.Div64_ok n.w1 n.w0 d h
    rw [if_pos h, e0]
    refine ⟨_, _, rfl, ?_, ?_⟩
    · simp only [U128.toNat, hq0, UInt64.toNat_zero]
      rw [Nat.add_comm n.w0.toNat]; omega
    · simp only [U128.toNat, hr0, UInt64.toNat_zero]
      rw [Nat.add_comm n.w0.toNat]; omega
  · obtain ⟨q1, r1, e1, hq1, hr1⟩ := Go.bits.Div64_ok 0 n.w1 d (by simpa using hd)
    simp only [UInt64.toNat_zero, Nat.zero_mul, Nat.zero_add] at hq1 hr1
    obtain ⟨q0, r0, e0, hq0, hr0⟩ :=
      Go.bits.Div64_ok r1 n.w0 d (by rw [hr1]; exact Nat.mod_lt _ hd)
    rw [if_neg h, e1]
    simp only [bind, Except.bind]
    rw [e0]
    refine ⟨_, _, rfl, ?_, ?_⟩
    · simp only [U128.toNat, hq0, hr1, hq1]
      exact ((Nat.two_step_div _ _ _ _).1).symm
    · rw [U128.toNat_mk_zero, hr0, hr1]
      simp only [U128.toNat]
      exact ((Nat.two_step_div _ _ _ _).2).symm

/-- `uint128.div` (general 128-by-128 division): for a non-zero divisor it never panics and
returns exactly quotient and remainder. -/
theorem U128_div_spec (n o : U128) (ho : o.toNat ≠ 0) :
    ∃ q r, Gen.U128.div n o = .ok (q, r)
      ∧ q.toNat = n.toNat / o.toNat ∧ r.toNat = n.toNat % o.toNat := by
  unfold Gen.U128.div
  simp only [bne_iff_ne, ne_eq, ite_not, decide_eq_true_eq, beq_iff_eq, UInt64.lt_iff_toNat_lt,
    ge_iff_le]
  by_cases hw1 : o.w1 = 0
  · rw [if_pos hw1]
    have hon : o.toNat = o.w0.toNat := by simp [U128.toNat, hw1]
    rw [hon] at ho ⊢
    exact U128_div_small_branch n o.w0 (Nat.pos_of_ne_zero ho)
  · rw [if_neg hw1]
    obtain ⟨L, h1, h2, hlo, hhi, hi⟩ := Go.bits.LeadingZeros64_spec o.w1 hw1
    generalize (Go.conv (Go.bits.LeadingZeros64 o.w1) : UInt64) = i at *
    have hn := n.toNat_lt
    have how0 := o.w0.toNat_lt
    -- the normalised divisor
    have hoL : o.toNat < 2^L * 2^64 := by
      simp only [U128.toNat]
      have : (o.w1.toNat + 1) * 2^64 ≤ 2^L * 2^64 := Nat.mul_le_mul_right _ hhi
      omega
    have hoL' : 2^(L-1) * 2^64 ≤ o.toNat := by
      simp only [U128.toNat]
      have := Nat.mul_le_mul_right (2^64) hlo
      omega
    have hp1 : (2:Nat)^L * 2^(64 - L) = 2^64 := by rw [← Nat.pow_add]; congr 1; omega
    have hp2 : (2:Nat)^(L-1) * 2^(64 - L) = 2^63 := by rw [← Nat.pow_add]; congr 1; omega
    have hu_lt : o.toNat * 2^(64 - L) < 2^128 := by
      calc o.toNat * 2^(64 - L) < (2^L * 2^64) * 2^(64 - L) :=
            Nat.mul_lt_mul_of_pos_right hoL (Nat.two_pow_pos _)
        _ = (2^L * 2^(64 - L)) * 2^64 := by ring
        _ = 2^128 := by rw [hp1]; rfl
    have hu_ge : 2^127 ≤ o.toNat * 2^(64 - L) := by
      calc (2:Nat)^127 = (2^(L-1) * 2^(64 - L)) * 2^64 := by rw [hp2]; rfl
        _ = (2^(L-1) * 2^64) * 2^(64 - L) := by ring
        _ ≤ o.toNat * 2^(64 - L) := Nat.mul_le_mul_right _ hoL'
    have hu : (Gen.U128.lsh o i).toNat = o.toNat * 2^(64 - L) := by
      rw [U128_lsh_toNat, hi, Nat.mod_eq_of_lt hu_lt]
    have hu1 : (Gen.U128.lsh o i).w1.toNat = o.toNat * 2^(64 - L) / 2^64 := by
      rw [U128.w1_toNat, hu]
    have hu1_ge : 2^63 ≤ (Gen.U128.lsh o i).w1.toNat := by
      rw [hu1, Nat.le_div_iff_mul_le (Nat.two_pow_pos _)]; omega
    -- the halved dividend
    have hv : (Gen.U128.rsh n 1).toNat = n.toNat / 2 := by
      rw [U128_rsh_toNat]; rfl
    have hv1 : (Gen.U128.rsh n 1).w1.toNat < 2^63 := by
      rw [U128.w1_toNat, hv]; omega
    obtain ⟨q1, r1, e1, hq1, -⟩ := Go.bits.Div64_ok (Gen.U128.rsh n 1).w1 (Gen.U128.rsh n 1).w0
      (Gen.U128.lsh o i).w1 (by omega)
    have hvv : (Gen.U128.rsh n 1).w1.toNat * 2^64 + (Gen.U128.rsh n 1).w0.toNat = n.toNat / 2 := by
      rw [← hv, U128.toNat]; omega
    rw [hvv, hu1] at hq1
    rw [e1]
    simp only [bind, Except.bind]
    -- the shifted estimate
    have h63 : (63 - i).toNat = 63 - (64 - L) := by
      have h63' : (63 : UInt64).toNat = 63 := rfl
      rw [UInt64.toNat_sub_of_le _ _ (by rw [UInt64.le_iff_toNat_le, h63', hi]; omega), h63', hi]
    have hq0 : (Go.shr q1 (Go.idx (63 - i))).toNat
        = n.toNat / 2 / (o.toNat * 2^(64 - L) / 2^64) / 2^(63 - (64 - L)) := by
      rw [Go.shr_toNat, Go.idx_u64, Int.toNat_natCast, h63, hq1]
    obtain ⟨hest1, hest2⟩ := Nat.div_estimate n.toNat o.toNat (64 - L) hn (by omega) hu_ge
    rw [← hq0] at hest1 hest2
    generalize Go.shr q1 (Go.idx (63 - i)) = q0 at *
    clear hq0 hq1 hvv hv hv1 hu hu1 hu1_ge hu_lt hu_ge hp1 hp2 hoL hoL' h63 hlo hhi
    by_cases hz : q0 = 0
    · rw [if_pos hz]
      have hz' : q0.toNat = 0 := by rw [hz]; rfl
      have g1 : q0.toNat ≤ n.toNat / o.toNat := by
        generalize n.toNat / o.toNat = Q at *; omega
      have g2 : n.toNat / o.toNat ≤ q0.toNat + 1 := by
        generalize n.toNat / o.toNat = Q at *; omega
      exact U128_div_correction n o q0 ho g1 g2
    · rw [if_neg hz]
      have hz' : q0.toNat ≠ 0 := by
        intro h; apply hz; exact UInt64.toNat_inj.mp (by simpa using h)
      have hc : (q0 - 1).toNat = q0.toNat - 1 := by
        have h1' : (1 : UInt64).toNat = 1 := rfl
        rw [UInt64.toNat_sub_of_le _ _ (by rw [UInt64.le_iff_toNat_le, h1']; omega), h1']
      have g1 : (q0 - 1).toNat ≤ n.toNat / o.toNat := by
        generalize n.toNat / o.toNat = Q at *; omega
      have g2 : n.toNat / o.toNat ≤ (q0 - 1).toNat + 1 := by
        generalize n.toNat / o.toNat = Q at *; omega
      exact U128_div_correction n o (q0 - 1) ho g1 g2

/-- dividing by zero panics with Go's integer-divide-by-zero (from `bits.Div64`). -/
theorem U128_div_zero (n o : U128) (ho : o.toNat = 0) :
    Gen.U128.div n o = .error .divZero := by
  have h0 : o.w0 = 0 := by
    apply UInt64.toNat_inj.mp; simp only [U128.toNat] at ho; simp; omega
  have h1 : o.w1 = 0 := by
    apply UInt64.toNat_inj.mp; simp only [U128.toNat] at ho; simp; omega
  unfold Gen.U128.div
  simp [h0, h1, Go.bits.Div64]
  rfl

/-- equational form of `U128_div_spec`. -/
theorem U128_div_eq (n o : U128) (ho : o.toNat ≠ 0) :
    Gen.U128.div n o = .ok (U128.ofNat (n.toNat / o.toNat), U128.ofNat (n.toNat % o.toNat)) := by
  obtain ⟨q, r, e, hq, hr⟩ := U128_div_spec n o ho
  rw [e, U128.eq_ofNat_of_toNat_eq hq, U128.eq_ofNat_of_toNat_eq hr]

@[spec] theorem U128_div_triple (n o : U128) :
    ⦃⌜o.toNat ≠ 0⌝⦄ Gen.U128.div n o
    ⦃⇓ x => ⌜x.1.toNat = n.toNat / o.toNat ∧ x.2.toNat = n.toNat % o.toNat⌝⦄ := by
  by_cases ho : o.toNat ≠ 0
  · obtain ⟨q, r, e, hq, hr⟩ := U128_div_spec n o ho
    have := Go.triple_of_ok e
      (Q := fun x => x.1.toNat = n.toNat / o.toNat ∧ x.2.toNat = n.toNat % o.toNat) ⟨hq, hr⟩
    simpa [ho] using this
  · simp [Triple, ho]
