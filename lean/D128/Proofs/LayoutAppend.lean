/-
  D128/Proofs/LayoutAppend.lean — `Gen.Decimal.appendSpecial` and `Gen.Decimal.Append`.

  * `Ly.ArgsOK`, `Ly.argsOK_parseSpec` : every parsed spec has width in `[0, 10^6)` and never `0` with `-`
  * `Ly.appendSpecial_t`, `Ly.appendSpecial_unfold`, `Ly.specialValue`, `Ly.specialOut`,
    `Ly.appendSpecial_t_eq`, `Ly.specialStr`, `Ly.specialPad`, `Ly.appendSpecial_spec`
  * `Ly.append_unfold`, `Ly.decimal_append_finite`, `Ly.decimal_append_special`,
    `Ly.decimal_append_noverb`
-/
import D128.Proofs.LayoutMain
import D128.Proofs.DigitsParseBound

set_option autoImplicit false
set_option maxRecDepth 4096

namespace Ly
open Dg Gen

/-! ## what every parsed spec satisfies -/

/-- width in `[0, 10^6)`, and `0` never together with `-` -/
def ArgsOK (a : formatArgs) : Prop :=
  0 ≤ a.wid.toInt ∧ a.wid.toInt < 1000000 ∧ (a.padRight = true → a.padZero = false)

/-- the later stages do not touch width and flags -/
def SameWF (a b : formatArgs) : Prop :=
  b.wid = a.wid ∧ b.padRight = a.padRight ∧ b.padZero = a.padZero

theorem sameWF_verb (a : formatArgs) (L : List UInt8) : SameWF a (pfVerb a L) := by
  unfold pfVerb
  split <;> exact ⟨rfl, rfl, rfl⟩

theorem sameWF_precDigits (a : formatArgs) (L : List UInt8) : SameWF a (pfPrecDigits a L) := by
  induction L generalizing a with
  | nil => exact ⟨rfl, rfl, rfl⟩
  | cons c t ih =>
    rw [pfPrecDigits]
    split
    · exact sameWF_verb a _
    · split
      · exact ih _
      · exact ih _

theorem sameWF_prec (a : formatArgs) (L : List UInt8) : SameWF a (pfPrec a L) := by
  cases L with
  | nil => exact ⟨rfl, rfl, rfl⟩
  | cons c t =>
    cases t with
    | nil =>
      rw [pfPrec]
      split
      · exact ⟨rfl, rfl, rfl⟩
      · exact sameWF_verb a _
    | cons c3 t3 =>
      rw [pfPrec]
      split
      · split
        · exact sameWF_verb _ _
        · exact sameWF_precDigits _ _
      · exact sameWF_verb a _

theorem argsOK_of_same {a b : formatArgs} (h : SameWF a b) (ha : ArgsOK a) : ArgsOK b := by
  obtain ⟨h1, h2, h3⟩ := h
  unfold ArgsOK
  rw [h1, h2, h3]; exact ha

theorem argsOK_widthDigits (a : formatArgs) (L : List UInt8) (ha : ArgsOK a) :
    ArgsOK (pfWidthDigits a L) := by
  induction L generalizing a with
  | nil => exact ha
  | cons c t ih =>
    rw [pfWidthDigits]
    split
    · exact argsOK_of_same (sameWF_prec a _) ha
    · rename_i hc
      have hc' : isDig8 c = true := by unfold isDig8; simpa using hc
      split
      · rename_i hlt
        apply ih
        obtain ⟨h0, h1, h2⟩ := ha
        have e5 : (100000 : Int64).toInt = 100000 := by decide
        have hlt' : a.wid.toInt < 100000 := by
          have := of_decide_eq_true hlt
          rw [i64_lt, e5] at this; exact this
        obtain ⟨n, hn⟩ : ∃ n : Nat, a.wid.toInt = n := ⟨a.wid.toInt.toNat, by omega⟩
        have := acc_step 0 a.wid c n hn (by omega) hc'
        rw [if_pos hlt] at this
        have hd := (isDig8_iff c).mp hc'
        refine ⟨?_, ?_, h2⟩
        · show 0 ≤ (a.wid * 10 + (Go.conv (c - 48) : Int64)).toInt
          rw [this]; omega
        · show (a.wid * 10 + (Go.conv (c - 48) : Int64)).toInt < 1000000
          rw [this]; unfold dv; push_cast; omega
      · apply ih
        exact ⟨by show (0 : Int) ≤ (0 : Int64).toInt; decide,
          by show (0 : Int64).toInt < 1000000; decide, ha.2.2⟩

theorem argsOK_width (a : formatArgs) (L : List UInt8) (ha : ArgsOK a) : ArgsOK (pfWidth a L) := by
  cases L with
  | nil => exact ha
  | cons c t =>
    rw [pfWidth]
    split
    · rename_i hc
      apply argsOK_widthDigits
      have hc' : isDig8 c = true := by
        rw [isDig8_iff]
        simp only [Bool.and_eq_true, decide_eq_true_eq] at hc
        have h1 : (49 : UInt8) ≤ c := hc.1
        have h2 : c ≤ (57 : UInt8) := hc.2
        rw [UInt8.le_iff_toNat_le] at h1 h2
        have : (49 : UInt8).toNat = 49 := rfl
        have : (57 : UInt8).toNat = 57 := rfl
        omega
      have := conv_digit c hc'
      have hd := (isDig8_iff c).mp hc'
      refine ⟨?_, ?_, ha.2.2⟩
      · show 0 ≤ (Go.conv (c - 48) : Int64).toInt
        rw [this]; omega
      · show (Go.conv (c - 48) : Int64).toInt < 1000000
        rw [this]; unfold dv; omega
    · exact argsOK_of_same (sameWF_prec a _) ha

theorem argsOK_flags (a : formatArgs) (L : List UInt8) (ha : ArgsOK a) : ArgsOK (pfFlags a L) := by
  induction L generalizing a with
  | nil => exact ha
  | cons c t ih =>
    obtain ⟨h0, h1, h2⟩ := ha
    rw [pfFlags]
    split
    · exact ih _ ⟨h0, h1, h2⟩
    · split
      · exact ih _ ⟨h0, h1, h2⟩
      · split
        · exact ih _ ⟨h0, h1, h2⟩
        · split
          · exact ih _ ⟨h0, h1, fun _ => rfl⟩
          · split
            · refine ih _ ⟨h0, h1, ?_⟩
              intro hr
              show (!a.padRight) = false
              have : a.padRight = true := hr
              rw [this]; rfl
            · exact argsOK_width a _ ⟨h0, h1, h2⟩

/-- every parsed spec has a width in `[0, 10^6)` and never `0` together with `-` -/
theorem argsOK_parseSpec (L : List UInt8) : ArgsOK (parseSpec L) :=
  argsOK_flags pfInit L ⟨by decide, by decide, fun h => by cases h⟩

/-! ## `appendSpecial` -/

/-- allocation, padding and copy of `appendSpecial` (text copied from the generated source) -/
def appendSpecial_t (buf value : Go.Bytes) (width : Int64) (padRight : Bool) : Go.GoM Go.Bytes := do
  let mut buf : Go.Bytes := buf
  if ((Go.len buf) == (0 : Int64)) then
    let mut sizeHint : Int64 := (Go.len value)
    if (decide (width > sizeHint)) then
      sizeHint := width
    let t_1 ← Go.makeBytes (0 : Int) (Go.idx sizeHint)
    buf := t_1
  let mut n : Int64 := (Go.len value)
  let mut p : Int64 := (width - n)
  if (decide (p > (0 : Int64))) then
    if padRight then
      buf := (buf ++ value)
      let mut i : Int64 := n
      while (decide (i < width)) do
        buf := (buf.push (32 : UInt8))
        i := (i + (1 : Int64))
    else
      let mut i_1 : Int64 := (0 : Int64)
      while (decide (i_1 < p)) do
        buf := (buf.push (32 : UInt8))
        i_1 := (i_1 + (1 : Int64))
      buf := (buf ++ value)
  else
    buf := (buf ++ value)
  return buf

/-- the text `appendSpecial` selects for NaN and the infinities -/
def specialValue (d : Decimal) (printSign padSign : Bool) : Go.Bytes :=
  if Decimal.IsNaN d then
    (if printSign then posNaNText else if padSign then padNaNText else nanText)
  else if Decimal.Signbit d then negInfText
  else if (padSign && !printSign) then padInfText else posInfText

theorem appendSpecial_unfold (d : Decimal) (buf : Go.Bytes) (width : Int64)
    (printSign padSign padRight : Bool) :
    Decimal.appendSpecial d buf width printSign padSign padRight =
      appendSpecial_t buf (specialValue d printSign padSign) width padRight := by
  unfold Decimal.appendSpecial specialValue
  cases Decimal.IsNaN d <;> cases printSign <;> cases padSign <;> cases Decimal.Signbit d <;> rfl

/-- blank-padded special text -/
def specialOut (buf value : Go.Bytes) (W : Nat) (padRight : Bool) : Go.Bytes :=
  if W ≤ value.size then buf ++ value
  else if padRight then buf ++ value ++ Array.replicate (W - value.size) 32
  else buf ++ Array.replicate (W - value.size) 32 ++ value

theorem appendSpecial_t_eq (buf value : Go.Bytes) (width : Int64) (padRight : Bool) (W : Nat)
    (hW : width.toInt = W) (hW' : W < 2 ^ 62) (hb : buf.size < 2 ^ 62) (hv : value.size < 2 ^ 62) :
    appendSpecial_t buf value width padRight = .ok (specialOut buf value W padRight) := by
  have hlenb := len_toInt buf (by omega)
  have hlenv := len_toInt value (by omega)
  have z0 : (0 : Int64).toInt = 0 := by decide
  have hp : (width - Go.len value).toInt = W - value.size := by
    rw [i64_sub _ _ (by omega) (by omega), hW, hlenv]
  have main : ∀ b : Go.Bytes, b = buf →
      (have n : Int64 := Go.len value
       have p : Int64 := width - n
       if decide (p > 0) = true then
         if padRight = true then (do
           let __s ← forIn Lean.Loop.mk (b ++ value, n) fun (_ : Unit) (__s : Go.Bytes × Int64) =>
             if decide (__s.2 < width) = true then
               pure (ForInStep.yield (__s.1.push 32, __s.2 + 1))
             else pure (ForInStep.done (__s.1, __s.2))
           pure __s.1 : Go.GoM Go.Bytes)
         else (do
           let __s ← forIn Lean.Loop.mk (b, (0 : Int64)) fun (_ : Unit) (__s : Go.Bytes × Int64) =>
             if decide (__s.2 < p) = true then
               pure (ForInStep.yield (__s.1.push 32, __s.2 + 1))
             else pure (ForInStep.done (__s.1, __s.2))
           pure (__s.1 ++ value))
       else pure (b ++ value)) = .ok (specialOut buf value W padRight) := by
    intro b hbe
    subst hbe
    unfold specialOut
    simp only
    by_cases hpos : width - Go.len value > 0
    · have hpos' : ¬ W ≤ value.size := by
        have : (0 : Int64) < width - Go.len value := hpos
        rw [i64_lt, hp, z0] at this; omega
      simp only [hpos, decide_true, if_true, hpos', if_false]
      cases padRight
      · simp only [Bool.false_eq_true, if_false]
        rw [push_loop 32 _ _ (fun s => rfl), ok_bind, hp, z0]
        have : ((W : Int) - (value.size : Int) - 0).toNat = W - value.size := by omega
        rw [this]; rfl
      · simp only [if_true]
        rw [push_loop 32 _ _ (fun s => rfl), ok_bind, hW, hlenv]
        have : ((W : Int) - (value.size : Int)).toNat = W - value.size := by omega
        rw [this]; rfl
    · have hpos' : W ≤ value.size := by
        have : ¬ (0 : Int64) < width - Go.len value := hpos
        rw [i64_lt, hp, z0] at this; omega
      simp only [hpos, decide_false, Bool.false_eq_true, if_false, hpos', if_true]
      rfl
  unfold appendSpecial_t
  by_cases hz : (Go.len buf == 0) = true
  · have hsz : buf.size = 0 := by
      have := (i64_beq_zero _).mp hz
      rw [hlenb] at this; omega
    have hbuf : buf = #[] := Array.eq_empty_of_size_eq_zero hsz
    simp only [hz, if_true]
    by_cases hw : width > Go.len value
    · simp only [hw, decide_true, if_true]
      rw [makeBytes_eq _ _ (by omega) (by show 0 ≤ width.toInt; omega)]
      simp only [ok_bind, Int.toNat_zero, Array.replicate_zero]
      exact main #[] hbuf.symm
    · simp only [hw, decide_false, Bool.false_eq_true, if_false]
      rw [makeBytes_eq _ _ (by omega) (by show 0 ≤ (Go.len value).toInt; omega)]
      simp only [ok_bind, Int.toNat_zero, Array.replicate_zero]
      exact main #[] hbuf.symm
  · simp only [hz, Bool.false_eq_true, if_false]
    exact main buf rfl

/-- the text fmt prints for a float64 NaN / infinity under the sign flags -/
def specialStr (nan neg plus space : Bool) : Spec.Str :=
  if nan then (if plus then "+NaN".toList else if space then " NaN".toList else "NaN".toList)
  else if neg then "-Inf".toList
  else if space && !plus then " Inf".toList else "+Inf".toList

/-- blank padding of a special text to the width: on the right for `-`, else on the left (the `0`
flag does not apply to NaN and infinities) -/
def specialPad (t : Spec.Str) (W : Nat) (minus : Bool) : Spec.Str :=
  if W ≤ t.length then t
  else if minus then t ++ List.replicate (W - t.length) ' '
  else List.replicate (W - t.length) ' ' ++ t

theorem specialValue_str (d : Decimal) (ps pds : Bool) :
    bstr (specialValue d ps pds) = specialStr (Decimal.IsNaN d) (Decimal.Signbit d) ps pds := by
  unfold specialValue specialStr
  cases Decimal.IsNaN d <;> cases ps <;> cases pds <;> cases Decimal.Signbit d <;> decide

theorem specialValue_size (d : Decimal) (ps pds : Bool) : (specialValue d ps pds).size ≤ 4 := by
  unfold specialValue
  cases Decimal.IsNaN d <;> cases ps <;> cases pds <;> cases Decimal.Signbit d <;> decide

theorem specialOut_str (buf value : Go.Bytes) (W : Nat) (pr : Bool) :
    bstr (specialOut buf value W pr) = bstr buf ++ specialPad (bstr value) W pr := by
  unfold specialOut specialPad
  have hl : (bstr value).length = value.size := by simp [bstr]
  rw [hl]
  by_cases h : W ≤ value.size
  · rw [if_pos h, if_pos h, bstr_append]
  · rw [if_neg h, if_neg h]
    cases pr
    · simp only [Bool.false_eq_true, if_false]
      rw [bstr_append, bstr_append, bstr_replicate, List.append_assoc]; rfl
    · simp only [if_true]
      rw [bstr_append, bstr_append, bstr_replicate, List.append_assoc]; rfl

/-- **`appendSpecial`**: NaN and the infinities with sign flags and blank padding; no panic. -/
theorem appendSpecial_spec (d : Decimal) (buf : Go.Bytes) (width : Int64) (ps pds pr : Bool)
    (W : Nat) (hW : width.toInt = W) (hW' : W < 2 ^ 62) (hb : buf.size < 2 ^ 62) :
    ∃ r, Decimal.appendSpecial d buf width ps pds pr = .ok r ∧
      bstr r = bstr buf ++
        specialPad (specialStr (Decimal.IsNaN d) (Decimal.Signbit d) ps pds) W pr := by
  have := specialValue_size d ps pds
  refine ⟨_, by rw [appendSpecial_unfold]; exact appendSpecial_t_eq buf _ width pr W hW hW' hb (by omega), ?_⟩
  rw [specialOut_str, specialValue_str]

/-! ## `Decimal.Append` -/

theorem append_unfold (d : Decimal) (buf spec : Go.Bytes) (hs : spec.size < 2 ^ 63) :
    Decimal.Append d buf spec =
      (have args := parseSpec spec.toList
       if (args.verb == (0 : UInt8)) = true then pure (buf ++ (Go.str "%!(NOVERB)"))
       else if Decimal.isSpecial d = true then
         (if (args.verb != (118 : UInt8)) = true then
           Decimal.appendSpecial d buf (formatArgs.width args) args.printSign args.padSign args.padRight
          else Decimal.appendSpecial d buf 0 false false args.padRight)
       else (do
         let x ← Decimal.format d buf args
         pure x.2)) := by
  unfold Decimal.Append
  simp only [parseFormat_eq_toList spec _ hs, ok_bind]

/-- **`Decimal.Append` on a finite value** is `buf ++ fmtSpec (parsed spec)`: for every byte string
`spec` whose parse (`Dg.parseSpec`, = `parseFormat` by `C07.parseFormat_spec`) ends in one of the six
float verbs (the precision is absent or below `10^6` for every byte string: `Dg.precOK_parseSpec`). -/
theorem decimal_append_finite (d : Decimal) (buf spec : Go.Bytes)
    (hfin : Decimal.isSpecial d = false) (hs : spec.size < 2 ^ 63) (hb : buf.size < 2 ^ 61)
    (hv : (parseSpec spec.toList).verb = 101 ∨ (parseSpec spec.toList).verb = 69 ∨
      (parseSpec spec.toList).verb = 102 ∨ (parseSpec spec.toList).verb = 70 ∨
      (parseSpec spec.toList).verb = 103 ∨ (parseSpec spec.toList).verb = 71) :
    ∃ r, Decimal.Append d buf spec = .ok r ∧
      bstr r = bstr buf ++ Spec.fmtSpec (flagsOf (parseSpec spec.toList))
        (chr (parseSpec spec.toList).verb) (precOf (parseSpec spec.toList))
        (some (parseSpec spec.toList).wid.toInt.toNat) (Decimal.Signbit d)
        (Spec.sliceOf (coefOf d) (expoOf d)) := by
  obtain ⟨hw0, hw1, hprz⟩ := argsOK_parseSpec spec.toList
  have hprec : (parseSpec spec.toList).prec.toInt < 2 ^ 56 := by
    rcases precOK_parseSpec spec.toList with h | h <;> omega
  generalize hpa : parseSpec spec.toList = a at *
  obtain ⟨r, hr, hstr⟩ := format_spec d buf a hfin hv hprec a.wid.toInt.toNat (by omega) (by omega)
    hb hprz
  refine ⟨r, ?_, hstr⟩
  rw [append_unfold d buf spec hs, hpa]
  have hv0 : (a.verb == (0 : UInt8)) = false := by
    rcases hv with h | h | h | h | h | h <;> rw [h] <;> rfl
  simp only [hv0, Bool.false_eq_true, if_false, hfin, hr, ok_bind]
  rfl

/-- **`Decimal.Append` on NaN and the infinities**: the special text with the sign flags, blank-padded
to the width (on the right for `-`); the verb `v` ignores flags and width.  Every byte string `spec`
with a verb; no panic. -/
theorem decimal_append_special (d : Decimal) (buf spec : Go.Bytes)
    (hsp : Decimal.isSpecial d = true) (hs : spec.size < 2 ^ 63) (hb : buf.size < 2 ^ 62)
    (hv : (parseSpec spec.toList).verb ≠ 0) :
    ∃ r, Decimal.Append d buf spec = .ok r ∧
      bstr r = bstr buf ++
        (if (parseSpec spec.toList).verb = 118 then
          specialStr (Decimal.IsNaN d) (Decimal.Signbit d) false false
        else
          specialPad (specialStr (Decimal.IsNaN d) (Decimal.Signbit d)
            (parseSpec spec.toList).printSign (parseSpec spec.toList).padSign)
            (parseSpec spec.toList).wid.toInt.toNat (parseSpec spec.toList).padRight) := by
  obtain ⟨hw0, hw1, hprz⟩ := argsOK_parseSpec spec.toList
  rw [append_unfold d buf spec hs]
  generalize parseSpec spec.toList = a at *
  have hv0 : (a.verb == (0 : UInt8)) = false := by simpa using hv
  simp only [hv0, Bool.false_eq_true, if_false, hsp, if_true]
  by_cases h118 : a.verb = 118
  · have h9 : ((118 : UInt8) != (118 : UInt8)) = false := rfl
    simp only [h118, if_true, h9, Bool.false_eq_true, if_false]
    obtain ⟨r, hr, hstr⟩ := appendSpecial_spec d buf 0 false false a.padRight 0 (by decide)
      (by decide) hb
    refine ⟨r, hr, ?_⟩
    rw [hstr]
    unfold specialPad
    rw [if_pos (Nat.zero_le _)]
  · have : (a.verb != (118 : UInt8)) = true := by simpa using h118
    simp only [this, if_true, h118, if_false]
    exact appendSpecial_spec d buf (formatArgs.width a) a.printSign a.padSign a.padRight
      a.wid.toInt.toNat (by show a.wid.toInt = _; omega) (by omega) hb

/-- a spec without a verb (empty, or trailing bytes after the verb position) -/
theorem decimal_append_noverb (d : Decimal) (buf spec : Go.Bytes) (hs : spec.size < 2 ^ 63)
    (hv : (parseSpec spec.toList).verb = 0) :
    Decimal.Append d buf spec = .ok (buf ++ Go.str "%!(NOVERB)") := by
  rw [append_unfold d buf spec hs]
  simp only [hv]
  rfl

end Ly
