/-
  D128/Proofs/IntConv32.lean — `Gen.Decimal.Int32_`:
    Int32_triple, Int32_eq : Int32_ d = match Spec.sat (−2^31) (2^31−1) 𝔳[d] with
                                         | none => panic "Decimal(NaN).Int32()" | some (x, ok) => …
-/
import D128.Proofs.IntConv
set_option autoImplicit false
open Std.Do
set_option mvcgen.warning false

namespace IntConvPf
open CanonPf

/-! ## Int32 -/

theorem Int32_triple (d : Gen.Decimal) (hs : Gen.Decimal.isSpecial d = false) :
    ⦃⌜True⌝⦄ Gen.Decimal.Int32_ d
    ⦃⇓ r => ⌜r = satRes Int32.ofInt (-2147483648) 2147483647 (Gen.Decimal.Signbit d)
      (truncMag (Gen.Decimal.decompose d).1.toNat ((Gen.Decimal.decompose d).2.toInt - 6176))⌝⦄ := by
  unfold Gen.Decimal.Int32_
  simp only [hs, Bool.false_eq_true, if_false]
  mvcgen
  case inv1 => exact fun s => ⟨(-s.2.toInt).toNat⟩
  case inv2 =>
    exact ⇓ x => match x with
      | .inl s => ⌜J1 d.decompose.1.toNat (d.decompose.2.toInt - 6176) s⌝
      | .inr s => ⌜X1 d.decompose.1.toNat (d.decompose.2.toInt - 6176) s⌝
  case inv3 => exact fun s => ⟨s.2.toInt.toNat⟩
  case inv4 =>
    exact ⇓ x => match x with
      | .inl s => ⌜J2 (truncMag d.decompose.1.toNat (d.decompose.2.toInt - 6176)) s⌝
      | .inr s => ⌜X2 (truncMag d.decompose.1.toNat (d.decompose.2.toInt - 6176)) s⌝
  case vc1 h =>
    rw [early_exit _ _ (Enc.decompose_sig_le d) (Enc.decompose_exp_nonneg d)
      (Enc.decompose_exp_le d hs) h, satRes_zero _ _ _ _ (by decide) (by decide)]
    rfl
  case vc2 h35 b mb hc h q hz hq =>
    exact J1_break _ _ b h.2 q hq hc hz
  case vc3 h35 b mb hc h q hz hq =>
    have hv : mb = (-b.2.toInt).toNat := congrArg ULift.down h.1
    obtain ⟨h1, h2⟩ := J1_step _ _ b h.2 q hq hc
    exact ⟨_, rfl, by rw [hv]; exact h2, h1⟩
  case vc4 h35 b mb hc h =>
    exact J1_exit _ _ b h.2 hc
  case vc5 h35 =>
    exact J1_init _ _ (Enc.decompose_exp_nonneg d) (Enc.decompose_exp_le d hs) h35
  case vc6 h35 r hr b mb hc h =>
    have hv : mb = b.2.toInt.toNat := congrArg ULift.down h.1
    obtain ⟨h1, h2⟩ := J2_step _ b h.2 hc
    exact ⟨_, rfl, by rw [hv]; exact h2, h1⟩
  case vc7 h35 r hr b mb hc h =>
    exact J2_exit _ b h.2 hc
  case vc8 h35 r h =>
    exact J2_init _ _ r h
  case vc9 h35 r1 hr1 r hb hsg h =>
    have hT := X2_big _ r h hb
    rw [hsg, satRes_neg_big _ _ _ _ (by omega)]
    rfl
  case vc10 h35 r1 hr1 r hb hsg h =>
    have hT := X2_big _ r h hb
    simp only [Bool.not_eq_true] at hsg
    rw [hsg, satRes_pos_big _ _ _ _ (by omega) (by omega)]
    rfl
  case vc11 h35 r1 hr1 r hb hsg hw h =>
    have hT := X2_fit _ r h hb
    simp only [decide_eq_true_eq, gt_iff_lt, UInt64.lt_iff_toNat_lt, UInt64.toNat_ofNat,
      Nat.reducePow, Nat.reduceMod] at hw
    rw [hsg, satRes_neg_big _ _ _ _ (by omega)]
    rfl
  case vc12 h35 r1 hr1 r hb hsg hw hsg2 h =>
    have hT := X2_fit _ r h hb
    simp only [decide_eq_true_eq, gt_iff_lt, UInt64.lt_iff_toNat_lt, UInt64.toNat_ofNat,
      Nat.reducePow, Nat.reduceMod] at hw
    rw [hsg, satRes_neg_fit _ _ _ _ (by omega) (by omega), hT, Int32.ofInt_neg]
    show (Int32.ofInt (r.1.w0.toNat : Int) * -1, true) = _
    rw [Int32.mul_neg, Int32.mul_one]
  case vc14 h35 r1 hr1 r hb hsg hw h =>
    have hT := X2_fit _ r h hb
    simp only [Bool.not_eq_true] at hsg
    simp only [decide_eq_true_eq, gt_iff_lt, UInt64.lt_iff_toNat_lt, UInt64.toNat_ofNat,
      Nat.reducePow, Nat.reduceMod] at hw
    rw [hsg, satRes_pos_big _ _ _ _ (by omega) (by omega)]
    rfl
  case vc16 h35 r1 hr1 r hb hsg hw hsg2 h =>
    have hT := X2_fit _ r h hb
    simp only [Bool.not_eq_true] at hsg
    simp only [decide_eq_true_eq, gt_iff_lt, UInt64.lt_iff_toNat_lt, UInt64.toNat_ofNat,
      Nat.reducePow, Nat.reduceMod] at hw
    rw [hsg, satRes_pos_fit _ _ _ _ (by omega) (by omega), hT]
    rfl
  all_goals exact ExceptConds.entails.refl _

theorem Int32_eq (d : Gen.Decimal) :
    Gen.Decimal.Int32_ d =
      (match Spec.sat (-2147483648) 2147483647 (Spec.interp d.lo d.hi) with
        | none => .error (.explicit "Decimal(NaN).Int32()")
        | some (x, ok) => .ok (Int32.ofInt x, ok)) := by
  apply conv_spec_of
  · intro hn
    have hs : Gen.Decimal.isSpecial d = true := by rw [Enc.isSpecial_iff, hn]; rfl
    unfold Gen.Decimal.Int32_
    simp only [hs, hn, if_true]
    rfl
  · intro hs hn
    unfold Gen.Decimal.Int32_
    simp only [hs, hn, if_true, Bool.false_eq_true, if_false]
    cases Gen.Decimal.Signbit d <;> rfl
  · intro hs
    obtain ⟨r, hr, hq⟩ := ok_of_triple (Int32_triple d hs)
    rw [hr, hq]

end IntConvPf
